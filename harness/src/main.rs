// Line-protocol driver that answers the same requests as the Lean model driver
// (/verif/lean/Driver.lean) with the real pakhi code, in-process, under catch_unwind.
//
// Built against /repo's working tree with RUSTFLAGS="--cfg pakhi_verif".

use pakhi::backend::interpreter::{self, DataType, Interpreter, VerifGcMode};
use pakhi::common::io::IO;
use pakhi::common::pakhi_error::PakhiErr;
use pakhi::frontend::lexer::{self, Token, TokenKind};
use pakhi::frontend::parser::{self, Assignment, AssignmentKind, Expr, Primary, Stmt};
use std::collections::HashMap;
use std::io::{BufRead, Write};
use std::panic::{catch_unwind, AssertUnwindSafe};

// ------------------------------------------------------------------------------------------------
// hex helpers

fn hex_of_bytes(b: &[u8]) -> String {
    if b.is_empty() {
        return "-".to_string();
    }
    let mut s = String::with_capacity(b.len() * 2);
    for x in b {
        s.push_str(&format!("{:02x}", x));
    }
    s
}

fn hex_of_str(s: &str) -> String {
    hex_of_bytes(s.as_bytes())
}

fn bytes_of_hex(h: &str) -> Option<Vec<u8>> {
    if h == "-" {
        return Some(Vec::new());
    }
    if h.len() % 2 != 0 {
        return None;
    }
    let mut out = Vec::with_capacity(h.len() / 2);
    let b = h.as_bytes();
    for i in 0..h.len() / 2 {
        let hi = (b[2 * i] as char).to_digit(16)?;
        let lo = (b[2 * i + 1] as char).to_digit(16)?;
        out.push((hi * 16 + lo) as u8);
    }
    Some(out)
}

fn str_of_hex(h: &str) -> Option<String> {
    String::from_utf8(bytes_of_hex(h)?).ok()
}

// ------------------------------------------------------------------------------------------------
// IO that captures output; `panic` (the interpreter's way to abort through RealIO) unwinds

struct CaptureIO {
    out: String,
}

struct IoPanic(PakhiErr);

impl IO for CaptureIO {
    fn new() -> CaptureIO {
        CaptureIO { out: String::new() }
    }
    fn print(&mut self, m: &str) {
        self.out.push_str(m);
    }
    fn println(&mut self, m: &str) {
        self.out.push_str(m);
        self.out.push('\n');
    }
    fn panic(&mut self, err: PakhiErr) {
        std::panic::panic_any(IoPanic(err));
    }
}

// ------------------------------------------------------------------------------------------------
// canonical renderings shared with the Lean driver

fn tk_name(k: &TokenKind) -> String {
    match k {
        TokenKind::Num(n) => format!("Num:{:016x}", n.to_bits()),
        TokenKind::String(_) => "String".to_string(),
        TokenKind::Bool(b) => format!("Bool:{}", if *b { 1 } else { 0 }),
        TokenKind::Identifier => "Identifier".into(),
        TokenKind::If => "If".into(),
        TokenKind::Else => "Else".into(),
        TokenKind::Loop => "Loop".into(),
        TokenKind::Var => "Var".into(),
        TokenKind::Function => "Function".into(),
        TokenKind::Plus => "Plus".into(),
        TokenKind::Minus => "Minus".into(),
        TokenKind::Multiply => "Multiply".into(),
        TokenKind::Division => "Division".into(),
        TokenKind::Remainder => "Remainder".into(),
        TokenKind::At => "At".into(),
        TokenKind::Semicolon => "Semicolon".into(),
        TokenKind::Map => "Map".into(),
        TokenKind::Comment => "Comment".into(),
        TokenKind::Comma => "Comma".into(),
        TokenKind::ParenStart => "ParenStart".into(),
        TokenKind::ParenEnd => "ParenEnd".into(),
        TokenKind::CurlyBraceStart => "CurlyBraceStart".into(),
        TokenKind::CurlyBraceEnd => "CurlyBraceEnd".into(),
        TokenKind::SquareBraceStart => "SquareBraceStart".into(),
        TokenKind::SquareBraceEnd => "SquareBraceEnd".into(),
        TokenKind::Equal => "Equal".into(),
        TokenKind::LessThan => "LessThan".into(),
        TokenKind::GreaterThan => "GreaterThan".into(),
        TokenKind::EqualEqual => "EqualEqual".into(),
        TokenKind::NotEqual => "NotEqual".into(),
        TokenKind::LessThanOrEqual => "LessThanOrEqual".into(),
        TokenKind::GreaterThanOrEqual => "GreaterThanOrEqual".into(),
        TokenKind::And => "And".into(),
        TokenKind::Or => "Or".into(),
        TokenKind::Not => "Not".into(),
        TokenKind::Break => "Break".into(),
        TokenKind::Continue => "Continue".into(),
        TokenKind::Return => "Return".into(),
        TokenKind::Print => "Print".into(),
        TokenKind::Import => "Import".into(),
        TokenKind::PrintNoEOL => "PrintNoEOL".into(),
        TokenKind::EOT => "EOT".into(),
    }
}

fn status_of_err(e: &PakhiErr) -> String {
    match e {
        PakhiErr::SyntaxError(l, f, m) => format!("err syntax {} {} {}", l, hex_of_str(f), hex_of_str(m)),
        PakhiErr::TypeError(l, f, m) => format!("err type {} {} {}", l, hex_of_str(f), hex_of_str(m)),
        PakhiErr::RuntimeError(l, f, m) => format!("err runtime {} {} {}", l, hex_of_str(f), hex_of_str(m)),
        PakhiErr::UnexpectedError(m) => format!("err unexpected 0 - {}", hex_of_str(m)),
    }
}

fn sexprs(es: &Vec<Expr>) -> String {
    let v: Vec<String> = es.iter().map(sexpr).collect();
    format!("[{}]", v.join(" "))
}

fn sexpr(e: &Expr) -> String {
    match e {
        Expr::Indexing(a, i, l, _) => format!("(idx {} {} {})", sexpr(a), sexpr(i), l),
        Expr::Or(o, l, _) => format!("(or {} {} {})", sexpr(&o.left), sexpr(&o.right), l),
        Expr::And(o, l, _) => format!("(and {} {} {})", sexpr(&o.left), sexpr(&o.right), l),
        Expr::Equality(b, l, _) => format!("(eq {} {} {} {})", tk_name(&b.operator), sexpr(&b.left), sexpr(&b.right), l),
        Expr::Comparison(b, l, _) => format!("(cmp {} {} {} {})", tk_name(&b.operator), sexpr(&b.left), sexpr(&b.right), l),
        Expr::AddOrSub(b, l, _) => format!("(add {} {} {} {})", tk_name(&b.operator), sexpr(&b.left), sexpr(&b.right), l),
        Expr::MulOrDivOrRemainder(b, l, _) => format!("(mul {} {} {} {})", tk_name(&b.operator), sexpr(&b.left), sexpr(&b.right), l),
        Expr::Unary(u, l, _) => format!("(un {} {} {})", tk_name(&u.operator), sexpr(&u.right), l),
        Expr::Call(c, l, _) => format!("(call {} {} {})", sexpr(&c.expr), sexprs(&c.arguments), l),
        Expr::Primary(p, l, _) => match p {
            Primary::Nil => format!("(nil {})", l),
            Primary::Bool(b) => format!("(bool {} {})", if *b { 1 } else { 0 }, l),
            Primary::Num(n) => format!("(num {:016x} {})", n.to_bits(), l),
            Primary::String(s) => format!("(str {} {})", hex_of_str(s), l),
            Primary::List(es) => format!("(list {} {})", sexprs(es), l),
            Primary::NamelessRecord((ks, vs)) => format!("(rec {} {} {})", sexprs(ks), sexprs(vs), l),
            Primary::Var(t) => {
                let lx: String = t.lexeme.iter().collect();
                format!("(var {} {} {})", hex_of_str(&lx), t.line, l)
            }
            Primary::Group(g) => format!("(grp {} {})", sexpr(g), l),
        },
    }
}

fn sassign(a: &Assignment, l: u32) -> String {
    let k = match a.kind {
        AssignmentKind::FirstAssignment => "first",
        AssignmentKind::Reassignment => "re",
    };
    let lx: String = a.var_name.lexeme.iter().collect();
    let idx: Vec<String> = a.indexes.iter().map(sexpr).collect();
    let init = match &a.init_value {
        Some(e) => sexpr(e),
        None => "-".to_string(),
    };
    format!("(assign {} {} [{}] {} {})", k, hex_of_str(&lx), idx.join(" "), init, l)
}

fn sstmt(s: &Stmt) -> String {
    match s {
        Stmt::Print(e, l, _) => format!("(print {} {})", sexpr(e), l),
        Stmt::PrintNoEOL(e, l, _) => format!("(printn {} {})", sexpr(e), l),
        Stmt::Assignment(a, l, _) => sassign(a, *l),
        Stmt::Expression(e, l, _) => format!("(expr {} {})", sexpr(e), l),
        Stmt::BlockStart(l, _) => format!("(bs {})", l),
        Stmt::BlockEnd(l, _) => format!("(be {})", l),
        Stmt::FuncDef(l, _) => format!("(fd {})", l),
        Stmt::Return(e, l, _) => format!("(ret {} {})", sexpr(e), l),
        Stmt::If(e, l, _) => format!("(if {} {})", sexpr(e), l),
        Stmt::Loop(l, _) => format!("(loop {})", l),
        Stmt::Continue(l, _) => format!("(cont {})", l),
        Stmt::Break(l, _) => format!("(brk {})", l),
        Stmt::Else(l, _) => format!("(else {})", l),
        Stmt::EOS(l, _) => format!("(eos {})", l),
    }
}

fn tok_line(t: &Token) -> String {
    let payload = match &t.kind {
        TokenKind::String(s) => hex_of_str(s),
        _ => {
            let lx: String = t.lexeme.iter().collect();
            hex_of_str(&lx)
        }
    };
    format!("{}|{}|{}", tk_name(&t.kind), payload, t.line)
}

// ------------------------------------------------------------------------------------------------
// values / heaps for GC

fn val_str(v: &DataType) -> String {
    match v {
        DataType::Num(n) => format!("n{:016x}", n.to_bits()),
        DataType::Bool(b) => if *b { "b1".into() } else { "b0".into() },
        DataType::String(s) => format!("s{}", hex_of_str(s)),
        DataType::List(i) => format!("l{}", i),
        DataType::NamelessRecord(i) => format!("r{}", i),
        DataType::Function(_) => "f".into(),
        DataType::Nil => "z".into(),
    }
}

fn parse_val(t: &str) -> Option<DataType> {
    let (h, r) = t.split_at(1);
    match h {
        "n" => Some(DataType::Num(f64::from_bits(u64::from_str_radix(r, 16).ok()?))),
        "b" => Some(DataType::Bool(r == "1")),
        "s" => Some(DataType::String(str_of_hex(r)?)),
        "l" => Some(DataType::List(r.parse().ok()?)),
        "r" => Some(DataType::NamelessRecord(r.parse().ok()?)),
        "z" => Some(DataType::Nil),
        _ => None,
    }
}

fn groups(t: &str) -> Vec<String> {
    if t.is_empty() {
        Vec::new()
    } else {
        t.split(';').map(|g| if g == "." { String::new() } else { g.to_string() }).collect()
    }
}

fn show_groups(gs: Vec<String>) -> String {
    let v: Vec<String> = gs.into_iter().map(|g| if g.is_empty() { ".".to_string() } else { g }).collect();
    v.join(";")
}

fn parse_vals(t: &str) -> Option<Vec<DataType>> {
    if t.is_empty() {
        return Some(Vec::new());
    }
    t.split(',').map(parse_val).collect()
}

fn parse_entries(t: &str) -> Option<Vec<(String, DataType)>> {
    if t.is_empty() {
        return Some(Vec::new());
    }
    t.split(',')
        .map(|kv| {
            let mut it = kv.split('=');
            let k = str_of_hex(it.next()?)?;
            let v = parse_val(it.next()?)?;
            Some((k, v))
        })
        .collect()
}

fn parse_nats(t: &str) -> Option<Vec<usize>> {
    if t.is_empty() {
        return Some(Vec::new());
    }
    t.split(',').map(|x| x.parse().ok()).collect()
}

fn kv<'a>(args: &'a [&'a str], key: &str) -> Option<&'a str> {
    let p = format!("{}=", key);
    args.iter().find(|a| a.starts_with(&p)).map(|a| &a[p.len()..])
}

fn heap_str(lists: &Vec<Vec<DataType>>, records: &Vec<HashMap<String, DataType>>, fl: &Vec<usize>, fr: &Vec<usize>) -> String {
    let ls = show_groups(lists.iter().map(|l| l.iter().map(val_str).collect::<Vec<_>>().join(",")).collect());
    let rs = show_groups(
        records
            .iter()
            .map(|r| {
                let mut es: Vec<(String, String)> = r.iter().map(|(k, v)| (hex_of_str(k), val_str(v))).collect();
                es.sort();
                es.into_iter().map(|(k, v)| format!("{}={}", k, v)).collect::<Vec<_>>().join(",")
            })
            .collect(),
    );
    let mut fl = fl.clone();
    fl.sort();
    let mut fr = fr.clone();
    fr.sort();
    format!(
        "lists={} records={} freeL={} freeR={}",
        ls,
        rs,
        fl.iter().map(|x| x.to_string()).collect::<Vec<_>>().join(","),
        fr.iter().map(|x| x.to_string()).collect::<Vec<_>>().join(",")
    )
}

// ------------------------------------------------------------------------------------------------

struct DState {
    root: String,
}

impl DState {
    fn main_path(&self) -> String {
        format!("{}/main.pakhi", self.root)
    }
}

fn fs_listing(root: &str) -> String {
    let mut items: Vec<String> = Vec::new();
    fn walk(dir: &std::path::Path, items: &mut Vec<String>) {
        if let Ok(rd) = std::fs::read_dir(dir) {
            for e in rd.flatten() {
                let p = e.path();
                let ps = match p.to_str() {
                    Some(s) => s.to_string(),
                    None => continue,
                };
                let md = match std::fs::symlink_metadata(&p) {
                    Ok(m) => m,
                    Err(_) => continue,
                };
                if md.is_dir() {
                    items.push(format!("{}:d", hex_of_str(&ps)));
                    walk(&p, items);
                } else {
                    match std::fs::read(&p) {
                        Ok(bytes) => match String::from_utf8(bytes) {
                            Ok(s) => items.push(format!("{}:f{}", hex_of_str(&ps), hex_of_str(&s))),
                            Err(_) => items.push(format!("{}:f!", hex_of_str(&ps))),
                        },
                        Err(_) => items.push(format!("{}:f!", hex_of_str(&ps))),
                    }
                }
            }
        }
    }
    walk(std::path::Path::new(root), &mut items);
    items.sort();
    items.join(",")
}

fn gc_mode_of(t: &str) -> VerifGcMode {
    if t == "never" {
        VerifGcMode::Never
    } else if t == "always" {
        VerifGcMode::Always
    } else if let Some(m) = t.strip_prefix("mask:") {
        VerifGcMode::Mask(m.chars().map(|c| c == '1').collect())
    } else {
        VerifGcMode::Native
    }
}

fn tok_of_code(c: char, file: &str) -> Option<Token> {
    let mk = |k: TokenKind, lx: &str| Some(Token { kind: k, lexeme: lx.chars().collect(), line: 1, src_file_path: file.to_string() });
    match c {
        'n' => mk(TokenKind::Num(1.0), "১"),
        's' => mk(TokenKind::String("s".to_string()), "s"),
        'i' => mk(TokenKind::Identifier, "ক"),
        'I' => mk(TokenKind::If, "যদি"),
        'E' => mk(TokenKind::Else, "অথবা"),
        'L' => mk(TokenKind::Loop, "লুপ"),
        'V' => mk(TokenKind::Var, "নাম"),
        'F' => mk(TokenKind::Function, "ফাং"),
        '+' => mk(TokenKind::Plus, "+"),
        '-' => mk(TokenKind::Minus, "-"),
        '*' => mk(TokenKind::Multiply, "*"),
        '/' => mk(TokenKind::Division, "/"),
        '%' => mk(TokenKind::Remainder, "%"),
        '@' => mk(TokenKind::At, "@"),
        ';' => mk(TokenKind::Semicolon, ";"),
        'm' => mk(TokenKind::Map, "->"),
        '#' => mk(TokenKind::Comment, "##"),
        ',' => mk(TokenKind::Comma, ","),
        '(' => mk(TokenKind::ParenStart, "("),
        ')' => mk(TokenKind::ParenEnd, ")"),
        '{' => mk(TokenKind::CurlyBraceStart, "{"),
        '}' => mk(TokenKind::CurlyBraceEnd, "}"),
        '[' => mk(TokenKind::SquareBraceStart, "["),
        ']' => mk(TokenKind::SquareBraceEnd, "]"),
        '=' => mk(TokenKind::Equal, "="),
        '<' => mk(TokenKind::LessThan, "<"),
        '>' => mk(TokenKind::GreaterThan, ">"),
        'q' => mk(TokenKind::EqualEqual, "=="),
        'x' => mk(TokenKind::NotEqual, "!="),
        'l' => mk(TokenKind::LessThanOrEqual, "<="),
        'g' => mk(TokenKind::GreaterThanOrEqual, ">="),
        '&' => mk(TokenKind::And, "&"),
        '|' => mk(TokenKind::Or, "|"),
        '!' => mk(TokenKind::Not, "!"),
        't' => mk(TokenKind::Bool(true), "সত্য"),
        'f' => mk(TokenKind::Bool(false), "মিথ্যা"),
        'B' => mk(TokenKind::Break, "থামাও"),
        'C' => mk(TokenKind::Continue, "আবার"),
        'R' => mk(TokenKind::Return, "ফেরত"),
        'P' => mk(TokenKind::Print, "দেখাও"),
        'M' => mk(TokenKind::Import, "মডিউল"),
        'p' => mk(TokenKind::PrintNoEOL, "_দেখাও"),
        '$' => Some(Token { kind: TokenKind::EOT, lexeme: Vec::new(), line: 0, src_file_path: file.to_string() }),
        _ => None,
    }
}

fn run_program(d: &DState, src: &str, args: &[&str]) -> String {
    // rel=1: start the interpreter as `pakhi main.pakhi` from inside the root directory (bare, relative main path)
    let main_path = if kv(args, "rel").is_some() {
        if std::env::set_current_dir(&d.root).is_err() {
            return "out=- status=harness-error-chdir".to_string();
        }
        "main.pakhi".to_string()
    } else {
        d.main_path()
    };
    let steps: usize = kv(args, "steps").and_then(|s| s.parse().ok()).unwrap_or(2_000_000);
    let mode = gc_mode_of(kv(args, "gc").unwrap_or("native"));
    let want_fs = kv(args, "fs").is_some();
    let want_heap = kv(args, "heap").is_some();

    let tokens = match lexer::tokenize(src.chars().collect(), main_path.clone()) {
        Ok(t) => t,
        Err(e) => return format!("out=- status={}", status_of_err(&e)),
    };
    let ast = match parser::parse(main_path, tokens) {
        Ok(a) => a,
        Err(e) => return format!("out=- status={}", status_of_err(&e)),
    };
    let mut io = CaptureIO::new();
    let (status, extra) = {
        let mut it = Interpreter::new(ast, &mut io);
        it.verif_set_gc_mode(mode);
        it.verif_set_step_limit(steps);
        let r = catch_unwind(AssertUnwindSafe(|| it.run()));
        match r {
            Ok(Ok(())) => {
                let mut extra = String::new();
                if want_heap {
                    let s = it.verif_snapshot();
                    // dupL / dupR: slots that sit on a free list more than once (reclaimed twice: C08 "each exactly once")
                    let dups = |v: &Vec<usize>| { let mut w = v.clone(); w.sort(); w.dedup(); v.len() - w.len() };
                    extra = format!(
                        " nlists={} nfreeL={} nrecords={} nfreeR={} colls={} dupL={} dupR={}",
                        s.lists.len(),
                        s.free_lists.len(),
                        s.records.len(),
                        s.free_records.len(),
                        s.native_collections + s.forced_collections,
                        dups(&s.free_lists),
                        dups(&s.free_records)
                    );
                }
                ("ok".to_string(), extra)
            }
            Ok(Err(e)) => {
                if let PakhiErr::UnexpectedError(m) = &e {
                    if m == "verif: step limit" {
                        ("fuel".to_string(), String::new())
                    } else {
                        (status_of_err(&e), String::new())
                    }
                } else {
                    (status_of_err(&e), String::new())
                }
            }
            Err(payload) => {
                if let Some(p) = payload.downcast_ref::<IoPanic>() {
                    (status_of_err(&p.0), String::new())
                } else {
                    let msg = if let Some(s) = payload.downcast_ref::<String>() {
                        s.clone()
                    } else if let Some(s) = payload.downcast_ref::<&str>() {
                        s.to_string()
                    } else {
                        "?".to_string()
                    };
                    (format!("panic {}", msg.replace(' ', "_").replace('\n', "_")), String::new())
                }
            }
        }
    };
    let fs = if want_fs && status == "ok" { format!(" fs={}", fs_listing(&d.root)) } else { String::new() };
    format!("out={} status={}{}{}", hex_of_str(&io.out), status, fs, extra)
}

fn under_root(d: &DState, p: &str) -> bool {
    p.starts_with(&format!("{}/", d.root)) && !p.contains("/../") && !p.ends_with("/..")
}

fn handle(d: &mut DState, line: &str) -> String {
    let parts: Vec<&str> = line.trim().split(' ').collect();
    match parts[0] {
        "ROOT" => {
            if let Some(p) = parts.get(1).and_then(|h| str_of_hex(h)) {
                d.root = p;
                let _ = std::fs::create_dir_all(&d.root);
                "ok".into()
            } else {
                "bad-request".into()
            }
        }
        "RESET" => {
            if d.root.starts_with("/var/tmp/") || d.root.starts_with("/tmp/") {
                let _ = std::fs::remove_dir_all(&d.root);
                let _ = std::fs::create_dir_all(&d.root);
            }
            "ok".into()
        }
        "FILE" | "BADFILE" | "BADNAME" | "DIR" => {
            let p = match parts.get(1).and_then(|h| str_of_hex(h)) {
                Some(p) => p,
                None => return "bad-request".into(),
            };
            if !under_root(d, &p) {
                return "bad-request".into();
            }
            let path = std::path::Path::new(&p);
            if parts[0] == "DIR" {
                let _ = std::fs::create_dir_all(path);
                return "ok".into();
            }
            if let Some(parent) = path.parent() {
                let _ = std::fs::create_dir_all(parent);
            }
            match parts[0] {
                "FILE" => {
                    let c = match parts.get(2).and_then(|h| bytes_of_hex(h)) {
                        Some(c) => c,
                        None => return "bad-request".into(),
                    };
                    let _ = std::fs::write(path, c);
                }
                "BADFILE" => {
                    let _ = std::fs::write(path, [0xffu8, 0xfe, 0x41]);
                }
                _ => {
                    // BADNAME: an entry in the same directory whose name is not valid UTF-8
                    use std::os::unix::ffi::OsStrExt;
                    let dir = path.parent().unwrap_or(std::path::Path::new("/"));
                    let name = std::ffi::OsStr::from_bytes(&[0x62, 0xff, 0x64]);
                    let _ = std::fs::write(dir.join(name), b"");
                }
            }
            "ok".into()
        }
        "LEX" => {
            let src = match parts.get(1).and_then(|h| str_of_hex(h)) {
                Some(s) => s,
                None => return "bad-request".into(),
            };
            match lexer::tokenize(src.chars().collect(), "main.pakhi".to_string()) {
                Ok(toks) => format!("ok {}", toks.iter().map(tok_line).collect::<Vec<_>>().join(" ")),
                Err(e) => status_of_err(&e),
            }
        }
        "PARSE" => {
            let src = match parts.get(1).and_then(|h| str_of_hex(h)) {
                Some(s) => s,
                None => return "bad-request".into(),
            };
            let main_path = d.main_path();
            match lexer::tokenize(src.chars().collect(), main_path.clone()) {
                Ok(toks) => match parser::parse(main_path, toks) {
                    Ok(prog) => format!("ok {}", prog.iter().map(sstmt).collect::<Vec<_>>().join(" ")),
                    Err(e) => status_of_err(&e),
                },
                Err(e) => format!("lex-{}", status_of_err(&e)),
            }
        }
        "PARSETOKS" => {
            let codes = parts.get(1).cloned().unwrap_or("-");
            let main_path = d.main_path();
            let toks: Option<Vec<Token>> = if codes == "-" { Some(Vec::new()) } else { codes.chars().map(|c| tok_of_code(c, &main_path)).collect() };
            match toks {
                Some(toks) => {
                    if toks.is_empty() {
                        return "panic empty-token-list".into();
                    }
                    match parser::parse(main_path, toks) {
                        Ok(prog) => format!("ok {}", prog.iter().map(sstmt).collect::<Vec<_>>().join(" ")),
                        Err(e) => status_of_err(&e),
                    }
                }
                None => "bad-request".into(),
            }
        }
        "RUN" => {
            let src = match parts.get(1).and_then(|h| str_of_hex(h)) {
                Some(s) => s,
                None => return "bad-request".into(),
            };
            run_program(d, &src, &parts[2..])
        }
        "GC" => {
            let args = &parts[1..];
            let sc: Option<Vec<Vec<(String, DataType)>>> = groups(kv(args, "scopes").unwrap_or("")).iter().map(|g| parse_entries(g)).collect();
            let ls: Option<Vec<Vec<DataType>>> = groups(kv(args, "lists").unwrap_or("")).iter().map(|g| parse_vals(g)).collect();
            let rs: Option<Vec<Vec<(String, DataType)>>> = groups(kv(args, "records").unwrap_or("")).iter().map(|g| parse_entries(g)).collect();
            let fl = parse_nats(kv(args, "freeL").unwrap_or(""));
            let fr = parse_nats(kv(args, "freeR").unwrap_or(""));
            match (sc, ls, rs, fl, fr) {
                (Some(sc), Some(mut ls), Some(rs), Some(mut fl), Some(mut fr)) => {
                    let mut scopes: Vec<HashMap<String, Option<DataType>>> =
                        sc.into_iter().map(|s| s.into_iter().map(|(k, v)| (k, Some(v))).collect()).collect();
                    let mut records: Vec<HashMap<String, DataType>> = rs.into_iter().map(|r| r.into_iter().collect()).collect();
                    interpreter::verif_collect(&mut scopes, &mut ls, &mut fl, &mut records, &mut fr);
                    format!("ok {}", heap_str(&ls, &records, &fl, &fr))
                }
                _ => "bad-request".into(),
            }
        }
        "NUMFMT" => match parts.get(1).and_then(|h| u64::from_str_radix(h, 16).ok()) {
            Some(b) => format!("ok {}", hex_of_str(&format!("{}", f64::from_bits(b)))),
            None => "bad-request".into(),
        },
        "NUMPARSE" => match parts.get(1).and_then(|h| str_of_hex(h)) {
            Some(t) => match t.parse::<f64>() {
                Ok(x) => {
                    let bits = if x.is_nan() { 0x7ff8000000000000u64 } else { x.to_bits() };
                    format!("ok {:016x}", bits)
                }
                Err(_) => "none".into(),
            },
            None => "bad-request".into(),
        },
        "FMOD" => {
            let a = parts.get(1).and_then(|h| u64::from_str_radix(h, 16).ok());
            let b = parts.get(2).and_then(|h| u64::from_str_radix(h, 16).ok());
            match (a, b) {
                (Some(a), Some(b)) => {
                    let r = f64::from_bits(a) % f64::from_bits(b);
                    let bits = if r.is_nan() { 0x7ff8000000000000u64 } else { r.to_bits() };
                    format!("ok {:016x}", bits)
                }
                _ => "bad-request".into(),
            }
        }
        "CHARCLASS" => match parts.get(1).and_then(|h| str_of_hex(h)) {
            Some(cs) => {
                let mut s = String::from("ok ");
                for c in cs.chars() {
                    let ident = if c == '-' || c == '_' || c == '/' { true } else { !c.is_ascii_whitespace() && !c.is_ascii_punctuation() && !c.is_ascii_control() };
                    for b in [c.is_numeric(), c.is_ascii_punctuation(), c.is_ascii_whitespace(), c.is_ascii_control(), ident, c.is_whitespace()] {
                        s.push(if b { '1' } else { '0' });
                    }
                }
                s
            }
            None => "bad-request".into(),
        },
        _ => "bad-request".into(),
    }
}

fn main() {
    // panics are expected results here: keep stderr quiet
    std::panic::set_hook(Box::new(|_| {}));
    let stdin = std::io::stdin();
    let stdout = std::io::stdout();
    let mut out = stdout.lock();
    let mut d = DState { root: "/var/tmp/pakhi-verif-root".to_string() };
    for line in stdin.lock().lines() {
        let line = match line {
            Ok(l) => l,
            Err(_) => break,
        };
        let ans = match catch_unwind(AssertUnwindSafe(|| handle(&mut d, &line))) {
            Ok(a) => a,
            Err(payload) => {
                let msg = if let Some(s) = payload.downcast_ref::<String>() {
                    s.clone()
                } else if let Some(s) = payload.downcast_ref::<&str>() {
                    s.to_string()
                } else {
                    "?".to_string()
                };
                format!("panic {}", msg.replace(' ', "_").replace('\n', "_"))
            }
        };
        let _ = writeln!(out, "{}", ans);
        let _ = out.flush();
    }
}
