/-
  Line-protocol driver for the Pakhi model (`lean_exe pakhi_model`).
  One request per line on stdin, one answer per line on stdout.  Text payloads are hex-encoded
  UTF-8.  The Rust harness (`/verif/harness`) answers the same requests with the real code.
-/
import Pakhi

open Pakhi

/-! ### hex / text helpers -/

def hexDigit (n : Nat) : Char := if n < 10 then Char.ofNat (48 + n) else Char.ofNat (87 + n)

def hexOfBytes (b : ByteArray) : String := Id.run do
  let mut cs : Array Char := Array.mkEmpty (b.size * 2)
  for x in b do
    cs := cs.push (hexDigit (x.toNat / 16))
    cs := cs.push (hexDigit (x.toNat % 16))
  return String.ofList cs.toList

def hexOfStr (s : Str) : String :=
  let h := hexOfBytes (String.ofList s).toUTF8
  if h.isEmpty then "-" else h

def hexVal (c : Char) : Option Nat :=
  if '0' ≤ c && c ≤ '9' then some (c.toNat - 48)
  else if 'a' ≤ c && c ≤ 'f' then some (c.toNat - 87)
  else if 'A' ≤ c && c ≤ 'F' then some (c.toNat - 55)
  else none

def bytesOfHex (h : String) : Option ByteArray := Id.run do
  if h == "-" then return some ByteArray.empty
  let cs := h.toList.toArray
  if cs.size % 2 != 0 then return none
  let mut out := ByteArray.empty
  for i in [0:cs.size/2] do
    match hexVal cs[2*i]!, hexVal cs[2*i+1]! with
    | some a, some b => out := out.push (UInt8.ofNat (a * 16 + b))
    | _, _ => return none
  return some out

def strOfHex (h : String) : Option Str :=
  match bytesOfHex h with
  | some b => (String.fromUTF8? b).map (·.toList)
  | none => none

def hex16 (b : UInt64) : String :=
  String.ofList ((List.range 16).map (fun i => hexDigit ((b.toNat / 16 ^ (15 - i)) % 16)))

def bitsOfHex (h : String) : Option UInt64 :=
  h.toList.foldl (fun acc c => match acc, hexVal c with
    | some a, some v => some (a * 16 + v)
    | _, _ => none) (some 0) |>.map UInt64.ofNat

/-! ### canonical renderings shared with the Rust harness -/

def tkName : TK → String
  | .num b => "Num:" ++ hex16 b | .str _ => "String" | .ident => "Identifier"
  | .kIf => "If" | .kElse => "Else" | .kLoop => "Loop" | .kVar => "Var" | .kFunc => "Function"
  | .plus => "Plus" | .minus => "Minus" | .mul => "Multiply" | .div => "Division" | .rem => "Remainder"
  | .at => "At" | .semi => "Semicolon" | .map => "Map" | .comment => "Comment" | .comma => "Comma"
  | .lparen => "ParenStart" | .rparen => "ParenEnd" | .lcurly => "CurlyBraceStart"
  | .rcurly => "CurlyBraceEnd" | .lsq => "SquareBraceStart" | .rsq => "SquareBraceEnd"
  | .eq => "Equal" | .lt => "LessThan" | .gt => "GreaterThan" | .eqeq => "EqualEqual"
  | .ne => "NotEqual" | .le => "LessThanOrEqual" | .ge => "GreaterThanOrEqual"
  | .and => "And" | .or => "Or" | .not => "Not"
  | .bool b => if b then "Bool:1" else "Bool:0"
  | .brk => "Break" | .cont => "Continue" | .ret => "Return" | .print => "Print"
  | .import => "Import" | .printNoEOL => "PrintNoEOL" | .eot => "EOT"

def clsName : ErrClass → String
  | .syntax => "syntax" | .type => "type" | .runtime => "runtime" | .unexpected => "unexpected"

def outHex (o : List Out) : String :=
  let cs : Str := (o.reverse.map (fun x => match x with
    | .text s => s
    | .recStart => [Char.ofNat 0xE000]
    | .entStart => [Char.ofNat 0xE001]
    | .entEnd => [Char.ofNat 0xE002]
    | .recEnd => [Char.ofNat 0xE003])).flatten
  hexOfStr cs

def statusOf {α : Type} (r : Res α) (msg : Bool) : String :=
  match r with
  | .ok _ => "ok"
  | .err e => s!"err {clsName e.cls} {e.line} {hexOfStr e.file} " ++ (if msg then hexOfStr e.msg else "-")
  | .panic s => "panic " ++ (s.replace " " "_")
  | .fuel => "fuel"

mutual
partial def sexpr : Expr → String
  | .indexing e i m => s!"(idx {sexpr e} {sexpr i} {m.line})"
  | .or l r m => s!"(or {sexpr l} {sexpr r} {m.line})"
  | .and l r m => s!"(and {sexpr l} {sexpr r} {m.line})"
  | .equality op l r m => s!"(eq {tkName op} {sexpr l} {sexpr r} {m.line})"
  | .comparison op l r m => s!"(cmp {tkName op} {sexpr l} {sexpr r} {m.line})"
  | .addsub op l r m => s!"(add {tkName op} {sexpr l} {sexpr r} {m.line})"
  | .muldiv op l r m => s!"(mul {tkName op} {sexpr l} {sexpr r} {m.line})"
  | .unary op r m => s!"(un {tkName op} {sexpr r} {m.line})"
  | .call f a m => s!"(call {sexpr f} {sexprs a} {m.line})"
  | .nil m => s!"(nil {m.line})"
  | .bool b m => s!"(bool {if b then 1 else 0} {m.line})"
  | .num b m => s!"(num {hex16 b} {m.line})"
  | .str s m => s!"(str {hexOfStr s} {m.line})"
  | .list es m => s!"(list {sexprs es} {m.line})"
  | .record ks vs m => s!"(rec {sexprs ks} {sexprs vs} {m.line})"
  | .var t m => s!"(var {hexOfStr t.lexeme} {t.line} {m.line})"
  | .group e m => s!"(grp {sexpr e} {m.line})"
partial def sexprs (es : Exprs) : String :=
  "[" ++ " ".intercalate (es.toList.map sexpr) ++ "]"
end

def sstmt : Stmt → String
  | .print e m => s!"(print {sexpr e} {m.line})"
  | .printNoEOL e m => s!"(printn {sexpr e} {m.line})"
  | .assign a m =>
    let k := match a.kind with | .first => "first" | .re => "re"
    let init := match a.init with | some e => sexpr e | none => "-"
    s!"(assign {k} {hexOfStr a.var.lexeme} [{" ".intercalate (a.indexes.map sexpr)}] {init} {m.line})"
  | .expr e m => s!"(expr {sexpr e} {m.line})"
  | .blockStart m => s!"(bs {m.line})"
  | .blockEnd m => s!"(be {m.line})"
  | .funcDef m => s!"(fd {m.line})"
  | .ret e m => s!"(ret {sexpr e} {m.line})"
  | .if c m => s!"(if {sexpr c} {m.line})"
  | .loop m => s!"(loop {m.line})"
  | .cont m => s!"(cont {m.line})"
  | .brk m => s!"(brk {m.line})"
  | .else m => s!"(else {m.line})"
  | .eos m => s!"(eos {m.line})"

/-! ### values / heaps for the `GC` request -/

def valStr : Val → String
  | .num b => "n" ++ hex16 b
  | .bool b => if b then "b1" else "b0"
  | .str s => "s" ++ hexOfStr s
  | .list i => s!"l{i}"
  | .record i => s!"r{i}"
  | .func r ps => s!"f{r}/{ps.length}"
  | .nil => "z"

def parseVal (t : String) : Option Val :=
  match t.toList with
  | 'n' :: r => (bitsOfHex (String.ofList r)).map .num
  | ['b', '1'] => some (.bool true)
  | ['b', '0'] => some (.bool false)
  | 's' :: r => (strOfHex (String.ofList r)).map .str
  | 'l' :: r => (String.ofList r).toNat?.map .list
  | 'r' :: r => (String.ofList r).toNat?.map .record
  | ['z'] => some .nil
  | _ => none

/-- `v,v,v` (empty string = no values) -/
def parseVals (t : String) : Option (List Val) :=
  if t.isEmpty then some [] else (t.splitOn ",").mapM parseVal

/-- `k=v,k=v` with hex keys -/
def parseEntries (t : String) : Option (List (Str × Val)) :=
  if t.isEmpty then some [] else
  (t.splitOn ",").mapM (fun kv => match kv.splitOn "=" with
    | [k, v] => match strOfHex k, parseVal v with
      | some k, some v => some (k, v)
      | _, _ => none
    | _ => none)

/-- `a;b;c` groups; the empty string is zero groups, `.` is one empty group -/
def groups (t : String) : List String :=
  if t.isEmpty then [] else (t.splitOn ";").map (fun g => if g == "." then "" else g)

def showGroups (gs : List String) : String :=
  if gs.isEmpty then "" else ";".intercalate (gs.map (fun g => if g.isEmpty then "." else g))

def parseNats (t : String) : Option (List Nat) :=
  if t.isEmpty then some [] else (t.splitOn ",").mapM (·.toNat?)

def sortNats (l : List Nat) : List Nat := (l.toArray.qsort (· < ·)).toList

def sortEntries (r : List (Str × Val)) : List (Str × Val) :=
  (r.toArray.qsort (fun a b => hexOfStr a.1 < hexOfStr b.1)).toList

def heapStr (h : Heap) : String :=
  let ls := showGroups (h.lists.map (fun l => ",".intercalate (l.map valStr)))
  let rs := showGroups (h.records.map (fun r => ",".intercalate ((sortEntries r).map (fun kv => hexOfStr kv.1 ++ "=" ++ valStr kv.2))))
  let fl := ",".intercalate ((sortNats h.freeLists).map toString)
  let fr := ",".intercalate ((sortNats h.freeRecords).map toString)
  s!"lists={ls} records={rs} freeL={fl} freeR={fr}"

/-! ### driver state -/

structure DState where
  root : Str := "/r".toList
  fs : List FsEntry := []

/-- add the directories above `p` (the harness creates them with `create_dir_all`) -/
def withParents (fs : List FsEntry) (p : Str) (self : Bool) : List FsEntry :=
  let ps := World.prefixes p
  let ps := if self then ps else ps.dropLast
  ps.foldl (fun acc q => if acc.any (·.path == q) then acc else acc ++ [{ path := q, isDir := true, content := none, nameOk := true }]) fs

def kv (args : List String) (key : String) : Option String :=
  args.findSome? (fun a => if a.startsWith (key ++ "=") then some ((a.drop (key.length + 1)).toString) else none)

/-- the scratch tree plus the (existing) ancestor directories of the scratch root -/
def DState.fsAll (d : DState) : List FsEntry :=
  let anc := (World.prefixes d.root).filter (fun q => !d.fs.any (·.path == q))
  d.fs ++ anc.map (fun q => { path := q, isDir := true, content := none, nameOk := true })

def DState.ctx (d : DState) : PCtx :=
  -- module files are read through the kernel's walk of the path text (`./lib//m.pakhi` is `lib/m.pakhi`)
  let w : World := { fs := d.fsAll, stdin := [], platform := W.wLinux }
  { mainPath := pathJoin d.root "main.pakhi".toList, cwd := d.root,
    readFile := fun p => w.readFileP p }

def tokLine (t : Token) : String :=
  let payload := match t.kind with
    | .str s => hexOfStr s
    | _ => hexOfStr t.lexeme
  s!"{tkName t.kind}|{payload}|{t.line}"

def fsListing (root : Str) (fs : List FsEntry) : String :=
  let items := (fs.filter (fun e => e.nameOk && World.isUnder root e.path)).map (fun e =>
    hexOfStr e.path ++ ":" ++ (if e.isDir then "d" else match e.content with
      | some c => "f" ++ hexOfStr c
      | none => "f!"))
  ",".intercalate (items.toArray.qsort (· < ·)).toList

def gcModeOf (t : String) : GcMode :=
  if t == "never" then .never
  else if t == "always" then .always
  else if t.startsWith "mask:" then .mask ((t.drop 5).toString.toList.map (· == '1'))
  else .native

/-- canonical tokens for `PARSETOKS`: one letter per kind -/
def tokOfCode (c : Char) (file : Str) : Option Token :=
  let mk (k : TK) (lx : String) : Option Token := some { kind := k, lexeme := lx.toList, line := 1, file := file }
  match c with
  | 'n' => mk (.num 0x3FF0000000000000) "১" | 's' => mk (.str "s".toList) "s" | 'i' => mk .ident "ক"
  | 'I' => mk .kIf "যদি" | 'E' => mk .kElse "অথবা" | 'L' => mk .kLoop "লুপ" | 'V' => mk .kVar "নাম"
  | 'F' => mk .kFunc "ফাং" | '+' => mk .plus "+" | '-' => mk .minus "-" | '*' => mk .mul "*"
  | '/' => mk .div "/" | '%' => mk .rem "%" | '@' => mk .at "@" | ';' => mk .semi ";"
  | 'm' => mk .map "->" | '#' => mk .comment "##" | ',' => mk .comma "," | '(' => mk .lparen "("
  | ')' => mk .rparen ")" | '{' => mk .lcurly "{" | '}' => mk .rcurly "}" | '[' => mk .lsq "["
  | ']' => mk .rsq "]" | '=' => mk .eq "=" | '<' => mk .lt "<" | '>' => mk .gt ">"
  | 'q' => mk .eqeq "==" | 'x' => mk .ne "!=" | 'l' => mk .le "<=" | 'g' => mk .ge ">="
  | '&' => mk .and "&" | '|' => mk .or "|" | '!' => mk .not "!" | 't' => mk (.bool true) "সত্য"
  | 'f' => mk (.bool false) "মিথ্যা" | 'B' => mk .brk "থামাও" | 'C' => mk .cont "আবার"
  | 'R' => mk .ret "ফেরত" | 'P' => mk .print "দেখাও" | 'M' => mk .import "মডিউল"
  | 'p' => mk .printNoEOL "_দেখাও" | '$' => some { kind := .eot, lexeme := [], line := 0, file := file }
  | _ => none

def runProgram (d : DState) (src : Str) (args : List String) : String × DState :=
  -- `rel=1`: the interpreter is started as `pakhi main.pakhi` from inside the root directory (a bare, relative main path);
  -- relative module paths are then opened relative to that directory by the operating system
  let ctx := if (kv args "rel").isSome then
      { d.ctx with mainPath := "main.pakhi".toList,
                   readFile := fun p => d.ctx.readFile (match p with | '/' :: _ => p | _ => pathJoin d.root p) }
    else d.ctx
  let fuel := ((kv args "fuel").bind (·.toNat?)).getD 2000000
  let stdin := ((kv args "stdin").bind strOfHex).getD []
  let mode := gcModeOf ((kv args "gc").getD "native")
  let wantFs := (kv args "fs").isSome
  let wantHeap := (kv args "heap").isSome
  let wantSpec := (kv args "spec").isSome
  match tokenize src ctx.mainPath with
  | .ok toks =>
    match parse ctx 1000000 toks with
    | .ok prog =>
      -- the scratch root and its ancestors exist as directories
      let anc := (World.prefixes d.root).filter (fun q => !d.fs.any (·.path == q))
      let fs0 := d.fs ++ anc.map (fun q => { path := q, isDir := true, content := none, nameOk := true })
      let w : World := { fs := fs0, stdin := stdin, platform := W.wLinux }
      -- `spec=1`: is the program the flattening of a tree (`unflatten`), and what is the tree's structured meaning?
      let spec := if !wantSpec then "" else
        match unflatten prog with
        | none => " struct=no"
        | some (tree, em) =>
          match sTop prog fuel tree em (St.init w) with
          | .ok s => s!" struct=yes specout={outHex s.out} specstatus=ok"
          | .err e => s!" struct=yes specout={outHex e.out} specstatus=" ++ statusOf (Res.err e : Res Unit) true
          | r => " struct=yes specout=- specstatus=" ++ statusOf r false
      let wfTag := if wantSpec then (if progWF prog then " wf=yes" else " wf=no") else ""
      let spec := spec ++ wfTag
      match runLoop prog mode fuel 0 prog (St.init w) with
      | .ok s =>
        let extra := (if wantFs then " fs=" ++ fsListing d.root s.world.fs else "") ++
          (if wantHeap then s!" nlists={s.heap.lists.length} nfreeL={s.heap.freeLists.length} nrecords={s.heap.records.length} nfreeR={s.heap.freeRecords.length} colls={s.gcCount} dupL={s.heap.freeLists.length - s.heap.freeLists.eraseDups.length} dupR={s.heap.freeRecords.length - s.heap.freeRecords.eraseDups.length}" else "")
        (s!"out={outHex s.out} status=ok" ++ extra ++ spec, { d with fs := s.world.fs.filter (fun e => World.isUnder d.root e.path) })
      | .err e => (s!"out={outHex e.out} status=" ++ statusOf (Res.err e : Res Unit) true ++ spec, d)
      | r => ("out=- status=" ++ statusOf r false ++ spec, d)
    | r => ("out=- status=" ++ statusOf r false, d)
  | r => ("out=- status=" ++ statusOf r false, d)

def handle (d : DState) (line : String) : String × DState :=
  match line.trimAscii.toString.splitOn " " with
  | ["ROOT", p] =>
    match strOfHex p with
    | some p => ("ok", { d with root := p })
    | none => ("bad-request", d)
  | ["RESET"] => ("ok", { d with fs := [] })
  | ["FILE", p, c] =>
    match strOfHex p, strOfHex c with
    | some p, some c =>
      let e : FsEntry := { path := p, isDir := false, content := some c, nameOk := true }
      ("ok", { d with fs := withParents (d.fs.filter (·.path != p)) p false ++ [e] })
    | _, _ => ("bad-request", d)
  | ["BADFILE", p] =>
    match strOfHex p with
    | some p => ("ok", { d with fs := withParents (d.fs.filter (·.path != p)) p false ++ [{ path := p, isDir := false, content := none, nameOk := true }] })
    | none => ("bad-request", d)
  | ["BADNAME", p] =>
    match strOfHex p with
    | some p => ("ok", { d with fs := withParents (d.fs.filter (·.path != p)) p false ++ [{ path := p, isDir := false, content := some [], nameOk := false }] })
    | none => ("bad-request", d)
  | ["DIR", p] =>
    match strOfHex p with
    | some p => ("ok", { d with fs := withParents d.fs p true })
    | none => ("bad-request", d)
  | ["LEX", h] =>
    match strOfHex h with
    | some src =>
      match tokenize src "main.pakhi".toList with
      | .ok toks => ("ok " ++ " ".intercalate (toks.map tokLine), d)
      | r => (statusOf r false, d)
    | none => ("bad-request", d)
  | ["PARSE", h] =>
    match strOfHex h with
    | some src =>
      let ctx := d.ctx
      match tokenize src ctx.mainPath with
      | .ok toks =>
        match parse ctx 1000000 toks with
        | .ok prog => ("ok " ++ " ".intercalate (prog.map sstmt), d)
        | r => (statusOf r false, d)
      | r => ("lex-" ++ statusOf r false, d)
    | none => ("bad-request", d)
  | ["PARSETOKS", codes] =>
    let ctx := d.ctx
    match (if codes == "-" then some [] else codes.toList.mapM (fun c => tokOfCode c ctx.mainPath)) with
    | some toks =>
      match toks with
      | [] => ("panic empty-token-list", d)
      | _ =>
        match parse ctx 1000000 toks with
        | .ok prog => ("ok " ++ " ".intercalate (prog.map sstmt), d)
        | r => (statusOf r false, d)
    | none => ("bad-request", d)
  | "RUN" :: h :: args =>
    match strOfHex h with
    | some src => runProgram d src args
    | none => ("bad-request", d)
  | "GC" :: args =>
    let sc := (groups ((kv args "scopes").getD "")).mapM parseEntries
    let ls := (groups ((kv args "lists").getD "")).mapM parseVals
    let rs := (groups ((kv args "records").getD "")).mapM parseEntries
    let fl := parseNats ((kv args "freeL").getD "")
    let fr := parseNats ((kv args "freeR").getD "")
    match sc, ls, rs, fl, fr with
    | some sc, some ls, some rs, some fl, some fr =>
      -- the request lists the free `Vec`s bottom first; the model keeps the top first
      let h : Heap := { lists := ls, freeLists := fl.reverse, records := rs, freeRecords := fr.reverse, allocCount := 0 }
      match collect sc h with
      | .ok h' => ("ok " ++ heapStr h', d)
      | .panic s => ("panic " ++ s.replace " " "_", d)
      | .fuel => ("fuel", d)
    | _, _, _, _, _ => ("bad-request", d)
  | ["NUMFMT", h] =>
    match bitsOfHex h with
    | some b => ("ok " ++ hexOfStr (Num.display b), d)
    | none => ("bad-request", d)
  | ["NUMPARSE", h] =>
    match strOfHex h with
    | some t => (match Num.parseF64 t with | some b => "ok " ++ hex16 b | none => "none", d)
    | none => ("bad-request", d)
  | ["FMOD", a, b] =>
    match bitsOfHex a, bitsOfHex b with
    | some a, some b => ("ok " ++ hex16 (Num.fmod a b), d)
    | _, _ => ("bad-request", d)
  | ["CHARCLASS", h] =>
    match strOfHex h with
    | some cs => ("ok " ++ String.ofList (cs.flatMap (fun c =>
        [if isNumeric c then '1' else '0', if isAsciiPunct c then '1' else '0',
         if isAsciiWhitespace c then '1' else '0', if isAsciiControl c then '1' else '0',
         if isIdentChar c then '1' else '0', if World.isTrimChar c then '1' else '0'])), d)
    | none => ("bad-request", d)
  | _ => ("bad-request", d)

partial def loop (h : IO.FS.Stream) (out : IO.FS.Stream) (d : DState) : IO Unit := do
  let line ← h.getLine
  if line.isEmpty then return ()
  let (ans, d') := handle d line
  out.putStrLn ans
  loop h out d'

def main : IO Unit := do
  let stdin ← IO.getStdin
  let stdout ← IO.getStdout
  loop stdin stdout {}
