import Pakhi.Model.Basic
import Pakhi.Model.Num
import Pakhi.Model.Lexer
import Pakhi.Model.Ast
import Pakhi.Model.Parser
import Pakhi.Model.Heap
import Pakhi.Model.Builtins
import Pakhi.Model.Interp
