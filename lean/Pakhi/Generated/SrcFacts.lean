/- GENERATED on every run by tools/srcfacts.py from /repo's Rust source.  Do not edit. -/
import Pakhi.Model.Lexer

namespace Pakhi
namespace Generated

def keywords : Option (List (List Nat × TK)) := some ([([2472, 2494, 2478], .kVar), ([2479, 2470, 2495], .kIf), ([2437, 2469, 2476, 2494], .kElse), ([2482, 2497, 2474], .kLoop), ([2475, 2494, 2434], .kFunc), ([2475, 2503, 2480, 2468], .ret), ([2469, 2494, 2478, 2494, 2451], .brk), ([2438, 2476, 2494, 2480], .cont), ([2470, 2503, 2454, 2494, 2451], .print), ([95, 2470, 2503, 2454, 2494, 2451], .printNoEOL), ([2488, 2468, 2509, 2479], .bool true), ([2478, 2495, 2469, 2509, 2479, 2494], .bool false), ([2478, 2465, 2495, 2441, 2482], .import)])
def simpleToks : Option (List (Nat × TK)) := some ([(43, .plus), (42, .mul), (47, .div), (37, .rem), (38, .and), (124, .or), (64, .at), (59, .semi), (44, .comma), (40, .lparen), (41, .rparen), (123, .lcurly), (125, .rcurly), (91, .lsq), (93, .rsq)])
def twoCharToks : Option (List (Nat × Nat × TK × TK)) := some ([(33, 61, .ne, .not), (61, 61, .eqeq, .eq), (60, 61, .le, .lt), (62, 61, .ge, .gt)])
def minusArm : Option (TK × TK) := some ((.map, .minus))
def blanks : Option (List Nat) := some ([32, 13, 9])
def afterOperandFn : TK → Bool
  | .num _ => true
  | .str _ => true
  | .ident => true
  | .bool _ => true
  | .rparen => true
  | .rsq => true
  | _ => false
def afterOperand : Option (TK → Bool) := some afterOperandFn
def identExtra : Option (List Nat) := some ([45, 95, 47])
def digitsLexer : Option (List (Nat × Nat)) := some ([(2534, 0), (2535, 1), (2536, 2), (2537, 3), (2538, 4), (2539, 5), (2540, 6), (2541, 7), (2542, 8), (2543, 9)])
def digitsBnEn : Option (List (Nat × Nat)) := some ([(2534, 48), (2535, 49), (2536, 50), (2537, 51), (2538, 52), (2539, 53), (2540, 54), (2541, 55), (2542, 56), (2543, 57)])
def digitsEnBn : Option (List (Nat × Nat)) := some ([(48, 2534), (49, 2535), (50, 2536), (51, 2537), (52, 2538), (53, 2539), (54, 2540), (55, 2541), (56, 2542), (57, 2543)])
def digitsPrint : Option (List (Nat × Nat)) := some ([(45, 45), (46, 46), (48, 2534), (49, 2535), (50, 2536), (51, 2537), (52, 2538), (53, 2539), (54, 2540), (55, 2541), (56, 2542), (57, 2543)])
def builtins : Option (List (List Nat)) := some ([[95, 2488, 2509, 2463, 2509, 2480, 2495, 2434], [95, 2488, 2434, 2454, 2509, 2479, 2494], [95, 2482, 2495, 2488, 2509, 2463, 45, 2474, 2497, 2486], [95, 2482, 2495, 2488, 2509, 2463, 45, 2474, 2474], [95, 2482, 2495, 2488, 2509, 2463, 45, 2482, 2503, 2472], [95, 2480, 2495, 2465, 45, 2482, 2494, 2439, 2472], [95, 2447, 2480, 2480], [95, 2488, 2509, 2463, 2509, 2480, 2495, 2434, 45, 2488, 2509, 2474, 2509, 2482, 2495, 2463], [95, 2488, 2509, 2463, 2509, 2480, 2495, 2434, 45, 2460, 2527, 2503, 2472], [95, 2463, 2494, 2439, 2474], [95, 2480, 2495, 2465, 45, 2475, 2494, 2439, 2482], [95, 2480, 2494, 2439, 2463, 45, 2475, 2494, 2439, 2482], [95, 2465, 2495, 2482, 2495, 2463, 45, 2475, 2494, 2439, 2482], [95, 2472, 2468, 2497, 2472, 45, 2465, 2494, 2439, 2480, 2503, 2453, 2509, 2463, 2480, 2495], [95, 2480, 2495, 2465, 45, 2465, 2494, 2439, 2480, 2503, 2453, 2509, 2463, 2480, 2495], [95, 2465, 2495, 2482, 2495, 2463, 45, 2465, 2494, 2439, 2480, 2503, 2453, 2509, 2463, 2480, 2495], [95, 2475, 2494, 2439, 2482, 45, 2472, 2494, 2453, 2495, 45, 2465, 2494, 2439, 2480, 2503, 2453, 2509, 2463, 2480, 2495]])
/-- (index of the `DataType` variant in declaration order, name) -/
def typeNames : Option (List (Nat × List Nat)) := some ([(0, [95, 2488, 2434, 2454, 2509, 2479, 2494]), (1, [95, 2476, 2497, 2482, 2495, 2527, 2494, 2472]), (2, [95, 2488, 2509, 2463, 2509, 2480, 2495, 2434]), (3, [95, 2482, 2495, 2488, 2509, 2463]), (4, [95, 2480, 2503, 2453, 2480, 2509, 2465]), (5, [95, 2475, 2494, 2434]), (6, [95, 2486, 2498, 2472, 2509, 2479])])
def gcThreshold : Option Nat := some (1000)
def platformConst : Option (List Nat) := some ([95, 2474, 2509, 2482, 2509, 2479, 2494, 2463, 2475, 2480, 2509, 2478])
def platformNotRenamed : Option (List Nat) := some ([95, 2474, 2509, 2482, 2509, 2479, 2494, 2463, 2475, 2480, 2509, 2478])
def dirnameConst : Option (List Nat) := some ([95, 2465, 2494, 2439, 2480, 2503, 2453, 2509, 2463, 2480, 2495])
def boolWords : Option (List (Bool × List Nat)) := some ([(true, [2488, 2468, 2509, 2479]), (false, [2478, 2495, 2469, 2509, 2479, 2494])])
/-- (level, operators, level of the operand parser, level of the AST constructor) -/
def ladder : Option (List (Nat × List TK × Nat × Nat)) := some [(0, [.or], 1, 0), (1, [.and], 2, 1), (2, [.ne, .eqeq], 3, 2), (3, [.gt, .ge, .lt, .le], 4, 3), (4, [.plus, .minus], 5, 4), (5, [.mul, .div, .rem], 6, 5)]
def expressionEntry : Option Nat := some 0
def unaryOps : Option (List TK) := some [.not, .minus]
/-- 1 iff `unary()` falls through to `call()` -/
def unaryNextIsCall : Option Nat := some 1

end Generated
end Pakhi
