/- Association-list lemmas (`HashMap::get` / `HashMap::insert`). -/
import Pakhi.Model.Interp
namespace Pakhi

theorem assocGet_set_same {β} : ∀ (l : List (Str × β)) (k : Str) (v : β), assocGet (assocSet l k v) k = some v
  | [], k, v => by simp [assocSet, assocGet]
  | (k', v') :: r, k, v => by
      by_cases h : (k' == k) = true
      · simp [assocSet, assocGet, h]
      · simp [assocSet, assocGet, h, assocGet_set_same r k v]

theorem assocGet_set_other {β} : ∀ (l : List (Str × β)) (k k2 : Str) (v : β), k ≠ k2 → assocGet (assocSet l k v) k2 = assocGet l k2
  | [], k, k2, v, hne => by simp [assocSet, assocGet, hne]
  | (k', v') :: r, k, k2, v, hne => by
      by_cases h : (k' == k) = true
      · have hk : k' = k := by simpa using h
        subst hk
        simp [assocSet, assocGet, hne]
      · by_cases h2 : (k' == k2) = true
        · simp [assocSet, assocGet, h, h2]
        · simp [assocSet, assocGet, h, h2, assocGet_set_other r k k2 v hne]

end Pakhi
