/- `collect` = exact marking followed by the two sweeps (helper lemmas for C07 / C08). -/
import Pakhi.Lemmas.Sweep

namespace Pakhi

theorem isMarked_list_iff (m : Marks) (i : Nat) : isMarked m (.list i) = true ↔ m.lists[i]? = some true := by
  simp [isMarked]; cases m.lists[i]? <;> simp

theorem isMarked_record_iff (m : Marks) (i : Nat) : isMarked m (.record i) = true ↔ m.records[i]? = some true := by
  simp [isMarked]; cases m.records[i]? <;> simp

/-- what `collect` computes: marks `m` that are exact, and the swept heap -/
theorem collect_unfold (scopes : List Scope) (h h' : Heap) (hc : collect scopes h = .ok h') :
    ∃ m, markRoots h (markFuel h (rootVals scopes)) (rootVals scopes) (Marks.init h) = .ok m ∧
      h' = { (sweep h m) with allocCount := 0 } ∧
      m.lists.length = h.lists.length ∧ m.records.length = h.records.length ∧
      (∀ v, isMarked m v = true ↔ Reach h (rootVals scopes) v) := by
  unfold collect at hc
  cases hm : markRoots h (markFuel h (rootVals scopes)) (rootVals scopes) (Marks.init h) with
  | ok m =>
    simp [hm] at hc
    have s := markRoots_spec h _ _ _ m hm
    refine ⟨m, rfl, hc.symm, ?_, ?_, fun v => mark_exact h _ _ m hm v⟩
    · rw [s.lenL]; simp [Marks.init]
    · rw [s.lenR]; simp [Marks.init]
  | panic p => simp [hm] at hc
  | fuel => simp [hm] at hc

theorem sweep_lists (h : Heap) (m : Marks) :
    (sweep h m).lists = (sweepArena ([] : List Val) 0 m.lists h.lists h.freeLists).1 ∧
    (sweep h m).freeLists = (sweepArena ([] : List Val) 0 m.lists h.lists h.freeLists).2 ∧
    (sweep h m).records = (sweepArena ([] : RecordObj) 0 m.records h.records h.freeRecords).1 ∧
    (sweep h m).freeRecords = (sweepArena ([] : RecordObj) 0 m.records h.records h.freeRecords).2 := by
  simp [sweep]

end Pakhi
