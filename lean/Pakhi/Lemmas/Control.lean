/- Control lemmas about `flatten`ed structured code: block skipping, the break scan, chains (helper lemmas for C02 / C03 / C05 / C19). -/
import Pakhi.Spec.Struct
namespace Pakhi

theorem skipBlock_simple (s : Stmt) (r : List Stmt) (d : Nat) (h : s.isSimple = true) : skipBlock (s :: r) d = skipBlock r d := by
  cases s <;> simp_all [Stmt.isSimple, skipBlock]

mutual
/-- well-nested code is transparent to `skip_block` at depth ≥ 1 -/
theorem skipBlock_stmt : ∀ (s : SStmt) (r : List Stmt) (d : Nat), s.WF → 1 ≤ d → skipBlock (s.flatten ++ r) d = skipBlock r d
  | .simple st, r, d, h, _ => by simp [SStmt.flatten, skipBlock_simple st r d h]
  | .block b, r, d, h, hd => by simpa [SStmt.flatten] using skipBlock_block b r d h hd
  | .ifChain c m body tail, r, d, h, hd => by
      simp only [SStmt.flatten, List.cons_append, List.append_assoc, skipBlock]
      rw [skipBlock_block body _ d h.1 hd, skipBlock_tail tail r d h.2 hd]
  | .loop lm body cm, r, d, h, hd => by
      simp only [SStmt.flatten, List.cons_append, List.append_assoc, skipBlock]
      rw [skipBlock_block body _ d h hd]; simp [skipBlock]
  | .brk m, r, d, _, _ => by simp [SStmt.flatten, skipBlock]
  | .cont m, r, d, _, _ => by simp [SStmt.flatten, skipBlock]
  | .funcDef fm hdr hm body re rm, r, d, h, hd => by
      simp only [SStmt.flatten, List.cons_append, List.append_assoc, skipBlock]
      rw [skipBlock_block body _ d h hd]; simp [skipBlock]
theorem skipBlock_block : ∀ (b : SBlock) (r : List Stmt) (d : Nat), b.WF → 1 ≤ d → skipBlock (b.flatten ++ r) d = skipBlock r d
  | .mk bs ss be, r, d, h, hd => by
      simp only [SBlock.flatten, List.cons_append, List.append_assoc, skipBlock]
      rw [skipBlock_list ss _ (d+1) h (by omega)]
      have h0 : ¬ (d + 1 == 0) = true := by simp
      have h1 : ¬ (d + 1 == 1) = true := by simp; omega
      simp [skipBlock, h0, h1]
theorem skipBlock_list : ∀ (ss : SList) (r : List Stmt) (d : Nat), ss.WF → 1 ≤ d → skipBlock (ss.flatten ++ r) d = skipBlock r d
  | .nil, r, d, _, _ => by simp [SList.flatten]
  | .cons s ss, r, d, h, hd => by
      simp only [SList.flatten, List.append_assoc]
      rw [skipBlock_stmt s _ d h.1 hd, skipBlock_list ss r d h.2 hd]
theorem skipBlock_tail : ∀ (t : STail) (r : List Stmt) (d : Nat), t.WF → 1 ≤ d → skipBlock (t.flatten ++ r) d = skipBlock r d
  | .none, r, d, _, _ => by simp [STail.flatten]
  | .elseIf em c m body tail, r, d, h, hd => by
      simp only [STail.flatten, List.cons_append, List.append_assoc, skipBlock]
      rw [skipBlock_block body _ d h.1 hd, skipBlock_tail tail r d h.2 hd]
  | .else em body, r, d, h, hd => by
      simp only [STail.flatten, List.cons_append, skipBlock]
      rw [skipBlock_block body r d h hd]
end

/-- `skip_block` started in front of a block stops exactly behind it -/
theorem skipBlock_whole_block (b : SBlock) (r : List Stmt) (h : b.WF) : skipBlock (b.flatten ++ r) 0 = .ok r := by
  cases b with
  | mk bs ss be =>
    simp only [SBlock.flatten, List.cons_append, List.append_assoc, skipBlock]
    rw [skipBlock_list ss _ 1 h (by omega)]
    simp [skipBlock]
end Pakhi

namespace Pakhi

theorem breakScan_simple (bm : Meta) (s : Stmt) (r : List Stmt) (d : Nat) (h : s.isSimple = true) :
    breakScan bm (s :: r) d = breakScan bm r d := by
  cases s <;> simp_all [Stmt.isSimple, breakScan]

mutual
/-- well-nested code that follows a `থামাও` textually — nested loops with their closing `আবার;`,
    conditional `আবার;` statements, blocks, chains — is transparent to the break scan while at least
    one block of the loop body is still open -/
theorem breakScan_stmt (bm : Meta) : ∀ (s : SStmt) (r : List Stmt) (d : Nat), s.WF → 1 ≤ d → breakScan bm (s.flatten ++ r) d = breakScan bm r d
  | .simple st, r, d, h, _ => by simp [SStmt.flatten, breakScan_simple bm st r d h]
  | .block b, r, d, h, hd => by simpa [SStmt.flatten] using breakScan_block bm b r d h hd
  | .ifChain c m body tail, r, d, h, hd => by
      simp only [SStmt.flatten, List.cons_append, List.append_assoc, breakScan]
      rw [breakScan_block bm body _ d h.1 hd, breakScan_tail bm tail r d h.2 hd]
  | .loop lm body cm, r, d, h, hd => by
      have hd0 : ¬ (d == 0) = true := by simp; omega
      simp only [SStmt.flatten, List.cons_append, List.append_assoc, breakScan]
      rw [breakScan_block bm body _ d h hd]; simp [breakScan, hd0]
  | .brk m, r, d, _, _ => by simp [SStmt.flatten, breakScan]
  | .cont m, r, d, _, hd => by
      have hd0 : ¬ (d == 0) = true := by simp; omega
      simp [SStmt.flatten, breakScan, hd0]
  | .funcDef fm hdr hm body re rm, r, d, h, hd => by
      simp only [SStmt.flatten, List.cons_append, List.append_assoc, breakScan]
      rw [breakScan_block bm body _ d h hd]; simp [breakScan]
theorem breakScan_block (bm : Meta) : ∀ (b : SBlock) (r : List Stmt) (d : Nat), b.WF → 1 ≤ d → breakScan bm (b.flatten ++ r) d = breakScan bm r d
  | .mk bs ss be, r, d, h, hd => by
      simp only [SBlock.flatten, List.cons_append, List.append_assoc, breakScan]
      rw [breakScan_list bm ss _ (d+1) h (by omega)]
      simp [breakScan]
theorem breakScan_list (bm : Meta) : ∀ (ss : SList) (r : List Stmt) (d : Nat), ss.WF → 1 ≤ d → breakScan bm (ss.flatten ++ r) d = breakScan bm r d
  | .nil, r, d, _, _ => by simp [SList.flatten]
  | .cons s ss, r, d, h, hd => by
      simp only [SList.flatten, List.append_assoc]
      rw [breakScan_stmt bm s _ d h.1 hd, breakScan_list bm ss r d h.2 hd]
theorem breakScan_tail (bm : Meta) : ∀ (t : STail) (r : List Stmt) (d : Nat), t.WF → 1 ≤ d → breakScan bm (t.flatten ++ r) d = breakScan bm r d
  | .none, r, d, _, _ => by simp [STail.flatten]
  | .elseIf em c m body tail, r, d, h, hd => by
      simp only [STail.flatten, List.cons_append, List.append_assoc, breakScan]
      rw [breakScan_block bm body _ d h.1 hd, breakScan_tail bm tail r d h.2 hd]
  | .else em body, r, d, h, hd => by
      simp only [STail.flatten, List.cons_append, breakScan]
      rw [breakScan_block bm body r d h hd]
end

/-- the code between a `থামাও` and the end of its loop: for each block of the loop body that is open
    at the break (innermost first) the rest of that block — its remaining statements, an optional
    remaining else-tail of the chain the block was a branch of — and its closing `}` -/
inductive Closing where
  | nil
  | cons (rest : SList) (be : Meta) (tail : STail) (outer : Closing)

def Closing.depth : Closing → Nat
  | .nil => 0
  | .cons _ _ _ o => o.depth + 1

def Closing.flatten : Closing → List Stmt
  | .nil => []
  | .cons rest be tail o => rest.flatten ++ (.blockEnd be :: (tail.flatten ++ o.flatten))

def Closing.WF : Closing → Prop
  | .nil => True
  | .cons rest _ tail o => rest.WF ∧ tail.WF ∧ o.WF ∧ (o.depth = 0 → tail = .none)

/-- C03 `break_finds_own_loop`: from a `থামাও` nested in `k ≥ 0` open blocks of the loop body, the
    scan passes everything that follows in those blocks (whatever loops, continue statements, chains
    and blocks it contains) and stops exactly behind the loop's own closing `আবার;` -/
theorem breakScan_closing (bm cm : Meta) : ∀ (c : Closing) (after : List Stmt), c.WF →
    breakScan bm (c.flatten ++ (.cont cm :: after)) c.depth = .ok after
  | .nil, after, _ => by simp [Closing.flatten, Closing.depth, breakScan]
  | .cons rest be tail o, after, h => by
      obtain ⟨h1, h2, h3, h4⟩ := h
      simp only [Closing.flatten, Closing.depth, List.append_assoc, List.cons_append]
      rw [breakScan_list bm rest _ (o.depth + 1) h1 (by omega)]
      simp only [breakScan, Nat.add_sub_cancel]
      by_cases hz : o.depth = 0
      · have := h4 hz; subst this
        simp only [STail.flatten, List.nil_append]
        exact breakScan_closing bm cm o after h3
      · rw [breakScan_tail bm tail _ o.depth h2 (by omega)]
        exact breakScan_closing bm cm o after h3
end Pakhi

namespace Pakhi

/-- `n` successive statements executed by `interpret` -/
def execN (prog : List Stmt) (f : Nat) : Nat → List Stmt → St → Res (List Stmt × St)
  | 0, cur, s => .ok (cur, s)
  | n+1, cur, s =>
    match exec prog f cur s with
    | .ok (cur', s') => execN prog f n cur' s'
    | .err e => .err e
    | .panic p => .panic p
    | .fuel => .fuel

theorem notElse_skip (r : List Stmt) (h : notElse r) (flags : List Bool) :
    (match r with | .else _ :: _ => (Res.ok (r, flags) : Res (List Stmt × List Bool)) | _ => .ok (r, flags.drop 1)) = .ok (r, flags.drop 1) := by
  cases r with
  | nil => rfl
  | cons s t => cases s <;> simp_all [notElse]

/-- an `অথবা` reached while the top flag says "a branch of this chain already ran" skips its branch:
    an else-if branch (condition not evaluated) … -/
theorem else_skips_elseIf (prog : List Stmt) (f : Nat) (em m : Meta) (c : Expr) (body : SBlock) (r : List Stmt) (s : St) (fl : List Bool)
    (hb : body.WF) (hf : s.flags = true :: fl) :
    exec prog (f+1) (.else em :: .if c m :: (body.flatten ++ r)) s =
      (match r with
       | .else _ :: _ => .ok (r, s)
       | _ => .ok (r, { s with flags := fl })) := by
  have hs : skipBlock (.if c m :: (body.flatten ++ r)) 0 = .ok r := by
    simp only [skipBlock]; exact skipBlock_whole_block body r hb
  simp only [exec, hf, skipBlockInIf, hs]
  cases r with
  | nil => simp [Res.tagOut]
  | cons st t => cases st <;> simp [Res.tagOut, hf] <;> (cases s; simp_all)

/-- … and a final else branch -/
theorem else_skips_else (prog : List Stmt) (f : Nat) (em : Meta) (body : SBlock) (r : List Stmt) (s : St) (fl : List Bool)
    (hb : body.WF) (hf : s.flags = true :: fl) :
    exec prog (f+1) (.else em :: (body.flatten ++ r)) s =
      (match r with
       | .else _ :: _ => .ok (r, s)
       | _ => .ok (r, { s with flags := fl })) := by
  have hs : skipBlock (body.flatten ++ r) 0 = .ok r := skipBlock_whole_block body r hb
  simp only [exec, hf, skipBlockInIf, hs]
  cases r with
  | nil => simp [Res.tagOut]
  | cons st t => cases st <;> simp [Res.tagOut, hf] <;> (cases s; simp_all)

/-- the state after the rest of a chain has been skipped: the chain's flag is popped, unless there was
    nothing left to skip (then it stays on the stack, `true`) -/
def afterTail (tail : STail) (s : St) (fl : List Bool) : St :=
  match tail with
  | .none => s
  | _ => { s with flags := fl }

/-- C02 `rest_of_chain_skipped`: once a branch of a chain has run (top flag `true`), the remaining
    else-if / else branches — however many, whatever they contain — are all skipped without
    evaluating any condition, execution continues with the statement after the whole chain, and the
    flag is popped exactly once (it stays, harmlessly `true`, when the chain has no further branch) -/
theorem rest_of_chain_skipped (prog : List Stmt) (f : Nat) : ∀ (tail : STail) (r : List Stmt) (s : St) (fl : List Bool),
    tail.WF → notElse r → s.flags = true :: fl →
    ∃ n, execN prog (f+1) n (tail.flatten ++ r) s = .ok (r, afterTail tail s fl)
  | .none, r, s, fl, _, _, _ => ⟨0, by simp [STail.flatten, execN, afterTail]⟩
  | .else em body, r, s, fl, hw, hr, hf => by
      refine ⟨1, ?_⟩
      have := else_skips_else prog f em body r s fl hw hf
      simp only [STail.flatten, List.cons_append, execN, this, afterTail]
      cases r with
      | nil => rfl
      | cons st t => cases st <;> simp_all [notElse]
  | .elseIf em c m body tail, r, s, fl, hw, hr, hf => by
      have h1 := else_skips_elseIf prog f em m c body (tail.flatten ++ r) s fl hw.1 hf
      cases tail with
      | none =>
        refine ⟨1, ?_⟩
        simp only [STail.flatten, List.cons_append, List.append_assoc, List.nil_append, execN, afterTail] at h1 ⊢
        rw [h1]
        cases r with
        | nil => rfl
        | cons st t => cases st <;> simp_all [notElse]
      | «else» em2 body2 =>
        obtain ⟨n, hn⟩ := rest_of_chain_skipped prog f (.else em2 body2) r s fl hw.2 hr hf
        refine ⟨n + 1, ?_⟩
        simp only [STail.flatten, List.cons_append, List.append_assoc, execN, afterTail] at h1 hn ⊢
        rw [h1]; simpa using hn
      | elseIf em2 c2 m2 body2 tail2 =>
        obtain ⟨n, hn⟩ := rest_of_chain_skipped prog f (.elseIf em2 c2 m2 body2 tail2) r s fl hw.2 hr hf
        refine ⟨n + 1, ?_⟩
        simp only [STail.flatten, List.cons_append, List.append_assoc, execN, afterTail] at h1 hn ⊢
        rw [h1]; simpa using hn
end Pakhi
