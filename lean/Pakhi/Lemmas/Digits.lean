/- Digit tables, number text and literal scanning (helper lemmas for C09). -/
import Pakhi.Model.Interp
namespace Pakhi

theorem digits_bn_en_inverse : ∀ c ∈ bnDigits, enToBn (bnToEn c) = c := by decide
theorem digits_en_bn_inverse : ∀ c ∈ enDigits, bnToEn (enToBn c) = c := by decide
theorem digit_val_table : ∀ d, d < 10 → bnDigitVal? (bnDigits.getD d ' ') = some d ∧ bnToEn (bnDigits.getD d ' ') = Num.digitChar d := by decide
theorem bnDigitVal_lt : ∀ c d, bnDigitVal? c = some d → d < 10 := by
  intro c d h; unfold bnDigitVal? at h; split at h <;> simp at h <;> omega

/-- the printer's character map is inverted by the reader's digit map -/
theorem toBnNumChar_inv (c c' : Char) (h : toBnNumChar? c = some c') : bnToEn c' = c := by
  unfold toBnNumChar? at h
  split at h <;> simp at h <;> subst h <;> decide

theorem mapM_toBn_inv : ∀ (t t' : Str), t.mapM toBnNumChar? = some t' → t'.map bnToEn = t
  | [], t', h => by simp at h; simp [h]
  | c :: cs, t', h => by
      simp only [List.mapM_cons] at h
      cases hc : toBnNumChar? c with
      | none => simp [hc] at h
      | some c' =>
        cases hcs : cs.mapM toBnNumChar? with
        | none => simp [hc, hcs] at h
        | some cs' =>
          simp [hc, hcs] at h
          subst h
          simp [toBnNumChar_inv c c' hc, mapM_toBn_inv cs cs' hcs]

/-- print → read round trip, given Rust's `Display`/`FromStr` contract for this value -/
theorem print_read_roundtrip (x : Num.Bits) (t : Str) (hfin : Num.isFinite x = true)
    (hRT : Num.parseF64 (Num.display x) = some x) (ht : toBnNum? x = some t) :
    bnStringToNum? t = some x := by
  unfold toBnNum? at ht
  unfold bnStringToNum?
  rw [mapM_toBn_inv _ _ ht, hRT]; simp [hfin]

/-- `_স্ট্রিং(x)` is the printed text whenever printing succeeds -/
theorem toString_eq_print (x : Num.Bits) (t : Str) (ht : toBnNum? x = some t) : numToBnString x = t := by
  unfold toBnNum? at ht; unfold numToBnString
  generalize Num.display x = d at ht
  induction d generalizing t with
  | nil => simp at ht; simp [ht]
  | cons c cs ih =>
    simp only [List.mapM_cons] at ht
    cases hc : toBnNumChar? c with
    | none => simp [hc] at ht
    | some c' =>
      cases hcs : cs.mapM toBnNumChar? with
      | none => simp [hc, hcs] at ht
      | some cs' =>
        simp [hc, hcs] at ht; subst ht
        have : enToBn c = c' := by
          unfold toBnNumChar? at hc; split at hc <;> simp at hc <;> subst hc <;> decide
        simp [this, ih cs' hcs]

def bnOf (ds : List Nat) : Str := ds.map (fun d => bnDigits.getD d ' ')
def asciiOf (ds : List Nat) : Str := ds.map Num.digitChar

theorem digit_facts : ∀ d, d < 10 →
    ((bnDigits.getD d ' ') == '.') = false ∧ isNumeric (bnDigits.getD d ' ') = true ∧
    bnDigitVal? (bnDigits.getD d ' ') = some d ∧ ((bnDigits.getD d ' ') == '-') = false := by decide

theorem scanNum_digits (line : Nat) (file : Str) : ∀ (ds : List Nat) (fuel : Nat) (rest : Str) (inFrac : Bool) (acc : Str) (n : Nat),
    (∀ d ∈ ds, d < 10) → ds.length < fuel →
    scanNum line file fuel (bnOf ds ++ rest) inFrac acc n =
      scanNum line file (fuel - ds.length) rest inFrac ((asciiOf ds).reverse ++ acc) (n + ds.length)
  | [], fuel, rest, inFrac, acc, n, _, _ => by simp [bnOf, asciiOf]
  | d :: ds, 0, _, _, _, _, _, h => by simp at h
  | d :: ds, fuel+1, rest, inFrac, acc, n, hd, h => by
      have hf := digit_facts d (hd d (by simp))
      have ih := scanNum_digits line file ds fuel rest inFrac (Num.digitChar d :: acc) (n + 1)
        (fun x hx => hd x (by simp [hx])) (by simp at h; omega)
      simp only [bnOf, List.map_cons, List.cons_append, scanNum, hf.1, hf.2.1, hf.2.2.1] at ih ⊢
      rw [ih]
      simp [asciiOf, Nat.add_assoc, Nat.add_comm 1]

/-- the scan stops at the first character that is neither numeric nor `.` (or at the end) -/
theorem scanNum_stop (line : Nat) (file : Str) (fuel : Nat) (rest : Str) (inFrac : Bool) (acc : Str) (n : Nat)
    (hstop : ∀ c, rest.head? = some c → (c == '.') = false ∧ isNumeric c = false) :
    scanNum line file (fuel + 1) rest inFrac acc n = .ok (acc.reverse, n) := by
  cases rest with
  | nil => simp [scanNum]
  | cons c r =>
    have := hstop c rfl
    simp [scanNum, this.1, this.2]

/-- C09 `literal_text_faithful`: a literal `[-]ip[.fp]` in Bangla digits is converted by
    `parseF64` applied to its ASCII transliteration — every digit counts, leading zeros after the
    point included — and exactly the characters of the literal are consumed. -/
theorem consumeNum_literal (line : Nat) (file : Str) (neg : Bool) (ip fp : List Nat) (dot : Bool) (rest : Str)
    (hip : ip ≠ []) (hi : ∀ d ∈ ip, d < 10) (hf : ∀ d ∈ fp, d < 10) (hfp : dot = false → fp = [])
    (hstop : ∀ c, rest.head? = some c → (c == '.') = false ∧ isNumeric c = false) :
    let lit : Str := (if neg then ['-'] else []) ++ bnOf ip ++ (if dot then '.' :: bnOf fp else []) 
    let ascii : Str := (if neg then ['-'] else []) ++ asciiOf ip ++ (if dot then '.' :: asciiOf fp else [])
    consumeNum (lit ++ rest) line file =
      (match Num.parseF64 ascii with
       | some b => .ok (b, lit.length)
       | none => mkErr .syntax line file "number-format") := by
  intro lit ascii
  obtain ⟨d0, ip', rfl⟩ : ∃ d0 ip', ip = d0 :: ip' := by
    cases ip with
    | nil => exact absurd rfl hip
    | cons a b => exact ⟨a, b, rfl⟩
  have hd0 := digit_facts d0 (hi d0 (by simp))
  -- the scan result
  have hscan : ∀ (acc0 : Str) (n0 : Nat) (fuel : Nat), (bnOf (d0 :: ip') ++ (if dot then '.' :: bnOf fp else []) ++ rest).length < fuel →
      scanNum line file fuel (bnOf (d0 :: ip') ++ ((if dot then '.' :: bnOf fp else []) ++ rest)) false acc0 n0 =
        .ok (acc0.reverse ++ asciiOf (d0 :: ip') ++ (if dot then '.' :: asciiOf fp else []),
             n0 + (d0 :: ip').length + (if dot then 1 + fp.length else 0)) := by
    intro acc0 n0 fuel hfuel
    rw [scanNum_digits line file (d0 :: ip') fuel _ false acc0 n0 hi (by simp [bnOf] at hfuel ⊢; omega)]
    cases dot with
    | false =>
      have : fp = [] := hfp rfl
      subst this
      obtain ⟨k, hk⟩ : ∃ k, fuel - (d0 :: ip').length = k + 1 := ⟨fuel - (d0 :: ip').length - 1, by simp [bnOf] at hfuel ⊢; omega⟩
      simp only [Bool.false_eq_true, if_false, List.nil_append, hk]
      rw [scanNum_stop line file k rest false _ _ hstop]
      simp
    | true =>
      obtain ⟨k, hk⟩ : ∃ k, fuel - (d0 :: ip').length = k + 1 := ⟨fuel - (d0 :: ip').length - 1, by simp [bnOf] at hfuel ⊢; omega⟩
      simp only [if_true, List.cons_append, hk, scanNum]
      simp only [show (('.' : Char) == '.') = true from rfl, if_true, Bool.false_eq_true, if_false]
      rw [scanNum_digits line file fp k rest true _ _ hf (by simp [bnOf] at hfuel hk ⊢; omega)]
      obtain ⟨k2, hk2⟩ : ∃ k2, k - fp.length = k2 + 1 := ⟨k - fp.length - 1, by simp [bnOf] at hfuel hk ⊢; omega⟩
      rw [hk2, scanNum_stop line file k2 rest true _ _ hstop]
      simp [Nat.add_assoc, Nat.add_comm 1]
      try omega
  cases neg with
  | true =>
    simp only [lit, ascii, if_true, List.cons_append, List.nil_append, consumeNum]
    simp only [show (('-' : Char) == '-') = true from rfl, if_true, List.append_assoc]
    rw [hscan ['-'] 1 _ (by simp)]
    simp [bnOf, asciiOf]
    cases dot <;> simp <;> split <;> simp_all <;> omega
  | false =>
    simp only [lit, ascii, Bool.false_eq_true, if_false, List.nil_append]
    have hne : bnOf (d0 :: ip') ++ (if dot then '.' :: bnOf fp else []) ++ rest =
        (bnDigits.getD d0 ' ') :: (bnOf ip' ++ (if dot then '.' :: bnOf fp else []) ++ rest) := by simp [bnOf]
    rw [hne]
    simp only [consumeNum, hd0.2.2.2, Bool.false_eq_true, if_false]
    rw [← hne, List.append_assoc, hscan [] 0 _ (by simp)]
    simp [bnOf, asciiOf]
    cases dot <;> simp <;> split <;> simp_all <;> omega
end Pakhi
