/-
  The whole evaluator preserves the state invariant `StOK` and never panics (induction on the fuel).
-/
import Pakhi.Lemmas.Inv
import Pakhi.Lemmas.GcInv
namespace Pakhi
section
variable (P : Nat → List Str → Prop) (prog : List Stmt)

def EvalPost (s : St) (x : Val × St) : Prop := StOK P prog x.2 ∧ ValOK P x.2.heap x.1 ∧ HeapLe s.heap x.2.heap

/-- the statement proved by induction on the fuel: every function of the evaluator preserves the
    invariant and never panics -/
structure EvalInv (f : Nat) : Prop where
  eval : ∀ cur e s, IsSuffixOf cur prog → e.wf = true → StOK P prog s → Good (EvalPost P prog s) (eval prog f cur e s)
  evalBin : ∀ cur lf (op : Val → Val → Res Val) l r s, IsSuffixOf cur prog → l.wf = true → r.wf = true → StOK P prog s →
    (∀ a b h, Good (ValOK P h) (op a b)) → Good (EvalPost P prog s) (evalBin prog f cur lf op l r s)
  evalList : ∀ cur es s, IsSuffixOf cur prog → es.wf = true → StOK P prog s →
    Good (fun (x : List Val × St) => StOK P prog x.2 ∧ (∀ v ∈ x.1, ValOK P x.2.heap v) ∧ HeapLe s.heap x.2.heap) (evalList prog f cur es s)
  evalRecord : ∀ cur ks vs acc s, IsSuffixOf cur prog → ks.length ≤ vs.length → ks.wf = true → vs.wf = true → StOK P prog s →
    (∀ kv ∈ acc, ValOK P s.heap kv.2) →
    Good (fun (x : RecordObj × St) => StOK P prog x.2 ∧ (∀ kv ∈ x.1, ValOK P x.2.heap kv.2) ∧ HeapLe s.heap x.2.heap)
      (evalRecord prog f cur ks vs acc s)
  evalCall : ∀ cur callee args s, IsSuffixOf cur prog → args.wf = true → StOK P prog s →
    Good (EvalPost P prog s) (evalCall prog f cur callee args s)
  bindParams : ∀ cur params args env s, IsSuffixOf cur prog → args.wf = true → StOK P prog s → ScopeOK P s.heap env →
    Good (fun (x : Scope × St) => StOK P prog x.2 ∧ ScopeOK P x.2.heap x.1 ∧ HeapLe s.heap x.2.heap) (bindParams prog f cur params args env s)
  callLoop : ∀ cur s, IsSuffixOf cur prog → StOK P prog s → Good (EvalPost P prog s) (callLoop prog f cur s)
  exec : ∀ cur s, IsSuffixOf cur prog → StOK P prog s →
    Good (fun (x : List Stmt × St) => IsSuffixOf x.1 prog ∧ StOK P prog x.2 ∧ HeapLe s.heap x.2.heap) (exec prog f cur s)
  execAssign : ∀ cur a s, IsSuffixOf cur prog → a.wf = true → StOK P prog s →
    Good (fun s' => StOK P prog s' ∧ HeapLe s.heap s'.heap) (execAssign prog f cur a s)
  evalIndexes : ∀ cur ixs s, IsSuffixOf cur prog → ixs.all Expr.wf = true → StOK P prog s →
    Good (fun (x : List Index × St) => StOK P prog x.2 ∧ HeapLe s.heap x.2.heap) (evalIndexes prog f cur ixs s)

theorem evalInv_zero : EvalInv P prog 0 := by
  constructor <;> intros <;> simp only [eval, evalBin, evalList, evalRecord, evalCall, bindParams, callLoop, exec, execAssign, evalIndexes] <;> exact Good.fuel

theorem eval_step (f : Nat) (ih : EvalInv P prog f) (cur : List Stmt) (e : Expr) (s : St)
    (hsuf : IsSuffixOf cur prog) (he : e.wf = true) (hs : StOK P prog s) : Good (EvalPost P prog s) (eval prog (f+1) cur e s) := by
  have okSame : ∀ v, ValOK P s.heap v → Good (EvalPost P prog s) (.ok (v, s)) := fun v hv => Good.ok ⟨hs, hv, HeapLe.refl _⟩
  cases e with
  | nil m => simp only [eval]; exact okSame _ (by simp [ValOK])
  | str t m => simp only [eval]; exact okSame _ (by simp [ValOK])
  | num n m => simp only [eval]; exact okSame _ (by simp [ValOK])
  | bool b m => simp only [eval]; exact okSame _ (by simp [ValOK])
  | var tok m =>
    simp only [eval]
    split
    · rename_i v hv; exact okSame v (lookupVar_ok P hs.scopes.2 hv)
    · exact Good.tagOut (good_stmtErr _ _ _ _)
  | list es m =>
    simp only [eval]
    simp only [Expr.wf] at he
    refine Good.bind (ih.evalList cur es s hsuf he hs) ?_
    rintro ⟨vs, s1⟩ ⟨hs1, hvs, hle⟩
    obtain ⟨a1, a2, a3⟩ := allocList_ok P hs1.heap vs hvs
    exact Good.ok ⟨hs1.withHeap P a1 a3, a2, hle.trans a3⟩
  | group e m => simp only [eval]; simp only [Expr.wf] at he; exact ih.eval cur e s hsuf he hs
  | record ks vs m =>
    simp only [eval]
    simp only [Expr.wf, Bool.and_eq_true, decide_eq_true_eq] at he
    refine Good.bind (ih.evalRecord cur ks vs [] s hsuf he.1.1 he.1.2 he.2 hs (by simp)) ?_
    rintro ⟨r, s1⟩ ⟨hs1, hr, hle⟩
    obtain ⟨a1, a2, a3⟩ := allocRecord_ok P hs1.heap r hr
    exact Good.ok ⟨hs1.withHeap P a1 a3, a2, hle.trans a3⟩
  | unary op r m =>
    simp only [eval]
    simp only [Expr.wf] at he
    refine Good.bind (ih.eval cur r s hsuf he hs) ?_
    rintro ⟨v, s1⟩ ⟨hs1, hv, hle⟩
    refine Good.bind (Good.tagOut (unaryOp_good P op r.meta v s1.heap)) ?_
    intro v' hv'
    exact Good.ok ⟨hs1, hv', hle⟩
  | and l r m =>
    simp only [eval]; simp only [Expr.wf, Bool.and_eq_true] at he
    exact ih.evalBin cur _ _ l r s hsuf he.1 he.2 hs (fun a b h => andOr_good P _ _ a b h)
  | or l r m =>
    simp only [eval]; simp only [Expr.wf, Bool.and_eq_true] at he
    exact ih.evalBin cur _ _ l r s hsuf he.1 he.2 hs (fun a b h => andOr_good P _ _ a b h)
  | equality op l r m =>
    simp only [eval]; simp only [Expr.wf, Bool.and_eq_true] at he
    exact ih.evalBin cur _ _ l r s hsuf he.1 he.2 hs (fun a b h => equality_good P _ _ a b h)
  | comparison op l r m =>
    simp only [eval]; simp only [Expr.wf, Bool.and_eq_true] at he
    exact ih.evalBin cur _ _ l r s hsuf he.1 he.2 hs (fun a b h => compare_good P _ _ a b h)
  | muldiv op l r m =>
    simp only [eval]; simp only [Expr.wf, Bool.and_eq_true] at he
    exact ih.evalBin cur _ _ l r s hsuf he.1 he.2 hs (fun a b h => mulDiv_good P _ _ a b h)
  | addsub op l r m =>
    simp only [eval]; simp only [Expr.wf, Bool.and_eq_true] at he
    refine Good.bind (ih.eval cur l s hsuf he.1 hs) ?_
    rintro ⟨a, s1⟩ ⟨hs1, ha, hle1⟩
    refine Good.bind (ih.eval cur r s1 hsuf he.2 hs1) ?_
    rintro ⟨b, s2⟩ ⟨hs2, hb, hle2⟩
    refine Good.bind (Good.tagOut (addSub_good P op l.meta hs2.heap (ValOK.mono P hle2 ha) hb)) ?_
    rintro ⟨v, h⟩ ⟨h1, h2, h3⟩
    exact Good.ok ⟨hs2.withHeap P h1 h3, h2, (hle1.trans hle2).trans h3⟩
  | indexing c i m =>
    simp only [eval]; simp only [Expr.wf, Bool.and_eq_true] at he
    refine Good.bind (ih.eval cur c s hsuf he.1 hs) ?_
    rintro ⟨cv, s1⟩ ⟨hs1, hc, hle1⟩
    refine Good.bind (ih.eval cur i s1 hsuf he.2 hs1) ?_
    rintro ⟨iv, s2⟩ ⟨hs2, hi, hle2⟩
    refine Good.bind (Good.tagOut (indexVal_good P i.meta hs2.heap (ValOK.mono P hle2 hc))) ?_
    intro v hv
    exact Good.ok ⟨hs2, hv, hle1.trans hle2⟩
  | call callee args m =>
    simp only [eval]; simp only [Expr.wf] at he
    exact ih.evalCall cur callee args s hsuf he hs

theorem evalBin_step (f : Nat) (ih : EvalInv P prog f) (cur : List Stmt) (lf : Bool) (op : Val → Val → Res Val) (l r : Expr) (s : St)
    (hsuf : IsSuffixOf cur prog) (hl : l.wf = true) (hr : r.wf = true) (hs : StOK P prog s)
    (hop : ∀ a b h, Good (ValOK P h) (op a b)) : Good (EvalPost P prog s) (evalBin prog (f+1) cur lf op l r s) := by
  simp only [evalBin]
  split
  · refine Good.bind (ih.eval cur l s hsuf hl hs) ?_
    rintro ⟨a, s1⟩ ⟨hs1, ha, hle1⟩
    refine Good.bind (ih.eval cur r s1 hsuf hr hs1) ?_
    rintro ⟨b, s2⟩ ⟨hs2, hb, hle2⟩
    refine Good.bind (Good.tagOut (hop a b s2.heap)) ?_
    intro v hv
    exact Good.ok ⟨hs2, hv, hle1.trans hle2⟩
  · refine Good.bind (ih.eval cur r s hsuf hr hs) ?_
    rintro ⟨b, s1⟩ ⟨hs1, hb, hle1⟩
    refine Good.bind (ih.eval cur l s1 hsuf hl hs1) ?_
    rintro ⟨a, s2⟩ ⟨hs2, ha, hle2⟩
    refine Good.bind (Good.tagOut (hop a b s2.heap)) ?_
    intro v hv
    exact Good.ok ⟨hs2, hv, hle1.trans hle2⟩

theorem evalList_step (f : Nat) (ih : EvalInv P prog f) (cur : List Stmt) (es : Exprs) (s : St)
    (hsuf : IsSuffixOf cur prog) (he : es.wf = true) (hs : StOK P prog s) :
    Good (fun (x : List Val × St) => StOK P prog x.2 ∧ (∀ v ∈ x.1, ValOK P x.2.heap v) ∧ HeapLe s.heap x.2.heap)
      (evalList prog (f+1) cur es s) := by
  cases es with
  | nil => simp only [evalList]; exact Good.ok ⟨hs, by simp, HeapLe.refl _⟩
  | cons e rest =>
    simp only [evalList]; simp only [Exprs.wf, Bool.and_eq_true] at he
    refine Good.bind (ih.eval cur e s hsuf he.1 hs) ?_
    rintro ⟨v, s1⟩ ⟨hs1, hv, hle1⟩
    refine Good.bind (ih.evalList cur rest s1 hsuf he.2 hs1) ?_
    rintro ⟨vs, s2⟩ ⟨hs2, hvs, hle2⟩
    refine Good.ok ⟨hs2, ?_, hle1.trans hle2⟩
    intro x hx
    rcases List.mem_cons.mp hx with rfl | h1
    · exact ValOK.mono P hle2 hv
    · exact hvs x h1

theorem evalRecord_step (f : Nat) (ih : EvalInv P prog f) (cur : List Stmt) (ks vs : Exprs) (acc : RecordObj) (s : St)
    (hsuf : IsSuffixOf cur prog) (hlen : ks.length ≤ vs.length) (hk : ks.wf = true) (hv : vs.wf = true) (hs : StOK P prog s)
    (hacc : ∀ kv ∈ acc, ValOK P s.heap kv.2) :
    Good (fun (x : RecordObj × St) => StOK P prog x.2 ∧ (∀ kv ∈ x.1, ValOK P x.2.heap kv.2) ∧ HeapLe s.heap x.2.heap)
      (evalRecord prog (f+1) cur ks vs acc s) := by
  cases ks with
  | nil => simp only [evalRecord]; exact Good.ok ⟨hs, hacc, HeapLe.refl _⟩
  | cons k ks' =>
    cases vs with
    | nil => simp [Exprs.length] at hlen
    | cons v vs' =>
      simp only [evalRecord]
      simp only [Exprs.wf, Bool.and_eq_true] at hk hv
      simp only [Exprs.length] at hlen
      refine Good.bind (ih.eval cur k s hsuf hk.1 hs) ?_
      rintro ⟨kv, s1⟩ ⟨hs1, _, hle1⟩
      have hacc1 : ∀ x ∈ acc, ValOK P s1.heap x.2 := fun x hx => ValOK.mono P hle1 (hacc x hx)
      have skip : Good (fun (x : RecordObj × St) => StOK P prog x.2 ∧ (∀ kv ∈ x.1, ValOK P x.2.heap kv.2) ∧ HeapLe s.heap x.2.heap)
          (evalRecord prog f cur ks' vs' acc s1) :=
        (ih.evalRecord cur ks' vs' acc s1 hsuf (by omega) hk.2 hv.2 hs1 hacc1).mono (fun x hx => ⟨hx.1, hx.2.1, hle1.trans hx.2.2⟩)
      cases kv with
      | str key =>
        simp only
        refine Good.bind (ih.eval cur v s1 hsuf hv.1 hs1) ?_
        rintro ⟨vv, s2⟩ ⟨hs2, hvv, hle2⟩
        refine (ih.evalRecord cur ks' vs' (assocSet acc key vv) s2 hsuf (by omega) hk.2 hv.2 hs2 ?_).mono
          (fun x hx => ⟨hx.1, hx.2.1, (hle1.trans hle2).trans hx.2.2⟩)
        intro x hx
        rcases mem_assocSet _ _ _ _ hx with rfl | h1
        · exact hvv
        · exact ValOK.mono P hle2 (hacc1 x h1)
      | _ => exact skip

theorem bindParams_step (f : Nat) (ih : EvalInv P prog f) (cur : List Stmt) (params : List Str) (args : Exprs) (env : Scope) (s : St)
    (hsuf : IsSuffixOf cur prog) (ha : args.wf = true) (hs : StOK P prog s) (henv : ScopeOK P s.heap env) :
    Good (fun (x : Scope × St) => StOK P prog x.2 ∧ ScopeOK P x.2.heap x.1 ∧ HeapLe s.heap x.2.heap)
      (bindParams prog (f+1) cur params args env s) := by
  cases params with
  | nil => simp only [bindParams]; exact Good.ok ⟨hs, henv, HeapLe.refl _⟩
  | cons p ps =>
    cases args with
    | nil =>
      simp only [bindParams]
      exact ih.bindParams cur ps .nil _ s hsuf (by simp [Exprs.wf]) hs (ScopeOK.set P henv (by simp [ValOK]))
    | cons a rest =>
      simp only [bindParams]; simp only [Exprs.wf, Bool.and_eq_true] at ha
      refine Good.bind (ih.eval cur a s hsuf ha.1 hs) ?_
      rintro ⟨v, s1⟩ ⟨hs1, hv, hle1⟩
      exact (ih.bindParams cur ps rest _ s1 hsuf ha.2 hs1 (ScopeOK.set P (ScopeOK.mono P hle1 henv) hv)).mono
        (fun x hx => ⟨hx.1, hx.2.1, hle1.trans hx.2.2⟩)

theorem callLoop_step (hp : progWF prog = true) (f : Nat) (ih : EvalInv P prog f) (cur : List Stmt) (s : St)
    (hsuf : IsSuffixOf cur prog) (hs : StOK P prog s) : Good (EvalPost P prog s) (callLoop prog (f+1) cur s) := by
  simp only [callLoop]
  split
  · rename_i e m rest
    have hm : Stmt.ret e m ∈ prog := mem_of_suffix hsuf (by simp)
    have hw : (Stmt.ret e m).wf = true := by simp only [progWF, List.all_eq_true] at hp; exact hp _ hm
    exact ih.eval _ e s hsuf (by simpa [Stmt.wf] using hw) hs
  · refine Good.bind (ih.exec cur s hsuf hs) ?_
    rintro ⟨cur', s1⟩ ⟨h1, hs1, hle1⟩
    exact (ih.callLoop cur' s1 h1 hs1).mono (fun x hx => ⟨hx.1, hx.2.1, hle1.trans hx.2.2⟩)

theorem evalIndexes_step (f : Nat) (ih : EvalInv P prog f) (cur : List Stmt) (ixs : List Expr) (s : St)
    (hsuf : IsSuffixOf cur prog) (hw : ixs.all Expr.wf = true) (hs : StOK P prog s) :
    Good (fun (x : List Index × St) => StOK P prog x.2 ∧ HeapLe s.heap x.2.heap) (evalIndexes prog (f+1) cur ixs s) := by
  cases ixs with
  | nil => simp only [evalIndexes]; exact Good.ok ⟨hs, HeapLe.refl _⟩
  | cons ix rest =>
    simp only [evalIndexes]
    simp only [List.all_cons, Bool.and_eq_true] at hw
    refine Good.bind (ih.eval cur ix s hsuf hw.1 hs) ?_
    rintro ⟨v, s1⟩ ⟨hs1, hv, hle1⟩
    cases v with
    | list i =>
      obtain ⟨l, h1, _⟩ := list_lookup P hs1.heap hv
      simp only [h1]
      have hone : Good (fun (_ : Index) => True) (match l.head? with
          | some (.num n) => .ok (.pos n)
          | some (.str k) => .ok (.key k)
          | _ => (metaErr ix.meta .runtime "index-must-be-number-or-string" : Res Index).tagOut s1.out) := by
        split
        · exact Good.ok trivial
        · exact Good.ok trivial
        · exact Good.tagOut (good_metaErr _ _ _ _)
      refine Good.bind hone ?_
      intro i1 _
      refine Good.bind (ih.evalIndexes cur rest s1 hsuf hw.2 hs1) ?_
      rintro ⟨is, s2⟩ ⟨hs2, hle2⟩
      exact Good.ok ⟨hs2, hle1.trans hle2⟩
    | _ => exact Good.tagOut (good_metaErr _ _ _ _)

theorem evalCall_step (f : Nat) (ih : EvalInv P prog f) (cur : List Stmt) (callee : Expr) (args : Exprs) (s : St)
    (hsuf : IsSuffixOf cur prog) (ha : args.wf = true) (hs : StOK P prog s) :
    Good (EvalPost P prog s) (evalCall prog (f+1) cur callee args s) := by
  simp only [evalCall]
  split
  · rename_i tok vm hcallee
    split
    · refine Good.bind (ih.evalList cur args s hsuf ha hs) ?_
      rintro ⟨vs, s1⟩ ⟨hs1, hvs, hle1⟩
      simp only
      split
      · split
        · exact good_curErr _ _ _ _
        · exact Good.tagOut (good_stmtErr _ _ _ _)
      · have hc : CallOK P s1 (callBuiltin tok.lexeme vs s1) := by
          simp only [callBuiltin]
          split
          · exact callB_ok P _ vs s1 hs1.heap hvs
          · exact callOK_err P s1 _ (by decide)
        split
        · rename_i r hr
          rw [hr] at hc
          obtain ⟨v, s2⟩ := r
          obtain ⟨c1, c2, c3, c4, c5, _, _⟩ := hc
          exact Good.ok ⟨⟨c1, by rw [c4]; exact hs1.scopes.mono P c3, by rw [c5]; exact hs1.loops⟩, c2, hle1.trans c3⟩
        · rename_i tag hr
          rw [hr] at hc
          have : (tag == panicTag) = false := by simpa [CallOK] using hc
          simp only [this]
          exact good_curErr _ _ _ _
    · split
      · exact Good.tagOut (good_stmtErr _ _ _ _)
      · rename_i rem params hl
        refine Good.bind (ih.bindParams cur params args [] s hsuf ha hs (by intro kv hkv; simp at hkv)) ?_
        rintro ⟨env, s1⟩ ⟨hs1, henv, hle1⟩
        simp only
        split
        · rename_i bm body hb
          have hbs : IsSuffixOf (Stmt.blockStart bm :: body) prog := by rw [← hb]; exact bodyOf_suffix prog rem
          have hs1' : StOK P prog { s1 with scopes := env :: s1.scopes } := ⟨hs1.heap, hs1.scopes.cons P henv, hs1.loops⟩
          refine Good.bind (ih.callLoop _ _ hbs hs1') ?_
          rintro ⟨v, s2⟩ ⟨hs2, hv, hle2⟩
          have l1 : 1 ≤ s1.scopes.length := hs1.scopes.length_pos P
          have l2 : 1 ≤ s2.scopes.length := hs2.scopes.length_pos P
          have hk : s2.scopes.length - s1.scopes.length < s2.scopes.length := by omega
          refine Good.ok ⟨⟨hs2.heap, hs2.scopes.drop P hk, ?_⟩, hv, hle1.trans hle2⟩
          intro l hl
          exact hs2.loops l (List.mem_of_mem_drop hl)
        · exact Good.tagOut (good_unexpected _ _)
      · exact Good.tagOut (good_metaErr _ _ _ _)
  · exact Good.tagOut (good_stmtErr _ _ _ _)

theorem execAssign_step (f : Nat) (ih : EvalInv P prog f) (cur : List Stmt) (a : Assignment) (s : St)
    (hsuf : IsSuffixOf cur prog) (ha : a.wf = true) (hs : StOK P prog s) :
    Good (fun s' => StOK P prog s' ∧ HeapLe s.heap s'.heap) (execAssign prog (f+1) cur a s) := by
  simp only [Assignment.wf, Bool.and_eq_true] at ha
  obtain ⟨⟨ha1, ha2⟩, ha3⟩ := ha
  simp only [execAssign]
  split
  · split
    · rename_i e he
      simp only [he] at ha3
      refine Good.bind (ih.eval cur e s hsuf ha3 hs) ?_
      rintro ⟨v, s1⟩ ⟨hs1, hv, hle1⟩
      refine Good.bind (declareVar_good P hs1.scopes a.var.lexeme hv) ?_
      intro sc hsc
      exact Good.ok ⟨⟨hs1.heap, hsc.1, hs1.loops⟩, hle1⟩
    · refine Good.bind (declareVar_good P hs.scopes a.var.lexeme (v := .nil) (by simp [ValOK])) ?_
      intro sc hsc
      exact Good.ok ⟨⟨hs.heap, hsc.1, hs.loops⟩, HeapLe.refl _⟩
  · rename_i hk
    split
    · rename_i hi; simp [hk, hi] at ha1
    · rename_i e he
      simp only [he] at ha3
      refine Good.bind (ih.eval cur e s hsuf ha3 hs) ?_
      rintro ⟨v, s1⟩ ⟨hs1, hv, hle1⟩
      simp only
      split
      · exact Good.tagOut (good_stmtErr _ _ _ _)
      · rename_i x hx
        split
        · obtain ⟨sc, hsc⟩ := assignVar_some (v := v) hx
          simp only [hsc]
          obtain ⟨b1, b2⟩ := assignVar_ok P hv hs1.scopes.2 hsc
          refine Good.ok ⟨⟨hs1.heap, ⟨?_, b1⟩, hs1.loops⟩, hle1⟩
          intro h0
          have h0' : sc = [] := h0
          have l1 : 1 ≤ s1.scopes.length := hs1.scopes.length_pos P
          have b2' : sc.length = s1.scopes.length := b2
          rw [h0'] at b2'; simp at b2'; omega
        · refine Good.bind (ih.evalIndexes cur a.indexes s1 hsuf ha2 hs1) ?_
          rintro ⟨ixs, s2⟩ ⟨hs2, hle2⟩
          simp only
          split
          · exact Good.tagOut (good_unexpected _ _)
          · split
            · exact Good.tagOut (good_stmtErr _ _ _ _)
            · rename_i container hc
              refine Good.bind (Good.tagOut (assignPath_good P _ ixs hs2.heap (lookupVar_ok P hs2.scopes.2 hc) (ValOK.mono P hle2 hv))) ?_
              intro h ⟨h1, h2, _⟩
              exact Good.ok ⟨hs2.withHeap P h1 h2, (hle1.trans hle2).trans h2⟩

theorem exec_step (hp : progWF prog = true) (hf : FuncIntro P prog) (f : Nat) (ih : EvalInv P prog f) (cur : List Stmt) (s : St)
    (hsuf : IsSuffixOf cur prog) (hs : StOK P prog s) :
    Good (fun (x : List Stmt × St) => IsSuffixOf x.1 prog ∧ StOK P prog x.2 ∧ HeapLe s.heap x.2.heap) (exec prog (f+1) cur s) := by
  cases cur with
  | nil => simp only [exec]; exact Good.tagOut (good_unexpected _ _)
  | cons st rest =>
    have hrest : IsSuffixOf rest prog := hsuf.tail
    have hw : st.wf = true := by
      simp only [progWF, List.all_eq_true] at hp; exact hp _ (mem_of_suffix hsuf (by simp))
    have hl1 : 1 ≤ s.scopes.length := hs.scopes.length_pos P
    cases st with
    | print e m =>
      simp only [exec]
      refine Good.bind (ih.eval _ e s hsuf (by simpa [Stmt.wf] using hw) hs) ?_
      rintro ⟨v, s1⟩ ⟨hs1, hv, hle1⟩
      refine Good.bind (printTop_good P _ f true hs1.heap hv) ?_
      intro s2 ⟨a1, a2, a3, _, _⟩
      exact Good.ok ⟨hrest, hs1.of_eq P a1 a2 a3, by rw [a1]; exact hle1⟩
    | printNoEOL e m =>
      simp only [exec]
      refine Good.bind (ih.eval _ e s hsuf (by simpa [Stmt.wf] using hw) hs) ?_
      rintro ⟨v, s1⟩ ⟨hs1, hv, hle1⟩
      refine Good.bind (printTop_good P _ f false hs1.heap hv) ?_
      intro s2 ⟨a1, a2, a3, _, _⟩
      exact Good.ok ⟨hrest, hs1.of_eq P a1 a2 a3, by rw [a1]; exact hle1⟩
    | expr e m =>
      simp only [exec]
      refine Good.bind (ih.eval _ e s hsuf (by simpa [Stmt.wf] using hw) hs) ?_
      rintro ⟨v, s1⟩ ⟨hs1, hv, hle1⟩
      exact Good.ok ⟨hrest, hs1, hle1⟩
    | assign a m =>
      simp only [exec]
      refine Good.bind (ih.execAssign _ a s hsuf (by simpa [Stmt.wf] using hw) hs) ?_
      intro s1 ⟨hs1, hle1⟩
      exact Good.ok ⟨hrest, hs1, hle1⟩
    | «if» c m =>
      simp only [exec]
      refine Good.bind (ih.eval rest c s hrest (by simpa [Stmt.wf] using hw) hs) ?_
      rintro ⟨v, s1⟩ ⟨hs1, hv, hle1⟩
      simp only
      split
      · exact Good.ok ⟨hrest, ⟨hs1.heap, hs1.scopes, hs1.loops⟩, hle1⟩
      · refine Good.bind (Good.tagOut (skipBlockInIf_good rest _)) ?_
        rintro ⟨cur', flags⟩ h1
        exact Good.ok ⟨IsSuffixOf.trans h1 hrest, ⟨hs1.heap, hs1.scopes, hs1.loops⟩, hle1⟩
      · exact Good.tagOut (good_metaErr _ _ _ _)
    | «else» m =>
      simp only [exec]
      split
      · exact Good.tagOut (good_stmtErr _ _ _ _)
      · refine Good.bind (Good.tagOut (skipBlockInIf_good rest _)) ?_
        rintro ⟨cur', flags⟩ h1
        exact Good.ok ⟨IsSuffixOf.trans h1 hrest, ⟨hs.heap, hs.scopes, hs.loops⟩, HeapLe.refl _⟩
      · exact Good.ok ⟨hrest, ⟨hs.heap, hs.scopes, hs.loops⟩, HeapLe.refl _⟩
    | funcDef m =>
      simp only [exec]
      exact Good.tagOut (execFuncDef_good P hf hsuf hs)
    | loop m =>
      simp only [exec]
      refine Good.ok ⟨hrest, ⟨hs.heap, hs.scopes, ?_⟩, HeapLe.refl _⟩
      intro l hl
      rcases List.mem_cons.mp hl with rfl | h1
      · exact ⟨hrest, hl1⟩
      · exact hs.loops l h1
    | cont m =>
      simp only [exec]
      split
      · exact Good.tagOut (good_stmtErr _ _ _ _)
      · rename_i l ls hls
        have hl := hs.loops l (by rw [hls]; simp)
        have hk : s.scopes.length - l.envs < s.scopes.length := by have := hl.2; omega
        exact Good.ok ⟨hl.1, ⟨hs.heap, hs.scopes.drop P hk, hs.loops⟩, HeapLe.refl _⟩
    | brk m =>
      simp only [exec]
      split
      · rename_i l ls hls
        have hl := hs.loops l (by rw [hls]; simp)
        have hk : s.scopes.length - l.envs < s.scopes.length := by have := hl.2; omega
        refine Good.bind (Good.tagOut (breakScan_good m rest _)) ?_
        intro cur' h1
        refine Good.ok ⟨IsSuffixOf.trans h1 hrest, ⟨hs.heap, hs.scopes.drop P hk, ?_⟩, HeapLe.refl _⟩
        intro l' hl'
        exact hs.loops l' (by rw [hls]; simp [hl'])
      · refine Good.bind (Good.tagOut (breakScan_good m rest _)) ?_
        intro cur' h1
        exact Good.ok ⟨IsSuffixOf.trans h1 hrest, hs, HeapLe.refl _⟩
    | blockStart m =>
      simp only [exec]
      exact Good.ok ⟨hrest, ⟨hs.heap, hs.scopes.cons P (by intro kv hkv; simp at hkv), hs.loops⟩, HeapLe.refl _⟩
    | blockEnd m =>
      simp only [exec]
      split
      · exact Good.tagOut (good_stmtErr _ _ _ _)
      · rename_i hlen
        exact Good.ok ⟨hrest, ⟨hs.heap, hs.scopes.drop P (by omega), hs.loops⟩, HeapLe.refl _⟩
    | ret e m => simp only [exec]; exact Good.tagOut (good_stmtErr _ _ _ _)
    | eos m => simp only [exec]; exact Good.tagOut (good_stmtErr _ _ _ _)

/-- **the evaluator preserves the state invariant and never panics**, for every fuel -/
theorem evalInv (hp : progWF prog = true) (hf : FuncIntro P prog) : ∀ f, EvalInv P prog f
  | 0 => evalInv_zero P prog
  | f+1 =>
    have ih := evalInv hp hf f
    { eval := eval_step P prog f ih
      evalBin := evalBin_step P prog f ih
      evalList := evalList_step P prog f ih
      evalRecord := evalRecord_step P prog f ih
      evalCall := evalCall_step P prog f ih
      bindParams := bindParams_step P prog f ih
      callLoop := callLoop_step P prog hp f ih
      exec := exec_step P prog hp hf f ih
      execAssign := execAssign_step P prog f ih
      evalIndexes := evalIndexes_step P prog f ih }

theorem stOK_init (w : World) : StOK P prog (St.init w) := by
  refine ⟨⟨?_, ?_, ?_, ?_⟩, ⟨by simp [St.init], ?_⟩, ?_⟩ <;> simp [St.init, Heap.empty, ScopeOK, ValOK]

/-- `Interpreter::run` preserves the invariant and never panics -/
theorem runLoop_good (hp : progWF prog = true) (hf : FuncIntro P prog) (g : GcMode) : ∀ (f k : Nat) (cur : List Stmt) (s : St),
    IsSuffixOf cur prog → StOK P prog s → Good (fun s' => StOK P prog s') (runLoop prog g f k cur s)
  | 0, _, _, _, _, _ => by simp only [runLoop]; exact Good.fuel
  | f+1, k, cur, s, hsuf, hs => by
      simp only [runLoop]
      split
      · exact Good.ok hs
      · exact Good.ok hs
      · have he := (evalInv P prog hp hf f).exec cur s hsuf hs
        cases hx : exec prog f cur s with
        | ok x =>
          obtain ⟨cur', s1⟩ := x
          rw [hx] at he
          obtain ⟨h1, hs1, _⟩ := he
          simp only
          split
          · obtain ⟨c1, c2⟩ := collect_ok P hs1.heap hs1.scopes
            cases hc : collect s1.scopes s1.heap with
            | ok h' =>
              simp only
              obtain ⟨d1, d2, _⟩ := c2 h' hc
              have hs2 := hs1.withHeap P d1 d2
              exact runLoop_good hp hf g f (k+1) cur' _ h1 ⟨hs2.heap, hs2.scopes, hs2.loops⟩
            | panic p => exact (c1 p hc).elim
            | fuel => exact Good.fuel
          · exact runLoop_good hp hf g f (k+1) cur' s1 h1 hs1
        | err e => exact Good.err e
        | panic p => rw [hx] at he; exact he.elim
        | fuel => exact Good.fuel
end

/-- **no Rust panic site is reachable**: for every well-formed statement list, every collection schedule,
    every world and every amount of fuel, the run ends in a value, a Pakhi error or out-of-fuel — never in
    one of the model's `.panic` outcomes (the `unwrap()`s, slice indexings and `[]` of `interpreter.rs`,
    `built_ins.rs` and `mark_sweep.rs`) -/
theorem run_never_panics (prog : List Stmt) (hp : progWF prog = true) (g : GcMode) (f k : Nat) (w : World) (p : String) :
    runLoop prog g f k prog (St.init w) ≠ .panic p := by
  have := runLoop_good (fun _ _ => True) prog hp (fun _ _ _ _ _ _ _ _ _ _ => trivial) g f k prog (St.init w)
    (IsSuffixOf.refl _) (stOK_init _ prog w)
  intro h; rw [h] at this; exact this
end Pakhi
