/-
  Frames: expression evaluation (including calls of well-structured functions) leaves the loop stack, the flag
  stack and the scope depth as they were; closes the refinement of `Lemmas/Refine.lean` (helper lemmas for C02–C05, C19).
-/
import Pakhi.Lemmas.Refine
namespace Pakhi
section
variable {prog : List Stmt}

theorem Good.and {α} {P Q : α → Prop} {r : Res α} (h1 : Good P r) (h2 : Good Q r) : Good (fun a => P a ∧ Q a) r := by
  cases r <;> simp_all [Good]

theorem Good.of_ok {α} {Q : α → Prop} {r : Res α} {a : α} (h : Good Q r) (hr : r = .ok a) : Q a := by
  subst hr; exact h

/-- a call of a good function body leaves the caller's stacks below what it pushed -/
def CallBal (prog : List Stmt) (f : Nat) : Prop :=
  ∀ (body : List Stmt) (s : St) (v : Val) (s2 : St), GoodBody body → IsSuffixOf body prog → StOK (GoodFn prog) prog s →
    callLoop prog f body s = .ok (v, s2) → RetFrame s s2

/-- frame facts for the expression evaluator at fuel `f` -/
structure FrameInv (prog : List Stmt) (f : Nat) : Prop where
  eval : ∀ cur e s, IsSuffixOf cur prog → e.wf = true → StOK (GoodFn prog) prog s →
    Good (fun (x : Val × St) => Frame s x.2) (eval prog f cur e s)
  evalBin : ∀ cur lf (op : Val → Val → Res Val) l r s, IsSuffixOf cur prog → l.wf = true → r.wf = true → StOK (GoodFn prog) prog s →
    (∀ a b h, Good (ValOK (GoodFn prog) h) (op a b)) → Good (fun (x : Val × St) => Frame s x.2) (evalBin prog f cur lf op l r s)
  evalList : ∀ cur es s, IsSuffixOf cur prog → es.wf = true → StOK (GoodFn prog) prog s →
    Good (fun (x : List Val × St) => Frame s x.2) (evalList prog f cur es s)
  evalRecord : ∀ cur ks vs acc s, IsSuffixOf cur prog → ks.length ≤ vs.length → ks.wf = true → vs.wf = true → StOK (GoodFn prog) prog s →
    (∀ kv ∈ acc, ValOK (GoodFn prog) s.heap kv.2) →
    Good (fun (x : RecordObj × St) => Frame s x.2) (evalRecord prog f cur ks vs acc s)
  evalCall : ∀ cur callee args s, IsSuffixOf cur prog → args.wf = true → StOK (GoodFn prog) prog s →
    Good (fun (x : Val × St) => Frame s x.2) (evalCall prog f cur callee args s)
  bindParams : ∀ cur params args env s, IsSuffixOf cur prog → args.wf = true → StOK (GoodFn prog) prog s → ScopeOK (GoodFn prog) s.heap env →
    Good (fun (x : Scope × St) => Frame s x.2) (bindParams prog f cur params args env s)
  execAssign : ∀ cur a s, IsSuffixOf cur prog → a.wf = true → StOK (GoodFn prog) prog s →
    Good (fun s' => Frame s s') (execAssign prog f cur a s)
  evalIndexes : ∀ cur ixs s, IsSuffixOf cur prog → ixs.all Expr.wf = true → StOK (GoodFn prog) prog s →
    Good (fun (x : List Index × St) => Frame s x.2) (evalIndexes prog f cur ixs s)

theorem frameInv_zero : FrameInv prog 0 := by
  constructor <;> intros <;> simp only [eval, evalBin, evalList, evalRecord, evalCall, bindParams, execAssign, evalIndexes] <;> exact Good.fuel

theorem FrameInv.toEF {f : Nat} (h : FrameInv prog f) : EFat prog f :=
  ⟨fun cur e s v s' hsuf hw hs he => (h.eval cur e s hsuf hw hs).of_ok he,
   fun cur a s s' hsuf hw hs he => (h.execAssign cur a s hsuf hw hs).of_ok he⟩

variable (hinv : ∀ f, EvalInv (GoodFn prog) prog f)
include hinv

theorem fr_eval (f : Nat) (ih : FrameInv prog f) (cur : List Stmt) (e : Expr) (s : St)
    (hsuf : IsSuffixOf cur prog) (he : e.wf = true) (hs : StOK (GoodFn prog) prog s) :
    Good (fun (x : Val × St) => Frame s x.2) (eval prog (f+1) cur e s) := by
  have okSame : ∀ v, Good (fun (x : Val × St) => Frame s x.2) (.ok (v, s)) := fun v => Good.ok (Frame.refl s)
  cases e with
  | nil m => simp only [eval]; exact okSame _
  | str t m => simp only [eval]; exact okSame _
  | num n m => simp only [eval]; exact okSame _
  | bool b m => simp only [eval]; exact okSame _
  | var tok m =>
    simp only [eval]
    split
    · exact okSame _
    · exact Good.tagOut (good_stmtErr _ _ _ _)
  | list es m =>
    simp only [eval]; simp only [Expr.wf] at he
    refine Good.bind (ih.evalList cur es s hsuf he hs) ?_
    rintro ⟨vs, s1⟩ hfr
    exact Good.ok ⟨hfr.loops, hfr.flags, hfr.depth⟩
  | group e m => simp only [eval]; simp only [Expr.wf] at he; exact ih.eval cur e s hsuf he hs
  | record ks vs m =>
    simp only [eval]
    simp only [Expr.wf, Bool.and_eq_true, decide_eq_true_eq] at he
    refine Good.bind (ih.evalRecord cur ks vs [] s hsuf he.1.1 he.1.2 he.2 hs (by simp)) ?_
    rintro ⟨r, s1⟩ hfr
    exact Good.ok ⟨hfr.loops, hfr.flags, hfr.depth⟩
  | unary op r m =>
    simp only [eval]; simp only [Expr.wf] at he
    refine Good.bind (ih.eval cur r s hsuf he hs) ?_
    rintro ⟨v, s1⟩ hfr
    refine Good.bind (Good.tagOut (unaryOp_good (GoodFn prog) op r.meta v s1.heap)) ?_
    intro v' _
    exact Good.ok hfr
  | and l r m =>
    simp only [eval]; simp only [Expr.wf, Bool.and_eq_true] at he
    exact ih.evalBin cur _ _ l r s hsuf he.1 he.2 hs (fun a b h => andOr_good _ _ _ a b h)
  | or l r m =>
    simp only [eval]; simp only [Expr.wf, Bool.and_eq_true] at he
    exact ih.evalBin cur _ _ l r s hsuf he.1 he.2 hs (fun a b h => andOr_good _ _ _ a b h)
  | equality op l r m =>
    simp only [eval]; simp only [Expr.wf, Bool.and_eq_true] at he
    exact ih.evalBin cur _ _ l r s hsuf he.1 he.2 hs (fun a b h => equality_good _ _ _ a b h)
  | comparison op l r m =>
    simp only [eval]; simp only [Expr.wf, Bool.and_eq_true] at he
    exact ih.evalBin cur _ _ l r s hsuf he.1 he.2 hs (fun a b h => compare_good _ _ _ a b h)
  | muldiv op l r m =>
    simp only [eval]; simp only [Expr.wf, Bool.and_eq_true] at he
    exact ih.evalBin cur _ _ l r s hsuf he.1 he.2 hs (fun a b h => mulDiv_good _ _ _ a b h)
  | addsub op l r m =>
    simp only [eval]; simp only [Expr.wf, Bool.and_eq_true] at he
    refine Good.bind (Good.and ((hinv f).eval cur l s hsuf he.1 hs) (ih.eval cur l s hsuf he.1 hs)) ?_
    rintro ⟨a, s1⟩ ⟨⟨hs1, ha, hle1⟩, hf1⟩
    refine Good.bind (Good.and ((hinv f).eval cur r s1 hsuf he.2 hs1) (ih.eval cur r s1 hsuf he.2 hs1)) ?_
    rintro ⟨b, s2⟩ ⟨⟨hs2, hb, hle2⟩, hf2⟩
    refine Good.bind (Good.tagOut (addSub_good (GoodFn prog) op l.meta hs2.heap (ValOK.mono _ hle2 ha) hb)) ?_
    rintro ⟨v, h⟩ _
    exact Good.ok (hf1.trans ⟨hf2.loops, hf2.flags, hf2.depth⟩)
  | indexing c i m =>
    simp only [eval]; simp only [Expr.wf, Bool.and_eq_true] at he
    refine Good.bind (Good.and ((hinv f).eval cur c s hsuf he.1 hs) (ih.eval cur c s hsuf he.1 hs)) ?_
    rintro ⟨cv, s1⟩ ⟨⟨hs1, hc, hle1⟩, hf1⟩
    refine Good.bind (Good.and ((hinv f).eval cur i s1 hsuf he.2 hs1) (ih.eval cur i s1 hsuf he.2 hs1)) ?_
    rintro ⟨iv, s2⟩ ⟨⟨hs2, hi, hle2⟩, hf2⟩
    refine Good.bind (Good.tagOut (indexVal_good (GoodFn prog) i.meta hs2.heap (ValOK.mono _ hle2 hc))) ?_
    intro v _
    exact Good.ok (hf1.trans hf2)
  | call callee args m =>
    simp only [eval]; simp only [Expr.wf] at he
    exact ih.evalCall cur callee args s hsuf he hs
end
section
variable {prog : List Stmt}
variable (hinv : ∀ f, EvalInv (GoodFn prog) prog f)
include hinv

theorem fr_evalBin (f : Nat) (ih : FrameInv prog f) (cur : List Stmt) (lf : Bool) (op : Val → Val → Res Val) (l r : Expr) (s : St)
    (hsuf : IsSuffixOf cur prog) (hl : l.wf = true) (hr : r.wf = true) (hs : StOK (GoodFn prog) prog s)
    (hop : ∀ a b h, Good (ValOK (GoodFn prog) h) (op a b)) :
    Good (fun (x : Val × St) => Frame s x.2) (evalBin prog (f+1) cur lf op l r s) := by
  simp only [evalBin]
  split
  · refine Good.bind (Good.and ((hinv f).eval cur l s hsuf hl hs) (ih.eval cur l s hsuf hl hs)) ?_
    rintro ⟨a, s1⟩ ⟨⟨hs1, _, _⟩, hf1⟩
    refine Good.bind (ih.eval cur r s1 hsuf hr hs1) ?_
    rintro ⟨b, s2⟩ hf2
    refine Good.bind (Good.tagOut (hop a b s2.heap)) ?_
    intro v _
    exact Good.ok (hf1.trans hf2)
  · refine Good.bind (Good.and ((hinv f).eval cur r s hsuf hr hs) (ih.eval cur r s hsuf hr hs)) ?_
    rintro ⟨b, s1⟩ ⟨⟨hs1, _, _⟩, hf1⟩
    refine Good.bind (ih.eval cur l s1 hsuf hl hs1) ?_
    rintro ⟨a, s2⟩ hf2
    refine Good.bind (Good.tagOut (hop a b s2.heap)) ?_
    intro v _
    exact Good.ok (hf1.trans hf2)

theorem fr_evalList (f : Nat) (ih : FrameInv prog f) (cur : List Stmt) (es : Exprs) (s : St)
    (hsuf : IsSuffixOf cur prog) (he : es.wf = true) (hs : StOK (GoodFn prog) prog s) :
    Good (fun (x : List Val × St) => Frame s x.2) (evalList prog (f+1) cur es s) := by
  cases es with
  | nil => simp only [evalList]; exact Good.ok (Frame.refl s)
  | cons e rest =>
    simp only [evalList]; simp only [Exprs.wf, Bool.and_eq_true] at he
    refine Good.bind (Good.and ((hinv f).eval cur e s hsuf he.1 hs) (ih.eval cur e s hsuf he.1 hs)) ?_
    rintro ⟨v, s1⟩ ⟨⟨hs1, _, _⟩, hf1⟩
    refine Good.bind (ih.evalList cur rest s1 hsuf he.2 hs1) ?_
    rintro ⟨vs, s2⟩ hf2
    exact Good.ok (hf1.trans hf2)

theorem fr_evalRecord (f : Nat) (ih : FrameInv prog f) (cur : List Stmt) (ks vs : Exprs) (acc : RecordObj) (s : St)
    (hsuf : IsSuffixOf cur prog) (hlen : ks.length ≤ vs.length) (hk : ks.wf = true) (hv : vs.wf = true) (hs : StOK (GoodFn prog) prog s)
    (hacc : ∀ kv ∈ acc, ValOK (GoodFn prog) s.heap kv.2) :
    Good (fun (x : RecordObj × St) => Frame s x.2) (evalRecord prog (f+1) cur ks vs acc s) := by
  cases ks with
  | nil => simp only [evalRecord]; exact Good.ok (Frame.refl s)
  | cons k ks' =>
    cases vs with
    | nil => simp [Exprs.length] at hlen
    | cons v vs' =>
      simp only [evalRecord]
      simp only [Exprs.wf, Bool.and_eq_true] at hk hv
      simp only [Exprs.length] at hlen
      refine Good.bind (Good.and ((hinv f).eval cur k s hsuf hk.1 hs) (ih.eval cur k s hsuf hk.1 hs)) ?_
      rintro ⟨kv, s1⟩ ⟨⟨hs1, _, hle1⟩, hf1⟩
      have hacc1 : ∀ x ∈ acc, ValOK (GoodFn prog) s1.heap x.2 := fun x hx => ValOK.mono _ hle1 (hacc x hx)
      have skip : Good (fun (x : RecordObj × St) => Frame s x.2) (evalRecord prog f cur ks' vs' acc s1) :=
        (ih.evalRecord cur ks' vs' acc s1 hsuf (by omega) hk.2 hv.2 hs1 hacc1).mono (fun x hx => hf1.trans hx)
      cases kv with
      | str key =>
        simp only
        refine Good.bind (Good.and ((hinv f).eval cur v s1 hsuf hv.1 hs1) (ih.eval cur v s1 hsuf hv.1 hs1)) ?_
        rintro ⟨vv, s2⟩ ⟨⟨hs2, hvv, hle2⟩, hf2⟩
        refine (ih.evalRecord cur ks' vs' (assocSet acc key vv) s2 hsuf (by omega) hk.2 hv.2 hs2 ?_).mono
          (fun x hx => (hf1.trans hf2).trans hx)
        intro x hx
        rcases mem_assocSet _ _ _ _ hx with rfl | h1
        · exact hvv
        · exact ValOK.mono _ hle2 (hacc1 x h1)
      | _ => exact skip

theorem fr_bindParams (f : Nat) (ih : FrameInv prog f) (cur : List Stmt) (params : List Str) (args : Exprs) (env : Scope) (s : St)
    (hsuf : IsSuffixOf cur prog) (ha : args.wf = true) (hs : StOK (GoodFn prog) prog s) (henv : ScopeOK (GoodFn prog) s.heap env) :
    Good (fun (x : Scope × St) => Frame s x.2) (bindParams prog (f+1) cur params args env s) := by
  cases params with
  | nil => simp only [bindParams]; exact Good.ok (Frame.refl s)
  | cons p ps =>
    cases args with
    | nil =>
      simp only [bindParams]
      exact ih.bindParams cur ps .nil _ s hsuf (by simp [Exprs.wf]) hs (ScopeOK.set _ henv (by simp [ValOK]))
    | cons a rest =>
      simp only [bindParams]; simp only [Exprs.wf, Bool.and_eq_true] at ha
      refine Good.bind (Good.and ((hinv f).eval cur a s hsuf ha.1 hs) (ih.eval cur a s hsuf ha.1 hs)) ?_
      rintro ⟨v, s1⟩ ⟨⟨hs1, hv, hle1⟩, hf1⟩
      exact (ih.bindParams cur ps rest _ s1 hsuf ha.2 hs1 (ScopeOK.set _ (ScopeOK.mono _ hle1 henv) hv)).mono
        (fun x hx => hf1.trans hx)

theorem fr_evalIndexes (f : Nat) (ih : FrameInv prog f) (cur : List Stmt) (ixs : List Expr) (s : St)
    (hsuf : IsSuffixOf cur prog) (hw : ixs.all Expr.wf = true) (hs : StOK (GoodFn prog) prog s) :
    Good (fun (x : List Index × St) => Frame s x.2) (evalIndexes prog (f+1) cur ixs s) := by
  cases ixs with
  | nil => simp only [evalIndexes]; exact Good.ok (Frame.refl s)
  | cons ix rest =>
    simp only [evalIndexes]
    simp only [List.all_cons, Bool.and_eq_true] at hw
    refine Good.bind (Good.and ((hinv f).eval cur ix s hsuf hw.1 hs) (ih.eval cur ix s hsuf hw.1 hs)) ?_
    rintro ⟨v, s1⟩ ⟨⟨hs1, hv, hle1⟩, hf1⟩
    cases v with
    | list i =>
      obtain ⟨l, h1, _⟩ := list_lookup _ hs1.heap hv
      simp only [h1]
      have hone : Good (fun (_ : Index) => True) (match l.head? with
          | some (.num n) => .ok (.pos n)
          | some (.str k) => .ok (.key k)
          | _ => (metaErr ix.meta .runtime "index-must-be-number-or-string" : Res Index).tagOut s1.out) := by
        split
        · exact Good.ok trivial
        · exact Good.ok trivial
        · exact Good.tagOut (good_metaErr _ _ _ _)
      refine Good.bind hone ?_
      intro i1 _
      refine Good.bind (ih.evalIndexes cur rest s1 hsuf hw.2 hs1) ?_
      rintro ⟨is, s2⟩ hf2
      exact Good.ok (hf1.trans hf2)
    | _ => exact Good.tagOut (good_metaErr _ _ _ _)

omit hinv in
theorem assignVar_length {v : Val} : ∀ {scs scs' : List Scope} {n : Str}, assignVar scs n v = some scs' → scs'.length = scs.length
  | [], _, _, h => by simp [assignVar] at h
  | sc :: rest, scs', n, h => by
      simp only [assignVar] at h
      split at h
      · simp at h; subst h; simp
      · cases hr : assignVar rest n v with
        | none => simp [hr] at h
        | some r' => simp [hr] at h; subst h; simp [assignVar_length hr]

theorem fr_execAssign (f : Nat) (ih : FrameInv prog f) (cur : List Stmt) (a : Assignment) (s : St)
    (hsuf : IsSuffixOf cur prog) (ha : a.wf = true) (hs : StOK (GoodFn prog) prog s) :
    Good (fun s' => Frame s s') (execAssign prog (f+1) cur a s) := by
  simp only [Assignment.wf, Bool.and_eq_true] at ha
  obtain ⟨⟨ha1, ha2⟩, ha3⟩ := ha
  simp only [execAssign]
  split
  · split
    · rename_i e he
      simp only [he] at ha3
      refine Good.bind (Good.and ((hinv f).eval cur e s hsuf ha3 hs) (ih.eval cur e s hsuf ha3 hs)) ?_
      rintro ⟨v, s1⟩ ⟨⟨hs1, hv, _⟩, hf1⟩
      refine Good.bind (declareVar_good _ hs1.scopes a.var.lexeme hv) ?_
      intro sc hsc
      exact Good.ok ⟨hf1.loops, hf1.flags, hsc.2.trans hf1.depth⟩
    · refine Good.bind (declareVar_good (GoodFn prog) hs.scopes a.var.lexeme (v := .nil) (by simp [ValOK])) ?_
      intro sc hsc
      exact Good.ok ⟨rfl, rfl, hsc.2⟩
  · rename_i hk
    split
    · rename_i hi; simp [hk, hi] at ha1
    · rename_i e he
      simp only [he] at ha3
      refine Good.bind (Good.and ((hinv f).eval cur e s hsuf ha3 hs) (ih.eval cur e s hsuf ha3 hs)) ?_
      rintro ⟨v, s1⟩ ⟨⟨hs1, hv, hle1⟩, hf1⟩
      simp only
      split
      · exact Good.tagOut (good_stmtErr _ _ _ _)
      · rename_i x hx
        split
        · obtain ⟨sc, hsc⟩ := assignVar_some (v := v) hx
          simp only [hsc]
          exact Good.ok ⟨hf1.loops, hf1.flags, (assignVar_length hsc).trans hf1.depth⟩
        · refine Good.bind (Good.and ((hinv f).evalIndexes cur a.indexes s1 hsuf ha2 hs1) (ih.evalIndexes cur a.indexes s1 hsuf ha2 hs1)) ?_
          rintro ⟨ixs, s2⟩ ⟨⟨hs2, hle2⟩, hf2⟩
          simp only
          split
          · exact Good.tagOut (good_unexpected _ _)
          · split
            · exact Good.tagOut (good_stmtErr _ _ _ _)
            · rename_i container hc
              refine Good.bind (Good.tagOut (assignPath_good (GoodFn prog) _ ixs hs2.heap (lookupVar_ok _ hs2.scopes.2 hc) (ValOK.mono _ hle2 hv))) ?_
              intro h _
              exact Good.ok ((hf1.trans hf2).trans ⟨rfl, rfl, rfl⟩)
end
section
variable {prog : List Stmt}

theorem drop_ext {α} (ext base : List α) : (ext ++ base).drop ((ext ++ base).length - base.length) = base := by
  simp

variable (hinv : ∀ f, EvalInv (GoodFn prog) prog f)
include hinv

theorem fr_evalCall (f : Nat) (ih : FrameInv prog f) (hcb : CallBal prog f) (cur : List Stmt) (callee : Expr) (args : Exprs) (s : St)
    (hsuf : IsSuffixOf cur prog) (ha : args.wf = true) (hs : StOK (GoodFn prog) prog s) :
    Good (fun (x : Val × St) => Frame s x.2) (evalCall prog (f+1) cur callee args s) := by
  simp only [evalCall]
  split
  · rename_i tok vm hcallee
    split
    · refine Good.bind (Good.and ((hinv f).evalList cur args s hsuf ha hs) (ih.evalList cur args s hsuf ha hs)) ?_
      rintro ⟨vs, s1⟩ ⟨⟨hs1, hvs, _⟩, hf1⟩
      simp only
      split
      · split
        · exact good_curErr _ _ _ _
        · exact Good.tagOut (good_stmtErr _ _ _ _)
      · have hc : CallOK (GoodFn prog) s1 (callBuiltin tok.lexeme vs s1) := by
          simp only [callBuiltin]
          split
          · exact callB_ok _ _ vs s1 hs1.heap hvs
          · exact callOK_err _ s1 _ (by decide)
        split
        · rename_i r hr
          rw [hr] at hc
          obtain ⟨v, s2⟩ := r
          obtain ⟨_, _, _, c4, c5, c6, _⟩ := hc
          exact Good.ok (hf1.trans ⟨c5, c6, by rw [c4]⟩)
        · rename_i tag hr
          rw [hr] at hc
          have : (tag == panicTag) = false := by simpa [CallOK] using hc
          simp only [this]
          exact good_curErr _ _ _ _
    · split
      · exact Good.tagOut (good_stmtErr _ _ _ _)
      · rename_i rem params hl
        have hgf : GoodFn prog rem params := by
          have := lookupVar_ok (GoodFn prog) hs.scopes.2 hl
          simpa [ValOK] using this
        refine Good.bind (Good.and ((hinv f).bindParams cur params args [] s hsuf ha hs (by intro kv hkv; simp at hkv))
          (ih.bindParams cur params args [] s hsuf ha hs (by intro kv hkv; simp at hkv))) ?_
        rintro ⟨env, s1⟩ ⟨⟨hs1, henv, _⟩, hf1⟩
        simp only
        split
        · rename_i bm body hb
          have hbs : IsSuffixOf (Stmt.blockStart bm :: body) prog := by rw [← hb]; exact bodyOf_suffix prog rem
          have hs1' : StOK (GoodFn prog) prog { s1 with scopes := env :: s1.scopes } := ⟨hs1.heap, hs1.scopes.cons _ henv, hs1.loops⟩
          have hgb : GoodBody (Stmt.blockStart bm :: body) := by rw [← hb]; exact hgf
          have hgood := (hinv f).callLoop _ _ hbs hs1'
          cases hcl : callLoop prog f (Stmt.blockStart bm :: body) { s1 with scopes := env :: s1.scopes } with
          | ok x =>
            obtain ⟨v, s2⟩ := x
            have hbal := hcb _ _ v s2 hgb hbs hs1' hcl
            obtain ⟨e1, he1⟩ := hbal.loops
            obtain ⟨e2, he2⟩ := hbal.flags
            have hd := hbal.depth
            simp only [Res.bind]
            refine Good.ok (hf1.trans ⟨?_, ?_, ?_⟩)
            · show s2.loops.drop (s2.loops.length - s1.loops.length) = s1.loops
              rw [he1]; exact drop_ext e1 s1.loops
            · show s2.flags.drop (s2.flags.length - s1.flags.length) = s1.flags
              rw [he2]; exact drop_ext e2 s1.flags
            · show (s2.scopes.drop (s2.scopes.length - s1.scopes.length)).length = s1.scopes.length
              simp at hd; simp; omega
          | err e => exact Good.err e
          | panic p => rw [hcl] at hgood; exact hgood.elim
          | fuel => exact Good.fuel
        · exact Good.tagOut (good_unexpected _ _)
      · exact Good.tagOut (good_metaErr _ _ _ _)
  · exact Good.tagOut (good_stmtErr _ _ _ _)

theorem frameInv_succ (f : Nat) (ih : FrameInv prog f) (hcb : CallBal prog f) : FrameInv prog (f+1) :=
  { eval := fr_eval hinv f ih
    evalBin := fr_evalBin hinv f ih
    evalList := fr_evalList hinv f ih
    evalRecord := fr_evalRecord hinv f ih
    evalCall := fr_evalCall hinv f ih hcb
    bindParams := fr_bindParams hinv f ih
    execAssign := fr_execAssign hinv f ih
    evalIndexes := fr_evalIndexes hinv f ih }

/-- a call of a good body is balanced, from the refinement at that fuel -/
theorem callBal_of_ef (hp : progWF prog = true) (F : Nat) (hef : ∀ f, f < F → EFat prog f) : CallBal prog F := by
  intro body s v s2 hgb hsuf hs hcl
  obtain ⟨b, re, rm, k, rfl, hw, hc⟩ := hgb
  have hr : (Res.ok (v, s2) : Res (Val × St)) ≠ .fuel := by simp
  have hpost := dBlock (callDriver prog) F hp hinv b F (.ret re rm :: k) s none false (.ok (v, s2)) hw hc rfl hsuf hs (Nat.le_refl _) hef hcl hr
  have finish : ∀ (s' : St) (cur : List Stmt) (e : Expr) (m : Meta) (k' : List Stmt) (F' : Nat), cur = Stmt.ret e m :: k' → F' ≤ F →
      StOK (GoodFn prog) prog s' → IsSuffixOf cur prog → callLoop prog F' cur s' = .ok (v, s2) → Frame s' s2 := by
    intro s' cur e m k' F' hcur hF' hs' hsf hrun
    subst hcur
    cases F' with
    | zero => simp [callLoop] at hrun
    | succ F'' =>
      simp only [callLoop] at hrun
      have hw : e.wf = true := by
        have : (Stmt.ret e m).wf = true := by
          simp only [progWF, List.all_eq_true] at hp; exact hp _ (mem_of_suffix hsf (by simp))
        simpa [Stmt.wf] using this
      exact (hef F'' (by omega)).1 _ _ _ _ _ hsf hw hs' hrun
  cases hres : sBlock prog F b (.ret re rm :: k) s with
  | ok y =>
    obtain ⟨sig, s'⟩ := y
    rw [hres] at hpost
    cases sig with
    | normal =>
      obtain ⟨⟨F', hF', hrun⟩, hfn, hs'⟩ := hpost
      have := finish s' _ re rm k F' rfl hF' hs' hsuf.of_append hrun
      exact hfn.toRet.trans (this.toN.toRet)
    | brk => obtain ⟨lc, h0, _⟩ := hpost; cases h0
    | cont => obtain ⟨lc, h0, _⟩ := hpost; cases h0
    | ret cur =>
      obtain ⟨⟨F', hF', hrun⟩, ⟨e, m, k', hcur, hsf⟩, hfn, hs'⟩ := hpost
      have := finish s' cur e m k' F' hcur hF' hs' hsf hrun
      exact hfn.trans (this.toN.toRet)
  | err e => rw [hres] at hpost; cases hpost
  | panic p => rw [hres] at hpost; cases hpost
  | fuel => rw [hres] at hpost; exact hpost.elim
end

/-! ### every `ফাং` of a flattened tree has a good body -/

theorem goodDefs_cons {st : Stmt} {l : List Stmt} (hst : ∀ fm, st ≠ .funcDef fm) (h : GoodDefs l) : GoodDefs (st :: l) := by
  intro pre fm e m body hp
  cases pre with
  | nil => simp at hp; exact (hst fm hp.1).elim
  | cons a pre' => simp at hp; exact h pre' fm e m body hp.2

theorem goodDefs_funcDef {fm : Meta} {x : Stmt} {rest : List Stmt} (hx : ∀ e m, x = .expr e m → GoodBody rest)
    (h : GoodDefs (x :: rest)) : GoodDefs (.funcDef fm :: x :: rest) := by
  intro pre fm' e m body hp
  cases pre with
  | nil => simp at hp; obtain ⟨_, h1, h2⟩ := hp; subst h2; exact hx e m h1
  | cons a pre' => simp at hp; exact h pre' fm' e m body hp.2

mutual
theorem goodDefs_stmt : ∀ (t : SStmt) (il : Bool) (k : List Stmt), t.WF → t.Closed il → GoodDefs k → GoodDefs (t.flatten ++ k)
  | .simple st, il, k, hw, _, hk => by
      simp only [SStmt.flatten, List.cons_append, List.nil_append]
      exact goodDefs_cons (by intro fm h; subst h; simp [SStmt.WF, Stmt.isSimple] at hw) hk
  | .block b, il, k, hw, hc, hk => by simpa [SStmt.flatten] using goodDefs_block b il k hw hc hk
  | .ifChain c m body tail, il, k, hw, hc, hk => by
      simp only [SStmt.flatten, List.cons_append, List.append_assoc]
      exact goodDefs_cons (by intro fm h; cases h) (goodDefs_block body il _ hw.1 hc.1 (goodDefs_tail tail il k hw.2 hc.2 hk))
  | .loop lm body cm, il, k, hw, hc, hk => by
      simp only [SStmt.flatten, List.cons_append, List.append_assoc, List.nil_append]
      exact goodDefs_cons (by intro fm h; cases h) (goodDefs_block body true _ hw hc (goodDefs_cons (by intro fm h; cases h) hk))
  | .brk m, il, k, _, _, hk => by
      simp only [SStmt.flatten, List.cons_append, List.nil_append]; exact goodDefs_cons (by intro fm h; cases h) hk
  | .cont m, il, k, _, _, hk => by
      simp only [SStmt.flatten, List.cons_append, List.nil_append]; exact goodDefs_cons (by intro fm h; cases h) hk
  | .funcDef fm hdr hm body re rm, il, k, hw, hc, hk => by
      simp only [SStmt.flatten, List.cons_append, List.append_assoc, List.nil_append]
      have hinner : GoodDefs (body.flatten ++ (.ret re rm :: k)) :=
        goodDefs_block body false _ hw hc (goodDefs_cons (by intro fm h; cases h) hk)
      exact goodDefs_funcDef (fun _ _ _ => ⟨body, re, rm, k, rfl, hw, hc⟩) (goodDefs_cons (by intro fm h; cases h) hinner)
theorem goodDefs_block : ∀ (b : SBlock) (il : Bool) (k : List Stmt), b.WF → b.Closed il → GoodDefs k → GoodDefs (b.flatten ++ k)
  | .mk bs ss be, il, k, hw, hc, hk => by
      simp only [SBlock.flatten, List.cons_append, List.append_assoc, List.nil_append]
      exact goodDefs_cons (by intro fm h; cases h) (goodDefs_list ss il _ hw hc (goodDefs_cons (by intro fm h; cases h) hk))
theorem goodDefs_list : ∀ (l : SList) (il : Bool) (k : List Stmt), l.WF → l.Closed il → GoodDefs k → GoodDefs (l.flatten ++ k)
  | .nil, _, k, _, _, hk => by simpa [SList.flatten] using hk
  | .cons t ts, il, k, hw, hc, hk => by
      simp only [SList.flatten, List.append_assoc]
      exact goodDefs_stmt t il _ hw.1 hc.1 (goodDefs_list ts il k hw.2 hc.2 hk)
theorem goodDefs_tail : ∀ (t : STail) (il : Bool) (k : List Stmt), t.WF → t.Closed il → GoodDefs k → GoodDefs (t.flatten ++ k)
  | .none, _, k, _, _, hk => by simpa [STail.flatten] using hk
  | .else em b, il, k, hw, hc, hk => by
      simp only [STail.flatten, List.cons_append]
      exact goodDefs_cons (by intro fm h; cases h) (goodDefs_block b il k hw hc hk)
  | .elseIf em c m b t, il, k, hw, hc, hk => by
      simp only [STail.flatten, List.cons_append, List.append_assoc]
      exact goodDefs_cons (by intro fm h; cases h) (goodDefs_cons (by intro fm h; cases h)
        (goodDefs_block b il _ hw.1 hc.1 (goodDefs_tail t il k hw.2 hc.2 hk)))
end

theorem goodDefs_program (tree : SList) (em : Meta) (hw : tree.WF) (hc : tree.Closed false) : GoodDefs (tree.flatten ++ [.eos em]) :=
  goodDefs_list tree false _ hw hc (goodDefs_cons (by intro fm h; cases h) (by
    intro pre fm e m body hp; simp at hp))

/-! ### closing the induction -/

section
variable {prog : List Stmt}

theorem frameInv_all (hp : progWF prog = true) (hinv : ∀ f, EvalInv (GoodFn prog) prog f) : ∀ f, FrameInv prog f := by
  intro f
  induction f using Nat.strongRecOn with
  | _ f ih =>
    cases f with
    | zero => exact frameInv_zero
    | succ f0 =>
      exact frameInv_succ hinv f0 (ih f0 (by omega)) (callBal_of_ef hinv hp f0 (fun f' hf' => (ih f' (by omega)).toEF))

/-- a program made of structured code: the hypotheses of all the refinement theorems -/
structure Structured (prog : List Stmt) : Prop where
  wf : progWF prog = true
  defs : GoodDefs prog

theorem Structured.inv (h : Structured prog) : ∀ f, EvalInv (GoodFn prog) prog f :=
  evalInv (GoodFn prog) prog h.wf (funcIntro_of_goodDefs h.defs)

theorem Structured.ef (h : Structured prog) (f : Nat) : EFat prog f := (frameInv_all h.wf h.inv f).toEF
end
section
variable {prog : List Stmt}

/-- **calls**: running a function body `{ b } ফেরত re;` with the flat interpreter is its structured meaning -/
theorem call_refines (h : Structured prog) (b : SBlock) (re : Expr) (rm : Meta) (k : List Stmt) (hw : b.WF) (hc : b.Closed false)
    (hsuf : IsSuffixOf (b.flatten ++ (.ret re rm :: k)) prog) (s : St) (hs : StOK (GoodFn prog) prog s) (F : Nat) (r : Res (Val × St))
    (hrun : callLoop prog F (b.flatten ++ (.ret re rm :: k)) s = r) (hr : r ≠ .fuel) :
    sBody prog F b re rm k s = r := by
  have hpost := dBlock (callDriver prog) F h.wf h.inv b F (.ret re rm :: k) s none false r hw hc rfl hsuf hs (Nat.le_refl _)
    (fun f _ => h.ef f) hrun hr
  have finish : ∀ (s' : St) (e : Expr) (m : Meta) (k' : List Stmt) (F' : Nat), F' ≤ F →
      callLoop prog F' (.ret e m :: k') s' = r → eval prog F (.ret e m :: k') e s' = r := by
    intro s' e m k' F' hF' hrun'
    cases F' with
    | zero => simp [callLoop] at hrun'; exact (hr hrun'.symm).elim
    | succ F'' =>
      simp only [callLoop] at hrun'
      rw [← hrun']
      exact eval_fuel_irrel (by rw [hrun']; exact hr) (by omega)
  simp only [sBody]
  cases hres : sBlock prog F b (.ret re rm :: k) s with
  | ok y =>
    obtain ⟨sig, s'⟩ := y
    rw [hres] at hpost
    simp only [Res.bind]
    cases sig with
    | normal =>
      obtain ⟨⟨F', hF', hrun'⟩, _, _⟩ := hpost
      exact finish s' re rm k F' hF' hrun'
    | brk => obtain ⟨lc, h0, _⟩ := hpost; cases h0
    | cont => obtain ⟨lc, h0, _⟩ := hpost; cases h0
    | ret cur =>
      obtain ⟨⟨F', hF', hrun'⟩, ⟨e, m, k', hcur, _⟩, _, _⟩ := hpost
      subst hcur
      exact finish s' e m k' F' hF' hrun'
  | err e => rw [hres] at hpost; simpa [Res.bind] using hpost.symm
  | panic p => rw [hres] at hpost; simpa [Res.bind] using hpost.symm
  | fuel => rw [hres] at hpost; exact hpost.elim

/-- **whole programs**: a collection-free run of `tree; <end>` is the structured meaning of `tree` -/
theorem run_refines (tree : SList) (em : Meta) (hw : tree.WF) (hc : tree.Closed false)
    (hp : progWF (tree.flatten ++ [Stmt.eos em]) = true) (s : St)
    (hs : StOK (GoodFn (tree.flatten ++ [Stmt.eos em])) (tree.flatten ++ [Stmt.eos em]) s) (F : Nat) (r : Res St)
    (hrun : runLoop (tree.flatten ++ [Stmt.eos em]) .never F 0 (tree.flatten ++ [Stmt.eos em]) s = r) (hr : r ≠ .fuel) :
    sTop (tree.flatten ++ [Stmt.eos em]) F tree em s = r := by
  have h : Structured (tree.flatten ++ [Stmt.eos em]) := ⟨hp, goodDefs_program tree em hw hc⟩
  have hpost := dList (runDriver (tree.flatten ++ [Stmt.eos em])) F h.wf h.inv tree F [Stmt.eos em] s none false r hw hc (by simp [notElse]) rfl
    (IsSuffixOf.refl _) hs (Nat.le_refl _) (fun f _ => h.ef f) hrun hr
  simp only [sTop]
  cases hres : sList (tree.flatten ++ [Stmt.eos em]) F tree [Stmt.eos em] s with
  | ok y =>
    obtain ⟨sig, s'⟩ := y
    rw [hres] at hpost
    simp only [Res.bind]
    cases sig with
    | normal =>
      obtain ⟨⟨F', hF', hrun'⟩, _, _⟩ := hpost
      cases F' with
      | zero => simp [runDriver, runLoop] at hrun'; exact (hr hrun'.symm).elim
      | succ F'' => simpa [runDriver, runLoop] using hrun'
    | brk => obtain ⟨lc, h0, _⟩ := hpost; cases h0
    | cont => obtain ⟨lc, h0, _⟩ := hpost; cases h0
    | ret cur =>
      obtain ⟨⟨F', hF', hrun'⟩, ⟨e, m, k', hcur, _⟩, _, _⟩ := hpost
      subst hcur
      cases F' with
      | zero => simp [runDriver, runLoop] at hrun'; exact (hr hrun'.symm).elim
      | succ F'' =>
        cases F'' with
        | zero => simp [runDriver, runLoop] at hrun'; exact (hr hrun'.symm).elim
        | succ F3 =>
          simp only [runDriver, runLoop, exec] at hrun'
          rw [← hrun']
          cases ht : (stmtErr (Stmt.ret e m :: k') ErrClass.runtime "debug-statement" : Res (List Stmt × St)).tagOut s'.out <;>
            simp_all [stmtErr, mkErr, Res.tagOut]
  | err e => rw [hres] at hpost; simpa [Res.bind] using hpost.symm
  | panic p => rw [hres] at hpost; simpa [Res.bind] using hpost.symm
  | fuel => rw [hres] at hpost; exact hpost.elim
end
section
variable {prog : List Stmt} {α : Type}

/-- **a statement anywhere**: for a structured program, any driver (top level or a call), any continuation `k`, any
    enclosing loop context and any flags left by earlier conditionals, the flat run started in front of the statement
    decomposes exactly along the statement's structured outcome (`Post`) -/
theorem stmt_refines (h : Structured prog) (D : Driver prog α) (t : SStmt) (F : Nat) (k : List Stmt) (s : St) (ctx : Option LC) (il : Bool)
    (r : Res α) (hw : t.WF) (hc : t.Closed il) (hk : notElse k) (hctx : CtxOK ctx il true k s) (hsuf : IsSuffixOf (t.flatten ++ k) prog)
    (hs : StOK (GoodFn prog) prog s) (hrun : D.run F (t.flatten ++ k) s = r) (hr : r ≠ .fuel) :
    Post D ctx k s F r (sStmt prog F t k s) :=
  dStmt D F h.wf h.inv t F k s ctx il r hw hc hk hctx hsuf hs (Nat.le_refl _) (fun f _ => h.ef f) hrun hr

theorem block_refines (h : Structured prog) (D : Driver prog α) (b : SBlock) (F : Nat) (k : List Stmt) (s : St) (ctx : Option LC) (il : Bool)
    (r : Res α) (hw : b.WF) (hc : b.Closed il) (hctx : CtxOK ctx il false k s) (hsuf : IsSuffixOf (b.flatten ++ k) prog)
    (hs : StOK (GoodFn prog) prog s) (hrun : D.run F (b.flatten ++ k) s = r) (hr : r ≠ .fuel) :
    Post D ctx k s F r (sBlock prog F b k s) :=
  dBlock D F h.wf h.inv b F k s ctx il r hw hc hctx hsuf hs (Nat.le_refl _) (fun f _ => h.ef f) hrun hr

/-- expression evaluation in a structured program — whatever user functions it calls, to any recursion depth — returns
    with the loop stack, the pending-conditional flags and the scope depth of its caller unchanged -/
theorem eval_frame (h : Structured prog) (f : Nat) (cur : List Stmt) (e : Expr) (s : St) (v : Val) (s' : St)
    (hsuf : IsSuffixOf cur prog) (hw : e.wf = true) (hs : StOK (GoodFn prog) prog s) (he : eval prog f cur e s = .ok (v, s')) :
    s'.loops = s.loops ∧ s'.flags = s.flags ∧ s'.scopes.length = s.scopes.length := by
  have := (h.ef f).1 cur e s v s' hsuf hw hs he
  exact ⟨this.loops, this.flags, this.depth⟩

/-! ### sequential composition -/

def SList.append : SList → SList → SList
  | .nil, b => b
  | .cons t ts, b => .cons t (ts.append b)

theorem SList.flatten_append : ∀ (a b : SList), (a.append b).flatten = a.flatten ++ b.flatten
  | .nil, b => by simp [SList.append, SList.flatten]
  | .cons t ts, b => by simp [SList.append, SList.flatten, SList.flatten_append ts b]

/-- `P1; P2` means: `P1`, and if it ends normally, `P2` from the state `P1` left -/
theorem sList_append (G : Nat) : ∀ (a b : SList) (k : List Stmt) (s : St),
    sList prog G (a.append b) k s =
      (sList prog G a (b.flatten ++ k) s).bind fun x =>
        match x.1 with
        | .normal => sList prog G b k x.2
        | sig => .ok (sig, x.2)
  | .nil, b, k, s => by simp [SList.append, sList, Res.bind]
  | .cons t ts, b, k, s => by
      simp only [SList.append, sList, SList.flatten_append, List.append_assoc]
      cases hres : sStmt prog G t (ts.flatten ++ (b.flatten ++ k)) s with
      | ok y =>
        obtain ⟨sig, s1⟩ := y
        cases sig <;> simp [Res.bind, sList_append G ts b k s1]
      | err e => simp [Res.bind]
      | panic p => simp [Res.bind]
      | fuel => simp [Res.bind]

/-- a loop statement never passes a `থামাও` / `আবার` on to an enclosing loop -/
theorem sIter_signal (body : St → Res (Sig × St)) : ∀ (n : Nat) (s : St) (sig : Sig) (s' : St),
    sIter body n s = .ok (sig, s') → sig = .normal ∨ ∃ c, sig = .ret c
  | 0, s, sig, s', h => by simp [sIter] at h
  | n+1, s, sig, s', h => by
      simp only [sIter] at h
      obtain ⟨⟨sg, s1⟩, h1, h2⟩ := Res.bind_eq_ok h
      cases sg with
      | normal => exact sIter_signal body n s1 sig s' h2
      | cont => exact sIter_signal body n s1 sig s' h2
      | brk => simp at h2; exact Or.inl h2.1.symm
      | ret c => simp at h2; exact Or.inr ⟨c, h2.1.symm⟩
end
end Pakhi
