import Pakhi.Model.Interp
import Pakhi.Lemmas.Inv
/-! Extra bindings at the bottom of the scope stack: definitions and the scope lemmas -/
namespace Pakhi
section
variable (X : Scope)

/-- put the bindings `X` in front of the outermost (last) scope -/
def addBottom : List Scope → List Scope
  | [] => []
  | [sc] => [X ++ sc]
  | sc :: r => sc :: addBottom r

def keysOf (X : Scope) : List Str := X.map (·.1)

@[simp] theorem addBottom_length : ∀ (scs : List Scope), (addBottom X scs).length = scs.length
  | [] => rfl
  | [_] => rfl
  | _ :: b :: r => by simp only [addBottom, List.length_cons, addBottom_length (b :: r)]

theorem addBottom_ne_nil {scs : List Scope} (h : scs ≠ []) : addBottom X scs ≠ [] := by
  intro e; have := congrArg List.length e; simp at this; exact h this

theorem addBottom_cons (e : Scope) {scs : List Scope} (h : scs ≠ []) : addBottom X (e :: scs) = e :: addBottom X scs := by
  cases scs with
  | nil => exact absurd rfl h
  | cons a r => rfl

theorem addBottom_drop : ∀ (scs : List Scope) (k : Nat), addBottom X (scs.drop k) = (addBottom X scs).drop k
  | [], k => by simp [addBottom]
  | scs, 0 => rfl
  | [sc], k+1 => by simp [addBottom]
  | a :: b :: r, k+1 => by
      simp only [List.drop_succ_cons]
      rw [addBottom_cons X a (by simp), List.drop_succ_cons]
      exact addBottom_drop (b :: r) k

theorem assocGet_append_notin {β : Type} : ∀ (X : List (Str × β)) (sc : List (Str × β)) (n : Str), n ∉ X.map (·.1) → assocGet (X ++ sc) n = assocGet sc n
  | [], _, _, _ => rfl
  | (k, v) :: r, sc, n, h => by
      simp only [List.map_cons, List.mem_cons, not_or] at h
      have hk : (k == n) = false := by simp [Ne.symm h.1]
      simp only [List.cons_append, assocGet, hk]
      exact assocGet_append_notin r sc n h.2

theorem assocSet_append_notin {β : Type} : ∀ (X : List (Str × β)) (sc : List (Str × β)) (n : Str) (v : β), n ∉ X.map (·.1) → assocSet (X ++ sc) n v = X ++ assocSet sc n v
  | [], _, _, _, _ => rfl
  | (k, w) :: r, sc, n, v, h => by
      simp only [List.map_cons, List.mem_cons, not_or] at h
      have hk : (k == n) = false := by simp [Ne.symm h.1]
      simp only [List.cons_append, assocSet, hk]
      rw [assocSet_append_notin r sc n v h.2]; rfl

theorem lookupVar_addBottom : ∀ (scs : List Scope) (n : Str), n ∉ keysOf X → lookupVar (addBottom X scs) n = lookupVar scs n
  | [], _, _ => rfl
  | [sc], n, h => by simp only [addBottom, lookupVar, assocGet_append_notin X sc n h]
  | a :: b :: r, n, h => by
      simp only [addBottom, lookupVar]
      cases assocGet a n with
      | some v => rfl
      | none => exact lookupVar_addBottom (b :: r) n h

theorem assignVar_cons (a : Scope) (rest : List Scope) (n : Str) (v : Val) :
    assignVar (a :: rest) n v = if (assocGet a n).isSome then some (assocSet a n v :: rest) else (assignVar rest n v).map (a :: ·) := rfl

theorem assignVar_len {v : Val} : ∀ {scs scs' : List Scope} {n : Str}, assignVar scs n v = some scs' → scs'.length = scs.length
  | [], _, _, h => by simp [assignVar] at h
  | a :: r, scs', n, h => by
      rw [assignVar_cons] at h
      split at h
      · cases h; rfl
      · cases h2 : assignVar r n v with
        | none => simp [h2] at h
        | some x => simp [h2] at h; subst h; simp [assignVar_len h2]

theorem assignVar_addBottom (v : Val) : ∀ (scs : List Scope) (n : Str), n ∉ keysOf X →
    assignVar (addBottom X scs) n v = (assignVar scs n v).map (addBottom X)
  | [], _, _ => rfl
  | [sc], n, h => by
      simp only [addBottom, assignVar, assocGet_append_notin X sc n h, assocSet_append_notin X sc n v h]
      split <;> rfl
  | a :: b :: r, n, h => by
      have ih := assignVar_addBottom v (b :: r) n h
      have e1 : addBottom X (a :: b :: r) = a :: addBottom X (b :: r) := rfl
      rw [e1, assignVar_cons, assignVar_cons a (b :: r), ih]
      split
      · rfl
      · cases hh : assignVar (b :: r) n v with
        | none => rfl
        | some scs' =>
          have hne : scs' ≠ [] := by
            intro e; subst e; have := assignVar_len hh; simp at this
          simp only [Option.map, addBottom_cons X a hne]

theorem declareVar_addBottom (v : Val) (scs : List Scope) (n : Str) (h : n ∉ keysOf X) :
    declareVar (addBottom X scs) n v = (match declareVar scs n v with | .ok r => .ok (addBottom X r) | x => x) := by
  cases scs with
  | nil => rfl
  | cons a r =>
    cases r with
    | nil => simp only [addBottom, declareVar, assocSet_append_notin X a n v h]
    | cons b r => rfl
end
end Pakhi
