import Pakhi.Lemmas.FrameX1
import Pakhi.Lemmas.RefineDefs
namespace Pakhi
section
variable (K : List Str)

mutual
/-- no identifier of the expression is in `K` -/
def avE : Expr → Prop
  | .indexing e i _ => avE e ∧ avE i
  | .or l r _ | .and l r _ | .equality _ l r _ | .comparison _ l r _ | .addsub _ l r _ | .muldiv _ l r _ => avE l ∧ avE r
  | .unary _ r _ => avE r
  | .call f args _ => avE f ∧ avEs args
  | .nil _ | .bool _ _ | .num _ _ | .str _ _ => True
  | .list es _ => avEs es
  | .record ks vs _ => avEs ks ∧ avEs vs
  | .var tok _ => tok.lexeme ∉ K
  | .group e _ => avE e
def avEs : Exprs → Prop
  | .nil => True
  | .cons e es => avE e ∧ avEs es
end

def avA (a : Assignment) : Prop := a.var.lexeme ∉ K ∧ (∀ e ∈ a.indexes, avE K e) ∧ (∀ e, a.init = some e → avE K e)

def avS : Stmt → Prop
  | .print e _ | .printNoEOL e _ | .expr e _ | .ret e _ | .if e _ => avE K e
  | .assign a _ => avA K a
  | _ => True

def avL (l : List Stmt) : Prop := ∀ st ∈ l, avS K st

theorem avL_suffix {c cur : List Stmt} (h : IsSuffixOf c cur) (ha : avL K cur) : avL K c := by
  obtain ⟨pre, rfl⟩ := h
  intro st hst; exact ha st (by simp [hst])
theorem avL_tail {st : Stmt} {rest : List Stmt} (h : avL K (st :: rest)) : avL K rest := fun x hx => h x (by simp [hx])
theorem avL_head {st : Stmt} {rest : List Stmt} (h : avL K (st :: rest)) : avS K st := h st (by simp)
theorem avL_bodyOf {prog : List Stmt} (h : avL K prog) (rem : Nat) : avL K (bodyOf prog rem) := by
  intro st hst; exact h st (List.mem_of_mem_drop hst)

/-- the states the frame theorem speaks about: a non-empty scope stack, loop records that point at least one scope deep and
    into code that avoids `K` -/
def Dom (s : St) : Prop := s.scopes ≠ [] ∧ ∀ l ∈ s.loops, 1 ≤ l.envs ∧ avL K l.start

theorem Dom.frame {s s' : St} (hd : Dom K s) (h : Frame s s') : Dom K s' := by
  refine ⟨?_, by rw [h.loops]; exact hd.2⟩
  intro e
  have := h.depth; rw [e] at this
  exact hd.1 (List.length_eq_zero_iff.mp this.symm)

theorem Dom.same {s s' : St} (hd : Dom K s) (h1 : s'.scopes = s.scopes) (h2 : s'.loops = s.loops) : Dom K s' := by
  unfold Dom; rw [h1, h2]; exact hd

theorem callB_frame (k : Builtin) (args : List Val) (s : St) (v : Val) (s' : St) (h : callB k args s = .inl (v, s')) :
    s'.scopes = s.scopes ∧ s'.loops = s.loops := by
  cases k <;> simp only [callB] at h <;> (repeat' split at h) <;> (try (simp at h; done))
  all_goals (simp at h; obtain ⟨rfl, rfl⟩ := h; exact ⟨rfl, rfl⟩)

theorem callBuiltin_frame (n : Str) (args : List Val) (s : St) (v : Val) (s' : St) (h : callBuiltin n args s = .inl (v, s')) :
    s'.scopes = s.scopes ∧ s'.loops = s.loops := by
  simp only [callBuiltin] at h
  split at h
  · exact callB_frame _ _ _ _ _ h
  · simp at h

/-- the outcome, when it is a value, satisfies `Q` (errors, panics and out-of-fuel are not constrained) -/
def WG {α : Type} (Q : α → Prop) : Res α → Prop
  | .ok a => Q a
  | _ => True

theorem WG.bind {α β} {Q : α → Prop} {Q' : β → Prop} {r : Res α} {f : α → Res β}
    (h : WG Q r) (hf : ∀ a, Q a → WG Q' (f a)) : WG Q' (r.bind f) := by
  cases r <;> simp_all [WG, Res.bind]
theorem WG.ok {α} {Q : α → Prop} {a : α} (h : Q a) : WG Q (.ok a) := h
theorem WG.tagOut {α} {Q : α → Prop} {r : Res α} {o : List Out} (h : WG Q r) : WG Q (r.tagOut o) := by
  cases r <;> simp_all [WG, Res.tagOut]
theorem WG.any {α} (r : Res α) : WG (fun _ => True) r := by cases r <;> simp [WG]
theorem WG.mono {α} {Q Q' : α → Prop} {r : Res α} (h : WG Q r) (hq : ∀ a, Q a → Q' a) : WG Q' r := by
  cases r <;> simp_all [WG]
theorem WG.of_eq {α} {Q : α → Prop} {r : Res α} (h : ∀ a, r = .ok a → Q a) : WG Q r := by
  cases r <;> simp_all [WG]
theorem wg_stmtErr {α} (Q : α → Prop) (cur : List Stmt) (c : ErrClass) (t : String) : WG Q (stmtErr cur c t : Res α) := by
  cases cur <;> simp [stmtErr, mkErr, unexpected, WG]
theorem wg_metaErr {α} (Q : α → Prop) (m : Meta) (c : ErrClass) (t : String) : WG Q (metaErr m c t : Res α) := by
  simp [metaErr, mkErr, WG]
theorem wg_curErr {α} (Q : α → Prop) (cur : List Stmt) (s : St) (msg : Str) : WG Q (curErr cur s msg : Res α) := by
  cases cur <;> simp [curErr, unexpected, Res.tagOut, WG]
theorem wg_unexpected {α} (Q : α → Prop) (t : String) : WG Q (unexpected t : Res α) := by simp [unexpected, WG]
end
end Pakhi
