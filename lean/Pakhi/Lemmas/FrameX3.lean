import Pakhi.Lemmas.FrameX2
namespace Pakhi
section
variable (K : List Str) (prog : List Stmt)

abbrev DomV {α : Type} : α × St → Prop := fun x => Dom K x.2
abbrev DomC : List Stmt × St → Prop := fun x => Dom K x.2 ∧ avL K x.1

/-- the domain of the frame theorem is closed under evaluation -/
structure DomInv (f : Nat) : Prop where
  eval : ∀ cur e s, Dom K s → WG (DomV K) (eval prog f cur e s)
  evalBin : ∀ cur lf op l r s, Dom K s → WG (DomV K) (evalBin prog f cur lf op l r s)
  evalList : ∀ cur es s, Dom K s → WG (DomV K) (evalList prog f cur es s)
  evalRecord : ∀ cur ks vs acc s, Dom K s → WG (DomV K) (evalRecord prog f cur ks vs acc s)
  evalCall : ∀ cur callee args s, Dom K s → WG (DomV K) (evalCall prog f cur callee args s)
  bindParams : ∀ cur params args env s, Dom K s → WG (DomV K) (bindParams prog f cur params args env s)
  callLoop : ∀ cur s, Dom K s → avL K cur → WG (DomV K) (callLoop prog f cur s)
  exec : ∀ cur s, Dom K s → avL K cur → WG (DomC K) (exec prog f cur s)
  execAssign : ∀ cur a s, Dom K s → WG (Dom K) (execAssign prog f cur a s)
  evalIndexes : ∀ cur ixs s, Dom K s → WG (DomV K) (evalIndexes prog f cur ixs s)

theorem domInv_zero : DomInv K prog 0 := by
  constructor <;> intros <;> simp only [eval, evalBin, evalList, evalRecord, evalCall, bindParams, callLoop, exec, execAssign, evalIndexes] <;> trivial

set_option hygiene false in
macro "dmm" : tactic => `(tactic| repeat' (first
  | exact WG.ok (Q := DomV K) hd
  | exact WG.ok (Q := Dom K) hd
  | exact ih.eval _ _ _ hd
  | exact ih.evalBin _ _ _ _ _ _ hd
  | exact ih.evalList _ _ _ hd
  | exact ih.evalRecord _ _ _ _ _ hd
  | exact ih.evalCall _ _ _ _ hd
  | exact ih.bindParams _ _ _ _ _ hd
  | exact ih.execAssign _ _ _ hd
  | exact ih.evalIndexes _ _ _ hd
  | exact WG.tagOut (wg_stmtErr _ _ _ _)
  | exact WG.tagOut (wg_metaErr _ _ _ _)
  | exact WG.tagOut (wg_unexpected _ _)
  | exact wg_curErr _ _ _ _
  | trivial
  | (refine WG.bind (ih.eval _ _ _ hd) ?_; rintro ⟨_, _⟩ hd; try dsimp only at hd ⊢)
  | (refine WG.bind (ih.evalList _ _ _ hd) ?_; rintro ⟨_, _⟩ hd; try dsimp only at hd ⊢)
  | (refine WG.bind (ih.evalRecord _ _ _ _ _ hd) ?_; rintro ⟨_, _⟩ hd; try dsimp only at hd ⊢)
  | (refine WG.bind (ih.bindParams _ _ _ _ _ hd) ?_; rintro ⟨_, _⟩ hd; try dsimp only at hd ⊢)
  | (refine WG.bind (ih.evalIndexes _ _ _ hd) ?_; rintro ⟨_, _⟩ hd; try dsimp only at hd ⊢)
  | (refine WG.bind (ih.execAssign _ _ _ hd) ?_; intro _ hd; try dsimp only at hd ⊢)
  | (refine WG.bind (WG.any _) ?_; intro _ _; try dsimp only)
  | split))

theorem WG.of_good {α} {Q : α → Prop} {r : Res α} (h : Good Q r) : WG Q r := by
  cases r <;> simp_all [Good, WG]

omit prog in
theorem drop_dom {s : St} (hd : Dom K s) (e : Nat) (he : 1 ≤ e) : s.scopes.drop (s.scopes.length - e) ≠ [] := by
  intro h
  have hl := congrArg List.length h
  simp only [List.length_drop, List.length_nil] at hl
  have h1 : s.scopes.length ≠ 0 := fun h0 => hd.1 (List.length_eq_zero_iff.mp h0)
  omega

theorem execFuncDef_dom (rest : List Stmt) (s : St) (hd : Dom K s) (hav : avL K rest) :
    WG (DomC K) (execFuncDef prog rest s) := by
  unfold execFuncDef
  split
  · rename_i callee args cm m body
    split
    · split
      · exact wg_metaErr _ _ _ _
      · rename_i params _
        cases hs : s.scopes with
        | nil => exact absurd hs hd.1
        | cons sc r =>
          simp only [declareVar]
          have hsk := skipBlock_good body 0
          cases hb : skipBlock body 0 with
          | ok after =>
            rw [hb] at hsk
            simp only
            split
            · exact wg_unexpected _ _
            · rename_i e0 m0 after'
              refine WG.ok (Q := DomC K) ⟨⟨by simp, hd.2⟩, ?_⟩
              have h1 : IsSuffixOf (Stmt.ret e0 m0 :: after') body := hsk
              exact avL_tail K (avL_suffix K h1 (avL_tail K hav))
            · split
              · exact wg_metaErr _ _ _ _
              · exact wg_unexpected _ _
          | err e => trivial
          | panic p => trivial
          | fuel => trivial
    · exact wg_metaErr _ _ _ _
  · exact wg_stmtErr _ _ _ _

variable (hprog : avL K prog)
include hprog

theorem domInv_succ (f : Nat) (ih : DomInv K prog f) : DomInv K prog (f+1) := by
  constructor
  · intro cur e s hd
    cases e <;> simp only [eval] <;> dmm
  · intro cur lf op l r s hd
    simp only [evalBin]; dmm
  · intro cur es s hd
    cases es <;> simp only [evalList] <;> dmm
  · intro cur ks vs acc s hd
    cases ks <;> cases vs <;> simp only [evalRecord] <;> dmm
  · intro cur callee args s hd
    simp only [evalCall]
    split
    · split
      · refine WG.bind (ih.evalList _ _ _ hd) ?_
        rintro ⟨vs, s1⟩ hd1
        dsimp only at hd1 ⊢
        split
        · split
          · exact wg_curErr _ _ _ _
          · exact WG.tagOut (wg_stmtErr _ _ _ _)
        · cases hcb : callBuiltin _ vs s1 with
          | inl r =>
            obtain ⟨v, s'⟩ := r
            have hf := callBuiltin_frame _ _ _ _ _ hcb
            exact WG.ok (Q := DomV K) (Dom.same K hd1 hf.1 hf.2)
          | inr t =>
            simp only
            split
            · trivial
            · exact wg_curErr _ _ _ _
      · split
        · exact WG.tagOut (wg_stmtErr _ _ _ _)
        · rename_i rem params _
          refine WG.bind (ih.bindParams _ _ _ _ _ hd) ?_
          rintro ⟨env, s1⟩ hd1
          dsimp only at hd1 ⊢
          split
          · rename_i bm body hbo
            have hav : avL K (Stmt.blockStart bm :: body) := by rw [← hbo]; exact avL_bodyOf K hprog rem
            have hd2 : Dom K { s1 with scopes := env :: s1.scopes } := ⟨by simp, hd1.2⟩
            refine WG.bind (ih.callLoop _ _ hd2 hav) ?_
            rintro ⟨v, s2⟩ hd3
            dsimp only at hd3 ⊢
            refine WG.ok (Q := DomV K) ⟨?_, ?_⟩
            · dsimp only
              intro e
              have hl := congrArg List.length e
              simp only [List.length_drop, List.length_nil] at hl
              have h1 : s1.scopes.length ≠ 0 := fun h0 => hd1.1 (List.length_eq_zero_iff.mp h0)
              have h2 : s2.scopes.length ≠ 0 := fun h0 => hd3.1 (List.length_eq_zero_iff.mp h0)
              omega
            · dsimp only
              intro l hl
              exact hd3.2 l (List.mem_of_mem_drop hl)
          · exact WG.tagOut (wg_unexpected _ _)
        · exact WG.tagOut (wg_metaErr _ _ _ _)
    · exact WG.tagOut (wg_stmtErr _ _ _ _)
  · intro cur params args env s hd
    cases params <;> cases args <;> simp only [bindParams] <;> dmm
  · intro cur s hd hav
    simp only [callLoop]
    split
    · exact ih.eval _ _ _ hd
    · refine WG.bind (ih.exec _ _ hd hav) ?_
      rintro ⟨c, s1⟩ ⟨hd1, hav1⟩
      exact ih.callLoop _ _ hd1 hav1
  · intro cur s hd hav
    cases cur with
    | nil => simp only [exec]; exact WG.tagOut (wg_unexpected _ _)
    | cons st rest =>
      have havr : avL K rest := avL_tail K hav
      cases st <;> simp only [exec]
      case print e m =>
        refine WG.bind (ih.eval _ _ _ hd) ?_
        rintro ⟨v, s1⟩ hd1
        refine WG.bind (WG.of_eq fun s2 h2 => Dom.frame K hd1 (printTop_frame h2)) ?_
        intro s2 hd2
        exact WG.ok (Q := DomC K) ⟨hd2, havr⟩
      case printNoEOL e m =>
        refine WG.bind (ih.eval _ _ _ hd) ?_
        rintro ⟨v, s1⟩ hd1
        refine WG.bind (WG.of_eq fun s2 h2 => Dom.frame K hd1 (printTop_frame h2)) ?_
        intro s2 hd2
        exact WG.ok (Q := DomC K) ⟨hd2, havr⟩
      case expr e m =>
        refine WG.bind (ih.eval _ _ _ hd) ?_
        rintro ⟨v, s1⟩ hd1
        exact WG.ok (Q := DomC K) ⟨hd1, havr⟩
      case assign a m =>
        refine WG.bind (ih.execAssign _ _ _ hd) ?_
        intro s1 hd1
        exact WG.ok (Q := DomC K) ⟨hd1, havr⟩
      case «if» c m =>
        refine WG.bind (ih.eval _ _ _ hd) ?_
        rintro ⟨v, s1⟩ hd1
        dsimp only at hd1 ⊢
        split
        · exact WG.ok (Q := DomC K) ⟨hd1, havr⟩
        · refine WG.bind (WG.tagOut (WG.of_good (skipBlockInIf_good rest _))) ?_
          rintro ⟨c', fl⟩ hsuf
          exact WG.ok (Q := DomC K) ⟨hd1, avL_suffix K hsuf havr⟩
        · exact WG.tagOut (wg_metaErr _ _ _ _)
      case «else» m =>
        split
        · exact WG.tagOut (wg_stmtErr _ _ _ _)
        · refine WG.bind (WG.tagOut (WG.of_good (skipBlockInIf_good rest _))) ?_
          rintro ⟨c', fl⟩ hsuf
          exact WG.ok (Q := DomC K) ⟨hd, avL_suffix K hsuf havr⟩
        · exact WG.ok (Q := DomC K) ⟨hd, havr⟩
      case funcDef m => exact WG.tagOut (execFuncDef_dom K prog rest s hd havr)
      case loop m =>
        refine WG.ok (Q := DomC K) ⟨⟨hd.1, ?_⟩, havr⟩
        intro l hl
        simp only [List.mem_cons] at hl
        rcases hl with rfl | hl
        · refine ⟨?_, havr⟩
          have h1 : s.scopes.length ≠ 0 := fun h0 => hd.1 (List.length_eq_zero_iff.mp h0)
          dsimp only; omega
        · exact hd.2 l hl
      case cont m =>
        split
        · exact WG.tagOut (wg_stmtErr _ _ _ _)
        · rename_i l ls hl
          have hlm : l ∈ s.loops := by rw [hl]; simp
          exact WG.ok (Q := DomC K) ⟨⟨drop_dom K hd l.envs (hd.2 l hlm).1, hd.2⟩, (hd.2 l hlm).2⟩
      case brk m =>
        split
        · rename_i l ls hl
          have hlm : l ∈ s.loops := by rw [hl]; simp
          refine WG.bind (WG.tagOut (WG.of_good (breakScan_good m rest _))) ?_
          intro c' hsuf
          refine WG.ok (Q := DomC K) ⟨⟨drop_dom K hd l.envs (hd.2 l hlm).1, ?_⟩, avL_suffix K hsuf havr⟩
          intro l' hl'; exact hd.2 l' (by rw [hl]; simp [hl'])
        · refine WG.bind (WG.tagOut (WG.of_good (breakScan_good m rest _))) ?_
          intro c' hsuf
          exact WG.ok (Q := DomC K) ⟨hd, avL_suffix K hsuf havr⟩
      case blockStart m => exact WG.ok (Q := DomC K) ⟨⟨by simp, hd.2⟩, havr⟩
      case blockEnd m =>
        split
        · exact WG.tagOut (wg_stmtErr _ _ _ _)
        · rename_i hlen
          refine WG.ok (Q := DomC K) ⟨⟨?_, hd.2⟩, havr⟩
          dsimp only
          intro e
          have := congrArg List.length e
          simp at this; omega
      case ret e m => exact WG.tagOut (wg_stmtErr _ _ _ _)
      case eos m => exact WG.tagOut (wg_stmtErr _ _ _ _)
  · intro cur a s hd
    have hdecl : ∀ (s1 : St) (v : Val), Dom K s1 → WG (Dom K) ((declareVar s1.scopes a.var.lexeme v).bind fun sc => .ok { s1 with scopes := sc }) := by
      intro s1 v h1
      cases hs : s1.scopes with
      | nil => exact absurd hs h1.1
      | cons sc r => exact WG.ok (Q := Dom K) ⟨by simp, h1.2⟩
    simp only [execAssign]
    split
    · split
      · refine WG.bind (ih.eval _ _ _ hd) ?_
        rintro ⟨v, s1⟩ hd1
        exact hdecl s1 v hd1
      · exact hdecl s .nil hd
    · split
      · trivial
      · refine WG.bind (ih.eval _ _ _ hd) ?_
        rintro ⟨v, s1⟩ hd1
        dsimp only at hd1 ⊢
        split
        · exact WG.tagOut (wg_stmtErr _ _ _ _)
        · split
          · split
            · rename_i sc hsc
              refine WG.ok (Q := Dom K) ⟨?_, hd1.2⟩
              dsimp only
              intro e; subst e
              have := assignVar_len hsc
              simp at this
              exact hd1.1 (List.length_eq_zero_iff.mp this.symm)
            · trivial
          · refine WG.bind (ih.evalIndexes _ _ _ hd1) ?_
            rintro ⟨ixs, s2⟩ hd2
            dsimp only at hd2 ⊢
            split
            · exact WG.tagOut (wg_unexpected _ _)
            · split
              · exact WG.tagOut (wg_stmtErr _ _ _ _)
              · refine WG.bind (WG.any _) ?_
                intro h _
                exact WG.ok (Q := Dom K) hd2
  · intro cur ixs s hd
    cases ixs <;> simp only [evalIndexes] <;> dmm
end
end Pakhi

namespace Pakhi
theorem domInv (K : List Str) (prog : List Stmt) (hprog : avL K prog) : ∀ f, DomInv K prog f
  | 0 => domInv_zero K prog
  | f+1 => domInv_succ K prog hprog f (domInv K prog hprog f)
end Pakhi
