import Pakhi.Lemmas.FrameX3
import Pakhi.Lemmas.Rename1
namespace Pakhi

/-- a state transformer that touches neither heap, output nor world (it may rearrange scopes, loops, flags) -/
structure Lift (T : St → St) : Prop where
  heap : ∀ s, (T s).heap = s.heap
  out : ∀ s, (T s).out = s.out
  world : ∀ s, (T s).world = s.world
  emit : ∀ s t, (T s).emit t = T (s.emit t)
  mark : ∀ s m, (T s).mark m = T (s.mark m)
  withHeap : ∀ s h, { T s with heap := h } = T { s with heap := h }
  withWorld : ∀ s w, { T s with world := w } = T { s with world := w }

theorem fx_stmtErr_tag {α : Type} (g : α → α) (cur : List Stmt) (c : ErrClass) (t : String) (o : List Out) :
    (stmtErr cur c t : Res α).tagOut o = ((stmtErr cur c t : Res α).tagOut o).rn g := by
  cases cur <;> rfl
theorem fx_metaErr_tag {α : Type} (g : α → α) (m : Meta) (c : ErrClass) (t : String) (o : List Out) :
    (metaErr m c t : Res α).tagOut o = ((metaErr m c t : Res α).tagOut o).rn g := rfl
theorem fx_unexpected_tag {α : Type} (g : α → α) (t : String) (o : List Out) :
    (unexpected t : Res α).tagOut o = ((unexpected t : Res α).tagOut o).rn g := rfl

section
variable (T : St → St) (hT : Lift T)
include hT

theorem print_lift (cur : List Stmt) : ∀ (f : Nat),
    (∀ v s, printVal cur f v (T s) = (printVal cur f v s).rn T) ∧
    (∀ xs first s, printElems cur f xs first (T s) = (printElems cur f xs first s).rn T) ∧
    (∀ xs s, printEntries cur f xs (T s) = (printEntries cur f xs s).rn T)
  | 0 => by simp [printVal, printElems, printEntries, Res.rn]
  | f+1 => by
      obtain ⟨i1, i2, i3⟩ := print_lift cur f
      refine ⟨?_, ?_, ?_⟩
      · intro v s
        cases v with
        | num n =>
          simp only [printVal, hT.out, hT.emit]; split
          · rfl
          · exact fx_stmtErr_tag _ _ _ _ _
        | bool x => simp only [printVal, hT.emit]; rfl
        | str t => simp only [printVal, hT.emit]; rfl
        | list i =>
          simp only [printVal, hT.heap]
          cases hl : s.heap.lists[i]? with
          | none => rfl
          | some l =>
            simp only [hT.emit]
            rw [i2]
            cases printElems cur f l true (s.emit ['[']) <;> simp only [Res.rn, hT.emit]
        | record i =>
          simp only [printVal, hT.heap]
          cases hr : s.heap.records[i]? with
          | none => rfl
          | some r =>
            simp only [hT.emit, hT.mark]
            rw [i3]
            cases printEntries cur f r ((s.emit ['@', '{']).mark .recStart) <;> simp only [Res.rn, hT.emit, hT.mark]
        | func _ _ => simp only [printVal, hT.out]; exact fx_stmtErr_tag _ _ _ _ _
        | nil => simp only [printVal, hT.out]; exact fx_stmtErr_tag _ _ _ _ _
      · intro xs first s
        cases xs with
        | nil => rfl
        | cons x xs =>
          simp only [printElems]
          have e : (if first = true then T s else (T s).emit W.sepCommaSpace) = T (if first = true then s else s.emit W.sepCommaSpace) := by
            cases first <;> simp [hT.emit]
          rw [e, i1]
          cases printVal cur f x (if first = true then s else s.emit W.sepCommaSpace) with
          | ok s1 => exact i2 xs false s1
          | err e => rfl
          | panic p => rfl
          | fuel => rfl
      · intro xs s
        cases xs with
        | nil => rfl
        | cons kx xs =>
          obtain ⟨k, x⟩ := kx
          simp only [printEntries, hT.mark, hT.emit]
          rw [i1]
          cases printVal cur f x ((s.mark .entStart).emit ('"' :: k ++ ['"', ':'])) with
          | ok s1 => simp only [Res.rn, hT.emit, hT.mark]; exact i3 xs ((s1.emit [',']).mark .entEnd)
          | err e => rfl
          | panic p => rfl
          | fuel => rfl

theorem printTop_lift (cur : List Stmt) (f : Nat) (eol : Bool) (v : Val) (s : St) :
    printTop cur f eol v (T s) = (printTop cur f eol v s).rn T := by
  simp only [printTop, hT.out]
  split
  · exact fx_stmtErr_tag _ _ _ _ _
  · exact fx_stmtErr_tag _ _ _ _ _
  · rw [(print_lift T hT cur f).1]
    cases printVal cur f v s with
    | ok s1 => cases eol <;> simp [Res.rn, hT.emit]
    | err e => rfl
    | panic p => rfl
    | fuel => rfl

end
end Pakhi

namespace Pakhi
section
variable (X : Scope)

/-- the state with the bindings `X` added in front of the outermost scope -/
def TX (s : St) : St := { s with scopes := addBottom X s.scopes }

@[simp] theorem TX_scopes (s : St) : (TX X s).scopes = addBottom X s.scopes := rfl
@[simp] theorem TX_heap (s : St) : (TX X s).heap = s.heap := rfl
@[simp] theorem TX_out (s : St) : (TX X s).out = s.out := rfl
@[simp] theorem TX_flags (s : St) : (TX X s).flags = s.flags := rfl
@[simp] theorem TX_loops (s : St) : (TX X s).loops = s.loops := rfl
@[simp] theorem TX_world (s : St) : (TX X s).world = s.world := rfl
@[simp] theorem TX_gcCount (s : St) : (TX X s).gcCount = s.gcCount := rfl

theorem TX_lift : Lift (TX X) := ⟨fun _ => rfl, fun _ => rfl, fun _ => rfl, fun _ _ => rfl, fun _ _ => rfl, fun _ _ => rfl, fun _ _ => rfl⟩

theorem callB_TX_inl (k : Builtin) (args : List Val) (s : St) (v : Val) (s' : St)
    (h : callB k args s = .inl (v, s')) : callB k args (TX X s) = .inl (v, TX X s') := by
  cases k <;> simp only [callB, TX_heap, TX_world] at h ⊢ <;> (repeat' split at h) <;> (try (simp at h; done))
  all_goals (simp at h; obtain ⟨rfl, rfl⟩ := h; simp_all [TX])

theorem callB_TX_inr (k : Builtin) (args : List Val) (s : St) (t : Str)
    (h : callB k args s = .inr t) : callB k args (TX X s) = .inr t := by
  cases k <;> simp only [callB, TX_heap, TX_world] at h ⊢ <;> (repeat' split at h) <;> (try (simp at h; done))
  all_goals (simp at h; subst h; simp_all)

theorem callBuiltin_TX_inl (n : Str) (args : List Val) (s : St) (v : Val) (s' : St)
    (h : callBuiltin n args s = .inl (v, s')) : callBuiltin n args (TX X s) = .inl (v, TX X s') := by
  simp only [callBuiltin] at h ⊢
  split at h
  · exact callB_TX_inl X _ args s v s' h
  · simp at h
theorem callBuiltin_TX_inr (n : Str) (args : List Val) (s : St) (t : Str)
    (h : callBuiltin n args s = .inr t) : callBuiltin n args (TX X s) = .inr t := by
  simp only [callBuiltin] at h ⊢
  split at h
  · exact callB_TX_inr X _ args s t h
  · exact h

/-- conditional bind: the continuation is only compared on values the first computation can actually return -/
theorem Res.rn_bind_wg {α β : Type} {Q : α → Prop} (g : α → α) (g' : β → β) (r : Res α) (k k' : α → Res β)
    (hq : WG Q r) (hk : ∀ a, Q a → k' (g a) = (k a).rn g') : (r.rn g).bind k' = (r.bind k).rn g' := by
  cases r with
  | ok a => simp only [Res.rn, Res.bind]; exact hk a hq
  | err e => rfl
  | panic p => rfl
  | fuel => rfl
end
end Pakhi
