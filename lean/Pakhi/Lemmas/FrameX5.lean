import Pakhi.Lemmas.FrameX4
namespace Pakhi
section
variable (X : Scope) (prog : List Stmt)

theorem avE_stripGroups (K : List Str) : ∀ (e : Expr), avE K e → avE K (stripGroups e)
  | .group e m, h => by simp only [stripGroups]; exact avE_stripGroups K e (by simpa only [avE] using h)
  | .indexing .., h | .or .., h | .and .., h | .equality .., h | .comparison .., h | .addsub .., h | .muldiv .., h | .unary .., h | .call .., h
  | .nil _, h | .bool .., h | .num .., h | .str .., h | .list .., h | .record .., h | .var .., h => by simpa only [stripGroups] using h

abbrev tV {α : Type} : α × St → α × St := fun x => (x.1, TX X x.2)

/-- **bindings a piece of code does not mention are neither consulted nor changed**: with extra bindings `X` in the outermost scope,
    code that avoids their names runs exactly as without them, and leaves them in place -/
structure FXInv (f : Nat) : Prop where
  eval : ∀ cur e s, Dom (keysOf X) s → avE (keysOf X) e → eval prog f cur e (TX X s) = (eval prog f cur e s).rn (tV X)
  evalBin : ∀ cur lf op l r s, Dom (keysOf X) s → avE (keysOf X) l → avE (keysOf X) r →
    evalBin prog f cur lf op l r (TX X s) = (evalBin prog f cur lf op l r s).rn (tV X)
  evalList : ∀ cur es s, Dom (keysOf X) s → avEs (keysOf X) es → evalList prog f cur es (TX X s) = (evalList prog f cur es s).rn (tV X)
  evalRecord : ∀ cur ks vs acc s, Dom (keysOf X) s → avEs (keysOf X) ks → avEs (keysOf X) vs →
    evalRecord prog f cur ks vs acc (TX X s) = (evalRecord prog f cur ks vs acc s).rn (tV X)
  evalCall : ∀ cur callee args s, Dom (keysOf X) s → avE (keysOf X) callee → avEs (keysOf X) args →
    evalCall prog f cur callee args (TX X s) = (evalCall prog f cur callee args s).rn (tV X)
  bindParams : ∀ cur params args env s, Dom (keysOf X) s → avEs (keysOf X) args →
    bindParams prog f cur params args env (TX X s) = (bindParams prog f cur params args env s).rn (tV X)
  callLoop : ∀ cur s, Dom (keysOf X) s → avL (keysOf X) cur → callLoop prog f cur (TX X s) = (callLoop prog f cur s).rn (tV X)
  exec : ∀ cur s, Dom (keysOf X) s → avL (keysOf X) cur → exec prog f cur (TX X s) = (exec prog f cur s).rn (tV X)
  execAssign : ∀ cur a s, Dom (keysOf X) s → avA (keysOf X) a → execAssign prog f cur a (TX X s) = (execAssign prog f cur a s).rn (TX X)
  evalIndexes : ∀ cur ixs s, Dom (keysOf X) s → (∀ e ∈ ixs, avE (keysOf X) e) →
    evalIndexes prog f cur ixs (TX X s) = (evalIndexes prog f cur ixs s).rn (tV X)

theorem fxInv_zero : FXInv X prog 0 := by
  constructor <;> intros <;> simp only [eval, evalBin, evalList, evalRecord, evalCall, bindParams, callLoop, exec, execAssign, evalIndexes] <;> rfl

variable (hprog : avL (keysOf X) prog)
include hprog

omit hprog in
theorem execFuncDef_TX (rest : List Stmt) (s : St) (hd : Dom (keysOf X) s) (hav : avL (keysOf X) rest) :
    execFuncDef prog rest (TX X s) = (execFuncDef prog rest s).rn (tV X) := by
  unfold execFuncDef
  split
  · rename_i callee args cm m body
    have hst := avL_head _ hav
    simp only [avS, avE] at hst
    split
    · rename_i ftok vm
      simp only [avE] at hst
      split
      · rfl
      · rename_i params _
        simp only [TX_scopes]
        rw [declareVar_addBottom X _ _ _ hst.1]
        cases declareVar s.scopes ftok.lexeme (Val.func body.length params) with
        | ok sc =>
          simp only []
          cases skipBlock body 0 with
          | ok after =>
            simp only []
            split
            · rfl
            · rfl
            · split <;> rfl
          | err e => rfl
          | panic p => rfl
          | fuel => rfl
        | err e => rfl
        | panic p => rfl
        | fuel => rfl
    · rfl
  · cases rest <;> rfl

set_option hygiene false in
/-- rewrite the call of `eval` by the induction hypothesis and enter the continuation with the domain fact for the new state -/
macro "fxe" : tactic => `(tactic| (
  rw [ih.eval _ _ _ hd (by assumption)]
  refine Res.rn_bind_wg _ _ _ _ _ (hdi.eval _ _ _ hd) ?_
  rintro ⟨_, _⟩ hd
  try dsimp only at hd ⊢))

theorem fxInv_succ (f : Nat) (ih : FXInv X prog f) : FXInv X prog (f+1) := by
  have hdi := domInv (keysOf X) prog hprog f
  constructor
  · intro cur e s hd hav
    cases e <;> simp only [eval, TX_scopes, TX_heap, TX_out] <;> simp only [avE] at hav
    case nil => rfl
    case str => rfl
    case num => rfl
    case bool => rfl
    case var tok m =>
      rw [lookupVar_addBottom X _ _ hav]
      split <;> first | rfl | exact fx_stmtErr_tag _ _ _ _ _
    case list es m =>
      rw [ih.evalList _ _ _ hd hav]
      refine Res.rn_bind_wg _ _ _ _ _ (hdi.evalList _ _ _ hd) ?_
      rintro ⟨vs, s1⟩ hd1; rfl
    case group e m => exact ih.eval _ _ _ hd hav
    case record ks vs m =>
      rw [ih.evalRecord _ _ _ _ _ hd hav.1 hav.2]
      refine Res.rn_bind_wg _ _ _ _ _ (hdi.evalRecord _ _ _ _ _ hd) ?_
      rintro ⟨r, s1⟩ hd1; rfl
    case unary op r m =>
      fxe
      refine rn_tag_bind id _ _ _ _ _ _ (by cases unaryOp op r.meta _ <;> rfl) ?_
      intro v; rfl
    case and l r m => exact ih.evalBin _ _ _ _ _ _ hd hav.1 hav.2
    case or l r m => exact ih.evalBin _ _ _ _ _ _ hd hav.1 hav.2
    case equality op l r m => exact ih.evalBin _ _ _ _ _ _ hd hav.1 hav.2
    case comparison op l r m => exact ih.evalBin _ _ _ _ _ _ hd hav.1 hav.2
    case muldiv op l r m => exact ih.evalBin _ _ _ _ _ _ hd hav.1 hav.2
    case addsub op l r m =>
      obtain ⟨h1, h2⟩ := hav
      fxe
      fxe
      simp only [TX_heap, TX_out]
      refine rn_tag_bind id _ _ _ _ _ _ (by cases addSub op l.meta _ _ _ <;> rfl) ?_
      rintro ⟨v, h⟩; rfl
    case indexing c i m =>
      obtain ⟨h1, h2⟩ := hav
      fxe
      fxe
      simp only [TX_heap, TX_out]
      refine rn_tag_bind id _ _ _ _ _ _ (by cases indexVal i.meta _ _ _ <;> rfl) ?_
      intro v; rfl
    case call callee args m => exact ih.evalCall _ _ _ _ hd hav.1 hav.2
  · intro cur lf op l r s hd h1 h2
    simp only [evalBin]
    split
    · fxe
      fxe
      simp only [TX_out]
      refine rn_tag_bind id _ _ _ _ _ _ (by cases op _ _ <;> rfl) ?_
      intro v; rfl
    · fxe
      fxe
      simp only [TX_out]
      refine rn_tag_bind id _ _ _ _ _ _ (by cases op _ _ <;> rfl) ?_
      intro v; rfl
  · intro cur es s hd hav
    cases es <;> simp only [evalList] <;> simp only [avEs] at hav
    · rfl
    · obtain ⟨h1, h2⟩ := hav
      fxe
      rw [ih.evalList _ _ _ hd h2]
      refine Res.rn_bind_wg _ _ _ _ _ (hdi.evalList _ _ _ hd) ?_
      rintro ⟨vs, s2⟩ hd2; rfl
  · intro cur ks vs acc s hd hk hv
    cases ks <;> cases vs <;> simp only [evalRecord] <;> simp only [avEs] at hk hv <;> try rfl
    rename_i k ks v vs
    obtain ⟨hk1, hk2⟩ := hk
    obtain ⟨hv1, hv2⟩ := hv
    fxe
    split
    · fxe
      exact ih.evalRecord _ _ _ _ _ hd hk2 hv2
    · exact ih.evalRecord _ _ _ _ _ hd hk2 hv2
  · intro cur callee args s hd hc ha
    simp only [evalCall, TX_scopes, TX_out]
    have hsg : avE (keysOf X) (stripGroups callee) := avE_stripGroups _ callee hc
    cases hcallee : stripGroups callee
    case var tok vm =>
      rw [hcallee] at hsg
      simp only [avE] at hsg
      simp only []
      split
      · rw [ih.evalList _ _ _ hd ha]
        refine Res.rn_bind_wg _ _ _ _ _ (hdi.evalList _ _ _ hd) ?_
        rintro ⟨vs, s1⟩ hd1
        simp only [TX_out]
        split
        · split
          · cases cur <;> rfl
          · exact fx_stmtErr_tag _ _ _ _ _
        · cases hcb : callBuiltin tok.lexeme vs s1 with
          | inl r =>
            obtain ⟨v, s'⟩ := r
            rw [callBuiltin_TX_inl X _ _ _ _ _ hcb]; rfl
          | inr t =>
            rw [callBuiltin_TX_inr X _ _ _ _ hcb]
            simp only
            split
            · rfl
            · cases cur <;> rfl
      · rw [lookupVar_addBottom X _ _ hsg]
        split
        · exact fx_stmtErr_tag _ _ _ _ _
        · rename_i rem params _
          rw [ih.bindParams _ _ _ _ _ hd ha]
          refine Res.rn_bind_wg _ _ _ _ _ (hdi.bindParams _ _ _ _ _ hd) ?_
          rintro ⟨env, s1⟩ hd1
          dsimp only at hd1 ⊢
          simp only [TX_scopes, TX_out, TX_loops, TX_flags]
          split
          · rename_i bm body hbo
            have hav : avL (keysOf X) (Stmt.blockStart bm :: body) := by rw [← hbo]; exact avL_bodyOf _ hprog rem
            have hd2 : Dom (keysOf X) { s1 with scopes := env :: s1.scopes } := ⟨by simp, hd1.2⟩
            have e1 : ({ scopes := env :: addBottom X s1.scopes, heap := (TX X s1).heap, out := s1.out, loops := s1.loops, flags := s1.flags,
                         world := (TX X s1).world, gcCount := (TX X s1).gcCount } : St) = TX X { s1 with scopes := env :: s1.scopes } := by
              simp only [TX, addBottom_cons X env hd1.1]
            rw [e1, ih.callLoop _ _ hd2 hav]
            refine Res.rn_bind_wg _ _ _ _ _ (hdi.callLoop _ _ hd2 hav) ?_
            rintro ⟨v, s2⟩ hd3
            simp only [Res.rn, tV, TX, addBottom_length, addBottom_drop]
          · exact fx_unexpected_tag _ _ _
        · exact fx_metaErr_tag _ _ _ _ _
    all_goals exact fx_stmtErr_tag _ _ _ _ _
  · intro cur params args env s hd hav
    cases params <;> cases args <;> simp only [bindParams] <;> simp only [avEs] at hav <;> try rfl
    · exact ih.bindParams _ _ _ _ _ hd trivial
    · obtain ⟨h1, h2⟩ := hav
      fxe
      exact ih.bindParams _ _ _ _ _ hd h2
  · intro cur s hd hav
    simp only [callLoop]
    split
    · rename_i e m rest
      exact ih.eval _ _ _ hd (avL_head (keysOf X) hav)
    · rw [ih.exec _ _ hd hav]
      refine Res.rn_bind_wg _ _ _ _ _ (hdi.exec _ _ hd hav) ?_
      rintro ⟨c, s1⟩ ⟨hd1, hav1⟩
      exact ih.callLoop _ _ hd1 hav1
  · intro cur s hd hav
    cases cur with
    | nil => simp only [exec, TX_out]; exact fx_unexpected_tag _ _ _
    | cons st rest =>
      have havr : avL (keysOf X) rest := avL_tail _ hav
      have hst : avS (keysOf X) st := avL_head _ hav
      cases st <;> simp only [exec, TX_scopes, TX_out, TX_flags, TX_loops] <;> simp only [avS] at hst
      case print e m =>
        fxe
        rw [printTop_lift (TX X) (TX_lift X)]
        refine Res.rn_bind _ _ _ _ _ ?_
        intro s2; rfl
      case printNoEOL e m =>
        fxe
        rw [printTop_lift (TX X) (TX_lift X)]
        refine Res.rn_bind _ _ _ _ _ ?_
        intro s2; rfl
      case expr e m =>
        fxe
        rfl
      case assign a m =>
        rw [ih.execAssign _ _ _ hd hst]
        refine Res.rn_bind _ _ _ _ _ ?_
        intro s2; rfl
      case «if» c m =>
        fxe
        simp only [TX_flags, TX_out]
        split
        · rfl
        · refine rn_tag_bind id _ _ _ _ _ _ (by cases skipBlockInIf rest _ <;> rfl) ?_
          rintro ⟨c', fl⟩; rfl
        · exact fx_metaErr_tag _ _ _ _ _
      case «else» m =>
        split
        · exact fx_stmtErr_tag _ _ _ _ _
        · refine rn_tag_bind id _ _ _ _ _ _ (by cases skipBlockInIf rest _ <;> rfl) ?_
          rintro ⟨c', fl⟩; rfl
        · rfl
      case funcDef m =>
        exact rn_tagOut _ _ _ _ (execFuncDef_TX X prog rest s hd havr)
      case loop m => simp only [addBottom_length]; rfl
      case cont m =>
        split
        · exact fx_stmtErr_tag _ _ _ _ _
        · simp only [Res.rn, tV, TX, addBottom_length, addBottom_drop]
      case brk m =>
        split
        · refine rn_tag_bind id _ _ _ _ _ _ (by simp only [addBottom_length]; cases breakScan m rest _ <;> rfl) ?_
          intro c'; simp only [Res.rn, tV, TX, addBottom_length, addBottom_drop, id]
        · refine rn_tag_bind id _ _ _ _ _ _ (by cases breakScan m rest _ <;> rfl) ?_
          intro c'; rfl
      case blockStart m => simp only [Res.rn, tV, TX, addBottom_cons X [] hd.1]
      case blockEnd m =>
        simp only [addBottom_length]
        split
        · exact fx_stmtErr_tag _ _ _ _ _
        · simp only [Res.rn, tV, TX, addBottom_drop]
      case ret e m => exact fx_stmtErr_tag _ _ _ _ _
      case eos m => exact fx_stmtErr_tag _ _ _ _ _
  · intro cur a s hd hav
    obtain ⟨kind, var, indexes, init⟩ := a
    obtain ⟨hvar, hix, hinit⟩ := hav
    dsimp only at hvar hix hinit
    have hdecl : ∀ (s1 : St) (v : Val), Dom (keysOf X) s1 →
        ((declareVar (addBottom X s1.scopes) var.lexeme v).bind fun sc => .ok { TX X s1 with scopes := sc }) =
        ((declareVar s1.scopes var.lexeme v).bind fun sc => .ok { s1 with scopes := sc }).rn (TX X) := by
      intro s1 v h1
      rw [declareVar_addBottom X v _ _ hvar]
      cases declareVar s1.scopes var.lexeme v <;> rfl
    simp only [execAssign, TX_scopes, TX_out, TX_heap]
    cases kind
    · cases init with
      | none => exact hdecl s .nil hd
      | some e =>
        have he := hinit e rfl
        simp only []
        fxe
        rename_i v s1
        exact hdecl s1 v hd
    · cases init with
      | none => rfl
      | some e =>
        have he := hinit e rfl
        simp only []
        fxe
        rename_i v s1
        simp only [TX_scopes, TX_out]
        rw [lookupVar_addBottom X _ _ hvar]
        split
        · exact fx_stmtErr_tag _ _ _ _ _
        · split
          · rw [assignVar_addBottom X v _ _ hvar]
            cases assignVar s1.scopes var.lexeme v <;> rfl
          · rw [ih.evalIndexes _ _ _ hd hix]
            refine Res.rn_bind_wg _ _ _ _ _ (hdi.evalIndexes _ _ _ hd) ?_
            rintro ⟨ixs, s2⟩ hd2
            simp only [TX_scopes, TX_out, TX_heap]
            cases cur with
            | nil => exact fx_unexpected_tag _ _ _
            | cons st rest =>
              simp only []
              rw [lookupVar_addBottom X _ _ hvar]
              split
              · exact fx_stmtErr_tag _ _ _ _ _
              · refine rn_tag_bind id _ _ _ _ _ _ (by cases assignPath (st :: rest) _ ixs v s2.heap <;> rfl) ?_
                intro h; rfl
  · intro cur ixs s hd hav
    cases ixs <;> simp only [evalIndexes] <;> try rfl
    rename_i ix rest
    have h1 : avE (keysOf X) ix := hav ix (by simp)
    have h2 : ∀ e ∈ rest, avE (keysOf X) e := fun e he => hav e (by simp [he])
    fxe
    rename_i v s1
    split
    · simp only [TX_heap, TX_out]
      split
      · rfl
      · rename_i l hl
        have tl : ∀ (one : Res Index),
            (one.bind fun i1 => (evalIndexes prog f cur rest (TX X s1)).bind fun x => Res.ok (i1 :: x.fst, x.snd)) =
            Res.rn (tV X) (one.bind fun i1 => (evalIndexes prog f cur rest s1).bind fun x => Res.ok (i1 :: x.fst, x.snd)) := by
          intro one
          cases one with
          | ok i1 =>
            simp only [Res.bind]
            rw [ih.evalIndexes _ _ _ hd h2]
            cases evalIndexes prog f cur rest s1 <;> rfl
          | err e => rfl
          | panic p => rfl
          | fuel => rfl
        exact tl _
    · exact fx_metaErr_tag _ _ _ _ _
end
end Pakhi

namespace Pakhi
theorem fxInv (X : Scope) (prog : List Stmt) (hprog : avL (keysOf X) prog) : ∀ f, FXInv X prog f
  | 0 => fxInv_zero X prog
  | f+1 => fxInv_succ X prog hprog f (fxInv X prog hprog f)

/-- the extra bindings hold no containers (numbers, strings, booleans, nil, functions): they are no roots for the collector -/
def NoRefs (X : Scope) : Prop := ∀ kv ∈ X, (∀ i, kv.2 ≠ .list i) ∧ (∀ i, kv.2 ≠ .record i)

theorem rootVals_addBottom (X : Scope) (hX : NoRefs X) : ∀ (scopes : List Scope), rootVals (addBottom X scopes) = rootVals scopes := by
  intro scopes
  have key : ∀ (p : Val → Bool), (∀ kv ∈ X, p kv.2 = false) →
      ((addBottom X scopes).flatMap (fun s => s.map (·.2))).filter p = (scopes.flatMap (fun s => s.map (·.2))).filter p := by
    intro p hp
    have hx : (X.map (·.2)).filter p = [] := by
      rw [List.filter_eq_nil_iff]
      intro v hv
      obtain ⟨kv, hkv, rfl⟩ := List.mem_map.mp hv
      simp [hp kv hkv]
    induction scopes with
    | nil => rfl
    | cons sc r ih =>
      cases r with
      | nil => simp only [addBottom, List.flatMap_cons, List.flatMap_nil, List.map_append, List.filter_append, hx, List.nil_append]
      | cons b r' =>
        have e : addBottom X (sc :: b :: r') = sc :: addBottom X (b :: r') := rfl
        rw [e, List.flatMap_cons, List.flatMap_cons, List.filter_append, List.filter_append, ih]
  simp only [rootVals]
  rw [key _ (fun kv hkv => by have := (hX kv hkv).1; cases hv : kv.2 <;> simp_all),
      key _ (fun kv hkv => by have := (hX kv hkv).2; cases hv : kv.2 <;> simp_all)]

theorem collect_addBottom (X : Scope) (hX : NoRefs X) (scopes : List Scope) (h : Heap) :
    collect (addBottom X scopes) h = collect scopes h := by
  simp only [collect, rootVals_addBottom X hX]

/-- **the frame theorem, whole runs**: with extra bindings `X` (no containers among them) in the outermost scope, a run of code that
    mentions none of their names — in the statements run, in the program's function bodies, in the pending loop bodies — proceeds
    exactly as without them and leaves them in place: same statements, values, heap, output, world, collections, fuel, same error -/
theorem runLoop_frameX (X : Scope) (hX : NoRefs X) (prog : List Stmt) (hprog : avL (keysOf X) prog) (g : GcMode) :
    ∀ (f k : Nat) (cur : List Stmt) (s : St), Dom (keysOf X) s → avL (keysOf X) cur →
      runLoop prog g f k cur (TX X s) = (runLoop prog g f k cur s).rn (TX X)
  | 0, _, _, _, _, _ => rfl
  | f+1, k, cur, s, hd, hav => by
      have hex := (fxInv X prog hprog f).exec cur s hd hav
      have hdx := (domInv (keysOf X) prog hprog f).exec cur s hd hav
      cases cur with
      | nil => rfl
      | cons st rest =>
        cases st <;> first
          | rfl
          | (simp only [runLoop]
             rw [hex]
             cases hr : exec prog f _ s with
             | ok x =>
               obtain ⟨cur', s1⟩ := x
               rw [hr] at hdx
               obtain ⟨hd1, hav1⟩ := hdx
               simp only [Res.rn_ok, tV, TX_heap, TX_scopes, collect_addBottom X hX]
               by_cases hf : g.fires k s1.heap = true
               · simp only [hf, if_true]
                 cases hc : collect s1.scopes s1.heap with
                 | ok h' =>
                   simp only []
                   exact runLoop_frameX X hX prog hprog g f (k+1) cur' { s1 with heap := h', gcCount := s1.gcCount + 1 } ⟨hd1.1, hd1.2⟩ hav1
                 | panic p => rfl
                 | fuel => rfl
               · simp only [hf]
                 exact runLoop_frameX X hX prog hprog g f (k+1) cur' s1 hd1 hav1
             | err e => rfl
             | panic p => rfl
             | fuel => rfl)
#print axioms runLoop_frameX
end Pakhi

namespace Pakhi
/-- the frame theorem for collection-free runs: the leftover bindings may hold anything, containers included -/
theorem runLoop_frameX_never (X : Scope) (prog : List Stmt) (hprog : avL (keysOf X) prog) :
    ∀ (f k : Nat) (cur : List Stmt) (s : St), Dom (keysOf X) s → avL (keysOf X) cur →
      runLoop prog .never f k cur (TX X s) = (runLoop prog .never f k cur s).rn (TX X)
  | 0, _, _, _, _, _ => rfl
  | f+1, k, cur, s, hd, hav => by
      have hex := (fxInv X prog hprog f).exec cur s hd hav
      have hdx := (domInv (keysOf X) prog hprog f).exec cur s hd hav
      cases cur with
      | nil => rfl
      | cons st rest =>
        cases st <;> first
          | rfl
          | (simp only [runLoop]
             rw [hex]
             cases hr : exec prog f _ s with
             | ok x =>
               obtain ⟨cur', s1⟩ := x
               rw [hr] at hdx
               obtain ⟨hd1, hav1⟩ := hdx
               simp only [Res.rn_ok, tV, GcMode.fires, Bool.false_eq_true, if_false]
               exact runLoop_frameX_never X prog hprog f (k+1) cur' s1 hd1 hav1
             | err e => rfl
             | panic p => rfl
             | fuel => rfl)

section
variable (K K' : List Str) (hsub : ∀ n, n ∈ K' → n ∈ K)
include hsub

mutual
theorem avE_mono : ∀ (e : Expr), avE K e → avE K' e
  | .indexing e i m, h => by simp only [avE] at h ⊢; exact ⟨avE_mono e h.1, avE_mono i h.2⟩
  | .or l r m, h => by simp only [avE] at h ⊢; exact ⟨avE_mono l h.1, avE_mono r h.2⟩
  | .and l r m, h => by simp only [avE] at h ⊢; exact ⟨avE_mono l h.1, avE_mono r h.2⟩
  | .equality op l r m, h => by simp only [avE] at h ⊢; exact ⟨avE_mono l h.1, avE_mono r h.2⟩
  | .comparison op l r m, h => by simp only [avE] at h ⊢; exact ⟨avE_mono l h.1, avE_mono r h.2⟩
  | .addsub op l r m, h => by simp only [avE] at h ⊢; exact ⟨avE_mono l h.1, avE_mono r h.2⟩
  | .muldiv op l r m, h => by simp only [avE] at h ⊢; exact ⟨avE_mono l h.1, avE_mono r h.2⟩
  | .unary op r m, h => by simp only [avE] at h ⊢; exact avE_mono r h
  | .call f args m, h => by simp only [avE] at h ⊢; exact ⟨avE_mono f h.1, avEs_mono args h.2⟩
  | .nil m, _ => by simp only [avE]
  | .bool b m, _ => by simp only [avE]
  | .num b m, _ => by simp only [avE]
  | .str s m, _ => by simp only [avE]
  | .list es m, h => by simp only [avE] at h ⊢; exact avEs_mono es h
  | .record ks vs m, h => by simp only [avE] at h ⊢; exact ⟨avEs_mono ks h.1, avEs_mono vs h.2⟩
  | .var tok m, h => by simp only [avE] at h ⊢; exact fun hm => h (hsub _ hm)
  | .group e m, h => by simp only [avE] at h ⊢; exact avE_mono e h
theorem avEs_mono : ∀ (es : Exprs), avEs K es → avEs K' es
  | .nil, _ => by simp only [avEs]
  | .cons e es, h => by simp only [avEs] at h ⊢; exact ⟨avE_mono e h.1, avEs_mono es h.2⟩
end

theorem avS_mono (st : Stmt) (h : avS K st) : avS K' st := by
  cases st <;> simp only [avS] at h ⊢ <;> try exact avE_mono K K' hsub _ h
  rename_i a m
  exact ⟨fun hm => h.1 (hsub _ hm), fun e he => avE_mono K K' hsub e (h.2.1 e he), fun e he => avE_mono K K' hsub e (h.2.2 e he)⟩

theorem avL_mono (l : List Stmt) (h : avL K l) : avL K' l := fun st hst => avS_mono K K' hsub st (h st hst)
end
end Pakhi
