import Pakhi.Lemmas.FrameX5
import Pakhi.Lemmas.Relabel5
namespace Pakhi
section
variable (X : Scope) (pre prog : List Stmt)

/-- function values whose body lies inside `prog` -/
abbrev InProg : Nat → List Str → Prop := fun rem _ => rem ≤ prog.length

theorem funcIntro_inProg : FuncIntro (InProg prog) prog := by
  intro pre0 fm ce args cm m body params h _
  show body.length ≤ prog.length
  rw [h]; simp only [List.length_append, List.length_cons]; omega

theorem bodyOf_prefix (rem : Nat) (h : rem ≤ prog.length) : bodyOf (pre ++ prog) rem = bodyOf prog rem := by
  simp only [bodyOf, List.length_append]
  rw [List.drop_append]
  have e1 : pre.length + prog.length - rem - pre.length = prog.length - rem := by omega
  have e2 : List.drop (pre.length + prog.length - rem) pre = [] := List.drop_eq_nil_of_le (by omega)
  rw [e1, e2, List.nil_append]

theorem getLast_prefix (h : prog ≠ []) : (pre ++ prog).getLast? = prog.getLast? := by
  rw [List.getLast?_append]
  cases hl : prog.getLast? with
  | none => exact absurd (List.getLast?_eq_none_iff.mp hl) h
  | some x => rfl

theorem Res.rn_bind_good {α β : Type} {Q : α → Prop} (g : α → α) (g' : β → β) (r : Res α) (k k' : α → Res β)
    (hq : Good Q r) (hk : ∀ a, Q a → k' (g a) = (k a).rn g') : (r.rn g).bind k' = (r.bind k).rn g' := by
  cases r with
  | ok a => simp only [Res.rn, Res.bind]; exact hk a hq
  | err e => rfl
  | panic p => rfl
  | fuel => rfl

theorem StOK.dom {K : List Str} {s : St} (hs : StOK (InProg prog) prog s) (hprog : avL K prog) : Dom K s :=
  ⟨hs.scopes.1, fun l hl => ⟨(hs.loops l hl).2, avL_suffix K (hs.loops l hl).1 hprog⟩⟩

/-- **a fragment inside a longer program, after earlier bindings**: the later part `prog` of a program `pre ++ prog`, run with leftover
    bindings `X` whose names it avoids, is `prog` run on its own -/
structure PXInv (f : Nat) : Prop where
  eval : ∀ cur e s, IsSuffixOf cur prog → e.wf = true → StOK (InProg prog) prog s → avE (keysOf X) e →
    eval (pre ++ prog) f cur e (TX X s) = (eval prog f cur e s).rn (tV X)
  evalBin : ∀ cur lf (op : Val → Val → Res Val) l r s, IsSuffixOf cur prog → l.wf = true → r.wf = true → StOK (InProg prog) prog s →
    (∀ a b h, Good (ValOK (InProg prog) h) (op a b)) → avE (keysOf X) l → avE (keysOf X) r →
    evalBin (pre ++ prog) f cur lf op l r (TX X s) = (evalBin prog f cur lf op l r s).rn (tV X)
  evalList : ∀ cur es s, IsSuffixOf cur prog → es.wf = true → StOK (InProg prog) prog s → avEs (keysOf X) es →
    evalList (pre ++ prog) f cur es (TX X s) = (evalList prog f cur es s).rn (tV X)
  evalRecord : ∀ cur ks vs acc s, IsSuffixOf cur prog → ks.length ≤ vs.length → ks.wf = true → vs.wf = true → StOK (InProg prog) prog s →
    (∀ kv ∈ acc, ValOK (InProg prog) s.heap kv.2) → avEs (keysOf X) ks → avEs (keysOf X) vs →
    evalRecord (pre ++ prog) f cur ks vs acc (TX X s) = (evalRecord prog f cur ks vs acc s).rn (tV X)
  evalCall : ∀ cur callee args s, IsSuffixOf cur prog → args.wf = true → StOK (InProg prog) prog s → avE (keysOf X) callee → avEs (keysOf X) args →
    evalCall (pre ++ prog) f cur callee args (TX X s) = (evalCall prog f cur callee args s).rn (tV X)
  bindParams : ∀ cur params args env s, IsSuffixOf cur prog → args.wf = true → StOK (InProg prog) prog s → ScopeOK (InProg prog) s.heap env →
    avEs (keysOf X) args →
    bindParams (pre ++ prog) f cur params args env (TX X s) = (bindParams prog f cur params args env s).rn (tV X)
  callLoop : ∀ cur s, IsSuffixOf cur prog → StOK (InProg prog) prog s →
    callLoop (pre ++ prog) f cur (TX X s) = (callLoop prog f cur s).rn (tV X)
  exec : ∀ cur s, IsSuffixOf cur prog → StOK (InProg prog) prog s →
    exec (pre ++ prog) f cur (TX X s) = (exec prog f cur s).rn (tV X)
  execAssign : ∀ cur a s, IsSuffixOf cur prog → a.wf = true → StOK (InProg prog) prog s → avA (keysOf X) a →
    execAssign (pre ++ prog) f cur a (TX X s) = (execAssign prog f cur a s).rn (TX X)
  evalIndexes : ∀ cur ixs s, IsSuffixOf cur prog → ixs.all Expr.wf = true → StOK (InProg prog) prog s → (∀ e ∈ ixs, avE (keysOf X) e) →
    evalIndexes (pre ++ prog) f cur ixs (TX X s) = (evalIndexes prog f cur ixs s).rn (tV X)

theorem pxInv_zero : PXInv X pre prog 0 := by
  constructor <;> intros <;> simp only [eval, evalBin, evalList, evalRecord, evalCall, bindParams, callLoop, exec, execAssign, evalIndexes] <;> rfl
end
end Pakhi

namespace Pakhi
section
variable (X : Scope) (pre prog : List Stmt) (hprog : avL (keysOf X) prog) (hwf : progWF prog = true)
include hprog hwf

set_option hygiene false in
/-- rewrite `eval … e …` by the induction hypothesis and enter the continuation with the invariant for the new state -/
macro "pxe" e:term "," hw:term "," ha:term : tactic => `(tactic| (
  rw [ih.eval _ $e _ hsuf $hw hs $ha]
  refine Res.rn_bind_good _ _ _ _ _ (hei.eval _ $e _ hsuf $hw hs) ?_
  rintro ⟨_, _⟩ ⟨hs, hv, hle⟩
  try dsimp only at hs hv hle ⊢))

theorem pxInv_succ (f : Nat) (ih : PXInv X pre prog f) : PXInv X pre prog (f+1) := by
  have hei := evalInv (InProg prog) prog hwf (funcIntro_inProg prog) f
  constructor
  · intro cur e s hsuf hw hs hav
    cases e <;> simp only [eval, TX_scopes, TX_heap, TX_out] <;> simp only [avE] at hav <;> simp only [Expr.wf, Bool.and_eq_true] at hw
    case nil => rfl
    case str => rfl
    case num => rfl
    case bool => rfl
    case var tok m =>
      rw [lookupVar_addBottom X _ _ hav]
      split <;> first | rfl | exact fx_stmtErr_tag _ _ _ _ _
    case list es m =>
      rw [ih.evalList _ _ _ hsuf hw hs hav]
      refine Res.rn_bind_good _ _ _ _ _ (hei.evalList _ _ _ hsuf hw hs) ?_
      rintro ⟨vs, s1⟩ _; rfl
    case group e m => exact ih.eval _ _ _ hsuf hw hs hav
    case record ks vs m =>
      obtain ⟨⟨hw0, hw1⟩, hw2⟩ := hw
      rw [ih.evalRecord _ _ _ _ _ hsuf (by simpa using hw0) hw1 hw2 hs (by intro kv hkv; simp at hkv) hav.1 hav.2]
      refine Res.rn_bind_good _ _ _ _ _ (hei.evalRecord _ _ _ _ _ hsuf (by simpa using hw0) hw1 hw2 hs (by intro kv hkv; simp at hkv)) ?_
      rintro ⟨r, s1⟩ _; rfl
    case unary op r m =>
      pxe r, hw, hav
      refine rn_tag_bind id _ _ _ _ _ _ (by cases unaryOp op r.meta _ <;> rfl) ?_
      intro v; rfl
    case and l r m => exact ih.evalBin _ _ _ _ _ _ hsuf hw.1 hw.2 hs (fun a b h => andOr_good _ _ _ _ _ _) hav.1 hav.2
    case or l r m => exact ih.evalBin _ _ _ _ _ _ hsuf hw.1 hw.2 hs (fun a b h => andOr_good _ _ _ _ _ _) hav.1 hav.2
    case equality op l r m => exact ih.evalBin _ _ _ _ _ _ hsuf hw.1 hw.2 hs (fun a b h => equality_good _ _ _ _ _ _) hav.1 hav.2
    case comparison op l r m => exact ih.evalBin _ _ _ _ _ _ hsuf hw.1 hw.2 hs (fun a b h => compare_good _ _ _ _ _ _) hav.1 hav.2
    case muldiv op l r m => exact ih.evalBin _ _ _ _ _ _ hsuf hw.1 hw.2 hs (fun a b h => mulDiv_good _ _ _ _ _ _) hav.1 hav.2
    case addsub op l r m =>
      obtain ⟨h1, h2⟩ := hav
      obtain ⟨w1, w2⟩ := hw
      pxe l, w1, h1
      pxe r, w2, h2
      simp only [TX_heap, TX_out]
      refine rn_tag_bind id _ _ _ _ _ _ (by cases addSub op l.meta _ _ _ <;> rfl) ?_
      rintro ⟨v, h⟩; rfl
    case indexing c i m =>
      obtain ⟨h1, h2⟩ := hav
      obtain ⟨w1, w2⟩ := hw
      pxe c, w1, h1
      pxe i, w2, h2
      simp only [TX_heap, TX_out]
      refine rn_tag_bind id _ _ _ _ _ _ (by cases indexVal i.meta _ _ _ <;> rfl) ?_
      intro v; rfl
    case call callee args m => exact ih.evalCall _ _ _ _ hsuf hw hs hav.1 hav.2
  · intro cur lf op l r s hsuf w1 w2 hs hop h1 h2
    simp only [evalBin]
    split
    · pxe l, w1, h1
      pxe r, w2, h2
      simp only [TX_out]
      refine rn_tag_bind id _ _ _ _ _ _ (by cases op _ _ <;> rfl) ?_
      intro v; rfl
    · pxe r, w2, h2
      pxe l, w1, h1
      simp only [TX_out]
      refine rn_tag_bind id _ _ _ _ _ _ (by cases op _ _ <;> rfl) ?_
      intro v; rfl
  · intro cur es s hsuf hw hs hav
    cases es <;> simp only [evalList] <;> simp only [avEs] at hav <;> simp only [Exprs.wf, Bool.and_eq_true] at hw
    · rfl
    · rename_i e rest
      obtain ⟨h1, h2⟩ := hav
      obtain ⟨w1, w2⟩ := hw
      pxe e, w1, h1
      rw [ih.evalList _ _ _ hsuf w2 hs h2]
      refine Res.rn_bind_good _ _ _ _ _ (hei.evalList _ _ _ hsuf w2 hs) ?_
      rintro ⟨vs, s2⟩ _; rfl
  · intro cur ks vs acc s hsuf hlen hwk hwv hs hacc hk hv
    cases ks <;> cases vs <;> simp only [evalRecord] <;> simp only [avEs] at hk hv <;> try rfl
    · rename_i k ks v vs
      simp only [Exprs.wf, Bool.and_eq_true] at hwk hwv
      obtain ⟨hk1, hk2⟩ := hk
      obtain ⟨hv1, hv2⟩ := hv
      have hlen' : ks.length ≤ vs.length := by simpa [Exprs.length] using hlen
      have hacc0 := hacc
      pxe k, hwk.1, hk1
      rename_i kv s1
      have hacc1 : ∀ kv ∈ acc, ValOK (InProg prog) s1.heap kv.2 := fun kv hkv => ValOK.mono _ hle (hacc0 kv hkv)
      split
      · rename_i key
        have hle1 := hle
        pxe v, hwv.1, hv1
        rename_i vv s2
        refine ih.evalRecord _ _ _ _ _ hsuf hlen' hwk.2 hwv.2 hs ?_ hk2 hv2
        intro kv2 hkv2
        rcases mem_assocSet _ _ _ _ hkv2 with rfl | hm
        · exact hv
        · exact ValOK.mono _ hle (hacc1 kv2 hm)
      · exact ih.evalRecord _ _ _ _ _ hsuf hlen' hwk.2 hwv.2 hs hacc1 hk2 hv2
  · intro cur callee args s hsuf hwa hs hc ha
    simp only [evalCall, TX_scopes, TX_out]
    have hsg : avE (keysOf X) (stripGroups callee) := avE_stripGroups _ callee hc
    cases hcallee : stripGroups callee
    case var tok vm =>
      rw [hcallee] at hsg
      simp only [avE] at hsg
      simp only []
      split
      · rw [ih.evalList _ _ _ hsuf hwa hs ha]
        refine Res.rn_bind_good _ _ _ _ _ (hei.evalList _ _ _ hsuf hwa hs) ?_
        rintro ⟨vs, s1⟩ _
        simp only [TX_out]
        split
        · split
          · cases cur <;> rfl
          · exact fx_stmtErr_tag _ _ _ _ _
        · cases hcb : callBuiltin tok.lexeme vs s1 with
          | inl r =>
            obtain ⟨v, s'⟩ := r
            rw [callBuiltin_TX_inl X _ _ _ _ _ hcb]; rfl
          | inr t =>
            rw [callBuiltin_TX_inr X _ _ _ _ hcb]
            simp only
            split
            · rfl
            · cases cur <;> rfl
      · rw [lookupVar_addBottom X _ _ hsg]
        split
        · exact fx_stmtErr_tag _ _ _ _ _
        · rename_i rem params hl
          have hrem : rem ≤ prog.length := lookupVar_ok (InProg prog) hs.scopes.2 hl
          rw [ih.bindParams _ _ _ _ _ hsuf hwa hs (by intro kv hkv; simp at hkv) ha]
          refine Res.rn_bind_good _ _ _ _ _ (hei.bindParams _ _ _ _ _ hsuf hwa hs (by intro kv hkv; simp at hkv)) ?_
          rintro ⟨env, s1⟩ ⟨hs1, henv, hle1⟩
          dsimp only at hs1 henv ⊢
          simp only [TX_scopes, TX_out, TX_loops, TX_flags, bodyOf_prefix pre prog rem hrem]
          split
          · rename_i bm body hbo
            have hbs : IsSuffixOf (Stmt.blockStart bm :: body) prog := by rw [← hbo]; exact bodyOf_suffix prog rem
            have hs2 : StOK (InProg prog) prog { s1 with scopes := env :: s1.scopes } := ⟨hs1.heap, hs1.scopes.cons _ henv, hs1.loops⟩
            have e1 : ({ scopes := env :: addBottom X s1.scopes, heap := (TX X s1).heap, out := s1.out, loops := s1.loops, flags := s1.flags,
                         world := (TX X s1).world, gcCount := (TX X s1).gcCount } : St) = TX X { s1 with scopes := env :: s1.scopes } := by
              simp only [TX, addBottom_cons X env hs1.scopes.1]
            rw [e1, ih.callLoop _ _ hbs hs2]
            refine Res.rn_bind_good _ _ _ _ _ (hei.callLoop _ _ hbs hs2) ?_
            rintro ⟨v, s2⟩ _
            simp only [Res.rn, tV, TX, addBottom_length, addBottom_drop]
          · exact fx_unexpected_tag _ _ _
        · exact fx_metaErr_tag _ _ _ _ _
    all_goals exact fx_stmtErr_tag _ _ _ _ _
  · intro cur params args env s hsuf hwa hs henv hav
    cases params <;> cases args <;> simp only [bindParams] <;> simp only [avEs] at hav <;> try rfl
    · rename_i p ps
      refine ih.bindParams _ _ _ _ _ hsuf (by rfl) hs ?_ trivial
      intro kv hkv
      rcases mem_assocSet _ _ _ _ hkv with rfl | hm
      · trivial
      · exact henv kv hm
    · rename_i p ps a rest
      simp only [Exprs.wf, Bool.and_eq_true] at hwa
      obtain ⟨h1, h2⟩ := hav
      have henv0 := henv
      pxe a, hwa.1, h1
      refine ih.bindParams _ _ _ _ _ hsuf hwa.2 hs ?_ h2
      intro kv hkv
      rcases mem_assocSet _ _ _ _ hkv with rfl | hm
      · exact hv
      · exact ValOK.mono _ hle (henv0 kv hm)
  · intro cur s hsuf hs
    simp only [callLoop]
    split
    · rename_i e m rest
      have hst : Stmt.wf (Stmt.ret e m) = true := by
        obtain ⟨p0, rfl⟩ := hsuf
        have := List.all_eq_true.mp hwf (Stmt.ret e m) (by simp)
        exact this
      have hav : avS (keysOf X) (Stmt.ret e m) := avL_head _ (avL_suffix _ hsuf hprog)
      exact ih.eval _ _ _ hsuf hst hs hav
    · rw [ih.exec _ _ hsuf hs]
      refine Res.rn_bind_good _ _ _ _ _ (hei.exec _ _ hsuf hs) ?_
      rintro ⟨c, s1⟩ ⟨hsuf1, hs1, _⟩
      exact ih.callLoop _ _ hsuf1 hs1
  · intro cur s hsuf hs
    cases cur with
    | nil => simp only [exec, TX_out]; exact fx_unexpected_tag _ _ _
    | cons st rest =>
      have hav : avL (keysOf X) (st :: rest) := avL_suffix _ hsuf hprog
      have hst : avS (keysOf X) st := avL_head _ hav
      have hwst : Stmt.wf st = true := by
        obtain ⟨p0, rfl⟩ := hsuf
        exact List.all_eq_true.mp hwf st (by simp)
      have hsufr : IsSuffixOf rest prog := hsuf.tail
      cases st <;> simp only [exec, TX_scopes, TX_out, TX_flags, TX_loops] <;> simp only [avS] at hst <;> simp only [Stmt.wf] at hwst
      case print e m =>
        pxe e, hwst, hst
        rw [printTop_lift (TX X) (TX_lift X)]
        refine Res.rn_bind _ _ _ _ _ ?_
        intro s2; rfl
      case printNoEOL e m =>
        pxe e, hwst, hst
        rw [printTop_lift (TX X) (TX_lift X)]
        refine Res.rn_bind _ _ _ _ _ ?_
        intro s2; rfl
      case expr e m =>
        pxe e, hwst, hst
        rfl
      case assign a m =>
        rw [ih.execAssign _ _ _ hsuf hwst hs hst]
        refine Res.rn_bind _ _ _ _ _ ?_
        intro s2; rfl
      case «if» c m =>
        rw [ih.eval _ c _ hsufr hwst hs hst]
        refine Res.rn_bind_good _ _ _ _ _ (hei.eval _ c _ hsufr hwst hs) ?_
        rintro ⟨v, s1⟩ _
        simp only [TX_flags, TX_out]
        split
        · rfl
        · refine rn_tag_bind id _ _ _ _ _ _ (by cases skipBlockInIf rest _ <;> rfl) ?_
          rintro ⟨c', fl⟩; rfl
        · exact fx_metaErr_tag _ _ _ _ _
      case «else» m =>
        split
        · exact fx_stmtErr_tag _ _ _ _ _
        · refine rn_tag_bind id _ _ _ _ _ _ (by cases skipBlockInIf rest _ <;> rfl) ?_
          rintro ⟨c', fl⟩; rfl
        · rfl
      case funcDef m =>
        refine rn_tagOut _ _ _ _ ?_
        have hpne : prog ≠ [] := by
          obtain ⟨p0, rfl⟩ := hsuf; simp
        have e0 : execFuncDef (pre ++ prog) rest (TX X s) = execFuncDef prog rest (TX X s) := by
          simp only [execFuncDef, getLast_prefix pre prog hpne]
        rw [e0]
        exact execFuncDef_TX X prog rest s (hs.dom prog hprog) (avL_tail _ hav)
      case loop m => simp only [addBottom_length]; rfl
      case cont m =>
        split
        · exact fx_stmtErr_tag _ _ _ _ _
        · simp only [Res.rn, tV, TX, addBottom_length, addBottom_drop]
      case brk m =>
        split
        · refine rn_tag_bind id _ _ _ _ _ _ (by simp only [addBottom_length]; cases breakScan m rest _ <;> rfl) ?_
          intro c'; simp only [Res.rn, tV, TX, addBottom_length, addBottom_drop, id]
        · refine rn_tag_bind id _ _ _ _ _ _ (by cases breakScan m rest _ <;> rfl) ?_
          intro c'; rfl
      case blockStart m => simp only [Res.rn, tV, TX, addBottom_cons X [] hs.scopes.1]
      case blockEnd m =>
        simp only [addBottom_length]
        split
        · exact fx_stmtErr_tag _ _ _ _ _
        · simp only [Res.rn, tV, TX, addBottom_drop]
      case ret e m => exact fx_stmtErr_tag _ _ _ _ _
      case eos m => exact fx_stmtErr_tag _ _ _ _ _
  · intro cur a s hsuf hwa hs hav
    obtain ⟨kind, var, indexes, init⟩ := a
    obtain ⟨hvar, hix, hinit⟩ := hav
    simp only [Assignment.wf, Bool.and_eq_true] at hwa
    obtain ⟨⟨hw1, hw2⟩, hw3⟩ := hwa
    dsimp only at hvar hix hinit hw1 hw2 hw3
    have hdecl : ∀ (s1 : St) (v : Val),
        ((declareVar (addBottom X s1.scopes) var.lexeme v).bind fun sc => .ok { TX X s1 with scopes := sc }) =
        ((declareVar s1.scopes var.lexeme v).bind fun sc => .ok { s1 with scopes := sc }).rn (TX X) := by
      intro s1 v
      rw [declareVar_addBottom X v _ _ hvar]
      cases declareVar s1.scopes var.lexeme v <;> rfl
    simp only [execAssign, TX_scopes, TX_out, TX_heap]
    cases kind
    · cases init with
      | none => exact hdecl s .nil
      | some e =>
        have he := hinit e rfl
        simp only []
        pxe e, hw3, he
        rename_i v s1
        exact hdecl s1 v
    · cases init with
      | none => rfl
      | some e =>
        have he := hinit e rfl
        simp only []
        pxe e, hw3, he
        rename_i v s1
        simp only [TX_scopes, TX_out]
        rw [lookupVar_addBottom X _ _ hvar]
        split
        · exact fx_stmtErr_tag _ _ _ _ _
        · split
          · rw [assignVar_addBottom X v _ _ hvar]
            cases assignVar s1.scopes var.lexeme v <;> rfl
          · rw [ih.evalIndexes _ _ _ hsuf hw2 hs hix]
            refine Res.rn_bind_good _ _ _ _ _ (hei.evalIndexes _ _ _ hsuf hw2 hs) ?_
            rintro ⟨ixs, s2⟩ _
            simp only [TX_scopes, TX_out, TX_heap]
            cases cur with
            | nil => exact fx_unexpected_tag _ _ _
            | cons st rest =>
              simp only []
              rw [lookupVar_addBottom X _ _ hvar]
              split
              · exact fx_stmtErr_tag _ _ _ _ _
              · refine rn_tag_bind id _ _ _ _ _ _ (by cases assignPath (st :: rest) _ ixs v s2.heap <;> rfl) ?_
                intro h; rfl
  · intro cur ixs s hsuf hw hs hav
    cases ixs <;> simp only [evalIndexes] <;> try rfl
    rename_i ix rest
    simp only [List.all_cons, Bool.and_eq_true] at hw
    have h1 : avE (keysOf X) ix := hav ix (by simp)
    have h2 : ∀ e ∈ rest, avE (keysOf X) e := fun e he => hav e (by simp [he])
    pxe ix, hw.1, h1
    rename_i v s1
    split
    · simp only [TX_heap, TX_out]
      split
      · rfl
      · rename_i l hl
        have tl : ∀ (one : Res Index),
            (one.bind fun i1 => (evalIndexes (pre ++ prog) f cur rest (TX X s1)).bind fun x => Res.ok (i1 :: x.fst, x.snd)) =
            Res.rn (tV X) (one.bind fun i1 => (evalIndexes prog f cur rest s1).bind fun x => Res.ok (i1 :: x.fst, x.snd)) := by
          intro one
          cases one with
          | ok i1 =>
            simp only [Res.bind]
            rw [ih.evalIndexes _ _ _ hsuf hw.2 hs h2]
            cases evalIndexes prog f cur rest s1 <;> rfl
          | err e => rfl
          | panic p => rfl
          | fuel => rfl
        exact tl _
    · exact fx_metaErr_tag _ _ _ _ _
end
end Pakhi

namespace Pakhi
theorem pxInv (X : Scope) (pre prog : List Stmt) (hprog : avL (keysOf X) prog) (hwf : progWF prog = true) : ∀ f, PXInv X pre prog f
  | 0 => pxInv_zero X pre prog
  | f+1 => pxInv_succ X pre prog hprog hwf f (pxInv X pre prog hprog hwf f)

/-- **a fragment inside a longer program, after earlier bindings, whole runs**: the later part `prog` of a program `pre ++ prog`
    (well-formed, mentioning none of the names of the leftover bindings `X`, which hold no containers), run from a state all of whose
    function values lie inside `prog`, with `X` added in the outermost scope, proceeds exactly as `prog` run as a program of its own -/
theorem runLoop_px (X : Scope) (hX : NoRefs X) (pre prog : List Stmt) (hprog : avL (keysOf X) prog) (hwf : progWF prog = true) (g : GcMode) :
    ∀ (f k : Nat) (cur : List Stmt) (s : St), IsSuffixOf cur prog → StOK (InProg prog) prog s →
      runLoop (pre ++ prog) g f k cur (TX X s) = (runLoop prog g f k cur s).rn (TX X)
  | 0, _, _, _, _, _ => rfl
  | f+1, k, cur, s, hsuf, hs => by
      have hex := (pxInv X pre prog hprog hwf f).exec cur s hsuf hs
      have he := (evalInv (InProg prog) prog hwf (funcIntro_inProg prog) f).exec cur s hsuf hs
      cases cur with
      | nil => rfl
      | cons st rest =>
        cases st <;> first
          | rfl
          | (simp only [runLoop]
             rw [hex]
             cases hr : exec prog f _ s with
             | ok x =>
               obtain ⟨cur', s1⟩ := x
               rw [hr] at he
               obtain ⟨h1, hs1, _⟩ := he
               simp only [Res.rn_ok, tV, TX_heap, TX_scopes, collect_addBottom X hX]
               by_cases hf : g.fires k s1.heap = true
               · simp only [hf, if_true]
                 obtain ⟨c1, c2⟩ := collect_ok (InProg prog) hs1.heap hs1.scopes
                 cases hc : collect s1.scopes s1.heap with
                 | ok h' =>
                   simp only []
                   obtain ⟨d1, d2, _⟩ := c2 h' hc
                   have hs2 := hs1.withHeap (InProg prog) d1 d2
                   exact runLoop_px X hX pre prog hprog hwf g f (k+1) cur' { s1 with heap := h', gcCount := s1.gcCount + 1 } h1 ⟨hs2.heap, hs2.scopes, hs2.loops⟩
                 | panic p => rfl
                 | fuel => rfl
               · simp only [hf]
                 exact runLoop_px X hX pre prog hprog hwf g f (k+1) cur' s1 h1 hs1
             | err e => rfl
             | panic p => rfl
             | fuel => rfl)
#print axioms runLoop_px
end Pakhi

namespace Pakhi
section
variable (σ : Meta → Meta) (K : List Str)

mutual
theorem avE_rel : ∀ (e : Expr), avE K e → avE K (relE σ e)
  | .indexing e i m, h => by simp only [relE, avE] at h ⊢; exact ⟨avE_rel e h.1, avE_rel i h.2⟩
  | .or l r m, h => by simp only [relE, avE] at h ⊢; exact ⟨avE_rel l h.1, avE_rel r h.2⟩
  | .and l r m, h => by simp only [relE, avE] at h ⊢; exact ⟨avE_rel l h.1, avE_rel r h.2⟩
  | .equality op l r m, h => by simp only [relE, avE] at h ⊢; exact ⟨avE_rel l h.1, avE_rel r h.2⟩
  | .comparison op l r m, h => by simp only [relE, avE] at h ⊢; exact ⟨avE_rel l h.1, avE_rel r h.2⟩
  | .addsub op l r m, h => by simp only [relE, avE] at h ⊢; exact ⟨avE_rel l h.1, avE_rel r h.2⟩
  | .muldiv op l r m, h => by simp only [relE, avE] at h ⊢; exact ⟨avE_rel l h.1, avE_rel r h.2⟩
  | .unary op r m, h => by simp only [relE, avE] at h ⊢; exact avE_rel r h
  | .call f args m, h => by simp only [relE, avE] at h ⊢; exact ⟨avE_rel f h.1, avEs_rel args h.2⟩
  | .nil m, _ => by simp only [relE, avE]
  | .bool b m, _ => by simp only [relE, avE]
  | .num b m, _ => by simp only [relE, avE]
  | .str s m, _ => by simp only [relE, avE]
  | .list es m, h => by simp only [relE, avE] at h ⊢; exact avEs_rel es h
  | .record ks vs m, h => by simp only [relE, avE] at h ⊢; exact ⟨avEs_rel ks h.1, avEs_rel vs h.2⟩
  | .var tok m, h => by simp only [relE, avE, relTok_lexeme] at h ⊢; exact h
  | .group e m, h => by simp only [relE, avE] at h ⊢; exact avE_rel e h
theorem avEs_rel : ∀ (es : Exprs), avEs K es → avEs K (relEs σ es)
  | .nil, _ => by simp only [relEs, avEs]
  | .cons e es, h => by simp only [relEs, avEs] at h ⊢; exact ⟨avE_rel e h.1, avEs_rel es h.2⟩
end

theorem avL_rel (l : List Stmt) (h : avL K l) : avL K (relL σ l) := by
  intro st hst
  obtain ⟨st0, hm, rfl⟩ := List.mem_map.mp hst
  have h0 := h st0 hm
  cases st0 <;> simp only [relS, avS] at h0 ⊢ <;> try exact avE_rel σ K _ h0
  rename_i a m
  obtain ⟨h1, h2, h3⟩ := h0
  refine ⟨h1, ?_, ?_⟩
  · intro e he
    simp only [relA] at he
    obtain ⟨e0, he0, rfl⟩ := List.mem_map.mp he
    exact avE_rel σ K e0 (h2 e0 he0)
  · intro e he
    simp only [relA] at he
    cases hi : a.init with
    | none => simp [hi] at he
    | some e0 => simp [hi] at he; subst he; exact avE_rel σ K e0 (h3 e0 hi)

mutual
theorem wf_rel : ∀ (e : Expr), (relE σ e).wf = e.wf
  | .indexing e i m => by simp only [relE, Expr.wf, wf_rel e, wf_rel i]
  | .or l r m => by simp only [relE, Expr.wf, wf_rel l, wf_rel r]
  | .and l r m => by simp only [relE, Expr.wf, wf_rel l, wf_rel r]
  | .equality op l r m => by simp only [relE, Expr.wf, wf_rel l, wf_rel r]
  | .comparison op l r m => by simp only [relE, Expr.wf, wf_rel l, wf_rel r]
  | .addsub op l r m => by simp only [relE, Expr.wf, wf_rel l, wf_rel r]
  | .muldiv op l r m => by simp only [relE, Expr.wf, wf_rel l, wf_rel r]
  | .unary op r m => by simp only [relE, Expr.wf, wf_rel r]
  | .call f args m => by simp only [relE, Expr.wf, wfs_rel args]
  | .nil m => rfl
  | .bool b m => rfl
  | .num b m => rfl
  | .str s m => rfl
  | .list es m => by simp only [relE, Expr.wf, wfs_rel es]
  | .record ks vs m => by simp only [relE, Expr.wf, wfs_rel ks, wfs_rel vs, len_rel ks, len_rel vs]
  | .var tok m => rfl
  | .group e m => by simp only [relE, Expr.wf, wf_rel e]
theorem wfs_rel : ∀ (es : Exprs), (relEs σ es).wf = es.wf
  | .nil => rfl
  | .cons e es => by simp only [relEs, Exprs.wf, wf_rel e, wfs_rel es]
theorem len_rel : ∀ (es : Exprs), (relEs σ es).length = es.length
  | .nil => rfl
  | .cons e es => by simp only [relEs, Exprs.length, len_rel es]
end
end
end Pakhi

namespace Pakhi
theorem progWF_rel (σ : Meta → Meta) (prog : List Stmt) : progWF (relL σ prog) = progWF prog := by
  simp only [progWF, List.all_map]
  congr 1
  funext st
  cases st <;> simp only [Function.comp, relS, Stmt.wf, wf_rel]
  rename_i a m
  obtain ⟨k, v, ixs, init⟩ := a
  simp only [relA, Assignment.wf, List.all_map]
  have h1 : (ixs.all (Expr.wf ∘ relE σ)) = ixs.all Expr.wf := by
    congr 1; funext e; exact wf_rel σ e
  rw [h1]
  cases init <;> simp [wf_rel]
end Pakhi
