/-
  The collector under the state invariant: marking and sweeping never panic and keep the heap well formed.
-/
import Pakhi.Lemmas.Inv
import Pakhi.Lemmas.Collect
namespace Pakhi
section
variable (P : Nat → List Str → Prop)

/-! ### the collector under the invariant: no panic, invariant preserved -/

def MarksFit (h : Heap) (m : Marks) : Prop := m.lists.length = h.lists.length ∧ m.records.length = h.records.length

theorem MarksFit.of_spec {h : Heap} {vs : List Val} {m m' : Marks} (hf : MarksFit h m) (s : MarkSpec h vs m m') : MarksFit h m' :=
  ⟨by rw [s.lenL]; exact hf.1, by rw [s.lenR]; exact hf.2⟩

theorem MarksFit.setL {h : Heap} {m : Marks} (hf : MarksFit h m) (i : Nat) : MarksFit h { m with lists := m.lists.set i true } :=
  ⟨by simp [hf.1], hf.2⟩
theorem MarksFit.setR {h : Heap} {m : Marks} (hf : MarksFit h m) (i : Nat) : MarksFit h { m with records := m.records.set i true } :=
  ⟨hf.1, by simp [hf.2]⟩

theorem mark_np {h : Heap} (hh : HeapOK P h) : ∀ (f : Nat),
    (∀ vs m p, MarksFit h m → (∀ v ∈ vs, ValOK P h v) → markVals h f vs m ≠ .panic p) ∧
    (∀ v m p, MarksFit h m → ValOK P h v → markVal h f v m ≠ .panic p)
  | 0 => by simp [markVals, markVal]
  | f+1 => by
      obtain ⟨ih1, ih2⟩ := mark_np hh f
      constructor
      · intro vs m p hf hvs
        cases vs with
        | nil => simp [markVals]
        | cons v vs =>
          simp only [markVals]
          cases h1 : markVal h f v m with
          | ok m1 =>
            simp only
            exact ih1 vs m1 p (hf.of_spec ((mark_spec h f).2 v m m1 h1)) (fun x hx => hvs x (by simp [hx]))
          | panic q => simp only; intro he; cases he; exact ih2 v m p hf (hvs v (by simp)) h1
          | fuel => simp
      · intro v m p hf hv
        cases v with
        | list i =>
          obtain ⟨l, hl1, hl2⟩ := list_lookup P hh hv
          have hi : i < m.lists.length := by rw [hf.1]; exact hv
          simp only [markVal]
          have : m.lists[i]? = some m.lists[i] := by simp [hi]
          rw [this]
          cases m.lists[i] with
          | true => simp
          | false => simp only [hl1]; exact ih1 l _ p (hf.setL i) hl2
        | record i =>
          obtain ⟨r, hr1, hr2⟩ := record_lookup P hh hv
          have hi : i < m.records.length := by rw [hf.2]; exact hv
          simp only [markVal]
          have : m.records[i]? = some m.records[i] := by simp [hi]
          rw [this]
          cases m.records[i] with
          | true => simp
          | false =>
            simp only [hr1]
            exact ih1 _ _ p (hf.setR i) (by intro v hv; simp at hv; obtain ⟨k, hk⟩ := hv; exact hr2 (k, v) hk)
        | num _ => simp [markVal]
        | bool _ => simp [markVal]
        | str _ => simp [markVal]
        | func _ _ => simp [markVal]
        | nil => simp [markVal]

theorem markRoots_np {h : Heap} (hh : HeapOK P h) : ∀ (f : Nat) (vs : List Val) (m : Marks) (p : String),
    MarksFit h m → (∀ v ∈ vs, ValOK P h v) → markRoots h f vs m ≠ .panic p
  | 0, _, _, _, _, _ => by simp [markRoots]
  | f+1, [], _, _, _, _ => by simp [markRoots]
  | f+1, v :: vs, m, p, hf, hvs => by
      have hrest : ∀ x ∈ vs, ValOK P h x := fun x hx => hvs x (by simp [hx])
      cases v with
      | list i =>
        have hv := hvs (.list i) (by simp)
        obtain ⟨l, hl1, hl2⟩ := list_lookup P hh hv
        have hi : i < m.lists.length := by rw [hf.1]; exact hv
        have : m.lists[i]? = some m.lists[i] := by simp [hi]
        simp only [markRoots, this, hl1]
        cases h1 : markVals h f l { m with lists := m.lists.set i true } with
        | ok m1 =>
          simp only
          exact markRoots_np hh f vs m1 p ((hf.setL i).of_spec ((mark_spec h f).1 _ _ m1 h1)) hrest
        | panic q => simp only; intro he; cases he; exact (mark_np P hh f).1 l _ p (hf.setL i) hl2 h1
        | fuel => simp
      | record i =>
        have hv := hvs (.record i) (by simp)
        obtain ⟨r, hr1, hr2⟩ := record_lookup P hh hv
        have hi : i < m.records.length := by rw [hf.2]; exact hv
        have : m.records[i]? = some m.records[i] := by simp [hi]
        simp only [markRoots, this, hr1]
        have hch : ∀ v ∈ r.map (·.2), ValOK P h v := by
          intro v hv; simp at hv; obtain ⟨k, hk⟩ := hv; exact hr2 (k, v) hk
        cases h1 : markVals h f (r.map (·.2)) { m with records := m.records.set i true } with
        | ok m1 =>
          simp only
          exact markRoots_np hh f vs m1 p ((hf.setR i).of_spec ((mark_spec h f).1 _ _ m1 h1)) hrest
        | panic q => simp only; intro he; cases he; exact (mark_np P hh f).1 _ _ p (hf.setR i) hch h1
        | fuel => simp
      | num _ => simp only [markRoots]; exact markRoots_np hh f vs m p hf hrest
      | bool _ => simp only [markRoots]; exact markRoots_np hh f vs m p hf hrest
      | str _ => simp only [markRoots]; exact markRoots_np hh f vs m p hf hrest
      | func _ _ => simp only [markRoots]; exact markRoots_np hh f vs m p hf hrest
      | nil => simp only [markRoots]; exact markRoots_np hh f vs m p hf hrest

theorem rootVals_ok {h : Heap} {scs : List Scope} (hs : ∀ sc ∈ scs, ScopeOK P h sc) : ∀ v ∈ rootVals scs, ValOK P h v := by
  intro v hv
  simp only [rootVals, List.mem_append, List.mem_filter, List.mem_flatMap, List.mem_map] at hv
  rcases hv with ⟨⟨sc, hsc, kv, hkv, rfl⟩, _⟩ | ⟨⟨sc, hsc, kv, hkv, rfl⟩, _⟩
  · exact hs sc hsc kv hkv
  · exact hs sc hsc kv hkv

/-- what a sweep does to one arena, slot by slot -/
theorem sweep_slot {α : Type} (empty : α) (ms : List Bool) (arena : List α) (free : List Nat) (hlen : ms.length = arena.length) :
    (sweepArena empty 0 ms arena free).1.length = arena.length ∧
    (∀ x ∈ (sweepArena empty 0 ms arena free).1, x ∈ arena ∨ x = empty) ∧
    (∀ j ∈ (sweepArena empty 0 ms arena free).2, j ∈ free ∨ j < arena.length) := by
  have s := sweepArena_spec empty ms 0 arena free
  refine ⟨s.len, ?_, ?_⟩
  · intro x hx
    obtain ⟨j, hj, rfl⟩ := List.getElem_of_mem hx
    have hj' : j < ms.length := by rw [hlen, ← s.len]; exact hj
    cases hb : ms[j] with
    | true =>
      have := s.kept j (by simp [hj', hb])
      simp only [Nat.zero_add] at this
      left
      have h2 : arena[j]? = some ((sweepArena empty 0 ms arena free).1[j]) := by rw [← this]; simp [hj]
      exact List.mem_of_getElem? h2
    | false =>
      have := s.emptied j (by simp [hj', hb]) (by omega)
      simp only [Nat.zero_add] at this
      right
      have h2 : some ((sweepArena empty 0 ms arena free).1[j]) = some empty := by rw [← this]; simp [hj]
      exact Option.some.inj h2
  · intro j hj
    rcases s.sub j hj with h1 | ⟨k, hk, rfl⟩
    · exact Or.inl h1
    · right
      have := (List.getElem?_eq_some_iff.mp hk).1
      omega

theorem collect_ok {h : Heap} {scs : List Scope} (hh : HeapOK P h) (hs : ScopesOK P h scs) :
    (∀ p, collect scs h ≠ .panic p) ∧
    (∀ h', collect scs h = .ok h' → HeapOK P h' ∧ HeapLe h h' ∧ HeapLe h' h) := by
  constructor
  · intro p
    simp only [collect]
    have := markRoots_np P hh (markFuel h (rootVals scs)) (rootVals scs) (Marks.init h) p
      ⟨by simp [Marks.init], by simp [Marks.init]⟩ (rootVals_ok P hs.2)
    cases hm : markRoots h (markFuel h (rootVals scs)) (rootVals scs) (Marks.init h) <;> simp_all
  · intro h' hc
    obtain ⟨m, _, rfl, hl, hr, _⟩ := collect_unfold scs h h' hc
    obtain ⟨e1, e2, e3, e4⟩ := sweep_lists h m
    obtain ⟨a1, a2, a3⟩ := sweep_slot ([] : List Val) m.lists h.lists h.freeLists hl
    obtain ⟨b1, b2, b3⟩ := sweep_slot ([] : RecordObj) m.records h.records h.freeRecords hr
    rw [← e1] at a1 a2; rw [← e2] at a3; rw [← e3] at b1 b2; rw [← e4] at b3
    have le1 : HeapLe h { (sweep h m) with allocCount := 0 } := ⟨by simp [a1], by simp [b1]⟩
    have le2 : HeapLe { (sweep h m) with allocCount := 0 } h := ⟨by simp [a1], by simp [b1]⟩
    refine ⟨⟨?_, ?_, ?_, ?_⟩, le1, le2⟩
    · intro l hl' v hv
      rcases a2 l hl' with h1 | h1
      · exact ValOK.mono P le1 (hh.lists l h1 v hv)
      · subst h1; simp at hv
    · intro r hr' kv hkv
      rcases b2 r hr' with h1 | h1
      · exact ValOK.mono P le1 (hh.records r h1 kv hkv)
      · subst h1; simp at hkv
    · intro j hj
      show j < (sweep h m).lists.length
      rw [a1]
      rcases a3 j hj with h1 | h1
      · exact hh.freeL j h1
      · exact h1
    · intro j hj
      show j < (sweep h m).records.length
      rw [b1]
      rcases b3 j hj with h1 | h1
      · exact hh.freeR j h1
      · exact h1
end
end Pakhi
