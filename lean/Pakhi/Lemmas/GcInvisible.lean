/-
  Program-level invisibility of garbage collection: runs under any two collection schedules agree on everything observable
  (helper lemmas for C07 / C08 / C19).
-/
import Pakhi.Lemmas.RenEval
import Pakhi.Lemmas.GcInv
namespace Pakhi

theorem mem_rootVals {scopes : List Scope} {sc : Scope} {kv : Str × Val} (hs : sc ∈ scopes) (hk : kv ∈ sc) (hr : isRef kv.2 = true) :
    kv.2 ∈ rootVals scopes := by
  have hmem : kv.2 ∈ scopes.flatMap (fun s => s.map (·.2)) := by
    simp only [List.mem_flatMap, List.mem_map]
    exact ⟨sc, hs, kv, hk, rfl⟩
  cases hv : kv.2 <;> simp_all [rootVals, isRef]

/-- what a completed collection does (restated from `Props/C07` for use below) -/
theorem collect_facts (scopes : List Scope) (h h' : Heap) (hc : collect scopes h = .ok h') :
    h'.lists.length = h.lists.length ∧ h'.records.length = h.records.length ∧
    (∀ i, Reach h (rootVals scopes) (.list i) → h'.lists[i]? = h.lists[i]?) ∧
    (∀ i, Reach h (rootVals scopes) (.record i) → h'.records[i]? = h.records[i]?) ∧
    (∀ j, j ∈ h'.freeLists → j ∈ h.freeLists ∨ (¬ Reach h (rootVals scopes) (.list j) ∧ j < h.lists.length)) ∧
    (∀ j, j ∈ h'.freeRecords → j ∈ h.freeRecords ∨ (¬ Reach h (rootVals scopes) (.record j) ∧ j < h.records.length)) ∧
    (h.freeLists.Nodup → h'.freeLists.Nodup) ∧ (h.freeRecords.Nodup → h'.freeRecords.Nodup) := by
  obtain ⟨m, _, rfl, hl, hr, hex⟩ := collect_unfold scopes h h' hc
  have sl := sweepArena_spec ([] : List Val) m.lists 0 h.lists h.freeLists
  have sr := sweepArena_spec ([] : RecordObj) m.records 0 h.records h.freeRecords
  obtain ⟨e1, e2, e3, e4⟩ := sweep_lists h m
  refine ⟨by simp [e1, sl.len], by simp [e3, sr.len], ?_, ?_, ?_, ?_, ?_, ?_⟩
  · intro i hi
    have hm := (isMarked_list_iff m i).mp ((hex _).mpr hi)
    have := sl.kept i hm
    simpa [e1] using this
  · intro i hi
    have hm := (isMarked_record_iff m i).mp ((hex _).mpr hi)
    have := sr.kept i hm
    simpa [e3] using this
  · intro j hj
    rcases sl.sub j (by simpa [e2] using hj) with h1 | ⟨k, hk, rfl⟩
    · exact Or.inl h1
    · right
      refine ⟨?_, ?_⟩
      · intro hreach
        have := (isMarked_list_iff m (0 + k)).mp ((hex _).mpr hreach)
        simp [hk] at this
      · have := (List.getElem?_eq_some_iff.mp hk).1; omega
  · intro j hj
    rcases sr.sub j (by simpa [e4] using hj) with h1 | ⟨k, hk, rfl⟩
    · exact Or.inl h1
    · right
      refine ⟨?_, ?_⟩
      · intro hreach
        have := (isMarked_record_iff m (0 + k)).mp ((hex _).mpr hreach)
        simp [hk] at this
      · have := (List.getElem?_eq_some_iff.mp hk).1; omega
  · intro hn; simpa [e2] using sl.nodup hn
  · intro hn; simpa [e4] using sr.nodup hn

/-- **a collection on one side keeps the two states related** (after forgetting the pairs of the renaming whose
    right-hand slot is unreachable — those are exactly the ones the collection may recycle) -/
theorem collect_rel {ρ : Ren} {s s' : St} (hs : SRel ρ s s') {h2 : Heap} (hc : collect s'.scopes s'.heap = .ok h2) (n : Nat) :
    ∃ ρ', SRel ρ' s { s' with heap := h2, gcCount := n } := by
  obtain ⟨c1, c2, c3, c4, c5, c6, c7, c8⟩ := collect_facts s'.scopes s'.heap h2 hc
  let ρ' : Ren := ⟨fun i j => ρ.L i j ∧ Reach s'.heap (rootVals s'.scopes) (.list j),
                   fun i j => ρ.R i j ∧ Reach s'.heap (rootVals s'.scopes) (.record j)⟩
  -- related values with a reachable right-hand side are related under ρ'
  have vrel : ∀ v v', VRel ρ v v' → (isRef v' = true → Reach s'.heap (rootVals s'.scopes) v') → VRel ρ' v v' := by
    intro v v' hv hr
    cases v <;> cases v' <;> simp only [VRel] at hv ⊢ <;> (try exact hv)
    · exact ⟨hv, hr rfl⟩
    · exact ⟨hv, hr rfl⟩
  have hr := hs.heap
  refine ⟨ρ', ?_, ?_, hs.out, hs.loops, hs.flags, hs.world⟩
  · -- scopes
    have : ∀ (a b : List Scope), ScRel ρ a b → (∀ sc ∈ b, sc ∈ s'.scopes) → ScRel ρ' a b := by
      intro a b hab
      induction hab with
      | nil => intro _; exact .nil
      | @cons sc sc' _ _ h1 _ ih =>
        intro hsub
        refine .cons ?_ (ih (fun x hx => hsub x (by simp [hx])))
        have hsc : sc' ∈ s'.scopes := hsub sc' (by simp)
        have : ∀ (x y : Scope), All2 (ERel ρ) x y → (∀ kv ∈ y, kv ∈ sc') → All2 (ERel ρ') x y := by
          intro x y hxy
          induction hxy with
          | nil => intro _; exact .nil
          | @cons e e' _ _ g1 _ ih2 =>
            intro hsub2
            refine .cons ⟨g1.1, vrel _ _ g1.2 (fun hrf => ?_)⟩ (ih2 (fun kv hkv => hsub2 kv (by simp [hkv])))
            exact Reach.root (mem_rootVals hsc (hsub2 e' (by simp)) hrf) hrf
        exact this sc sc' h1 (fun _ h => h)
    exact this s.scopes s'.scopes hs.scopes (fun _ h => h)
  · -- heaps
    refine ⟨fun i j j' a b => hr.funL i j j' a.1 b.1, fun i i' j a b => hr.injL i i' j a.1 b.1,
      fun i j j' a b => hr.funR i j j' a.1 b.1, fun i i' j a b => hr.injR i i' j a.1 b.1, ?_, ?_, ?_, ?_, ?_, ?_, ?_, ?_⟩
    · intro i j ⟨hij, hreach⟩
      obtain ⟨l, l', e1, e2, e3⟩ := hr.lists i j hij
      refine ⟨l, l', e1, by show h2.lists[j]? = some l'; rw [c3 j hreach]; exact e2, ?_⟩
      have hch : ∀ x' ∈ l', isRef x' = true → Reach s'.heap (rootVals s'.scopes) x' := by
        intro x' hx' hrf
        exact Reach.step hreach (by simp [children, e2, hx']) hrf
      clear e1 e2
      induction e3 with
      | nil => exact .nil
      | @cons x x' _ _ g1 _ ih => exact .cons (vrel _ _ g1 (hch x' (by simp))) (ih (fun y hy => hch y (by simp [hy])))
    · intro i j ⟨hij, hreach⟩
      obtain ⟨r, r', e1, e2, e3⟩ := hr.records i j hij
      refine ⟨r, r', e1, by show h2.records[j]? = some r'; rw [c4 j hreach]; exact e2, ?_⟩
      have hch : ∀ kv ∈ r', isRef kv.2 = true → Reach s'.heap (rootVals s'.scopes) kv.2 := by
        intro kv hkv hrf
        exact Reach.step hreach (by simp only [children, e2, Option.getD_some, List.mem_map]; exact ⟨kv, hkv, rfl⟩) hrf
      clear e1 e2
      induction e3 with
      | nil => exact .nil
      | @cons x x' _ _ g1 _ ih => exact .cons ⟨g1.1, vrel _ _ g1.2 (hch x' (by simp))⟩ (ih (fun y hy => hch y (by simp [hy])))
    · intro i j ⟨hij, hreach⟩
      refine ⟨(hr.notFreeL i j hij).1, fun hm => ?_⟩
      rcases c5 j hm with h1 | ⟨h1, _⟩
      · exact (hr.notFreeL i j hij).2 h1
      · exact h1 hreach
    · intro i j ⟨hij, hreach⟩
      refine ⟨(hr.notFreeR i j hij).1, fun hm => ?_⟩
      rcases c6 j hm with h1 | ⟨h1, _⟩
      · exact (hr.notFreeR i j hij).2 h1
      · exact h1 hreach
    · refine ⟨hr.freeBL.1, fun j hj => ?_⟩
      show j < h2.lists.length
      rw [c1]
      rcases c5 j hj with h1 | ⟨_, h1⟩
      · exact hr.freeBL.2 j h1
      · exact h1
    · refine ⟨hr.freeBR.1, fun j hj => ?_⟩
      show j < h2.records.length
      rw [c2]
      rcases c6 j hj with h1 | ⟨_, h1⟩
      · exact hr.freeBR.2 j h1
      · exact h1
    · exact ⟨hr.nodupL.1, c7 hr.nodupL.2⟩
    · exact ⟨hr.nodupR.1, c8 hr.nodupR.2⟩
end Pakhi

namespace Pakhi
section
variable (prog : List Stmt)

theorem evalRen : ∀ f, EvalRen prog f
  | 0 => evalRen_zero prog
  | f+1 =>
    have ih := evalRen f
    { eval := fun cur e s s' ρ hs => ren_eval prog f ih cur e s s' ρ hs
      evalBin := fun cur lf op l r s s' ρ hop hs => ren_evalBin prog f ih cur lf op l r s s' ρ hop hs
      evalList := fun cur es s s' ρ hs => ren_evalList prog f ih cur es s s' ρ hs
      evalRecord := fun cur ks vs acc acc' s s' ρ ha hs => ren_evalRecord prog f ih cur ks vs acc acc' s s' ρ ha hs
      evalCall := fun cur callee args s s' ρ hs => ren_evalCall prog f ih cur callee args s s' ρ hs
      bindParams := fun cur params args env env' s s' ρ he hs => ren_bindParams prog f ih cur params args env env' s s' ρ he hs
      callLoop := fun cur s s' ρ hs => ren_callLoop prog f ih cur s s' ρ hs
      exec := fun cur s s' ρ hs => ren_exec prog f ih cur s s' ρ hs
      execAssign := fun cur a s s' ρ hs => ren_execAssign prog f ih cur a s s' ρ hs
      evalIndexes := fun cur ixs s s' ρ hs => ren_evalIndexes prog f ih cur ixs s s' ρ hs }

/-- observable agreement of a collection-free run (left) with a run under some collection schedule (right); when the right
    run stops out of fuel or in a panic nothing is claimed (panics are excluded by `C13.run_never_panics`) -/
def ObsRel (r r' : Res St) : Prop :=
  match r, r' with
  | _, .panic _ => True
  | _, .fuel => True
  | .ok a, .ok b => ∃ ρ, SRel ρ a b
  | .err e, .err e' => e = e'
  | _, _ => False

theorem runLoop_rel (g : GcMode) : ∀ (F k k' : Nat) (cur : List Stmt) (s s' : St) (ρ : Ren), SRel ρ s s' →
    ObsRel (runLoop prog .never F k cur s) (runLoop prog g F k' cur s')
  | 0, _, _, _, _, _, _, _ => by simp [runLoop, ObsRel]
  | F+1, k, k', cur, s, s', ρ, hs => by
      have hnf : ∀ k h, GcMode.fires .never k h = false := fun _ _ => rfl
      simp only [runLoop, hnf]
      split
      · exact ⟨ρ, hs⟩
      · exact ⟨ρ, hs⟩
      · have he := (evalRen prog F).exec cur s s' ρ hs
        cases hx : exec prog F cur s <;> cases hx' : exec prog F cur s' <;> rw [hx, hx'] at he <;> simp only [RelRes] at he <;>
          (try exact he.elim)
        · rename_i x x'
          obtain ⟨c, s1⟩ := x
          obtain ⟨c', s1'⟩ := x'
          obtain ⟨ρ1, _, hc, hs1⟩ := he
          have hc : c = c' := hc
          have hs1 : SRel ρ1 s1 s1' := hs1
          subst hc
          simp only [Bool.false_eq_true, if_false]
          split
          · cases hcol : collect s1'.scopes s1'.heap with
            | ok h2 =>
              obtain ⟨ρ2, hs2⟩ := collect_rel hs1 hcol (s1'.gcCount + 1)
              exact runLoop_rel g F (k+1) (k'+1) c s1 _ ρ2 hs2
            | panic p => simp [ObsRel]
            | fuel => simp [ObsRel]
          · exact runLoop_rel g F (k+1) (k'+1) c s1 s1' ρ1 hs1
        · simp [ObsRel, he]
        · simp [ObsRel]
        · simp [ObsRel]

theorem sRel_init (w : World) : SRel ⟨fun _ _ => False, fun _ _ => False⟩ (St.init w) (St.init w) := by
  refine ⟨?_, ?_, rfl, rfl, rfl, rfl⟩
  · exact .cons (.cons ⟨rfl, rfl⟩ .nil) .nil
  · refine ⟨?_, ?_, ?_, ?_, ?_, ?_, ?_, ?_, ?_, ?_, ?_, ?_⟩ <;> simp [St.init, Heap.empty]

/-- two terminated runs of one program from the initial state under any two collection schedules agree on everything
    observable: both end normally with the same output and the same world (file tree, remaining stdin), or both stop with
    the same error (class, line, file, message, output so far) -/
theorem gc_schedules_agree (g1 g2 : GcMode) (F : Nat) (w : World) (r1 r2 : Res St)
    (h1 : runLoop prog g1 F 0 prog (St.init w) = r1) (h2 : runLoop prog g2 F 0 prog (St.init w) = r2)
    (hn1 : r1 ≠ .fuel ∧ ∀ p, r1 ≠ .panic p) (hn2 : r2 ≠ .fuel ∧ ∀ p, r2 ≠ .panic p) :
    (∃ s1 s2, r1 = .ok s1 ∧ r2 = .ok s2 ∧ s1.out = s2.out ∧ s1.world = s2.world) ∨ (∃ e, r1 = .err e ∧ r2 = .err e) := by
  have o1 := runLoop_rel prog g1 F 0 0 prog _ _ _ (sRel_init w)
  have o2 := runLoop_rel prog g2 F 0 0 prog _ _ _ (sRel_init w)
  rw [h1] at o1; rw [h2] at o2
  cases r1 with
  | ok s1 =>
    cases hr0 : runLoop prog .never F 0 prog (St.init w) with
    | ok s0 =>
      rw [hr0] at o1 o2
      cases r2 with
      | ok s2 =>
        obtain ⟨ρa, ha⟩ := o1; obtain ⟨ρb, hb⟩ := o2
        exact Or.inl ⟨s1, s2, rfl, rfl, by rw [← ha.out, hb.out], by rw [← ha.world, hb.world]⟩
      | err e => simp [ObsRel] at o2
      | panic p => exact (hn2.2 p rfl).elim
      | fuel => exact (hn2.1 rfl).elim
    | err e => rw [hr0] at o1; simp [ObsRel] at o1
    | panic p => rw [hr0] at o1; simp [ObsRel] at o1
    | fuel => rw [hr0] at o1; simp [ObsRel] at o1
  | err e1 =>
    cases hr0 : runLoop prog .never F 0 prog (St.init w) with
    | err e0 =>
      rw [hr0] at o1 o2
      cases r2 with
      | err e2 =>
        simp only [ObsRel] at o1 o2
        exact Or.inr ⟨e1, rfl, by rw [← o2, o1]⟩
      | ok s => simp [ObsRel] at o2
      | panic p => exact (hn2.2 p rfl).elim
      | fuel => exact (hn2.1 rfl).elim
    | ok s => rw [hr0] at o1; simp [ObsRel] at o1
    | panic p => rw [hr0] at o1; simp [ObsRel] at o1
    | fuel => rw [hr0] at o1; simp [ObsRel] at o1
  | panic p => exact (hn1.2 p rfl).elim
  | fuel => exact (hn1.1 rfl).elim
end
end Pakhi
