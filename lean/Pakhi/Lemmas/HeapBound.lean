/- C08: the heap stays bounded over whole runs.  `HB`: what evaluation can do to the arenas (slots in use grow by at most the
   allocation units spent; an arena grows only when it has no free slot left), proved for all ten evaluator functions without any
   hypothesis (`hbInv`, macro-driven like `OutMono.lean`); `runLoop_never_hb`, `native_run_bounded`.  Helper lemmas for Props/C08. -/
import Pakhi.Lemmas.OutMono
import Pakhi.Lemmas.Collect
namespace Pakhi

/-- slots in use (as an integer: no assumption on the free list is needed) -/
def usedL (h : Heap) : Int := (h.lists.length : Int) - h.freeLists.length
def usedR (h : Heap) : Int := (h.records.length : Int) - h.freeRecords.length

/-- what evaluation can do to the arenas: slots in use grow by at most the allocation units spent, and an arena grows
    only when it has no free slot left — so `len ≤ max n0 used` is preserved, for every `n0` -/
structure HB (h h' : Heap) : Prop where
  cnt : h.allocCount ≤ h'.allocCount
  usedL : usedL h' + h.allocCount ≤ usedL h + h'.allocCount
  usedR : usedR h' + h.allocCount ≤ usedR h + h'.allocCount
  capL : ∀ n0 : Int, (h.lists.length : Int) ≤ max n0 (Pakhi.usedL h) → (h'.lists.length : Int) ≤ max n0 (Pakhi.usedL h')
  capR : ∀ n0 : Int, (h.records.length : Int) ≤ max n0 (Pakhi.usedR h) → (h'.records.length : Int) ≤ max n0 (Pakhi.usedR h')

theorem HB.refl (h : Heap) : HB h h := ⟨Nat.le_refl _, by omega, by omega, fun _ x => x, fun _ x => x⟩
theorem HB.trans {a b c : Heap} (h1 : HB a b) (h2 : HB b c) : HB a c :=
  ⟨Nat.le_trans h1.cnt h2.cnt, by have := h1.usedL; have := h2.usedL; have := h1.cnt; have := h2.cnt; omega,
   by have := h1.usedR; have := h2.usedR; have := h1.cnt; have := h2.cnt; omega,
   fun n0 x => h2.capL n0 (h1.capL n0 x), fun n0 x => h2.capR n0 (h1.capR n0 x)⟩

theorem hb_allocList (h : Heap) (l : List Val) : HB h (h.allocList l).2 := by
  cases hf : h.freeLists with
  | nil =>
    refine ⟨?_, ?_, ?_, ?_, ?_⟩ <;> simp only [Heap.allocList, hf, usedL, usedR, List.length_append, List.length_cons, List.length_nil] <;> try omega
    all_goals (intro n0 hx; first | exact hx | (simp only [hf, List.length_nil] at hx ⊢; omega))
  | cons i rest =>
    refine ⟨?_, ?_, ?_, ?_, ?_⟩ <;> simp only [Heap.allocList, hf, usedL, usedR, List.length_set, List.length_cons] <;> try omega
    all_goals (intro n0 hx; first | exact hx | (simp only [hf, List.length_cons] at hx ⊢; omega))

theorem hb_allocRecord (h : Heap) (r : RecordObj) : HB h (h.allocRecord r).2 := by
  cases hf : h.freeRecords with
  | nil =>
    refine ⟨?_, ?_, ?_, ?_, ?_⟩ <;> simp only [Heap.allocRecord, hf, usedL, usedR, List.length_append, List.length_cons, List.length_nil] <;> try omega
    all_goals (intro n0 hx; first | exact hx | (simp only [hf, List.length_nil] at hx ⊢; omega))
  | cons i rest =>
    refine ⟨?_, ?_, ?_, ?_, ?_⟩ <;> simp only [Heap.allocRecord, hf, usedL, usedR, List.length_set, List.length_cons] <;> try omega
    all_goals (intro n0 hx; first | exact hx | (simp only [hf, List.length_cons] at hx ⊢; omega))

/-- a heap that differs only in the *contents* of its containers -/
theorem hb_same_shape {h h' : Heap} (h1 : h'.lists.length = h.lists.length) (h2 : h'.records.length = h.records.length)
    (h3 : h'.freeLists = h.freeLists) (h4 : h'.freeRecords = h.freeRecords) (h5 : h'.allocCount = h.allocCount) : HB h h' := by
  refine ⟨by omega, ?_, ?_, ?_, ?_⟩ <;> simp only [usedL, usedR, h1, h2, h3, h4, h5] <;> first | omega | (intro n0 hx; exact hx)
end Pakhi
namespace Pakhi

theorem hb_setList (h : Heap) (i : Nat) (l : List Val) : HB h { h with lists := h.lists.set i l } :=
  hb_same_shape (by simp) rfl rfl rfl rfl
theorem hb_setRecord (h : Heap) (i : Nat) (r : RecordObj) : HB h { h with records := h.records.set i r } :=
  hb_same_shape rfl (by simp) rfl rfl rfl

theorem addSub_hb {op : TK} {m : Meta} {l r v : Val} {h h' : Heap} (hx : addSub op m l r h = .ok (v, h')) : HB h h' := by
  unfold addSub at hx
  split at hx
  · split at hx
    · cases hx; exact HB.refl _
    · cases hx; exact HB.refl _
    · simp [metaErr, mkErr] at hx
  · split at hx
    · cases hx; exact HB.refl _
    · simp [metaErr, mkErr] at hx
  · split at hx
    · split at hx
      · have e := Res.ok.inj hx
        have e2 : (h.allocList _).2 = h' := congrArg Prod.snd e
        rw [← e2]; exact hb_allocList _ _
      · simp [metaErr, mkErr] at hx
    · simp at hx
  · simp [metaErr, mkErr] at hx

theorem assignPath_hb (cur : List Stmt) {v : Val} : ∀ (ixs : List Index) {c : Val} {h h' : Heap}, assignPath cur c ixs v h = .ok h' → HB h h'
  | [], c, h, h', hx => by simp [assignPath] at hx; subst hx; exact HB.refl _
  | ix :: rest, c, h, h', hx => by
      simp only [assignPath] at hx
      repeat' split at hx
      all_goals (try (cases cur <;> simp [stmtErr, mkErr, unexpected] at hx; done))
      all_goals (try (simp at hx; done))
      all_goals first
        | (simp at hx; subst hx; first | exact hb_setList _ _ _ | exact hb_setRecord _ _ _)
        | exact assignPath_hb cur rest hx

theorem callB_hb (k : Builtin) (args : List Val) (s : St) (v : Val) (s' : St) (hx : callB k args s = .inl (v, s')) : HB s.heap s'.heap := by
  cases k <;> simp only [callB] at hx <;> (repeat' split at hx) <;> (try (simp at hx; done))
  all_goals (simp at hx)
  all_goals first
    | (obtain ⟨_, rfl⟩ := hx; first | exact HB.refl _ | exact hb_setList _ _ _ | exact hb_setRecord _ _ _ | exact hb_allocList _ _ | exact hb_allocRecord _ _)
    | (rw [← hx.2]; first | exact HB.refl _ | exact hb_setList _ _ _ | exact hb_allocList _ _)

theorem callBuiltin_hb (n : Str) (args : List Val) (s : St) (r : Val × St) (hx : callBuiltin n args s = .inl r) : HB s.heap r.2.heap := by
  obtain ⟨v, s'⟩ := r
  simp only [callBuiltin] at hx
  split at hx
  · exact callB_hb _ _ _ _ _ hx
  · simp at hx

theorem printTop_heap {cur : List Stmt} {f : Nat} {eol : Bool} {v : Val} {s s' : St} (h : printTop cur f eol v s = .ok s') : s'.heap = s.heap := by
  simp only [printTop] at h
  split at h
  · cases cur <;> simp [stmtErr, mkErr, unexpected, Res.tagOut] at h
  · cases cur <;> simp [stmtErr, mkErr, unexpected, Res.tagOut] at h
  · cases hp : printVal cur f v s with
    | ok s1 =>
      simp only [hp] at h
      obtain ⟨t, _, ha⟩ := (print_spec cur f).1 v s s1 hp
      simp at h; subst h
      cases eol <;> exact ha.2.1
    | err e => simp [hp] at h
    | panic p => simp [hp] at h
    | fuel => simp [hp] at h
end Pakhi
namespace Pakhi

/-- whatever the outcome: a successful one carries a heap related to `h` by `HB` -/
def HBGood {α : Type} (h : Heap) (p : α → Heap) : Res α → Prop
  | .ok a => HB h (p a)
  | _ => True

theorem HBGood.bind {α β} {h : Heap} {p : α → Heap} {q : β → Heap} {r : Res α} {f : α → Res β}
    (h1 : HBGood h p r) (hf : ∀ a, HBGood (p a) q (f a)) : HBGood h q (r.bind f) := by
  cases r with
  | ok a =>
    simp only [Res.bind]
    have := hf a
    cases hfa : f a with
    | ok b => rw [hfa] at this; exact HB.trans h1 this
    | err e => trivial
    | panic p => trivial
    | fuel => trivial
  | err e => trivial
  | panic p => trivial
  | fuel => trivial

theorem HBGood.mono {α} {h h0 : Heap} {p : α → Heap} {r : Res α} (h0' : HB h0 h) (hr : HBGood h p r) : HBGood h0 p r := by
  cases r with
  | ok a => exact HB.trans h0' hr
  | err e => trivial
  | panic p => trivial
  | fuel => trivial

theorem hbGood_tag {α} (h : Heap) (o : List Out) (x : Res α) : HBGood h (fun _ => h) (x.tagOut o) := by
  cases x <;> simp [Res.tagOut, HBGood, HB.refl]

theorem hbGood_ok {α} {h : Heap} {p : α → Heap} {a : α} (hp : HB h (p a)) : HBGood h p (.ok a) := hp

theorem hbGood_curErr {α} (cur : List Stmt) (s : St) (msg : Str) (h : Heap) (p : α → Heap) : HBGood h p (curErr cur s msg : Res α) := by
  cases cur <;> simp [curErr, unexpected, Res.tagOut, HBGood]

theorem hbGood_stmtErr {α} (h : Heap) (o : List Out) (p : α → Heap) (cur : List Stmt) (c : ErrClass) (t : String) :
    HBGood h p ((stmtErr cur c t : Res α).tagOut o) := by
  cases cur <;> simp [stmtErr, mkErr, unexpected, Res.tagOut, HBGood]
theorem hbGood_metaErr {α} (h : Heap) (o : List Out) (p : α → Heap) (m : Meta) (c : ErrClass) (t : String) :
    HBGood h p ((metaErr m c t : Res α).tagOut o) := by
  simp [metaErr, mkErr, Res.tagOut, HBGood]
theorem hbGood_unexpected {α} (h : Heap) (o : List Out) (p : α → Heap) (t : String) :
    HBGood h p ((unexpected t : Res α).tagOut o) := by
  simp [unexpected, Res.tagOut, HBGood]

theorem printTop_hb (cur : List Stmt) (f : Nat) (eol : Bool) (v : Val) (s : St) :
    HBGood s.heap (fun s' => s'.heap) (printTop cur f eol v s) := by
  cases h : printTop cur f eol v s with
  | ok s' => show HB s.heap s'.heap; rw [printTop_heap h]; exact HB.refl _
  | err e => trivial
  | panic p => trivial
  | fuel => trivial

theorem addSub_hbGood (op : TK) (m : Meta) (l r : Val) (h : Heap) (o : List Out) :
    HBGood h (fun (x : Val × Heap) => x.2) ((addSub op m l r h).tagOut o) := by
  cases hx : addSub op m l r h with
  | ok x => obtain ⟨v, h'⟩ := x; simp only [Res.tagOut_ok]; exact addSub_hb hx
  | err e => simp [Res.tagOut, HBGood]
  | panic p => simp [Res.tagOut, HBGood]
  | fuel => simp [Res.tagOut, HBGood]

theorem assignPath_hbGood (cur : List Stmt) (c : Val) (ixs : List Index) (v : Val) (h : Heap) (o : List Out) :
    HBGood h (fun (x : Heap) => x) ((assignPath cur c ixs v h).tagOut o) := by
  cases hx : assignPath cur c ixs v h with
  | ok x => simp only [Res.tagOut_ok]; exact assignPath_hb cur ixs hx
  | err e => simp [Res.tagOut, HBGood]
  | panic p => simp [Res.tagOut, HBGood]
  | fuel => simp [Res.tagOut, HBGood]

section
variable (prog : List Stmt)

theorem execFuncDef_hb (rest : List Stmt) (s : St) : HBGood s.heap (fun (x : List Stmt × St) => x.2.heap) ((execFuncDef prog rest s).tagOut s.out) := by
  cases h : execFuncDef prog rest s with
  | ok x =>
    simp only [Res.tagOut_ok, HBGood]
    have : x.2.heap = s.heap := by
      simp only [execFuncDef] at h
      repeat' split at h
      all_goals (try (simp [metaErr, mkErr, unexpected, stmtErr] at h; done))
      all_goals (try (cases rest <;> simp [metaErr, mkErr, unexpected, stmtErr] at h; done))
      all_goals (simp at h; obtain ⟨_, rfl⟩ := h; rfl)
    rw [this]; exact HB.refl _
  | err e => simp [Res.tagOut, HBGood]
  | panic p => trivial
  | fuel => trivial

theorem hbGood_declare (s : St) (n : Str) (v : Val) (g : List Scope → St) (hg : ∀ sc, (g sc).heap = s.heap) :
    HBGood s.heap (fun s' => s'.heap) ((declareVar s.scopes n v).bind fun sc => .ok (g sc)) := by
  cases h : declareVar s.scopes n v with
  | ok sc => simp only [Res.bind, HBGood, hg]; exact HB.refl _
  | err e => trivial
  | panic p => trivial
  | fuel => trivial

structure HBInv (f : Nat) : Prop where
  eval : ∀ cur e s, HBGood s.heap (fun (x : Val × St) => x.2.heap) (eval prog f cur e s)
  evalBin : ∀ cur lf op l r s, HBGood s.heap (fun (x : Val × St) => x.2.heap) (evalBin prog f cur lf op l r s)
  evalList : ∀ cur es s, HBGood s.heap (fun (x : List Val × St) => x.2.heap) (evalList prog f cur es s)
  evalRecord : ∀ cur ks vs acc s, HBGood s.heap (fun (x : RecordObj × St) => x.2.heap) (evalRecord prog f cur ks vs acc s)
  evalCall : ∀ cur callee args s, HBGood s.heap (fun (x : Val × St) => x.2.heap) (evalCall prog f cur callee args s)
  bindParams : ∀ cur params args env s, HBGood s.heap (fun (x : Scope × St) => x.2.heap) (bindParams prog f cur params args env s)
  callLoop : ∀ cur s, HBGood s.heap (fun (x : Val × St) => x.2.heap) (callLoop prog f cur s)
  exec : ∀ cur s, HBGood s.heap (fun (x : List Stmt × St) => x.2.heap) (exec prog f cur s)
  execAssign : ∀ cur a s, HBGood s.heap (fun (s' : St) => s'.heap) (execAssign prog f cur a s)
  evalIndexes : ∀ cur ixs s, HBGood s.heap (fun (x : List Index × St) => x.2.heap) (evalIndexes prog f cur ixs s)

theorem hbInv_zero : HBInv prog 0 := by
  constructor <;> intros <;> simp only [eval, evalBin, evalList, evalRecord, evalCall, bindParams, callLoop, exec, execAssign, evalIndexes] <;> trivial

set_option hygiene false in
macro "hbm" : tactic => `(tactic| repeat' (first
  | exact HB.refl _
  | exact hbGood_ok (HB.refl _)
  | exact hbGood_ok (hb_allocList _ _)
  | exact hbGood_ok (hb_allocRecord _ _)
  | exact ih.eval _ _ _
  | exact ih.evalBin _ _ _ _ _ _
  | exact ih.evalList _ _ _
  | exact ih.evalRecord _ _ _ _ _
  | exact ih.evalCall _ _ _ _
  | exact ih.bindParams _ _ _ _ _
  | exact ih.callLoop _ _
  | exact ih.exec _ _
  | exact ih.execAssign _ _ _
  | exact ih.evalIndexes _ _ _
  | exact printTop_hb _ _ _ _ _
  | exact hbGood_curErr _ _ _ _ _
  | exact execFuncDef_hb _ _ _
  | exact hbGood_stmtErr _ _ _ _ _ _
  | exact hbGood_metaErr _ _ _ _ _ _
  | exact hbGood_unexpected _ _ _ _
  | exact hbGood_tag _ _ _
  | (refine HBGood.bind (addSub_hbGood _ _ _ _ _ _) ?_)
  | (refine HBGood.bind (assignPath_hbGood _ _ _ _ _ _) ?_)
  | (refine HBGood.bind (p := fun _ => _) (hbGood_tag _ _ _) ?_)
  | (refine HBGood.bind (ih.eval _ _ _) ?_)
  | (refine HBGood.bind (ih.evalList _ _ _) ?_)
  | (refine HBGood.bind (ih.evalRecord _ _ _ _ _) ?_)
  | (refine HBGood.bind (ih.bindParams _ _ _ _ _) ?_)
  | (refine HBGood.bind (ih.callLoop _ _) ?_)
  | (refine HBGood.bind (ih.exec _ _) ?_)
  | (refine HBGood.bind (ih.execAssign _ _ _) ?_)
  | (refine HBGood.bind (ih.evalIndexes _ _ _) ?_)
  | (refine HBGood.bind (printTop_hb _ _ _ _ _) ?_)
  | (intro a; obtain ⟨_, _⟩ := a; dsimp only)
  | intro a
  | split))

macro "hbleaf" : tactic => `(tactic| first
  | trivial
  | exact hbGood_ok (callBuiltin_hb _ _ _ _ (by assumption))
  | exact hbGood_declare _ _ _ _ (fun _ => rfl)
  | (refine HBGood.bind (p := fun _ => _) (hbGood_ok (a := _) (HB.refl _)) ?_))

theorem hbInv_succ (f : Nat) (ih : HBInv prog f) : HBInv prog (f+1) := by
  constructor
  · intro cur e s
    cases e <;> simp only [eval] <;> hbm
  · intro cur lf op l r s
    simp only [evalBin]; hbm
  · intro cur es s
    cases es <;> simp only [evalList] <;> hbm
  · intro cur ks vs acc s
    cases ks <;> cases vs <;> simp only [evalRecord] <;> hbm
    all_goals hbleaf
  · intro cur callee args s
    simp only [evalCall]; hbm
    all_goals (try hbleaf)
  · intro cur params args env s
    cases params <;> cases args <;> simp only [bindParams] <;> hbm
  · intro cur s
    simp only [callLoop]; hbm
  · intro cur s
    simp only [exec]; hbm
  · intro cur a s
    simp only [execAssign]; hbm
    all_goals (try hbleaf)
  · intro cur ixs s
    cases ixs <;> simp only [evalIndexes] <;> hbm
    all_goals (try hbleaf)
    all_goals (try hbm)
end
end Pakhi
namespace Pakhi

theorem hbInv (prog : List Stmt) : ∀ f, HBInv prog f
  | 0 => hbInv_zero prog
  | f+1 => hbInv_succ prog f (hbInv prog f)

/-- a collection keeps the size of both arenas and resets the allocation counter -/
theorem collect_shape (scopes : List Scope) (h h' : Heap) (hc : collect scopes h = .ok h') :
    h'.lists.length = h.lists.length ∧ h'.records.length = h.records.length ∧ h'.allocCount = 0 := by
  obtain ⟨m, _, rfl, _, _, _⟩ := collect_unfold scopes h h' hc
  have sl := sweepArena_spec ([] : List Val) m.lists 0 h.lists h.freeLists
  have sr := sweepArena_spec ([] : RecordObj) m.records 0 h.records h.freeRecords
  refine ⟨?_, ?_, rfl⟩
  · simp [(sweep_lists h m).1, sl.len]
  · simp [(sweep_lists h m).2.2.1, sr.len]

/-- **a collection-free run**: from start to end the slots in use grow by at most the allocation units spent, and an arena
    grows only when it has no free slot left -/
theorem runLoop_never_hb (prog : List Stmt) : ∀ (f k : Nat) (cur : List Stmt) (s s' : St),
    runLoop prog .never f k cur s = .ok s' → HB s.heap s'.heap
  | 0, _, _, _, _, h => by simp [runLoop] at h
  | f+1, k, cur, s, s', h => by
      simp only [runLoop] at h
      split at h
      · cases h; exact HB.refl _
      · cases h; exact HB.refl _
      · have hx := (hbInv prog f).exec cur s
        cases he : exec prog f cur s with
        | ok x =>
          obtain ⟨cur', s1⟩ := x
          rw [he] at hx h
          simp only [GcMode.fires, Bool.false_eq_true, if_false] at h
          exact HB.trans hx (runLoop_never_hb prog f (k+1) cur' s1 s' h)
        | err e => rw [he] at h; simp at h
        | panic p => rw [he] at h; simp at h
        | fuel => rw [he] at h; simp at h

/-- the state of the arenas at a statement boundary of a run under the native trigger: fewer than `gcThreshold` units since
    the last collection, at most `L` slots in use plus what was allocated since, and no arena larger than `M` -/
structure Bnd (L M : Nat) (s : St) : Prop where
  cnt : s.heap.allocCount < gcThreshold
  usedL : usedL s.heap ≤ L + s.heap.allocCount
  usedR : usedR s.heap ≤ L + s.heap.allocCount
  lenL : s.heap.lists.length ≤ M
  lenR : s.heap.records.length ≤ M

/-- **the heap stays bounded over a whole run** (native trigger).  `J` is any invariant of the run under which (i) one
    top-level statement spends at most `A` allocation units and (ii) right after a collection at most `L` slots are in use in
    each arena (the reachable ones, `C08.used_after_collect_le`).  Then no arena ever exceeds `M ≥ L + gcThreshold + A`
    slots — however many statements the run executes -/
theorem native_run_bounded (prog : List Stmt) (J : St → Prop) (L A M : Nat) (hM : L + gcThreshold + A ≤ M)
    (hstep : ∀ f cur s cur' s', J s → exec prog f cur s = .ok (cur', s') → J s' ∧ s'.heap.allocCount ≤ s.heap.allocCount + A)
    (hgc : ∀ s h', J s → collect s.scopes s.heap = .ok h' →
      J { s with heap := h', gcCount := s.gcCount + 1 } ∧ usedL h' ≤ L ∧ usedR h' ≤ L) :
    ∀ (f k : Nat) (cur : List Stmt) (s s' : St), J s → Bnd L M s → runLoop prog .native f k cur s = .ok s' → Bnd L M s'
  | 0, _, _, _, _, _, _, h => by simp [runLoop] at h
  | f+1, k, cur, s, s', hj, hb, h => by
      simp only [runLoop] at h
      split at h
      · cases h; exact hb
      · cases h; exact hb
      · have hx := (hbInv prog f).exec cur s
        cases he : exec prog f cur s with
        | ok x =>
          obtain ⟨cur', s1⟩ := x
          rw [he] at hx h
          have hx : HB s.heap s1.heap := hx
          obtain ⟨hj1, ha⟩ := hstep f cur s cur' s1 hj he
          -- the arenas after the statement
          have uL : usedL s1.heap ≤ L + s1.heap.allocCount := by have := hx.usedL; have := hb.usedL; have := hx.cnt; omega
          have uR : usedR s1.heap ≤ L + s1.heap.allocCount := by have := hx.usedR; have := hb.usedR; have := hx.cnt; omega
          have hcnt := hb.cnt
          have lL : (s1.heap.lists.length : Int) ≤ M := by
            have := hx.capL (M : Int) (by have := hb.lenL; omega); omega
          have lR : (s1.heap.records.length : Int) ≤ M := by
            have := hx.capR (M : Int) (by have := hb.lenR; omega); omega
          simp only at h
          split at h
          · -- the trigger fires: collect
            cases hc : collect s1.scopes s1.heap with
            | ok h' =>
              rw [hc] at h
              obtain ⟨hj2, gl, gr⟩ := hgc s1 h' hj1 hc
              obtain ⟨c1, c2, c3⟩ := collect_shape _ _ _ hc
              refine native_run_bounded prog J L A M hM hstep hgc f (k+1) cur' _ s' hj2 ?_ h
              exact ⟨by show h'.allocCount < gcThreshold; rw [c3]; decide, by show usedL h' ≤ _; omega, by show usedR h' ≤ _; omega,
                by show h'.lists.length ≤ M; rw [c1]; omega, by show h'.records.length ≤ M; rw [c2]; omega⟩
            | panic p => rw [hc] at h; simp at h
            | fuel => rw [hc] at h; simp at h
          · rename_i hnf
            have : s1.heap.allocCount < gcThreshold := by simpa [GcMode.fires] using hnf
            exact native_run_bounded prog J L A M hM hstep hgc f (k+1) cur' s1 s' hj1 ⟨this, uL, uR, by omega, by omega⟩ h
        | err e => rw [he] at h; simp at h
        | panic p => rw [he] at h; simp at h
        | fuel => rw [he] at h; simp at h

/-- a fresh interpreter satisfies the bound -/
theorem bnd_init (w : World) (L M : Nat) : Bnd L M (St.init w) := by
  refine ⟨by simp [St.init, Heap.empty, gcThreshold], ?_, ?_, ?_, ?_⟩ <;> simp [St.init, Heap.empty, usedL, usedR]
end Pakhi
namespace Pakhi

theorem nodup_subset_length : ∀ (l free : List Nat), l.Nodup → (∀ x ∈ l, x ∈ free) → l.length ≤ free.length
  | [], _, _, _ => by simp
  | a :: l, free, hn, hs => by
      have ha : a ∈ free := hs a (by simp)
      have hn' := (List.nodup_cons.mp hn)
      have ih := nodup_subset_length l (free.erase a) hn'.2 (by
        intro x hx
        have hxa : x ≠ a := by intro e; subst e; exact hn'.1 hx
        exact (List.mem_erase_of_ne hxa).mpr (hs x (by simp [hx])))
      have := List.length_erase_of_mem ha
      simp only [List.length_cons]
      have hpos : 0 < free.length := List.length_pos_of_mem ha
      omega

/-- indexes (from `i`) of the unmarked slots -/
def unmarkedFrom : Nat → List Bool → List Nat
  | _, [] => []
  | i, true :: ms => unmarkedFrom (i+1) ms
  | i, false :: ms => i :: unmarkedFrom (i+1) ms

theorem unmarkedFrom_length : ∀ (i : Nat) (ms : List Bool), (unmarkedFrom i ms).length + (ms.filter id).length = ms.length
  | _, [] => by simp [unmarkedFrom]
  | i, true :: ms => by have := unmarkedFrom_length (i+1) ms; simp [unmarkedFrom]; omega
  | i, false :: ms => by have := unmarkedFrom_length (i+1) ms; simp [unmarkedFrom]; omega

theorem unmarkedFrom_mem : ∀ (i : Nat) (ms : List Bool) (x : Nat), x ∈ unmarkedFrom i ms → ∃ k, x = i + k ∧ ms[k]? = some false
  | _, [], x, h => by simp [unmarkedFrom] at h
  | i, true :: ms, x, h => by
      obtain ⟨k, rfl, hk⟩ := unmarkedFrom_mem (i+1) ms x (by simpa [unmarkedFrom] using h)
      exact ⟨k+1, by omega, by simpa using hk⟩
  | i, false :: ms, x, h => by
      simp only [unmarkedFrom, List.mem_cons] at h
      rcases h with rfl | h
      · exact ⟨0, rfl, rfl⟩
      · obtain ⟨k, rfl, hk⟩ := unmarkedFrom_mem (i+1) ms x h
        exact ⟨k+1, by omega, by simpa using hk⟩

theorem unmarkedFrom_nodup : ∀ (i : Nat) (ms : List Bool), (unmarkedFrom i ms).Nodup
  | _, [] => by simp [unmarkedFrom]
  | i, true :: ms => by simpa [unmarkedFrom] using unmarkedFrom_nodup (i+1) ms
  | i, false :: ms => by
      simp only [unmarkedFrom, List.nodup_cons]
      refine ⟨?_, unmarkedFrom_nodup (i+1) ms⟩
      intro hmem
      obtain ⟨k, hk, _⟩ := unmarkedFrom_mem (i+1) ms i hmem
      omega

/-- **after a collection the slots in use are at most the marked (= reachable) ones**, whatever the free list held before -/
theorem collect_used_le_marked (scopes : List Scope) (h h' : Heap) (hc : collect scopes h = .ok h') :
    ∃ m, markRoots h (markFuel h (rootVals scopes)) (rootVals scopes) (Marks.init h) = .ok m ∧
      (∀ v, isMarked m v = true ↔ Reach h (rootVals scopes) v) ∧
      usedL h' ≤ (m.lists.filter id).length ∧ usedR h' ≤ (m.records.filter id).length := by
  obtain ⟨m, hm, rfl, hl, hr, hex⟩ := collect_unfold scopes h h' hc
  refine ⟨m, hm, hex, ?_, ?_⟩
  · have sl := sweepArena_spec ([] : List Val) m.lists 0 h.lists h.freeLists
    have hsub : ∀ x ∈ unmarkedFrom 0 m.lists, x ∈ (sweepArena ([] : List Val) 0 m.lists h.lists h.freeLists).2 := by
      intro x hx
      obtain ⟨k, rfl, hk⟩ := unmarkedFrom_mem 0 m.lists x hx
      exact sl.freed k hk
    have hle := nodup_subset_length _ _ (unmarkedFrom_nodup 0 m.lists) hsub
    have hcnt := unmarkedFrom_length 0 m.lists
    show (((sweep h m).lists.length : Int) - (sweep h m).freeLists.length) ≤ _
    rw [(sweep_lists h m).1, (sweep_lists h m).2.1, sl.len]
    omega
  · have sr := sweepArena_spec ([] : RecordObj) m.records 0 h.records h.freeRecords
    have hsub : ∀ x ∈ unmarkedFrom 0 m.records, x ∈ (sweepArena ([] : RecordObj) 0 m.records h.records h.freeRecords).2 := by
      intro x hx
      obtain ⟨k, rfl, hk⟩ := unmarkedFrom_mem 0 m.records x hx
      exact sr.freed k hk
    have hle := nodup_subset_length _ _ (unmarkedFrom_nodup 0 m.records) hsub
    have hcnt := unmarkedFrom_length 0 m.records
    show (((sweep h m).records.length : Int) - (sweep h m).freeRecords.length) ≤ _
    rw [(sweep_lists h m).2.2.1, (sweep_lists h m).2.2.2, sr.len]
    omega
end Pakhi
