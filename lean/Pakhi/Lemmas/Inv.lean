/-
  The run-time state invariant `StOK` (container references stay inside their arena, the free stacks
  hold arena indexes, the scope stack is never empty, loop records point into the program) and the
  outcome predicate `Good` ("no panic, and a value satisfies Q") used to show that the whole evaluator
  preserves it (helper lemmas for C13 / C07 / C08).
-/
import Pakhi.Lemmas.Render
import Pakhi.Lemmas.Control
import Pakhi.Spec.WF
namespace Pakhi

/-! ### outcome predicate -/

/-- the outcome is not a panic and, when it is a value, the value satisfies `Q` -/
def Good {α : Type} (Q : α → Prop) (r : Res α) : Prop :=
  match r with
  | .ok a => Q a
  | .panic _ => False
  | _ => True

theorem Good.bind {α β} {Q : α → Prop} {Q' : β → Prop} {r : Res α} {f : α → Res β}
    (h : Good Q r) (hf : ∀ a, Q a → Good Q' (f a)) : Good Q' (r.bind f) := by
  cases r <;> simp_all [Good, Res.bind]

theorem Good.tagOut {α} {Q : α → Prop} {r : Res α} {o : List Out} (h : Good Q r) : Good Q (r.tagOut o) := by
  cases r <;> simp_all [Good, Res.tagOut]

theorem Good.mono {α} {Q Q' : α → Prop} {r : Res α} (h : Good Q r) (hq : ∀ a, Q a → Q' a) : Good Q' r := by
  cases r <;> simp_all [Good]

theorem Good.err {α} {Q : α → Prop} (e : PErr) : Good Q (.err e : Res α) := by simp [Good]
theorem Good.fuel {α} {Q : α → Prop} : Good Q (.fuel : Res α) := by simp [Good]
theorem Good.ok {α} {Q : α → Prop} {a : α} (h : Q a) : Good Q (.ok a) := by simpa [Good] using h

theorem good_stmtErr {α} (Q : α → Prop) (cur : List Stmt) (c : ErrClass) (t : String) : Good Q (stmtErr cur c t : Res α) := by
  cases cur <;> simp [stmtErr, mkErr, unexpected, Good]
theorem good_metaErr {α} (Q : α → Prop) (m : Meta) (c : ErrClass) (t : String) : Good Q (metaErr m c t : Res α) := by
  simp [metaErr, mkErr, Good]
theorem good_curErr {α} (Q : α → Prop) (cur : List Stmt) (s : St) (msg : Str) : Good Q (curErr cur s msg : Res α) := by
  cases cur <;> simp [curErr, unexpected, Good]
theorem good_unexpected {α} (Q : α → Prop) (t : String) : Good Q (unexpected t : Res α) := by simp [unexpected, Good]

/-! ### the state invariant -/

section
variable (P : Nat → List Str → Prop)

/-- a value is well formed in a heap: container references point into their arena, function values satisfy `P` -/
def ValOK (h : Heap) : Val → Prop
  | .list i => i < h.lists.length
  | .record i => i < h.records.length
  | .func r ps => P r ps
  | _ => True

/-- every stored value is well formed and the free stacks hold arena indexes -/
structure HeapOK (h : Heap) : Prop where
  lists : ∀ l ∈ h.lists, ∀ v ∈ l, ValOK P h v
  records : ∀ r ∈ h.records, ∀ kv ∈ r, ValOK P h kv.2
  freeL : ∀ i ∈ h.freeLists, i < h.lists.length
  freeR : ∀ i ∈ h.freeRecords, i < h.records.length

def ScopeOK (h : Heap) (sc : Scope) : Prop := ∀ kv ∈ sc, ValOK P h kv.2

def ScopesOK (h : Heap) (scs : List Scope) : Prop := scs ≠ [] ∧ ∀ sc ∈ scs, ScopeOK P h sc

def HeapLe (h h' : Heap) : Prop := h.lists.length ≤ h'.lists.length ∧ h.records.length ≤ h'.records.length

def IsSuffixOf (cur prog : List Stmt) : Prop := ∃ pre, prog = pre ++ cur

structure StOK (prog : List Stmt) (s : St) : Prop where
  heap : HeapOK P s.heap
  scopes : ScopesOK P s.heap s.scopes
  loops : ∀ l ∈ s.loops, IsSuffixOf l.start prog ∧ 1 ≤ l.envs

theorem HeapLe.refl (h : Heap) : HeapLe h h := ⟨Nat.le_refl _, Nat.le_refl _⟩
theorem HeapLe.trans {a b c : Heap} (h1 : HeapLe a b) (h2 : HeapLe b c) : HeapLe a c :=
  ⟨Nat.le_trans h1.1 h2.1, Nat.le_trans h1.2 h2.2⟩

theorem ValOK.mono {h h' : Heap} {v : Val} (hle : HeapLe h h') (hv : ValOK P h v) : ValOK P h' v := by
  cases v <;> simp_all [ValOK, HeapLe] <;> omega

theorem ScopeOK.mono {h h' : Heap} {sc : Scope} (hle : HeapLe h h') (hs : ScopeOK P h sc) : ScopeOK P h' sc :=
  fun kv hkv => ValOK.mono P hle (hs kv hkv)

theorem ScopesOK.mono {h h' : Heap} {scs : List Scope} (hle : HeapLe h h') (hs : ScopesOK P h scs) : ScopesOK P h' scs :=
  ⟨hs.1, fun sc hsc => ScopeOK.mono P hle (hs.2 sc hsc)⟩

theorem mem_assocSet {β} : ∀ (l : List (Str × β)) (k : Str) (v : β) (kv : Str × β), kv ∈ assocSet l k v → kv = (k, v) ∨ kv ∈ l
  | [], k, v, kv, h => by simp [assocSet] at h; exact Or.inl h
  | (k', v') :: r, k, v, kv, h => by
      simp only [assocSet] at h
      split at h
      · simp at h; rcases h with h | h
        · exact Or.inl h
        · exact Or.inr (by simp [h])
      · simp at h; rcases h with h | h
        · exact Or.inr (by simp [h])
        · rcases mem_assocSet r k v kv h with h1 | h1
          · exact Or.inl h1
          · exact Or.inr (by simp [h1])

theorem assocGet_mem {β} : ∀ (l : List (Str × β)) (k : Str) (v : β), assocGet l k = some v → ∃ kv ∈ l, kv.2 = v
  | [], k, v, h => by simp [assocGet] at h
  | (k', v') :: r, k, v, h => by
      simp only [assocGet] at h
      split at h
      · simp at h; exact ⟨(k', v'), by simp, h⟩
      · obtain ⟨kv, h1, h2⟩ := assocGet_mem r k v h
        exact ⟨kv, by simp [h1], h2⟩

theorem ScopeOK.set {h : Heap} {sc : Scope} {k : Str} {v : Val} (hs : ScopeOK P h sc) (hv : ValOK P h v) :
    ScopeOK P h (assocSet sc k v) := by
  intro kv hkv
  rcases mem_assocSet sc k v kv hkv with rfl | h1
  · exact hv
  · exact hs kv h1

theorem lookupVar_ok {h : Heap} : ∀ {scs : List Scope} {n : Str} {v : Val}, (∀ sc ∈ scs, ScopeOK P h sc) → lookupVar scs n = some v → ValOK P h v
  | [], _, _, _, hl => by simp [lookupVar] at hl
  | sc :: rest, n, v, hs, hl => by
      simp only [lookupVar] at hl
      split at hl
      · rename_i x hx
        simp at hl; subst hl
        obtain ⟨kv, h1, h2⟩ := assocGet_mem sc n x hx
        rw [← h2]; exact hs sc (by simp) kv h1
      · exact lookupVar_ok (fun s' hs' => hs s' (by simp [hs'])) hl

theorem assignVar_ok {h : Heap} {v : Val} (hv : ValOK P h v) : ∀ {scs scs' : List Scope} {n : Str},
    (∀ sc ∈ scs, ScopeOK P h sc) → assignVar scs n v = some scs' → (∀ sc ∈ scs', ScopeOK P h sc) ∧ scs'.length = scs.length
  | [], _, _, _, ha => by simp [assignVar] at ha
  | sc :: rest, scs', n, hs, ha => by
      simp only [assignVar] at ha
      split at ha
      · simp at ha; subst ha
        refine ⟨?_, by simp⟩
        intro s' hs'
        rcases List.mem_cons.mp hs' with rfl | h1
        · exact ScopeOK.set P (hs sc (by simp)) hv
        · exact hs s' (by simp [h1])
      · cases hr : assignVar rest n v with
        | none => simp [hr] at ha
        | some r' =>
          simp [hr] at ha; subst ha
          obtain ⟨a1, a2⟩ := assignVar_ok hv (fun s' hs' => hs s' (by simp [hs'])) hr
          refine ⟨?_, by simp [a2]⟩
          intro s' hs'
          rcases List.mem_cons.mp hs' with rfl | h1
          · exact hs _ (by simp)
          · exact a1 s' h1

/-! ### heap operations -/

theorem listPosition_lt {n : Num.Bits} {len p : Nat} (h : listPosition n len = some p) : p < len := by
  simp only [listPosition] at h
  split at h
  · simp at h; subst h; simp_all
  · simp at h

theorem getElem?_of_lt {α} {l : List α} {p : Nat} (h : p < l.length) : ∃ v, l[p]? = some v ∧ v ∈ l :=
  ⟨l[p], by simp [h], List.getElem_mem h⟩

/-- a heap obtained by replacing list slot `a` (which exists) by well-formed content -/
theorem HeapOK.setList {h : Heap} (hh : HeapOK P h) (a : Nat) (l : List Val) (hl : ∀ v ∈ l, ValOK P h v) :
    HeapOK P { h with lists := h.lists.set a l } ∧ HeapLe h { h with lists := h.lists.set a l } ∧
    HeapLe { h with lists := h.lists.set a l } h := by
  have le1 : HeapLe h { h with lists := h.lists.set a l } := ⟨by simp, Nat.le_refl _⟩
  have le2 : HeapLe { h with lists := h.lists.set a l } h := ⟨by simp, Nat.le_refl _⟩
  refine ⟨⟨?_, ?_, ?_, ?_⟩, le1, le2⟩
  · intro l' hl' v hv
    rcases List.mem_or_eq_of_mem_set hl' with h1 | h1
    · exact ValOK.mono P le1 (hh.lists l' h1 v hv)
    · subst h1; exact ValOK.mono P le1 (hl v hv)
  · intro r hr kv hkv; exact ValOK.mono P le1 (hh.records r hr kv hkv)
  · intro i hi; simpa using hh.freeL i hi
  · intro i hi; exact hh.freeR i hi

theorem HeapOK.setRecord {h : Heap} (hh : HeapOK P h) (a : Nat) (r : RecordObj) (hr : ∀ kv ∈ r, ValOK P h kv.2) :
    HeapOK P { h with records := h.records.set a r } ∧ HeapLe h { h with records := h.records.set a r } ∧
    HeapLe { h with records := h.records.set a r } h := by
  have le1 : HeapLe h { h with records := h.records.set a r } := ⟨Nat.le_refl _, by simp⟩
  have le2 : HeapLe { h with records := h.records.set a r } h := ⟨Nat.le_refl _, by simp⟩
  refine ⟨⟨?_, ?_, ?_, ?_⟩, le1, le2⟩
  · intro l' hl' v hv; exact ValOK.mono P le1 (hh.lists l' hl' v hv)
  · intro r' hr' kv hkv
    rcases List.mem_or_eq_of_mem_set hr' with h1 | h1
    · exact ValOK.mono P le1 (hh.records r' h1 kv hkv)
    · subst h1; exact ValOK.mono P le1 (hr kv hkv)
  · intro i hi; exact hh.freeL i hi
  · intro i hi; simpa using hh.freeR i hi

theorem allocList_ok {h : Heap} (hh : HeapOK P h) (l : List Val) (hl : ∀ v ∈ l, ValOK P h v) :
    HeapOK P (h.allocList l).2 ∧ ValOK P (h.allocList l).2 (h.allocList l).1 ∧ HeapLe h (h.allocList l).2 := by
  simp only [Heap.allocList]
  split
  · rename_i i rest hf
    try simp at hf
    have hi : i < h.lists.length := hh.freeL i (by simp [hf])
    have le1 : HeapLe h { h with allocCount := h.allocCount + l.length + 1, lists := h.lists.set i l, freeLists := rest } :=
      ⟨by simp, Nat.le_refl _⟩
    refine ⟨⟨?_, ?_, ?_, ?_⟩, by simpa [ValOK] using hi, le1⟩
    · intro l' hl' v hv
      rcases List.mem_or_eq_of_mem_set hl' with h1 | h1
      · exact ValOK.mono P le1 (hh.lists l' h1 v hv)
      · subst h1; exact ValOK.mono P le1 (hl v hv)
    · intro r hr kv hkv; exact ValOK.mono P le1 (hh.records r hr kv hkv)
    · intro j hj; simp; exact hh.freeL j (by simp [hf, hj])
    · intro j hj; exact hh.freeR j hj
  · rename_i hf
    try simp at hf
    have le1 : HeapLe h { h with allocCount := h.allocCount + l.length + 1, lists := h.lists ++ [l] } :=
      ⟨by simp, Nat.le_refl _⟩
    refine ⟨⟨?_, ?_, ?_, ?_⟩, by simp [ValOK], le1⟩
    · intro l' hl' v hv
      simp at hl'
      rcases hl' with h1 | h1
      · exact ValOK.mono P le1 (hh.lists l' h1 v hv)
      · subst h1; exact ValOK.mono P le1 (hl v hv)
    · intro r hr kv hkv; exact ValOK.mono P le1 (hh.records r hr kv hkv)
    · intro j hj; simp [hf] at hj
    · intro j hj; exact hh.freeR j hj

theorem allocRecord_ok {h : Heap} (hh : HeapOK P h) (r : RecordObj) (hr : ∀ kv ∈ r, ValOK P h kv.2) :
    HeapOK P (h.allocRecord r).2 ∧ ValOK P (h.allocRecord r).2 (h.allocRecord r).1 ∧ HeapLe h (h.allocRecord r).2 := by
  simp only [Heap.allocRecord]
  split
  · rename_i i rest hf
    try simp at hf
    have hi : i < h.records.length := hh.freeR i (by simp [hf])
    have le1 : HeapLe h { h with allocCount := h.allocCount + r.length + 1, records := h.records.set i r, freeRecords := rest } :=
      ⟨Nat.le_refl _, by simp⟩
    refine ⟨⟨?_, ?_, ?_, ?_⟩, by simpa [ValOK] using hi, le1⟩
    · intro l' hl' v hv; exact ValOK.mono P le1 (hh.lists l' hl' v hv)
    · intro r' hr' kv hkv
      rcases List.mem_or_eq_of_mem_set hr' with h1 | h1
      · exact ValOK.mono P le1 (hh.records r' h1 kv hkv)
      · subst h1; exact ValOK.mono P le1 (hr kv hkv)
    · intro j hj; exact hh.freeL j hj
    · intro j hj; simp; exact hh.freeR j (by simp [hf, hj])
  · rename_i hf
    try simp at hf
    have le1 : HeapLe h { h with allocCount := h.allocCount + r.length + 1, records := h.records ++ [r] } :=
      ⟨Nat.le_refl _, by simp⟩
    refine ⟨⟨?_, ?_, ?_, ?_⟩, by simp [ValOK], le1⟩
    · intro l' hl' v hv; exact ValOK.mono P le1 (hh.lists l' hl' v hv)
    · intro r' hr' kv hkv
      simp at hr'
      rcases hr' with h1 | h1
      · exact ValOK.mono P le1 (hh.records r' h1 kv hkv)
      · subst h1; exact ValOK.mono P le1 (hr kv hkv)
    · intro j hj; exact hh.freeL j hj
    · intro j hj; simp [hf] at hj

theorem list_lookup {h : Heap} (hh : HeapOK P h) {i : Nat} (hv : ValOK P h (.list i)) :
    ∃ l, h.lists[i]? = some l ∧ ∀ v ∈ l, ValOK P h v := by
  simp only [ValOK] at hv
  obtain ⟨l, h1, h2⟩ := getElem?_of_lt hv
  exact ⟨l, h1, hh.lists l h2⟩

theorem record_lookup {h : Heap} (hh : HeapOK P h) {i : Nat} (hv : ValOK P h (.record i)) :
    ∃ r, h.records[i]? = some r ∧ ∀ kv ∈ r, ValOK P h kv.2 := by
  simp only [ValOK] at hv
  obtain ⟨r, h1, h2⟩ := getElem?_of_lt hv
  exact ⟨r, h1, hh.records r h2⟩


/-- what a built-in call may do: change the heap keeping it well formed (never shrinking an arena)
    and the world; `.inr` never carries the panic tag -/
def CallOK (s : St) : (Val × St) ⊕ Str → Prop
  | .inl (v, s') => HeapOK P s'.heap ∧ ValOK P s'.heap v ∧ HeapLe s.heap s'.heap ∧ s'.scopes = s.scopes ∧
      s'.loops = s.loops ∧ s'.flags = s.flags ∧ s'.out = s.out
  | .inr t => t ≠ panicTag

theorem callOK_err (s : St) (t : String) (h : t.toList ≠ panicTag) : CallOK P s (.inr t.toList) := h

theorem callOK_same (s : St) (v : Val) (hh : HeapOK P s.heap) (hv : ValOK P s.heap v) : CallOK P s (.inl (v, s)) :=
  ⟨hh, hv, HeapLe.refl _, rfl, rfl, rfl, rfl⟩

theorem callOK_world (s : St) (v : Val) (w : World) (hh : HeapOK P s.heap) (hv : ValOK P s.heap v) :
    CallOK P s (.inl (v, { s with world := w })) :=
  ⟨hh, hv, HeapLe.refl _, rfl, rfl, rfl, rfl⟩

theorem callOK_setList (s : St) (a : Nat) (l : List Val) (hh : HeapOK P s.heap) (hl : ∀ v ∈ l, ValOK P s.heap v) :
    CallOK P s (.inl (.nil, { s with heap := { s.heap with lists := s.heap.lists.set a l } })) := by
  obtain ⟨h1, h2, _⟩ := hh.setList P a l hl
  exact ⟨h1, by simp [ValOK], h2, rfl, rfl, rfl, rfl⟩

theorem callOK_alloc (s : St) (l : List Val) (hh : HeapOK P s.heap) (hl : ∀ v ∈ l, ValOK P s.heap v) :
    CallOK P s (.inl ((s.heap.allocList l).1, { s with heap := (s.heap.allocList l).2 })) := by
  obtain ⟨h1, h2, h3⟩ := allocList_ok P hh l hl
  exact ⟨h1, h2, h3, rfl, rfl, rfl, rfl⟩

theorem not_dangling {h : Heap} {args : List Val} (ha : ∀ v ∈ args, ValOK P h v) {i : Nat}
    (hn : h.lists[i]? = none) (hm : Val.list i ∈ args) : False := by
  have := ha _ hm; simp [ValOK] at this; simp at hn; omega

theorem mem_insertAt {l : List Val} {p : Nat} {x v : Val} (h : v ∈ insertAt l p x) : v ∈ l ∨ v = x := by
  simp only [insertAt, List.mem_append, List.mem_cons] at h
  rcases h with h | h | h
  · exact Or.inl (List.mem_of_mem_take h)
  · exact Or.inr h
  · exact Or.inl (List.mem_of_mem_drop h)

theorem mem_removeAt {l : List Val} {p : Nat} {v : Val} (h : v ∈ removeAt l p) : v ∈ l := by
  simp only [removeAt, List.mem_append] at h
  rcases h with h | h
  · exact List.mem_of_mem_take h
  · exact List.mem_of_mem_drop h

theorem callB_ok (k : Builtin) (args : List Val) (s : St) (hh : HeapOK P s.heap) (ha : ∀ v ∈ args, ValOK P s.heap v) :
    CallOK P s (callB k args s) := by
  cases k
  case toString => simp only [callB]; split <;> first | exact callOK_same P s _ hh (by simp [ValOK]) | exact callOK_err P s _ (by decide)
  case toNum =>
    simp only [callB]; repeat' split
    all_goals first | exact callOK_same P s _ hh (by simp [ValOK]) | exact callOK_err P s _ (by decide)
  case type =>
    simp only [callB]; repeat' split
    all_goals first | exact callOK_same P s _ hh (by simp [ValOK]) | exact callOK_err P s _ (by decide)
  case error => exact callOK_err P s _ (by decide)
  case readLine =>
    simp only [callB]; repeat' split
    all_goals first | exact callOK_world P s _ _ hh (by simp [ValOK]) | exact callOK_err P s _ (by decide)
  case readFile =>
    simp only [callB]; repeat' split
    all_goals first | exact callOK_same P s _ hh (by simp [ValOK]) | exact callOK_err P s _ (by decide)
  case fileOrDir =>
    simp only [callB]; repeat' split
    all_goals first | exact callOK_same P s _ hh (by simp [ValOK]) | exact callOK_err P s _ (by decide)
  case writeFile =>
    simp only [callB]; repeat' split
    all_goals first | exact callOK_world P s _ _ hh (by simp [ValOK]) | exact callOK_err P s _ (by decide)
  case deleteFile =>
    simp only [callB]; repeat' split
    all_goals first | exact callOK_world P s _ _ hh (by simp [ValOK]) | exact callOK_err P s _ (by decide)
  case createDir =>
    simp only [callB]; repeat' split
    all_goals first | exact callOK_world P s _ _ hh (by simp [ValOK]) | exact callOK_err P s _ (by decide)
  case deleteDir =>
    simp only [callB]; repeat' split
    all_goals first | exact callOK_world P s _ _ hh (by simp [ValOK]) | exact callOK_err P s _ (by decide)
  case stringSplit =>
    simp only [callB]; repeat' split
    all_goals first
      | exact callOK_alloc P s _ hh (by intro v hv; simp at hv; obtain ⟨_, _, rfl⟩ := hv; simp [ValOK])
      | exact callOK_err P s _ (by decide)
  case readDir =>
    simp only [callB]; repeat' split
    all_goals first
      | exact callOK_alloc P s _ hh (by intro v hv; simp at hv; obtain ⟨_, _, rfl⟩ := hv; simp [ValOK])
      | exact callOK_err P s _ (by decide)
  case listLen =>
    simp only [callB]; repeat' split
    all_goals first
      | exact callOK_same P s _ hh (by simp [ValOK])
      | exact callOK_err P s _ (by decide)
      | exact (not_dangling P ha ‹_ = none› (by simp)).elim
  case stringJoin =>
    simp only [callB]; repeat' split
    all_goals first
      | exact callOK_same P s _ hh (by simp [ValOK])
      | exact callOK_err P s _ (by decide)
      | exact (not_dangling P ha ‹_ = none› (by simp)).elim
  case listPush =>
    simp only [callB]; repeat' split
    all_goals first
      | exact callOK_err P s _ (by decide)
      | exact (not_dangling P ha ‹_ = none› (by simp)).elim
      | skip
    · exact callOK_setList P s _ _ hh (by
        intro v hv
        have hl := hh.lists _ (List.mem_of_getElem? ‹_ = some _›)
        simp only [List.mem_append, List.mem_singleton] at hv
        rcases hv with hv | rfl
        · exact hl v hv
        · exact ha _ (by simp))
    · exact callOK_setList P s _ _ hh (by
        intro v hv
        have hl := hh.lists _ (List.mem_of_getElem? ‹s.heap.lists[_]? = some _›)
        rcases mem_insertAt hv with hv | rfl
        · exact hl v hv
        · exact ha _ (by simp))
  case listPop =>
    simp only [callB]; repeat' split
    all_goals first
      | exact callOK_err P s _ (by decide)
      | exact (not_dangling P ha ‹_ = none› (by simp)).elim
      | skip
    · exact callOK_setList P s _ _ hh (by
        intro v hv
        have hl := hh.lists _ (List.mem_of_getElem? ‹_ = some _›)
        exact hl v (List.dropLast_subset _ hv))
    · exact callOK_setList P s _ _ hh (by
        intro v hv
        have hl := hh.lists _ (List.mem_of_getElem? ‹s.heap.lists[_]? = some _›)
        exact hl v (mem_removeAt hv))

/-! ### the pure operators -/

theorem addSub_good (op : TK) (m : Meta) {l r : Val} {h : Heap} (hh : HeapOK P h) (hl : ValOK P h l) (hr : ValOK P h r) :
    Good (fun (x : Val × Heap) => HeapOK P x.2 ∧ ValOK P x.2 x.1 ∧ HeapLe h x.2) (addSub op m l r h) := by
  simp only [addSub]
  split
  · split <;> first | exact Good.ok ⟨hh, by simp [ValOK], HeapLe.refl _⟩ | exact good_metaErr _ _ _ _
  · split <;> first | exact Good.ok ⟨hh, by simp [ValOK], HeapLe.refl _⟩ | exact good_metaErr _ _ _ _
  · obtain ⟨a, ha1, ha2⟩ := list_lookup P hh hl
    obtain ⟨b, hb1, hb2⟩ := list_lookup P hh hr
    simp only [ha1, hb1]
    split
    · exact Good.ok (allocList_ok P hh _ (by
        intro v hv; rcases List.mem_append.mp hv with h1 | h1
        · exact ha2 v h1
        · exact hb2 v h1))
    · exact good_metaErr _ _ _ _
  · exact good_metaErr _ _ _ _

theorem good_pure_ok {Q : Val → Prop} {r : Res Val} (hq : ∀ v, r = .ok v → Q v) (hp : ∀ p, r ≠ .panic p) : Good Q r := by
  cases r <;> simp_all [Good]

theorem mulDiv_good (op : TK) (m : Meta) (l r : Val) (h : Heap) : Good (ValOK P h) (mulDiv op m l r) := by
  simp only [mulDiv]; repeat' split
  all_goals first | exact Good.ok (by simp [ValOK]) | exact good_metaErr _ _ _ _

theorem compare_good (op : TK) (m : Meta) (l r : Val) (h : Heap) : Good (ValOK P h) (compare op m l r) := by
  simp only [compare]; repeat' split
  all_goals first | exact Good.ok (by simp [ValOK]) | exact good_metaErr _ _ _ _

theorem equality_good (op : TK) (m : Meta) (l r : Val) (h : Heap) : Good (ValOK P h) (equality op m l r) := by
  simp only [equality]; repeat' split
  all_goals first | exact Good.ok (by simp [ValOK]) | exact good_metaErr _ _ _ _

theorem andOr_good (b : Bool) (m : Meta) (l r : Val) (h : Heap) : Good (ValOK P h) (andOr b m l r) := by
  simp only [andOr]; repeat' split
  all_goals first | exact Good.ok (by simp [ValOK]) | exact good_metaErr _ _ _ _

theorem unaryOp_good (op : TK) (m : Meta) (v : Val) (h : Heap) : Good (ValOK P h) (unaryOp op m v) := by
  simp only [unaryOp]; repeat' split
  all_goals first | exact Good.ok (by simp [ValOK]) | exact good_metaErr _ _ _ _

theorem indexVal_good (m : Meta) {c i : Val} {h : Heap} (hh : HeapOK P h) (hc : ValOK P h c) :
    Good (ValOK P h) (indexVal m c i h) := by
  simp only [indexVal]
  split
  · obtain ⟨l, h1, h2⟩ := list_lookup P hh hc
    simp only [h1]
    split
    · rename_i p hp
      obtain ⟨v, hv1, hv2⟩ := getElem?_of_lt (listPosition_lt hp)
      simp only [hv1]; exact Good.ok (h2 v hv2)
    · exact good_metaErr _ _ _ _
  · obtain ⟨r, h1, h2⟩ := record_lookup P hh hc
    simp only [h1]
    split
    · rename_i v hv
      obtain ⟨kv, hk1, hk2⟩ := assocGet_mem _ _ _ hv
      rw [← hk2]; exact Good.ok (h2 kv hk1)
    · exact good_metaErr _ _ _ _
  all_goals exact good_metaErr _ _ _ _

theorem assignPath_good (cur : List Stmt) {v : Val} : ∀ (ixs : List Index) {c : Val} {h : Heap}, HeapOK P h → ValOK P h c → ValOK P h v →
    Good (fun h' => HeapOK P h' ∧ HeapLe h h' ∧ HeapLe h' h) (assignPath cur c ixs v h)
  | [], c, h, hh, hc, hv => by simp only [assignPath]; exact Good.ok ⟨hh, HeapLe.refl _, HeapLe.refl _⟩
  | ix :: rest, c, h, hh, hc, hv => by
      simp only [assignPath]
      split
      · obtain ⟨l, h1, h2⟩ := list_lookup P hh hc
        simp only [h1]
        split
        · exact good_stmtErr _ _ _ _
        · rename_i p hp
          split
          · exact Good.ok (hh.setList P _ _ (by
              intro x hx
              rcases List.mem_or_eq_of_mem_set hx with h3 | h3
              · exact h2 x h3
              · subst h3; exact hv))
          · obtain ⟨c', hc1, hc2⟩ := getElem?_of_lt (listPosition_lt hp)
            simp only [hc1]
            exact assignPath_good cur rest hh (h2 c' hc2) hv
      · obtain ⟨r, h1, h2⟩ := record_lookup P hh hc
        simp only [h1]
        split
        · exact Good.ok (hh.setRecord P _ _ (by
            intro kv hkv
            rcases mem_assocSet _ _ _ _ hkv with h3 | h3
            · subst h3; exact hv
            · exact h2 kv h3))
        · split
          · rename_i c' hc'
            obtain ⟨kv, hk1, hk2⟩ := assocGet_mem _ _ _ hc'
            exact assignPath_good cur rest hh (by rw [← hk2]; exact h2 kv hk1) hv
          · exact good_stmtErr _ _ _ _
      all_goals exact good_stmtErr _ _ _ _

/-! ### printing -/

theorem tagOut_ne_panic {α} {r : Res α} {o : List Out} {p : String} (h : r ≠ .panic p) : r.tagOut o ≠ .panic p := by
  cases r <;> simp_all [Res.tagOut]

theorem stmtErr_ne_panic {α} (cur : List Stmt) (c : ErrClass) (t : String) (p : String) : (stmtErr cur c t : Res α) ≠ .panic p := by
  cases cur <;> simp [stmtErr, mkErr, unexpected]

theorem print_np (cur : List Stmt) : ∀ (f : Nat),
    (∀ v s p, HeapOK P s.heap → ValOK P s.heap v → printVal cur f v s ≠ .panic p) ∧
    (∀ xs first s p, HeapOK P s.heap → (∀ v ∈ xs, ValOK P s.heap v) → printElems cur f xs first s ≠ .panic p) ∧
    (∀ xs s p, HeapOK P s.heap → (∀ kv ∈ xs, ValOK P s.heap kv.2) → printEntries cur f xs s ≠ .panic p)
  | 0 => by simp [printVal, printElems, printEntries]
  | f+1 => by
      obtain ⟨ih1, ih2, ih3⟩ := print_np cur f
      obtain ⟨sp1, sp2, sp3⟩ := print_spec cur f
      refine ⟨?_, ?_, ?_⟩
      · intro v s p hh hv
        cases v with
        | num n => simp only [printVal]; split; simp; exact tagOut_ne_panic (stmtErr_ne_panic _ _ _ _)
        | bool b => simp [printVal]
        | str t => simp [printVal]
        | list i =>
          obtain ⟨l, h1, h2⟩ := list_lookup P hh hv
          simp only [printVal, h1]
          have := ih2 l true (s.emit ['[']) p hh h2
          cases hp : printElems cur f l true (s.emit ['[']) <;> simp_all
        | record i =>
          obtain ⟨r, h1, h2⟩ := record_lookup P hh hv
          simp only [printVal, h1]
          have := ih3 r ((s.emit ['@', '{']).mark .recStart) p hh h2
          cases hp : printEntries cur f r ((s.emit ['@', '{']).mark .recStart) <;> simp_all
        | func _ _ => simp only [printVal]; exact tagOut_ne_panic (stmtErr_ne_panic _ _ _ _)
        | nil => simp only [printVal]; exact tagOut_ne_panic (stmtErr_ne_panic _ _ _ _)
      · intro xs first s p hh hx
        cases xs with
        | nil => simp [printElems]
        | cons x xs =>
          simp only [printElems]
          have hh0 : (if first then s else s.emit W.sepCommaSpace).heap = s.heap := by cases first <;> rfl
          have h1 := ih1 x (if first then s else s.emit W.sepCommaSpace) p (by rw [hh0]; exact hh) (by rw [hh0]; exact hx x (by simp))
          cases hp : printVal cur f x (if first then s else s.emit W.sepCommaSpace) with
          | ok s1 =>
            simp only
            obtain ⟨t, _, ha⟩ := sp1 x _ s1 hp
            have hs1 : s1.heap = s.heap := by rw [ha.2.1, hh0]
            exact ih2 xs false s1 p (by rw [hs1]; exact hh) (by rw [hs1]; exact fun v hv => hx v (by simp [hv]))
          | err e => simp
          | panic q => simp; intro h; subst h; exact h1 hp
          | fuel => simp
      · intro xs s p hh hx
        cases xs with
        | nil => simp [printEntries]
        | cons kx xs =>
          obtain ⟨k, x⟩ := kx
          simp only [printEntries]
          have h1 := ih1 x ((s.mark .entStart).emit ('"' :: k ++ ['"', ':'])) p hh (hx (k, x) (by simp))
          cases hp : printVal cur f x ((s.mark .entStart).emit ('"' :: k ++ ['"', ':'])) with
          | ok s1 =>
            simp only
            obtain ⟨t, _, ha⟩ := sp1 x _ s1 hp
            have hs1 : ((s1.emit [',']).mark .entEnd).heap = s.heap := by show s1.heap = s.heap; rw [ha.2.1]; rfl
            exact ih3 xs _ p (by rw [hs1]; exact hh) (by rw [hs1]; exact fun v hv => hx v (by simp [hv]))
          | err e => simp
          | panic q => simp; intro h; subst h; exact h1 hp
          | fuel => simp

/-- the print statements: no panic under the invariant, and only the output changes -/
theorem printTop_good (cur : List Stmt) (f : Nat) (eol : Bool) {v : Val} {s : St} (hh : HeapOK P s.heap) (hv : ValOK P s.heap v) :
    Good (fun s' => s'.heap = s.heap ∧ s'.scopes = s.scopes ∧ s'.loops = s.loops ∧ s'.flags = s.flags ∧ s'.world = s.world)
      (printTop cur f eol v s) := by
  have hnp := (print_np P cur f).1 v s
  have hsp := (print_spec cur f).1 v s
  simp only [printTop]
  split
  · exact Good.tagOut (good_stmtErr _ _ _ _)
  · exact Good.tagOut (good_stmtErr _ _ _ _)
  · cases hp : printVal cur f v s with
    | ok s1 =>
      obtain ⟨t, _, ha⟩ := hsp s1 hp
      cases eol
      · exact Good.ok ⟨ha.2.1, ha.2.2.1, ha.2.2.2.1, ha.2.2.2.2.1, ha.2.2.2.2.2.1⟩
      · exact Good.ok ⟨ha.2.1, ha.2.2.1, ha.2.2.2.1, ha.2.2.2.2.1, ha.2.2.2.2.2.1⟩
    | err e => exact Good.err e
    | panic q => exact (hnp q hh hv hp).elim
    | fuel => exact Good.fuel

/-! ### block skipping returns a suffix -/

theorem IsSuffixOf.refl (l : List Stmt) : IsSuffixOf l l := ⟨[], rfl⟩
theorem IsSuffixOf.tail {a : Stmt} {l p : List Stmt} (h : IsSuffixOf (a :: l) p) : IsSuffixOf l p := by
  obtain ⟨pre, hp⟩ := h; exact ⟨pre ++ [a], by simp [hp]⟩
theorem IsSuffixOf.trans {a b c : List Stmt} (h1 : IsSuffixOf a b) (h2 : IsSuffixOf b c) : IsSuffixOf a c := by
  obtain ⟨p1, rfl⟩ := h1; obtain ⟨p2, rfl⟩ := h2; exact ⟨p2 ++ p1, by simp⟩

theorem skipBlock_good : ∀ (cur : List Stmt) (d : Nat), Good (fun c => IsSuffixOf c cur) (skipBlock cur d)
  | [], d => by simp only [skipBlock]; exact Good.ok (IsSuffixOf.refl _)
  | st :: r, d => by
      have step : ∀ d', Good (fun c => IsSuffixOf c (st :: r)) (skipBlock r d') := fun d' =>
        (skipBlock_good r d').mono (fun c hc => hc.trans ⟨[st], rfl⟩)
      simp only [skipBlock]
      split
      · exact step _
      · split
        · exact good_metaErr _ _ _ _
        · split
          · exact Good.ok ⟨[_], rfl⟩
          · exact step _
      · exact step _

theorem skipBlockInIf_good (cur : List Stmt) (flags : List Bool) :
    Good (fun (x : List Stmt × List Bool) => IsSuffixOf x.1 cur) (skipBlockInIf cur flags) := by
  have := skipBlock_good cur 0
  simp only [skipBlockInIf]
  cases hs : skipBlock cur 0 with
  | ok c => rw [hs] at this; simp only; split <;> exact Good.ok this
  | err e => exact Good.err e
  | panic p => rw [hs] at this; exact this.elim
  | fuel => exact Good.fuel

theorem breakScan_good (m : Meta) : ∀ (cur : List Stmt) (d : Nat), Good (fun c => IsSuffixOf c cur) (breakScan m cur d)
  | [], d => by simp only [breakScan]; exact good_metaErr _ _ _ _
  | st :: r, d => by
      have step : ∀ d', Good (fun c => IsSuffixOf c (st :: r)) (breakScan m r d') := fun d' =>
        (breakScan_good m r d').mono (fun c hc => hc.trans ⟨[st], rfl⟩)
      simp only [breakScan]
      split
      · exact step _
      · exact step _
      · split
        · exact Good.ok ⟨[_], rfl⟩
        · exact step _
      · exact good_metaErr _ _ _ _
      · exact step _

/-- every function value a definition (`ফাং` followed by its header) creates satisfies `P` -/
def FuncIntro (prog : List Stmt) : Prop :=
  ∀ pre fm ce args cm m body params, prog = pre ++ Stmt.funcDef fm :: Stmt.expr (.call ce args cm) m :: body →
    paramNames args = some params → P body.length params

theorem StOK.withHeap {prog : List Stmt} {s : St} (hs : StOK P prog s) {h : Heap} (hh : HeapOK P h) (hle : HeapLe s.heap h) :
    StOK P prog { s with heap := h } :=
  ⟨hh, hs.scopes.mono P hle, hs.loops⟩

theorem StOK.of_eq {prog : List Stmt} {s s' : St} (hs : StOK P prog s) (h1 : s'.heap = s.heap) (h2 : s'.scopes = s.scopes)
    (h3 : s'.loops = s.loops) : StOK P prog s' :=
  ⟨by rw [h1]; exact hs.heap, by rw [h1, h2]; exact hs.scopes, by rw [h3]; exact hs.loops⟩

theorem ScopesOK.drop {h : Heap} {scs : List Scope} (hs : ScopesOK P h scs) {k : Nat} (hk : k < scs.length) :
    ScopesOK P h (scs.drop k) :=
  ⟨by intro h0; have := congrArg List.length h0; simp at this; omega, fun sc hsc => hs.2 sc (List.mem_of_mem_drop hsc)⟩

theorem ScopesOK.cons {h : Heap} {scs : List Scope} (hs : ScopesOK P h scs) {sc : Scope} (hsc : ScopeOK P h sc) :
    ScopesOK P h (sc :: scs) :=
  ⟨by simp, fun x hx => by rcases List.mem_cons.mp hx with rfl | h1; exact hsc; exact hs.2 x h1⟩

theorem ScopesOK.length_pos {h : Heap} {scs : List Scope} (hs : ScopesOK P h scs) : 1 ≤ scs.length := by
  have := hs.1; cases scs <;> simp_all

theorem declareVar_good {h : Heap} {scs : List Scope} (hs : ScopesOK P h scs) (n : Str) {v : Val} (hv : ValOK P h v) :
    Good (fun sc => ScopesOK P h sc ∧ sc.length = scs.length) (declareVar scs n v) := by
  cases scs with
  | nil => exact (hs.1 rfl).elim
  | cons sc rest =>
    simp only [declareVar]
    refine Good.ok ⟨⟨by simp, ?_⟩, by simp⟩
    intro x hx
    rcases List.mem_cons.mp hx with rfl | h1
    · exact ScopeOK.set P (hs.2 sc (by simp)) hv
    · exact hs.2 x (by simp [h1])

theorem assignVar_some {v : Val} : ∀ {scs : List Scope} {n : Str} {x : Val}, lookupVar scs n = some x → ∃ sc, assignVar scs n v = some sc
  | [], _, _, h => by simp [lookupVar] at h
  | sc :: rest, n, x, h => by
      simp only [lookupVar] at h
      simp only [assignVar]
      cases hg : assocGet sc n with
      | some y => simp
      | none =>
        simp only [hg] at h
        obtain ⟨r, hr⟩ := assignVar_some (v := v) h
        simp [hr]

theorem bodyOf_suffix (prog : List Stmt) (rem : Nat) : IsSuffixOf (bodyOf prog rem) prog :=
  ⟨prog.take (prog.length - rem), (List.take_append_drop _ _).symm⟩

theorem mem_of_suffix {cur prog : List Stmt} (h : IsSuffixOf cur prog) {st : Stmt} (hm : st ∈ cur) : st ∈ prog := by
  obtain ⟨pre, rfl⟩ := h; simp [hm]

theorem execFuncDef_good {prog rest : List Stmt} {s : St} {fm : Meta} (hf : FuncIntro P prog)
    (hsuf : IsSuffixOf (Stmt.funcDef fm :: rest) prog) (hs : StOK P prog s) :
    Good (fun (x : List Stmt × St) => IsSuffixOf x.1 prog ∧ StOK P prog x.2 ∧ HeapLe s.heap x.2.heap) (execFuncDef prog rest s) := by
  simp only [execFuncDef]
  split
  · rename_i callee args cm m body
    split
    · rename_i ftok vm
      split
      · exact good_metaErr _ _ _ _
      · rename_i params hpar
        obtain ⟨pre, hpre⟩ := hsuf
        have hP : P body.length params := hf pre fm _ args cm m body params hpre hpar
        have hd := declareVar_good P hs.scopes ftok.lexeme (v := .func body.length params) (by simpa [ValOK] using hP)
        cases hdv : declareVar s.scopes ftok.lexeme (.func body.length params) with
        | ok sc =>
          rw [hdv] at hd
          simp only
          have hsk := skipBlock_good body 0
          cases hskv : skipBlock body 0 with
          | ok after =>
            rw [hskv] at hsk
            simp only
            split
            · exact good_unexpected _ _
            · rename_i e m' after'
              have h1 : IsSuffixOf after' body := IsSuffixOf.tail hsk
              have h2 : IsSuffixOf body prog := ⟨pre ++ [Stmt.funcDef fm, Stmt.expr ((Expr.var ftok vm).call args cm) m], by rw [hpre]; simp⟩
              exact Good.ok ⟨h1.trans h2, ⟨hs.heap, hd.1, hs.loops⟩, HeapLe.refl _⟩
            · split
              · exact good_metaErr _ _ _ _
              · exact good_unexpected _ _
          | err e => exact Good.err e
          | panic p => rw [hskv] at hsk; exact hsk.elim
          | fuel => exact Good.fuel
        | err e => exact Good.err e
        | panic p => rw [hdv] at hd; exact hd.elim
        | fuel => exact Good.fuel
    · exact good_metaErr _ _ _ _
  · exact good_stmtErr _ _ _ _
end
end Pakhi
