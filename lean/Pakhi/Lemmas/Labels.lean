import Pakhi.Lemmas.Relabel5
/-! the source locations written in a program; a relabelling that fixes them all fixes the program -/
namespace Pakhi

mutual
/-- every source location written in an expression (its own, its sub-expressions', its identifier tokens') -/
def exprLabels : Expr → List Meta
  | .indexing e i m => m :: (exprLabels e ++ exprLabels i)
  | .or l r m => m :: (exprLabels l ++ exprLabels r)
  | .and l r m => m :: (exprLabels l ++ exprLabels r)
  | .equality _ l r m => m :: (exprLabels l ++ exprLabels r)
  | .comparison _ l r m => m :: (exprLabels l ++ exprLabels r)
  | .addsub _ l r m => m :: (exprLabels l ++ exprLabels r)
  | .muldiv _ l r m => m :: (exprLabels l ++ exprLabels r)
  | .unary _ r m => m :: exprLabels r
  | .call f args m => m :: (exprLabels f ++ exprsLabels args)
  | .nil m => [m]
  | .bool _ m => [m]
  | .num _ m => [m]
  | .str _ m => [m]
  | .list es m => m :: exprsLabels es
  | .record ks vs m => m :: (exprsLabels ks ++ exprsLabels vs)
  | .var tok m => [m, ⟨tok.line, tok.file⟩]
  | .group e m => m :: exprLabels e
def exprsLabels : Exprs → List Meta
  | .nil => []
  | .cons e es => exprLabels e ++ exprsLabels es
end

def stmtLabels : Stmt → List Meta
  | .print e m => m :: exprLabels e
  | .printNoEOL e m => m :: exprLabels e
  | .assign a m => m :: ⟨a.var.line, a.var.file⟩ :: ((a.indexes.map exprLabels).flatten ++ (match a.init with | some e => exprLabels e | none => []))
  | .expr e m => m :: exprLabels e
  | .ret e m => m :: exprLabels e
  | .if c m => m :: exprLabels c
  | .blockStart m | .blockEnd m | .funcDef m | .loop m | .cont m | .brk m | .else m | .eos m => [m]

/-- every source location written anywhere in a program -/
def progLabels (prog : List Stmt) : List Meta := (prog.map stmtLabels).flatten

variable (σ : Meta → Meta)

theorem relTok_fix (t : Token) (h : σ ⟨t.line, t.file⟩ = ⟨t.line, t.file⟩) : relTok σ t = t := by
  simp only [relTok, h]

mutual
theorem relE_fix : ∀ (e : Expr), (∀ m ∈ exprLabels e, σ m = m) → relE σ e = e
  | .indexing e i m, h => by
      simp only [exprLabels, List.mem_cons, List.mem_append] at h
      simp only [relE, h m (Or.inl rfl), relE_fix e (fun x hx => h x (Or.inr (Or.inl hx))), relE_fix i (fun x hx => h x (Or.inr (Or.inr hx)))]
  | .or l r m, h => by
      simp only [exprLabels, List.mem_cons, List.mem_append] at h
      simp only [relE, h m (Or.inl rfl), relE_fix l (fun x hx => h x (Or.inr (Or.inl hx))), relE_fix r (fun x hx => h x (Or.inr (Or.inr hx)))]
  | .and l r m, h => by
      simp only [exprLabels, List.mem_cons, List.mem_append] at h
      simp only [relE, h m (Or.inl rfl), relE_fix l (fun x hx => h x (Or.inr (Or.inl hx))), relE_fix r (fun x hx => h x (Or.inr (Or.inr hx)))]
  | .equality op l r m, h => by
      simp only [exprLabels, List.mem_cons, List.mem_append] at h
      simp only [relE, h m (Or.inl rfl), relE_fix l (fun x hx => h x (Or.inr (Or.inl hx))), relE_fix r (fun x hx => h x (Or.inr (Or.inr hx)))]
  | .comparison op l r m, h => by
      simp only [exprLabels, List.mem_cons, List.mem_append] at h
      simp only [relE, h m (Or.inl rfl), relE_fix l (fun x hx => h x (Or.inr (Or.inl hx))), relE_fix r (fun x hx => h x (Or.inr (Or.inr hx)))]
  | .addsub op l r m, h => by
      simp only [exprLabels, List.mem_cons, List.mem_append] at h
      simp only [relE, h m (Or.inl rfl), relE_fix l (fun x hx => h x (Or.inr (Or.inl hx))), relE_fix r (fun x hx => h x (Or.inr (Or.inr hx)))]
  | .muldiv op l r m, h => by
      simp only [exprLabels, List.mem_cons, List.mem_append] at h
      simp only [relE, h m (Or.inl rfl), relE_fix l (fun x hx => h x (Or.inr (Or.inl hx))), relE_fix r (fun x hx => h x (Or.inr (Or.inr hx)))]
  | .unary op r m, h => by
      simp only [exprLabels, List.mem_cons] at h
      simp only [relE, h m (Or.inl rfl), relE_fix r (fun x hx => h x (Or.inr hx))]
  | .call f args m, h => by
      simp only [exprLabels, List.mem_cons, List.mem_append] at h
      simp only [relE, h m (Or.inl rfl), relE_fix f (fun x hx => h x (Or.inr (Or.inl hx))), relEs_fix args (fun x hx => h x (Or.inr (Or.inr hx)))]
  | .nil m, h => by simp only [relE, h m (by simp [exprLabels])]
  | .bool b m, h => by simp only [relE, h m (by simp [exprLabels])]
  | .num b m, h => by simp only [relE, h m (by simp [exprLabels])]
  | .str s m, h => by simp only [relE, h m (by simp [exprLabels])]
  | .list es m, h => by
      simp only [exprLabels, List.mem_cons] at h
      simp only [relE, h m (Or.inl rfl), relEs_fix es (fun x hx => h x (Or.inr hx))]
  | .record ks vs m, h => by
      simp only [exprLabels, List.mem_cons, List.mem_append] at h
      simp only [relE, h m (Or.inl rfl), relEs_fix ks (fun x hx => h x (Or.inr (Or.inl hx))), relEs_fix vs (fun x hx => h x (Or.inr (Or.inr hx)))]
  | .var tok m, h => by
      simp only [relE, h m (by simp [exprLabels]), relTok_fix σ tok (h _ (by simp [exprLabels]))]
  | .group e m, h => by
      simp only [exprLabels, List.mem_cons] at h
      simp only [relE, h m (Or.inl rfl), relE_fix e (fun x hx => h x (Or.inr hx))]
theorem relEs_fix : ∀ (es : Exprs), (∀ m ∈ exprsLabels es, σ m = m) → relEs σ es = es
  | .nil, _ => rfl
  | .cons e es, h => by
      simp only [exprsLabels, List.mem_append] at h
      simp only [relEs, relE_fix e (fun x hx => h x (Or.inl hx)), relEs_fix es (fun x hx => h x (Or.inr hx))]
end

theorem relS_fix (st : Stmt) (h : ∀ m ∈ stmtLabels st, σ m = m) : relS σ st = st := by
  cases st
  case assign a m =>
    obtain ⟨k, v, ixs, init⟩ := a
    simp only [stmtLabels, List.mem_cons, List.mem_append, List.mem_flatten, List.mem_map] at h
    have hixs : ixs.map (relE σ) = ixs := by
      conv => rhs; rw [← List.map_id ixs]
      apply List.map_congr_left
      intro e he
      exact relE_fix σ e (fun x hx => h x (Or.inr (Or.inr (Or.inl ⟨_, ⟨e, he, rfl⟩, hx⟩))))
    have hinit : init.map (relE σ) = init := by
      cases init with
      | none => rfl
      | some e => simp only [Option.map]; rw [relE_fix σ e (fun x hx => h x (Or.inr (Or.inr (Or.inr hx))))]
    simp only [relS, relA, h m (Or.inl rfl), relTok_fix σ v (h _ (Or.inr (Or.inl rfl))), hixs, hinit]
  all_goals
    simp only [stmtLabels, List.mem_cons, List.mem_singleton] at h
    simp only [relS]
    first
      | (rw [h _ (Or.inl rfl), relE_fix σ _ (fun x hx => h x (Or.inr hx))])
      | (rw [h _ (Or.inl rfl)])
      | (rw [h _ rfl])

theorem relL_fix (prog : List Stmt) (h : ∀ m ∈ progLabels prog, σ m = m) : relL σ prog = prog := by
  conv => rhs; rw [← List.map_id prog]
  apply List.map_congr_left
  intro st hst
  exact relS_fix σ st (fun x hx => h x (by simp only [progLabels, List.mem_flatten, List.mem_map]; exact ⟨_, ⟨st, hst, rfl⟩, hx⟩))
end Pakhi
