/-
  The parser builds the precedence ladder: operator levels, left associativity, unary and call binding (helper lemmas for C01).
-/
import Pakhi.Lemmas.ParseWF
namespace Pakhi

/-- binding strength of the root of an expression: the six binary levels, then everything tighter -/
def Expr.level : Expr → Nat
  | .or _ _ _ => 0
  | .and _ _ _ => 1
  | .equality _ _ _ _ => 2
  | .comparison _ _ _ _ => 3
  | .addsub _ _ _ _ => 4
  | .muldiv _ _ _ _ => 5
  | _ => 6

mutual
/-- the precedence ladder: under a binary node of level `k` the left operand binds at least as tightly (left
    associativity), the right operand strictly tighter, and the operator belongs to level `k`; a unary operator applies
    to something tighter than every binary level; whatever is looser sits inside parentheses, brackets or an argument list -/
def Expr.ladder : Expr → Bool
  | .or l r _ => l.ladder && r.ladder && decide (0 ≤ l.level) && decide (1 ≤ r.level)
  | .and l r _ => l.ladder && r.ladder && decide (1 ≤ l.level) && decide (2 ≤ r.level)
  | .equality op l r _ => l.ladder && r.ladder && decide (2 ≤ l.level) && decide (3 ≤ r.level) && (levelOps 2).contains op
  | .comparison op l r _ => l.ladder && r.ladder && decide (3 ≤ l.level) && decide (4 ≤ r.level) && (levelOps 3).contains op
  | .addsub op l r _ => l.ladder && r.ladder && decide (4 ≤ l.level) && decide (5 ≤ r.level) && (levelOps 4).contains op
  | .muldiv op l r _ => l.ladder && r.ladder && decide (5 ≤ l.level) && decide (6 ≤ r.level) && (levelOps 5).contains op
  | .unary op r _ => r.ladder && decide (6 ≤ r.level) && (op == .not || op == .minus)
  | .call f args _ => f.ladder && args.ladder && decide (6 ≤ f.level)
  | .indexing e i _ => e.ladder && i.ladder && decide (6 ≤ e.level)
  | .list es _ => es.ladder
  | .record ks vs _ => ks.ladder && vs.ladder
  | .group e _ => e.ladder
  | _ => true
def Exprs.ladder : Exprs → Bool
  | .nil => true
  | .cons e es => e.ladder && es.ladder
end

theorem mkBin_ladder (k : Nat) (hk : k < numLevels) (op : TK) (hop : (levelOps k).contains op = true) (l r : Expr) (m : Meta)
    (hl : l.ladder = true) (hr : r.ladder = true) (hll : k ≤ l.level) (hrl : k + 1 ≤ r.level) :
    (mkBin k op l r m).ladder = true ∧ (mkBin k op l r m).level = k := by
  simp only [numLevels] at hk
  have : k = 0 ∨ k = 1 ∨ k = 2 ∨ k = 3 ∨ k = 4 ∨ k = 5 := by omega
  rcases this with rfl | rfl | rfl | rfl | rfl | rfl <;> simp_all [mkBin, Expr.ladder, Expr.level]

theorem level_le_six (e : Expr) : e.level ≤ 6 := by cases e <;> simp [Expr.level]

set_option maxHeartbeats 4000000 in
/-- **the parser builds the precedence ladder**: whatever `or()` … `multiplication()`, `unary()`, `call()`, `primary()` return
    satisfies `ladder`, and `pLevel k` returns a root of level at least `k` -/
theorem expr_ladder : ∀ (f : Nat),
    (∀ k s e s', pLevel f k s = .ok (e, s') → e.ladder = true ∧ min k 6 ≤ e.level) ∧
    (∀ k e0 s e s', k < numLevels → e0.ladder = true → k ≤ e0.level → pLevelLoop f k e0 s = .ok (e, s') → e.ladder = true ∧ k ≤ e.level) ∧
    (∀ s e s', pUnary f s = .ok (e, s') → e.ladder = true ∧ 6 ≤ e.level) ∧
    (∀ s e s', pCall f s = .ok (e, s') → e.ladder = true ∧ 6 ≤ e.level) ∧
    (∀ e0 s e s', e0.ladder = true → 6 ≤ e0.level → pCallLoop f e0 s = .ok (e, s') → e.ladder = true ∧ 6 ≤ e.level) ∧
    (∀ e0 s e s', e0.ladder = true → 6 ≤ e0.level → pFinishCall f e0 s = .ok (e, s') → e.ladder = true ∧ 6 ≤ e.level) ∧
    (∀ s es s', pArgs f s = .ok (es, s') → es.ladder = true) ∧
    (∀ s e s', pPrimary f s = .ok (e, s') → e.ladder = true ∧ 6 ≤ e.level) ∧
    (∀ e0 s e s', e0.ladder = true → 6 ≤ e0.level → pIndexLoop f e0 s = .ok (e, s') → e.ladder = true ∧ 6 ≤ e.level) ∧
    (∀ s es s', pListElems f s = .ok (es, s') → es.ladder = true) ∧
    (∀ s ks vs s', pRecordElems f s = .ok (ks, vs, s') → ks.ladder = true ∧ vs.ladder = true)
  | 0 => by simp [pLevel, pLevelLoop, pUnary, pCall, pCallLoop, pFinishCall, pArgs, pPrimary, pIndexLoop, pListElems, pRecordElems]
  | f+1 => by
      obtain ⟨i1, i2, i3, i4, i5, i6, i7, i8, i9, i10, i11⟩ := expr_ladder f
      refine ⟨?_, ?_, ?_, ?_, ?_, ?_, ?_, ?_, ?_, ?_, ?_⟩
      · intro k s e s' h; simp only [pLevel] at h
        split at h
        · rename_i hk
          obtain ⟨a, b⟩ := i3 _ _ _ h
          exact ⟨a, by have := level_le_six e; omega⟩
        · rename_i hk
          split at h <;> try (simp at h)
          rename_i e1 s1 h1
          obtain ⟨a, b⟩ := i1 _ _ _ _ h1
          have hk' : k < numLevels := by omega
          obtain ⟨c, d⟩ := i2 _ _ _ _ _ hk' a (by simp only [numLevels] at hk'; omega) h
          exact ⟨c, by simp only [numLevels] at hk'; omega⟩
      · intro k e0 s e s' hk h0 hl0 h; simp only [pLevelLoop] at h
        split at h
        · rename_i hop
          split at h <;> try (simp at h)
          rename_i r s1 h1
          split at h <;> try (simp at h)
          rename_i m hm
          obtain ⟨a, b⟩ := i1 _ _ _ _ h1
          have hb : k + 1 ≤ r.level := by simp only [numLevels] at hk; omega
          obtain ⟨c, d⟩ := mkBin_ladder k hk s.peek hop e0 r m h0 a hl0 hb
          exact i2 _ _ _ _ _ hk c (by omega) h
        · simp at h; obtain ⟨rfl, _⟩ := h; exact ⟨h0, hl0⟩
      · intro s e s' h; simp only [pUnary] at h
        split at h
        · rename_i hop
          split at h <;> try (simp at h)
          split at h <;> try (simp at h)
          rename_i r s1 h1
          obtain ⟨rfl, _⟩ := h
          obtain ⟨a, b⟩ := i3 _ _ _ h1
          refine ⟨?_, by simp [Expr.level]⟩
          simp only [Expr.ladder, a, Bool.true_and, Bool.and_eq_true, decide_eq_true_eq]
          exact ⟨b, by simpa using hop⟩
        · exact i4 _ _ _ h
      · intro s e s' h; simp only [pCall] at h
        split at h <;> try (simp at h)
        rename_i e1 s1 h1
        obtain ⟨a, b⟩ := i8 _ _ _ h1
        exact i5 _ _ _ _ a b h
      · intro e0 s e s' h0 hl0 h; simp only [pCallLoop] at h
        split at h
        · split at h <;> try (simp at h)
          rename_i e1 s1 h1
          obtain ⟨a, b⟩ := i6 _ _ _ _ h0 hl0 h1
          exact i5 _ _ _ _ a b h
        · simp at h; obtain ⟨rfl, _⟩ := h; exact ⟨h0, hl0⟩
      · intro e0 s e s' h0 hl0 h; simp only [pFinishCall] at h
        split at h <;> try (simp at h)
        split at h
        all_goals first
          | (simp at h; obtain ⟨rfl, _⟩ := h
             refine ⟨?_, by simp [Expr.level]⟩
             simp only [Expr.ladder, Exprs.ladder, h0, Bool.true_and, decide_eq_true_eq]; exact hl0)
          | (split at h <;> try (simp at h)
             rename_i args s1 h1
             obtain ⟨rfl, _⟩ := h
             refine ⟨?_, by simp [Expr.level]⟩
             simp only [Expr.ladder, h0, i7 _ _ _ h1, Bool.true_and, decide_eq_true_eq]; exact hl0)
      · intro s es s' h; simp only [pArgs] at h
        split at h <;> try (simp at h)
        rename_i e1 s1 h1
        obtain ⟨a, _⟩ := i1 _ _ _ _ h1
        split at h
        · split at h <;> try (simp at h)
          rename_i es1 s2 h2
          obtain ⟨rfl, _⟩ := h
          simp [Exprs.ladder, a, i7 _ _ _ h2]
        · simp at h; obtain ⟨rfl, _⟩ := h; simp [Exprs.ladder, a]
      · intro s e s' h; simp only [pPrimary] at h
        repeat' split at h
        all_goals (try (simp at h))
        all_goals (try (obtain ⟨rfl, _⟩ := h))
        all_goals (try (simp [Expr.ladder, Expr.level]; done))
        all_goals first
          | exact absurd h (syntaxErr_ne_ok _ _ _)
          | exact i9 _ _ _ _ (by simp [Expr.ladder]) (by simp [Expr.level]) h
          | (simp only [Expr.ladder, Expr.level]; exact ⟨(i1 _ _ _ _ ‹_›).1, Nat.le_refl _⟩)
          | (simp only [Expr.ladder, Expr.level]; exact ⟨i10 _ _ _ ‹_›, Nat.le_refl _⟩)
          | (obtain ⟨a, b⟩ := i11 _ _ _ _ ‹_›; simp [Expr.ladder, Expr.level, a, b])
      · intro e0 s e s' h0 hl0 h; simp only [pIndexLoop] at h
        repeat' split at h
        all_goals (try (simp at h))
        all_goals first
          | (obtain ⟨rfl, _⟩ := h; exact ⟨h0, hl0⟩)
          | exact absurd h (syntaxErr_ne_ok _ _ _)
          | exact i9 _ _ _ _ (by simp only [Expr.ladder, h0, (i1 _ _ _ _ ‹_›).1, Bool.true_and, decide_eq_true_eq]; exact hl0) (by simp [Expr.level]) h
      · intro s es s' h; simp only [pListElems] at h
        repeat' split at h
        all_goals (try (simp at h))
        all_goals first
          | (obtain ⟨rfl, _⟩ := h; simp [Exprs.ladder]; done)
          | (obtain ⟨rfl, _⟩ := h; simp [Exprs.ladder, (i1 _ _ _ _ ‹_›).1, i10 _ _ _ ‹_›])
      · intro s ks vs s' h; simp only [pRecordElems] at h
        repeat' split at h
        all_goals (try (simp at h))
        all_goals first
          | (obtain ⟨rfl, rfl, _⟩ := h; simp [Exprs.ladder]; done)
          | exact absurd h (syntaxErr_ne_ok _ _ _)
          | (obtain ⟨rfl, rfl, _⟩ := h
             obtain ⟨a, b⟩ := i11 _ _ _ _ ‹_›
             simp [Exprs.ladder, a, b, (i1 _ _ _ _ ‹pLevel f 0 s = _›).1, (i1 _ _ _ _ ‹pLevel f 0 (PS.adv _) = _›).1])
end Pakhi

namespace Pakhi

theorem pExpr_ladder {s : PS} {e : Expr} {s' : PS} (h : pExpr s = .ok (e, s')) : e.ladder = true := ((expr_ladder _).1 0 s e s' h).1

def Assignment.ladder (a : Assignment) : Bool :=
  a.indexes.all Expr.ladder && (match a.init with | some e => e.ladder | none => true)

def Stmt.ladder : Stmt → Bool
  | .print e _ | .printNoEOL e _ | .expr e _ | .ret e _ | .if e _ => e.ladder
  | .assign a _ => a.ladder
  | _ => true

def progLadder (prog : List Stmt) : Bool := prog.all Stmt.ladder

theorem assignStmt_ladder {s : PS} {st : Stmt} {s' : PS} (h : assignStmt s = .ok (st, s')) : st.ladder = true := by
  simp only [assignStmt] at h
  repeat' split at h
  all_goals (try (simp [unexpected, mkErr] at h; done))
  all_goals (try (exact absurd h (syntaxErr_ne_ok _ _ _)))
  all_goals (
    rename_i hr _
    simp at h; obtain ⟨rfl, _⟩ := h
    split at hr
    · simp at hr; obtain ⟨rfl, _⟩ := hr; simp [Stmt.ladder, Assignment.ladder]
    · split at hr <;> try (simp at hr)
      rename_i e s1 he
      obtain ⟨rfl, _⟩ := hr
      simp [Stmt.ladder, Assignment.ladder, pExpr_ladder he])

theorem reassignIndexes_ladder : ∀ (f : Nat) {s : PS} {ixs : List Expr} {s' : PS}, reassignIndexes f s = .ok (ixs, s') → ixs.all Expr.ladder = true
  | 0, s, ixs, s', h => by simp [reassignIndexes] at h
  | f+1, s, ixs, s', h => by
      simp only [reassignIndexes] at h
      repeat' split at h
      all_goals (try (simp at h))
      all_goals first
        | (obtain ⟨rfl, _⟩ := h; simp; done)
        | exact absurd h (syntaxErr_ne_ok _ _ _)
        | (obtain ⟨rfl, _⟩ := h
           have h1 := pExpr_ladder ‹pExpr s = _›
           have h2 := reassignIndexes_ladder f ‹reassignIndexes f _ = _›
           simp only [List.all_cons, Bool.and_eq_true]; exact ⟨h1, h2⟩)

theorem exprStmt_ladder {s : PS} {st : Stmt} {s' : PS} (h : exprStmt s = .ok (st, s')) : st.ladder = true := by
  simp only [exprStmt] at h
  repeat' split at h
  all_goals (try (simp at h))
  obtain ⟨rfl, _⟩ := h
  simp [Stmt.ladder, pExpr_ladder ‹pExpr s = _›]

theorem reassignOrCallStmt_ladder {s : PS} {st : Stmt} {s' : PS} (h : reassignOrCallStmt s = .ok (st, s')) : st.ladder = true := by
  simp only [reassignOrCallStmt] at h
  repeat' split at h
  all_goals (try (simp at h))
  all_goals first
    | exact exprStmt_ladder h
    | (obtain ⟨rfl, _⟩ := h; simp [Stmt.ladder, pExpr_ladder ‹pExpr s = _›]; done)
    | (obtain ⟨rfl, _⟩ := h
       have h2 := reassignIndexes_ladder _ ‹reassignIndexes _ _ = _›
       have h1 := pExpr_ladder ‹pExpr (PS.adv _) = _›
       simp [Stmt.ladder, Assignment.ladder, h1, h2])

theorem printStmt_ladder {b : Bool} {s : PS} {st : Stmt} {s' : PS} (h : printStmt b s = .ok (st, s')) : st.ladder = true := by
  simp only [printStmt] at h
  repeat' split at h
  all_goals (try (simp at h))
  all_goals (obtain ⟨rfl, _⟩ := h; simp [Stmt.ladder, pExpr_ladder ‹pExpr _ = _›])

theorem oneTokenStmt_ladder {mk : Meta → Stmt} (hmk : ∀ m, (mk m).ladder = true) {s : PS} {st : Stmt} {s' : PS}
    (h : oneTokenStmt mk s = .ok (st, s')) : st.ladder = true := by
  simp only [oneTokenStmt] at h
  split at h <;> try (simp at h)
  obtain ⟨rfl, _⟩ := h; exact hmk _

theorem returnStmt_ladder {s : PS} {st : Stmt} {s' : PS} (h : returnStmt s = .ok (st, s')) : st.ladder = true := by
  simp only [returnStmt] at h
  repeat' split at h
  all_goals (try (simp at h))
  all_goals first
    | (obtain ⟨rfl, _⟩ := h; simp [Stmt.ladder, Expr.ladder]; done)
    | (obtain ⟨rfl, _⟩ := h; simp [Stmt.ladder, pExpr_ladder ‹pExpr _ = _›])

theorem ifStmt_ladder {s : PS} {st : Stmt} {s' : PS} (h : ifStmt s = .ok (st, s')) : st.ladder = true := by
  simp only [ifStmt] at h
  repeat' split at h
  all_goals (try (simp at h))
  obtain ⟨rfl, _⟩ := h
  simp [Stmt.ladder, pExpr_ladder ‹pExpr _ = _›]

theorem pStatement_ladder (ctx : PCtx) : ∀ (f : Nat) {s : PS} {st : Stmt} {s' : PS}, pStatement ctx f s = .ok (st, s') → st.ladder = true
  | 0, s, st, s', h => by simp [pStatement] at h
  | f+1, s, st, s', h => by
      simp only [pStatement] at h
      repeat' split at h
      all_goals (try (simp [unexpected] at h; done))
      all_goals first
        | exact printStmt_ladder h
        | exact assignStmt_ladder h
        | exact reassignOrCallStmt_ladder h
        | exact oneTokenStmt_ladder (fun _ => rfl) h
        | exact ifStmt_ladder h
        | exact returnStmt_ladder h
        | exact pStatement_ladder ctx f h
        | exact absurd h (syntaxErr_ne_ok _ _ _)
        | (simp at h; obtain ⟨rfl, _⟩ := h; rfl)

theorem parseLoop_ladder (ctx : PCtx) : ∀ (f : Nat) {s : PS} {acc prog : List Stmt}, acc.all Stmt.ladder = true →
    parseLoop ctx f s acc = .ok prog → progLadder prog = true
  | 0, s, acc, prog, _, h => by simp [parseLoop] at h
  | f+1, s, acc, prog, ha, h => by
      simp only [parseLoop] at h
      split at h <;> try (simp at h)
      rename_i st s1 hst
      have hw := pStatement_ladder ctx f hst
      have ha' : (st :: acc).all Stmt.ladder = true := by simp only [List.all_cons, Bool.and_eq_true]; exact ⟨hw, ha⟩
      split at h
      · simp at h; subst h
        simp only [progLadder, List.all_eq_true] at *
        intro x hx
        exact ha' x (by simp at hx ⊢; exact hx.symm)
      · split at h
        · simp [unexpected] at h
        · split at h
          · exact parseLoop_ladder ctx f ha' h
          · exact parseLoop_ladder ctx f ha' h

/-- **every expression of every program the parser returns sits on the precedence ladder** -/
theorem parse_ladder (ctx : PCtx) (fuel : Nat) (toks : List Token) (prog : List Stmt) (h : parse ctx fuel toks = .ok prog) :
    progLadder prog = true := by
  simp only [parse] at h
  repeat' split at h
  all_goals (try (simp at h))
  exact parseLoop_ladder ctx fuel (by simp) h
end Pakhi
