/- The layout specification `Lexes` and the proof that the tokenizer satisfies it (helper lemmas for C10 / C11). -/
import Pakhi.Lemmas.Lexer
namespace Pakhi

def isBlank (c : Char) : Bool := c == ' ' || c == '\t' || c == '\r' || c == '\n'

/-- `t` is written at the head of `src` and occupies its first `n` characters: any token's lexeme is
    that text verbatim; a string token's lexeme is its content, written between quotes (the closing
    quote may be missing only when the source ends inside the string) -/
def TokText (t : Token) (src : Str) (n : Nat) : Prop :=
  1 ≤ n ∧
  (match t.kind with
   | .str v => t.lexeme = v ∧ (src.take n = '"' :: v ++ ['"'] ∨ (src = '"' :: v ∧ n = v.length + 2))
   | _ => t.lexeme = src.take n ∧ n ≤ src.length)

/-- `Spec.Layout`: the token list accounts for every non-blank character of the source exactly once, in
    order, and every token carries the number of the line its first character is written on -/
inductive Lexes : Str → Nat → List Token → Prop where
  | nil (line : Nat) : Lexes [] line []
  | blank {c rest line toks} : isBlank c = true → Lexes rest (line + if c = '\n' then 1 else 0) toks → Lexes (c :: rest) line toks
  | tok {t src n line toks} : t.line = line → t.kind ≠ .eot → TokText t src n →
      Lexes (src.drop n) (line + countNewlines (src.take n)) toks → Lexes src line (t :: toks)

theorem countNewlines_nil : countNewlines [] = 0 := rfl
theorem countNewlines_cons (c : Char) (s : Str) : countNewlines (c :: s) = (if c = '\n' then 1 else 0) + countNewlines s := by
  by_cases h : c = '\n'
  · subst h; simp [countNewlines, List.filter]; omega
  · have : (c == '\n') = false := by simpa using h
    simp [countNewlines, List.filter, h, this]
theorem countNewlines_append (a b : Str) : countNewlines (a ++ b) = countNewlines a + countNewlines b := by
  simp [countNewlines, List.filter_append]

theorem countNewlines_zero_of (s : Str) (h : ∀ c ∈ s, c ≠ '\n') : countNewlines s = 0 := by
  induction s with
  | nil => rfl
  | cons c r ih =>
    rw [countNewlines_cons]
    have : c ≠ '\n' := h c (by simp)
    simp [this, ih (fun x hx => h x (by simp [hx]))]

/-- the scanned literal consists of numeric characters and dots, and lies within the source -/
theorem scanNum_span (line : Nat) (file : Str) : ∀ (fuel : Nat) (src : Str) (inFrac : Bool) (acc : Str) (n : Nat) (txt : Str) (k : Nat),
    scanNum line file fuel src inFrac acc n = .ok (txt, k) →
    n ≤ k ∧ k - n ≤ src.length ∧ ∀ c ∈ src.take (k - n), (isNumeric c = true ∨ c = '.')
  | 0, _, _, _, _, _, _, h => by simp [scanNum] at h; simp [h.2]
  | f+1, [], _, _, _, _, _, h => by simp [scanNum] at h; simp [h.2]
  | f+1, c :: rest, inFrac, acc, n, txt, k, h => by
      simp only [scanNum] at h
      split at h
      · rename_i hdot
        split at h
        · simp [mkErr] at h
        · obtain ⟨h1, h2, h3⟩ := scanNum_span line file f rest true _ _ txt k h
          have hk : k - n = (k - (n + 1)) + 1 := by omega
          refine ⟨by omega, by simp; omega, ?_⟩
          rw [hk]; intro x hx
          simp at hx
          rcases hx with rfl | hx
          · right; simpa using hdot
          · exact h3 x hx
      · split at h
        · rename_i hnum
          split at h
          · obtain ⟨h1, h2, h3⟩ := scanNum_span line file f rest inFrac _ _ txt k h
            have hk : k - n = (k - (n + 1)) + 1 := by omega
            refine ⟨by omega, by simp; omega, ?_⟩
            rw [hk]; intro x hx
            simp at hx
            rcases hx with rfl | hx
            · left; exact hnum
            · exact h3 x hx
          · simp [mkErr] at h
        · simp at h; simp [h.2]

theorem consumeNum_span (c : Char) (rest : Str) (line : Nat) (file : Str) (b : Num.Bits) (n : Nat)
    (h : consumeNum (c :: rest) line file = .ok (b, n)) :
    n ≤ (c :: rest).length ∧ ∀ x ∈ (c :: rest).take n, x ≠ '\n' := by
  unfold consumeNum at h
  simp only at h
  split at h
  · rename_i txt k hs
    cases hp : Num.parseF64 txt with
    | none => simp [hp, mkErr] at h
    | some b' =>
      simp [hp] at h
      obtain ⟨_, hk⟩ := h
      subst hk
      split at hs
      · rename_i hm
        have hc : c = '-' := by simpa using hm
        obtain ⟨h1, h2, h3⟩ := scanNum_span line file _ rest false _ 1 txt k hs
        refine ⟨by simp; omega, ?_⟩
        obtain ⟨j, hj⟩ : ∃ j, k = j + 1 := ⟨k - 1, by omega⟩
        subst hj
        intro x hx
        simp at hx
        rcases hx with rfl | hx
        · rw [hc]; decide
        · have := h3 x (by simpa using hx)
          rcases this with h4 | h4
          · intro e; subst e; simp [isNumeric] at h4
          · subst h4; decide
      · obtain ⟨h1, h2, h3⟩ := scanNum_span line file _ (c :: rest) false _ 0 txt k hs
        refine ⟨by simpa using h2, ?_⟩
        intro x hx
        have := h3 x (by simpa using hx)
        rcases this with h4 | h4
        · intro e; subst e; simp [isNumeric] at h4
        · subst h4; decide
  · simp at h
  · simp at h
  · simp at h
end Pakhi

namespace Pakhi

theorem skipComment_span (line : Nat) (file : Str) : ∀ (fuel : Nat) (src : Str) (sk ln n l : Nat),
    skipComment line file fuel src sk ln = .ok (n, l) →
    sk < n ∧ n - sk ≤ src.length ∧ l = ln + countNewlines (src.take (n - sk))
  | 0, _, _, _, _, _, h => by simp [skipComment] at h
  | f+1, [], _, _, _, _, h => by simp [skipComment, mkErr] at h
  | f+1, c :: rest, sk, ln, n, l, h => by
      by_cases h1 : (c == '#') = true
      · have hc : c = '#' := by simpa using h1
        simp [skipComment, h1] at h
        obtain ⟨rfl, rfl⟩ := h
        have : sk + 1 - sk = 1 := by omega
        subst hc
        simp [this, countNewlines_cons, countNewlines_nil]
      · by_cases h2 : (c == '\\') = true
        · have hc : c = '\\' := by simpa using h2
          cases rest with
          | nil =>
            have := skipComment_span line file f [] (sk + 1) ln n l (by simpa [skipComment, h1, h2] using h)
            simp at this; omega
          | cons d r =>
            by_cases h3 : d = '#'
            · subst h3
              have := skipComment_span line file f r (sk + 2) ln n l (by simpa [skipComment, h1, h2] using h)
              obtain ⟨a1, a2, a3⟩ := this
              have e : n - sk = (n - (sk + 2)) + 2 := by omega
              refine ⟨by omega, by simp; omega, ?_⟩
              rw [e, a3]; subst hc
              simp [countNewlines_cons]
            · have hstep : skipComment line file (f+1) (c :: d :: r) sk ln = skipComment line file f (d :: r) (sk + 1) ln := by
                simp only [skipComment, h1, h2, Bool.false_eq_true, if_false, if_true]
                split
                · rename_i heq; simp at heq; exact absurd heq.1 h3
                · rfl
              rw [hstep] at h
              obtain ⟨a1, a2, a3⟩ := skipComment_span line file f (d :: r) (sk + 1) ln n l h
              have e : n - sk = (n - (sk + 1)) + 1 := by omega
              refine ⟨by omega, by simp at a2 ⊢; omega, ?_⟩
              rw [e, a3]; subst hc
              simp [countNewlines_cons]
        · by_cases h4 : (c == '\n') = true
          · have hc : c = '\n' := by simpa using h4
            obtain ⟨a1, a2, a3⟩ := skipComment_span line file f rest (sk + 1) (ln + 1) n l (by simpa [skipComment, h1, h2, h4] using h)
            have e : n - sk = (n - (sk + 1)) + 1 := by omega
            refine ⟨by omega, by simp; omega, ?_⟩
            rw [e, a3]; subst hc
            simp [countNewlines_cons]; omega
          · have hc : c ≠ '\n' := by simpa using h4
            obtain ⟨a1, a2, a3⟩ := skipComment_span line file f rest (sk + 1) ln n l (by simpa [skipComment, h1, h2, h4] using h)
            have e : n - sk = (n - (sk + 1)) + 1 := by omega
            refine ⟨by omega, by simp; omega, ?_⟩
            rw [e, a3]
            simp [countNewlines_cons, hc]

/-- what one successful tokenizer step yields -/
def StepSpec (src : Str) (line : Nat) (t? : Option Token) (n l : Nat) : Prop :=
  match t? with
  | some t => t.line = line ∧ t.kind ≠ .eot ∧ TokText t src n ∧ l = countNewlines (src.take n)
  | none => n = 1 ∧ l = countNewlines (src.take 1) ∧ ∃ c rest, src = c :: rest ∧ isBlank c = true

theorem mkTok_step (src : Str) (line : Nat) (file : Str) (k : TK) (n : Nat) (hn : 1 ≤ n) (hle : n ≤ src.length)
    (hk : k ≠ .eot) (hstr : ∀ v, k ≠ .str v) (hnl : ∀ c ∈ src.take n, c ≠ '\n') :
    ∀ t? m l, mkTok src line file k n = .ok (t?, m, l) → StepSpec src line t? m l := by
  intro t? m l h
  simp [mkTok] at h
  obtain ⟨rfl, rfl, rfl⟩ := h
  refine ⟨rfl, hk, ⟨hn, ?_⟩, (countNewlines_zero_of _ hnl).symm⟩
  cases k <;> first | exact absurd rfl (hstr _) | exact ⟨rfl, hle⟩

end Pakhi

namespace Pakhi

theorem consumeNumTok_step (c : Char) (rest : Str) (line : Nat) (file : Str) (hc : c == '-' ∨ isNumeric c = true) :
    ∀ t? m l, consumeNumTok (c :: rest) line file = .ok (t?, m, l) → StepSpec (c :: rest) line t? m l := by
  intro t? m l h
  unfold consumeNumTok at h
  split at h
  · rename_i b n hn
    have sp := consumeNum_span c rest line file b n hn
    have pos := (consumeNum_spec c rest line file hc).1 b n hn
    exact mkTok_step _ line file (.num b) n pos sp.1 (by simp) (by simp) sp.2 t? m l h
  · simp at h
  · simp at h
  · simp at h

theorem consumeMinusOrDigit_step (c : Char) (rest : Str) (line : Nat) (file : Str) (ao : Bool)
    (h0 : (c == '-' || (bnDigitVal? c).isSome) = true) :
    ∀ t? m l, consumeMinusOrDigit c rest line file ao = .ok (t?, m, l) → StepSpec (c :: rest) line t? m l := by
  have hc : c == '-' ∨ isNumeric c = true := by
    rcases (Bool.or_eq_true _ _).mp h0 with h | h
    · exact Or.inl h
    · right; unfold bnDigitVal? at h; split at h <;> first | decide | simp at h
  intro t? m l h
  unfold consumeMinusOrDigit at h
  split at h
  · exact consumeNumTok_step c rest line file hc t? m l h
  · rename_i hcond
    have hminus : c = '-' := by
      rcases hc with h1 | h1
      · simpa using h1
      · simp [h1] at hcond
    subst hminus
    split at h
    · exact mkTok_step _ line file .map 2 (by omega) (by simp) (by simp) (by simp) (by intro x hx; simp at hx; rcases hx with rfl | rfl <;> decide) t? m l h
    · exact mkTok_step _ line file .minus 1 (by omega) (by simp) (by simp) (by simp) (by intro x hx; simp at hx; subst hx; decide) t? m l h

theorem consumeTwoChar_step (c : Char) (rest : Str) (line : Nat) (file : Str) (k2 k1 : TK) (hc : c ≠ '\n')
    (h2 : k2 ≠ .eot ∧ ∀ v, k2 ≠ .str v) (h1 : k1 ≠ .eot ∧ ∀ v, k1 ≠ .str v) :
    ∀ t? m l, consumeTwoChar c rest line file k2 k1 = .ok (t?, m, l) → StepSpec (c :: rest) line t? m l := by
  intro t? m l h
  unfold consumeTwoChar at h
  split at h
  · exact mkTok_step _ line file k2 2 (by omega) (by simp) h2.1 h2.2 (by intro x hx; simp at hx; rcases hx with rfl | rfl; exact hc; decide) t? m l h
  · exact mkTok_step _ line file k1 1 (by omega) (by simp) h1.1 h1.2 (by intro x hx; simp at hx; subst hx; exact hc) t? m l h

theorem consumeComment_step (rest : Str) (line : Nat) (file : Str) :
    ∀ t? m l, consumeComment '#' rest line file = .ok (t?, m, l) → StepSpec ('#' :: rest) line t? m l := by
  intro t? m l h
  unfold consumeComment at h
  split at h
  · rename_i n l' hs
    obtain ⟨a1, a2, a3⟩ := skipComment_span line file _ rest 1 0 n l' hs
    simp at h
    obtain ⟨rfl, rfl, rfl⟩ := h
    obtain ⟨j, rfl⟩ : ∃ j, n = j + 1 := ⟨n - 1, by omega⟩
    refine ⟨rfl, by simp, ⟨by omega, rfl, by simp; omega⟩, ?_⟩
    simp [countNewlines_cons] at a3 ⊢; exact a3
  · simp at h
  · simp at h
  · simp at h

theorem takeWhile_append_dropWhile {α} (p : α → Bool) (l : List α) : l.takeWhile p ++ l.dropWhile p = l := by
  induction l with
  | nil => rfl
  | cons a r ih => by_cases h : p a = true <;> simp [List.takeWhile, List.dropWhile, h, ih]

theorem split_at_quote : ∀ (rest : Str), ∃ val dr, rest = val ++ dr ∧ rest.takeWhile (· != '"') = val ∧ (dr = [] ∨ ∃ tl, dr = '"' :: tl)
  | [] => ⟨[], [], rfl, rfl, Or.inl rfl⟩
  | c :: r => by
      by_cases hc : c = '"'
      · subst hc; exact ⟨[], '"' :: r, rfl, by simp [List.takeWhile], Or.inr ⟨r, rfl⟩⟩
      · obtain ⟨val, dr, h1, h2, h3⟩ := split_at_quote r
        have : (c != '"') = true := by simpa using hc
        exact ⟨c :: val, dr, by simp [h1], by simp [List.takeWhile, this, h2], h3⟩

theorem string_span (val dr : Str) (hdr : dr = [] ∨ ∃ tl, dr = '"' :: tl) :
    (('"' :: (val ++ dr)).take (val.length + 2) = '"' :: val ++ ['"'] ∨ ('"' :: (val ++ dr) = '"' :: val)) ∧
    countNewlines (('"' :: (val ++ dr)).take (val.length + 2)) = countNewlines val := by
  rcases hdr with rfl | ⟨tl, rfl⟩
  · refine ⟨Or.inr (by simp), ?_⟩
    simp [countNewlines_cons, List.take_of_length_le]
  · have ht : ('"' :: (val ++ '"' :: tl)).take (val.length + 2) = '"' :: val ++ ['"'] := by
      simp [List.take_append, List.take_of_length_le]
    refine ⟨Or.inl ht, ?_⟩
    rw [ht]; simp [countNewlines_cons, countNewlines_append, countNewlines_nil]

theorem consumeStringTok_step (rest : Str) (line : Nat) (file : Str) :
    ∀ t? m l, consumeStringTok ('"' :: rest) line file = .ok (t?, m, l) → StepSpec ('"' :: rest) line t? m l := by
  intro t? m l h
  obtain ⟨val, dr, h1, h2, h3⟩ := split_at_quote rest
  simp [consumeStringTok, consumeString, h2] at h
  obtain ⟨rfl, rfl, rfl⟩ := h
  have sp := string_span val dr h3
  subst h1
  refine ⟨rfl, by simp, ⟨by omega, rfl, ?_⟩, sp.2.symm⟩
  rcases sp.1 with h4 | h4
  · exact Or.inl h4
  · exact Or.inr ⟨h4, rfl⟩

theorem takeWhile_length_le {α} (p : α → Bool) : ∀ (l : List α), (l.takeWhile p).length ≤ l.length
  | [] => by simp
  | a :: r => by
      by_cases h : p a = true
      · simp [List.takeWhile, h]; exact takeWhile_length_le p r
      · simp [List.takeWhile, h]

theorem mem_takeWhile_p {α} (p : α → Bool) : ∀ (l : List α) (x : α), x ∈ l.takeWhile p → p x = true
  | [], x, h => by simp at h
  | a :: r, x, h => by
      by_cases ha : p a = true
      · simp [List.takeWhile, ha] at h
        rcases h with rfl | h
        · exact ha
        · exact mem_takeWhile_p p r x h
      · simp [List.takeWhile, ha] at h

theorem take_takeWhile_length {α} (p : α → Bool) : ∀ (l : List α), l.take (l.takeWhile p).length = l.takeWhile p
  | [] => by simp
  | a :: r => by
      by_cases h : p a = true
      · simp [List.takeWhile, h, take_takeWhile_length p r]
      · simp [List.takeWhile, h]

theorem consumeWord_step (c : Char) (rest : Str) (line : Nat) (file : Str) :
    ∀ t? m l, consumeWord c rest line file = .ok (t?, m, l) → StepSpec (c :: rest) line t? m l := by
  intro t? m l h
  unfold consumeWord at h
  by_cases hi : isIdentChar c = true
  · have hl : 1 ≤ ((c :: rest).takeWhile isIdentChar).length := by simp [List.takeWhile, hi]
    have hle : ((c :: rest).takeWhile isIdentChar).length ≤ (c :: rest).length := takeWhile_length_le _ _
    have hnl : ∀ x ∈ (c :: rest).take ((c :: rest).takeWhile isIdentChar).length, x ≠ '\n' := by
      intro x hx
      rw [take_takeWhile_length] at hx
      have := mem_takeWhile_p _ _ _ hx
      intro e; subst e; simp [isIdentChar, isAsciiWhitespace] at this
    simp only [hi, Bool.not_true, Bool.false_eq_true, if_false] at h
    split at h
    · rename_i k hk
      have hk1 : k ≠ .eot ∧ ∀ v, k ≠ .str v := by
        unfold keyword? at hk
        have : ∀ p ∈ keywordTable, p.2 ≠ .eot ∧ ∀ v, p.2 ≠ .str v := by
          intro p hp; simp [keywordTable] at hp
          rcases hp with rfl | rfl | rfl | rfl | rfl | rfl | rfl | rfl | rfl | rfl | rfl | rfl | rfl <;> simp
        cases hf : keywordTable.find? (fun p => p.1 == (c :: rest).takeWhile isIdentChar) with
        | none => simp [hf] at hk
        | some p => simp [hf] at hk; subst hk; exact this p (List.mem_of_find?_eq_some hf)
      exact mkTok_step _ line file k _ hl hle hk1.1 hk1.2 hnl t? m l h
    · exact mkTok_step _ line file .ident _ hl hle (by simp) (by simp) hnl t? m l h
  · simp [hi, mkErr] at h
end Pakhi

namespace Pakhi

theorem simpleTok_facts (c : Char) (k : TK) (h : simpleTok? c = some k) : c ≠ '\n' ∧ k ≠ .eot ∧ ∀ v, k ≠ .str v := by
  unfold simpleTok? at h
  split at h <;> simp at h <;> subst h <;> simp

/-- one successful step of the tokenizer satisfies the layout specification -/
theorem consume_step (c : Char) (rest : Str) (line : Nat) (file : Str) (ao : Bool) :
    ∀ t? m l, consume (c :: rest) line file ao = .ok (t?, m, l) → StepSpec (c :: rest) line t? m l := by
  intro t? m l h
  unfold consume at h
  simp only at h
  split at h
  · rename_i h0; exact consumeMinusOrDigit_step c rest line file ao h0 t? m l h
  · split at h
    · rename_i k hk
      obtain ⟨f1, f2, f3⟩ := simpleTok_facts c k hk
      exact mkTok_step _ line file k 1 (by omega) (by simp) f2 f3 (by intro x hx; simp at hx; subst hx; exact f1) t? m l h
    · split at h
      · rename_i hc; have : c = '!' := by simpa using hc
        subst this
        exact consumeTwoChar_step _ rest line file .ne .not (by decide) (by simp) (by simp) t? m l h
      split at h
      · rename_i hc; have : c = '=' := by simpa using hc
        subst this
        exact consumeTwoChar_step _ rest line file .eqeq .eq (by decide) (by simp) (by simp) t? m l h
      split at h
      · rename_i hc; have : c = '<' := by simpa using hc
        subst this
        exact consumeTwoChar_step _ rest line file .le .lt (by decide) (by simp) (by simp) t? m l h
      split at h
      · rename_i hc; have : c = '>' := by simpa using hc
        subst this
        exact consumeTwoChar_step _ rest line file .ge .gt (by decide) (by simp) (by simp) t? m l h
      split at h
      · rename_i hc; have : c = '#' := by simpa using hc
        subst this
        exact consumeComment_step rest line file t? m l h
      split at h
      · rename_i hc; have : c = '"' := by simpa using hc
        subst this
        exact consumeStringTok_step rest line file t? m l h
      split at h
      · rename_i hc
        simp at h; obtain ⟨rfl, rfl, rfl⟩ := h
        have hb : isBlank c = true := by
          simp at hc; rcases hc with (rfl | rfl) | rfl <;> decide
        have hn : c ≠ '\n' := by
          simp at hc; rcases hc with (rfl | rfl) | rfl <;> decide
        exact ⟨rfl, by simp [countNewlines_cons, countNewlines_nil, hn], c, rest, rfl, hb⟩
      split at h
      · rename_i hc; have : c = '\n' := by simpa using hc
        subst this
        simp at h; obtain ⟨rfl, rfl, rfl⟩ := h
        exact ⟨rfl, by simp [countNewlines_cons, countNewlines_nil], '\n', rest, rfl, by decide⟩
      · exact consumeWord_step c rest line file t? m l h

/-- the tokenizer loop yields, behind the tokens collected so far, a token list that satisfies the layout
    specification for the remaining source, closed by one end marker -/
theorem tokenizeLoop_lexes (file : Str) : ∀ (fuel : Nat) (src : Str) (line : Nat) (acc : List Token) (toks : List Token),
    tokenizeLoop file fuel src line acc = .ok toks →
    ∃ body, toks = acc.reverse ++ body ++ [eotToken file] ∧ Lexes src line body
  | 0, _, _, _, _, h => by simp [tokenizeLoop] at h
  | f+1, [], line, acc, toks, h => by
      simp [tokenizeLoop] at h; subst h
      exact ⟨[], by simp, Lexes.nil line⟩
  | f+1, c :: rest, line, acc, toks, h => by
      simp only [tokenizeLoop] at h
      generalize lastEndsOperand acc = ao at h
      cases hc : consume (c :: rest) line file ao with
      | ok r =>
        obtain ⟨t?, n, l⟩ := r
        simp only [hc] at h
        have sp := consume_step c rest line file ao t? n l hc
        cases t? with
        | none =>
          obtain ⟨rfl, hl, c', rest', hsrc, hb⟩ := sp
          simp at hsrc; obtain ⟨rfl, rfl⟩ := hsrc
          obtain ⟨body, hb1, hb2⟩ := tokenizeLoop_lexes file f _ _ acc toks h
          refine ⟨body, hb1, Lexes.blank hb ?_⟩
          simp [countNewlines_cons, countNewlines_nil] at hl
          simp at hb2; rw [hl] at hb2; exact hb2
        | some t =>
          obtain ⟨h1, h2, h3, h4⟩ := sp
          obtain ⟨body, hb1, hb2⟩ := tokenizeLoop_lexes file f _ _ (t :: acc) toks h
          refine ⟨t :: body, by simp [hb1], Lexes.tok h1 h2 h3 ?_⟩
          rw [← h4]; exact hb2
      | err e => simp [hc] at h
      | panic p => simp [hc] at h
      | fuel => simp [hc] at h

/-- C10 `tokenize_cover` + `tokenize_lines`: on success the tokens, in order, account for every non-blank
    character of the source exactly once (string contents verbatim, a comment as one token), each carries the
    1-based number of the line its first character is written on — also after strings and comments that span
    lines — and the list ends with exactly one end marker -/
theorem tokenize_lexes (src file : Str) (toks : List Token) (h : tokenize src file = .ok toks) :
    ∃ body, toks = body ++ [eotToken file] ∧ Lexes src 1 body := by
  obtain ⟨body, h1, h2⟩ := tokenizeLoop_lexes file _ src 1 [] toks h
  exact ⟨body, by simpa using h1, h2⟩

/-- no token before the end marker is an end marker -/
theorem lexes_no_eot : ∀ {src : Str} {line : Nat} {body : List Token}, Lexes src line body → ∀ t ∈ body, t.kind ≠ .eot := by
  intro src line body h
  induction h with
  | nil => intro t ht; cases ht
  | blank _ _ ih => exact ih
  | tok _ h2 _ _ ih =>
    intro t ht
    rcases List.mem_cons.mp ht with rfl | ht
    · exact h2
    · exact ih t ht
end Pakhi
