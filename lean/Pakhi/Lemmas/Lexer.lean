/- Tokenizer lemmas: progress and absence of panics (helper lemmas for C10 / C11). -/
import Pakhi.Model.Lexer
namespace Pakhi

theorem scanNum_count (line : Nat) (file : Str) : ∀ (fuel : Nat) (src : Str) (inFrac : Bool) (acc : Str) (n : Nat) (txt : Str) (k : Nat),
    scanNum line file fuel src inFrac acc n = .ok (txt, k) → n ≤ k
  | 0, _, _, _, _, _, _, h => by simp [scanNum] at h; omega
  | f+1, [], _, _, _, _, _, h => by simp [scanNum] at h; omega
  | f+1, c :: rest, inFrac, acc, n, txt, k, h => by
      simp only [scanNum] at h
      split at h
      · split at h
        · simp [mkErr] at h
        · have := scanNum_count line file f rest true _ _ txt k h; omega
      · split at h
        · split at h
          · have := scanNum_count line file f rest inFrac _ _ txt k h; omega
          · simp [mkErr] at h
        · simp at h; omega

theorem scanNum_not_bad (line : Nat) (file : Str) : ∀ (fuel : Nat) (src : Str) (inFrac : Bool) (acc : Str) (n : Nat),
    (∀ p, scanNum line file fuel src inFrac acc n ≠ .panic p) ∧ scanNum line file fuel src inFrac acc n ≠ .fuel
  | 0, _, _, _, _ => by simp [scanNum]
  | f+1, [], _, _, _ => by simp [scanNum]
  | f+1, c :: rest, inFrac, acc, n => by
      simp only [scanNum]
      split
      · split
        · simp [mkErr]
        · exact scanNum_not_bad line file f rest true _ _
      · split
        · split
          · exact scanNum_not_bad line file f rest inFrac _ _
          · simp [mkErr]
        · simp

/-- `consume_num` consumes at least one character and never panics on a non-empty input -/
theorem consumeNum_spec (c : Char) (rest : Str) (line : Nat) (file : Str) (hc : c == '-' ∨ isNumeric c = true) :
    (∀ b n, consumeNum (c :: rest) line file = .ok (b, n) → 1 ≤ n) ∧
    (∀ p, consumeNum (c :: rest) line file ≠ .panic p) ∧ consumeNum (c :: rest) line file ≠ .fuel := by
  unfold consumeNum
  by_cases hm : (c == '-') = true
  · simp only [hm, if_true]
    have nb := scanNum_not_bad line file (rest.length + 1) rest false ['-'] 1
    cases hs : scanNum line file (rest.length + 1) rest false ['-'] 1 with
    | ok r =>
      obtain ⟨txt, k⟩ := r
      have := scanNum_count line file _ _ _ _ _ txt k hs
      refine ⟨?_, ?_, ?_⟩ <;> (simp only []; cases Num.parseF64 txt <;> simp [mkErr]) ; omega
    | err e => simp
    | panic p => exact absurd hs (nb.1 p)
    | fuel => exact absurd hs nb.2
  · have hnum : isNumeric c = true := by rcases hc with h | h; exact absurd h hm; exact h
    simp only [hm, Bool.false_eq_true, if_false]
    have nb := scanNum_not_bad line file ((c :: rest).length + 1) (c :: rest) false [] 0
    cases hs : scanNum line file ((c :: rest).length + 1) (c :: rest) false [] 0 with
    | ok r =>
      obtain ⟨txt, k⟩ := r
      have hk : 1 ≤ k := by
        obtain ⟨f, hf⟩ : ∃ f, (c :: rest).length + 1 = f + 1 := ⟨_, rfl⟩
        rw [hf] at hs
        have hdot : (c == '.') = false := by
          cases hd : (c == '.') with
          | false => rfl
          | true => have : c = '.' := by simpa using hd
                    subst this; simp [isNumeric] at hnum
        simp only [scanNum, hdot, Bool.false_eq_true, if_false, hnum, if_true] at hs
        split at hs
        · exact scanNum_count line file _ _ _ _ _ txt k hs
        · simp [mkErr] at hs
      refine ⟨?_, ?_, ?_⟩ <;> (simp only []; cases Num.parseF64 txt <;> simp [mkErr]) ; omega
    | err e => simp
    | panic p => exact absurd hs (nb.1 p)
    | fuel => exact absurd hs nb.2

theorem skipComment_spec (line : Nat) (file : Str) : ∀ (fuel : Nat) (src : Str) (sk ln : Nat), src.length < fuel →
    (∀ n l, skipComment line file fuel src sk ln = .ok (n, l) → sk < n) ∧
    (∀ p, skipComment line file fuel src sk ln ≠ .panic p) ∧ skipComment line file fuel src sk ln ≠ .fuel
  | 0, _, _, _, h => by omega
  | f+1, [], sk, ln, _ => by simp [skipComment, mkErr]
  | f+1, c :: rest, sk, ln, h => by
      have hr : rest.length < f := by simp at h; omega
      have lift : ∀ (src' : Str) (sk' ln' : Nat), src'.length < f → sk < sk' →
          (∀ n l, skipComment line file f src' sk' ln' = .ok (n, l) → sk < n) ∧
          (∀ p, skipComment line file f src' sk' ln' ≠ .panic p) ∧ skipComment line file f src' sk' ln' ≠ .fuel := by
        intro src' sk' ln' hl hsk
        have := skipComment_spec line file f src' sk' ln' hl
        exact ⟨fun n l hx => by have := this.1 n l hx; omega, this.2⟩
      by_cases h1 : (c == '#') = true
      · simp [skipComment, h1]
      · by_cases h2 : (c == '\\') = true
        · cases rest with
          | nil => simpa [skipComment, h1, h2] using lift [] (sk + 1) ln hr (by omega)
          | cons d r =>
            by_cases h3 : d = '#'
            · subst h3
              simpa [skipComment, h1, h2] using lift r (sk + 2) ln (by simp at hr; omega) (by omega)
            · have : skipComment line file (f+1) (c :: d :: r) sk ln = skipComment line file f (d :: r) (sk + 1) ln := by
                simp only [skipComment, h1, h2, Bool.false_eq_true, if_false, if_true]
                split
                · rename_i heq; simp at heq; exact absurd heq.1 h3
                · rfl
              rw [this]; exact lift (d :: r) (sk + 1) ln hr (by omega)
        · by_cases h4 : (c == '\n') = true
          · simpa [skipComment, h1, h2, h4] using lift rest (sk + 1) (ln + 1) hr (by omega)
          · simpa [skipComment, h1, h2, h4] using lift rest (sk + 1) ln hr (by omega)

/-- the outcome shape a tokenizer step must have: progress on success, an error value otherwise -/
def Consumed.Good (r : Consumed) : Prop :=
  match r with
  | .ok (_, n, _) => 1 ≤ n
  | .err e => e.cls = .syntax
  | .panic _ => False
  | .fuel => False

theorem mkTok_good (src : Str) (line : Nat) (file : Str) (k : TK) (n : Nat) (h : 1 ≤ n) :
    Consumed.Good (mkTok src line file k n) := by simp [mkTok, Consumed.Good, h]

theorem scanNum_err_syntax (line : Nat) (file : Str) : ∀ (fuel : Nat) (src : Str) (inFrac : Bool) (acc : Str) (n : Nat) (e : PErr),
    scanNum line file fuel src inFrac acc n = .err e → e.cls = .syntax
  | 0, _, _, _, _, _, h => by simp [scanNum] at h
  | f+1, [], _, _, _, _, h => by simp [scanNum] at h
  | f+1, c :: rest, inFrac, acc, n, e, h => by
      simp only [scanNum] at h
      split at h
      · split at h
        · simp [mkErr] at h; subst h; rfl
        · exact scanNum_err_syntax line file f rest true _ _ e h
      · split at h
        · split at h
          · exact scanNum_err_syntax line file f rest inFrac _ _ e h
          · simp [mkErr] at h; subst h; rfl
        · simp at h

theorem consumeNum_err_syntax (src : Str) (line : Nat) (file : Str) (e : PErr) (h : consumeNum src line file = .err e) : e.cls = .syntax := by
  unfold consumeNum at h
  cases src with
  | nil => simp at h
  | cons c rest =>
    simp only at h
    split at h
    · rename_i txt n hs
      cases hp : Num.parseF64 txt with
      | some b => simp [hp] at h
      | none => simp [hp, mkErr] at h; subst h; rfl
    · rename_i e' hs
      simp at h; subst h
      split at hs <;> exact scanNum_err_syntax line file _ _ _ _ _ _ hs
    · simp at h
    · simp at h

theorem consumeNumTok_good (c : Char) (rest : Str) (line : Nat) (file : Str) (hc : c == '-' ∨ isNumeric c = true) :
    Consumed.Good (consumeNumTok (c :: rest) line file) := by
  have sp := consumeNum_spec c rest line file hc
  unfold consumeNumTok
  cases hn : consumeNum (c :: rest) line file with
  | ok r => obtain ⟨b, n⟩ := r; exact mkTok_good _ _ _ _ _ (sp.1 b n hn)
  | err e => simp [Consumed.Good]; exact consumeNum_err_syntax _ _ _ e hn
  | panic p => exact absurd hn (sp.2.1 p)
  | fuel => exact absurd hn sp.2.2

theorem consumeMinusOrDigit_good (c : Char) (rest : Str) (line : Nat) (file : Str) (ao : Bool)
    (h0 : (c == '-' || (bnDigitVal? c).isSome) = true) : Consumed.Good (consumeMinusOrDigit c rest line file ao) := by
  have hc : c == '-' ∨ isNumeric c = true := by
    rcases (Bool.or_eq_true _ _).mp h0 with h | h
    · exact Or.inl h
    · right
      unfold bnDigitVal? at h
      split at h <;> first | decide | simp at h
  unfold consumeMinusOrDigit
  split
  · exact consumeNumTok_good c rest line file hc
  · split <;> exact mkTok_good _ _ _ _ _ (by omega)

theorem consumeTwoChar_good (c : Char) (rest : Str) (line : Nat) (file : Str) (k2 k1 : TK) :
    Consumed.Good (consumeTwoChar c rest line file k2 k1) := by
  unfold consumeTwoChar; split <;> exact mkTok_good _ _ _ _ _ (by omega)

theorem skipComment_err_syntax (line : Nat) (file : Str) : ∀ (fuel : Nat) (src : Str) (sk ln : Nat) (e : PErr),
    skipComment line file fuel src sk ln = .err e → e.cls = .syntax
  | 0, _, _, _, _, h => by simp [skipComment] at h
  | f+1, [], _, _, e, h => by simp [skipComment, mkErr] at h; subst h; rfl
  | f+1, c :: rest, sk, ln, e, h => by
      simp only [skipComment] at h
      split at h
      · simp at h
      · split at h
        · split at h <;> exact skipComment_err_syntax line file f _ _ _ e h
        · split at h <;> exact skipComment_err_syntax line file f _ _ _ e h

theorem consumeComment_good (c : Char) (rest : Str) (line : Nat) (file : Str) : Consumed.Good (consumeComment c rest line file) := by
  have sp := skipComment_spec line file (rest.length + 1) rest 1 0 (by omega)
  unfold consumeComment
  cases hs : skipComment line file (rest.length + 1) rest 1 0 with
  | ok r => obtain ⟨n, l⟩ := r; have := sp.1 n l hs; simp [Consumed.Good]; omega
  | err e => simp [Consumed.Good]; exact skipComment_err_syntax _ _ _ _ _ _ e hs
  | panic p => exact absurd hs (sp.2.1 p)
  | fuel => exact absurd hs sp.2.2

theorem consumeStringTok_good (src : Str) (line : Nat) (file : Str) : Consumed.Good (consumeStringTok src line file) := by
  simp [consumeStringTok, consumeString, Consumed.Good]

theorem consumeWord_good (c : Char) (rest : Str) (line : Nat) (file : Str) : Consumed.Good (consumeWord c rest line file) := by
  unfold consumeWord
  by_cases h : isIdentChar c = true
  · have hl : 1 ≤ ((c :: rest).takeWhile isIdentChar).length := by simp [List.takeWhile, h]
    simp only [h, Bool.not_true, Bool.false_eq_true, if_false]
    split <;> exact mkTok_good _ _ _ _ _ hl
  · simp [h, mkErr, Consumed.Good]

/-- every call of `consume` on a non-empty input makes progress or reports a syntax error; it never
    panics (fix F1/F2) and never returns a zero-width token (fix F3, the former infinite loop) -/
theorem consume_good (c : Char) (rest : Str) (line : Nat) (file : Str) (ao : Bool) :
    Consumed.Good (consume (c :: rest) line file ao) := by
  unfold consume
  simp only
  split
  · rename_i h0; exact consumeMinusOrDigit_good c rest line file ao h0
  · split
    · exact mkTok_good _ _ _ _ _ (by omega)
    · split; exact consumeTwoChar_good ..
      split; exact consumeTwoChar_good ..
      split; exact consumeTwoChar_good ..
      split; exact consumeTwoChar_good ..
      split; exact consumeComment_good ..
      split; exact consumeStringTok_good ..
      split; simp [Consumed.Good]
      split; simp [Consumed.Good]
      exact consumeWord_good ..

/-- `tokenize` is total: with the fuel it is given (|src| + 1) it returns a token list or a syntax
    error — never a panic, never out of fuel (no hang), for every character sequence -/
theorem tokenizeLoop_total (file : Str) : ∀ (fuel : Nat) (src : Str) (line : Nat) (acc : List Token), src.length < fuel →
    (∃ toks, tokenizeLoop file fuel src line acc = .ok toks) ∨ (∃ e, tokenizeLoop file fuel src line acc = .err e ∧ e.cls = .syntax)
  | 0, _, _, _, h => by omega
  | f+1, [], line, acc, _ => by simp [tokenizeLoop]
  | f+1, c :: rest, line, acc, h => by
      simp only [tokenizeLoop]
      generalize lastEndsOperand acc = ao
      have g := consume_good c rest line file ao
      cases hc : consume (c :: rest) line file ao with
      | ok r =>
        obtain ⟨t, n, l⟩ := r
        rw [hc] at g
        have hn : 1 ≤ n := g
        apply tokenizeLoop_total file f
        simp at h ⊢; omega
      | err e => rw [hc] at g; exact Or.inr ⟨e, rfl, g⟩
      | panic p => rw [hc] at g; exact absurd g (by simp [Consumed.Good])
      | fuel => rw [hc] at g; exact absurd g (by simp [Consumed.Good])

theorem tokenize_total (src : Str) (file : Str) :
    (∃ toks, tokenize src file = .ok toks) ∨ (∃ e, tokenize src file = .err e ∧ e.cls = .syntax) :=
  tokenizeLoop_total file (src.length + 1) src 1 [] (by omega)
end Pakhi
