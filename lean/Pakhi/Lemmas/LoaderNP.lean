/- Module loader helpers never panic (helper lemmas for C12 / C15). -/
import Pakhi.Lemmas.StmtNP
namespace Pakhi

theorem importPathLoop_np : ∀ (f : Nat) (toks : List Token) (acc : Str) (i : Nat) (p : String), importPathLoop f toks acc i ≠ .panic p
  | 0, _, _, _, _ => by simp [importPathLoop]
  | f+1, [], _, _, _ => by simp [importPathLoop, unexpected]
  | f+1, t :: r, acc, i, p => by
      simp only [importPathLoop]
      split <;> first | exact importPathLoop_np f _ _ _ p | simp [mkErr]

theorem importPathTail_np (toks : List Token) (p : String) : importPathTail toks ≠ .panic p := by
  unfold importPathTail
  split
  · simp [unexpected]
  · split <;> first | exact importPathLoop_np _ _ _ _ p | simp [mkErr]

theorem allImportPaths_np : ∀ (toks : List Token) (p : String), allImportPaths toks ≠ .panic p
  | [], p => by simp [allImportPaths]
  | t :: r, p => by
      have ih := allImportPaths_np r
      have t1 := importPathTail_np
      simp only [allImportPaths]
      repeat' split
      all_goals (try simp_all)

theorem pathParent_none (p : Str) (h : pathParent p = none) : p = [] ∨ p = ['/'] := by
  unfold pathParent at h
  split at h
  · rename_i hc; simp at hc; rcases hc with h1 | h1
    · left; exact h1
    · right; exact h1
  · split at h <;> (try split at h) <;> simp at h

theorem pathJoin_cases (a b : Str) : pathJoin a b = b ∨ pathJoin a b = a ++ b ∨ pathJoin a b = a ++ ('/' :: b) := by
  unfold pathJoin
  split
  · left; rfl
  · split
    · left; rfl
    · split
      · right; left; rfl
      · right; right; rfl

/-- a path with at least two characters has a parent -/
theorem pathParent_some_of_long (p : Str) (h : 2 ≤ p.length) : ∃ d, pathParent p = some d := by
  cases hp : pathParent p with
  | some d => exact ⟨d, rfl⟩
  | none => rcases pathParent_none p hp with h1 | h1 <;> (subst h1; simp at h)

theorem pathJoin_length (a b : Str) : b.length ≤ (pathJoin a b).length := by
  rcases pathJoin_cases a b with h | h | h <;> simp [h]; omega

theorem dirWithSlash_np (ctx : PCtx) (loc : Str) (hl : 2 ≤ loc.length) (p : String) : dirWithSlash ctx loc ≠ .panic p := by
  unfold dirWithSlash
  have h2 : 2 ≤ (absPath ctx loc).length := by
    unfold absPath
    split
    · exact hl
    · have := pathJoin_length ctx.cwd loc; omega
  obtain ⟨d, hd⟩ := pathParent_some_of_long _ h2
  rw [hd]; simp

theorem expandDirname_np (ctx : PCtx) (toks : List Token) (loc : Str) (hl : 2 ≤ loc.length) (p : String) :
    expandDirname ctx toks loc ≠ .panic p := by
  have d := dirWithSlash_np ctx loc hl
  unfold expandDirname
  split
  · split <;> simp_all
  · simp
end Pakhi
