/-
  The marker of the mark–sweep collector marks exactly the reachable containers
  (helper lemmas for C07 / C08).  Cycles, sharing and list↔record nesting included.
-/
import Pakhi.Model.Interp

namespace Pakhi

def isRef : Val → Bool
  | .list _ | .record _ => true
  | _ => false

/-- the values stored in a container -/
def children (h : Heap) : Val → List Val
  | .list i => (h.lists[i]?).getD []
  | .record i => ((h.records[i]?).getD []).map (·.2)
  | _ => []

def isMarked (m : Marks) : Val → Bool
  | .list i => (m.lists[i]?).getD false
  | .record i => (m.records[i]?).getD false
  | _ => false

def setMark (m : Marks) : Val → Marks
  | .list i => { m with lists := m.lists.set i true }
  | .record i => { m with records := m.records.set i true }
  | _ => m

/-- reachability of a container from a list of root values -/
inductive Reach (h : Heap) (roots : List Val) : Val → Prop where
  | root {v} : v ∈ roots → isRef v = true → Reach h roots v
  | step {u v} : Reach h roots u → v ∈ children h u → isRef v = true → Reach h roots v

theorem reach_mono {h vs ws v} (hsub : ∀ x, x ∈ vs → x ∈ ws) (r : Reach h vs v) : Reach h ws v := by
  induction r with
  | root hm hr => exact .root (hsub _ hm) hr
  | step _ hj hr ih => exact .step ih hj hr

theorem reach_via {h vs u k} (hu : u ∈ vs) (hru : isRef u = true) (r : Reach h (children h u) k) : Reach h vs k := by
  induction r with
  | root hm hr => exact .step (.root hu hru) hm hr
  | step _ hj hr ih => exact .step ih hj hr

structure MarkSpec (h : Heap) (vs : List Val) (m m' : Marks) : Prop where
  lenL : m'.lists.length = m.lists.length
  lenR : m'.records.length = m.records.length
  mono : ∀ v, isMarked m v = true → isMarked m' v = true
  roots : ∀ v, v ∈ vs → isRef v = true → isMarked m' v = true
  closed : ∀ u, isMarked m' u = true → isMarked m u = false → ∀ v, v ∈ children h u → isRef v = true → isMarked m' v = true
  sound : ∀ v, isMarked m' v = true → isMarked m v = true ∨ Reach h vs v

theorem isMarked_isRef (m : Marks) (v : Val) (h : isMarked m v = true) : isRef v = true := by
  cases v <;> simp_all [isMarked, isRef]

theorem isMarked_setMark_self (m : Marks) (v : Val) (hb : ∃ b, (match v with
    | .list i => m.lists[i]? | .record i => m.records[i]? | _ => none) = some b) : isMarked (setMark m v) v = true := by
  obtain ⟨b, hb⟩ := hb
  cases v <;> simp_all [isMarked, setMark]
  · rename_i i; have := (List.getElem?_eq_some_iff.mp hb).1; simp [this]
  · rename_i i; have := (List.getElem?_eq_some_iff.mp hb).1; simp [this]

theorem isMarked_setMark_of (m : Marks) (v w : Val) (h : isMarked m w = true) : isMarked (setMark m v) w = true := by
  cases v <;> cases w <;> simp_all [isMarked, setMark, List.getElem?_set]
  all_goals (split <;> (try simp_all))
  all_goals (try (split <;> simp_all))

theorem isMarked_setMark_other (m : Marks) (v w : Val) (hne : w ≠ v) : isMarked (setMark m v) w = isMarked m w := by
  cases v <;> cases w <;> simp_all [isMarked, setMark, List.getElem?_set]
  all_goals (rename_i a b; have : ¬ a = b := fun e => hne e.symm; simp [this])

theorem spec_skip {h : Heap} {v : Val} {vs : List Val} {m m' : Marks} (s : MarkSpec h vs m m')
    (hv : isRef v = true → isMarked m' v = true) : MarkSpec h (v :: vs) m m' := by
  refine ⟨s.lenL, s.lenR, s.mono, ?_, s.closed, ?_⟩
  · intro w hw hr
    cases hw with
    | head => exact hv hr
    | tail _ hw => exact s.roots w hw hr
  · intro w hw
    rcases s.sound w hw with h1 | h1
    · exact Or.inl h1
    · exact Or.inr (reach_mono (fun x hx => List.mem_cons_of_mem _ hx) h1)

/-- combination used when an unmarked reference `v` is marked, its content walked (`s1`) and the
    rest of the list walked afterwards (`s2`) -/
theorem spec_descend {h : Heap} {v : Val} {vs : List Val} {m m1 m' : Marks} (hr : isRef v = true)
    (hself : isMarked (setMark m v) v = true)
    (s1 : MarkSpec h (children h v) (setMark m v) m1) (s2 : MarkSpec h vs m1 m') : MarkSpec h (v :: vs) m m' := by
  have lenL : (setMark m v).lists.length = m.lists.length := by cases v <;> simp [setMark]
  have lenR : (setMark m v).records.length = m.records.length := by cases v <;> simp [setMark]
  refine ⟨by rw [s2.lenL, s1.lenL, lenL], by rw [s2.lenR, s1.lenR, lenR], ?_, ?_, ?_, ?_⟩
  · intro w hw; exact s2.mono w (s1.mono w (isMarked_setMark_of m v w hw))
  · intro w hw hrw
    cases hw with
    | head => exact s2.mono _ (s1.mono _ hself)
    | tail _ hw => exact s2.roots w hw hrw
  · intro u hu' hu w hw hrw
    by_cases h3 : isMarked m1 u = true
    · by_cases h4 : u = v
      · subst h4; exact s2.mono w (s1.roots w hw hrw)
      · have : isMarked (setMark m v) u = false := by rw [isMarked_setMark_other m v u h4]; exact hu
        exact s2.mono w (s1.closed u h3 this w hw hrw)
    · exact s2.closed u hu' (by simpa using h3) w hw hrw
  · intro w hw
    rcases s2.sound w hw with h3 | h3
    · rcases s1.sound w h3 with h4 | h4
      · by_cases h5 : w = v
        · subst h5; exact Or.inr (.root List.mem_cons_self hr)
        · rw [isMarked_setMark_other m v w h5] at h4; exact Or.inl h4
      · exact Or.inr (reach_via List.mem_cons_self hr h4)
    · exact Or.inr (reach_mono (fun x hx => List.mem_cons_of_mem _ hx) h3)

theorem spec_nil (h : Heap) (m : Marks) : MarkSpec h [] m m :=
  ⟨rfl, rfl, fun _ h => h, fun _ hm _ => (by cases hm), fun _ h1 h2 => (by simp_all), fun _ h => Or.inl h⟩

/-- partial correctness of the two mutually recursive walkers -/
theorem mark_spec (h : Heap) : ∀ (f : Nat),
    (∀ vs m m', markVals h f vs m = .ok m' → MarkSpec h vs m m') ∧
    (∀ v m m', markVal h f v m = .ok m' → MarkSpec h [v] m m')
  | 0 => by
      constructor
      · intro vs m m' hx; simp [markVals] at hx
      · intro v m m' hx; simp [markVal] at hx
  | f+1 => by
      have ih := mark_spec h f
      constructor
      · intro vs m m' hx
        cases vs with
        | nil => simp only [markVals] at hx; cases hx; exact spec_nil h m
        | cons v vs =>
          simp only [markVals] at hx
          cases h1 : markVal h f v m with
          | ok m1 =>
            simp only [h1] at hx
            have s1 := ih.2 v m m1 h1
            have s2 := ih.1 vs m1 m' hx
            refine ⟨by rw [s2.lenL, s1.lenL], by rw [s2.lenR, s1.lenR], fun w hw => s2.mono w (s1.mono w hw), ?_, ?_, ?_⟩
            · intro w hw hrw
              cases hw with
              | head => exact s2.mono _ (s1.roots _ List.mem_cons_self hrw)
              | tail _ hw => exact s2.roots w hw hrw
            · intro u hu' hu w hw hrw
              by_cases h3 : isMarked m1 u = true
              · exact s2.mono w (s1.closed u h3 hu w hw hrw)
              · exact s2.closed u hu' (by simpa using h3) w hw hrw
            · intro w hw
              rcases s2.sound w hw with h3 | h3
              · rcases s1.sound w h3 with h4 | h4
                · exact Or.inl h4
                · exact Or.inr (reach_mono (fun x hx => by simp at hx; subst hx; exact List.mem_cons_self) h4)
              · exact Or.inr (reach_mono (fun x hx => List.mem_cons_of_mem _ hx) h3)
          | panic p => simp [h1] at hx
          | fuel => simp [h1] at hx
      · intro v m m' hx
        cases v with
        | list i =>
          simp only [markVal] at hx
          cases hm : m.lists[i]? with
          | none => simp [hm] at hx
          | some b =>
            cases b with
            | true =>
              simp [hm] at hx; subst hx
              exact spec_skip (spec_nil h m) (fun _ => by simp [isMarked, hm])
            | false =>
              simp only [hm] at hx
              cases hl : h.lists[i]? with
              | none => simp [hl] at hx
              | some l =>
                simp only [hl] at hx
                have s1 := ih.1 l _ m' hx
                have hch : children h (.list i) = l := by simp [children, hl]
                have := spec_descend (h := h) (v := .list i) (vs := []) (m := m) (m1 := m') (m' := m') rfl
                  (isMarked_setMark_self m (.list i) ⟨false, hm⟩)
                  (by rw [hch]; exact s1) (spec_nil h m')
                exact this
        | record i =>
          simp only [markVal] at hx
          cases hm : m.records[i]? with
          | none => simp [hm] at hx
          | some b =>
            cases b with
            | true =>
              simp [hm] at hx; subst hx
              exact spec_skip (spec_nil h m) (fun _ => by simp [isMarked, hm])
            | false =>
              simp only [hm] at hx
              cases hl : h.records[i]? with
              | none => simp [hl] at hx
              | some r =>
                simp only [hl] at hx
                have s1 := ih.1 (r.map (·.2)) _ m' hx
                have hch : children h (.record i) = r.map (·.2) := by simp [children, hl]
                exact spec_descend (h := h) (v := .record i) (vs := []) (m := m) (m1 := m') (m' := m') rfl
                  (isMarked_setMark_self m (.record i) ⟨false, hm⟩)
                  (by rw [hch]; exact s1) (spec_nil h m')
        | num _ => simp [markVal] at hx; subst hx; exact spec_skip (spec_nil h m) (by simp [isRef])
        | bool _ => simp [markVal] at hx; subst hx; exact spec_skip (spec_nil h m) (by simp [isRef])
        | str _ => simp [markVal] at hx; subst hx; exact spec_skip (spec_nil h m) (by simp [isRef])
        | func _ _ => simp [markVal] at hx; subst hx; exact spec_skip (spec_nil h m) (by simp [isRef])
        | nil => simp [markVal] at hx; subst hx; exact spec_skip (spec_nil h m) (by simp [isRef])

end Pakhi
