/-
  The marker never runs out of fuel: `markFuel` covers the remaining work (helper lemmas for C07 / C08).
-/
import Pakhi.Lemmas.GcInv
namespace Pakhi

/-- total size (length + 1) of the arena slots that are not yet marked -/
def unmarkedW {α : Type} : List (List α) → List Bool → Nat
  | a :: as, b :: bs => (if b then 0 else a.length + 1) + unmarkedW as bs
  | _, _ => 0

def arenaW {α : Type} : List (List α) → Nat
  | [] => 0
  | a :: as => a.length + 1 + arenaW as

theorem unmarkedW_le {α : Type} : ∀ (arena : List (List α)) (ms : List Bool), unmarkedW arena ms ≤ arenaW arena
  | [], _ => by simp [unmarkedW, arenaW]
  | a :: as, [] => by simp [unmarkedW]
  | a :: as, b :: bs => by
      have := unmarkedW_le as bs
      simp only [unmarkedW, arenaW]; split <;> omega

theorem arenaW_ge {α : Type} : ∀ (arena : List (List α)) (i : Nat) (l : List α), arena[i]? = some l → l.length + 1 ≤ arenaW arena
  | [], i, l, h => by simp at h
  | a :: as, 0, l, h => by simp at h; subst h; simp [arenaW]
  | a :: as, i+1, l, h => by
      have := arenaW_ge as i l (by simpa using h)
      simp [arenaW]; omega

theorem unmarkedW_set {α : Type} : ∀ (arena : List (List α)) (ms : List Bool) (i : Nat) (l : List α),
    arena[i]? = some l → ms[i]? = some false → unmarkedW arena (ms.set i true) + (l.length + 1) = unmarkedW arena ms
  | [], _, i, l, h, _ => by simp at h
  | a :: as, [], i, l, _, h => by simp at h
  | a :: as, b :: bs, 0, l, h1, h2 => by
      simp at h1 h2; subst h1; subst h2
      simp [unmarkedW]; omega
  | a :: as, b :: bs, i+1, l, h1, h2 => by
      have := unmarkedW_set as bs i l (by simpa using h1) (by simpa using h2)
      simp only [List.set_cons_succ, unmarkedW]; omega

theorem unmarkedW_mono {α : Type} : ∀ (arena : List (List α)) (ms ms' : List Bool), ms'.length = ms.length →
    (∀ i : Nat, ms[i]? = some true → ms'[i]? = some true) → unmarkedW arena ms' ≤ unmarkedW arena ms
  | [], _, _, _, _ => by simp [unmarkedW]
  | a :: as, [], ms', hl, _ => by
      cases ms' with
      | nil => simp [unmarkedW]
      | cons x xs => simp at hl
  | a :: as, b :: bs, [], hl, _ => by simp at hl
  | a :: as, b :: bs, b' :: bs', hl, hm => by
      have ih := unmarkedW_mono as bs bs' (by simpa using hl) (fun i hi => by simpa using hm (i+1) (by simpa using hi))
      have h0 := hm 0
      simp only [unmarkedW]
      cases b <;> cases b' <;> simp_all <;> omega

/-- the work still to do: unmarked lists and records, by size -/
def markWork (h : Heap) (m : Marks) : Nat := unmarkedW h.lists m.lists + unmarkedW h.records m.records

theorem heap_size_eq (h : Heap) : h.size = arenaW h.lists + arenaW h.records := by
  have key : ∀ {α : Type} (l : List (List α)) (n : Nat), l.foldl (fun n x => n + x.length + 1) n = n + arenaW l := by
    intro α l
    induction l with
    | nil => intro n; simp [arenaW]
    | cons a as ih => intro n; simp only [List.foldl_cons, ih, arenaW]; omega
  simp only [Heap.size, key]; omega

theorem markWork_le (h : Heap) (m : Marks) : markWork h m ≤ h.size := by
  rw [heap_size_eq]
  exact Nat.add_le_add (unmarkedW_le _ _) (unmarkedW_le _ _)

theorem markWork_mono {h : Heap} {vs : List Val} {m m' : Marks} (s : MarkSpec h vs m m') : markWork h m' ≤ markWork h m := by
  refine Nat.add_le_add (unmarkedW_mono _ _ _ s.lenL ?_) (unmarkedW_mono _ _ _ s.lenR ?_)
  · intro i hi
    have := s.mono (.list i) (by simp [isMarked, hi])
    exact (isMarked_list_iff m' i).mp this
  · intro i hi
    have := s.mono (.record i) (by simp [isMarked, hi])
    exact (isMarked_record_iff m' i).mp this
end Pakhi

namespace Pakhi

theorem markWork_setL {h : Heap} {m : Marks} {i : Nat} {l : List Val} (hl : h.lists[i]? = some l) (hm : m.lists[i]? = some false) :
    markWork h { m with lists := m.lists.set i true } + (l.length + 1) = markWork h m := by
  have := unmarkedW_set h.lists m.lists i l hl hm
  simp only [markWork]; omega

theorem markWork_setR {h : Heap} {m : Marks} {i : Nat} {r : RecordObj} (hr : h.records[i]? = some r) (hm : m.records[i]? = some false) :
    markWork h { m with records := m.records.set i true } + (r.length + 1) = markWork h m := by
  have := unmarkedW_set h.records m.records i r hr hm
  simp only [markWork]; omega

/-- **the walkers never run out of fuel** when the fuel covers the remaining work -/
theorem mark_fuel (h : Heap) : ∀ (f : Nat),
    (∀ vs m, vs.length + 1 + markWork h m ≤ f → markVals h f vs m ≠ .fuel) ∧
    (∀ v m, 1 + markWork h m ≤ f → markVal h f v m ≠ .fuel)
  | 0 => by
      constructor
      · intro vs m hf; omega
      · intro v m hf; omega
  | f+1 => by
      obtain ⟨ih1, ih2⟩ := mark_fuel h f
      constructor
      · intro vs m hf
        cases vs with
        | nil => simp [markVals]
        | cons v vs =>
          simp only [markVals]
          simp only [List.length_cons] at hf
          cases h1 : markVal h f v m with
          | ok m1 =>
            simp only
            have := markWork_mono ((mark_spec h f).2 v m m1 h1)
            exact ih1 vs m1 (by omega)
          | panic p => simp
          | fuel => exact (ih2 v m (by omega) h1).elim
      · intro v m hf
        cases v with
        | list i =>
          simp only [markVal]
          split
          · simp
          · simp
          · rename_i hm
            split
            · simp
            · rename_i l hl
              have := markWork_setL hl hm
              exact ih1 l _ (by omega)
        | record i =>
          simp only [markVal]
          split
          · simp
          · simp
          · rename_i hm
            split
            · simp
            · rename_i r hr
              have := markWork_setR hr hm
              exact ih1 _ _ (by simp only [List.length_map]; omega)
        | num _ => simp [markVal]
        | bool _ => simp [markVal]
        | str _ => simp [markVal]
        | func _ _ => simp [markVal]
        | nil => simp [markVal]

theorem markWork_set_le {h : Heap} {m : Marks} (i : Nat) :
    markWork h { m with lists := m.lists.set i true } ≤ markWork h m ∧ markWork h { m with records := m.records.set i true } ≤ markWork h m := by
  constructor
  · refine Nat.add_le_add (unmarkedW_mono _ _ _ (by simp) ?_) (Nat.le_refl _)
    intro j hj
    simp only [List.getElem?_set]
    split
    · split
      · rfl
      · rename_i h1 h2; subst h1; exact absurd (List.getElem?_eq_some_iff.mp hj).1 h2
    · exact hj
  · refine Nat.add_le_add (Nat.le_refl _) (unmarkedW_mono _ _ _ (by simp) ?_)
    intro j hj
    simp only [List.getElem?_set]
    split
    · split
      · rfl
      · rename_i h1 h2; subst h1; exact absurd (List.getElem?_eq_some_iff.mp hj).1 h2
    · exact hj

theorem markRoots_fuel (h : Heap) : ∀ (f : Nat) (vs : List Val) (m : Marks), 2 * h.size + vs.length + 2 ≤ f → markRoots h f vs m ≠ .fuel
  | 0, _, _, hf => by omega
  | f+1, [], m, _ => by simp [markRoots]
  | f+1, v :: vs, m, hf => by
      simp only [List.length_cons] at hf
      have hrest : ∀ m', markRoots h f vs m' ≠ .fuel := fun m' => markRoots_fuel h f vs m' (by omega)
      cases v with
      | list i =>
        simp only [markRoots]
        split
        · rename_i b l hm hl
          have hw := (markWork_set_le (h := h) (m := m) i).1
          have hs := markWork_le h m
          have hlen : l.length + 1 ≤ h.size := by
            rw [heap_size_eq]; have := arenaW_ge h.lists i l hl; omega
          have hne := (mark_fuel h f).1 l { m with lists := m.lists.set i true } (by omega)
          cases hmv : markVals h f l { m with lists := m.lists.set i true } with
          | ok m1 => simp only; exact hrest m1
          | panic p => simp
          | fuel => exact (hne hmv).elim
        · simp
      | record i =>
        simp only [markRoots]
        split
        · rename_i b r hm hr
          have hw := (markWork_set_le (h := h) (m := m) i).2
          have hs := markWork_le h m
          have hlen : r.length + 1 ≤ h.size := by
            rw [heap_size_eq]; have := arenaW_ge h.records i r hr; omega
          have hne := (mark_fuel h f).1 (r.map (·.2)) { m with records := m.records.set i true } (by simp only [List.length_map]; omega)
          cases hmv : markVals h f (r.map (·.2)) { m with records := m.records.set i true } with
          | ok m1 => simp only; exact hrest m1
          | panic p => simp
          | fuel => exact (hne hmv).elim
        · simp
      | num _ => simp only [markRoots]; exact hrest m
      | bool _ => simp only [markRoots]; exact hrest m
      | str _ => simp only [markRoots]; exact hrest m
      | func _ _ => simp only [markRoots]; exact hrest m
      | nil => simp only [markRoots]; exact hrest m

/-- **`collect` always completes**: the marker's fuel bound is sufficient for every heap and every root set -/
theorem collect_never_out_of_fuel (scopes : List Scope) (h : Heap) : collect scopes h ≠ .fuel := by
  have hf : 2 * h.size + (rootVals scopes).length + 2 ≤ markFuel h (rootVals scopes) := by
    simp only [markFuel]
    have h1 : (h.size + (rootVals scopes).length + 2) * 2 ≤ (h.size + (rootVals scopes).length + 2) * ((rootVals scopes).length + 2) :=
      Nat.mul_le_mul_left _ (by omega)
    have h2 : 2 * (h.size + (rootVals scopes).length + 2) * ((rootVals scopes).length + 2) =
        2 * ((h.size + (rootVals scopes).length + 2) * ((rootVals scopes).length + 2)) := Nat.mul_assoc _ _ _
    omega
  have := markRoots_fuel h _ (rootVals scopes) (Marks.init h) hf
  simp only [collect]
  cases hm : markRoots h (markFuel h (rootVals scopes)) (rootVals scopes) (Marks.init h) <;> simp_all
end Pakhi
