/-
  Fuel monotonicity: an outcome other than out-of-fuel is unchanged by more fuel (printing and the evaluator).
-/
import Pakhi.Lemmas.Render
namespace Pakhi

/-- `r'` is `r` unless `r` ran out of fuel -/
def FLe {α : Type} (r r' : Res α) : Prop := r = .fuel ∨ r' = r

theorem FLe.refl {α} (r : Res α) : FLe r r := Or.inr rfl
theorem FLe.fuel {α} (r' : Res α) : FLe .fuel r' := Or.inl rfl
theorem FLe.bind {α β} {r r' : Res α} {g g' : α → Res β} (h : FLe r r') (hg : ∀ a, FLe (g a) (g' a)) :
    FLe (r.bind g) (r'.bind g') := by
  rcases h with h | h
  · subst h; exact Or.inl rfl
  · subst h
    cases r' with
    | ok a => simpa [Res.bind] using hg a
    | err e => exact Or.inr rfl
    | panic p => exact Or.inr rfl
    | fuel => exact Or.inl rfl
theorem FLe.tagOut {α} {r r' : Res α} (o : List Out) (h : FLe r r') : FLe (r.tagOut o) (r'.tagOut o) := by
  rcases h with h | h
  · subst h; exact Or.inl rfl
  · subst h; exact Or.inr rfl
theorem FLe.trans {α} {a b c : Res α} (h1 : FLe a b) (h2 : FLe b c) : FLe a c := by
  rcases h1 with h | h
  · exact Or.inl h
  · subst h; exact h2
theorem FLe.eq {α} {r r' : Res α} (h : FLe r r') (hn : r ≠ .fuel) : r' = r := by
  rcases h with h | h
  · exact (hn h).elim
  · exact h

theorem print_mono (cur : List Stmt) : ∀ (f : Nat),
    (∀ v s, FLe (printVal cur f v s) (printVal cur (f+1) v s)) ∧
    (∀ xs first s, FLe (printElems cur f xs first s) (printElems cur (f+1) xs first s)) ∧
    (∀ xs s, FLe (printEntries cur f xs s) (printEntries cur (f+1) xs s))
  | 0 => by simp [printVal, printElems, printEntries, FLe]
  | f+1 => by
      obtain ⟨i1, i2, i3⟩ := print_mono cur f
      refine ⟨?_, ?_, ?_⟩
      · intro v s
        cases v with
        | list i =>
          simp only [printVal]
          split
          · exact FLe.refl _
          · rename_i l hl
            rcases i2 l true (s.emit ['[']) with h | h
            · rw [h]; exact FLe.fuel _
            · rw [h]; exact FLe.refl _
        | record i =>
          simp only [printVal]
          split
          · exact FLe.refl _
          · rename_i r hr
            rcases i3 r ((s.emit ['@', '{']).mark .recStart) with h | h
            · rw [h]; exact FLe.fuel _
            · rw [h]; exact FLe.refl _
        | _ => simp only [printVal]; exact FLe.refl _
      · intro xs first s
        cases xs with
        | nil => simp only [printElems]; exact FLe.refl _
        | cons x xs =>
          simp only [printElems]
          rcases i1 x (if first then s else s.emit W.sepCommaSpace) with h | h
          · rw [h]; exact FLe.fuel _
          · rw [h]
            cases printVal cur f x (if first then s else s.emit W.sepCommaSpace) with
            | ok s1 => exact i2 xs false s1
            | _ => exact FLe.refl _
      · intro xs s
        cases xs with
        | nil => simp only [printEntries]; exact FLe.refl _
        | cons kx xs =>
          obtain ⟨k, x⟩ := kx
          simp only [printEntries]
          rcases i1 x ((s.mark .entStart).emit ('"' :: k ++ ['"', ':'])) with h | h
          · rw [h]; exact FLe.fuel _
          · rw [h]
            cases printVal cur f x ((s.mark .entStart).emit ('"' :: k ++ ['"', ':'])) with
            | ok s1 => exact i3 xs _
            | _ => exact FLe.refl _

theorem printTop_mono (cur : List Stmt) (f : Nat) (eol : Bool) (v : Val) (s : St) :
    FLe (printTop cur f eol v s) (printTop cur (f+1) eol v s) := by
  simp only [printTop]
  split
  · exact FLe.refl _
  · exact FLe.refl _
  · rcases (print_mono cur f).1 v s with h | h
    · rw [h]; exact FLe.fuel _
    · rw [h]; exact FLe.refl _
section
variable (prog : List Stmt)

structure EvalMono (f : Nat) : Prop where
  eval : ∀ cur e s, FLe (eval prog f cur e s) (eval prog (f+1) cur e s)
  evalBin : ∀ cur lf op l r s, FLe (evalBin prog f cur lf op l r s) (evalBin prog (f+1) cur lf op l r s)
  evalList : ∀ cur es s, FLe (evalList prog f cur es s) (evalList prog (f+1) cur es s)
  evalRecord : ∀ cur ks vs acc s, FLe (evalRecord prog f cur ks vs acc s) (evalRecord prog (f+1) cur ks vs acc s)
  evalCall : ∀ cur callee args s, FLe (evalCall prog f cur callee args s) (evalCall prog (f+1) cur callee args s)
  bindParams : ∀ cur params args env s, FLe (bindParams prog f cur params args env s) (bindParams prog (f+1) cur params args env s)
  callLoop : ∀ cur s, FLe (callLoop prog f cur s) (callLoop prog (f+1) cur s)
  exec : ∀ cur s, FLe (exec prog f cur s) (exec prog (f+1) cur s)
  execAssign : ∀ cur a s, FLe (execAssign prog f cur a s) (execAssign prog (f+1) cur a s)
  evalIndexes : ∀ cur ixs s, FLe (evalIndexes prog f cur ixs s) (evalIndexes prog (f+1) cur ixs s)

theorem evalMono_zero : EvalMono prog 0 := by
  constructor <;> intros <;> simp only [eval, evalBin, evalList, evalRecord, evalCall, bindParams, callLoop, exec, execAssign, evalIndexes] <;> exact FLe.fuel _

set_option hygiene false in
macro "mono" : tactic => `(tactic| repeat (first
  | exact FLe.refl _
  | exact ih.eval _ _ _
  | exact ih.evalBin _ _ _ _ _ _
  | exact ih.evalList _ _ _
  | exact ih.evalRecord _ _ _ _ _
  | exact ih.evalCall _ _ _ _
  | exact ih.bindParams _ _ _ _ _
  | exact ih.callLoop _ _
  | exact ih.exec _ _
  | exact ih.execAssign _ _ _
  | exact ih.evalIndexes _ _ _
  | exact printTop_mono _ _ _ _ _
  | apply FLe.tagOut
  | apply FLe.bind
  | (intro a; obtain ⟨_, _⟩ := a; dsimp only)
  | intro a
  | split))

theorem evalMono_succ (f : Nat) (ih : EvalMono prog f) : EvalMono prog (f+1) := by
  constructor
  · intro cur e s
    cases e <;> simp only [eval] <;> mono
  · intro cur lf op l r s
    simp only [evalBin]; mono
  · intro cur es s
    cases es <;> simp only [evalList] <;> mono
  · intro cur ks vs acc s
    cases ks <;> cases vs <;> simp only [evalRecord] <;> mono
  · intro cur callee args s
    simp only [evalCall]; mono
  · intro cur params args env s
    cases params <;> cases args <;> simp only [bindParams] <;> mono
  · intro cur s
    simp only [callLoop]; mono
  · intro cur s
    simp only [exec]; mono
  · intro cur a s
    simp only [execAssign]; mono
  · intro cur ixs s
    cases ixs <;> simp only [evalIndexes] <;> mono

theorem evalMono : ∀ f, EvalMono prog f
  | 0 => evalMono_zero prog
  | f+1 => evalMono_succ prog f (evalMono f)

theorem FLe.iter {α} (g : Nat → Res α) (h : ∀ f, FLe (g f) (g (f+1))) (f : Nat) : ∀ n, FLe (g f) (g (f+n))
  | 0 => FLe.refl _
  | n+1 => (FLe.iter g h f n).trans (h (f+n))

theorem exec_mono {f : Nat} {cur : List Stmt} {s : St} {r : Res (List Stmt × St)} (h : exec prog f cur s = r) (hn : r ≠ .fuel) (n : Nat) :
    exec prog (f+n) cur s = r := by
  have := FLe.iter (fun f => exec prog f cur s) (fun f => (evalMono prog f).exec cur s) f n
  rw [← h] at hn ⊢; exact this.eq hn

theorem eval_mono {f : Nat} {cur : List Stmt} {e : Expr} {s : St} {r : Res (Val × St)} (h : eval prog f cur e s = r) (hn : r ≠ .fuel) (n : Nat) :
    eval prog (f+n) cur e s = r := by
  have := FLe.iter (fun f => eval prog f cur e s) (fun f => (evalMono prog f).eval cur e s) f n
  rw [← h] at hn ⊢; exact this.eq hn

theorem callLoop_mono {f : Nat} {cur : List Stmt} {s : St} {r : Res (Val × St)} (h : callLoop prog f cur s = r) (hn : r ≠ .fuel) (n : Nat) :
    callLoop prog (f+n) cur s = r := by
  have := FLe.iter (fun f => callLoop prog f cur s) (fun f => (evalMono prog f).callLoop cur s) f n
  rw [← h] at hn ⊢; exact this.eq hn

theorem runLoop_mono1 (g : GcMode) : ∀ (f k : Nat) (cur : List Stmt) (s : St), FLe (runLoop prog g f k cur s) (runLoop prog g (f+1) k cur s)
  | 0, _, _, _ => by simp only [runLoop]; exact FLe.fuel _
  | f+1, k, cur, s => by
      simp only [runLoop]
      split
      · exact FLe.refl _
      · exact FLe.refl _
      · rcases (evalMono prog f).exec cur s with h | h
        · rw [h]; exact FLe.fuel _
        · rw [h]
          cases exec prog f cur s with
          | ok x =>
            obtain ⟨cur', s1⟩ := x
            simp only
            split
            · cases collect s1.scopes s1.heap with
              | ok h' => exact runLoop_mono1 g f (k+1) cur' _
              | _ => exact FLe.refl _
            · exact runLoop_mono1 g f (k+1) cur' s1
          | _ => exact FLe.refl _

/-- more fuel never changes a run that ended (value or error) -/
theorem runLoop_mono (g : GcMode) {f k : Nat} {cur : List Stmt} {s : St} {r : Res St} (h : runLoop prog g f k cur s = r) (hn : r ≠ .fuel) (n : Nat) :
    runLoop prog g (f+n) k cur s = r := by
  have := FLe.iter (fun f => runLoop prog g f k cur s) (fun f => runLoop_mono1 prog g f k cur s) f n
  rw [← h] at hn ⊢; exact this.eq hn
end
end Pakhi
