/- C03/C04/C05: which variable *names* a construct can leave behind.  Expression evaluation (calls included) leaves the names
   of every scope unchanged (`NE`); a statement that completes can only add names to the innermost scope (`NT`); a block, a
   loop and a call give back the scopes with exactly the names they had.  Helper lemmas; the property theorems are in
   Props/C03, C04, C05. -/
import Pakhi.Lemmas.FrameInv
namespace Pakhi

def keys (sc : Scope) : List Str := sc.map (·.1)
/-- the names bound in each scope, innermost first -/
def K (s : St) : List (List Str) := s.scopes.map keys

/-- all scopes bind exactly the names they bound before -/
def NE (s s' : St) : Prop := K s' = K s

def grow (ext : List Str) : List (List Str) → List (List Str)
  | top :: rest => (top ++ ext) :: rest
  | [] => []

/-- only the innermost scope may have gained names (at its end); every other scope binds exactly the names it bound -/
def NT (s s' : St) : Prop := ∃ ext, K s' = grow ext (K s)

/-- what a `ফেরত` leaves: the caller's scopes are still there, below whatever was pushed since -/
def NR (s s' : St) : Prop := ∃ extra ext, K s' = extra ++ grow ext (K s)

theorem NE.refl (s : St) : NE s s := rfl
theorem NE.trans {a b c : St} (h1 : NE a b) (h2 : NE b c) : NE a c := by unfold NE at *; rw [h2, h1]
theorem grow_nil (l : List (List Str)) : grow [] l = l := by cases l <;> simp [grow]
theorem grow_grow (e1 e2 : List Str) (l : List (List Str)) : grow e2 (grow e1 l) = grow (e1 ++ e2) l := by
  cases l <;> simp [grow]
theorem NE.toNT {s s' : St} (h : NE s s') : NT s s' := ⟨[], by rw [grow_nil]; exact h⟩
theorem NT.refl (s : St) : NT s s := (NE.refl s).toNT
theorem NT.trans {a b c : St} (h1 : NT a b) (h2 : NT b c) : NT a c := by
  obtain ⟨e1, h1⟩ := h1; obtain ⟨e2, h2⟩ := h2
  exact ⟨e1 ++ e2, by rw [h2, h1, grow_grow]⟩
theorem NT.toNR {s s' : St} (h : NT s s') : NR s s' := by obtain ⟨e, h⟩ := h; exact ⟨[], e, by simpa using h⟩
theorem NR.refl (s : St) : NR s s := (NT.refl s).toNR
theorem grow_append_cons (ext : List Str) (extra : List (List Str)) (x : List Str) (l : List (List Str)) :
    ∃ extra', grow ext (extra ++ x :: l) = extra' ++ x :: l ∨ (extra = [] ∧ grow ext (extra ++ x :: l) = (x ++ ext) :: l) := by
  cases extra with
  | nil => exact ⟨[], Or.inr ⟨rfl, rfl⟩⟩
  | cons y ys => exact ⟨(y ++ ext) :: ys, Or.inl rfl⟩
theorem NT_NR {a b c : St} (h1 : NT a b) (h2 : NR b c) : NR a c := by
  obtain ⟨e1, h1⟩ := h1; obtain ⟨x, e2, h2⟩ := h2
  exact ⟨x, e1 ++ e2, by rw [h2, h1, grow_grow]⟩
/-- after a `ফেরত` nothing below is touched any more by what follows inside the same call (only used with `NE` tails) -/
theorem NR_NE {a b c : St} (h1 : NR a b) (h2 : NE b c) : NR a c := by
  obtain ⟨x, e, h1⟩ := h1; exact ⟨x, e, by unfold NE at h2; rw [h2, h1]⟩

theorem keys_assocSet_of_some {β} : ∀ (sc : List (Str × β)) (k : Str) (v : β), (assocGet sc k).isSome = true →
    (assocSet sc k v).map (·.1) = sc.map (·.1)
  | [], k, v, h => by simp [assocGet] at h
  | (k', v') :: r, k, v, h => by
      simp only [assocGet] at h
      simp only [assocSet]
      by_cases hk : (k' == k) = true
      · have : k' = k := by simpa using hk
        simp [hk, this]
      · simp only [hk] at h ⊢
        simp [keys_assocSet_of_some r k v h]

theorem keys_assocSet_grow {β} : ∀ (sc : List (Str × β)) (k : Str) (v : β), ∃ ext, (assocSet sc k v).map (·.1) = sc.map (·.1) ++ ext
  | [], k, v => ⟨[k], by simp [assocSet]⟩
  | (k', v') :: r, k, v => by
      simp only [assocSet]
      by_cases hk : (k' == k) = true
      · have : k' = k := by simpa using hk
        exact ⟨[], by simp [hk, this]⟩
      · obtain ⟨ext, h⟩ := keys_assocSet_grow r k v
        exact ⟨ext, by simp [hk, h]⟩

theorem assignVar_keys {v : Val} : ∀ {scs scs' : List Scope} {n : Str}, assignVar scs n v = some scs' → scs'.map keys = scs.map keys
  | [], _, _, h => by simp [assignVar] at h
  | sc :: rest, scs', n, h => by
      simp only [assignVar] at h
      split at h
      · rename_i hi
        simp at h; subst h
        simp only [List.map_cons, keys]
        rw [keys_assocSet_of_some sc n v hi]
      · cases hr : assignVar rest n v with
        | none => simp [hr] at h
        | some r' => simp [hr] at h; subst h; simp [assignVar_keys hr]

theorem declareVar_keys {scs sc : List Scope} {n : Str} {v : Val} (h : declareVar scs n v = .ok sc) :
    ∃ ext, sc.map keys = grow ext (scs.map keys) := by
  cases scs with
  | nil => simp [declareVar] at h
  | cons top rest =>
    simp only [declareVar, Res.ok.injEq] at h; subst h
    obtain ⟨ext, he⟩ := keys_assocSet_grow top n v
    exact ⟨ext, by simp only [List.map_cons, grow, keys]; rw [he]⟩

section
variable {prog : List Stmt}

/-- name facts for the expression evaluator at fuel `f` -/
structure NamesInv (prog : List Stmt) (f : Nat) : Prop where
  eval : ∀ cur e s, IsSuffixOf cur prog → e.wf = true → StOK (GoodFn prog) prog s →
    Good (fun (x : Val × St) => NE s x.2) (eval prog f cur e s)
  evalBin : ∀ cur lf (op : Val → Val → Res Val) l r s, IsSuffixOf cur prog → l.wf = true → r.wf = true → StOK (GoodFn prog) prog s →
    (∀ a b h, Good (ValOK (GoodFn prog) h) (op a b)) → Good (fun (x : Val × St) => NE s x.2) (evalBin prog f cur lf op l r s)
  evalList : ∀ cur es s, IsSuffixOf cur prog → es.wf = true → StOK (GoodFn prog) prog s →
    Good (fun (x : List Val × St) => NE s x.2) (evalList prog f cur es s)
  evalRecord : ∀ cur ks vs acc s, IsSuffixOf cur prog → ks.length ≤ vs.length → ks.wf = true → vs.wf = true → StOK (GoodFn prog) prog s →
    (∀ kv ∈ acc, ValOK (GoodFn prog) s.heap kv.2) →
    Good (fun (x : RecordObj × St) => NE s x.2) (evalRecord prog f cur ks vs acc s)
  evalCall : ∀ cur callee args s, IsSuffixOf cur prog → args.wf = true → StOK (GoodFn prog) prog s →
    Good (fun (x : Val × St) => NE s x.2) (evalCall prog f cur callee args s)
  bindParams : ∀ cur params args env s, IsSuffixOf cur prog → args.wf = true → StOK (GoodFn prog) prog s → ScopeOK (GoodFn prog) s.heap env →
    Good (fun (x : Scope × St) => NE s x.2) (bindParams prog f cur params args env s)
  execAssign : ∀ cur a s, IsSuffixOf cur prog → a.wf = true → StOK (GoodFn prog) prog s →
    Good (fun s' => NT s s') (execAssign prog f cur a s)
  evalIndexes : ∀ cur ixs s, IsSuffixOf cur prog → ixs.all Expr.wf = true → StOK (GoodFn prog) prog s →
    Good (fun (x : List Index × St) => NE s x.2) (evalIndexes prog f cur ixs s)

theorem namesInv_zero : NamesInv prog 0 := by
  constructor <;> intros <;> simp only [eval, evalBin, evalList, evalRecord, evalCall, bindParams, execAssign, evalIndexes] <;> exact Good.fuel

variable (hinv : ∀ f, EvalInv (GoodFn prog) prog f)
include hinv

theorem ns_eval (f : Nat) (ih : NamesInv prog f) (cur : List Stmt) (e : Expr) (s : St)
    (hsuf : IsSuffixOf cur prog) (he : e.wf = true) (hs : StOK (GoodFn prog) prog s) :
    Good (fun (x : Val × St) => NE s x.2) (eval prog (f+1) cur e s) := by
  have okSame : ∀ v, Good (fun (x : Val × St) => NE s x.2) (.ok (v, s)) := fun v => Good.ok (NE.refl s)
  cases e with
  | nil m => simp only [eval]; exact okSame _
  | str t m => simp only [eval]; exact okSame _
  | num n m => simp only [eval]; exact okSame _
  | bool b m => simp only [eval]; exact okSame _
  | var tok m =>
    simp only [eval]
    split
    · exact okSame _
    · exact Good.tagOut (good_stmtErr _ _ _ _)
  | list es m =>
    simp only [eval]; simp only [Expr.wf] at he
    refine Good.bind (ih.evalList cur es s hsuf he hs) ?_
    rintro ⟨vs, s1⟩ hfr
    exact Good.ok hfr
  | group e m => simp only [eval]; simp only [Expr.wf] at he; exact ih.eval cur e s hsuf he hs
  | record ks vs m =>
    simp only [eval]
    simp only [Expr.wf, Bool.and_eq_true, decide_eq_true_eq] at he
    refine Good.bind (ih.evalRecord cur ks vs [] s hsuf he.1.1 he.1.2 he.2 hs (by simp)) ?_
    rintro ⟨r, s1⟩ hfr
    exact Good.ok hfr
  | unary op r m =>
    simp only [eval]; simp only [Expr.wf] at he
    refine Good.bind (ih.eval cur r s hsuf he hs) ?_
    rintro ⟨v, s1⟩ hfr
    refine Good.bind (Good.tagOut (unaryOp_good (GoodFn prog) op r.meta v s1.heap)) ?_
    intro v' _
    exact Good.ok hfr
  | and l r m =>
    simp only [eval]; simp only [Expr.wf, Bool.and_eq_true] at he
    exact ih.evalBin cur _ _ l r s hsuf he.1 he.2 hs (fun a b h => andOr_good _ _ _ a b h)
  | or l r m =>
    simp only [eval]; simp only [Expr.wf, Bool.and_eq_true] at he
    exact ih.evalBin cur _ _ l r s hsuf he.1 he.2 hs (fun a b h => andOr_good _ _ _ a b h)
  | equality op l r m =>
    simp only [eval]; simp only [Expr.wf, Bool.and_eq_true] at he
    exact ih.evalBin cur _ _ l r s hsuf he.1 he.2 hs (fun a b h => equality_good _ _ _ a b h)
  | comparison op l r m =>
    simp only [eval]; simp only [Expr.wf, Bool.and_eq_true] at he
    exact ih.evalBin cur _ _ l r s hsuf he.1 he.2 hs (fun a b h => compare_good _ _ _ a b h)
  | muldiv op l r m =>
    simp only [eval]; simp only [Expr.wf, Bool.and_eq_true] at he
    exact ih.evalBin cur _ _ l r s hsuf he.1 he.2 hs (fun a b h => mulDiv_good _ _ _ a b h)
  | addsub op l r m =>
    simp only [eval]; simp only [Expr.wf, Bool.and_eq_true] at he
    refine Good.bind (Good.and ((hinv f).eval cur l s hsuf he.1 hs) (ih.eval cur l s hsuf he.1 hs)) ?_
    rintro ⟨a, s1⟩ ⟨⟨hs1, ha, hle1⟩, hf1⟩
    refine Good.bind (Good.and ((hinv f).eval cur r s1 hsuf he.2 hs1) (ih.eval cur r s1 hsuf he.2 hs1)) ?_
    rintro ⟨b, s2⟩ ⟨⟨hs2, hb, hle2⟩, hf2⟩
    refine Good.bind (Good.tagOut (addSub_good (GoodFn prog) op l.meta hs2.heap (ValOK.mono _ hle2 ha) hb)) ?_
    rintro ⟨v, h⟩ _
    exact Good.ok (hf1.trans hf2)
  | indexing c i m =>
    simp only [eval]; simp only [Expr.wf, Bool.and_eq_true] at he
    refine Good.bind (Good.and ((hinv f).eval cur c s hsuf he.1 hs) (ih.eval cur c s hsuf he.1 hs)) ?_
    rintro ⟨cv, s1⟩ ⟨⟨hs1, hc, hle1⟩, hf1⟩
    refine Good.bind (Good.and ((hinv f).eval cur i s1 hsuf he.2 hs1) (ih.eval cur i s1 hsuf he.2 hs1)) ?_
    rintro ⟨iv, s2⟩ ⟨⟨hs2, hi, hle2⟩, hf2⟩
    refine Good.bind (Good.tagOut (indexVal_good (GoodFn prog) i.meta hs2.heap (ValOK.mono _ hle2 hc))) ?_
    intro v _
    exact Good.ok (hf1.trans hf2)
  | call callee args m =>
    simp only [eval]; simp only [Expr.wf] at he
    exact ih.evalCall cur callee args s hsuf he hs

variable (hinv : ∀ f, EvalInv (GoodFn prog) prog f)
include hinv

theorem ns_evalBin (f : Nat) (ih : NamesInv prog f) (cur : List Stmt) (lf : Bool) (op : Val → Val → Res Val) (l r : Expr) (s : St)
    (hsuf : IsSuffixOf cur prog) (hl : l.wf = true) (hr : r.wf = true) (hs : StOK (GoodFn prog) prog s)
    (hop : ∀ a b h, Good (ValOK (GoodFn prog) h) (op a b)) :
    Good (fun (x : Val × St) => NE s x.2) (evalBin prog (f+1) cur lf op l r s) := by
  simp only [evalBin]
  split
  · refine Good.bind (Good.and ((hinv f).eval cur l s hsuf hl hs) (ih.eval cur l s hsuf hl hs)) ?_
    rintro ⟨a, s1⟩ ⟨⟨hs1, _, _⟩, hf1⟩
    refine Good.bind (ih.eval cur r s1 hsuf hr hs1) ?_
    rintro ⟨b, s2⟩ hf2
    refine Good.bind (Good.tagOut (hop a b s2.heap)) ?_
    intro v _
    exact Good.ok (hf1.trans hf2)
  · refine Good.bind (Good.and ((hinv f).eval cur r s hsuf hr hs) (ih.eval cur r s hsuf hr hs)) ?_
    rintro ⟨b, s1⟩ ⟨⟨hs1, _, _⟩, hf1⟩
    refine Good.bind (ih.eval cur l s1 hsuf hl hs1) ?_
    rintro ⟨a, s2⟩ hf2
    refine Good.bind (Good.tagOut (hop a b s2.heap)) ?_
    intro v _
    exact Good.ok (hf1.trans hf2)

theorem ns_evalList (f : Nat) (ih : NamesInv prog f) (cur : List Stmt) (es : Exprs) (s : St)
    (hsuf : IsSuffixOf cur prog) (he : es.wf = true) (hs : StOK (GoodFn prog) prog s) :
    Good (fun (x : List Val × St) => NE s x.2) (evalList prog (f+1) cur es s) := by
  cases es with
  | nil => simp only [evalList]; exact Good.ok (NE.refl s)
  | cons e rest =>
    simp only [evalList]; simp only [Exprs.wf, Bool.and_eq_true] at he
    refine Good.bind (Good.and ((hinv f).eval cur e s hsuf he.1 hs) (ih.eval cur e s hsuf he.1 hs)) ?_
    rintro ⟨v, s1⟩ ⟨⟨hs1, _, _⟩, hf1⟩
    refine Good.bind (ih.evalList cur rest s1 hsuf he.2 hs1) ?_
    rintro ⟨vs, s2⟩ hf2
    exact Good.ok (hf1.trans hf2)

theorem ns_evalRecord (f : Nat) (ih : NamesInv prog f) (cur : List Stmt) (ks vs : Exprs) (acc : RecordObj) (s : St)
    (hsuf : IsSuffixOf cur prog) (hlen : ks.length ≤ vs.length) (hk : ks.wf = true) (hv : vs.wf = true) (hs : StOK (GoodFn prog) prog s)
    (hacc : ∀ kv ∈ acc, ValOK (GoodFn prog) s.heap kv.2) :
    Good (fun (x : RecordObj × St) => NE s x.2) (evalRecord prog (f+1) cur ks vs acc s) := by
  cases ks with
  | nil => simp only [evalRecord]; exact Good.ok (NE.refl s)
  | cons k ks' =>
    cases vs with
    | nil => simp [Exprs.length] at hlen
    | cons v vs' =>
      simp only [evalRecord]
      simp only [Exprs.wf, Bool.and_eq_true] at hk hv
      simp only [Exprs.length] at hlen
      refine Good.bind (Good.and ((hinv f).eval cur k s hsuf hk.1 hs) (ih.eval cur k s hsuf hk.1 hs)) ?_
      rintro ⟨kv, s1⟩ ⟨⟨hs1, _, hle1⟩, hf1⟩
      have hacc1 : ∀ x ∈ acc, ValOK (GoodFn prog) s1.heap x.2 := fun x hx => ValOK.mono _ hle1 (hacc x hx)
      have skip : Good (fun (x : RecordObj × St) => NE s x.2) (evalRecord prog f cur ks' vs' acc s1) :=
        (ih.evalRecord cur ks' vs' acc s1 hsuf (by omega) hk.2 hv.2 hs1 hacc1).mono (fun x hx => hf1.trans hx)
      cases kv with
      | str key =>
        simp only
        refine Good.bind (Good.and ((hinv f).eval cur v s1 hsuf hv.1 hs1) (ih.eval cur v s1 hsuf hv.1 hs1)) ?_
        rintro ⟨vv, s2⟩ ⟨⟨hs2, hvv, hle2⟩, hf2⟩
        refine (ih.evalRecord cur ks' vs' (assocSet acc key vv) s2 hsuf (by omega) hk.2 hv.2 hs2 ?_).mono
          (fun x hx => (hf1.trans hf2).trans hx)
        intro x hx
        rcases mem_assocSet _ _ _ _ hx with rfl | h1
        · exact hvv
        · exact ValOK.mono _ hle2 (hacc1 x h1)
      | _ => exact skip

theorem ns_bindParams (f : Nat) (ih : NamesInv prog f) (cur : List Stmt) (params : List Str) (args : Exprs) (env : Scope) (s : St)
    (hsuf : IsSuffixOf cur prog) (ha : args.wf = true) (hs : StOK (GoodFn prog) prog s) (henv : ScopeOK (GoodFn prog) s.heap env) :
    Good (fun (x : Scope × St) => NE s x.2) (bindParams prog (f+1) cur params args env s) := by
  cases params with
  | nil => simp only [bindParams]; exact Good.ok (NE.refl s)
  | cons p ps =>
    cases args with
    | nil =>
      simp only [bindParams]
      exact ih.bindParams cur ps .nil _ s hsuf (by simp [Exprs.wf]) hs (ScopeOK.set _ henv (by simp [ValOK]))
    | cons a rest =>
      simp only [bindParams]; simp only [Exprs.wf, Bool.and_eq_true] at ha
      refine Good.bind (Good.and ((hinv f).eval cur a s hsuf ha.1 hs) (ih.eval cur a s hsuf ha.1 hs)) ?_
      rintro ⟨v, s1⟩ ⟨⟨hs1, hv, hle1⟩, hf1⟩
      exact (ih.bindParams cur ps rest _ s1 hsuf ha.2 hs1 (ScopeOK.set _ (ScopeOK.mono _ hle1 henv) hv)).mono
        (fun x hx => hf1.trans hx)

theorem ns_evalIndexes (f : Nat) (ih : NamesInv prog f) (cur : List Stmt) (ixs : List Expr) (s : St)
    (hsuf : IsSuffixOf cur prog) (hw : ixs.all Expr.wf = true) (hs : StOK (GoodFn prog) prog s) :
    Good (fun (x : List Index × St) => NE s x.2) (evalIndexes prog (f+1) cur ixs s) := by
  cases ixs with
  | nil => simp only [evalIndexes]; exact Good.ok (NE.refl s)
  | cons ix rest =>
    simp only [evalIndexes]
    simp only [List.all_cons, Bool.and_eq_true] at hw
    refine Good.bind (Good.and ((hinv f).eval cur ix s hsuf hw.1 hs) (ih.eval cur ix s hsuf hw.1 hs)) ?_
    rintro ⟨v, s1⟩ ⟨⟨hs1, hv, hle1⟩, hf1⟩
    cases v with
    | list i =>
      obtain ⟨l, h1, _⟩ := list_lookup _ hs1.heap hv
      simp only [h1]
      have hone : Good (fun (_ : Index) => True) (match l.head? with
          | some (.num n) => .ok (.pos n)
          | some (.str k) => .ok (.key k)
          | _ => (metaErr ix.meta .runtime "index-must-be-number-or-string" : Res Index).tagOut s1.out) := by
        split
        · exact Good.ok trivial
        · exact Good.ok trivial
        · exact Good.tagOut (good_metaErr _ _ _ _)
      refine Good.bind hone ?_
      intro i1 _
      refine Good.bind (ih.evalIndexes cur rest s1 hsuf hw.2 hs1) ?_
      rintro ⟨is, s2⟩ hf2
      exact Good.ok (hf1.trans hf2)
    | _ => exact Good.tagOut (good_metaErr _ _ _ _)

theorem ns_execAssign (f : Nat) (ih : NamesInv prog f) (cur : List Stmt) (a : Assignment) (s : St)
    (hsuf : IsSuffixOf cur prog) (ha : a.wf = true) (hs : StOK (GoodFn prog) prog s) :
    Good (fun s' => NT s s') (execAssign prog (f+1) cur a s) := by
  simp only [Assignment.wf, Bool.and_eq_true] at ha
  obtain ⟨⟨ha1, ha2⟩, ha3⟩ := ha
  simp only [execAssign]
  split
  · split
    · rename_i e he
      simp only [he] at ha3
      refine Good.bind (Good.and ((hinv f).eval cur e s hsuf ha3 hs) (ih.eval cur e s hsuf ha3 hs)) ?_
      rintro ⟨v, s1⟩ ⟨⟨hs1, hv, _⟩, hf1⟩
      cases hd : declareVar s1.scopes a.var.lexeme v with
      | ok sc =>
        obtain ⟨ext, hk⟩ := declareVar_keys hd
        exact Good.ok (hf1.toNT.trans ⟨ext, hk⟩)
      | err e => exact Good.err e
      | panic p =>
        have := declareVar_good (GoodFn prog) hs1.scopes a.var.lexeme hv
        rw [hd] at this; exact this.elim
      | fuel => exact Good.fuel
    · cases hd : declareVar s.scopes a.var.lexeme .nil with
      | ok sc =>
        obtain ⟨ext, hk⟩ := declareVar_keys hd
        exact Good.ok ⟨ext, hk⟩
      | err e => exact Good.err e
      | panic p =>
        have := declareVar_good (GoodFn prog) hs.scopes a.var.lexeme (v := .nil) (by simp [ValOK])
        rw [hd] at this; exact this.elim
      | fuel => exact Good.fuel
  · rename_i hk
    split
    · rename_i hi; simp [hk, hi] at ha1
    · rename_i e he
      simp only [he] at ha3
      refine Good.bind (Good.and ((hinv f).eval cur e s hsuf ha3 hs) (ih.eval cur e s hsuf ha3 hs)) ?_
      rintro ⟨v, s1⟩ ⟨⟨hs1, hv, hle1⟩, hf1⟩
      simp only
      split
      · exact Good.tagOut (good_stmtErr _ _ _ _)
      · rename_i x hx
        split
        · obtain ⟨sc, hsc⟩ := assignVar_some (v := v) hx
          simp only [hsc]
          exact Good.ok (hf1.trans (assignVar_keys hsc)).toNT
        · refine Good.bind (Good.and ((hinv f).evalIndexes cur a.indexes s1 hsuf ha2 hs1) (ih.evalIndexes cur a.indexes s1 hsuf ha2 hs1)) ?_
          rintro ⟨ixs, s2⟩ ⟨⟨hs2, hle2⟩, hf2⟩
          simp only
          split
          · exact Good.tagOut (good_unexpected _ _)
          · split
            · exact Good.tagOut (good_stmtErr _ _ _ _)
            · rename_i container hc
              refine Good.bind (Good.tagOut (assignPath_good (GoodFn prog) _ ixs hs2.heap (lookupVar_ok _ hs2.scopes.2 hc) (ValOK.mono _ hle2 hv))) ?_
              intro h _
              exact Good.ok ((hf1.trans hf2).toNT)
end
end Pakhi
namespace Pakhi

theorem K_len {s s' : St} (h : K s' = K s) : s'.scopes.length = s.scopes.length := by
  have := congrArg List.length h; simpa [K] using this

theorem printTop_NE {cur : List Stmt} {f : Nat} {eol : Bool} {v : Val} {s s' : St} (h : printTop cur f eol v s = .ok s') : NE s s' := by
  simp only [printTop] at h
  split at h
  · cases cur <;> simp [stmtErr, mkErr, unexpected, Res.tagOut] at h
  · cases cur <;> simp [stmtErr, mkErr, unexpected, Res.tagOut] at h
  · cases hp : printVal cur f v s with
    | ok s1 =>
      simp only [hp] at h
      obtain ⟨t, _, ha⟩ := (print_spec cur f).1 v s s1 hp
      simp at h; subst h
      cases eol <;> (show List.map keys _ = List.map keys s.scopes; show List.map keys s1.scopes = _; rw [ha.2.2.1])
    | err e => simp [hp] at h
    | panic p => simp [hp] at h
    | fuel => simp [hp] at h

section
variable {prog : List Stmt}

/-- what the structured outcome `r`, started in `s`, says about names; `blk`: the construct is a block -/
def NOut (prog : List Stmt) (blk : Bool) (s : St) (r : Res (Sig × St)) : Prop :=
  ∀ sig s', r = .ok (sig, s') →
    NR s s' ∧ StOK (GoodFn prog) prog s' ∧
    (∀ c, sig = .ret c → IsSuffixOf c prog ∧ ∃ e m k', c = Stmt.ret e m :: k') ∧
    ((∀ c, sig ≠ .ret c) → if blk then NE s s' else NT s s')

theorem NOut.err {blk : Bool} {s : St} {r : Res (Sig × St)} (h : ∀ x, r ≠ .ok x) : NOut prog blk s r := by
  intro sig s' hr; exact absurd hr (h _)

variable (hst : Structured prog) (G : Nat) (hn : ∀ g, g ≤ G → NamesInv prog g)
include hst hn

theorem n_exec_simple {g : Nat} (hg : g + 1 ≤ G) {st : Stmt} {k c : List Stmt} {s s' : St}
    (hsimple : st.isSimple = true) (hnr : st.isStop = false) (hsuf : IsSuffixOf (st :: k) prog) (hw : st.wf = true)
    (hs : StOK (GoodFn prog) prog s) (h : exec prog (g+1) (st :: k) s = .ok (c, s')) : NT s s' := by
  have hng := hn g (by omega)
  cases st <;> simp [Stmt.isSimple, Stmt.isStop] at hsimple hnr <;> simp only [Stmt.wf] at hw
  case print e m =>
    simp only [exec] at h
    obtain ⟨⟨v, s1⟩, h1, h2⟩ := Res.bind_eq_ok h
    obtain ⟨s2, h3, h4⟩ := Res.bind_eq_ok h2
    simp at h4; obtain ⟨rfl, rfl⟩ := h4
    exact (((hng.eval _ e s hsuf hw hs).of_ok h1).trans (printTop_NE h3)).toNT
  case printNoEOL e m =>
    simp only [exec] at h
    obtain ⟨⟨v, s1⟩, h1, h2⟩ := Res.bind_eq_ok h
    obtain ⟨s2, h3, h4⟩ := Res.bind_eq_ok h2
    simp at h4; obtain ⟨rfl, rfl⟩ := h4
    exact (((hng.eval _ e s hsuf hw hs).of_ok h1).trans (printTop_NE h3)).toNT
  case expr e m =>
    simp only [exec] at h
    obtain ⟨⟨v, s1⟩, h1, h2⟩ := Res.bind_eq_ok h
    simp at h2; obtain ⟨rfl, rfl⟩ := h2
    exact ((hng.eval _ e s hsuf hw hs).of_ok h1).toNT
  case assign a m =>
    simp only [exec] at h
    obtain ⟨s1, h1, h2⟩ := Res.bind_eq_ok h
    simp at h2; obtain ⟨rfl, rfl⟩ := h2
    exact (hng.execAssign _ a s hsuf hw hs).of_ok h1

def NStmtP (prog : List Stmt) (G : Nat) (t : SStmt) : Prop :=
  ∀ k s, t.WF → IsSuffixOf (t.flatten ++ k) prog → StOK (GoodFn prog) prog s → NOut prog false s (sStmt prog G t k s)
def NBlockP (prog : List Stmt) (G : Nat) (b : SBlock) : Prop :=
  ∀ k s, b.WF → IsSuffixOf (b.flatten ++ k) prog → StOK (GoodFn prog) prog s → NOut prog true s (sBlock prog G b k s)
def NListP (prog : List Stmt) (G : Nat) (l : SList) : Prop :=
  ∀ k s, l.WF → IsSuffixOf (l.flatten ++ k) prog → StOK (GoodFn prog) prog s → NOut prog false s (sList prog G l k s)
def NTailP (prog : List Stmt) (G : Nat) (t : STail) : Prop :=
  ∀ k s, t.WF → IsSuffixOf (t.flatten ++ k) prog → StOK (GoodFn prog) prog s → NOut prog false s (sTail prog G t k s)

theorem n_simple (st : Stmt) : NStmtP prog G (.simple st) := by
  intro k s hw hsuf hs sig s' hr
  simp only [SStmt.flatten, List.cons_append, List.nil_append] at hsuf
  have hwf : st.wf = true := by
    have := hst.wf; simp only [progWF, List.all_eq_true] at this; exact this _ (mem_of_suffix hsuf (by simp))
  by_cases hstop : st.isStop = true
  · cases st <;> simp [SStmt.WF, Stmt.isSimple, Stmt.isStop] at hw hstop
    simp only [sStmt] at hr
    simp at hr; obtain ⟨rfl, rfl⟩ := hr
    exact ⟨NR.refl _, hs, (fun c hc => by cases hc; exact ⟨hsuf, _, _, _, rfl⟩), (fun h => absurd rfl (h _))⟩
  · have hstop' : st.isStop = false := by simpa using hstop
    have hspec : sStmt prog G (.simple st) k s = (exec prog G (st :: k) s).bind fun x => .ok (.normal, x.2) := by
      cases st <;> simp [SStmt.WF, Stmt.isSimple, Stmt.isStop] at hw hstop' <;> simp only [sStmt]
    rw [hspec] at hr
    obtain ⟨⟨c, s1⟩, h1, h2⟩ := Res.bind_eq_ok hr
    simp at h2; obtain ⟨rfl, rfl⟩ := h2
    cases G with
    | zero => simp [exec] at h1
    | succ g =>
      have hnt := n_exec_simple hst (g+1) hn (Nat.le_refl _) hw hstop' hsuf hwf hs h1
      have hgood := ((hst.inv (g+1)).exec _ s hsuf hs).of_ok h1
      exact ⟨hnt.toNR, hgood.2.1, (fun c hc => by cases hc), (fun _ => by simpa using hnt)⟩

theorem n_funcDef (fm : Meta) (hdr : Expr) (hm : Meta) (body : SBlock) (re : Expr) (rm : Meta) :
    NStmtP prog G (.funcDef fm hdr hm body re rm) := by
  intro k s hw hsuf hs sig s' hr
  simp only [SStmt.flatten, List.cons_append, List.append_assoc, List.nil_append] at hsuf
  simp only [sStmt] at hr
  obtain ⟨⟨c, s1⟩, h1, h2⟩ := Res.bind_eq_ok hr
  simp at h2; obtain ⟨rfl, rfl⟩ := h2
  cases G with
  | zero => simp [exec] at h1
  | succ g =>
    have hgood := ((hst.inv (g+1)).exec _ s hsuf hs).of_ok h1
    have hnt : NT s s1 := by
      simp only [exec] at h1
      have h := Res.tagOut_eq_ok h1
      cases hdr with
      | call callee args cm =>
        cases callee with
        | var ftok vm =>
          simp only [execFuncDef] at h
          cases hp : paramNames args with
          | none => simp [hp, metaErr, mkErr] at h
          | some params =>
            simp only [hp] at h
            simp only [skipBlock_whole_block body _ hw] at h
            split at h
            · rename_i sc hd
              simp at h
              obtain ⟨_, rfl⟩ := h
              obtain ⟨ext, hk⟩ := declareVar_keys hd
              exact ⟨ext, hk⟩
            all_goals simp at h
        | _ => simp [execFuncDef, metaErr, mkErr] at h
      | _ => simp [execFuncDef, stmtErr, mkErr] at h
    exact ⟨hnt.toNR, hgood.2.1, (fun c hc => by cases hc), (fun _ => by simpa using hnt)⟩

omit hst hn in
theorem stOK_push {s : St} (hs : StOK (GoodFn prog) prog s) : StOK (GoodFn prog) prog { s with scopes := [] :: s.scopes } :=
  ⟨hs.heap, hs.scopes.cons _ (by intro kv hkv; simp at hkv), hs.loops⟩

omit hst hn in
theorem stOK_flags {s : St} (hs : StOK (GoodFn prog) prog s) (fl : List Bool) : StOK (GoodFn prog) prog { s with flags := fl } :=
  ⟨hs.heap, hs.scopes, hs.loops⟩

omit hst hn in
theorem stOK_pop {s : St} (hs : StOK (GoodFn prog) prog s) (h2 : 2 ≤ s.scopes.length) :
    StOK (GoodFn prog) prog { s with scopes := s.scopes.drop 1 } :=
  ⟨hs.heap, hs.scopes.drop _ (by omega), hs.loops⟩

omit hst hn in
theorem n_pop {s s1 : St} (hs : StOK (GoodFn prog) prog s) (hs1 : StOK (GoodFn prog) prog s1)
    (hnt : NT ({ s with scopes := [] :: s.scopes } : St) s1) :
    NE s { s1 with scopes := s1.scopes.drop 1 } ∧ StOK (GoodFn prog) prog { s1 with scopes := s1.scopes.drop 1 } := by
  obtain ⟨ext, he⟩ := hnt
  have hK0 : K ({ s with scopes := [] :: s.scopes } : St) = [] :: K s := rfl
  rw [hK0] at he
  have hpos := hs.scopes.length_pos
  have hlen : s1.scopes.length = s.scopes.length + 1 := by
    have := congrArg List.length he; simpa [K, grow] using this
  have hne : NE s { s1 with scopes := s1.scopes.drop 1 } := by
    show List.map keys (s1.scopes.drop 1) = K s
    rw [List.map_drop]; show (K s1).drop 1 = K s; rw [he]; rfl
  exact ⟨hne, stOK_pop hs1 (by omega)⟩

theorem n_block_of_list (bs be : Meta) (ss : SList) (hl : NListP prog G ss) : NBlockP prog G (.mk bs ss be) := by
  intro k s hw hsuf hs sig s' hr
  simp only [SBlock.flatten, List.cons_append, List.append_assoc, List.nil_append] at hsuf
  have hsuf' : IsSuffixOf (ss.flatten ++ (Stmt.blockEnd be :: k)) prog := by simpa using hsuf.tail
  simp only [sBlock] at hr
  obtain ⟨⟨sg, s1⟩, h1, h2⟩ := Res.bind_eq_ok hr
  obtain ⟨hnr, hs1, hret, hnt⟩ := hl (.blockEnd be :: k) _ hw hsuf' (stOK_push hs) sg s1 h1
  have hK0 : K ({ s with scopes := [] :: s.scopes } : St) = [] :: K s := rfl
  cases sg with
  | ret c =>
    cases h2
    obtain ⟨extra, ext, he⟩ := hnr
    rw [hK0] at he
    refine ⟨⟨extra ++ [[] ++ ext], [], ?_⟩, hs1, hret, fun h => absurd rfl (h _)⟩
    rw [he, grow_nil]; simp [grow]
  | normal =>
    cases h2
    obtain ⟨hne, hso⟩ := n_pop hs hs1 (by simpa using hnt (fun c hc => by cases hc))
    exact ⟨hne.toNT.toNR, hso, (fun c hc => by cases hc), (fun _ => by simpa using hne)⟩
  | brk =>
    cases h2
    obtain ⟨hne, hso⟩ := n_pop hs hs1 (by simpa using hnt (fun c hc => by cases hc))
    exact ⟨hne.toNT.toNR, hso, (fun c hc => by cases hc), (fun _ => by simpa using hne)⟩
  | cont =>
    cases h2
    obtain ⟨hne, hso⟩ := n_pop hs hs1 (by simpa using hnt (fun c hc => by cases hc))
    exact ⟨hne.toNT.toNR, hso, (fun c hc => by cases hc), (fun _ => by simpa using hne)⟩

omit hst hn in
theorem popFlagIf_K (tail : STail) (s : St) : K (popFlagIf tail s) = K s := by cases tail <;> rfl
omit hst hn in
theorem stOK_popFlagIf (tail : STail) {s : St} (hs : StOK (GoodFn prog) prog s) : StOK (GoodFn prog) prog (popFlagIf tail s) := by
  cases tail <;> first | exact hs | exact stOK_flags hs _

/-- the shared shape of `যদি c { body } tail` and `অথবা যদি c { body } tail` -/
theorem n_cond (c : Expr) (body : SBlock) (tail : STail) (hb : NBlockP prog G body) (ht : NTailP prog G tail)
    (k : List Stmt) (s : St) (hwc : c.wf = true) (hwb : body.WF) (hwt : tail.WF)
    (hsuf : IsSuffixOf (body.flatten ++ (tail.flatten ++ k)) prog) (hs : StOK (GoodFn prog) prog s) :
    NOut prog false s
      ((eval prog G (body.flatten ++ (tail.flatten ++ k)) c s).bind fun x =>
        match x.1 with
        | .bool true =>
          (sBlock prog G body (tail.flatten ++ k) { x.2 with flags := true :: x.2.flags }).bind fun y =>
            match y.1 with
            | .normal => .ok (.normal, popFlagIf tail y.2)
            | sig => .ok (sig, y.2)
        | .bool false => sTail prog G tail k x.2
        | _ => (metaErr c.meta .runtime "if-condition-not-boolean").tagOut x.2.out) := by
  intro sig s' hr
  obtain ⟨⟨v, s1⟩, h1, h2⟩ := Res.bind_eq_ok hr
  have hne1 : NE s s1 := ((hn G (Nat.le_refl _)).eval _ c s hsuf hwc hs).of_ok h1
  have hs1 : StOK (GoodFn prog) prog s1 := (((hst.inv G).eval _ c s hsuf hwc hs).of_ok h1).1
  cases v with
  | bool b =>
    cases b with
    | true =>
      simp only at h2
      obtain ⟨⟨sg, s2⟩, h3, h4⟩ := Res.bind_eq_ok h2
      obtain ⟨hnr, hs2, hret, hnt⟩ := hb (tail.flatten ++ k) _ hwb hsuf (stOK_flags hs1 _) sg s2 h3
      have hK1 : K ({ s1 with flags := true :: s1.flags } : St) = K s := hne1
      cases sg with
      | normal =>
        cases h4
        have hne2 : K s2 = K s := by
          have : NE ({ s1 with flags := true :: s1.flags } : St) s2 := by simpa using hnt (fun c hc => by cases hc)
          unfold NE at this; rw [this, hK1]
        have : NE s (popFlagIf tail s2) := by unfold NE; rw [popFlagIf_K, hne2]
        exact ⟨this.toNT.toNR, stOK_popFlagIf tail hs2, (fun c hc => by cases hc), (fun _ => by simpa using this.toNT)⟩
      | brk =>
        cases h4
        have : NE s s2 := by
          have h0 : NE ({ s1 with flags := true :: s1.flags } : St) s2 := by simpa using hnt (fun c hc => by cases hc)
          unfold NE at h0 ⊢; rw [h0, hK1]
        exact ⟨this.toNT.toNR, hs2, (fun c hc => by cases hc), (fun _ => by simpa using this.toNT)⟩
      | cont =>
        cases h4
        have : NE s s2 := by
          have h0 : NE ({ s1 with flags := true :: s1.flags } : St) s2 := by simpa using hnt (fun c hc => by cases hc)
          unfold NE at h0 ⊢; rw [h0, hK1]
        exact ⟨this.toNT.toNR, hs2, (fun c hc => by cases hc), (fun _ => by simpa using this.toNT)⟩
      | ret cc =>
        cases h4
        obtain ⟨extra, ext, he⟩ := hnr
        rw [hK1] at he
        exact ⟨⟨extra, ext, he⟩, hs2, hret, fun h => absurd rfl (h _)⟩
    | false =>
      simp only at h2
      obtain ⟨hnr, hs2, hret, hnt⟩ := ht k s1 hwt hsuf.of_append hs1 sig s' h2
      refine ⟨NT_NR hne1.toNT hnr, hs2, hret, fun h => ?_⟩
      have : NT s1 s' := by simpa using hnt h
      simpa using hne1.toNT.trans this
  | _ => simp [Res.tagOut, metaErr, mkErr] at h2

theorem n_iter (body : SBlock) (cm : Meta) (k : List Stmt) (hb : NBlockP prog G body) (hwb : body.WF)
    (hsuf : IsSuffixOf (body.flatten ++ (Stmt.cont cm :: k)) prog) :
    ∀ (n : Nat) (s : St), StOK (GoodFn prog) prog s →
      NOut prog true s (sIter (fun s => sBlock prog G body (.cont cm :: k) s) n s)
  | 0, s, _ => by intro sig s' hr; simp [sIter] at hr
  | n+1, s, hs => by
      intro sig s' hr
      simp only [sIter] at hr
      obtain ⟨⟨sg, s1⟩, h1, h2⟩ := Res.bind_eq_ok hr
      obtain ⟨hnr, hs1, hret, hnt⟩ := hb (.cont cm :: k) s hwb hsuf hs sg s1 h1
      cases sg with
      | normal =>
        have hne : NE s s1 := by simpa using hnt (fun c hc => by cases hc)
        obtain ⟨a, b, c, d⟩ := n_iter body cm k hb hwb hsuf n s1 hs1 sig s' h2
        refine ⟨NT_NR hne.toNT a, b, c, fun h => ?_⟩
        have : NE s1 s' := by simpa using d h
        simpa using hne.trans this
      | cont =>
        have hne : NE s s1 := by simpa using hnt (fun c hc => by cases hc)
        obtain ⟨a, b, c, d⟩ := n_iter body cm k hb hwb hsuf n s1 hs1 sig s' h2
        refine ⟨NT_NR hne.toNT a, b, c, fun h => ?_⟩
        have : NE s1 s' := by simpa using d h
        simpa using hne.trans this
      | brk =>
        cases h2
        have hne : NE s s1 := by simpa using hnt (fun c hc => by cases hc)
        have hne' : NE s { s1 with loops := s1.loops.drop 1 } := hne
        exact ⟨hne'.toNT.toNR, ⟨hs1.heap, hs1.scopes, fun l hl => hs1.loops l (List.mem_of_mem_drop hl)⟩,
          (fun c hc => by cases hc), (fun _ => by simpa using hne')⟩
      | ret cc =>
        cases h2
        exact ⟨hnr, hs1, hret, fun h => absurd rfl (h _)⟩

theorem n_loop (lm : Meta) (body : SBlock) (cm : Meta) (hb : NBlockP prog G body) : NStmtP prog G (.loop lm body cm) := by
  intro k s hw hsuf hs sig s' hr
  simp only [SStmt.flatten, List.cons_append, List.append_assoc, List.nil_append] at hsuf
  have hsuf' : IsSuffixOf (body.flatten ++ (Stmt.cont cm :: k)) prog := hsuf.tail
  simp only [sStmt] at hr
  have hs0 : StOK (GoodFn prog) prog { s with loops := { start := body.flatten ++ (.cont cm :: k), envs := s.scopes.length } :: s.loops } :=
    ⟨hs.heap, hs.scopes, fun l hl => by
      rcases List.mem_cons.mp hl with rfl | h1
      · exact ⟨hsuf', hs.scopes.length_pos⟩
      · exact hs.loops l h1⟩
  obtain ⟨a, b, c, d⟩ := n_iter hst G hn body cm k hb hw hsuf' G _ hs0 sig s' hr
  refine ⟨a, b, c, fun h => ?_⟩
  have : NE ({ s with loops := { start := body.flatten ++ (.cont cm :: k), envs := s.scopes.length } :: s.loops } : St) s' := by simpa using d h
  have h2 : NE s s' := this
  simpa using h2.toNT

mutual
theorem nStmt : ∀ (t : SStmt), NStmtP prog G t
  | .simple st => n_simple hst G hn st
  | .block b => by
      intro k s hw hsuf hs sig s' hr
      simp only [SStmt.flatten] at hsuf
      simp only [sStmt] at hr
      obtain ⟨a, b1, c, d⟩ := nBlock b k s hw hsuf hs sig s' hr
      refine ⟨a, b1, c, fun h => ?_⟩
      have : NE s s' := by simpa using d h
      simpa using this.toNT
  | .ifChain c m body tail => by
      intro k s hw hsuf hs
      simp only [SStmt.flatten, List.cons_append, List.append_assoc] at hsuf
      simp only [sStmt]
      have hwc : c.wf = true := by
        have h1 : (Stmt.if c m).wf = true := by
          have := hst.wf; simp only [progWF, List.all_eq_true] at this; exact this _ (mem_of_suffix hsuf (by simp))
        simpa [Stmt.wf] using h1
      exact n_cond hst G hn c body tail (nBlock body) (nTail tail) k s hwc hw.1 hw.2 hsuf.tail hs
  | .loop lm body cm => n_loop hst G hn lm body cm (nBlock body)
  | .brk m => by
      intro k s hw hsuf hs sig s' hr
      simp only [sStmt] at hr; cases hr
      exact ⟨NR.refl _, hs, (fun c hc => by cases hc), (fun _ => by simpa using NT.refl s)⟩
  | .cont m => by
      intro k s hw hsuf hs sig s' hr
      simp only [sStmt] at hr; cases hr
      exact ⟨NR.refl _, hs, (fun c hc => by cases hc), (fun _ => by simpa using NT.refl s)⟩
  | .funcDef fm hdr hm body re rm => n_funcDef hst G hn fm hdr hm body re rm
theorem nBlock : ∀ (b : SBlock), NBlockP prog G b
  | .mk bs ss be => n_block_of_list hst G hn bs be ss (nList ss)
theorem nList : ∀ (l : SList), NListP prog G l
  | .nil => by
      intro k s hw hsuf hs sig s' hr
      simp only [sList] at hr; cases hr
      exact ⟨NR.refl _, hs, (fun c hc => by cases hc), (fun _ => by simpa using NT.refl s)⟩
  | .cons t ts => by
      intro k s hw hsuf hs sig s' hr
      simp only [SList.flatten, List.append_assoc] at hsuf
      simp only [sList] at hr
      obtain ⟨⟨sg, s1⟩, h1, h2⟩ := Res.bind_eq_ok hr
      obtain ⟨hnr, hs1, hret, hnt⟩ := nStmt t (ts.flatten ++ k) s hw.1 hsuf hs sg s1 h1
      cases sg with
      | normal =>
        have hnt1 : NT s s1 := by simpa using hnt (fun c hc => by cases hc)
        obtain ⟨a, b, c, d⟩ := nList ts k s1 hw.2 hsuf.of_append hs1 sig s' h2
        refine ⟨NT_NR hnt1 a, b, c, fun h => ?_⟩
        have : NT s1 s' := by simpa using d h
        simpa using hnt1.trans this
      | brk => cases h2; exact ⟨hnr, hs1, hret, hnt⟩
      | cont => cases h2; exact ⟨hnr, hs1, hret, hnt⟩
      | ret cc => cases h2; exact ⟨hnr, hs1, hret, hnt⟩
theorem nTail : ∀ (t : STail), NTailP prog G t
  | .none => by
      intro k s hw hsuf hs sig s' hr
      simp only [sTail] at hr; cases hr
      exact ⟨NR.refl _, hs, (fun c hc => by cases hc), (fun _ => by simpa using NT.refl s)⟩
  | .else em body => by
      intro k s hw hsuf hs sig s' hr
      simp only [STail.flatten, List.cons_append] at hsuf
      simp only [sTail] at hr
      obtain ⟨a, b1, c, d⟩ := nBlock body k s hw hsuf.tail hs sig s' hr
      refine ⟨a, b1, c, fun h => ?_⟩
      have : NE s s' := by simpa using d h
      simpa using this.toNT
  | .elseIf em c m body tail => by
      intro k s hw hsuf hs
      simp only [STail.flatten, List.cons_append, List.append_assoc] at hsuf
      simp only [sTail]
      have hwc : c.wf = true := by
        have h1 : (Stmt.if c m).wf = true := by
          have := hst.wf; simp only [progWF, List.all_eq_true] at this; exact this _ (mem_of_suffix hsuf (by simp))
        simpa [Stmt.wf] using h1
      exact n_cond hst G hn c body tail (nBlock body) (nTail tail) k s hwc hw.1 hw.2 hsuf.tail.tail hs
end
end
end Pakhi
namespace Pakhi
section
variable {prog : List Stmt}

/-- a function body `{ b } ফেরত re;`: whatever it leaves above, the scopes it was started with are still below, with
    exactly their names (the innermost of them — the parameter scope — may have gained names) -/
theorem n_body (hst : Structured prog) (G : Nat) (hn : ∀ g, g ≤ G → NamesInv prog g)
    (b : SBlock) (re : Expr) (rm : Meta) (k : List Stmt) (hw : b.WF)
    (hsuf : IsSuffixOf (b.flatten ++ (.ret re rm :: k)) prog) (s : St) (hs : StOK (GoodFn prog) prog s) (v : Val) (s2 : St)
    (h : sBody prog G b re rm k s = .ok (v, s2)) : NR s s2 := by
  simp only [sBody] at h
  obtain ⟨⟨sg, s1⟩, h1, h2⟩ := Res.bind_eq_ok h
  obtain ⟨hnr, hs1, hret, hnt⟩ := nBlock hst G hn b (.ret re rm :: k) s hw hsuf hs sg s1 h1
  have wfOf : ∀ (e : Expr) (m : Meta) (k' : List Stmt), IsSuffixOf (Stmt.ret e m :: k') prog → e.wf = true := by
    intro e m k' hsf
    have h1 : (Stmt.ret e m).wf = true := by
      have := hst.wf; simp only [progWF, List.all_eq_true] at this; exact this _ (mem_of_suffix hsf (by simp))
    simpa [Stmt.wf] using h1
  have fin : ∀ (e : Expr) (m : Meta) (k' : List Stmt), IsSuffixOf (Stmt.ret e m :: k') prog →
      eval prog G (.ret e m :: k') e s1 = .ok (v, s2) → NR s s2 := by
    intro e m k' hsf he
    exact NR_NE hnr (((hn G (Nat.le_refl _)).eval _ e s1 hsf (wfOf e m k' hsf) hs1).of_ok he)
  cases sg with
  | ret c =>
    obtain ⟨hsf, e, m, k', rfl⟩ := hret c rfl
    exact fin e m k' hsf h2
  | normal => exact fin re rm k hsuf.of_append h2
  | brk => exact fin re rm k hsuf.of_append h2
  | cont => exact fin re rm k hsuf.of_append h2

/-- calls, flat: the loop of `interpret_func_call_expr` leaves the scopes it was started with below whatever it pushed -/
def CallNames (prog : List Stmt) (f : Nat) : Prop :=
  ∀ (body : List Stmt) (s : St) (v : Val) (s2 : St), GoodBody body → IsSuffixOf body prog → StOK (GoodFn prog) prog s →
    callLoop prog f body s = .ok (v, s2) → NR s s2

theorem callNames_of (hst : Structured prog) (F : Nat) (hn : ∀ g, g ≤ F → NamesInv prog g) : CallNames prog F := by
  intro body s v s2 hgb hsuf hs hcl
  obtain ⟨b, re, rm, k, rfl, hw, hc⟩ := hgb
  have := call_refines hst b re rm k hw hc hsuf s hs F (.ok (v, s2)) hcl (by simp)
  exact n_body hst F hn b re rm k hw hsuf s hs v s2 this

theorem K_drop_ext (s1 s2 : St) (extra : List (List Str)) (top : List Str) (h : K s2 = extra ++ top :: K s1) :
    (s2.scopes.drop (s2.scopes.length - s1.scopes.length)).map keys = K s1 := by
  rw [List.map_drop]
  show (K s2).drop _ = K s1
  have hl : s2.scopes.length = (K s2).length := by simp [K]
  have hl1 : s1.scopes.length = (K s1).length := by simp [K]
  rw [hl, hl1, h]
  have : (extra ++ top :: K s1).length - (K s1).length = (extra ++ [top]).length := by simp; omega
  rw [this]
  have e : extra ++ top :: K s1 = (extra ++ [top]) ++ K s1 := by simp
  rw [e, List.drop_left]

variable (hinv : ∀ f, EvalInv (GoodFn prog) prog f)
include hinv

theorem ns_evalCall (f : Nat) (ih : NamesInv prog f) (hcn : CallNames prog f) (cur : List Stmt) (callee : Expr) (args : Exprs) (s : St)
    (hsuf : IsSuffixOf cur prog) (ha : args.wf = true) (hs : StOK (GoodFn prog) prog s) :
    Good (fun (x : Val × St) => NE s x.2) (evalCall prog (f+1) cur callee args s) := by
  simp only [evalCall]
  split
  · rename_i tok vm hcallee
    split
    · refine Good.bind (Good.and ((hinv f).evalList cur args s hsuf ha hs) (ih.evalList cur args s hsuf ha hs)) ?_
      rintro ⟨vs, s1⟩ ⟨⟨hs1, hvs, _⟩, hf1⟩
      simp only
      split
      · split
        · exact good_curErr _ _ _ _
        · exact Good.tagOut (good_stmtErr _ _ _ _)
      · have hc : CallOK (GoodFn prog) s1 (callBuiltin tok.lexeme vs s1) := by
          simp only [callBuiltin]
          split
          · exact callB_ok _ _ vs s1 hs1.heap hvs
          · exact callOK_err _ s1 _ (by decide)
        split
        · rename_i r hr
          rw [hr] at hc
          obtain ⟨v, s2⟩ := r
          obtain ⟨_, _, c3, c4, c5, c6, _⟩ := hc
          have : NE s1 s2 := by show List.map keys s2.scopes = List.map keys s1.scopes; rw [c4]
          exact Good.ok (hf1.trans this)
        · rename_i tag hr
          rw [hr] at hc
          have : (tag == panicTag) = false := by simpa [CallOK] using hc
          simp only [this]
          exact good_curErr _ _ _ _
    · split
      · exact Good.tagOut (good_stmtErr _ _ _ _)
      · rename_i rem params hl
        have hgf : GoodFn prog rem params := by
          have := lookupVar_ok (GoodFn prog) hs.scopes.2 hl
          simpa [ValOK] using this
        refine Good.bind (Good.and ((hinv f).bindParams cur params args [] s hsuf ha hs (by intro kv hkv; simp at hkv))
          (ih.bindParams cur params args [] s hsuf ha hs (by intro kv hkv; simp at hkv))) ?_
        rintro ⟨env, s1⟩ ⟨⟨hs1, henv, _⟩, hf1⟩
        simp only
        split
        · rename_i bm body hb
          have hbs : IsSuffixOf (Stmt.blockStart bm :: body) prog := by rw [← hb]; exact bodyOf_suffix prog rem
          have hs1' : StOK (GoodFn prog) prog { s1 with scopes := env :: s1.scopes } := ⟨hs1.heap, hs1.scopes.cons _ henv, hs1.loops⟩
          have hgb : GoodBody (Stmt.blockStart bm :: body) := by rw [← hb]; exact hgf
          have hgood := (hinv f).callLoop _ _ hbs hs1'
          cases hcl : callLoop prog f (Stmt.blockStart bm :: body) { s1 with scopes := env :: s1.scopes } with
          | ok x =>
            obtain ⟨v, s2⟩ := x
            obtain ⟨extra, ext, he⟩ := hcn _ _ v s2 hgb hbs hs1' hcl
            have he' : K s2 = extra ++ (keys env ++ ext) :: K s1 := he
            simp only [Res.bind]
            refine Good.ok (hf1.trans ?_)
            exact K_drop_ext s1 s2 extra _ he'
          | err e => exact Good.err e
          | panic p => rw [hcl] at hgood; exact hgood.elim
          | fuel => exact Good.fuel
        · exact Good.tagOut (good_unexpected _ _)
      · exact Good.tagOut (good_metaErr _ _ _ _)
  · exact Good.tagOut (good_stmtErr _ _ _ _)

theorem namesInv_succ (f : Nat) (ih : NamesInv prog f) (hcn : CallNames prog f) : NamesInv prog (f+1) :=
  { eval := ns_eval hinv f ih
    evalBin := ns_evalBin hinv f ih
    evalList := ns_evalList hinv f ih
    evalRecord := ns_evalRecord hinv f ih
    evalCall := ns_evalCall hinv f ih hcn
    bindParams := ns_bindParams hinv f ih
    execAssign := ns_execAssign hinv f ih
    evalIndexes := ns_evalIndexes hinv f ih }
end

/-- **names are preserved by the evaluator, at every fuel** -/
theorem namesInv_all {prog : List Stmt} (hst : Structured prog) : ∀ f, ∀ g, g ≤ f → NamesInv prog g
  | 0 => by intro g hg; have : g = 0 := by omega
            subst this; exact namesInv_zero
  | f+1 => by
      intro g hg
      have ih := namesInv_all hst f
      by_cases h : g ≤ f
      · exact ih g h
      · have : g = f + 1 := by omega
        subst this
        exact namesInv_succ hst.inv f (ih f (Nat.le_refl _)) (callNames_of hst f ih)

end Pakhi
