/- C18 / C19: output is write-only.  Running anything from a state with older output `b` underneath gives the same result with `b`
   underneath (`OFInv`, all ten evaluator functions, equational, macro-driven; `runLoop_under` for whole runs with any collection
   schedule): what was printed earlier can never influence what happens later.  Helper lemmas for Props/C18 and Props/C19. -/
import Pakhi.Model.Interp
namespace Pakhi

/-- the same state with `b` (older output) underneath what was printed so far -/
def St.under (s : St) (b : List Out) : St := { s with out := s.out ++ b }
def PErr.under (e : PErr) (b : List Out) : PErr := { e with out := e.out ++ b }

def Res.under {α : Type} (g : α → α) (b : List Out) : Res α → Res α
  | .ok a => .ok (g a)
  | .err e => .err (e.under b)
  | .panic p => .panic p
  | .fuel => .fuel

theorem Res.under_bind {α β : Type} (g : α → α) (g' : β → β) (b : List Out) (r : Res α) (k : α → Res β)
    (hk : ∀ a, k (g a) = (k a).under g' b) : (r.under g b).bind k = (r.bind k).under g' b := by
  cases r <;> simp [Res.under, Res.bind, hk]

theorem under_tagOut {α : Type} (g : α → α) (b o : List Out) (x : Res α) (hx : ∀ a, x = .ok a → g a = a) :
    x.tagOut (o ++ b) = (x.tagOut o).under g b := by
  cases x with
  | ok a => simp [Res.tagOut, Res.under, hx a rfl]
  | err e => simp [Res.tagOut, Res.under, PErr.under]
  | panic p => rfl
  | fuel => rfl

theorem under_emit (s : St) (t : Str) (b : List Out) : (s.under b).emit t = (s.emit t).under b := rfl
theorem under_mark (s : St) (m : Out) (b : List Out) : (s.under b).mark m = (s.mark m).under b := rfl

theorem under_stmtErr {α : Type} (g : α → α) (b o : List Out) (cur : List Stmt) (c : ErrClass) (t : String) :
    (stmtErr cur c t : Res α).tagOut (o ++ b) = ((stmtErr cur c t : Res α).tagOut o).under g b := by
  cases cur <;> simp [stmtErr, mkErr, unexpected, Res.tagOut, Res.under, PErr.under]

theorem print_under (cur : List Stmt) (b : List Out) : ∀ (f : Nat),
    (∀ v s, printVal cur f v (s.under b) = (printVal cur f v s).under (·.under b) b) ∧
    (∀ xs first s, printElems cur f xs first (s.under b) = (printElems cur f xs first s).under (·.under b) b) ∧
    (∀ xs s, printEntries cur f xs (s.under b) = (printEntries cur f xs s).under (·.under b) b)
  | 0 => by simp [printVal, printElems, printEntries, Res.under]
  | f+1 => by
      obtain ⟨i1, i2, i3⟩ := print_under cur b f
      refine ⟨?_, ?_, ?_⟩
      · intro v s
        cases v with
        | num n =>
          simp only [printVal]; split
          · rfl
          · exact under_stmtErr _ b s.out cur _ _
        | bool x => rfl
        | str t => rfl
        | list i =>
          simp only [printVal]
          have e0 : (s.under b).heap = s.heap := rfl
          cases hl : s.heap.lists[i]? with
          | none => simp only [e0, hl]; rfl
          | some l =>
            simp only [e0, hl, under_emit]
            rw [i2]
            cases printElems cur f l true (s.emit ['[']) <;> rfl
        | record i =>
          simp only [printVal]
          have e0 : (s.under b).heap = s.heap := rfl
          cases hr : s.heap.records[i]? with
          | none => simp only [e0, hr]; rfl
          | some r =>
            simp only [e0, hr, under_emit, under_mark]
            rw [i3]
            cases printEntries cur f r ((s.emit ['@', '{']).mark .recStart) <;> rfl
        | func _ _ => simp only [printVal]; exact under_stmtErr _ b s.out cur _ _
        | nil => simp only [printVal]; exact under_stmtErr _ b s.out cur _ _
      · intro xs first s
        cases xs with
        | nil => rfl
        | cons x xs =>
          simp only [printElems]
          have e : (if first = true then s.under b else (s.under b).emit W.sepCommaSpace) = (if first = true then s else s.emit W.sepCommaSpace).under b := by
            cases first <;> rfl
          rw [e, i1]
          cases printVal cur f x (if first = true then s else s.emit W.sepCommaSpace) with
          | ok s1 => exact i2 xs false s1
          | err e => rfl
          | panic p => rfl
          | fuel => rfl
      · intro xs s
        cases xs with
        | nil => rfl
        | cons kx xs =>
          obtain ⟨k, x⟩ := kx
          simp only [printEntries]
          have e : ((s.under b).mark .entStart).emit ('"' :: k ++ ['"', ':']) = ((s.mark .entStart).emit ('"' :: k ++ ['"', ':'])).under b := rfl
          rw [e, i1]
          cases printVal cur f x ((s.mark .entStart).emit ('"' :: k ++ ['"', ':'])) with
          | ok s1 => exact i3 xs ((s1.emit [',']).mark .entEnd)
          | err e => rfl
          | panic p => rfl
          | fuel => rfl
end Pakhi
namespace Pakhi

@[simp] theorem under_scopes (s : St) (b : List Out) : (s.under b).scopes = s.scopes := rfl
@[simp] theorem under_heap (s : St) (b : List Out) : (s.under b).heap = s.heap := rfl
@[simp] theorem under_loops (s : St) (b : List Out) : (s.under b).loops = s.loops := rfl
@[simp] theorem under_flags (s : St) (b : List Out) : (s.under b).flags = s.flags := rfl
@[simp] theorem under_world (s : St) (b : List Out) : (s.under b).world = s.world := rfl
@[simp] theorem under_gcCount (s : St) (b : List Out) : (s.under b).gcCount = s.gcCount := rfl
@[simp] theorem under_out (s : St) (b : List Out) : (s.under b).out = s.out ++ b := rfl

theorem under_metaErr {α : Type} (g : α → α) (b o : List Out) (m : Meta) (c : ErrClass) (t : String) :
    (metaErr m c t : Res α).tagOut (o ++ b) = ((metaErr m c t : Res α).tagOut o).under g b := by
  simp [metaErr, mkErr, Res.tagOut, Res.under, PErr.under]
theorem under_unexpected {α : Type} (g : α → α) (b o : List Out) (t : String) :
    (unexpected t : Res α).tagOut (o ++ b) = ((unexpected t : Res α).tagOut o).under g b := by
  simp [unexpected, Res.tagOut, Res.under, PErr.under]
theorem under_curErr {α : Type} (g : α → α) (b : List Out) (cur : List Stmt) (s : St) (msg : Str) :
    (curErr cur (s.under b) msg : Res α) = (curErr cur s msg : Res α).under g b := by
  cases cur <;> simp [curErr, unexpected, Res.tagOut, Res.under, PErr.under]

/-- a pure computation tagged with the current output, then continued -/
theorem under_tag_bind {α β : Type} (g' : β → β) (b o : List Out) (x : Res α) (k k' : α → Res β)
    (hk : ∀ a, k' a = (k a).under g' b) : (x.tagOut (o ++ b)).bind k' = ((x.tagOut o).bind k).under g' b := by
  cases x with
  | ok a => simp [Res.tagOut, Res.bind, hk]
  | err e => simp [Res.tagOut, Res.bind, Res.under, PErr.under]
  | panic p => rfl
  | fuel => rfl

theorem printTop_under (cur : List Stmt) (f : Nat) (eol : Bool) (v : Val) (s : St) (b : List Out) :
    printTop cur f eol v (s.under b) = (printTop cur f eol v s).under (·.under b) b := by
  simp only [printTop]
  split
  · exact under_stmtErr _ b s.out cur _ _
  · exact under_stmtErr _ b s.out cur _ _
  · rw [(print_under cur b f).1]
    cases printVal cur f v s with
    | ok s1 => cases eol <;> rfl
    | err e => rfl
    | panic p => rfl
    | fuel => rfl

theorem callB_under_inl (k : Builtin) (args : List Val) (s : St) (b : List Out) (v : Val) (s' : St)
    (h : callB k args s = .inl (v, s')) : callB k args (s.under b) = .inl (v, s'.under b) := by
  cases k <;> simp only [callB, under_heap, under_world] at h ⊢ <;> (repeat' split at h) <;> (try (simp at h; done))
  all_goals (simp at h; obtain ⟨rfl, rfl⟩ := h; simp_all [St.under])

theorem callB_under_inr (k : Builtin) (args : List Val) (s : St) (b : List Out) (t : Str)
    (h : callB k args s = .inr t) : callB k args (s.under b) = .inr t := by
  cases k <;> simp only [callB, under_heap, under_world] at h ⊢ <;> (repeat' split at h) <;> (try (simp at h; done))
  all_goals (simp at h; subst h; simp_all)

end Pakhi
namespace Pakhi
section
variable (prog : List Stmt) (b : List Out)

/-- **output is write-only**: running anything with older output `b` underneath gives the same result with `b` underneath -/
structure OFInv (f : Nat) : Prop where
  eval : ∀ cur e s, eval prog f cur e (s.under b) = (eval prog f cur e s).under (fun x => (x.1, x.2.under b)) b
  evalBin : ∀ cur lf op l r s, evalBin prog f cur lf op l r (s.under b) = (evalBin prog f cur lf op l r s).under (fun x => (x.1, x.2.under b)) b
  evalList : ∀ cur es s, evalList prog f cur es (s.under b) = (evalList prog f cur es s).under (fun x => (x.1, x.2.under b)) b
  evalRecord : ∀ cur ks vs acc s, evalRecord prog f cur ks vs acc (s.under b) = (evalRecord prog f cur ks vs acc s).under (fun x => (x.1, x.2.under b)) b
  evalCall : ∀ cur callee args s, evalCall prog f cur callee args (s.under b) = (evalCall prog f cur callee args s).under (fun x => (x.1, x.2.under b)) b
  bindParams : ∀ cur params args env s, bindParams prog f cur params args env (s.under b) = (bindParams prog f cur params args env s).under (fun x => (x.1, x.2.under b)) b
  callLoop : ∀ cur s, callLoop prog f cur (s.under b) = (callLoop prog f cur s).under (fun x => (x.1, x.2.under b)) b
  exec : ∀ cur s, exec prog f cur (s.under b) = (exec prog f cur s).under (fun x => (x.1, x.2.under b)) b
  execAssign : ∀ cur a s, execAssign prog f cur a (s.under b) = (execAssign prog f cur a s).under (·.under b) b
  evalIndexes : ∀ cur ixs s, evalIndexes prog f cur ixs (s.under b) = (evalIndexes prog f cur ixs s).under (fun x => (x.1, x.2.under b)) b

theorem ofInv_zero : OFInv prog b 0 := by
  constructor <;> intros <;> simp only [eval, evalBin, evalList, evalRecord, evalCall, bindParams, callLoop, exec, execAssign, evalIndexes] <;> rfl

set_option hygiene false in
macro "ofm" : tactic => `(tactic| repeat' (first
  | rfl
  | exact ih.eval _ _ _
  | exact ih.evalBin _ _ _ _ _ _
  | exact ih.evalList _ _ _
  | exact ih.evalRecord _ _ _ _ _
  | exact ih.evalCall _ _ _ _
  | exact ih.bindParams _ _ _ _ _
  | exact ih.callLoop _ _
  | exact ih.exec _ _
  | exact ih.execAssign _ _ _
  | exact ih.evalIndexes _ _ _
  | exact under_stmtErr _ _ _ _ _ _
  | exact under_metaErr _ _ _ _ _ _
  | exact under_unexpected _ _ _ _
  | exact under_curErr _ _ _ _ _
  | (rw [ih.eval]; refine Res.under_bind _ _ _ _ _ ?_)
  | (rw [ih.evalList]; refine Res.under_bind _ _ _ _ _ ?_)
  | (rw [ih.evalRecord]; refine Res.under_bind _ _ _ _ _ ?_)
  | (rw [ih.bindParams]; refine Res.under_bind _ _ _ _ _ ?_)
  | (rw [ih.callLoop]; refine Res.under_bind _ _ _ _ _ ?_)
  | (rw [ih.exec]; refine Res.under_bind _ _ _ _ _ ?_)
  | (rw [ih.execAssign]; refine Res.under_bind _ _ _ _ _ ?_)
  | (rw [ih.evalIndexes]; refine Res.under_bind _ _ _ _ _ ?_)
  | (rw [printTop_under]; refine Res.under_bind _ _ _ _ _ ?_)
  | (refine under_tag_bind _ _ _ _ _ _ ?_)
  | (refine declare_bind_under _ _ _ _ _ _ _ ?_)
  | (intro a; obtain ⟨_, _⟩ := a; simp only [under_scopes, under_heap, under_loops, under_flags, under_world, under_out, under_gcCount])
  | (intro a; simp only [under_scopes, under_heap, under_loops, under_flags, under_world, under_out, under_gcCount])
  | intro a
  | split))

omit prog in
theorem callBuiltin_under_inl (n : Str) (args : List Val) (s : St) (v : Val) (s' : St)
    (h : callBuiltin n args s = .inl (v, s')) : callBuiltin n args (s.under b) = .inl (v, s'.under b) := by
  simp only [callBuiltin] at h ⊢
  split at h
  · rename_i k hk; exact callB_under_inl k args s b v s' h
  · simp at h
omit prog in
theorem callBuiltin_under_inr (n : Str) (args : List Val) (s : St) (t : Str)
    (h : callBuiltin n args s = .inr t) : callBuiltin n args (s.under b) = .inr t := by
  simp only [callBuiltin] at h ⊢
  split at h
  · rename_i k hk; exact callB_under_inr k args s b t h
  · exact h

omit prog in
theorem declare_bind_under {β : Type} (g : β → β) (scs : List Scope) (n : Str) (v : Val) (k k' : List Scope → Res β)
    (hk : ∀ sc, k' sc = (k sc).under g b) : (declareVar scs n v).bind k' = ((declareVar scs n v).bind k).under g b := by
  cases scs <;> simp [declareVar, Res.bind, Res.under, hk]

omit b in
theorem execFuncDef_under (b : List Out) (rest : List Stmt) (s : St) :
    (execFuncDef prog rest (s.under b)).tagOut (s.out ++ b) =
      ((execFuncDef prog rest s).tagOut s.out).under (fun x => (x.1, x.2.under b)) b := by
  simp only [execFuncDef, under_scopes]
  repeat' split
  all_goals first
    | rfl
    | (simp [metaErr, mkErr, unexpected, stmtErr, Res.tagOut, Res.under, PErr.under]; done)
    | (cases rest <;> simp [metaErr, mkErr, unexpected, stmtErr, Res.tagOut, Res.under, PErr.under]; done)

theorem ofInv_succ (f : Nat) (ih : OFInv prog b f) : OFInv prog b (f+1) := by
  constructor
  · intro cur e s
    cases e <;> simp only [eval, under_scopes, under_heap, under_loops, under_flags, under_world, under_out] <;> ofm
  · intro cur lf op l r s
    simp only [evalBin]; ofm
  · intro cur es s
    cases es <;> simp only [evalList] <;> ofm
  · intro cur ks vs acc s
    cases ks <;> cases vs <;> simp only [evalRecord] <;> ofm
  · intro cur callee args s
    simp only [evalCall, under_scopes]
    split
    · rename_i tok vm hcallee
      split
      · rw [ih.evalList]; refine Res.under_bind _ _ _ _ _ ?_
        rintro ⟨vs, s1⟩
        simp only
        split
        · split
          · exact under_curErr _ _ _ _ _
          · exact under_stmtErr _ _ _ _ _ _
        · cases hcb : callBuiltin tok.lexeme vs s1 with
          | inl r =>
            obtain ⟨v, s'⟩ := r
            rw [callBuiltin_under_inl b _ _ _ _ _ hcb]; rfl
          | inr t =>
            rw [callBuiltin_under_inr b _ _ _ _ hcb]
            simp only
            split
            · rfl
            · exact under_curErr _ _ _ _ _
      · split
        · exact under_stmtErr _ _ _ _ _ _
        · rw [ih.bindParams]; refine Res.under_bind _ _ _ _ _ ?_
          rintro ⟨env, s1⟩
          simp only [under_scopes, under_loops, under_flags]
          split
          · rename_i bm body hb
            show (callLoop prog f (Stmt.blockStart bm :: body) (({ s1 with scopes := env :: s1.scopes } : St).under b)).bind _ = _
            rw [ih.callLoop]; refine Res.under_bind _ _ _ _ _ ?_
            rintro ⟨v, s2⟩
            rfl
          · exact under_unexpected _ _ _ _
        · exact under_metaErr _ _ _ _ _ _
    · exact under_stmtErr _ _ _ _ _ _
  · intro cur params args env s
    cases params <;> cases args <;> simp only [bindParams] <;> ofm
  · intro cur s
    simp only [callLoop]; ofm
  · intro cur s
    simp only [exec, under_scopes, under_heap, under_loops, under_flags, under_world, under_out, under_gcCount]; ofm
    all_goals first
      | exact execFuncDef_under prog b _ _
      | (rename_i h; simp only [h, ↓reduceIte]; first | exact under_stmtErr _ _ _ _ _ _ | rfl)
  · intro cur a s
    simp only [execAssign, under_scopes, under_heap, under_loops, under_flags, under_world, under_out, under_gcCount]; ofm
  · intro cur ixs s
    cases ixs <;> simp only [evalIndexes] <;> ofm
    done
end
end Pakhi

namespace Pakhi
theorem ofInv (prog : List Stmt) (b : List Out) : ∀ f, OFInv prog b f
  | 0 => ofInv_zero prog b
  | f+1 => ofInv_succ prog b f (ofInv prog b f)

/-- **output is write-only, whole runs**: a run started with older output `b` underneath ends exactly like the run without it, with
    `b` underneath — same statements executed, same values, same heap, same error (class, message, line), for every collection
    schedule and every fuel -/
theorem runLoop_under (prog : List Stmt) (b : List Out) (g : GcMode) : ∀ (f k : Nat) (cur : List Stmt) (s : St),
    runLoop prog g f k cur (s.under b) = (runLoop prog g f k cur s).under (·.under b) b
  | 0, _, _, _ => rfl
  | f+1, k, cur, s => by
      simp only [runLoop]
      split
      · rfl
      · rfl
      · rw [(ofInv prog b f).exec]
        cases exec prog f cur s with
        | ok x =>
          obtain ⟨cur', s1⟩ := x
          simp only [Res.under, under_heap, under_scopes]
          by_cases hf : g.fires k s1.heap = true
          · simp only [hf, if_true]
            cases collect s1.scopes s1.heap with
            | ok h' => exact runLoop_under prog b g f (k+1) cur' { s1 with heap := h', gcCount := s1.gcCount + 1 }
            | panic p => rfl
            | fuel => rfl
          · simp only [hf, if_false]
            exact runLoop_under prog b g f (k+1) cur' s1
        | err e => rfl
        | panic p => rfl
        | fuel => rfl
end Pakhi
