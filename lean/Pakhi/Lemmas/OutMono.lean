/-
  The output only grows: every outcome of the evaluator — value or error — carries an output that extends the output it
  started with (helper lemmas for C18 / C13).
-/
import Pakhi.Lemmas.Render
namespace Pakhi

/-- the output `o'` extends the output `o` (as text) -/
def OutLe (o o' : List Out) : Prop := ∃ t, outText o' = outText o ++ t

theorem OutLe.refl (o : List Out) : OutLe o o := ⟨[], by simp⟩
theorem OutLe.trans {a b c : List Out} (h1 : OutLe a b) (h2 : OutLe b c) : OutLe a c := by
  obtain ⟨t1, h1⟩ := h1; obtain ⟨t2, h2⟩ := h2
  exact ⟨t1 ++ t2, by rw [h2, h1, List.append_assoc]⟩

/-- whatever the outcome — a value or an error — it carries an output that extends `o` -/
def OutGood {α : Type} (o : List Out) (p : α → List Out) : Res α → Prop
  | .ok a => OutLe o (p a)
  | .err e => OutLe o e.out
  | _ => True

theorem OutGood.bind {α β} {o : List Out} {p : α → List Out} {q : β → List Out} {r : Res α} {f : α → Res β}
    (h : OutGood o p r) (hf : ∀ a, OutGood (p a) q (f a)) : OutGood o q (r.bind f) := by
  cases r with
  | ok a =>
    simp only [Res.bind]
    have := hf a
    cases hfa : f a with
    | ok b => rw [hfa] at this; exact OutLe.trans h this
    | err e => rw [hfa] at this; exact OutLe.trans h this
    | panic p => trivial
    | fuel => trivial
  | err e => exact h
  | panic p => trivial
  | fuel => trivial

theorem OutGood.mono {α} {o o0 : List Out} {p : α → List Out} {r : Res α} (h0 : OutLe o0 o) (h : OutGood o p r) : OutGood o0 p r := by
  cases r with
  | ok a => exact OutLe.trans h0 h
  | err e => exact OutLe.trans h0 h
  | panic p => trivial
  | fuel => trivial

/-- a pure result tagged with the current output -/
theorem outGood_tag {α} (o : List Out) (x : Res α) : OutGood o (fun _ => o) (x.tagOut o) := by
  cases x <;> simp [Res.tagOut, OutGood, OutLe.refl]

theorem outGood_ok {α} {o : List Out} {p : α → List Out} {a : α} (h : p a = o) : OutGood o p (.ok a) := by
  simp [OutGood, h, OutLe.refl]

theorem outGood_curErr {α} (cur : List Stmt) (s : St) (msg : Str) (p : α → List Out) : OutGood s.out p (curErr cur s msg : Res α) := by
  cases cur <;> simp [curErr, unexpected, Res.tagOut, OutGood, OutLe.refl]

theorem outLe_emit (s : St) (t : Str) : OutLe s.out (s.emit t).out := ⟨t, emit_out s t⟩
theorem outLe_mark (s : St) (m : Out) (hm : ∀ t, m ≠ .text t) : OutLe s.out (s.mark m).out := ⟨[], by simp [mark_out s m hm]⟩

theorem print_out (cur : List Stmt) : ∀ (f : Nat),
    (∀ v s, OutGood s.out (fun s' => s'.out) (printVal cur f v s)) ∧
    (∀ xs first s, OutGood s.out (fun s' => s'.out) (printElems cur f xs first s)) ∧
    (∀ xs s, OutGood s.out (fun s' => s'.out) (printEntries cur f xs s))
  | 0 => by simp [printVal, printElems, printEntries, OutGood]
  | f+1 => by
      obtain ⟨i1, i2, i3⟩ := print_out cur f
      refine ⟨?_, ?_, ?_⟩
      · intro v s
        cases v with
        | num n =>
          simp only [printVal]; split
          · exact outLe_emit s _
          · cases cur <;> simp [stmtErr, mkErr, unexpected, Res.tagOut, OutGood, OutLe.refl]
        | bool b => simp only [printVal]; exact outLe_emit s _
        | str t => simp only [printVal]; exact outLe_emit s _
        | list i =>
          simp only [printVal]
          split
          · trivial
          · rename_i l hl
            have h := i2 l true (s.emit ['['])
            cases hp : printElems cur f l true (s.emit ['[']) with
            | ok s1 => rw [hp] at h; exact OutLe.trans (outLe_emit s _) (OutLe.trans h (outLe_emit s1 _))
            | err e => rw [hp] at h; exact OutLe.trans (outLe_emit s _) h
            | panic p => trivial
            | fuel => trivial
        | record i =>
          simp only [printVal]
          split
          · trivial
          · rename_i r hr
            have h := i3 r ((s.emit ['@', '{']).mark .recStart)
            have h0 : OutLe s.out ((s.emit ['@', '{']).mark .recStart).out :=
              OutLe.trans (outLe_emit s _) (outLe_mark _ _ (by simp))
            cases hp : printEntries cur f r ((s.emit ['@', '{']).mark .recStart) with
            | ok s1 =>
              rw [hp] at h
              exact OutLe.trans h0 (OutLe.trans h (OutLe.trans (outLe_mark s1 .recEnd (by simp)) (outLe_emit _ _)))
            | err e => rw [hp] at h; exact OutLe.trans h0 h
            | panic p => trivial
            | fuel => trivial
        | func _ _ => simp only [printVal]; cases cur <;> simp [stmtErr, mkErr, unexpected, Res.tagOut, OutGood, OutLe.refl]
        | nil => simp only [printVal]; cases cur <;> simp [stmtErr, mkErr, unexpected, Res.tagOut, OutGood, OutLe.refl]
      · intro xs first s
        cases xs with
        | nil => simp only [printElems]; exact OutLe.refl _
        | cons x xs =>
          simp only [printElems]
          have h0 : OutLe s.out (if first then s else s.emit W.sepCommaSpace).out := by
            cases first
            · exact outLe_emit s _
            · exact OutLe.refl _
          have h := i1 x (if first then s else s.emit W.sepCommaSpace)
          cases hp : printVal cur f x (if first then s else s.emit W.sepCommaSpace) with
          | ok s1 => rw [hp] at h; exact OutGood.mono (OutLe.trans h0 h) (i2 xs false s1)
          | err e => rw [hp] at h; exact OutLe.trans h0 h
          | panic p => trivial
          | fuel => trivial
      · intro xs s
        cases xs with
        | nil => simp only [printEntries]; exact OutLe.refl _
        | cons kx xs =>
          obtain ⟨k, x⟩ := kx
          simp only [printEntries]
          have h0 : OutLe s.out ((s.mark .entStart).emit ('"' :: k ++ ['"', ':'])).out :=
            OutLe.trans (outLe_mark s _ (by simp)) (outLe_emit _ _)
          have h := i1 x ((s.mark .entStart).emit ('"' :: k ++ ['"', ':']))
          cases hp : printVal cur f x ((s.mark .entStart).emit ('"' :: k ++ ['"', ':'])) with
          | ok s1 =>
            rw [hp] at h
            have h1 : OutLe s1.out ((s1.emit [',']).mark .entEnd).out := OutLe.trans (outLe_emit s1 _) (outLe_mark _ _ (by simp))
            exact OutGood.mono (OutLe.trans h0 (OutLe.trans h h1)) (i3 xs _)
          | err e => rw [hp] at h; exact OutLe.trans h0 h
          | panic p => trivial
          | fuel => trivial

theorem printTop_out (cur : List Stmt) (f : Nat) (eol : Bool) (v : Val) (s : St) :
    OutGood s.out (fun s' => s'.out) (printTop cur f eol v s) := by
  simp only [printTop]
  split
  · cases cur <;> simp [stmtErr, mkErr, unexpected, Res.tagOut, OutGood, OutLe.refl]
  · cases cur <;> simp [stmtErr, mkErr, unexpected, Res.tagOut, OutGood, OutLe.refl]
  · have h := (print_out cur f).1 v s
    cases hp : printVal cur f v s with
    | ok s1 =>
      rw [hp] at h
      cases eol
      · exact h
      · exact OutLe.trans h (outLe_emit s1 _)
    | err e => rw [hp] at h; exact h
    | panic p => trivial
    | fuel => trivial
section
variable (prog : List Stmt)

theorem callB_out (k : Builtin) (args : List Val) (s : St) (v : Val) (s' : St) (h : callB k args s = .inl (v, s')) : s'.out = s.out := by
  cases k <;> simp only [callB] at h <;> (repeat' split at h) <;> simp_all <;> (try (obtain ⟨_, rfl⟩ := h; rfl))

theorem callBuiltin_out (n : Str) (args : List Val) (s : St) (v : Val) (s' : St) (h : callBuiltin n args s = .inl (v, s')) : s'.out = s.out := by
  simp only [callBuiltin] at h
  split at h
  · exact callB_out _ _ _ _ _ h
  · simp at h
end
section
variable (prog : List Stmt)

theorem execFuncDef_out (rest : List Stmt) (s : St) : OutGood s.out (fun (x : List Stmt × St) => x.2.out) ((execFuncDef prog rest s).tagOut s.out) := by
  cases h : execFuncDef prog rest s with
  | ok x =>
    simp only [Res.tagOut_ok, OutGood]
    have : x.2.out = s.out := by
      simp only [execFuncDef] at h
      repeat' split at h
      all_goals (try (simp [metaErr, mkErr, unexpected, stmtErr] at h; done))
      all_goals (try (cases rest <;> simp [metaErr, mkErr, unexpected, stmtErr] at h; done))
      all_goals (simp at h; obtain ⟨_, rfl⟩ := h; rfl)
    rw [this]; exact OutLe.refl _
  | err e => simp [Res.tagOut, OutGood, OutLe.refl]
  | panic p => trivial
  | fuel => trivial

theorem outGood_stmtErr {α} (o : List Out) (p : α → List Out) (cur : List Stmt) (c : ErrClass) (t : String) :
    OutGood o p ((stmtErr cur c t : Res α).tagOut o) := by
  cases cur <;> simp [stmtErr, mkErr, unexpected, Res.tagOut, OutGood, OutLe.refl]
theorem outGood_metaErr {α} (o : List Out) (p : α → List Out) (m : Meta) (c : ErrClass) (t : String) :
    OutGood o p ((metaErr m c t : Res α).tagOut o) := by
  simp [metaErr, mkErr, Res.tagOut, OutGood, OutLe.refl]
theorem outGood_unexpected {α} (o : List Out) (p : α → List Out) (t : String) :
    OutGood o p ((unexpected t : Res α).tagOut o) := by
  simp [unexpected, Res.tagOut, OutGood, OutLe.refl]

theorem callBuiltin_out' (n : Str) (args : List Val) (s : St) (r : Val × St) (h : callBuiltin n args s = .inl r) : r.2.out = s.out := by
  obtain ⟨v, s'⟩ := r; exact callBuiltin_out n args s v s' h

theorem outGood_declare (s : St) (n : Str) (v : Val) (g : List Scope → St) (hg : ∀ sc, (g sc).out = s.out) :
    OutGood s.out (fun s' => s'.out) ((declareVar s.scopes n v).bind fun sc => .ok (g sc)) := by
  cases h : declareVar s.scopes n v with
  | ok sc => simp [Res.bind, OutGood, hg, OutLe.refl]
  | err e => cases hs : s.scopes <;> simp [declareVar, hs] at h
  | panic p => trivial
  | fuel => trivial

structure OutInv (f : Nat) : Prop where
  eval : ∀ cur e s, OutGood s.out (fun (x : Val × St) => x.2.out) (eval prog f cur e s)
  evalBin : ∀ cur lf op l r s, OutGood s.out (fun (x : Val × St) => x.2.out) (evalBin prog f cur lf op l r s)
  evalList : ∀ cur es s, OutGood s.out (fun (x : List Val × St) => x.2.out) (evalList prog f cur es s)
  evalRecord : ∀ cur ks vs acc s, OutGood s.out (fun (x : RecordObj × St) => x.2.out) (evalRecord prog f cur ks vs acc s)
  evalCall : ∀ cur callee args s, OutGood s.out (fun (x : Val × St) => x.2.out) (evalCall prog f cur callee args s)
  bindParams : ∀ cur params args env s, OutGood s.out (fun (x : Scope × St) => x.2.out) (bindParams prog f cur params args env s)
  callLoop : ∀ cur s, OutGood s.out (fun (x : Val × St) => x.2.out) (callLoop prog f cur s)
  exec : ∀ cur s, OutGood s.out (fun (x : List Stmt × St) => x.2.out) (exec prog f cur s)
  execAssign : ∀ cur a s, OutGood s.out (fun (s' : St) => s'.out) (execAssign prog f cur a s)
  evalIndexes : ∀ cur ixs s, OutGood s.out (fun (x : List Index × St) => x.2.out) (evalIndexes prog f cur ixs s)

theorem outInv_zero : OutInv prog 0 := by
  constructor <;> intros <;> simp only [eval, evalBin, evalList, evalRecord, evalCall, bindParams, callLoop, exec, execAssign, evalIndexes] <;> trivial

set_option hygiene false in
macro "outm" : tactic => `(tactic| repeat' (first
  | exact OutLe.refl _
  | exact outGood_ok rfl
  | exact ih.eval _ _ _
  | exact ih.evalBin _ _ _ _ _ _
  | exact ih.evalList _ _ _
  | exact ih.evalRecord _ _ _ _ _
  | exact ih.evalCall _ _ _ _
  | exact ih.bindParams _ _ _ _ _
  | exact ih.callLoop _ _
  | exact ih.exec _ _
  | exact ih.execAssign _ _ _
  | exact ih.evalIndexes _ _ _
  | exact printTop_out _ _ _ _ _
  | exact outGood_curErr _ _ _ _
  | exact execFuncDef_out _ _ _
  | exact outGood_stmtErr _ _ _ _ _
  | exact outGood_metaErr _ _ _ _ _
  | exact outGood_unexpected _ _ _
  | exact outGood_tag _ _
  | (refine OutGood.bind (p := fun _ => _) (outGood_tag _ _) ?_)
  | (refine OutGood.bind (ih.eval _ _ _) ?_)
  | (refine OutGood.bind (ih.evalList _ _ _) ?_)
  | (refine OutGood.bind (ih.evalRecord _ _ _ _ _) ?_)
  | (refine OutGood.bind (ih.bindParams _ _ _ _ _) ?_)
  | (refine OutGood.bind (ih.callLoop _ _) ?_)
  | (refine OutGood.bind (ih.exec _ _) ?_)
  | (refine OutGood.bind (ih.execAssign _ _ _) ?_)
  | (refine OutGood.bind (ih.evalIndexes _ _ _) ?_)
  | (refine OutGood.bind (printTop_out _ _ _ _ _) ?_)
  | (intro a; obtain ⟨_, _⟩ := a; dsimp only)
  | intro a
  | split))

/-- the leaves the macro leaves open -/
macro "outleaf" : tactic => `(tactic| first
  | trivial
  | exact outGood_ok (callBuiltin_out' _ _ _ _ (by assumption))
  | exact outGood_declare _ _ _ _ (fun _ => rfl)
  | (refine OutGood.bind (p := fun _ => _) (outGood_ok (a := _) rfl) ?_))

theorem outInv_succ (f : Nat) (ih : OutInv prog f) : OutInv prog (f+1) := by
  constructor
  · intro cur e s
    cases e <;> simp only [eval] <;> outm
  · intro cur lf op l r s
    simp only [evalBin]; outm
  · intro cur es s
    cases es <;> simp only [evalList] <;> outm
  · intro cur ks vs acc s
    cases ks <;> cases vs <;> simp only [evalRecord] <;> outm
    all_goals outleaf
  · intro cur callee args s
    simp only [evalCall]; outm
    all_goals (try outleaf)
  · intro cur params args env s
    cases params <;> cases args <;> simp only [bindParams] <;> outm
  · intro cur s
    simp only [callLoop]; outm
  · intro cur s
    simp only [exec]; outm
  · intro cur a s
    simp only [execAssign]; outm
    all_goals (try outleaf)
  · intro cur ixs s
    cases ixs <;> simp only [evalIndexes] <;> outm
    all_goals (try outleaf)
    all_goals (try outm)

theorem outInv : ∀ f, OutInv prog f
  | 0 => outInv_zero prog
  | f+1 => outInv_succ prog f (outInv f)

/-- a whole run: the final output, or the output carried by the error that ended the run, extends the output at
    the start (collections do not touch it) -/
theorem runLoop_out (g : GcMode) : ∀ (f k : Nat) (cur : List Stmt) (s : St), OutGood s.out (fun s' => s'.out) (runLoop prog g f k cur s)
  | 0, _, _, _ => by simp only [runLoop]; trivial
  | f+1, k, cur, s => by
      simp only [runLoop]
      split
      · exact OutLe.refl _
      · exact OutLe.refl _
      · have h := (outInv prog f).exec cur s
        cases hx : exec prog f cur s with
        | ok x =>
          obtain ⟨cur', s1⟩ := x
          rw [hx] at h
          simp only
          split
          · cases collect s1.scopes s1.heap with
            | ok h' => exact OutGood.mono h (runLoop_out g f (k+1) cur' _)
            | panic p => trivial
            | fuel => trivial
          · exact OutGood.mono h (runLoop_out g f (k+1) cur' s1)
        | err e => rw [hx] at h; exact h
        | panic p => trivial
        | fuel => trivial
end
end Pakhi
