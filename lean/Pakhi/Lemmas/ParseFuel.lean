/-
  The expression parser consumes tokens and never runs out of its fuel (helper lemmas for C12).
-/
import Pakhi.Lemmas.ParseWF
namespace Pakhi

def PS.N (s : PS) : Nat := s.rest.length

theorem PS.adv_N (s : PS) : s.adv.N = s.N - 1 := by
  unfold PS.adv PS.N
  cases h : s.rest <;> simp [h]

theorem PS.adv_N_le (s : PS) : s.adv.N ≤ s.N := by rw [PS.adv_N]; omega

theorem PS.N_pos_of_peek {s : PS} {k : TK} (h : s.peek = k) (hk : k ≠ .eot) : 1 ≤ s.N := by
  unfold PS.peek at h; unfold PS.N
  cases hr : s.rest with
  | nil => simp [hr] at h; exact (hk h.symm).elim
  | cons t r => simp

theorem PS.N_pos_of_rest {s : PS} {t : Token} {r : List Token} (h : s.rest = t :: r) : 1 ≤ s.N := by simp [PS.N, h]

set_option maxHeartbeats 4000000 in
/-- every successful parse function consumes tokens: the operand parsers at least one -/
theorem expr_progress : ∀ (f : Nat),
    (∀ k s e s', pLevel f k s = .ok (e, s') → s'.N + 1 ≤ s.N) ∧
    (∀ k e0 s e s', pLevelLoop f k e0 s = .ok (e, s') → s'.N ≤ s.N) ∧
    (∀ s e s', pUnary f s = .ok (e, s') → s'.N + 1 ≤ s.N) ∧
    (∀ s e s', pCall f s = .ok (e, s') → s'.N + 1 ≤ s.N) ∧
    (∀ e0 s e s', pCallLoop f e0 s = .ok (e, s') → s'.N ≤ s.N) ∧
    (∀ e0 s e s', pFinishCall f e0 s = .ok (e, s') → s'.N ≤ s.N) ∧
    (∀ s es s', pArgs f s = .ok (es, s') → s'.N + 1 ≤ s.N) ∧
    (∀ s e s', pPrimary f s = .ok (e, s') → s'.N + 1 ≤ s.N) ∧
    (∀ e0 s e s', pIndexLoop f e0 s = .ok (e, s') → s'.N ≤ s.N) ∧
    (∀ s es s', pListElems f s = .ok (es, s') → s'.N ≤ s.N) ∧
    (∀ s ks vs s', pRecordElems f s = .ok (ks, vs, s') → s'.N ≤ s.N)
  | 0 => by simp [pLevel, pLevelLoop, pUnary, pCall, pCallLoop, pFinishCall, pArgs, pPrimary, pIndexLoop, pListElems, pRecordElems]
  | f+1 => by
      obtain ⟨i1, i2, i3, i4, i5, i6, i7, i8, i9, i10, i11⟩ := expr_progress f
      refine ⟨?_, ?_, ?_, ?_, ?_, ?_, ?_, ?_, ?_, ?_, ?_⟩
      · intro k s e s' h; simp only [pLevel] at h
        split at h
        · exact i3 _ _ _ h
        · split at h <;> try (simp at h)
          rename_i e1 s1 h1
          have a := i1 _ _ _ _ h1
          have b := i2 _ _ _ _ _ h
          omega
      · intro k e0 s e s' h; simp only [pLevelLoop] at h
        split at h
        · split at h <;> try (simp at h)
          rename_i r s1 h1
          split at h <;> try (simp at h)
          have a := i1 _ _ _ _ h1
          have b := i2 _ _ _ _ _ h
          have c := s.adv_N_le
          omega
        · simp at h; obtain ⟨_, rfl⟩ := h; exact Nat.le_refl _
      · intro s e s' h; simp only [pUnary] at h
        split at h
        · rename_i hop
          split at h <;> try (simp at h)
          split at h <;> try (simp at h)
          rename_i r s1 h1
          obtain ⟨_, rfl⟩ := h
          have a := i3 _ _ _ h1
          have c := s.adv_N_le
          omega
        · exact i4 _ _ _ h
      · intro s e s' h; simp only [pCall] at h
        split at h <;> try (simp at h)
        rename_i e1 s1 h1
        have a := i8 _ _ _ h1
        have b := i5 _ _ _ _ h
        omega
      · intro e0 s e s' h; simp only [pCallLoop] at h
        split at h
        · split at h <;> try (simp at h)
          rename_i e1 s1 h1
          have a := i6 _ _ _ _ h1
          have b := i5 _ _ _ _ h
          have c := s.adv_N_le
          omega
        · simp at h; obtain ⟨_, rfl⟩ := h; exact Nat.le_refl _
      · intro e0 s e s' h; simp only [pFinishCall] at h
        split at h <;> try (simp at h)
        split at h
        all_goals first
          | (simp at h; obtain ⟨_, rfl⟩ := h; exact s.adv_N_le)
          | (split at h <;> try (simp at h)
             rename_i args s1 h1
             obtain ⟨_, rfl⟩ := h
             have a := i7 _ _ _ h1
             have c := s1.adv_N_le
             omega)
      · intro s es s' h; simp only [pArgs] at h
        split at h <;> try (simp at h)
        rename_i e1 s1 h1
        have a := i1 _ _ _ _ h1
        split at h
        · split at h <;> try (simp at h)
          rename_i es1 s2 h2
          obtain ⟨_, rfl⟩ := h
          have b := i7 _ _ _ h2
          have c := s1.adv_N_le
          omega
        · simp at h; obtain ⟨_, rfl⟩ := h; exact a
      · intro s e s' h; simp only [pPrimary] at h
        split at h
        · exact absurd h (syntaxErr_ne_ok _ _ _)
        · rename_i t tl hrest
          have hpos := PS.N_pos_of_rest hrest
          have hadv := s.adv_N
          repeat' split at h
          all_goals (try (simp at h))
          all_goals first
            | exact absurd h (syntaxErr_ne_ok _ _ _)
            | (obtain ⟨_, rfl⟩ := h; omega)
            | (have b := i9 _ _ _ _ h; omega)
            | (obtain ⟨_, rfl⟩ := h
               have a := i1 _ _ _ _ ‹_›
               have c := PS.adv_N_le ‹PS›
               omega)
            | (obtain ⟨_, rfl⟩ := h
               have a := i10 _ _ _ ‹_›
               have c := PS.adv_N_le ‹PS›
               omega)
            | (obtain ⟨_, rfl⟩ := h
               have a := i11 _ _ _ _ ‹_›
               have c := PS.adv_N_le ‹PS›
               have d := PS.adv_N_le s.adv
               omega)
      · intro e0 s e s' h; simp only [pIndexLoop] at h
        split at h
        · simp at h; obtain ⟨_, rfl⟩ := h; exact Nat.le_refl _
        · split at h
          · split at h <;> try (simp at h)
            rename_i i s1 h1
            have a := i1 _ _ _ _ h1
            have c := s.adv_N_le
            split at h
            all_goals first
              | exact absurd h (syntaxErr_ne_ok _ _ _)
              | (split at h <;> try (simp at h)
                 have b := i9 _ _ _ _ h
                 have d := s1.adv_N_le
                 omega)
          · simp at h; obtain ⟨_, rfl⟩ := h; exact Nat.le_refl _
      · intro s es s' h; simp only [pListElems] at h
        split at h
        · simp at h; obtain ⟨_, rfl⟩ := h; exact Nat.le_refl _
        · split at h <;> try (simp at h)
          rename_i e1 s1 h1
          have a := i1 _ _ _ _ h1
          split at h <;> try (simp at h)
          rename_i es1 s2 h2
          obtain ⟨_, rfl⟩ := h
          have b := i10 _ _ _ h2
          have hc : ∀ (p : Prop) [Decidable p], (if p then s1.adv else s1).N ≤ s1.N := by
            intro p _; split
            · exact s1.adv_N_le
            · exact Nat.le_refl _
          have c1 := hc (s1.peek = TK.comma)
          have c2 := hc ((s1.peek == TK.comma) = true)
          omega
      · intro s ks vs s' h; simp only [pRecordElems] at h
        split at h
        · simp at h; obtain ⟨_, _, rfl⟩ := h; exact Nat.le_refl _
        · split at h <;> try (simp at h)
          rename_i k s1 h1
          have a := i1 _ _ _ _ h1
          split at h
          all_goals first
            | exact absurd h (syntaxErr_ne_ok _ _ _)
            | (split at h <;> try (simp at h)
               rename_i v s2 h2
               have a2 := i1 _ _ _ _ h2
               have c1 := s1.adv_N_le
               split at h <;> try (simp at h)
               rename_i ks1 vs1 s3 h3
               obtain ⟨_, _, rfl⟩ := h
               have b := i11 _ _ _ _ h3
               have hc : ∀ (p : Prop) [Decidable p], (if p then s2.adv else s2).N ≤ s2.N := by
                 intro p _; split
                 · exact s2.adv_N_le
                 · exact Nat.le_refl _
               have c2 := hc (s2.peek = TK.comma)
               have c3 := hc ((s2.peek == TK.comma) = true)
               omega)
end Pakhi

namespace Pakhi

/-- fuel needed above `16 · tokens` by `pLevel k` -/
def lvl (k : Nat) : Nat := 4 + (6 - k)

theorem levelOps_no_eot (k : Nat) : (levelOps k).contains TK.eot = false := by
  unfold levelOps; split <;> decide

theorem PS.adv_N_of_peek {s : PS} (h : s.peek ≠ .eot) : s.adv.N + 1 = s.N := by
  unfold PS.peek at h; unfold PS.adv PS.N
  cases hr : s.rest with
  | nil => simp [hr] at h
  | cons t r => simp

theorem syntaxErr_ne_fuel {α} (s : PS) (tag : String) : (s.syntaxErr tag : Res α) ≠ .fuel := by
  unfold PS.syntaxErr PS.metaCur
  cases s.rest <;> simp [unexpected, mkErr]
theorem metaOf_ne_fuel (s : PS) (t : Token) : s.metaOf t ≠ .fuel := by
  unfold PS.metaOf; cases s.rest <;> simp [unexpected]
theorem metaCur_ne_fuel (s : PS) : s.metaCur ≠ .fuel := by
  unfold PS.metaCur; cases s.rest <;> simp [unexpected]

set_option maxHeartbeats 4000000 in
/-- **the expression parser never runs out of fuel** once the fuel exceeds 16 per remaining token plus a constant -/
theorem expr_fuel : ∀ (f : Nat),
    (∀ k s, 16 * s.N + lvl k ≤ f → pLevel f k s ≠ .fuel) ∧
    (∀ k e s, 16 * s.N + lvl (k+1) ≤ f → pLevelLoop f k e s ≠ .fuel) ∧
    (∀ s, 16 * s.N + 3 ≤ f → pUnary f s ≠ .fuel) ∧
    (∀ s, 16 * s.N + 2 ≤ f → pCall f s ≠ .fuel) ∧
    (∀ e s, 16 * s.N + 1 ≤ f → pCallLoop f e s ≠ .fuel) ∧
    (∀ e s, 16 * s.N + 12 ≤ f → pFinishCall f e s ≠ .fuel) ∧
    (∀ s, 16 * s.N + 11 ≤ f → pArgs f s ≠ .fuel) ∧
    (∀ s, 16 * s.N + 1 ≤ f → pPrimary f s ≠ .fuel) ∧
    (∀ e s, 16 * s.N + 1 ≤ f → pIndexLoop f e s ≠ .fuel) ∧
    (∀ s, 16 * s.N + 11 ≤ f → pListElems f s ≠ .fuel) ∧
    (∀ s, 16 * s.N + 11 ≤ f → pRecordElems f s ≠ .fuel)
  | 0 => by
      refine ⟨?_, ?_, ?_, ?_, ?_, ?_, ?_, ?_, ?_, ?_, ?_⟩ <;> intros <;> (try simp only [lvl] at *) <;> omega
  | f+1 => by
      obtain ⟨i1, i2, i3, i4, i5, i6, i7, i8, i9, i10, i11⟩ := expr_fuel f
      obtain ⟨p1, p2, p3, p4, p5, p6, p7, p8, p9, p10, p11⟩ := expr_progress f
      have m2 := metaOf_ne_fuel
      have m3 : ∀ (s : PS), s.metaPrev ≠ .fuel := fun s => metaOf_ne_fuel s _
      have m1 := metaCur_ne_fuel
      refine ⟨?_, ?_, ?_, ?_, ?_, ?_, ?_, ?_, ?_, ?_, ?_⟩
      · intro k s hf
        simp only [pLevel]
        split
        · rename_i hk
          exact i3 s (by simp only [lvl, numLevels] at *; omega)
        · rename_i hk
          have h1 := i1 (k+1) s (by simp only [lvl, numLevels] at *; omega)
          cases hr : pLevel f (k+1) s with
          | ok x =>
            obtain ⟨e1, s1⟩ := x
            have a := p1 _ _ _ _ hr
            exact i2 k e1 s1 (by simp only [lvl, numLevels] at *; omega)
          | err e => simp
          | panic p => simp
          | fuel => exact (h1 hr).elim
      · intro k e s hf
        simp only [pLevelLoop]
        split
        · rename_i hop
          have hpk : s.peek ≠ .eot := by
            intro he; rw [he, levelOps_no_eot] at hop; cases hop
          have hadv := PS.adv_N_of_peek hpk
          have h1 := i1 (k+1) s.adv (by omega)
          cases hr : pLevel f (k+1) s.adv with
          | ok x =>
            obtain ⟨r, s1⟩ := x
            have a := p1 _ _ _ _ hr
            simp only
            cases hm : s1.metaPrev with
            | ok m => simp only; exact i2 k _ s1 (by omega)
            | err e => simp
            | panic p => simp
            | fuel => exact (m3 s1 hm).elim
          | err e => simp
          | panic p => simp
          | fuel => exact (h1 hr).elim
        · simp
      · intro s hf
        simp only [pUnary]
        split
        · rename_i hop
          have hpk : s.peek ≠ .eot := by
            intro he; rw [he] at hop; simp at hop
          have hadv := PS.adv_N_of_peek hpk
          cases hm : s.metaCur with
          | ok m =>
            simp only
            have h1 := i3 s.adv (by omega)
            cases hr : pUnary f s.adv with
            | ok x => simp
            | err e => simp
            | panic p => simp
            | fuel => exact (h1 hr).elim
          | err e => simp
          | panic p => simp
          | fuel => exact (m1 s hm).elim
        · exact i4 s (by omega)
      · intro s hf
        simp only [pCall]
        have h1 := i8 s (by omega)
        cases hr : pPrimary f s with
        | ok x =>
          obtain ⟨e1, s1⟩ := x
          have a := p8 _ _ _ hr
          exact i5 e1 s1 (by omega)
        | err e => simp
        | panic p => simp
        | fuel => exact (h1 hr).elim
      · intro e s hf
        simp only [pCallLoop]
        split
        · rename_i hop
          have hpk : s.peek ≠ .eot := by
            intro he; rw [he] at hop; simp at hop
          have hadv := PS.adv_N_of_peek hpk
          have h1 := i6 e s.adv (by omega)
          cases hr : pFinishCall f e s.adv with
          | ok x =>
            obtain ⟨e1, s1⟩ := x
            have a := p6 _ _ _ _ hr
            exact i5 e1 s1 (by omega)
          | err e => simp
          | panic p => simp
          | fuel => exact (h1 hr).elim
        · simp
      · intro e s hf
        simp only [pFinishCall]
        cases hm : s.metaPrev with
        | ok m =>
          simp only
          split
          · have h1 := i7 s (by omega)
            cases hr : pArgs f s with
            | ok x => simp
            | err e => simp
            | panic p => simp
            | fuel => exact (h1 hr).elim
          · simp
        | err e => simp
        | panic p => simp
        | fuel => exact (m3 s hm).elim
      · intro s hf
        simp only [pArgs]
        have h1 := i1 0 s (by simp only [lvl]; omega)
        cases hr : pLevel f 0 s with
        | ok x =>
          obtain ⟨e1, s1⟩ := x
          have a := p1 _ _ _ _ hr
          simp only
          split
          · have c := s1.adv_N_le
            have h2 := i7 s1.adv (by omega)
            cases hr2 : pArgs f s1.adv with
            | ok x => simp
            | err e => simp
            | panic p => simp
            | fuel => exact (h2 hr2).elim
          · simp
        | err e => simp
        | panic p => simp
        | fuel => exact (h1 hr).elim
      · intro s hf
        simp only [pPrimary]
        split
        · exact syntaxErr_ne_fuel _ _
        · rename_i t tl hrest
          have hpos := PS.N_pos_of_rest hrest
          have hadv := s.adv_N
          have hadv2 := s.adv.adv_N_le
          split
          · cases hm : s.adv.metaPrev with
            | ok m => simp
            | err e => simp
            | panic p => simp
            | fuel => exact (m3 _ hm).elim
          · cases hm : s.adv.metaPrev with
            | ok m => simp
            | err e => simp
            | panic p => simp
            | fuel => exact (m3 _ hm).elim
          · cases hm : s.adv.metaPrev with
            | ok m => simp
            | err e => simp
            | panic p => simp
            | fuel => exact (m3 _ hm).elim
          · exact i9 _ s.adv (by omega)
          · have h1 := i1 0 s.adv (by simp only [lvl]; omega)
            cases hr : pLevel f 0 s.adv with
            | ok x =>
              obtain ⟨e1, s1⟩ := x
              simp only
              cases hm : s1.adv.metaOf t with
              | ok m => simp
              | err e => simp
              | panic p => simp
              | fuel => exact (m2 _ _ hm).elim
            | err e => simp
            | panic p => simp
            | fuel => exact (h1 hr).elim
          · have h1 := i10 s.adv (by omega)
            cases hr : pListElems f s.adv with
            | ok x =>
              obtain ⟨es, s1⟩ := x
              simp only
              cases hm : s1.adv.metaOf t with
              | ok m => simp
              | err e => simp
              | panic p => simp
              | fuel => exact (m2 _ _ hm).elim
            | err e => simp
            | panic p => simp
            | fuel => exact (h1 hr).elim
          · split
            · exact syntaxErr_ne_fuel _ _
            · have h1 := i11 s.adv.adv (by omega)
              cases hr : pRecordElems f s.adv.adv with
              | ok x =>
                obtain ⟨ks, vs, s1⟩ := x
                simp only
                cases hm : s1.adv.metaOf t with
                | ok m => simp
                | err e => simp
                | panic p => simp
                | fuel => exact (m2 _ _ hm).elim
              | err e => simp
              | panic p => simp
              | fuel => exact (h1 hr).elim
          · exact syntaxErr_ne_fuel _ _
      · intro e s hf
        simp only [pIndexLoop]
        split
        · simp
        · rename_i t tl hrest
          have hpos := PS.N_pos_of_rest hrest
          have hadv := s.adv_N
          split
          · have h1 := i1 0 s.adv (by simp only [lvl]; omega)
            cases hr : pLevel f 0 s.adv with
            | ok x =>
              obtain ⟨ix, s1⟩ := x
              have a := p1 _ _ _ _ hr
              simp only
              split
              · exact syntaxErr_ne_fuel _ _
              · have c := s1.adv_N_le
                cases hm : s1.adv.metaOf t with
                | ok m => simp only; exact i9 _ s1.adv (by omega)
                | err e => simp
                | panic p => simp
                | fuel => exact (m2 _ _ hm).elim
            | err e => simp
            | panic p => simp
            | fuel => exact (h1 hr).elim
          · simp
      · intro s hf
        simp only [pListElems]
        split
        · simp
        · have h1 := i1 0 s (by simp only [lvl]; omega)
          cases hr : pLevel f 0 s with
          | ok x =>
            obtain ⟨e1, s1⟩ := x
            have a := p1 _ _ _ _ hr
            simp only
            have hc : (if s1.peek == TK.comma then s1.adv else s1).N ≤ s1.N := by
              split
              · exact s1.adv_N_le
              · exact Nat.le_refl _
            have h2 := i10 (if s1.peek == TK.comma then s1.adv else s1) (by omega)
            cases hr2 : pListElems f (if s1.peek == TK.comma then s1.adv else s1) with
            | ok x => simp
            | err e => simp
            | panic p => simp
            | fuel => exact (h2 hr2).elim
          | err e => simp
          | panic p => simp
          | fuel => exact (h1 hr).elim
      · intro s hf
        simp only [pRecordElems]
        split
        · simp
        · have h1 := i1 0 s (by simp only [lvl]; omega)
          cases hr : pLevel f 0 s with
          | ok x =>
            obtain ⟨k1, s1⟩ := x
            have a := p1 _ _ _ _ hr
            simp only
            split
            · exact syntaxErr_ne_fuel _ _
            · have c := s1.adv_N_le
              have h2 := i1 0 s1.adv (by simp only [lvl]; omega)
              cases hr2 : pLevel f 0 s1.adv with
              | ok x =>
                obtain ⟨v1, s2⟩ := x
                have a2 := p1 _ _ _ _ hr2
                simp only
                have hc : (if s2.peek == TK.comma then s2.adv else s2).N ≤ s2.N := by
                  split
                  · exact s2.adv_N_le
                  · exact Nat.le_refl _
                have h3 := i11 (if s2.peek == TK.comma then s2.adv else s2) (by omega)
                cases hr3 : pRecordElems f (if s2.peek == TK.comma then s2.adv else s2) with
                | ok x => simp
                | err e => simp
                | panic p => simp
                | fuel => exact (h3 hr3).elim
              | err e => simp
              | panic p => simp
              | fuel => exact (h2 hr2).elim
          | err e => simp
          | panic p => simp
          | fuel => exact (h1 hr).elim

/-- **`expression()` always terminates within the model's fuel** -/
theorem pExpr_never_out_of_fuel (s : PS) : pExpr s ≠ .fuel := by
  have := (expr_fuel (exprFuel s.rest.length)).1 0 s (by simp only [lvl, exprFuel, PS.N]; omega)
  exact this
end Pakhi
