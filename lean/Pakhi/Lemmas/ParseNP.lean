/- The parser and the module loader never panic (helper lemmas for C12). -/
import Pakhi.Lemmas.LoaderNP
import Pakhi.Lemmas.Lexer
namespace Pakhi

theorem tokenize_np (src file : Str) (p : String) : tokenize src file ≠ .panic p := by
  rcases tokenize_total src file with ⟨t, h⟩ | ⟨e, h, _⟩ <;> simp [h]

theorem endsWith_length (s suf : Str) (h : endsWith s suf = true) : suf.length ≤ s.length := by
  unfold endsWith at h
  have := List.IsSuffix.length_le (List.isSuffixOf_iff_suffix.mp h)
  exact this

theorem moduleTokens_np (ctx : PCtx) (path name : Str) (hmain : (pathParent ctx.mainPath).isSome = true)
    (hp : endsWith path W.extPakhi = true) (p : String) : moduleTokens ctx path name ≠ .panic p := by
  unfold moduleTokens
  cases hpar : pathParent ctx.mainPath with
  | none => simp [hpar] at hmain
  | some root =>
    simp only []
    have hlen : 2 ≤ (pathJoin root path).length := by
      have h1 := endsWith_length path W.extPakhi hp
      have h2 := pathJoin_length root path
      have : W.extPakhi.length = 6 := by decide
      omega
    have t := tokenize_np
    have d := expandDirname_np ctx
    repeat' split
    all_goals (try simp_all [mkErr])

theorem namedModuleImport_np (ctx : PCtx) (s : PS) (name : Str) (hmain : (pathParent ctx.mainPath).isSome = true) (p : String) :
    namedModuleImport ctx s name ≠ .panic p := by
  have i1 := importPathTail_np
  have i2 := allImportPaths_np
  have sy : ∀ (s : PS) (tag : String) (p : String), (s.syntaxErr tag : Res PS) ≠ .panic p := fun s t p => syntaxErr_np s t p
  unfold namedModuleImport
  split
  · simp
  · exact absurd (by assumption) (i1 _ _)
  · simp
  · simp only []
    split
    · exact sy _ _ _
    · rename_i hends
      have mt := moduleTokens_np ctx _ name hmain (by simpa using hends)
      repeat' split
      all_goals (try simp_all [mkErr])

theorem pStatement_np (ctx : PCtx) (hmain : (pathParent ctx.mainPath).isSome = true) :
    ∀ (f : Nat) (s : PS) (p : String), pStatement ctx f s ≠ .panic p
  | 0, s, p => by simp [pStatement]
  | f+1, s, p => by
      have ih := pStatement_np ctx hmain f
      have a1 := printStmt_np; have a2 := assignStmt_np; have a3 := reassignOrCallStmt_np; have a4 := oneTokenStmt_np
      have a5 := ifStmt_np; have a6 := returnStmt_np; have a7 := namedModuleImport_np ctx
      have sy : ∀ (s : PS) (tag : String) (p : String), (s.syntaxErr tag : Res (Stmt × PS)) ≠ .panic p := fun s t p => syntaxErr_np s t p
      simp only [pStatement]
      split
      · simp [unexpected]
      · split <;> first | exact a1 _ _ _ | exact a2 _ _ | exact a3 _ _ | exact a4 _ _ _ | exact a5 _ _ | exact a6 _ _ | exact ih _ _ | simp | skip
        all_goals (try (exact sy _ _ _))
        · repeat' split
          all_goals (try simp_all)

theorem parseLoop_np (ctx : PCtx) (hmain : (pathParent ctx.mainPath).isSome = true) :
    ∀ (f : Nat) (s : PS) (acc : List Stmt) (p : String), parseLoop ctx f s acc ≠ .panic p
  | 0, s, acc, p => by simp [parseLoop]
  | f+1, s, acc, p => by
      have ih := parseLoop_np ctx hmain f
      have st := pStatement_np ctx hmain
      simp only [parseLoop]
      repeat' split
      all_goals (try simp_all [unexpected])

/-- C12 `parse_no_panic`: for every token list, every file system and every fuel the parser
    (module loader included) returns a statement list, an error value or "out of fuel" — never a
    panic — provided the main module path has a parent directory and a file name. -/
theorem parse_np (ctx : PCtx) (fuel : Nat) (toks : List Token) (hmain : (pathParent ctx.mainPath).isSome = true)
    (hname : (pathFileName ctx.mainPath).isSome = true) (hlen : 2 ≤ ctx.mainPath.length) (p : String) :
    parse ctx fuel toks ≠ .panic p := by
  have i2 := allImportPaths_np
  have d := expandDirname_np ctx
  have pl := parseLoop_np ctx hmain
  unfold parse
  cases hn : pathFileName ctx.mainPath with
  | none => simp [hn] at hname
  | some nm =>
    simp only []
    repeat' split
    all_goals (try simp_all)
end Pakhi
