/-
  Statement parsers and the statement loop terminate on import-free token streams (helper lemmas for C12).
-/
import Pakhi.Lemmas.ParseFuel
namespace Pakhi

theorem pExpr_progress {s : PS} {e : Expr} {s' : PS} (h : pExpr s = .ok (e, s')) : s'.N + 1 ≤ s.N := (expr_progress _).1 0 s e s' h

theorem metaCur_ok_pos {s : PS} {m : Meta} (h : s.metaCur = .ok m) : 1 ≤ s.N := by
  unfold PS.metaCur at h; unfold PS.N
  cases hr : s.rest <;> simp_all [unexpected]

/-! ### the statement parsers: never out of fuel, and they consume at least one token -/

theorem reassignIndexes_fuel : ∀ (f : Nat) (s : PS), s.N + 1 ≤ f → reassignIndexes f s ≠ .fuel
  | 0, s, h => by omega
  | f+1, s, h => by
      simp only [reassignIndexes]
      split
      · simp
      · cases hr : pExpr s with
        | ok x =>
          obtain ⟨ix, s1⟩ := x
          have a := pExpr_progress hr
          simp only
          split
          · have := reassignIndexes_fuel f s1 (by omega)
            cases hr2 : reassignIndexes f s1 with
            | ok y => simp
            | err e => simp
            | panic p => simp
            | fuel => exact (this hr2).elim
          · exact syntaxErr_ne_fuel _ _
        | err e => simp
        | panic p => simp
        | fuel => exact (pExpr_never_out_of_fuel s hr).elim

theorem reassignIndexes_progress : ∀ (f : Nat) (s : PS) (ixs : List Expr) (s' : PS), reassignIndexes f s = .ok (ixs, s') → s'.N ≤ s.N
  | 0, s, ixs, s', h => by simp [reassignIndexes] at h
  | f+1, s, ixs, s', h => by
      simp only [reassignIndexes] at h
      split at h
      · simp at h; obtain ⟨_, rfl⟩ := h; exact Nat.le_refl _
      · split at h <;> try (simp at h)
        rename_i ix s1 hr
        have a := pExpr_progress hr
        split at h
        · split at h <;> try (simp at h)
          rename_i ixs1 s2 hr2
          obtain ⟨_, rfl⟩ := h
          have b := reassignIndexes_progress f s1 ixs1 s2 hr2
          omega
        · exact absurd h (syntaxErr_ne_ok _ _ _)

macro "nofuel" : tactic => `(tactic| ((repeat' split) <;> first
  | (simp; done)
  | exact absurd ‹_› (pExpr_never_out_of_fuel _)
  | exact absurd ‹_› (metaCur_ne_fuel _)
  | exact absurd ‹_› (metaOf_ne_fuel _ _)
  | exact syntaxErr_ne_fuel _ _
  | (simp [unexpected, mkErr]; done)))

theorem printStmt_fuel (b : Bool) (s : PS) : printStmt b s ≠ .fuel := by
  simp only [printStmt]; nofuel

theorem exprStmt_fuel (s : PS) : exprStmt s ≠ .fuel := by
  simp only [exprStmt]; nofuel

theorem ifStmt_fuel (s : PS) : ifStmt s ≠ .fuel := by
  simp only [ifStmt, PS.metaPrev]; nofuel

theorem oneTokenStmt_fuel (mk : Meta → Stmt) (s : PS) : oneTokenStmt mk s ≠ .fuel := by
  simp only [oneTokenStmt, PS.metaPrev]; nofuel

theorem returnStmt_fuel (s : PS) : returnStmt s ≠ .fuel := by
  simp only [returnStmt]; nofuel

theorem assignStmt_fuel (s : PS) : assignStmt s ≠ .fuel := by
  simp only [assignStmt]
  repeat' split
  all_goals first
    | (simp; done)
    | exact absurd ‹_› (metaCur_ne_fuel _)
    | exact syntaxErr_ne_fuel _ _
    | (simp [unexpected, mkErr]; done)
    | (rename_i hr; exfalso; revert hr; nofuel)

theorem reassignOrCallStmt_fuel (s : PS) : reassignOrCallStmt s ≠ .fuel := by
  simp only [reassignOrCallStmt]
  repeat' split
  all_goals first
    | (simp; done)
    | exact absurd ‹_› (pExpr_never_out_of_fuel _)
    | exact absurd ‹_› (metaCur_ne_fuel _)
    | exact exprStmt_fuel _
    | (rename_i hr; exact absurd hr (reassignIndexes_fuel _ _ (by have := s.adv_N_le; simp only [PS.N] at *; omega)))
end Pakhi

namespace Pakhi

theorem printStmt_progress {b : Bool} {s : PS} {st : Stmt} {s' : PS} (h : printStmt b s = .ok (st, s')) : s'.N + 1 ≤ s.N := by
  simp only [printStmt] at h
  repeat' split at h
  all_goals (try (simp at h))
  all_goals (
    obtain ⟨_, rfl⟩ := h
    have a := pExpr_progress ‹pExpr _ = _›
    have b := s.adv_N_le
    have c := PS.adv_N_le ‹PS›
    omega)

theorem exprStmt_progress {s : PS} {st : Stmt} {s' : PS} (h : exprStmt s = .ok (st, s')) : s'.N + 1 ≤ s.N := by
  simp only [exprStmt] at h
  repeat' split at h
  all_goals (try (simp at h))
  obtain ⟨_, rfl⟩ := h
  exact pExpr_progress ‹pExpr _ = _›

theorem ifStmt_progress {s : PS} {st : Stmt} {s' : PS} (h : ifStmt s = .ok (st, s')) : s'.N + 1 ≤ s.N := by
  simp only [ifStmt] at h
  repeat' split at h
  all_goals (try (simp at h))
  obtain ⟨_, rfl⟩ := h
  have a := pExpr_progress ‹pExpr _ = _›
  have b := s.adv_N_le
  omega

theorem oneTokenStmt_progress {mk : Meta → Stmt} {s : PS} {st : Stmt} {s' : PS} (hpos : 1 ≤ s.N) (h : oneTokenStmt mk s = .ok (st, s')) :
    s'.N + 1 ≤ s.N := by
  simp only [oneTokenStmt] at h
  split at h <;> try (simp at h)
  obtain ⟨_, rfl⟩ := h
  have := s.adv_N; omega

theorem returnStmt_progress {s : PS} {st : Stmt} {s' : PS} (h : returnStmt s = .ok (st, s')) : s'.N + 1 ≤ s.N := by
  simp only [returnStmt] at h
  split at h <;> try (simp at h)
  rename_i m hm
  have hpos := metaCur_ok_pos hm
  have hadv := s.adv_N
  have hadv2 := s.adv.adv_N_le
  repeat' split at h
  all_goals (try (simp at h))
  all_goals first
    | (obtain ⟨_, rfl⟩ := h; omega)
    | (obtain ⟨_, rfl⟩ := h
       have a := pExpr_progress ‹pExpr _ = _›
       have c := PS.adv_N_le ‹PS›
       omega)

theorem assignStmt_progress {s : PS} {st : Stmt} {s' : PS} (h : assignStmt s = .ok (st, s')) : s'.N + 1 ≤ s.N := by
  simp only [assignStmt] at h
  repeat' split at h
  all_goals (try (simp [unexpected, mkErr] at h; done))
  all_goals (try (exact absurd h (syntaxErr_ne_ok _ _ _)))
  all_goals (
    rename_i hr _
    have hpos := metaCur_ok_pos ‹s.metaCur = Res.ok _›
    have hadv := s.adv_N
    have h2 := s.adv.adv_N_le
    simp at h; obtain ⟨_, rfl⟩ := h
    rename_i s1 _ _
    have hle : s1.N ≤ s.adv.adv.N := by
      split at hr
      · simp at hr; obtain ⟨_, rfl⟩ := hr; exact Nat.le_refl _
      · split at hr <;> try (simp at hr)
        obtain ⟨_, rfl⟩ := hr
        have a := pExpr_progress ‹pExpr _ = _›
        have b := s.adv.adv.adv_N_le
        omega
    have := s1.adv_N_le
    omega)

theorem reassignOrCallStmt_progress {s : PS} {st : Stmt} {s' : PS} (h : reassignOrCallStmt s = .ok (st, s')) : s'.N + 1 ≤ s.N := by
  simp only [reassignOrCallStmt] at h
  repeat' split at h
  all_goals (try (simp at h))
  all_goals first
    | exact exprStmt_progress h
    | (obtain ⟨_, rfl⟩ := h; exact pExpr_progress ‹pExpr s = _›)
    | (obtain ⟨_, rfl⟩ := h
       rename_i s1 hri _ e2 s2 hpe _
       have a := reassignIndexes_progress _ _ _ _ hri
       have b := pExpr_progress hpe
       have c := s.adv_N
       have d := PS.N_pos_of_rest ‹s.rest = _›
       have e1 := s2.adv_N_le
       have e3 := s1.adv_N_le
       omega)
end Pakhi

namespace Pakhi

/-- a token stream without `মডিউল` -/
def noImport (l : List Token) : Prop := ∀ t ∈ l, t.kind ≠ .import

theorem noImport_adv {s : PS} (h : noImport s.rest) : noImport s.adv.rest := by
  unfold PS.adv
  cases hr : s.rest with
  | nil => simpa [hr] using h
  | cons t r => simp only; intro x hx; exact h x (by simp [hr, hx])

/-- `statements()` on an import-free stream: enough fuel for the leading comment blocks means no fuel answer -/
theorem pStatement_fuel (ctx : PCtx) : ∀ (f : Nat) (s : PS), noImport s.rest → s.N + 1 ≤ f → pStatement ctx f s ≠ .fuel
  | 0, s, _, h => by omega
  | f+1, s, hni, h => by
      simp only [pStatement]
      split
      · simp [unexpected]
      · rename_i t tl hrest
        have hpos := PS.N_pos_of_rest hrest
        have hadv := s.adv_N
        have hk : t.kind ≠ .import := hni t (by simp [hrest])
        split
        all_goals first
          | exact printStmt_fuel _ _
          | exact assignStmt_fuel _
          | exact reassignOrCallStmt_fuel _
          | exact oneTokenStmt_fuel _ _
          | exact ifStmt_fuel _
          | exact returnStmt_fuel _
          | exact syntaxErr_ne_fuel _ _
          | (simp; done)
          | exact pStatement_fuel ctx f s.adv (noImport_adv hni) (by omega)
          | (rename_i hkind; exact absurd hkind hk)

end Pakhi

namespace Pakhi

/-- the remaining tokens of `s'` are a suffix of those of `s` -/
def Suf (s' s : PS) : Prop := ∃ k, s'.rest = s.rest.drop k

theorem Suf.refl (s : PS) : Suf s s := ⟨0, by simp⟩
theorem Suf.adv (s : PS) : Suf s.adv s := by
  unfold PS.adv
  cases h : s.rest with
  | nil => exact ⟨0, by simp [h]⟩
  | cons t r => exact ⟨1, by simp [h]⟩
theorem Suf.trans {a b c : PS} (h1 : Suf a b) (h2 : Suf b c) : Suf a c := by
  obtain ⟨k1, e1⟩ := h1; obtain ⟨k2, e2⟩ := h2
  exact ⟨k2 + k1, by rw [e1, e2, List.drop_drop]⟩
theorem Suf.ite {p : Prop} [Decidable p] {s : PS} : Suf (if p then s.adv else s) s := by
  split
  · exact Suf.adv s
  · exact Suf.refl s

set_option maxHeartbeats 4000000 in
theorem expr_suffix : ∀ (f : Nat),
    (∀ k s e s', pLevel f k s = .ok (e, s') → Suf s' s) ∧
    (∀ k e0 s e s', pLevelLoop f k e0 s = .ok (e, s') → Suf s' s) ∧
    (∀ s e s', pUnary f s = .ok (e, s') → Suf s' s) ∧
    (∀ s e s', pCall f s = .ok (e, s') → Suf s' s) ∧
    (∀ e0 s e s', pCallLoop f e0 s = .ok (e, s') → Suf s' s) ∧
    (∀ e0 s e s', pFinishCall f e0 s = .ok (e, s') → Suf s' s) ∧
    (∀ s es s', pArgs f s = .ok (es, s') → Suf s' s) ∧
    (∀ s e s', pPrimary f s = .ok (e, s') → Suf s' s) ∧
    (∀ e0 s e s', pIndexLoop f e0 s = .ok (e, s') → Suf s' s) ∧
    (∀ s es s', pListElems f s = .ok (es, s') → Suf s' s) ∧
    (∀ s ks vs s', pRecordElems f s = .ok (ks, vs, s') → Suf s' s)
  | 0 => by simp [pLevel, pLevelLoop, pUnary, pCall, pCallLoop, pFinishCall, pArgs, pPrimary, pIndexLoop, pListElems, pRecordElems]
  | f+1 => by
      obtain ⟨i1, i2, i3, i4, i5, i6, i7, i8, i9, i10, i11⟩ := expr_suffix f
      refine ⟨?_, ?_, ?_, ?_, ?_, ?_, ?_, ?_, ?_, ?_, ?_⟩
      · intro k s e s' h; simp only [pLevel] at h
        split at h
        · exact i3 _ _ _ h
        · split at h <;> try (simp at h)
          rename_i e1 s1 h1
          exact (i2 _ _ _ _ _ h).trans (i1 _ _ _ _ h1)
      · intro k e0 s e s' h; simp only [pLevelLoop] at h
        split at h
        · split at h <;> try (simp at h)
          rename_i r s1 h1
          split at h <;> try (simp at h)
          exact ((i2 _ _ _ _ _ h).trans (i1 _ _ _ _ h1)).trans (Suf.adv s)
        · simp at h; obtain ⟨_, rfl⟩ := h; exact Suf.refl _
      · intro s e s' h; simp only [pUnary] at h
        split at h
        · split at h <;> try (simp at h)
          split at h <;> try (simp at h)
          rename_i r s1 h1
          obtain ⟨_, rfl⟩ := h
          exact (i3 _ _ _ h1).trans (Suf.adv s)
        · exact i4 _ _ _ h
      · intro s e s' h; simp only [pCall] at h
        split at h <;> try (simp at h)
        rename_i e1 s1 h1
        exact (i5 _ _ _ _ h).trans (i8 _ _ _ h1)
      · intro e0 s e s' h; simp only [pCallLoop] at h
        split at h
        · split at h <;> try (simp at h)
          rename_i e1 s1 h1
          exact ((i5 _ _ _ _ h).trans (i6 _ _ _ _ h1)).trans (Suf.adv s)
        · simp at h; obtain ⟨_, rfl⟩ := h; exact Suf.refl _
      · intro e0 s e s' h; simp only [pFinishCall] at h
        split at h <;> try (simp at h)
        split at h
        all_goals first
          | (simp at h; obtain ⟨_, rfl⟩ := h; exact Suf.adv s)
          | (split at h <;> try (simp at h)
             rename_i args s1 h1
             obtain ⟨_, rfl⟩ := h
             exact (Suf.adv s1).trans (i7 _ _ _ h1))
      · intro s es s' h; simp only [pArgs] at h
        split at h <;> try (simp at h)
        rename_i e1 s1 h1
        split at h
        · split at h <;> try (simp at h)
          rename_i es1 s2 h2
          obtain ⟨_, rfl⟩ := h
          exact ((i7 _ _ _ h2).trans (Suf.adv s1)).trans (i1 _ _ _ _ h1)
        · simp at h; obtain ⟨_, rfl⟩ := h; exact i1 _ _ _ _ h1
      · intro s e s' h; simp only [pPrimary] at h
        split at h
        · exact absurd h (syntaxErr_ne_ok _ _ _)
        · repeat' split at h
          all_goals (try (simp at h))
          all_goals first
            | exact absurd h (syntaxErr_ne_ok _ _ _)
            | (obtain ⟨_, rfl⟩ := h; exact Suf.adv s)
            | exact (i9 _ _ _ _ h).trans (Suf.adv s)
            | (obtain ⟨_, rfl⟩ := h; exact ((Suf.adv _).trans (i1 _ _ _ _ ‹_›)).trans (Suf.adv s))
            | (obtain ⟨_, rfl⟩ := h; exact ((Suf.adv _).trans (i10 _ _ _ ‹_›)).trans (Suf.adv s))
            | (obtain ⟨_, rfl⟩ := h; exact (((Suf.adv _).trans (i11 _ _ _ _ ‹_›)).trans (Suf.adv s.adv)).trans (Suf.adv s))
      · intro e0 s e s' h; simp only [pIndexLoop] at h
        split at h
        · simp at h; obtain ⟨_, rfl⟩ := h; exact Suf.refl _
        · split at h
          · split at h <;> try (simp at h)
            rename_i i s1 h1
            split at h
            all_goals first
              | exact absurd h (syntaxErr_ne_ok _ _ _)
              | (split at h <;> try (simp at h)
                 exact (((i9 _ _ _ _ h).trans (Suf.adv s1)).trans (i1 _ _ _ _ h1)).trans (Suf.adv s))
          · simp at h; obtain ⟨_, rfl⟩ := h; exact Suf.refl _
      · intro s es s' h; simp only [pListElems] at h
        split at h
        · simp at h; obtain ⟨_, rfl⟩ := h; exact Suf.refl _
        · split at h <;> try (simp at h)
          rename_i e1 s1 h1
          split at h <;> try (simp at h)
          rename_i es1 s2 h2
          obtain ⟨_, rfl⟩ := h
          exact ((i10 _ _ _ h2).trans Suf.ite).trans (i1 _ _ _ _ h1)
      · intro s ks vs s' h; simp only [pRecordElems] at h
        split at h
        · simp at h; obtain ⟨_, _, rfl⟩ := h; exact Suf.refl _
        · split at h <;> try (simp at h)
          rename_i k s1 h1
          split at h
          all_goals first
            | exact absurd h (syntaxErr_ne_ok _ _ _)
            | (split at h <;> try (simp at h)
               rename_i v s2 h2
               split at h <;> try (simp at h)
               rename_i ks1 vs1 s3 h3
               obtain ⟨_, _, rfl⟩ := h
               exact ((((i11 _ _ _ _ h3).trans Suf.ite).trans (i1 _ _ _ _ h2)).trans (Suf.adv s1)).trans (i1 _ _ _ _ h1))

theorem pExpr_suffix {s : PS} {e : Expr} {s' : PS} (h : pExpr s = .ok (e, s')) : Suf s' s := (expr_suffix _).1 0 s e s' h
end Pakhi

namespace Pakhi

theorem noImport_suf {s' s : PS} (h : Suf s' s) (hn : noImport s.rest) : noImport s'.rest := by
  obtain ⟨k, hk⟩ := h
  intro t ht
  rw [hk] at ht
  exact hn t (List.mem_of_mem_drop ht)

theorem reassignIndexes_suffix : ∀ (f : Nat) (s : PS) (ixs : List Expr) (s' : PS), reassignIndexes f s = .ok (ixs, s') → Suf s' s
  | 0, s, ixs, s', h => by simp [reassignIndexes] at h
  | f+1, s, ixs, s', h => by
      simp only [reassignIndexes] at h
      split at h
      · simp at h; obtain ⟨_, rfl⟩ := h; exact Suf.refl _
      · split at h <;> try (simp at h)
        rename_i ix s1 hr
        split at h
        · split at h <;> try (simp at h)
          rename_i ixs1 s2 hr2
          obtain ⟨_, rfl⟩ := h
          exact (reassignIndexes_suffix f s1 ixs1 s2 hr2).trans (pExpr_suffix hr)
        · exact absurd h (syntaxErr_ne_ok _ _ _)

theorem printStmt_suffix {b : Bool} {s : PS} {st : Stmt} {s' : PS} (h : printStmt b s = .ok (st, s')) : Suf s' s := by
  simp only [printStmt] at h
  repeat' split at h
  all_goals (try (simp at h))
  all_goals (obtain ⟨_, rfl⟩ := h; exact ((Suf.adv _).trans (pExpr_suffix ‹pExpr _ = _›)).trans (Suf.adv s))

theorem exprStmt_suffix {s : PS} {st : Stmt} {s' : PS} (h : exprStmt s = .ok (st, s')) : Suf s' s := by
  simp only [exprStmt] at h
  repeat' split at h
  all_goals (try (simp at h))
  obtain ⟨_, rfl⟩ := h
  exact pExpr_suffix ‹pExpr _ = _›

theorem ifStmt_suffix {s : PS} {st : Stmt} {s' : PS} (h : ifStmt s = .ok (st, s')) : Suf s' s := by
  simp only [ifStmt] at h
  repeat' split at h
  all_goals (try (simp at h))
  obtain ⟨_, rfl⟩ := h
  exact (pExpr_suffix ‹pExpr _ = _›).trans (Suf.adv s)

theorem oneTokenStmt_suffix {mk : Meta → Stmt} {s : PS} {st : Stmt} {s' : PS} (h : oneTokenStmt mk s = .ok (st, s')) : Suf s' s := by
  simp only [oneTokenStmt] at h
  split at h <;> try (simp at h)
  obtain ⟨_, rfl⟩ := h
  exact Suf.adv s

theorem returnStmt_suffix {s : PS} {st : Stmt} {s' : PS} (h : returnStmt s = .ok (st, s')) : Suf s' s := by
  simp only [returnStmt] at h
  repeat' split at h
  all_goals (try (simp at h))
  all_goals first
    | (obtain ⟨_, rfl⟩ := h; exact (Suf.adv _).trans (Suf.adv s))
    | (obtain ⟨_, rfl⟩ := h; exact ((Suf.adv _).trans (pExpr_suffix ‹pExpr _ = _›)).trans (Suf.adv s))

theorem assignStmt_suffix {s : PS} {st : Stmt} {s' : PS} (h : assignStmt s = .ok (st, s')) : Suf s' s := by
  simp only [assignStmt] at h
  repeat' split at h
  all_goals (try (simp [unexpected, mkErr] at h; done))
  all_goals (try (exact absurd h (syntaxErr_ne_ok _ _ _)))
  all_goals (
    rename_i hr _
    simp at h; obtain ⟨_, rfl⟩ := h
    rename_i s1 _ _
    have hle : Suf s1 s.adv.adv := by
      split at hr
      · simp at hr; obtain ⟨_, rfl⟩ := hr; exact Suf.refl _
      · split at hr <;> try (simp at hr)
        obtain ⟨_, rfl⟩ := hr
        exact (pExpr_suffix ‹pExpr _ = _›).trans (Suf.adv _)
    exact (((Suf.adv s1).trans hle).trans (Suf.adv s.adv)).trans (Suf.adv s))

theorem reassignOrCallStmt_suffix {s : PS} {st : Stmt} {s' : PS} (h : reassignOrCallStmt s = .ok (st, s')) : Suf s' s := by
  simp only [reassignOrCallStmt] at h
  repeat' split at h
  all_goals (try (simp at h))
  all_goals first
    | exact exprStmt_suffix h
    | (obtain ⟨_, rfl⟩ := h; exact pExpr_suffix ‹pExpr s = _›)
    | (obtain ⟨_, rfl⟩ := h
       rename_i s1 hri _ e2 s2 hpe _
       exact ((((Suf.adv s2).trans (pExpr_suffix hpe)).trans (Suf.adv s1)).trans (reassignIndexes_suffix _ _ _ _ hri)).trans (Suf.adv s))

theorem pStatement_progress (ctx : PCtx) : ∀ (f : Nat) (s : PS) (st : Stmt) (s' : PS), noImport s.rest →
    pStatement ctx f s = .ok (st, s') → (∀ m, st ≠ .eos m) → s'.N + 1 ≤ s.N ∧ Suf s' s
  | 0, s, st, s', _, h, _ => by simp [pStatement] at h
  | f+1, s, st, s', hni, h, hne => by
      simp only [pStatement] at h
      split at h
      · simp [unexpected] at h
      · rename_i t tl hrest
        have hpos := PS.N_pos_of_rest hrest
        have hadv := s.adv_N
        have hadv2 := s.adv.adv_N_le
        have hk : t.kind ≠ .import := hni t (by simp [hrest])
        split at h
        all_goals first
          | exact ⟨printStmt_progress h, printStmt_suffix h⟩
          | exact ⟨assignStmt_progress h, assignStmt_suffix h⟩
          | exact ⟨reassignOrCallStmt_progress h, reassignOrCallStmt_suffix h⟩
          | exact ⟨oneTokenStmt_progress hpos h, oneTokenStmt_suffix h⟩
          | exact ⟨ifStmt_progress h, ifStmt_suffix h⟩
          | exact ⟨returnStmt_progress h, returnStmt_suffix h⟩
          | exact absurd h (syntaxErr_ne_ok _ _ _)
          | (rename_i hkind; exact absurd hkind hk)
          | (simp at h; obtain ⟨rfl, _⟩ := h; exact absurd rfl (hne _))
          | (simp at h; obtain ⟨_, rfl⟩ := h; exact ⟨by simp only [PS.adv2]; omega, (Suf.adv _).trans (Suf.adv s)⟩)
          | (have hh : pStatement ctx f s.adv = .ok (st, s') := h
             obtain ⟨a, b⟩ := pStatement_progress ctx f s.adv st s' (noImport_adv hni) hh hne
             exact ⟨by omega, b.trans (Suf.adv s)⟩)

/-- **the statement loop terminates on import-free streams**: fuel `2·tokens + 2` always suffices -/
theorem parseLoop_fuel (ctx : PCtx) : ∀ (f : Nat) (s : PS) (acc : List Stmt), noImport s.rest → 2 * s.N + 2 ≤ f → parseLoop ctx f s acc ≠ .fuel
  | 0, s, acc, _, h => by omega
  | f+1, s, acc, hni, hf => by
      simp only [parseLoop]
      have h1 := pStatement_fuel ctx f s hni (by omega)
      cases hr : pStatement ctx f s with
      | ok x =>
        obtain ⟨st, s1⟩ := x
        simp only
        by_cases hst : ∃ m, st = .eos m
        · obtain ⟨m, rfl⟩ := hst; simp
        · have hne : ∀ m, st ≠ .eos m := fun m e => hst ⟨m, e⟩
          obtain ⟨a, b⟩ := pStatement_progress ctx f s st s1 hni hr hne
          have hni1 := noImport_suf b hni
          cases st <;> (try (exact absurd rfl (hne _))) <;> simp only
          all_goals (
            split
            · simp [unexpected]
            · split
              · exact parseLoop_fuel ctx f s1.adv _ (noImport_adv hni1) (by have := s1.adv_N_le; omega)
              · exact parseLoop_fuel ctx f s1 _ hni1 (by omega))
      | err e => simp
      | panic p => simp
      | fuel => exact (h1 hr).elim
end Pakhi

namespace Pakhi

theorem allImportPaths_noImport : ∀ (toks : List Token), noImport toks → allImportPaths toks = .ok []
  | [], _ => rfl
  | t :: r, h => by
      have ht : (t.kind == TK.import) = false := by
        have := h t (by simp); simpa using this
      simp only [allImportPaths, ht]
      exact allImportPaths_noImport r (fun x hx => h x (by simp [hx]))

theorem expandDirname_props (ctx : PCtx) (toks : List Token) (loc : Str) (toks' : List Token) (h : expandDirname ctx toks loc = .ok toks')
    (hni : noImport toks) : noImport toks' ∧ toks'.length = toks.length := by
  simp only [expandDirname] at h
  split at h
  · split at h <;> try (simp at h)
    subst h
    refine ⟨?_, by simp⟩
    intro t ht
    simp only [List.mem_map] at ht
    obtain ⟨t0, h0, rfl⟩ := ht
    split
    · simp
    · exact hni t0 h0
  · simp at h; subst h; exact ⟨hni, rfl⟩

theorem dirWithSlash_ne_fuel (ctx : PCtx) (loc : Str) : dirWithSlash ctx loc ≠ .fuel := by
  simp only [dirWithSlash]; split <;> simp

theorem expandDirname_ne_fuel (ctx : PCtx) (toks : List Token) (loc : Str) : expandDirname ctx toks loc ≠ .fuel := by
  simp only [expandDirname]
  split
  · have := dirWithSlash_ne_fuel ctx loc
    cases hd : dirWithSlash ctx loc <;> simp_all
  · simp

/-- **`parse` terminates on every import-free token stream** within fuel `2·tokens + 2` (so the driver's fixed fuel of 10⁶
    covers every single-file program of up to half a million tokens) -/
theorem parse_terminates_without_imports (ctx : PCtx) (fuel : Nat) (toks : List Token) (hni : noImport toks)
    (hf : 2 * toks.length + 2 ≤ fuel) : parse ctx fuel toks ≠ .fuel := by
  simp only [parse]
  split
  · simp
  · rw [allImportPaths_noImport toks hni]
    simp only
    cases he : expandDirname ctx toks ctx.mainPath with
    | ok toks' =>
      obtain ⟨a, b⟩ := expandDirname_props ctx toks _ toks' he hni
      simp only
      exact parseLoop_fuel ctx fuel _ [] a (by simp only [PS.N]; omega)
    | err e => simp
    | panic p => simp
    | fuel => exact (expandDirname_ne_fuel ctx toks _ he).elim
end Pakhi
