/-
  Everything the parser returns is syntactically well formed (`progWF`): record literals have a value per key and
  every re-assignment has a right-hand side (helper lemmas for C13 / C12).
-/
import Pakhi.Lemmas.ParserNP
import Pakhi.Spec.WF
namespace Pakhi

@[simp] theorem mkBin_wf (k : Nat) (op : TK) (l r : Expr) (m : Meta) : (mkBin k op l r m).wf = (l.wf && r.wf) := by
  unfold mkBin; split <;> simp [Expr.wf]

theorem syntaxErr_ne_ok {α} (s : PS) (tag : String) (x : α) : (s.syntaxErr tag : Res α) ≠ .ok x := by
  unfold PS.syntaxErr
  cases h : s.metaCur <;> simp_all [mkErr]

set_option maxHeartbeats 4000000 in
/-- every expression the parser returns is well formed (a record literal has as many values as keys) -/
theorem expr_wf : ∀ (f : Nat),
    (∀ k s e s', pLevel f k s = .ok (e, s') → e.wf = true) ∧
    (∀ k e0 s e s', e0.wf = true → pLevelLoop f k e0 s = .ok (e, s') → e.wf = true) ∧
    (∀ s e s', pUnary f s = .ok (e, s') → e.wf = true) ∧
    (∀ s e s', pCall f s = .ok (e, s') → e.wf = true) ∧
    (∀ e0 s e s', e0.wf = true → pCallLoop f e0 s = .ok (e, s') → e.wf = true) ∧
    (∀ e0 s e s', e0.wf = true → pFinishCall f e0 s = .ok (e, s') → e.wf = true) ∧
    (∀ s es s', pArgs f s = .ok (es, s') → es.wf = true) ∧
    (∀ s e s', pPrimary f s = .ok (e, s') → e.wf = true) ∧
    (∀ e0 s e s', e0.wf = true → pIndexLoop f e0 s = .ok (e, s') → e.wf = true) ∧
    (∀ s es s', pListElems f s = .ok (es, s') → es.wf = true) ∧
    (∀ s ks vs s', pRecordElems f s = .ok (ks, vs, s') → ks.wf = true ∧ vs.wf = true ∧ ks.length = vs.length)
  | 0 => by simp [pLevel, pLevelLoop, pUnary, pCall, pCallLoop, pFinishCall, pArgs, pPrimary, pIndexLoop, pListElems, pRecordElems]
  | f+1 => by
      obtain ⟨i1, i2, i3, i4, i5, i6, i7, i8, i9, i10, i11⟩ := expr_wf f
      refine ⟨?_, ?_, ?_, ?_, ?_, ?_, ?_, ?_, ?_, ?_, ?_⟩
      · intro k s e s' h; simp only [pLevel] at h
        split at h
        · exact i3 _ _ _ h
        · split at h <;> try (simp at h)
          rename_i e1 s1 h1
          exact i2 _ _ _ _ _ (i1 _ _ _ _ h1) h
      · intro k e0 s e s' h0 h; simp only [pLevelLoop] at h
        split at h
        · split at h <;> try (simp at h)
          rename_i r s1 h1
          split at h <;> try (simp at h)
          rename_i m hm
          exact i2 _ _ _ _ _ (by simp [h0, i1 _ _ _ _ h1]) h
        · simp at h; obtain ⟨rfl, _⟩ := h; exact h0
      · intro s e s' h; simp only [pUnary] at h
        split at h
        · split at h <;> try (simp at h)
          split at h <;> try (simp at h)
          rename_i r s1 h1
          obtain ⟨rfl, _⟩ := h
          simp [Expr.wf, i3 _ _ _ h1]
        · exact i4 _ _ _ h
      · intro s e s' h; simp only [pCall] at h
        split at h <;> try (simp at h)
        rename_i e1 s1 h1
        exact i5 _ _ _ _ (i8 _ _ _ h1) h
      · intro e0 s e s' h0 h; simp only [pCallLoop] at h
        split at h
        · split at h <;> try (simp at h)
          rename_i e1 s1 h1
          exact i5 _ _ _ _ (i6 _ _ _ _ h0 h1) h
        · simp at h; obtain ⟨rfl, _⟩ := h; exact h0
      · intro e0 s e s' h0 h; simp only [pFinishCall] at h
        split at h <;> try (simp at h)
        split at h
        all_goals first
          | (simp at h; obtain ⟨rfl, _⟩ := h; simp [Expr.wf, Exprs.wf]; done)
          | (split at h <;> try (simp at h)
             rename_i args s1 h1
             obtain ⟨rfl, _⟩ := h
             simp [Expr.wf, i7 _ _ _ h1])
      · intro s es s' h; simp only [pArgs] at h
        split at h <;> try (simp at h)
        rename_i e1 s1 h1
        split at h
        · split at h <;> try (simp at h)
          rename_i es1 s2 h2
          obtain ⟨rfl, _⟩ := h
          simp [Exprs.wf, i1 _ _ _ _ h1, i7 _ _ _ h2]
        · simp at h; obtain ⟨rfl, _⟩ := h; simp [Exprs.wf, i1 _ _ _ _ h1]
      · intro s e s' h; simp only [pPrimary] at h
        repeat' split at h
        all_goals (try (simp at h))
        all_goals (try (obtain ⟨rfl, _⟩ := h))
        all_goals (try (simp [Expr.wf]))
        all_goals first
          | exact absurd h (syntaxErr_ne_ok _ _ _)
          | exact i9 _ _ _ _ (by simp [Expr.wf]) h
          | exact i1 _ _ _ _ ‹_›
          | exact i10 _ _ _ ‹_›
          | (obtain ⟨a, b, c⟩ := i11 _ _ _ _ ‹_›; exact ⟨⟨by omega, a⟩, b⟩)
      · intro e0 s e s' h0 h; simp only [pIndexLoop] at h
        repeat' split at h
        all_goals (try (simp at h))
        all_goals first
          | (obtain ⟨rfl, _⟩ := h; exact h0)
          | exact absurd h (syntaxErr_ne_ok _ _ _)
          | exact i9 _ _ _ _ (by simp [Expr.wf, h0, i1 _ _ _ _ ‹_›]) h
      · intro s es s' h; simp only [pListElems] at h
        repeat' split at h
        all_goals (try (simp at h))
        all_goals first
          | (obtain ⟨rfl, _⟩ := h; simp [Exprs.wf]; done)
          | (obtain ⟨rfl, _⟩ := h; simp [Exprs.wf, i1 _ _ _ _ ‹_›, i10 _ _ _ ‹_›])
      · intro s ks vs s' h; simp only [pRecordElems] at h
        repeat' split at h
        all_goals (try (simp at h))
        all_goals first
          | (obtain ⟨rfl, rfl, _⟩ := h; simp [Exprs.wf, Exprs.length]; done)
          | exact absurd h (syntaxErr_ne_ok _ _ _)
          | (obtain ⟨rfl, rfl, _⟩ := h
             obtain ⟨a, b, c⟩ := i11 _ _ _ _ ‹_›
             simp [Exprs.wf, Exprs.length, a, b, c, i1 _ _ _ _ ‹pLevel f 0 s = _›, i1 _ _ _ _ ‹pLevel f 0 (PS.adv _) = _›])

theorem pExpr_wf {s : PS} {e : Expr} {s' : PS} (h : pExpr s = .ok (e, s')) : e.wf = true := (expr_wf _).1 0 s e s' h

theorem assignStmt_wf {s : PS} {st : Stmt} {s' : PS} (h : assignStmt s = .ok (st, s')) : st.wf = true := by
  simp only [assignStmt] at h
  repeat' split at h
  all_goals (try (simp [unexpected, mkErr] at h; done))
  all_goals (try (exact absurd h (syntaxErr_ne_ok _ _ _)))
  all_goals (
    rename_i hr _
    simp at h; obtain ⟨rfl, _⟩ := h
    split at hr
    · simp at hr; obtain ⟨rfl, _⟩ := hr; simp [Stmt.wf, Assignment.wf]
    · split at hr <;> try (simp at hr)
      rename_i e s1 he
      obtain ⟨rfl, _⟩ := hr
      simp [Stmt.wf, Assignment.wf, pExpr_wf he])

theorem reassignIndexes_wf : ∀ (f : Nat) {s : PS} {ixs : List Expr} {s' : PS}, reassignIndexes f s = .ok (ixs, s') → ixs.all Expr.wf = true
  | 0, s, ixs, s', h => by simp [reassignIndexes] at h
  | f+1, s, ixs, s', h => by
      simp only [reassignIndexes] at h
      repeat' split at h
      all_goals (try (simp at h))
      all_goals first
        | (obtain ⟨rfl, _⟩ := h; simp; done)
        | exact absurd h (syntaxErr_ne_ok _ _ _)
        | (obtain ⟨rfl, _⟩ := h
           have h1 := pExpr_wf ‹pExpr s = _›
           have h2 := reassignIndexes_wf f ‹reassignIndexes f _ = _›
           simp only [List.all_cons, Bool.and_eq_true]; exact ⟨h1, h2⟩)

theorem exprStmt_wf {s : PS} {st : Stmt} {s' : PS} (h : exprStmt s = .ok (st, s')) : st.wf = true := by
  simp only [exprStmt] at h
  repeat' split at h
  all_goals (try (simp at h))
  obtain ⟨rfl, _⟩ := h
  simp [Stmt.wf, pExpr_wf ‹pExpr s = _›]

theorem reassignOrCallStmt_wf {s : PS} {st : Stmt} {s' : PS} (h : reassignOrCallStmt s = .ok (st, s')) : st.wf = true := by
  simp only [reassignOrCallStmt] at h
  repeat' split at h
  all_goals (try (simp at h))
  all_goals first
    | exact exprStmt_wf h
    | (obtain ⟨rfl, _⟩ := h; simp [Stmt.wf, pExpr_wf ‹pExpr s = _›]; done)
    | (obtain ⟨rfl, _⟩ := h
       have h2 := reassignIndexes_wf _ ‹reassignIndexes _ _ = _›
       have h1 := pExpr_wf ‹pExpr (PS.adv _) = _›
       simp [Stmt.wf, Assignment.wf, h1, h2])

theorem printStmt_wf {b : Bool} {s : PS} {st : Stmt} {s' : PS} (h : printStmt b s = .ok (st, s')) : st.wf = true := by
  simp only [printStmt] at h
  repeat' split at h
  all_goals (try (simp at h))
  all_goals (obtain ⟨rfl, _⟩ := h; simp [Stmt.wf, pExpr_wf ‹pExpr _ = _›])

theorem oneTokenStmt_wf {mk : Meta → Stmt} (hmk : ∀ m, (mk m).wf = true) {s : PS} {st : Stmt} {s' : PS}
    (h : oneTokenStmt mk s = .ok (st, s')) : st.wf = true := by
  simp only [oneTokenStmt] at h
  split at h <;> try (simp at h)
  obtain ⟨rfl, _⟩ := h; exact hmk _

theorem returnStmt_wf {s : PS} {st : Stmt} {s' : PS} (h : returnStmt s = .ok (st, s')) : st.wf = true := by
  simp only [returnStmt] at h
  repeat' split at h
  all_goals (try (simp at h))
  all_goals first
    | (obtain ⟨rfl, _⟩ := h; simp [Stmt.wf, Expr.wf]; done)
    | (obtain ⟨rfl, _⟩ := h; simp [Stmt.wf, pExpr_wf ‹pExpr _ = _›])

theorem ifStmt_wf {s : PS} {st : Stmt} {s' : PS} (h : ifStmt s = .ok (st, s')) : st.wf = true := by
  simp only [ifStmt] at h
  repeat' split at h
  all_goals (try (simp at h))
  obtain ⟨rfl, _⟩ := h
  simp [Stmt.wf, pExpr_wf ‹pExpr _ = _›]

theorem pStatement_wf (ctx : PCtx) : ∀ (f : Nat) {s : PS} {st : Stmt} {s' : PS}, pStatement ctx f s = .ok (st, s') → st.wf = true
  | 0, s, st, s', h => by simp [pStatement] at h
  | f+1, s, st, s', h => by
      simp only [pStatement] at h
      repeat' split at h
      all_goals (try (simp [unexpected] at h; done))
      all_goals first
        | exact printStmt_wf h
        | exact assignStmt_wf h
        | exact reassignOrCallStmt_wf h
        | exact oneTokenStmt_wf (fun _ => rfl) h
        | exact ifStmt_wf h
        | exact returnStmt_wf h
        | exact pStatement_wf ctx f h
        | exact absurd h (syntaxErr_ne_ok _ _ _)
        | (simp at h; obtain ⟨rfl, _⟩ := h; rfl)

theorem parseLoop_wf (ctx : PCtx) : ∀ (f : Nat) {s : PS} {acc prog : List Stmt}, acc.all Stmt.wf = true →
    parseLoop ctx f s acc = .ok prog → progWF prog = true
  | 0, s, acc, prog, _, h => by simp [parseLoop] at h
  | f+1, s, acc, prog, ha, h => by
      simp only [parseLoop] at h
      split at h <;> try (simp at h)
      rename_i st s1 hst
      have hw := pStatement_wf ctx f hst
      have ha' : (st :: acc).all Stmt.wf = true := by simp only [List.all_cons, Bool.and_eq_true]; exact ⟨hw, ha⟩
      split at h
      · simp at h; subst h
        simp only [progWF, List.all_eq_true] at *
        intro x hx
        exact ha' x (by simp at hx ⊢; exact hx.symm)
      · split at h
        · simp [unexpected] at h
        · split at h
          · exact parseLoop_wf ctx f ha' h
          · exact parseLoop_wf ctx f ha' h

/-- **every program the parser returns is well formed** -/
theorem parse_wf (ctx : PCtx) (fuel : Nat) (toks : List Token) (prog : List Stmt) (h : parse ctx fuel toks = .ok prog) :
    progWF prog = true := by
  simp only [parse] at h
  repeat' split at h
  all_goals (try (simp at h))
  exact parseLoop_wf ctx fuel (by simp) h
end Pakhi
