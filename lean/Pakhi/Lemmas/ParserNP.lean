/- The expression parser never panics (helper lemmas for C12). -/
import Pakhi.Model.Parser
namespace Pakhi

theorem metaCur_np (s : PS) (p : String) : s.metaCur ≠ .panic p := by
  unfold PS.metaCur; split <;> simp [unexpected]
theorem metaOf_np (s : PS) (t : Token) (p : String) : s.metaOf t ≠ .panic p := by
  unfold PS.metaOf; split <;> simp [unexpected]
theorem metaPrev_np (s : PS) (p : String) : s.metaPrev ≠ .panic p := metaOf_np s _ p
theorem syntaxErr_np {α} (s : PS) (tag : String) (p : String) : (s.syntaxErr tag : Res α) ≠ .panic p := by
  unfold PS.syntaxErr
  have := metaCur_np s
  cases h : s.metaCur <;> simp_all [mkErr]

set_option maxHeartbeats 1000000 in
theorem expr_no_panic : ∀ (f : Nat),
    (∀ k s p, pLevel f k s ≠ .panic p) ∧ (∀ k e s p, pLevelLoop f k e s ≠ .panic p) ∧
    (∀ s p, pUnary f s ≠ .panic p) ∧ (∀ s p, pCall f s ≠ .panic p) ∧ (∀ e s p, pCallLoop f e s ≠ .panic p) ∧
    (∀ e s p, pFinishCall f e s ≠ .panic p) ∧ (∀ s p, pArgs f s ≠ .panic p) ∧ (∀ s p, pPrimary f s ≠ .panic p) ∧
    (∀ e s p, pIndexLoop f e s ≠ .panic p) ∧ (∀ s p, pListElems f s ≠ .panic p) ∧ (∀ s p, pRecordElems f s ≠ .panic p)
  | 0 => by simp [pLevel, pLevelLoop, pUnary, pCall, pCallLoop, pFinishCall, pArgs, pPrimary, pIndexLoop, pListElems, pRecordElems]
  | f+1 => by
      obtain ⟨i1, i2, i3, i4, i5, i6, i7, i8, i9, i10, i11⟩ := expr_no_panic f
      have m1 := metaCur_np
      have m2 := metaOf_np
      have m3 := metaPrev_np
      have m4 : ∀ (s : PS) (tag : String) (p : String), (s.syntaxErr tag : Res (Expr × PS)) ≠ .panic p := fun s t p => syntaxErr_np s t p
      have m5 : ∀ (s : PS) (tag : String) (p : String), (s.syntaxErr tag : Res (Exprs × PS)) ≠ .panic p := fun s t p => syntaxErr_np s t p
      have m6 : ∀ (s : PS) (tag : String) (p : String), (s.syntaxErr tag : Res (Exprs × Exprs × PS)) ≠ .panic p := fun s t p => syntaxErr_np s t p
      refine ⟨?_, ?_, ?_, ?_, ?_, ?_, ?_, ?_, ?_, ?_, ?_⟩
      · intro k s p; simp only [pLevel]; repeat' split
        all_goals simp_all
      · intro k e s p; simp only [pLevelLoop]; repeat' split
        all_goals simp_all
      · intro s p; simp only [pUnary]; repeat' split
        all_goals simp_all
      · intro s p; simp only [pCall]; repeat' split
        all_goals simp_all
      · intro e s p; simp only [pCallLoop]; repeat' split
        all_goals simp_all
      · intro e s p; simp only [pFinishCall]; repeat' split
        all_goals simp_all
      · intro s p; simp only [pArgs]; repeat' split
        all_goals simp_all
      · intro s p; simp only [pPrimary]; repeat' split
        all_goals simp_all
      · intro e s p; simp only [pIndexLoop]; repeat' split
        all_goals simp_all
      · intro s p; simp only [pListElems]; repeat' split
        all_goals simp_all
      · intro s p; simp only [pRecordElems]; repeat' split
        all_goals simp_all
end Pakhi
