/-
  The flat interpreter refines the structured semantics `Spec.Sem` (helper lemmas for C02–C05, C19).
-/
import Pakhi.Lemmas.RefineDefs
namespace Pakhi

/-- the innermost enclosing loop of a position -/
structure LC where
  envs : Nat
  after : List Stmt
  lstart : List Stmt
  ls : List LoopEnv

/-- `continue` / `break` cut the scope stack back to the depth at loop creation -/
def trunc (envs : Nat) (s : St) : St := { s with scopes := s.scopes.drop (s.scopes.length - envs) }

structure InLoop (lc : LC) (k : List Stmt) (s : St) : Prop where
  loops : s.loops = { start := lc.lstart, envs := lc.envs } :: lc.ls
  le : lc.envs ≤ s.scopes.length
  scan : ∀ bm, breakScan bm k (s.scopes.length - lc.envs) = .ok lc.after

/-- the position is consistent with its loop context; `strict`: at least one block is open inside the loop -/
def CtxOK (ctx : Option LC) (il : Bool) (strict : Bool) (k : List Stmt) (s : St) : Prop :=
  match ctx with
  | none => il = false
  | some lc => InLoop lc k s ∧ (strict = true → lc.envs < s.scopes.length)

/-- what a `ফেরত` leaves: the caller's stacks are still below whatever was pushed since -/
structure RetFrame (s s' : St) : Prop where
  loops : ∃ ext, s'.loops = ext ++ s.loops
  flags : ∃ ext, s'.flags = ext ++ s.flags
  depth : s.scopes.length ≤ s'.scopes.length

theorem FrameN.toRet {s s' : St} (h : FrameN s s') : RetFrame s s' := by
  obtain ⟨j, hj⟩ := h.flags
  exact ⟨⟨[], by simp [h.loops]⟩, ⟨_, hj⟩, by rw [h.depth]; exact Nat.le_refl _⟩
theorem RetFrame.refl (s : St) : RetFrame s s := (FrameN.refl s).toRet
theorem RetFrame.trans {a b c : St} (h1 : RetFrame a b) (h2 : RetFrame b c) : RetFrame a c := by
  obtain ⟨e1, h1l⟩ := h1.loops; obtain ⟨e2, h2l⟩ := h2.loops
  obtain ⟨f1, h1f⟩ := h1.flags; obtain ⟨f2, h2f⟩ := h2.flags
  exact ⟨⟨e2 ++ e1, by rw [h2l, h1l, List.append_assoc]⟩, ⟨f2 ++ f1, by rw [h2f, h1f, List.append_assoc]⟩,
    Nat.le_trans h1.depth h2.depth⟩

section
variable {prog : List Stmt} {α : Type}

/-- how the flat run `r` (driver `D`, fuel `F`, started in front of the fragment in state `s`) relates to the
    structured outcome of the fragment -/
def Post (D : Driver prog α) (ctx : Option LC) (k : List Stmt) (s : St) (F : Nat) (r : Res α) : Res (Sig × St) → Prop
  | .ok (.normal, s') => (∃ F', F' ≤ F ∧ D.run F' k s' = r) ∧ FrameN s s' ∧ StOK (GoodFn prog) prog s'
  | .ok (.brk, s') => ∃ lc, ctx = some lc ∧
      (∃ F', F' < F ∧ D.run F' lc.after { trunc lc.envs s' with loops := lc.ls } = r) ∧ FrameN s s' ∧ StOK (GoodFn prog) prog s'
  | .ok (.cont, s') => ∃ lc, ctx = some lc ∧
      (∃ F', F' < F ∧ D.run F' lc.lstart (trunc lc.envs s') = r) ∧ FrameN s s' ∧ StOK (GoodFn prog) prog s'
  | .ok (.ret cur, s') => (∃ F', F' ≤ F ∧ D.run F' cur s' = r) ∧ (∃ e m k', cur = Stmt.ret e m :: k' ∧ IsSuffixOf cur prog) ∧
      RetFrame s s' ∧ StOK (GoodFn prog) prog s'
  | .err e => r = .err e
  | .panic p => r = .panic p
  | .fuel => False

theorem IsSuffixOf.of_append {x y p : List Stmt} (h : IsSuffixOf (x ++ y) p) : IsSuffixOf y p := by
  obtain ⟨pre, hp⟩ := h; exact ⟨pre ++ x, by rw [hp]; simp⟩

/-- replace the fuel of an `exec` that did not run out by any larger one -/
theorem exec_fuel_irrel {f G : Nat} {cur : List Stmt} {s : St} (h : exec prog f cur s ≠ .fuel) (hle : f ≤ G) :
    exec prog G cur s = exec prog f cur s := by
  obtain ⟨n, rfl⟩ := Nat.exists_eq_add_of_le hle
  exact exec_mono prog rfl h n

theorem eval_fuel_irrel {f G : Nat} {cur : List Stmt} {e : Expr} {s : St} (h : eval prog f cur e s ≠ .fuel) (hle : f ≤ G) :
    eval prog G cur e s = eval prog f cur e s := by
  obtain ⟨n, rfl⟩ := Nat.exists_eq_add_of_le hle
  exact eval_mono prog rfl h n

variable (hinv : ∀ f, EvalInv (GoodFn prog) prog f) (D : Driver prog α) (G : Nat)
include hinv

/-- simple statements (C18/C04 leaves): the structured semantics and the flat run take the same step -/
theorem d_simple (hp : progWF prog = true) (st : Stmt) (hsimple : st.isSimple = true) (F : Nat) (k : List Stmt) (s : St) (ctx : Option LC) (r : Res α)
    (hsuf : IsSuffixOf (st :: k) prog) (hs : StOK (GoodFn prog) prog s) (hG : F ≤ G) (hef : ∀ f, f < F → EFat prog f)
    (h : D.run F (st :: k) s = r) (hr : r ≠ .fuel) : Post D ctx k s F r (sStmt prog G (.simple st) k s) := by
  by_cases hstop : st.isStop = true
  · cases st <;> simp [Stmt.isSimple, Stmt.isStop] at hsimple hstop
    simp only [sStmt, Post]
    exact ⟨⟨F, Nat.le_refl _, h⟩, ⟨_, _, _, rfl, hsuf⟩, RetFrame.refl s, hs⟩
  · have hstop' : st.isStop = false := by simpa using hstop
    obtain ⟨F1, rfl, hne, h2⟩ := D.unstep hstop' h hr
    have hG' : exec prog G (st :: k) s = exec prog (F1+1) (st :: k) s := exec_fuel_irrel hne (by omega)
    have hspec : sStmt prog G (.simple st) k s = (exec prog (F1+1) (st :: k) s).bind fun x => .ok (.normal, x.2) := by
      cases st <;> simp [Stmt.isSimple, Stmt.isStop] at hsimple hstop' <;> simp only [sStmt, hG']
    rw [hspec]
    have hgood := (hinv (F1+1)).exec (st :: k) s hsuf hs
    cases hx : exec prog (F1+1) (st :: k) s with
    | ok x =>
      obtain ⟨c, s1⟩ := x
      rw [hx] at hgood h2
      have hw : st.wf = true := by
        simp only [progWF, List.all_eq_true] at hp; exact hp _ (mem_of_suffix hsuf (by simp))
      obtain ⟨hc, hfr⟩ := exec_simple (hef F1 (by omega)) hsimple hstop' hsuf hw hs hx
      subst hc
      simp only [Res.bind, Post]
      exact ⟨⟨F1+1, by omega, h2.symm⟩, hfr.toN, hgood.2.1⟩
    | err e => rw [hx] at h2; simpa [Res.bind, Post] using h2
    | panic p => rw [hx] at h2; simpa [Res.bind, Post] using h2
    | fuel => exact (hne hx).elim
end
section
variable {prog : List Stmt} {α : Type}

theorem declareVar_length {scs sc : List Scope} {n : Str} {v : Val} (h : declareVar scs n v = .ok sc) : sc.length = scs.length := by
  cases scs <;> simp [declareVar] at h; subst h; simp

/-- a definition binds the name and continues behind the function's `ফেরত` (the body is skipped, C05) -/
theorem exec_funcDef {f : Nat} {fm hm rm : Meta} {hdr re : Expr} {body : SBlock} {k c : List Stmt} {s s' : St} (hb : body.WF)
    (h : exec prog (f+1) (.funcDef fm :: .expr hdr hm :: (body.flatten ++ (.ret re rm :: k))) s = .ok (c, s')) :
    c = k ∧ Frame s s' := by
  simp only [exec] at h
  have h := Res.tagOut_eq_ok h
  cases hdr with
  | call callee args cm =>
    cases callee with
    | var ftok vm =>
      simp only [execFuncDef] at h
      cases hp : paramNames args with
      | none => simp [hp, metaErr, mkErr] at h
      | some params =>
        simp only [hp] at h
        simp only [skipBlock_whole_block body _ hb] at h
        split at h
        · rename_i sc hd
          simp at h
          obtain ⟨rfl, rfl⟩ := h
          exact ⟨rfl, ⟨rfl, rfl, declareVar_length hd⟩⟩
        all_goals simp at h
    | _ => simp [execFuncDef, metaErr, mkErr] at h
  | _ => simp [execFuncDef, stmtErr, mkErr] at h

variable (hinv : ∀ f, EvalInv (GoodFn prog) prog f) (D : Driver prog α) (G : Nat)
include hinv

theorem d_funcDef (fm : Meta) (hdr : Expr) (hm : Meta) (body : SBlock) (re : Expr) (rm : Meta) (hb : body.WF)
    (F : Nat) (k : List Stmt) (s : St) (ctx : Option LC) (r : Res α)
    (hsuf : IsSuffixOf (.funcDef fm :: .expr hdr hm :: (body.flatten ++ (.ret re rm :: k))) prog)
    (hs : StOK (GoodFn prog) prog s) (hG : F ≤ G)
    (h : D.run F (.funcDef fm :: .expr hdr hm :: (body.flatten ++ (.ret re rm :: k))) s = r) (hr : r ≠ .fuel) :
    Post D ctx k s F r (sStmt prog G (.funcDef fm hdr hm body re rm) k s) := by
  obtain ⟨F1, rfl, hne, h2⟩ := D.unstep (by simp [Stmt.isStop]) h hr
  simp only [sStmt, exec_fuel_irrel hne (show F1 + 1 ≤ G by omega)]
  have hgood := (hinv (F1+1)).exec _ s hsuf hs
  cases hx : exec prog (F1+1) (.funcDef fm :: .expr hdr hm :: (body.flatten ++ (.ret re rm :: k))) s with
  | ok x =>
    obtain ⟨c, s1⟩ := x
    rw [hx] at hgood h2
    obtain ⟨hc, hfr⟩ := exec_funcDef hb hx
    subst hc
    simp only [Res.bind, Post]
    exact ⟨⟨F1+1, by omega, h2.symm⟩, hfr.toN, hgood.2.1⟩
  | err e => rw [hx] at h2; simpa [Res.bind, Post] using h2
  | panic p => rw [hx] at h2; simpa [Res.bind, Post] using h2
  | fuel => exact (hne hx).elim

omit hinv in
theorem d_brk (m : Meta) (F : Nat) (k : List Stmt) (s : St) (lc : LC) (r : Res α) (hc : InLoop lc k s)
    (hs : StOK (GoodFn prog) prog s) (h : D.run F (.brk m :: k) s = r) (hr : r ≠ .fuel) :
    Post D (some lc) k s F r (sStmt prog G (.brk m) k s) := by
  obtain ⟨F1, rfl, hne, h2⟩ := D.unstep (by simp [Stmt.isStop]) h hr
  simp only [sStmt, Post]
  refine ⟨lc, rfl, ⟨F1+1, by omega, ?_⟩, FrameN.refl s, hs⟩
  rw [h2]
  simp only [exec, hc.loops, hc.scan m, Res.tagOut_ok, Res.bind, trunc]

omit hinv in
theorem d_cont (m : Meta) (F : Nat) (k : List Stmt) (s : St) (lc : LC) (r : Res α) (hc : InLoop lc k s)
    (hs : StOK (GoodFn prog) prog s) (h : D.run F (.cont m :: k) s = r) (hr : r ≠ .fuel) :
    Post D (some lc) k s F r (sStmt prog G (.cont m) k s) := by
  obtain ⟨F1, rfl, hne, h2⟩ := D.unstep (by simp [Stmt.isStop]) h hr
  simp only [sStmt, Post]
  refine ⟨lc, rfl, ⟨F1+1, by omega, ?_⟩, FrameN.refl s, hs⟩
  rw [h2]
  simp only [exec, hc.loops, Res.bind, trunc]
end
section
variable {prog : List Stmt} {α : Type}

theorem replicate_true_cons (j : Nat) (fl : List Bool) : List.replicate j true ++ true :: fl = List.replicate (j+1) true ++ fl := by
  induction j with
  | zero => simp
  | succ j ih => simp [List.replicate_succ, ih]

theorem FrameN.pushTrue {s s1 s2 : St} (h1 : Frame s s1) (h2 : FrameN { s1 with flags := true :: s1.flags } s2) : FrameN s s2 := by
  obtain ⟨j, hj⟩ := h2.flags
  refine ⟨h2.loops.trans h1.loops, h2.depth.trans h1.depth, ⟨j+1, ?_⟩⟩
  rw [hj]; show List.replicate j true ++ true :: s1.flags = _; rw [h1.flags, replicate_true_cons]

theorem FrameN.popAfter {s s1 s2 : St} (tail : STail) (h1 : Frame s s1) (h2 : FrameN { s1 with flags := true :: s1.flags } s2) :
    FrameN s (popFlagIf tail s2) := by
  obtain ⟨j, hj⟩ := h2.flags
  have hj' : s2.flags = List.replicate (j+1) true ++ s.flags := by
    rw [hj]; show List.replicate j true ++ true :: s1.flags = _; rw [h1.flags, replicate_true_cons]
  have base : FrameN s s2 := FrameN.pushTrue h1 h2
  cases tail with
  | none => exact base
  | «else» em b => exact ⟨base.loops, base.depth, ⟨j, by simp [popFlagIf, hj', List.replicate_succ]⟩⟩
  | elseIf em c m b t => exact ⟨base.loops, base.depth, ⟨j, by simp [popFlagIf, hj', List.replicate_succ]⟩⟩

theorem RetFrame.pushTrue {s s1 s2 : St} (h1 : Frame s s1) (h2 : RetFrame { s1 with flags := true :: s1.flags } s2) : RetFrame s s2 := by
  obtain ⟨e, he⟩ := h2.loops; obtain ⟨f, hf⟩ := h2.flags
  refine ⟨⟨e, by rw [he]; show e ++ s1.loops = _; rw [h1.loops]⟩, ⟨f ++ [true], ?_⟩, ?_⟩
  · rw [hf]; show f ++ true :: s1.flags = _; rw [h1.flags]; simp
  · have := h2.depth; have h3 := h1.depth; simp at this; omega

theorem StOK.popFlagIf {s : St} (tail : STail) (h : StOK (GoodFn prog) prog s) : StOK (GoodFn prog) prog (popFlagIf tail s) := by
  cases tail <;> exact ⟨h.heap, h.scopes, h.loops⟩

/-- re-base a `Post` on an earlier state `s` from which `s1` was reached by an expression evaluation -/
theorem Post.rebase {D : Driver prog α} {ctx : Option LC} {k : List Stmt} {s s1 : St} {F F2 : Nat} {r : Res α} {res : Res (Sig × St)}
    (hf : FrameN s s1) (hF : F ≤ F2) (h : Post D ctx k s1 F r res) : Post D ctx k s F2 r res := by
  cases res with
  | ok x =>
    obtain ⟨sig, s'⟩ := x
    cases sig with
    | normal =>
      obtain ⟨⟨F', h1, h2⟩, h3, h4⟩ := h
      exact ⟨⟨F', by omega, h2⟩, hf.trans h3, h4⟩
    | brk =>
      obtain ⟨lc, h0, ⟨F', h1, h2⟩, h3, h4⟩ := h
      exact ⟨lc, h0, ⟨F', by omega, h2⟩, hf.trans h3, h4⟩
    | cont =>
      obtain ⟨lc, h0, ⟨F', h1, h2⟩, h3, h4⟩ := h
      exact ⟨lc, h0, ⟨F', by omega, h2⟩, hf.trans h3, h4⟩
    | ret cur =>
      obtain ⟨⟨F', h1, h2⟩, h0, h3, h4⟩ := h
      exact ⟨⟨F', by omega, h2⟩, h0, hf.toRet.trans h3, h4⟩
  | err e => exact h
  | panic p => exact h
  | fuel => exact h

theorem InLoop.of_frame {lc : LC} {k k' : List Stmt} {s s' : St} (h : InLoop lc k s) (hl : s'.loops = s.loops)
    (hd : s'.scopes.length = s.scopes.length) (hk : ∀ bm, breakScan bm k' (s.scopes.length - lc.envs) = breakScan bm k (s.scopes.length - lc.envs)) :
    InLoop lc k' s' :=
  ⟨by rw [hl]; exact h.loops, by rw [hd]; exact h.le, by intro bm; rw [hd, hk]; exact h.scan bm⟩

theorem CtxOK.of_frame {ctx : Option LC} {il st st' : Bool} {k k' : List Stmt} {s s' : St} (h : CtxOK ctx il st k s)
    (hl : s'.loops = s.loops) (hd : s'.scopes.length = s.scopes.length) (hst : st' = true → st = true)
    (hk : ∀ lc, ctx = some lc → ∀ bm, breakScan bm k' (s.scopes.length - lc.envs) = breakScan bm k (s.scopes.length - lc.envs)) :
    CtxOK ctx il st' k' s' := by
  cases ctx with
  | none => exact h
  | some lc => exact ⟨h.1.of_frame hl hd (hk lc rfl), fun h2 => by rw [hd]; exact h.2 (hst h2)⟩
end
section
variable {prog : List Stmt} {α : Type}

/-- the state in which the flat interpreter reaches the rest of a chain after a false condition -/
def falseEntry (tail : STail) (s : St) : St :=
  match tail with
  | .none => s
  | _ => { s with flags := false :: s.flags }

def falseFlags (tail : STail) (fl : List Bool) : List Bool :=
  match tail with
  | .none => fl
  | _ => false :: fl

theorem falseEntry_eq (tail : STail) (s : St) : ({ s with flags := falseFlags tail s.flags } : St) = falseEntry tail s := by
  cases tail <;> rfl

variable (D : Driver prog α) (G : Nat)

/-- the refinement statement for a block … -/
def DBlockP (b : SBlock) : Prop :=
  ∀ (F : Nat) (k : List Stmt) (s : St) (ctx : Option LC) (il : Bool) (r : Res α),
    b.WF → b.Closed il → CtxOK ctx il false k s → IsSuffixOf (b.flatten ++ k) prog → StOK (GoodFn prog) prog s → F ≤ G →
    (∀ f, f < F → EFat prog f) → D.run F (b.flatten ++ k) s = r → r ≠ .fuel → Post D ctx k s F r (sBlock prog G b k s)

/-- … for the rest of a chain, entered after a false condition … -/
def DTailP (t : STail) : Prop :=
  ∀ (F : Nat) (k : List Stmt) (s : St) (ctx : Option LC) (il : Bool) (r : Res α),
    t.WF → t.Closed il → notElse k → CtxOK ctx il true k s → IsSuffixOf (t.flatten ++ k) prog → StOK (GoodFn prog) prog s → F ≤ G →
    (∀ f, f < F → EFat prog f) → D.run F (t.flatten ++ k) (falseEntry t s) = r → r ≠ .fuel → Post D ctx k s F r (sTail prog G t k s)

/-- … for a statement and a statement list -/
def DStmtP (t : SStmt) : Prop :=
  ∀ (F : Nat) (k : List Stmt) (s : St) (ctx : Option LC) (il : Bool) (r : Res α),
    t.WF → t.Closed il → notElse k → CtxOK ctx il true k s → IsSuffixOf (t.flatten ++ k) prog → StOK (GoodFn prog) prog s → F ≤ G →
    (∀ f, f < F → EFat prog f) → D.run F (t.flatten ++ k) s = r → r ≠ .fuel → Post D ctx k s F r (sStmt prog G t k s)

def DListP (t : SList) : Prop :=
  ∀ (F : Nat) (k : List Stmt) (s : St) (ctx : Option LC) (il : Bool) (r : Res α),
    t.WF → t.Closed il → notElse k → CtxOK ctx il true k s → IsSuffixOf (t.flatten ++ k) prog → StOK (GoodFn prog) prog s → F ≤ G →
    (∀ f, f < F → EFat prog f) → D.run F (t.flatten ++ k) s = r → r ≠ .fuel → Post D ctx k s F r (sList prog G t k s)

theorem skipBlockInIf_struct (body : SBlock) (tail : STail) (k : List Stmt) (fl : List Bool) (hb : body.WF) (hk : notElse k) :
    skipBlockInIf (body.flatten ++ (tail.flatten ++ k)) (false :: fl) =
      .ok (tail.flatten ++ k, falseFlags tail fl) := by
  simp only [skipBlockInIf, skipBlock_whole_block body _ hb, falseFlags]
  cases tail with
  | none =>
    simp only [STail.flatten, List.nil_append]
    cases k with
    | nil => rfl
    | cons st t => cases st <;> simp_all [notElse]
  | «else» em b => simp [STail.flatten]
  | elseIf em c m b t => simp [STail.flatten]

variable (hp : progWF prog = true) (hinv : ∀ f, EvalInv (GoodFn prog) prog f)
include hp hinv

/-- `যদি c { body } tail` — shared by a chain's first branch and its else-if branches (C02) -/
theorem d_if (c : Expr) (m : Meta) (body : SBlock) (tail : STail) (hbody : DBlockP D G body) (htail : DTailP D G tail)
    (F : Nat) (k : List Stmt) (s : St) (ctx : Option LC) (il : Bool) (r : Res α)
    (hwb : body.WF) (hwt : tail.WF) (hcb : body.Closed il) (hct : tail.Closed il) (hk : notElse k) (hctx : CtxOK ctx il true k s)
    (hsuf : IsSuffixOf (.if c m :: (body.flatten ++ (tail.flatten ++ k))) prog) (hs : StOK (GoodFn prog) prog s) (hG : F ≤ G)
    (hef : ∀ f, f < F → EFat prog f) (h : D.run F (.if c m :: (body.flatten ++ (tail.flatten ++ k))) s = r) (hr : r ≠ .fuel) :
    Post D ctx k s F r
      ((eval prog G (body.flatten ++ (tail.flatten ++ k)) c s).bind fun x =>
        match x.1 with
        | .bool true =>
          (sBlock prog G body (tail.flatten ++ k) { x.2 with flags := true :: x.2.flags }).bind fun y =>
            match y.1 with
            | .normal => .ok (.normal, popFlagIf tail y.2)
            | sig => .ok (sig, y.2)
        | .bool false => sTail prog G tail k x.2
        | _ => (metaErr c.meta .runtime "if-condition-not-boolean").tagOut x.2.out) := by
  obtain ⟨F1, rfl, hne, h2⟩ := D.unstep (by simp [Stmt.isStop]) h hr
  have hrest : IsSuffixOf (body.flatten ++ (tail.flatten ++ k)) prog := hsuf.tail
  have hcw : c.wf = true := by
    have : (Stmt.if c m).wf = true := by
      simp only [progWF, List.all_eq_true] at hp; exact hp _ (mem_of_suffix hsuf (by simp))
    simpa [Stmt.wf] using this
  simp only [exec] at hne h2
  have he : eval prog F1 (body.flatten ++ (tail.flatten ++ k)) c s ≠ .fuel := by
    intro hf; rw [hf] at hne; exact hne rfl
  rw [eval_fuel_irrel he (show F1 ≤ G by omega)]
  have hgood := (hinv F1).eval _ c s hrest hcw hs
  cases hx : eval prog F1 (body.flatten ++ (tail.flatten ++ k)) c s with
  | err e => rw [hx] at h2; simpa [Res.bind, Post] using h2
  | panic p => rw [hx] at h2; simpa [Res.bind, Post] using h2
  | fuel => exact (he hx).elim
  | ok x =>
    obtain ⟨v, s1⟩ := x
    rw [hx] at h2 hgood
    have hfr : Frame s s1 := (hef F1 (by omega)).1 _ _ _ _ _ hrest hcw hs hx
    have hs1 : StOK (GoodFn prog) prog s1 := hgood.1
    simp only [Res.bind] at h2 ⊢
    cases v with
    | bool b =>
      cases b with
      | true =>
        simp only [Res.bind] at h2 ⊢
        have hctx' : CtxOK ctx il false (tail.flatten ++ k) { s1 with flags := true :: s1.flags } :=
          hctx.of_frame hfr.loops hfr.depth (by simp) (by
            intro lc hlc bm
            cases tail with
            | none => simp [STail.flatten]
            | _ =>
              have hd : 1 ≤ s.scopes.length - lc.envs := by
                subst hlc; have := hctx.2 rfl; omega
              exact breakScan_tail bm _ k _ hwt hd)
        have hb := hbody (F1+1) (tail.flatten ++ k) { s1 with flags := true :: s1.flags } ctx il r hwb hcb hctx' hrest
          ⟨hs1.heap, hs1.scopes, hs1.loops⟩ (by omega) (fun f hf => hef f (by omega)) h2.symm hr
        cases hres : sBlock prog G body (tail.flatten ++ k) { s1 with flags := true :: s1.flags } with
        | ok y =>
          obtain ⟨sig, s2⟩ := y
          rw [hres] at hb
          cases sig with
          | normal =>
            obtain ⟨⟨F', hF', hrun⟩, hfn, hs2⟩ := hb
            obtain ⟨j, hj⟩ := hfn.flags
            obtain ⟨fl', hfl'⟩ := flags_top_true hj
            obtain ⟨F'', hF'', hrun2⟩ := D.skip_tail tail k s2 fl' F' r hwt hk hfl' hrun hr
            exact ⟨⟨F'', by omega, hrun2⟩, FrameN.popAfter tail hfr hfn, hs2.popFlagIf tail⟩
          | brk =>
            obtain ⟨lc, h0, ⟨F', hF', hrun⟩, hfn, hs2⟩ := hb
            exact ⟨lc, h0, ⟨F', by omega, hrun⟩, FrameN.pushTrue hfr hfn, hs2⟩
          | cont =>
            obtain ⟨lc, h0, ⟨F', hF', hrun⟩, hfn, hs2⟩ := hb
            exact ⟨lc, h0, ⟨F', by omega, hrun⟩, FrameN.pushTrue hfr hfn, hs2⟩
          | ret cur =>
            obtain ⟨⟨F', hF', hrun⟩, h0, hfn, hs2⟩ := hb
            exact ⟨⟨F', by omega, hrun⟩, h0, RetFrame.pushTrue hfr hfn, hs2⟩
        | err e => rw [hres] at hb; exact hb
        | panic p => rw [hres] at hb; exact hb
        | fuel => rw [hres] at hb; exact hb.elim
      | false =>
        simp only [Res.bind] at h2 ⊢
        rw [skipBlockInIf_struct body tail k s1.flags hwb hk] at h2
        simp only [Res.tagOut_ok, Res.bind] at h2
        rw [falseEntry_eq] at h2
        have hctx' : CtxOK ctx il true k s1 := hctx.of_frame hfr.loops hfr.depth (by simp) (fun _ _ _ => rfl)
        have ht := htail (F1+1) k s1 ctx il r hwt hct hk hctx' hrest.of_append hs1 (by omega) (fun f hf => hef f (by omega)) h2.symm hr
        exact ht.rebase hfr.toN (by omega)
    | _ => simpa [Res.bind, Post, metaErr, mkErr] using h2
end
section
variable {prog : List Stmt} {α : Type}

/-- `Post` for a whole loop, relative to the state right after the loop record was pushed -/
def IterPost (D : Driver prog α) (k : List Stmt) (ls : List LoopEnv) (s : St) (F : Nat) (r : Res α) : Res (Sig × St) → Prop
  | .ok (.normal, s') => (∃ F', F' ≤ F ∧ D.run F' k s' = r) ∧ s'.loops = ls ∧ s'.scopes.length = s.scopes.length ∧
      (∃ j, s'.flags = List.replicate j true ++ s.flags) ∧ StOK (GoodFn prog) prog s'
  | .ok (.ret cur, s') => (∃ F', F' ≤ F ∧ D.run F' cur s' = r) ∧ (∃ e m k', cur = Stmt.ret e m :: k' ∧ IsSuffixOf cur prog) ∧
      RetFrame s s' ∧ StOK (GoodFn prog) prog s'
  | .ok (.brk, _) => False
  | .ok (.cont, _) => False
  | .err e => r = .err e
  | .panic p => r = .panic p
  | .fuel => False

theorem IterPost.rebase {D : Driver prog α} {k : List Stmt} {ls : List LoopEnv} {s s1 : St} {F F2 : Nat} {r : Res α} {res : Res (Sig × St)}
    (hf : FrameN s s1) (hF : F ≤ F2) (h : IterPost D k ls s1 F r res) : IterPost D k ls s F2 r res := by
  cases res with
  | ok x =>
    obtain ⟨sig, s'⟩ := x
    cases sig with
    | normal =>
      obtain ⟨⟨F', h1, h2⟩, h3, h4, ⟨j, hj⟩, h6⟩ := h
      obtain ⟨j0, hj0⟩ := hf.flags
      refine ⟨⟨F', by omega, h2⟩, h3, h4.trans hf.depth, ⟨j + j0, ?_⟩, h6⟩
      rw [hj, hj0, ← List.append_assoc, List.replicate_append_replicate]
    | brk => exact h
    | cont => exact h
    | ret cur =>
      obtain ⟨⟨F', h1, h2⟩, h0, h3, h4⟩ := h
      exact ⟨⟨F', by omega, h2⟩, h0, hf.toRet.trans h3, h4⟩
  | err e => exact h
  | panic p => exact h
  | fuel => exact h

theorem trunc_self {s : St} {envs : Nat} (h : s.scopes.length = envs) : trunc envs s = s := by
  cases s; simp_all [trunc]

theorem exec_cont_loop {f : Nat} {cm : Meta} {k : List Stmt} {s : St} {l : LoopEnv} {ls : List LoopEnv}
    (hl : s.loops = l :: ls) (he : l.envs = s.scopes.length) : exec prog (f+1) (.cont cm :: k) s = .ok (l.start, s) := by
  simp only [exec]
  split
  · simp_all
  · rename_i l' ls' h'
    rw [hl] at h'; injection h' with h1 h2; subst h1
    simp [he]

variable (D : Driver prog α) (G : Nat)

/-- the iterations of a loop (C03): every pass runs the body block; `আবার` and a normal end of the body start
    the next pass, `থামাও` leaves the loop behind its closing `আবার;` and pops its record -/
theorem d_iter (body : SBlock) (cm : Meta) (k : List Stmt) (ls : List LoopEnv) (hbody : DBlockP D G body) (hwb : body.WF)
    (hcb : body.Closed true) (hsuf : IsSuffixOf (body.flatten ++ (.cont cm :: k)) prog) :
    ∀ (F n : Nat) (s : St) (r : Res α), F ≤ n → F ≤ G → (∀ f, f < F → EFat prog f) →
      s.loops = { start := body.flatten ++ (.cont cm :: k), envs := s.scopes.length } :: ls → StOK (GoodFn prog) prog s →
      D.run F (body.flatten ++ (.cont cm :: k)) s = r → r ≠ .fuel →
      IterPost D k ls s F r (sIter (fun s => sBlock prog G body (.cont cm :: k) s) n s) := by
  intro F
  induction F using Nat.strongRecOn with
  | _ F ih =>
    intro n s r hn hG hef hl hs hrun hr
    cases n with
    | zero =>
      have : F = 0 := by omega
      subst this; rw [D.zero] at hrun; exact (hr hrun.symm).elim
    | succ n =>
      simp only [sIter]
      let lc : LC := ⟨s.scopes.length, k, body.flatten ++ (.cont cm :: k), ls⟩
      have hctx : CtxOK (some lc) true false (.cont cm :: k) s :=
        ⟨⟨hl, Nat.le_refl _, by intro bm; simp [lc, breakScan]⟩, by simp⟩
      have hb := hbody F (.cont cm :: k) s (some lc) true r hwb hcb hctx hsuf hs hG hef hrun hr
      cases hres : sBlock prog G body (.cont cm :: k) s with
      | ok y =>
        obtain ⟨sig, s1⟩ := y
        rw [hres] at hb
        simp only [Res.bind]
        cases sig with
        | normal =>
          obtain ⟨⟨F', hF', hrun1⟩, hfn, hs1⟩ := hb
          obtain ⟨F1, rfl, hne, h2⟩ := D.unstep (by simp [Stmt.isStop]) hrun1 hr
          have hl1 : s1.loops = { start := body.flatten ++ (.cont cm :: k), envs := s1.scopes.length } :: ls := by
            rw [hfn.loops, hl, hfn.depth]
          rw [exec_cont_loop hl1 rfl] at h2
          simp only [Res.bind] at h2
          have := ih (F1+1) (by omega) n s1 r (by omega) (by omega) (fun f hf => hef f (by omega)) hl1 hs1 h2.symm hr
          exact this.rebase hfn (by omega)
        | cont =>
          obtain ⟨lc', h0, ⟨F', hF', hrun1⟩, hfn, hs1⟩ := hb
          have : lc' = lc := by simpa using h0.symm
          subst this
          have hl1 : s1.loops = { start := body.flatten ++ (.cont cm :: k), envs := s1.scopes.length } :: ls := by
            rw [hfn.loops, hl, hfn.depth]
          rw [trunc_self (by simp [lc, hfn.depth])] at hrun1
          have := ih F' hF' n s1 r (by omega) (by omega) (fun f hf => hef f (by omega)) hl1 hs1 hrun1 hr
          exact this.rebase hfn (by omega)
        | brk =>
          obtain ⟨lc', h0, ⟨F', hF', hrun1⟩, hfn, hs1⟩ := hb
          have : lc' = lc := by simpa using h0.symm
          subst this
          rw [trunc_self (by simp [lc, hfn.depth])] at hrun1
          have hdrop : s1.loops.drop 1 = ls := by rw [hfn.loops, hl]; rfl
          refine ⟨⟨F', by omega, ?_⟩, hdrop, hfn.depth, hfn.flags, ⟨hs1.heap, hs1.scopes, ?_⟩⟩
          · show D.run F' k { s1 with loops := s1.loops.drop 1 } = r
            rw [hdrop]; exact hrun1
          · intro l hl'
            exact hs1.loops l (List.mem_of_mem_drop hl')
        | ret cur => exact hb
      | err e => rw [hres] at hb; exact hb
      | panic p => rw [hres] at hb; exact hb
      | fuel => rw [hres] at hb; exact hb.elim
end
section
variable {prog : List Stmt} {α : Type}

theorem notElse_stmt (t : SStmt) (r : List Stmt) (hw : t.WF) : notElse (t.flatten ++ r) := by
  cases t with
  | simple st => cases st <;> simp_all [SStmt.flatten, notElse, SStmt.WF, Stmt.isSimple]
  | block b => cases b; simp [SStmt.flatten, SBlock.flatten, notElse]
  | _ => simp [SStmt.flatten, notElse]

theorem notElse_list (ts : SList) (k : List Stmt) (hw : ts.WF) (hk : notElse k) : notElse (ts.flatten ++ k) := by
  cases ts with
  | nil => simpa [SList.flatten] using hk
  | cons t ts' => simp only [SList.flatten, List.append_assoc]; exact notElse_stmt t _ hw.1

theorem exec_blockStart {f : Nat} {bs : Meta} {rest : List Stmt} {s : St} :
    exec prog (f+1) (.blockStart bs :: rest) s = .ok (rest, { s with scopes := [] :: s.scopes }) := by simp [exec]

theorem exec_blockEnd {f : Nat} {be : Meta} {rest : List Stmt} {s : St} (h : 2 ≤ s.scopes.length) :
    exec prog (f+1) (.blockEnd be :: rest) s = .ok (rest, { s with scopes := s.scopes.drop 1 }) := by
  simp only [exec]; split
  · omega
  · rfl

theorem exec_loop {f : Nat} {lm : Meta} {rest : List Stmt} {s : St} :
    exec prog (f+1) (.loop lm :: rest) s = .ok (rest, { s with loops := { start := rest, envs := s.scopes.length } :: s.loops }) := by
  simp [exec]

theorem exec_else_false {f : Nat} {em : Meta} {rest : List Stmt} {s : St} :
    exec prog (f+1) (.else em :: rest) { s with flags := false :: s.flags } = .ok (rest, s) := by simp [exec]

theorem trunc_drop1 {s : St} {envs : Nat} (h : envs < s.scopes.length) :
    trunc envs { s with scopes := s.scopes.drop 1 } = trunc envs s := by
  cases s with
  | mk scopes heap out loops flags world gc =>
    simp only [trunc, List.length_drop, List.drop_drop]
    simp at h
    congr 2; omega

variable (D : Driver prog α) (G : Nat) (hp : progWF prog = true) (hinv : ∀ f, EvalInv (GoodFn prog) prog f)
include hp hinv

omit hp hinv in
theorem d_block_of_list (bs be : Meta) (ss : SList) (hlist : DListP D G ss) : DBlockP D G (.mk bs ss be) := by
  intro F k s ctx il r hw hc hctx hsuf hs hG hef h hr
  simp only [SBlock.flatten, List.cons_append, List.append_assoc, List.nil_append] at h hsuf
  obtain ⟨F1, rfl, hne, h2⟩ := D.unstep (by simp [Stmt.isStop]) h hr
  rw [exec_blockStart] at h2
  simp only [Res.bind] at h2
  have hl1 := hs.scopes.length_pos
  have hs1 : StOK (GoodFn prog) prog { s with scopes := [] :: s.scopes } :=
    ⟨hs.heap, hs.scopes.cons _ (by intro kv hkv; simp at hkv), hs.loops⟩
  have hctx1 : CtxOK ctx il true (.blockEnd be :: k) { s with scopes := [] :: s.scopes } := by
    cases ctx with
    | none => exact hctx
    | some lc =>
      obtain ⟨⟨a1, a2, a3⟩, _⟩ := hctx
      refine ⟨⟨a1, by simp; omega, ?_⟩, by intro _; simp; omega⟩
      intro bm
      have : ([] :: s.scopes).length - lc.envs - 1 = s.scopes.length - lc.envs := by simp; omega
      simp only [breakScan]
      show breakScan bm k (([] :: s.scopes).length - lc.envs - 1) = _
      rw [this]; exact a3 bm
  have hl := hlist (F1+1) (.blockEnd be :: k) _ ctx il r hw hc (by simp [notElse]) hctx1 hsuf.tail hs1 (by omega)
    (fun f hf => hef f (by omega)) h2.symm hr
  simp only [sBlock]
  cases hres : sList prog G ss (.blockEnd be :: k) { s with scopes := [] :: s.scopes } with
  | ok y =>
    obtain ⟨sig, s2⟩ := y
    rw [hres] at hl
    simp only [Res.bind]
    cases sig with
    | normal =>
      obtain ⟨⟨F', hF', hrun⟩, hfn, hs2⟩ := hl
      have hd2 : s2.scopes.length = s.scopes.length + 1 := by rw [hfn.depth]; simp
      obtain ⟨F2, rfl, _, h3⟩ := D.unstep (by simp [Stmt.isStop]) hrun hr
      rw [exec_blockEnd (by omega)] at h3
      simp only [Res.bind] at h3
      refine ⟨⟨F2+1, by omega, h3.symm⟩, ⟨hfn.loops, by simp [hd2], hfn.flags⟩, ⟨hs2.heap, hs2.scopes.drop _ (by omega), hs2.loops⟩⟩
    | brk =>
      obtain ⟨lc, h0, ⟨F', hF', hrun⟩, hfn, hs2⟩ := hl
      have hd2 : s2.scopes.length = s.scopes.length + 1 := by rw [hfn.depth]; simp
      subst h0
      have hlt : lc.envs < s2.scopes.length := by have := hctx.1.le; omega
      refine ⟨lc, rfl, ⟨F', by omega, ?_⟩, ⟨hfn.loops, by simp [hd2], hfn.flags⟩, ⟨hs2.heap, hs2.scopes.drop _ (by omega), hs2.loops⟩⟩
      rw [trunc_drop1 hlt]; exact hrun
    | cont =>
      obtain ⟨lc, h0, ⟨F', hF', hrun⟩, hfn, hs2⟩ := hl
      have hd2 : s2.scopes.length = s.scopes.length + 1 := by rw [hfn.depth]; simp
      subst h0
      have hlt : lc.envs < s2.scopes.length := by have := hctx.1.le; omega
      refine ⟨lc, rfl, ⟨F', by omega, ?_⟩, ⟨hfn.loops, by simp [hd2], hfn.flags⟩, ⟨hs2.heap, hs2.scopes.drop _ (by omega), hs2.loops⟩⟩
      rw [trunc_drop1 hlt]; exact hrun
    | ret cur =>
      obtain ⟨⟨F', hF', hrun⟩, h0, hfn, hs2⟩ := hl
      exact ⟨⟨F', by omega, hrun⟩, h0, ⟨hfn.loops, hfn.flags, by have := hfn.depth; simp at this; omega⟩, hs2⟩
  | err e => rw [hres] at hl; exact hl
  | panic p => rw [hres] at hl; exact hl
  | fuel => rw [hres] at hl; exact hl.elim

omit hp hinv in
theorem d_list_nil : DListP D G .nil := by
  intro F k s ctx il r hw hc hk hctx hsuf hs hG hef h hr
  simp only [SList.flatten, List.nil_append] at h
  simp only [sList, Post]
  exact ⟨⟨F, Nat.le_refl _, h⟩, FrameN.refl s, hs⟩

omit hp hinv in
theorem d_list_cons (t : SStmt) (ts : SList) (ht : DStmtP D G t) (hts : DListP D G ts) : DListP D G (.cons t ts) := by
  intro F k s ctx il r hw hc hk hctx hsuf hs hG hef h hr
  simp only [SList.flatten, List.append_assoc] at h hsuf
  have hctx1 : CtxOK ctx il true (ts.flatten ++ k) s :=
    hctx.of_frame rfl rfl (by simp) (by
      intro lc hlc bm
      have hd : 1 ≤ s.scopes.length - lc.envs := by subst hlc; have := hctx.2 rfl; omega
      exact breakScan_list bm ts k _ hw.2 hd)
  have h1 := ht F (ts.flatten ++ k) s ctx il r hw.1 hc.1 (notElse_list ts k hw.2 hk) hctx1 hsuf hs hG hef h hr
  simp only [sList]
  cases hres : sStmt prog G t (ts.flatten ++ k) s with
  | ok y =>
    obtain ⟨sig, s1⟩ := y
    rw [hres] at h1
    simp only [Res.bind]
    cases sig with
    | normal =>
      obtain ⟨⟨F', hF', hrun⟩, hfn, hs1⟩ := h1
      have hctx2 : CtxOK ctx il true k s1 := hctx.of_frame hfn.loops hfn.depth (by simp) (fun _ _ _ => rfl)
      have h2 := hts F' k s1 ctx il r hw.2 hc.2 hk hctx2 hsuf.of_append hs1 (by omega) (fun f hf => hef f (by omega)) hrun hr
      exact h2.rebase hfn hF'
    | brk => exact h1
    | cont => exact h1
    | ret cur => exact h1
  | err e => rw [hres] at h1; exact h1
  | panic p => rw [hres] at h1; exact h1
  | fuel => rw [hres] at h1; exact h1.elim

omit hp hinv in
theorem d_tail_none : DTailP D G .none := by
  intro F k s ctx il r hw hc hk hctx hsuf hs hG hef h hr
  simp only [STail.flatten, List.nil_append, falseEntry] at h
  simp only [sTail, Post]
  exact ⟨⟨F, Nat.le_refl _, h⟩, FrameN.refl s, hs⟩

omit hp hinv in
theorem d_tail_else (em : Meta) (b : SBlock) (hb : DBlockP D G b) : DTailP D G (.else em b) := by
  intro F k s ctx il r hw hc hk hctx hsuf hs hG hef h hr
  simp only [STail.flatten, List.cons_append, falseEntry] at h hsuf
  obtain ⟨F1, rfl, _, h2⟩ := D.unstep (by simp [Stmt.isStop]) h hr
  rw [exec_else_false] at h2
  simp only [Res.bind] at h2
  have hctx1 : CtxOK ctx il false k s := hctx.of_frame rfl rfl (by simp) (fun _ _ _ => rfl)
  have := hb (F1+1) k s ctx il r hw hc hctx1 hsuf.tail hs (by omega) (fun f hf => hef f (by omega)) h2.symm hr
  simp only [sTail]
  exact this.rebase (FrameN.refl s) (by omega)

theorem d_tail_elseIf (em : Meta) (c : Expr) (m : Meta) (b : SBlock) (t : STail) (hb : DBlockP D G b) (ht : DTailP D G t) :
    DTailP D G (.elseIf em c m b t) := by
  intro F k s ctx il r hw hc hk hctx hsuf hs hG hef h hr
  simp only [STail.flatten, List.cons_append, List.append_assoc, falseEntry] at h hsuf
  obtain ⟨F1, rfl, _, h2⟩ := D.unstep (by simp [Stmt.isStop]) h hr
  rw [exec_else_false] at h2
  simp only [Res.bind] at h2
  have := d_if D G hp hinv c m b t hb ht (F1+1) k s ctx il r hw.1 hw.2 hc.1 hc.2 hk hctx hsuf.tail hs (by omega)
    (fun f hf => hef f (by omega)) h2.symm hr
  simp only [sTail]
  exact this.rebase (FrameN.refl s) (by omega)

omit hp hinv in
theorem d_loop (lm : Meta) (body : SBlock) (cm : Meta) (hb : DBlockP D G body) : DStmtP D G (.loop lm body cm) := by
  intro F k s ctx il r hw hc hk hctx hsuf hs hG hef h hr
  simp only [SStmt.flatten, List.cons_append, List.append_assoc, List.nil_append] at h hsuf
  obtain ⟨F1, rfl, _, h2⟩ := D.unstep (by simp [Stmt.isStop]) h hr
  rw [exec_loop] at h2
  simp only [Res.bind] at h2
  have hl1 := hs.scopes.length_pos
  have hs1 : StOK (GoodFn prog) prog { s with loops := { start := body.flatten ++ (.cont cm :: k), envs := s.scopes.length } :: s.loops } := by
    refine ⟨hs.heap, hs.scopes, ?_⟩
    intro l hl
    rcases List.mem_cons.mp hl with rfl | h'
    · exact ⟨hsuf.tail, hl1⟩
    · exact hs.loops l h'
  have hi := d_iter D G body cm k s.loops hb hw hc hsuf.tail (F1+1) G _ r (by omega) (by omega) (fun f hf => hef f (by omega)) rfl hs1 h2.symm hr
  simp only [sStmt]
  cases hres : sIter (fun s => sBlock prog G body (.cont cm :: k) s) G
      { s with loops := { start := body.flatten ++ (.cont cm :: k), envs := s.scopes.length } :: s.loops } with
  | ok y =>
    obtain ⟨sig, s2⟩ := y
    rw [hres] at hi
    cases sig with
    | normal =>
      obtain ⟨⟨F', hF', hrun⟩, a1, a2, a3, a4⟩ := hi
      exact ⟨⟨F', by omega, hrun⟩, ⟨a1, a2, a3⟩, a4⟩
    | brk => exact hi.elim
    | cont => exact hi.elim
    | ret cur =>
      obtain ⟨⟨F', hF', hrun⟩, h0, hfn, a4⟩ := hi
      obtain ⟨e, he⟩ := hfn.loops
      exact ⟨⟨F', by omega, hrun⟩, h0, ⟨⟨e ++ [{ start := body.flatten ++ (.cont cm :: k), envs := s.scopes.length }], by rw [he]; simp⟩, hfn.flags, hfn.depth⟩, a4⟩
  | err e => rw [hres] at hi; exact hi
  | panic p => rw [hres] at hi; exact hi
  | fuel => rw [hres] at hi; exact hi.elim
end
section
variable {prog : List Stmt} {α : Type}
variable (D : Driver prog α) (G : Nat) (hp : progWF prog = true) (hinv : ∀ f, EvalInv (GoodFn prog) prog f)
include hp hinv

mutual
theorem dStmt : ∀ (t : SStmt), DStmtP D G t
  | .simple st => by
      intro F k s ctx il r hw hc hk hctx hsuf hs hG hef h hr
      simp only [SStmt.flatten, List.cons_append, List.nil_append] at h hsuf
      exact d_simple hinv D G hp st hw F k s ctx r hsuf hs hG hef h hr
  | .block b => by
      intro F k s ctx il r hw hc hk hctx hsuf hs hG hef h hr
      simp only [SStmt.flatten] at h hsuf
      simp only [sStmt]
      exact dBlock b F k s ctx il r hw hc (hctx.of_frame rfl rfl (by simp) (fun _ _ _ => rfl)) hsuf hs hG hef h hr
  | .ifChain c m body tail => by
      intro F k s ctx il r hw hc hk hctx hsuf hs hG hef h hr
      simp only [SStmt.flatten, List.cons_append, List.append_assoc] at h hsuf
      simp only [sStmt]
      exact d_if D G hp hinv c m body tail (dBlock body) (dTail tail) F k s ctx il r hw.1 hw.2 hc.1 hc.2 hk hctx hsuf hs hG hef h hr
  | .loop lm body cm => d_loop D G lm body cm (dBlock body)
  | .brk m => by
      intro F k s ctx il r hw hc hk hctx hsuf hs hG hef h hr
      simp only [SStmt.flatten, List.cons_append, List.nil_append] at h
      cases ctx with
      | none => simp [SStmt.Closed] at hc; simp [CtxOK] at hctx; simp_all
      | some lc => exact d_brk D G m F k s lc r hctx.1 hs h hr
  | .cont m => by
      intro F k s ctx il r hw hc hk hctx hsuf hs hG hef h hr
      simp only [SStmt.flatten, List.cons_append, List.nil_append] at h
      cases ctx with
      | none => simp [SStmt.Closed] at hc; simp [CtxOK] at hctx; simp_all
      | some lc => exact d_cont D G m F k s lc r hctx.1 hs h hr
  | .funcDef fm hdr hm body re rm => by
      intro F k s ctx il r hw hc hk hctx hsuf hs hG hef h hr
      simp only [SStmt.flatten, List.cons_append, List.append_assoc, List.nil_append] at h hsuf
      exact d_funcDef hinv D G fm hdr hm body re rm hw F k s ctx r hsuf hs hG h hr
theorem dBlock : ∀ (b : SBlock), DBlockP D G b
  | .mk bs ss be => d_block_of_list D G bs be ss (dList ss)
theorem dList : ∀ (l : SList), DListP D G l
  | .nil => d_list_nil D G
  | .cons t ts => d_list_cons D G t ts (dStmt t) (dList ts)
theorem dTail : ∀ (t : STail), DTailP D G t
  | .none => d_tail_none D G
  | .else em b => d_tail_else D G em b (dBlock b)
  | .elseIf em c m b t => d_tail_elseIf D G hp hinv em c m b t (dBlock b) (dTail t)
end
end
end Pakhi
