/-
  Definitions for the refinement "flat interpreter ⊑ structured semantics": closed trees, good function bodies,
  statement drivers, frames (helper definitions for C02–C05, C19).
-/
import Pakhi.Spec.Sem
import Pakhi.Lemmas.EvalInv
import Pakhi.Lemmas.Mono
namespace Pakhi

/-! ### closed trees: `থামাও` / `আবার` occur only inside a loop of the same function -/

mutual
def SStmt.Closed : Bool → SStmt → Prop
  | _, .simple _ => True
  | il, .block b => b.Closed il
  | il, .ifChain _ _ body tail => body.Closed il ∧ tail.Closed il
  | _, .loop _ body _ => body.Closed true
  | il, .brk _ => il = true
  | il, .cont _ => il = true
  | _, .funcDef _ _ _ body _ _ => body.Closed false
def SBlock.Closed : Bool → SBlock → Prop
  | il, .mk _ ss _ => ss.Closed il
def SList.Closed : Bool → SList → Prop
  | _, .nil => True
  | il, .cons s ss => s.Closed il ∧ ss.Closed il
def STail.Closed : Bool → STail → Prop
  | _, .none => True
  | il, .elseIf _ _ _ body tail => body.Closed il ∧ tail.Closed il
  | il, .else _ body => body.Closed il
end

/-- the code of a function: a well-nested closed block followed by its `ফেরত` -/
def GoodBody (body : List Stmt) : Prop :=
  ∃ b re rm k, body = SBlock.flatten b ++ (Stmt.ret re rm :: k) ∧ b.WF ∧ b.Closed false

/-- the function-value invariant used from here on -/
def GoodFn (prog : List Stmt) (rem : Nat) (_params : List Str) : Prop := GoodBody (bodyOf prog rem)

/-- every `ফাং` in the program is followed by a header statement and a good body -/
def GoodDefs (prog : List Stmt) : Prop :=
  ∀ pre fm e m body, prog = pre ++ Stmt.funcDef fm :: Stmt.expr e m :: body → GoodBody body

theorem bodyOf_of_suffix {prog pre body : List Stmt} (h : prog = pre ++ body) : bodyOf prog body.length = body := by
  subst h; simp [bodyOf]

theorem funcIntro_of_goodDefs {prog : List Stmt} (h : GoodDefs prog) : FuncIntro (GoodFn prog) prog := by
  intro pre fm ce args cm m body params hp _
  have hb := h pre fm _ m body hp
  have : bodyOf prog body.length = body :=
    bodyOf_of_suffix (pre := pre ++ [Stmt.funcDef fm, Stmt.expr (.call ce args cm) m]) (by rw [hp]; simp)
  simpa [GoodFn, this] using hb

/-! ### drivers: `callLoop` and the collection-free `runLoop` execute statement after statement -/

def Stmt.isStop : Stmt → Bool
  | .ret _ _ | .eos _ => true
  | _ => false

structure Driver (prog : List Stmt) (α : Type) where
  run : Nat → List Stmt → St → Res α
  zero : ∀ cur s, run 0 cur s = .fuel
  step : ∀ F st rest s, st.isStop = false →
    run (F+1) (st :: rest) s = (exec prog F (st :: rest) s).bind fun x => run F x.1 x.2

def callDriver (prog : List Stmt) : Driver prog (Val × St) where
  run := callLoop prog
  zero := by intro cur s; simp [callLoop]
  step := by
    intro F st rest s h
    cases st <;> simp_all [callLoop, Stmt.isStop] <;> (congr; funext x; cases x; rfl)

theorem runLoop_never_k (prog : List Stmt) : ∀ (F k k' : Nat) (cur : List Stmt) (s : St),
    runLoop prog .never F k cur s = runLoop prog .never F k' cur s
  | 0, _, _, _, _ => by simp [runLoop]
  | F+1, k, k', cur, s => by
      simp only [runLoop, GcMode.fires]
      split
      · rfl
      · rfl
      · cases exec prog F cur s with
        | ok x => obtain ⟨c, s1⟩ := x; simp only [Bool.false_eq_true, if_false]; exact runLoop_never_k prog F (k+1) (k'+1) c s1
        | _ => rfl

def runDriver (prog : List Stmt) : Driver prog St where
  run := fun F cur s => runLoop prog .never F 0 cur s
  zero := by intro cur s; simp [runLoop]
  step := by
    intro F st rest s h
    simp only [runLoop, GcMode.fires]
    split
    · rename_i h0; simp at h0
    · rename_i m h0; simp at h0; obtain ⟨rfl, _⟩ := h0; simp [Stmt.isStop] at h
    · cases exec prog F (st :: rest) s with
      | ok x => obtain ⟨c, s1⟩ := x; simp only [Bool.false_eq_true, if_false, Res.bind]; exact runLoop_never_k prog F 1 0 c s1
      | _ => rfl

/-- what an expression evaluation leaves untouched -/
structure Frame (s s' : St) : Prop where
  loops : s'.loops = s.loops
  flags : s'.flags = s.flags
  depth : s'.scopes.length = s.scopes.length

/-- what a normally completing statement leaves untouched (it may leak `true` flags) -/
structure FrameN (s s' : St) : Prop where
  loops : s'.loops = s.loops
  depth : s'.scopes.length = s.scopes.length
  flags : ∃ j, s'.flags = List.replicate j true ++ s.flags

theorem Frame.refl (s : St) : Frame s s := ⟨rfl, rfl, rfl⟩
theorem Frame.trans {a b c : St} (h1 : Frame a b) (h2 : Frame b c) : Frame a c :=
  ⟨h2.loops.trans h1.loops, h2.flags.trans h1.flags, h2.depth.trans h1.depth⟩
theorem Frame.toN {s s' : St} (h : Frame s s') : FrameN s s' := ⟨h.loops, h.depth, ⟨0, by simp [h.flags]⟩⟩
theorem FrameN.refl (s : St) : FrameN s s := (Frame.refl s).toN
theorem FrameN.trans {a b c : St} (h1 : FrameN a b) (h2 : FrameN b c) : FrameN a c := by
  obtain ⟨j1, hj1⟩ := h1.flags; obtain ⟨j2, hj2⟩ := h2.flags
  refine ⟨h2.loops.trans h1.loops, h2.depth.trans h1.depth, ⟨j2 + j1, ?_⟩⟩
  rw [hj2, hj1, ← List.append_assoc, List.replicate_append_replicate]

/-- the frame facts about the evaluator at fuel `f` that the refinement needs -/
def EFat (prog : List Stmt) (f : Nat) : Prop :=
  (∀ cur e s v s', IsSuffixOf cur prog → e.wf = true → StOK (GoodFn prog) prog s → eval prog f cur e s = .ok (v, s') → Frame s s') ∧
  (∀ cur a s s', IsSuffixOf cur prog → a.wf = true → StOK (GoodFn prog) prog s → execAssign prog f cur a s = .ok s' → Frame s s')

theorem printTop_frame {cur : List Stmt} {f : Nat} {eol : Bool} {v : Val} {s s' : St} (h : printTop cur f eol v s = .ok s') : Frame s s' := by
  simp only [printTop] at h
  split at h
  · cases cur <;> simp [stmtErr, mkErr, unexpected, Res.tagOut] at h
  · cases cur <;> simp [stmtErr, mkErr, unexpected, Res.tagOut] at h
  · cases hp : printVal cur f v s with
    | ok s1 =>
      simp only [hp] at h
      obtain ⟨t, _, ha⟩ := (print_spec cur f).1 v s s1 hp
      simp at h; subst h
      cases eol
      · exact ⟨ha.2.2.2.1, ha.2.2.2.2.1, by show s1.scopes.length = _; rw [ha.2.2.1]⟩
      · exact ⟨ha.2.2.2.1, ha.2.2.2.2.1, by show s1.scopes.length = _; rw [ha.2.2.1]⟩
    | err e => simp [hp] at h
    | panic p => simp [hp] at h
    | fuel => simp [hp] at h

/-- a simple statement (other than `ফেরত`) continues with the next statement and keeps the frame -/
theorem exec_simple {prog : List Stmt} {f : Nat} {st : Stmt} {k c : List Stmt} {s s' : St} (hef : EFat prog f)
    (hsimple : st.isSimple = true) (hnr : st.isStop = false) (hsuf : IsSuffixOf (st :: k) prog) (hw : st.wf = true)
    (hs : StOK (GoodFn prog) prog s)
    (h : exec prog (f+1) (st :: k) s = .ok (c, s')) : c = k ∧ Frame s s' := by
  cases st <;> simp [Stmt.isSimple, Stmt.isStop] at hsimple hnr <;> simp only [Stmt.wf] at hw
  case print e m =>
    simp only [exec] at h
    obtain ⟨⟨v, s1⟩, h1, h2⟩ := Res.bind_eq_ok h
    obtain ⟨s2, h3, h4⟩ := Res.bind_eq_ok h2
    simp at h4; obtain ⟨rfl, rfl⟩ := h4
    exact ⟨rfl, (hef.1 _ _ _ _ _ hsuf hw hs h1).trans (printTop_frame h3)⟩
  case printNoEOL e m =>
    simp only [exec] at h
    obtain ⟨⟨v, s1⟩, h1, h2⟩ := Res.bind_eq_ok h
    obtain ⟨s2, h3, h4⟩ := Res.bind_eq_ok h2
    simp at h4; obtain ⟨rfl, rfl⟩ := h4
    exact ⟨rfl, (hef.1 _ _ _ _ _ hsuf hw hs h1).trans (printTop_frame h3)⟩
  case expr e m =>
    simp only [exec] at h
    obtain ⟨⟨v, s1⟩, h1, h2⟩ := Res.bind_eq_ok h
    simp at h2; obtain ⟨rfl, rfl⟩ := h2
    exact ⟨rfl, hef.1 _ _ _ _ _ hsuf hw hs h1⟩
  case assign a m =>
    simp only [exec] at h
    obtain ⟨s1, h1, h2⟩ := Res.bind_eq_ok h
    simp at h2; obtain ⟨rfl, rfl⟩ := h2
    exact ⟨rfl, hef.2 _ _ _ _ hsuf hw hs h1⟩
section
variable {prog : List Stmt} {α : Type}

theorem Driver.succ_of_ne_fuel (D : Driver prog α) {F : Nat} {cur : List Stmt} {s : St} {r : Res α}
    (h : D.run F cur s = r) (hr : r ≠ .fuel) : ∃ F0, F = F0 + 1 := by
  cases F with
  | zero => rw [D.zero] at h; exact (hr h.symm).elim
  | succ n => exact ⟨n, rfl⟩

@[simp] theorem exec_zero (cur : List Stmt) (s : St) : exec prog 0 cur s = .fuel := by simp [exec]

/-- one driver step on a non-stop statement, with the flat fuel made explicit -/
theorem Driver.unstep (D : Driver prog α) {F : Nat} {st : Stmt} {rest : List Stmt} {s : St} {r : Res α}
    (hst : st.isStop = false) (h : D.run F (st :: rest) s = r) (hr : r ≠ .fuel) :
    ∃ F1, F = F1 + 2 ∧ exec prog (F1+1) (st :: rest) s ≠ .fuel ∧
      r = (exec prog (F1+1) (st :: rest) s).bind fun x => D.run (F1+1) x.1 x.2 := by
  obtain ⟨F0, rfl⟩ := D.succ_of_ne_fuel h hr
  rw [D.step _ _ _ _ hst] at h
  cases F0 with
  | zero => simp [Res.bind] at h; exact (hr h.symm).elim
  | succ F1 =>
    refine ⟨F1, rfl, ?_, h.symm⟩
    intro hf; rw [hf] at h; simp [Res.bind] at h; exact hr h.symm

theorem flags_top_true {fl fl0 : List Bool} {j : Nat} (h : fl = List.replicate j true ++ true :: fl0) : ∃ fl', fl = true :: fl' := by
  cases j with
  | zero => exact ⟨fl0, by simpa using h⟩
  | succ j => exact ⟨List.replicate j true ++ true :: fl0, by rw [h]; simp [List.replicate_succ]⟩

/-- after a branch of a chain has run, the driver skips the rest of the chain (C02) -/
theorem Driver.skip_tail (D : Driver prog α) : ∀ (tail : STail) (k : List Stmt) (s : St) (fl : List Bool) (F : Nat) (r : Res α),
    tail.WF → notElse k → s.flags = true :: fl → D.run F (tail.flatten ++ k) s = r → r ≠ .fuel →
    ∃ F', F' ≤ F ∧ D.run F' k (popFlagIf tail s) = r
  | .none, k, s, fl, F, r, _, _, _, h, _ => ⟨F, Nat.le_refl _, by simpa [STail.flatten, popFlagIf] using h⟩
  | .else em body, k, s, fl, F, r, hw, hk, hf, h, hr => by
      simp only [STail.flatten, List.cons_append] at h
      obtain ⟨F1, rfl, _, h2⟩ := D.unstep (by simp [Stmt.isStop]) h hr
      have h3 := else_skips_else prog F1 em body k s fl hw hf
      rw [h3] at h2
      refine ⟨F1+1, by omega, ?_⟩
      rw [h2]
      cases k with
      | nil => simp [Res.bind, popFlagIf, hf]
      | cons st t => cases st <;> simp_all [notElse, Res.bind, popFlagIf]
  | .elseIf em c m body tail, k, s, fl, F, r, hw, hk, hf, h, hr => by
      simp only [STail.flatten, List.cons_append, List.append_assoc] at h
      obtain ⟨F1, rfl, _, h2⟩ := D.unstep (by simp [Stmt.isStop]) h hr
      have h3 := else_skips_elseIf prog F1 em m c body (tail.flatten ++ k) s fl hw.1 hf
      rw [h3] at h2
      cases tail with
      | none =>
        refine ⟨F1+1, by omega, ?_⟩
        rw [h2]
        simp only [STail.flatten, List.nil_append]
        cases k with
        | nil => simp [Res.bind, popFlagIf, hf]
        | cons st t => cases st <;> simp_all [notElse, Res.bind, popFlagIf]
      | «else» em2 body2 =>
        simp only [STail.flatten, List.cons_append, Res.bind] at h2
        obtain ⟨F', hF', h4⟩ := D.skip_tail (.else em2 body2) k s fl (F1+1) r hw.2 hk hf (by simpa [STail.flatten] using h2.symm) hr
        exact ⟨F', by omega, by simpa [popFlagIf] using h4⟩
      | elseIf em2 c2 m2 body2 tail2 =>
        simp only [STail.flatten, List.cons_append, List.append_assoc, Res.bind] at h2
        obtain ⟨F', hF', h4⟩ := D.skip_tail (.elseIf em2 c2 m2 body2 tail2) k s fl (F1+1) r hw.2 hk hf
          (by simpa [STail.flatten] using h2.symm) hr
        exact ⟨F', by omega, by simpa [popFlagIf] using h4⟩
end
end Pakhi
