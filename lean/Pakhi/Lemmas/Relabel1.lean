import Pakhi.Model.Interp
namespace Pakhi
section
variable (σ : Meta → Meta)

/-- relabel a source location -/
def relTok (t : Token) : Token := { t with line := (σ ⟨t.line, t.file⟩).line, file := (σ ⟨t.line, t.file⟩).file }

mutual
def relE : Expr → Expr
  | .indexing e i m => .indexing (relE e) (relE i) (σ m)
  | .or l r m => .or (relE l) (relE r) (σ m)
  | .and l r m => .and (relE l) (relE r) (σ m)
  | .equality op l r m => .equality op (relE l) (relE r) (σ m)
  | .comparison op l r m => .comparison op (relE l) (relE r) (σ m)
  | .addsub op l r m => .addsub op (relE l) (relE r) (σ m)
  | .muldiv op l r m => .muldiv op (relE l) (relE r) (σ m)
  | .unary op r m => .unary op (relE r) (σ m)
  | .call f args m => .call (relE f) (relEs args) (σ m)
  | .nil m => .nil (σ m)
  | .bool b m => .bool b (σ m)
  | .num b m => .num b (σ m)
  | .str s m => .str s (σ m)
  | .list es m => .list (relEs es) (σ m)
  | .record ks vs m => .record (relEs ks) (relEs vs) (σ m)
  | .var tok m => .var (relTok σ tok) (σ m)
  | .group e m => .group (relE e) (σ m)
def relEs : Exprs → Exprs
  | .nil => .nil
  | .cons e es => .cons (relE e) (relEs es)
end

def relA (a : Assignment) : Assignment :=
  { kind := a.kind, var := relTok σ a.var, indexes := a.indexes.map (relE σ), init := a.init.map (relE σ) }

def relS : Stmt → Stmt
  | .print e m => .print (relE σ e) (σ m)
  | .printNoEOL e m => .printNoEOL (relE σ e) (σ m)
  | .assign a m => .assign (relA σ a) (σ m)
  | .expr e m => .expr (relE σ e) (σ m)
  | .blockStart m => .blockStart (σ m)
  | .blockEnd m => .blockEnd (σ m)
  | .funcDef m => .funcDef (σ m)
  | .ret e m => .ret (relE σ e) (σ m)
  | .if c m => .if (relE σ c) (σ m)
  | .loop m => .loop (σ m)
  | .cont m => .cont (σ m)
  | .brk m => .brk (σ m)
  | .else m => .else (σ m)
  | .eos m => .eos (σ m)

abbrev relL (l : List Stmt) : List Stmt := l.map (relS σ)

/-- a located error with its location relabelled; an unlocated one (`UnexpectedError`) as it is -/
def relErr (e : PErr) : PErr :=
  if e.cls == .unexpected then e else { e with line := (σ ⟨e.line, e.file⟩).line, file := (σ ⟨e.line, e.file⟩).file }

def Res.rel {α : Type} (g : α → α) : Res α → Res α
  | .ok a => .ok (g a)
  | .err e => .err (relErr σ e)
  | .panic p => .panic p
  | .fuel => .fuel

def relSt (s : St) : St := { s with loops := s.loops.map (fun l => { l with start := relL σ l.start }) }

theorem relE_meta : ∀ (e : Expr), (relE σ e).meta = σ e.meta := by
  intro e; cases e <;> rfl

theorem relS_meta : ∀ (s : Stmt), (relS σ s).meta = σ s.meta := by
  intro s; cases s <;> rfl

theorem Res.rel_bind {α β : Type} (g : α → α) (g' : β → β) (r : Res α) (k k' : α → Res β)
    (hk : ∀ a, k' (g a) = (k a).rel σ g') : (r.rel σ g).bind k' = (r.bind k).rel σ g' := by
  cases r <;> simp [Res.rel, Res.bind, hk]

theorem relErr_tag (e : PErr) (o : List Out) : relErr σ { e with out := o } = { relErr σ e with out := o } := by
  simp only [relErr]; split <;> rfl

theorem rel_tagOut {α : Type} (g : α → α) (o : List Out) (x x' : Res α) (hx : x' = x.rel σ g) :
    x'.tagOut o = (x.tagOut o).rel σ g := by
  subst hx
  cases x with
  | ok a => rfl
  | err e => simp only [Res.rel, Res.tagOut, relErr]; split <;> rfl
  | panic p => rfl
  | fuel => rfl

theorem rel_metaErr {α : Type} (g : α → α) (m : Meta) (c : ErrClass) (t : String) (hc : c ≠ .unexpected) :
    (metaErr (σ m) c t : Res α) = (metaErr m c t : Res α).rel σ g := by
  cases c <;> simp_all [metaErr, mkErr, Res.rel, relErr]

theorem rel_unexpected {α : Type} (g : α → α) (t : String) : (unexpected t : Res α) = (unexpected t : Res α).rel σ g := by
  simp [unexpected, Res.rel, relErr]

theorem rel_stmtErr {α : Type} (g : α → α) (cur : List Stmt) (c : ErrClass) (t : String) (hc : c ≠ .unexpected) :
    (stmtErr (relL σ cur) c t : Res α) = (stmtErr cur c t : Res α).rel σ g := by
  cases cur with
  | nil => simp [stmtErr, unexpected, Res.rel, relErr]
  | cons st rest =>
    simp only [stmtErr, List.map_cons, relS_meta]
    cases c <;> simp_all [mkErr, Res.rel, relErr]
end
end Pakhi
