import Pakhi.Lemmas.Relabel1
namespace Pakhi
section
variable (σ : Meta → Meta)

/-- tactic for the pure operations: unfold, split every match, each leaf is `rfl` or a relabelled `metaErr` -/
macro "relop" : tactic => `(tactic| (repeat' split) <;> first | rfl | exact rel_metaErr _ _ _ _ _ (by decide))

theorem rel_unaryOp (op : TK) (m : Meta) (v : Val) : unaryOp op (σ m) v = (unaryOp op m v).rel σ id := by
  simp only [unaryOp]; relop
theorem rel_andOr (isAnd : Bool) (m : Meta) (l r : Val) : andOr isAnd (σ m) l r = (andOr isAnd m l r).rel σ id := by
  simp only [andOr]; relop
theorem rel_equality (op : TK) (m : Meta) (l r : Val) : equality op (σ m) l r = (equality op m l r).rel σ id := by
  simp only [equality]; relop
theorem rel_compare (op : TK) (m : Meta) (l r : Val) : compare op (σ m) l r = (compare op m l r).rel σ id := by
  simp only [compare]; relop
theorem rel_mulDiv (op : TK) (m : Meta) (l r : Val) : mulDiv op (σ m) l r = (mulDiv op m l r).rel σ id := by
  simp only [mulDiv]; relop
theorem rel_addSub (op : TK) (m : Meta) (l r : Val) (h : Heap) : addSub op (σ m) l r h = (addSub op m l r h).rel σ id := by
  simp only [addSub]; relop
theorem rel_indexVal (m : Meta) (c i : Val) (h : Heap) : indexVal (σ m) c i h = (indexVal m c i h).rel σ id := by
  simp only [indexVal]; relop

theorem rel_skipBlock : ∀ (cur : List Stmt) (d : Nat), skipBlock (relL σ cur) d = (skipBlock cur d).rel σ (relL σ)
  | [], d => rfl
  | st :: r, d => by
      cases st <;> simp only [List.map_cons, relS, skipBlock] <;> first
        | exact rel_skipBlock r _
        | (split
           · exact rel_metaErr _ _ _ _ _ (by decide)
           · split
             · rfl
             · exact rel_skipBlock r _)

theorem rel_skipBlockInIf (cur : List Stmt) (fl : List Bool) :
    skipBlockInIf (relL σ cur) fl = (skipBlockInIf cur fl).rel σ (fun x => (relL σ x.1, x.2)) := by
  simp only [skipBlockInIf, rel_skipBlock]
  cases skipBlock cur 0 with
  | ok c =>
    simp only [Res.rel]
    cases c with
    | nil => rfl
    | cons st r => cases st <;> rfl
  | err e => rfl
  | panic p => rfl
  | fuel => rfl

theorem rel_breakScan (brk : Meta) : ∀ (cur : List Stmt) (d : Nat), breakScan (σ brk) (relL σ cur) d = (breakScan brk cur d).rel σ (relL σ)
  | [], d => by simp only [List.map_nil, breakScan]; exact rel_metaErr _ _ _ _ _ (by decide)
  | st :: r, d => by
      cases st <;> simp only [List.map_cons, relS, breakScan] <;> first
        | exact rel_breakScan brk r _
        | exact rel_metaErr _ _ _ _ _ (by decide)
        | (split
           · rfl
           · exact rel_breakScan brk r _)

theorem rel_stripGroups : ∀ (e : Expr), stripGroups (relE σ e) = relE σ (stripGroups e)
  | .group e m => by simp only [relE, stripGroups]; exact rel_stripGroups e
  | .indexing .. | .or .. | .and .. | .equality .. | .comparison .. | .addsub .. | .muldiv .. | .unary .. | .call ..
  | .nil _ | .bool .. | .num .. | .str .. | .list .. | .record .. | .var .. => by simp [relE, stripGroups]

end
end Pakhi
