import Pakhi.Lemmas.Relabel2
namespace Pakhi
section
variable (σ : Meta → Meta)

@[simp] theorem relSt_scopes (s : St) : (relSt σ s).scopes = s.scopes := rfl
@[simp] theorem relSt_heap (s : St) : (relSt σ s).heap = s.heap := rfl
@[simp] theorem relSt_out (s : St) : (relSt σ s).out = s.out := rfl
@[simp] theorem relSt_flags (s : St) : (relSt σ s).flags = s.flags := rfl
@[simp] theorem relSt_world (s : St) : (relSt σ s).world = s.world := rfl
@[simp] theorem relSt_gcCount (s : St) : (relSt σ s).gcCount = s.gcCount := rfl
@[simp] theorem relSt_loops (s : St) : (relSt σ s).loops = s.loops.map (fun l => { l with start := relL σ l.start }) := rfl
theorem relSt_emit (s : St) (t : Str) : (relSt σ s).emit t = relSt σ (s.emit t) := rfl
theorem relSt_mark (s : St) (m : Out) : (relSt σ s).mark m = relSt σ (s.mark m) := rfl

theorem rel_curErr {α : Type} (g : α → α) (cur : List Stmt) (s : St) (msg : Str) :
    (curErr (relL σ cur) (relSt σ s) msg : Res α) = (curErr cur s msg : Res α).rel σ g := by
  cases cur with
  | nil => simp [curErr, unexpected, Res.tagOut, Res.rel, relErr]
  | cons st rest => simp [curErr, relS_meta, Res.rel, relErr]

theorem rel_stmtErr_tag {α : Type} (g : α → α) (cur : List Stmt) (c : ErrClass) (t : String) (o : List Out) (hc : c ≠ .unexpected) :
    (stmtErr (relL σ cur) c t : Res α).tagOut o = ((stmtErr cur c t : Res α).tagOut o).rel σ g :=
  rel_tagOut σ g o _ _ (rel_stmtErr σ g cur c t hc)
theorem rel_metaErr_tag {α : Type} (g : α → α) (m : Meta) (c : ErrClass) (t : String) (o : List Out) (hc : c ≠ .unexpected) :
    (metaErr (σ m) c t : Res α).tagOut o = ((metaErr m c t : Res α).tagOut o).rel σ g :=
  rel_tagOut σ g o _ _ (rel_metaErr σ g m c t hc)
theorem rel_unexpected_tag {α : Type} (g : α → α) (t : String) (o : List Out) :
    (unexpected t : Res α).tagOut o = ((unexpected t : Res α).tagOut o).rel σ g :=
  rel_tagOut σ g o _ _ (rel_unexpected σ g t)

theorem rel_print (cur : List Stmt) : ∀ (f : Nat),
    (∀ v s, printVal (relL σ cur) f v (relSt σ s) = (printVal cur f v s).rel σ (relSt σ)) ∧
    (∀ xs first s, printElems (relL σ cur) f xs first (relSt σ s) = (printElems cur f xs first s).rel σ (relSt σ)) ∧
    (∀ xs s, printEntries (relL σ cur) f xs (relSt σ s) = (printEntries cur f xs s).rel σ (relSt σ))
  | 0 => by simp [printVal, printElems, printEntries, Res.rel]
  | f+1 => by
      obtain ⟨i1, i2, i3⟩ := rel_print cur f
      refine ⟨?_, ?_, ?_⟩
      · intro v s
        cases v with
        | num n =>
          simp only [printVal, relSt_out]; split
          · rfl
          · exact rel_stmtErr_tag σ _ cur _ _ _ (by decide)
        | bool x => rfl
        | str t => rfl
        | list i =>
          simp only [printVal, relSt_heap]
          cases hl : s.heap.lists[i]? with
          | none => rfl
          | some l =>
            simp only [relSt_emit]
            rw [i2]
            cases printElems cur f l true (s.emit ['[']) <;> rfl
        | record i =>
          simp only [printVal, relSt_heap]
          cases hr : s.heap.records[i]? with
          | none => rfl
          | some r =>
            simp only [relSt_emit, relSt_mark]
            rw [i3]
            cases printEntries cur f r ((s.emit ['@', '{']).mark .recStart) <;> rfl
        | func _ _ => simp only [printVal, relSt_out]; exact rel_stmtErr_tag σ _ cur _ _ _ (by decide)
        | nil => simp only [printVal, relSt_out]; exact rel_stmtErr_tag σ _ cur _ _ _ (by decide)
      · intro xs first s
        cases xs with
        | nil => rfl
        | cons x xs =>
          simp only [printElems]
          have e : (if first = true then relSt σ s else (relSt σ s).emit W.sepCommaSpace) = relSt σ (if first = true then s else s.emit W.sepCommaSpace) := by
            cases first <;> rfl
          rw [e, i1]
          cases printVal cur f x (if first = true then s else s.emit W.sepCommaSpace) with
          | ok s1 => exact i2 xs false s1
          | err e => rfl
          | panic p => rfl
          | fuel => rfl
      · intro xs s
        cases xs with
        | nil => rfl
        | cons kx xs =>
          obtain ⟨k, x⟩ := kx
          simp only [printEntries]
          have e : ((relSt σ s).mark .entStart).emit ('"' :: k ++ ['"', ':']) = relSt σ ((s.mark .entStart).emit ('"' :: k ++ ['"', ':'])) := rfl
          rw [e, i1]
          cases printVal cur f x ((s.mark .entStart).emit ('"' :: k ++ ['"', ':'])) with
          | ok s1 => exact i3 xs ((s1.emit [',']).mark .entEnd)
          | err e => rfl
          | panic p => rfl
          | fuel => rfl

theorem rel_printTop (cur : List Stmt) (f : Nat) (eol : Bool) (v : Val) (s : St) :
    printTop (relL σ cur) f eol v (relSt σ s) = (printTop cur f eol v s).rel σ (relSt σ) := by
  simp only [printTop, relSt_out]
  split
  · exact rel_stmtErr_tag σ _ cur _ _ _ (by decide)
  · exact rel_stmtErr_tag σ _ cur _ _ _ (by decide)
  · rw [(rel_print σ cur f).1]
    cases printVal cur f v s with
    | ok s1 => cases eol <;> rfl
    | err e => rfl
    | panic p => rfl
    | fuel => rfl

theorem rel_callB_inl (k : Builtin) (args : List Val) (s : St) (v : Val) (s' : St)
    (h : callB k args s = .inl (v, s')) : callB k args (relSt σ s) = .inl (v, relSt σ s') := by
  cases k <;> simp only [callB, relSt_heap, relSt_world] at h ⊢ <;> (repeat' split at h) <;> (try (simp at h; done))
  all_goals (simp at h; obtain ⟨rfl, rfl⟩ := h; simp_all [relSt])

theorem rel_callB_inr (k : Builtin) (args : List Val) (s : St) (t : Str)
    (h : callB k args s = .inr t) : callB k args (relSt σ s) = .inr t := by
  cases k <;> simp only [callB, relSt_heap, relSt_world] at h ⊢ <;> (repeat' split at h) <;> (try (simp at h; done))
  all_goals (simp at h; subst h; simp_all)

theorem rel_callBuiltin_inl (n : Str) (args : List Val) (s : St) (v : Val) (s' : St)
    (h : callBuiltin n args s = .inl (v, s')) : callBuiltin n args (relSt σ s) = .inl (v, relSt σ s') := by
  simp only [callBuiltin] at h ⊢
  split at h
  · rename_i k hk; exact rel_callB_inl σ k args s v s' h
  · simp at h
theorem rel_callBuiltin_inr (n : Str) (args : List Val) (s : St) (t : Str)
    (h : callBuiltin n args s = .inr t) : callBuiltin n args (relSt σ s) = .inr t := by
  simp only [callBuiltin] at h ⊢
  split at h
  · rename_i k hk; exact rel_callB_inr σ k args s t h
  · exact h

theorem rel_assignPath (cur : List Stmt) (v : Val) : ∀ (ixs : List Index) (c : Val) (h : Heap),
    assignPath (relL σ cur) c ixs v h = (assignPath cur c ixs v h).rel σ id
  | [], c, h => rfl
  | ix :: rest, c, h => by
      simp only [assignPath]
      repeat' split
      all_goals first
        | rfl
        | exact rel_stmtErr σ _ cur _ _ (by decide)
        | exact rel_assignPath cur v rest _ h
end
end Pakhi
