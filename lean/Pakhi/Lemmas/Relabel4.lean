import Pakhi.Lemmas.Relabel3
namespace Pakhi
section
variable (σ : Meta → Meta)

@[simp] theorem relTok_lexeme (t : Token) : (relTok σ t).lexeme = t.lexeme := rfl

theorem rel_paramNames : ∀ (args : Exprs), paramNames (relEs σ args) = paramNames args
  | .nil => rfl
  | .cons e r => by
      cases e <;> simp only [relEs, relE, paramNames] <;> first | rfl | (rw [rel_paramNames r]; rfl)

theorem rel_bodyOf (prog : List Stmt) (rem : Nat) : bodyOf (relL σ prog) rem = relL σ (bodyOf prog rem) := by
  simp [bodyOf, List.map_drop]

theorem rel_getLast (prog : List Stmt) : (relL σ prog).getLast? = prog.getLast?.map (relS σ) := by
  simp [List.getLast?_map]

@[simp] theorem Res.rel_ok {α : Type} (g : α → α) (a : α) : (Res.ok a).rel σ g = .ok (g a) := rfl
@[simp] theorem Res.rel_err {α : Type} (g : α → α) (e : PErr) : (Res.err e : Res α).rel σ g = .err (relErr σ e) := rfl
@[simp] theorem Res.rel_panic {α : Type} (g : α → α) (p : String) : (Res.panic p : Res α).rel σ g = .panic p := rfl
@[simp] theorem Res.rel_fuel {α : Type} (g : α → α) : (Res.fuel : Res α).rel σ g = .fuel := rfl

theorem rel_execFuncDef (prog rest : List Stmt) (s : St) :
    execFuncDef (relL σ prog) (relL σ rest) (relSt σ s) = (execFuncDef prog rest s).rel σ (fun x => (relL σ x.1, relSt σ x.2)) := by
  cases rest with
  | nil => simp only [List.map_nil, execFuncDef]; exact rel_stmtErr σ _ [] _ _ (by decide)
  | cons st body =>
    cases st
    case expr e m =>
      cases e
      case call callee args cm =>
        cases callee
        case var ftok vm =>
          simp only [List.map_cons, relS, relE, execFuncDef, rel_paramNames, relSt_scopes, relTok_lexeme, List.length_map]
          cases hp : paramNames args with
          | none => simp only []; exact rel_metaErr σ _ _ .runtime _ (by decide)
          | some params =>
            simp only []
            cases hsc : s.scopes with
            | nil => rfl
            | cons sc0 scr =>
              simp only [declareVar, rel_skipBlock σ body 0]
              cases hs : skipBlock body 0 with
              | ok after =>
                simp only [Res.rel_ok]
                cases after with
                | nil => simp only [List.map_nil]; exact rel_unexpected σ _ _
                | cons a after' =>
                  cases a <;> simp only [List.map_cons, relS] <;> first
                    | rfl
                    | (rw [rel_getLast]; cases prog.getLast? with
                       | none => simp only [Option.map]; exact rel_unexpected σ _ _
                       | some l => simp only [Option.map, relS_meta]; exact rel_metaErr σ _ l.meta .runtime _ (by decide))
              | err e => rfl
              | panic p => rfl
              | fuel => rfl
        all_goals (simp only [List.map_cons, relS, relE, execFuncDef]; exact rel_metaErr σ _ _ .runtime _ (by decide))
      all_goals (simp only [List.map_cons, relS, relE, execFuncDef, stmtErr, Stmt.meta]; exact rel_metaErr σ _ ⟨_, _⟩ .runtime _ (by decide))
    all_goals (simp only [List.map_cons, relS, execFuncDef, stmtErr, Stmt.meta]; exact rel_metaErr σ _ ⟨_, _⟩ .runtime _ (by decide))
end
end Pakhi
