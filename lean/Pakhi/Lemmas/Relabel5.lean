import Pakhi.Lemmas.Relabel4
namespace Pakhi
section
variable (σ : Meta → Meta) (prog : List Stmt)

abbrev gV {α : Type} : α × St → α × St := fun x => (x.1, relSt σ x.2)
abbrev gC : List Stmt × St → List Stmt × St := fun x => (relL σ x.1, relSt σ x.2)

/-- **source locations are labels**: running the relabelled program is the relabelled run -/
structure RLInv (f : Nat) : Prop where
  eval : ∀ cur e s, eval (relL σ prog) f (relL σ cur) (relE σ e) (relSt σ s) = (eval prog f cur e s).rel σ (gV σ)
  evalBin : ∀ cur lf op op' l r s, (∀ a b, op' a b = (op a b).rel σ id) →
    evalBin (relL σ prog) f (relL σ cur) lf op' (relE σ l) (relE σ r) (relSt σ s) = (evalBin prog f cur lf op l r s).rel σ (gV σ)
  evalList : ∀ cur es s, evalList (relL σ prog) f (relL σ cur) (relEs σ es) (relSt σ s) = (evalList prog f cur es s).rel σ (gV σ)
  evalRecord : ∀ cur ks vs acc s, evalRecord (relL σ prog) f (relL σ cur) (relEs σ ks) (relEs σ vs) acc (relSt σ s) = (evalRecord prog f cur ks vs acc s).rel σ (gV σ)
  evalCall : ∀ cur callee args s, evalCall (relL σ prog) f (relL σ cur) (relE σ callee) (relEs σ args) (relSt σ s) = (evalCall prog f cur callee args s).rel σ (gV σ)
  bindParams : ∀ cur params args env s, bindParams (relL σ prog) f (relL σ cur) params (relEs σ args) env (relSt σ s) = (bindParams prog f cur params args env s).rel σ (gV σ)
  callLoop : ∀ cur s, callLoop (relL σ prog) f (relL σ cur) (relSt σ s) = (callLoop prog f cur s).rel σ (gV σ)
  exec : ∀ cur s, exec (relL σ prog) f (relL σ cur) (relSt σ s) = (exec prog f cur s).rel σ (gC σ)
  execAssign : ∀ cur a s, execAssign (relL σ prog) f (relL σ cur) (relA σ a) (relSt σ s) = (execAssign prog f cur a s).rel σ (relSt σ)
  evalIndexes : ∀ cur ixs s, evalIndexes (relL σ prog) f (relL σ cur) (ixs.map (relE σ)) (relSt σ s) = (evalIndexes prog f cur ixs s).rel σ (gV σ)

theorem rlInv_zero : RLInv σ prog 0 := by
  constructor <;> intros <;> simp only [eval, evalBin, evalList, evalRecord, evalCall, bindParams, callLoop, exec, execAssign, evalIndexes] <;> rfl

omit prog in
theorem rel_tag_bind {α β : Type} (g' : β → β) (o : List Out) (x x' : Res α) (k k' : α → Res β)
    (hx : x' = x.rel σ id) (hk : ∀ a, k' a = (k a).rel σ g') : (x'.tagOut o).bind k' = ((x.tagOut o).bind k).rel σ g' := by
  subst hx
  cases x with
  | ok a => simp [Res.tagOut, Res.bind, Res.rel, hk]
  | err e => simp only [Res.rel, Res.tagOut, Res.bind, relErr]; split <;> rfl
  | panic p => rfl
  | fuel => rfl

omit prog in
theorem rel_tag_bind2 {α β : Type} (g : α → α) (g' : β → β) (o : List Out) (x x' : Res α) (k k' : α → Res β)
    (hx : x' = x.rel σ g) (hk : ∀ a, k' (g a) = (k a).rel σ g') : (x'.tagOut o).bind k' = ((x.tagOut o).bind k).rel σ g' := by
  subst hx
  cases x with
  | ok a => simp [Res.tagOut, Res.bind, Res.rel, hk]
  | err e => simp only [Res.rel, Res.tagOut, Res.bind, relErr]; split <;> rfl
  | panic p => rfl
  | fuel => rfl

set_option hygiene false in
macro "rlm" : tactic => `(tactic| repeat' (first
  | rfl
  | exact ih.eval _ _ _
  | exact ih.evalList _ _ _
  | exact ih.evalRecord _ _ _ _ _
  | exact ih.evalCall _ _ _ _
  | exact ih.bindParams _ _ _ _ _
  | exact ih.callLoop _ _
  | exact ih.exec _ _
  | exact ih.execAssign _ _ _
  | exact ih.evalIndexes _ _ _
  | exact rel_stmtErr_tag _ _ _ _ _ _ (by decide)
  | exact rel_metaErr_tag _ _ _ _ _ _ (by decide)
  | exact rel_unexpected_tag _ _ _ _
  | exact rel_curErr _ _ _ _ _
  | exact rel_unaryOp _ _ _ _
  | exact rel_andOr _ _ _ _ _
  | exact rel_equality _ _ _ _ _
  | exact rel_compare _ _ _ _ _
  | exact rel_mulDiv _ _ _ _ _
  | exact rel_addSub _ _ _ _ _ _
  | exact rel_indexVal _ _ _ _ _
  | exact rel_assignPath _ _ _ _ _ _
  | (rw [ih.eval]; refine Res.rel_bind _ _ _ _ _ _ ?_)
  | (rw [ih.evalList]; refine Res.rel_bind _ _ _ _ _ _ ?_)
  | (rw [ih.evalRecord]; refine Res.rel_bind _ _ _ _ _ _ ?_)
  | (rw [ih.bindParams]; refine Res.rel_bind _ _ _ _ _ _ ?_)
  | (rw [ih.callLoop]; refine Res.rel_bind _ _ _ _ _ _ ?_)
  | (rw [ih.exec]; refine Res.rel_bind _ _ _ _ _ _ ?_)
  | (rw [ih.execAssign]; refine Res.rel_bind _ _ _ _ _ _ ?_)
  | (rw [ih.evalIndexes]; refine Res.rel_bind _ _ _ _ _ _ ?_)
  | (rw [rel_printTop]; refine Res.rel_bind _ _ _ _ _ _ ?_)
  | (refine rel_tag_bind _ _ _ _ _ _ _ ?_ ?_)
  | (intro a; obtain ⟨_, _⟩ := a; simp only [relSt_scopes, relSt_heap, relSt_flags, relSt_world, relSt_out, relSt_gcCount, relE_meta])
  | (intro a; simp only [relSt_scopes, relSt_heap, relSt_flags, relSt_world, relSt_out, relSt_gcCount, relE_meta])
  | intro a
  | split))

theorem rlInv_succ (f : Nat) (ih : RLInv σ prog f) : RLInv σ prog (f+1) := by
  constructor
  · intro cur e s
    cases e <;> simp only [relE, eval, relSt_scopes, relSt_heap, relSt_flags, relSt_world, relSt_out, relE_meta, relTok_lexeme]
    all_goals first
      | (refine ih.evalBin _ _ _ _ _ _ _ ?_; intro a b; first | exact rel_andOr _ _ _ _ _ | exact rel_equality _ _ _ _ _ | exact rel_compare _ _ _ _ _ | exact rel_mulDiv _ _ _ _ _)
      | rlm
  · intro cur lf op op' l r s hop
    simp only [evalBin, relSt_out]
    split
    · rw [ih.eval]; refine Res.rel_bind _ _ _ _ _ _ ?_
      rintro ⟨a, s1⟩
      simp only []
      rw [ih.eval]; refine Res.rel_bind _ _ _ _ _ _ ?_
      rintro ⟨b, s2⟩
      simp only [relSt_out]
      refine rel_tag_bind _ _ _ _ _ _ _ (hop a b) ?_
      intro v; rfl
    · rw [ih.eval]; refine Res.rel_bind _ _ _ _ _ _ ?_
      rintro ⟨b, s1⟩
      simp only []
      rw [ih.eval]; refine Res.rel_bind _ _ _ _ _ _ ?_
      rintro ⟨a, s2⟩
      simp only [relSt_out]
      refine rel_tag_bind _ _ _ _ _ _ _ (hop a b) ?_
      intro v; rfl
  · intro cur es s
    cases es <;> simp only [relEs, evalList] <;> rlm
  · intro cur ks vs acc s
    cases ks <;> cases vs <;> simp only [relEs, evalRecord] <;> rlm
  · intro cur callee args s
    simp only [evalCall, rel_stripGroups, relSt_scopes]
    cases hcallee : stripGroups callee
    case var tok vm =>
      simp only [relE, relTok_lexeme]
      by_cases hb : isBuiltin tok.lexeme = true
      · simp only [hb, ↓reduceIte]
        rw [ih.evalList]; refine Res.rel_bind _ _ _ _ _ _ ?_
        rintro ⟨vs, s1⟩
        simp only [relSt_out]
        split
        · split
          · exact rel_curErr _ _ _ _ _
          · exact rel_stmtErr_tag _ _ _ _ _ _ (by decide)
        · cases hcb : callBuiltin tok.lexeme vs s1 with
          | inl r =>
            obtain ⟨v, s'⟩ := r
            rw [rel_callBuiltin_inl σ _ _ _ _ _ hcb]; rfl
          | inr t =>
            rw [rel_callBuiltin_inr σ _ _ _ _ hcb]
            simp only
            split
            · rfl
            · exact rel_curErr _ _ _ _ _
      · simp only [hb, ↓reduceIte]
        cases hl : lookupVar s.scopes tok.lexeme with
        | none => exact rel_stmtErr_tag _ _ _ .runtime _ _ (by decide)
        | some fv =>
          cases fv
          case func rem params =>
            simp only []
            rw [ih.bindParams]; refine Res.rel_bind _ _ _ _ _ _ ?_
            rintro ⟨env, s1⟩
            simp only [relSt_scopes, relSt_out, rel_bodyOf]
            cases hbo : bodyOf prog rem with
            | nil => exact rel_unexpected_tag _ _ _ _
            | cons st body =>
              cases st
              case blockStart bm =>
                simp only [List.map_cons, relS]
                show (callLoop (relL σ prog) f (relL σ (Stmt.blockStart bm :: body)) (relSt σ { s1 with scopes := env :: s1.scopes })).bind _ = _
                rw [ih.callLoop]; refine Res.rel_bind _ _ _ _ _ _ ?_
                rintro ⟨v, s2⟩
                simp [relSt, List.map_drop]
              all_goals (simp only [List.map_cons, relS]; exact rel_unexpected_tag _ _ _ _)
          all_goals exact rel_metaErr_tag σ _ ⟨tok.line, tok.file⟩ .runtime _ _ (by decide)
    all_goals (simp only [relE]; exact rel_stmtErr_tag _ _ _ .runtime _ _ (by decide))
  · intro cur params args env s
    cases params <;> cases args <;> simp only [relEs, bindParams] <;> first | exact ih.bindParams _ _ .nil _ _ | rlm
  · intro cur s
    cases cur with
    | nil =>
      simp only [List.map_nil, callLoop]
      have h0 := ih.exec [] s
      simp only [List.map_nil] at h0
      rw [h0]; refine Res.rel_bind _ _ _ _ _ _ ?_
      rintro ⟨c, s1⟩; exact ih.callLoop _ _
    | cons st rest =>
      cases st <;> simp only [List.map_cons, relS, callLoop]
      all_goals first
        | exact ih.eval (_ :: _) _ _
        | (rw [← relS, ← List.map_cons]; rlm)
  · intro cur s
    cases cur with
    | nil => simp only [List.map_nil, exec, relSt_out]; exact rel_unexpected_tag _ _ _ _
    | cons st rest =>
      cases st
      case print e m =>
        simp only [List.map_cons, relS, exec]
        rw [show (Stmt.print (relE σ e) (σ m) :: List.map (relS σ) rest) = relL σ (Stmt.print e m :: rest) from rfl]
        rlm
      case printNoEOL e m =>
        simp only [List.map_cons, relS, exec]
        rw [show (Stmt.printNoEOL (relE σ e) (σ m) :: List.map (relS σ) rest) = relL σ (Stmt.printNoEOL e m :: rest) from rfl]
        rlm
      case expr e m =>
        simp only [List.map_cons, relS, exec]
        rw [show (Stmt.expr (relE σ e) (σ m) :: List.map (relS σ) rest) = relL σ (Stmt.expr e m :: rest) from rfl]
        rlm
      case assign a m =>
        simp only [List.map_cons, relS, exec]
        rw [show (Stmt.assign (relA σ a) (σ m) :: List.map (relS σ) rest) = relL σ (Stmt.assign a m :: rest) from rfl]
        rlm
      case «if» c m =>
        simp only [List.map_cons, relS, exec]
        rw [ih.eval]; refine Res.rel_bind _ _ _ _ _ _ ?_
        rintro ⟨v, s1⟩
        simp only [relSt_flags, relSt_out, relE_meta]
        split
        · rfl
        · refine rel_tag_bind2 σ _ _ _ _ _ _ _ (rel_skipBlockInIf σ rest _) ?_
          rintro ⟨c', fl⟩; rfl
        · exact rel_metaErr_tag _ _ _ .runtime _ _ (by decide)
      case «else» m =>
        simp only [List.map_cons, relS, exec, relSt_flags, relSt_out]
        split
        · exact rel_stmtErr_tag σ _ (Stmt.else m :: rest) .runtime _ _ (by decide)
        · refine rel_tag_bind2 σ _ _ _ _ _ _ _ (rel_skipBlockInIf σ rest _) ?_
          rintro ⟨c', fl⟩; rfl
        · rfl
      case funcDef m =>
        simp only [List.map_cons, relS, exec, relSt_out]
        exact rel_tagOut σ _ _ _ _ (rel_execFuncDef σ prog rest s)
      case loop m =>
        simp only [List.map_cons, relS, exec, relSt_scopes]; rfl
      case cont m =>
        simp only [List.map_cons, relS, exec, relSt_scopes, relSt_out, relSt_loops]
        cases hl : s.loops with
        | nil => exact rel_stmtErr_tag σ _ (Stmt.cont m :: rest) .runtime _ _ (by decide)
        | cons l ls => simp [relSt, Res.rel, hl]
      case brk m =>
        simp only [List.map_cons, relS, exec, relSt_scopes, relSt_out, relSt_loops]
        cases hl : s.loops with
        | nil =>
          simp only [List.map_nil]
          refine rel_tag_bind2 σ _ _ _ _ _ _ _ (rel_breakScan σ m rest _) ?_
          intro c'; simp [relSt, Res.rel, hl]
        | cons l ls =>
          simp only [List.map_cons]
          refine rel_tag_bind2 σ _ _ _ _ _ _ _ (rel_breakScan σ m rest _) ?_
          intro c'; simp [relSt, Res.rel, hl]
      case blockStart m => simp only [List.map_cons, relS, exec, relSt_scopes]; rfl
      case blockEnd m =>
        simp only [List.map_cons, relS, exec, relSt_scopes, relSt_out]
        split
        · exact rel_stmtErr_tag σ _ (Stmt.blockEnd m :: rest) .runtime _ _ (by decide)
        · rfl
      case ret e m =>
        simp only [List.map_cons, relS, exec, relSt_out]
        exact rel_stmtErr_tag σ _ (Stmt.ret e m :: rest) .runtime _ _ (by decide)
      case eos m =>
        simp only [List.map_cons, relS, exec, relSt_out]
        exact rel_stmtErr_tag σ _ (Stmt.eos m :: rest) .runtime _ _ (by decide)
  · intro cur a s
    obtain ⟨kind, var, indexes, init⟩ := a
    simp only [execAssign, relA, relTok_lexeme, relSt_scopes, relSt_out, relSt_heap]
    cases kind
    · cases init with
      | none => simp only [Option.map]; cases s.scopes <;> rfl
      | some e =>
        simp only [Option.map]
        rw [ih.eval]; refine Res.rel_bind _ _ _ _ _ _ ?_
        rintro ⟨v, s1⟩
        simp only [relSt_scopes]
        cases s1.scopes <;> rfl
    · cases init with
      | none => rfl
      | some e =>
        simp only [Option.map, List.isEmpty_map]
        rw [ih.eval]; refine Res.rel_bind _ _ _ _ _ _ ?_
        rintro ⟨v, s1⟩
        simp only [relSt_scopes, relSt_out]
        cases hl : lookupVar s1.scopes var.lexeme with
        | none => exact rel_stmtErr_tag _ _ _ .runtime _ _ (by decide)
        | some c0 =>
          simp only []
          by_cases hie : indexes.isEmpty = true
          · simp only [hie, ↓reduceIte]
            cases assignVar s1.scopes var.lexeme v <;> rfl
          · simp only [hie, ↓reduceIte]
            rw [ih.evalIndexes]; refine Res.rel_bind _ _ _ _ _ _ ?_
            rintro ⟨ixs, s2⟩
            simp only [relSt_scopes, relSt_out, relSt_heap]
            cases cur with
            | nil => exact rel_unexpected_tag _ _ _ _
            | cons st rest =>
              simp only [List.map_cons]
              cases hl2 : lookupVar s2.scopes var.lexeme with
              | none => exact rel_stmtErr_tag σ _ (st :: rest) .runtime _ _ (by decide)
              | some c1 =>
                simp only []
                refine rel_tag_bind σ _ _ _ _ _ _ (rel_assignPath σ (st :: rest) v ixs c1 s2.heap) ?_
                intro h; rfl
  · intro cur ixs s
    cases ixs <;> simp only [List.map_nil, List.map_cons, evalIndexes] <;> rlm
end
end Pakhi

namespace Pakhi
theorem rlInv (σ : Meta → Meta) (prog : List Stmt) : ∀ f, RLInv σ prog f
  | 0 => rlInv_zero σ prog
  | f+1 => rlInv_succ σ prog f (rlInv σ prog f)

/-- **source locations are labels, whole runs**: the run of the relabelled program is the relabelled run — same statements executed,
    same values, heap, output, collections and fuel; an error differs by its reported location only, and that location is the
    relabelling of the original one -/
theorem runLoop_relabel (σ : Meta → Meta) (prog : List Stmt) (g : GcMode) : ∀ (f k : Nat) (cur : List Stmt) (s : St),
    runLoop (relL σ prog) g f k (relL σ cur) (relSt σ s) = (runLoop prog g f k cur s).rel σ (relSt σ)
  | 0, _, _, _ => rfl
  | f+1, k, cur, s => by
      have step : ∀ (r : Res (List Stmt × St)),
          (match r.rel σ (gC σ) with
            | .ok (cur', s) =>
              if g.fires k s.heap then
                match collect s.scopes s.heap with
                | .ok h => runLoop (relL σ prog) g f (k+1) cur' { s with heap := h, gcCount := s.gcCount + 1 }
                | .panic p => .panic p
                | .fuel => .fuel
              else runLoop (relL σ prog) g f (k+1) cur' s
            | .err e => .err e | .panic p => .panic p | .fuel => .fuel) =
          (match r with
            | .ok (cur', s) =>
              if g.fires k s.heap then
                match collect s.scopes s.heap with
                | .ok h => runLoop prog g f (k+1) cur' { s with heap := h, gcCount := s.gcCount + 1 }
                | .panic p => .panic p
                | .fuel => .fuel
              else runLoop prog g f (k+1) cur' s
            | .err e => .err e | .panic p => .panic p | .fuel => .fuel).rel σ (relSt σ) := by
        intro r
        cases r with
        | ok x =>
          obtain ⟨cur', s1⟩ := x
          simp only [Res.rel_ok, relSt_heap, relSt_scopes, relSt_gcCount]
          by_cases hf : g.fires k s1.heap = true
          · simp only [hf, if_true]
            cases collect s1.scopes s1.heap with
            | ok h' => exact runLoop_relabel σ prog g f (k+1) cur' { s1 with heap := h', gcCount := s1.gcCount + 1 }
            | panic p => rfl
            | fuel => rfl
          · simp only [hf]
            exact runLoop_relabel σ prog g f (k+1) cur' s1
        | err e => rfl
        | panic p => rfl
        | fuel => rfl
      cases cur with
      | nil => rfl
      | cons st rest =>
        have hex := (rlInv σ prog f).exec (st :: rest) s
        cases st <;> first
          | rfl
          | (simp only [List.map_cons, relS, runLoop] at hex ⊢
             rw [hex]
             exact step _)
#print axioms runLoop_relabel
end Pakhi
