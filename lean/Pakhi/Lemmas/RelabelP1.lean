import Pakhi.Lemmas.Relabel5
import Pakhi.Model.Parser
namespace Pakhi
section
variable (σ : Meta → Meta)

/-- the parser state with every token relabelled -/
def relPS (s : PS) : PS := { rest := s.rest.map (relTok σ), prev := relTok σ s.prev, rel := s.rel }

abbrev gE : Expr × PS → Expr × PS := fun x => (relE σ x.1, relPS σ x.2)
abbrev gEs : Exprs × PS → Exprs × PS := fun x => (relEs σ x.1, relPS σ x.2)
abbrev gKV : Exprs × Exprs × PS → Exprs × Exprs × PS := fun x => (relEs σ x.1, relEs σ x.2.1, relPS σ x.2.2)

@[simp] theorem relTok_kind (t : Token) : (relTok σ t).kind = t.kind := rfl
@[simp] theorem relPS_rel (s : PS) : (relPS σ s).rel = s.rel := rfl
@[simp] theorem relPS_rest (s : PS) : (relPS σ s).rest = s.rest.map (relTok σ) := rfl
@[simp] theorem relPS_prev (s : PS) : (relPS σ s).prev = relTok σ s.prev := rfl
@[simp] theorem relPS_peek (s : PS) : (relPS σ s).peek = s.peek := by
  obtain ⟨rest, prev, rel⟩ := s; cases rest <;> rfl
@[simp] theorem relPS_peek1 (s : PS) : (relPS σ s).peek1 = s.peek1 := by
  obtain ⟨rest, prev, rel⟩ := s
  cases rest with
  | nil => rfl
  | cons a r => cases r <;> rfl
@[simp] theorem relPS_adv (s : PS) : (relPS σ s).adv = relPS σ s.adv := by
  obtain ⟨rest, prev, rel⟩ := s; cases rest <;> rfl
@[simp] theorem relPS_adv2 (s : PS) : (relPS σ s).adv2 = relPS σ s.adv2 := by
  simp [PS.adv2]

theorem relTok_meta (t : Token) : (⟨(relTok σ t).line, (relTok σ t).file⟩ : Meta) = σ ⟨t.line, t.file⟩ := rfl

theorem rel_metaCur (s : PS) : (relPS σ s).metaCur = s.metaCur.rel σ σ := by
  obtain ⟨rest, prev, rel⟩ := s
  cases rest with
  | nil => exact rel_unexpected σ _ _
  | cons t r => rfl

theorem rel_metaOf (s : PS) (t : Token) : (relPS σ s).metaOf (relTok σ t) = (s.metaOf t).rel σ σ := by
  obtain ⟨rest, prev, rel⟩ := s
  cases rest with
  | nil => exact rel_unexpected σ _ _
  | cons t r => rfl

theorem rel_metaPrev (s : PS) : (relPS σ s).metaPrev = s.metaPrev.rel σ σ := rel_metaOf σ s s.prev

theorem rel_syntaxErr {α : Type} (g : α → α) (s : PS) (tag : String) :
    ((relPS σ s).syntaxErr tag : Res α) = (s.syntaxErr tag : Res α).rel σ g := by
  obtain ⟨rest, prev, rel⟩ := s
  cases rest with
  | nil => simp [PS.syntaxErr, PS.metaCur, relPS, unexpected, Res.rel, relErr]
  | cons t r => simp [PS.syntaxErr, PS.metaCur, relPS, mkErr, Res.rel, relErr, relTok]

theorem rel_mkBin (k : Nat) (op : TK) (l r : Expr) (m : Meta) :
    mkBin k op (relE σ l) (relE σ r) (σ m) = relE σ (mkBin k op l r m) := by
  unfold mkBin
  split <;> simp only [relE]

structure PRInv (f : Nat) : Prop where
  pLevel : ∀ k s, pLevel f k (relPS σ s) = (pLevel f k s).rel σ (gE σ)
  pLevelLoop : ∀ k e s, pLevelLoop f k (relE σ e) (relPS σ s) = (pLevelLoop f k e s).rel σ (gE σ)
  pUnary : ∀ s, pUnary f (relPS σ s) = (pUnary f s).rel σ (gE σ)
  pCall : ∀ s, pCall f (relPS σ s) = (pCall f s).rel σ (gE σ)
  pCallLoop : ∀ e s, pCallLoop f (relE σ e) (relPS σ s) = (pCallLoop f e s).rel σ (gE σ)
  pFinishCall : ∀ e s, pFinishCall f (relE σ e) (relPS σ s) = (pFinishCall f e s).rel σ (gE σ)
  pArgs : ∀ s, pArgs f (relPS σ s) = (pArgs f s).rel σ (gEs σ)
  pPrimary : ∀ s, pPrimary f (relPS σ s) = (pPrimary f s).rel σ (gE σ)
  pIndexLoop : ∀ e s, pIndexLoop f (relE σ e) (relPS σ s) = (pIndexLoop f e s).rel σ (gE σ)
  pListElems : ∀ s, pListElems f (relPS σ s) = (pListElems f s).rel σ (gEs σ)
  pRecordElems : ∀ s, pRecordElems f (relPS σ s) = (pRecordElems f s).rel σ (gKV σ)

theorem prInv_zero : PRInv σ 0 := by
  constructor <;> intros <;> simp only [pLevel, pLevelLoop, pUnary, pCall, pCallLoop, pFinishCall, pArgs, pPrimary, pIndexLoop, pListElems, pRecordElems] <;> rfl

/-- split the result of the (already rewritten) recursive call and reduce the matches on it -/
macro "rsplit" t:term : tactic => `(tactic| (
  generalize $t = r
  cases r <;> simp only [Res.rel_ok, Res.rel_err, Res.rel_panic, Res.rel_fuel]))

theorem prInv_succ (f : Nat) (ih : PRInv σ f) : PRInv σ (f+1) := by
  constructor
  · intro k s
    simp only [pLevel]
    split
    · exact ih.pUnary s
    · rw [ih.pLevel]
      generalize pLevel f (k+1) s = r
      cases r with
      | ok x => obtain ⟨e, s1⟩ := x; exact ih.pLevelLoop k e s1
      | err e => rfl
      | panic p => rfl
      | fuel => rfl
  · intro k e s
    simp only [pLevelLoop, relPS_peek, relPS_adv]
    split
    · rw [ih.pLevel]; rsplit (pLevel _ _ _)
      rename_i x; obtain ⟨r1, s1⟩ := x
      simp only [rel_metaPrev]; rsplit (PS.metaPrev _)
      rename_i m
      rw [rel_mkBin]; exact ih.pLevelLoop k _ s1
    · rfl
  · intro s
    simp only [pUnary, relPS_peek, relPS_adv, rel_metaCur]
    split
    · rsplit (PS.metaCur _)
      rename_i m
      rw [ih.pUnary]; rsplit (pUnary _ _)
      rfl
    · exact ih.pCall s
  · intro s
    simp only [pCall]
    rw [ih.pPrimary]; rsplit (pPrimary _ _)
    rename_i x; obtain ⟨e, s1⟩ := x
    exact ih.pCallLoop e s1
  · intro e s
    simp only [pCallLoop, relPS_peek, relPS_adv]
    split
    · rw [ih.pFinishCall]; rsplit (pFinishCall _ _ _)
      rename_i x; obtain ⟨e1, s1⟩ := x
      exact ih.pCallLoop e1 s1
    · rfl
  · intro e s
    simp only [pFinishCall, relPS_peek, relPS_adv, rel_metaPrev]
    rsplit (PS.metaPrev _)
    rename_i m
    split
    · rw [ih.pArgs]; rsplit (pArgs _ _)
      rename_i x; obtain ⟨as, s1⟩ := x
      simp only [relPS_adv]; rfl
    · rfl
  · intro s
    simp only [pArgs]
    rw [ih.pLevel]; rsplit (pLevel _ _ _)
    rename_i x; obtain ⟨e, s1⟩ := x
    simp only [relPS_peek, relPS_adv]
    split
    · rw [ih.pArgs]; rsplit (pArgs _ _)
      rfl
    · rfl
  · intro s
    simp only [pPrimary, relPS_rest]
    cases hr : s.rest with
    | nil => simp only [List.map_nil]; exact rel_syntaxErr σ _ s _
    | cons t tl =>
      simp only [List.map_cons, relTok_kind, relPS_adv, rel_metaPrev, relPS_peek]
      cases hk : t.kind <;> simp only []
      case bool b => rsplit (PS.metaPrev _); rfl
      case num n => rsplit (PS.metaPrev _); rfl
      case str v => rsplit (PS.metaPrev _); rfl
      case ident => exact ih.pIndexLoop (.var t ⟨t.line, t.file⟩) s.adv
      case lparen =>
        rw [ih.pLevel]; rsplit (pLevel _ _ _)
        rename_i x; obtain ⟨e, s1⟩ := x
        simp only [relPS_adv, rel_metaOf]; rsplit (PS.metaOf _ _); rfl
      case lsq =>
        rw [ih.pListElems]; rsplit (pListElems _ _)
        rename_i x; obtain ⟨es, s1⟩ := x
        simp only [relPS_adv, rel_metaOf]; rsplit (PS.metaOf _ _); rfl
      case «at» =>
        split
        · exact rel_syntaxErr σ _ s.adv _
        · rw [ih.pRecordElems]; rsplit (pRecordElems _ _)
          rename_i x; obtain ⟨ks, vs, s1⟩ := x
          simp only [relPS_adv, rel_metaOf]; rsplit (PS.metaOf _ _); rfl
      all_goals exact rel_syntaxErr σ _ s _
  · intro e s
    simp only [pIndexLoop, relPS_rest]
    cases hr : s.rest with
    | nil => rfl
    | cons t tl =>
      simp only [List.map_cons, relTok_kind, relPS_adv]
      split
      · rw [ih.pLevel]; rsplit (pLevel _ _ _)
        rename_i x; obtain ⟨i, s1⟩ := x
        simp only [relPS_peek, relPS_adv, rel_metaOf]
        split
        · exact rel_syntaxErr σ _ s1 _
        · rsplit (PS.metaOf _ _)
          rename_i m
          exact ih.pIndexLoop (.indexing e i m) s1.adv
      · simp only [Res.rel_ok, gE, relPS, hr, List.map_cons]
  · intro s
    simp only [pListElems, relPS_peek]
    split
    · rfl
    · rw [ih.pLevel]; rsplit (pLevel _ _ _)
      rename_i x; obtain ⟨e, s1⟩ := x
      simp only [relPS_peek]
      have hs : (if s1.peek == TK.comma then (relPS σ s1).adv else relPS σ s1) = relPS σ (if s1.peek == TK.comma then s1.adv else s1) := by
        split <;> simp only [relPS_adv]
      rw [hs, ih.pListElems]; rsplit (pListElems _ _)
      rfl
  · intro s
    simp only [pRecordElems, relPS_peek]
    split
    · rfl
    · rw [ih.pLevel]; rsplit (pLevel _ _ _)
      rename_i x; obtain ⟨k, s1⟩ := x
      simp only [relPS_peek, relPS_adv]
      split
      · exact rel_syntaxErr σ _ s1 _
      · rw [ih.pLevel]; rsplit (pLevel _ _ _)
        rename_i x; obtain ⟨v, s2⟩ := x
        simp only [relPS_peek]
        have hs : (if s2.peek == TK.comma then (relPS σ s2).adv else relPS σ s2) = relPS σ (if s2.peek == TK.comma then s2.adv else s2) := by
          split <;> simp only [relPS_adv]
        rw [hs, ih.pRecordElems]; rsplit (pRecordElems _ _)
        rfl
end
end Pakhi
