import Pakhi.Lemmas.RelabelP1
namespace Pakhi
section
variable (σ : Meta → Meta)

theorem prInv : ∀ f, PRInv σ f
  | 0 => prInv_zero σ
  | f+1 => prInv_succ σ f (prInv f)

abbrev gS : Stmt × PS → Stmt × PS := fun x => (relS σ x.1, relPS σ x.2)

theorem rel_pExpr (s : PS) : pExpr (relPS σ s) = (pExpr s).rel σ (gE σ) := by
  simp only [pExpr, relPS_rest, List.length_map]
  exact (prInv σ _).pLevel 0 s

macro "rsplit" t:term : tactic => `(tactic| (
  generalize $t = r
  cases r <;> simp only [Res.rel_ok, Res.rel_err, Res.rel_panic, Res.rel_fuel]))

theorem rel_exprStmt (s : PS) : exprStmt (relPS σ s) = (exprStmt s).rel σ (gS σ) := by
  simp only [exprStmt, rel_metaCur]
  rsplit (PS.metaCur _)
  rw [rel_pExpr]; rsplit (pExpr _)
  rfl

theorem rel_printStmt (b : Bool) (s : PS) : printStmt b (relPS σ s) = (printStmt b s).rel σ (gS σ) := by
  simp only [printStmt, rel_metaCur, relPS_adv]
  rsplit (PS.metaCur _)
  rw [rel_pExpr]; rsplit (pExpr _)
  cases b <;> simp [relS]

theorem rel_oneTokenStmt (mk : Meta → Stmt) (hmk : ∀ m, mk (σ m) = relS σ (mk m)) (s : PS) :
    oneTokenStmt mk (relPS σ s) = (oneTokenStmt mk s).rel σ (gS σ) := by
  simp only [oneTokenStmt, relPS_adv, rel_metaPrev]
  rsplit (PS.metaPrev _)
  simp only [gS, hmk]

theorem rel_returnStmt (s : PS) : returnStmt (relPS σ s) = (returnStmt s).rel σ (gS σ) := by
  simp only [returnStmt, rel_metaCur, relPS_adv, relPS_peek]
  rsplit (PS.metaCur _)
  split
  · rw [rel_pExpr]; rsplit (pExpr _)
    simp [relS]
  · simp [relS, relE]

theorem rel_ifStmt (s : PS) : ifStmt (relPS σ s) = (ifStmt s).rel σ (gS σ) := by
  simp only [ifStmt, relPS_adv]
  rw [rel_pExpr]; rsplit (pExpr _)
  simp only [rel_metaPrev]; rsplit (PS.metaPrev _)
  rfl

theorem rel_stmtTail (st : Stmt) (s : PS) :
    (if ((relPS σ s).peek != TK.semi) = true then
        match (relPS σ s).rest with
        | [] => (unexpected "unexpected-error" : Res (Stmt × PS))
        | _ :: _ => mkErr .syntax (relPS σ s).prev.line (relPS σ s).prev.file "expected-semicolon"
      else .ok (relS σ st, (relPS σ s).adv)) =
    (if (s.peek != TK.semi) = true then
        match s.rest with
        | [] => (unexpected "unexpected-error" : Res (Stmt × PS))
        | _ :: _ => mkErr .syntax s.prev.line s.prev.file "expected-semicolon"
      else .ok (st, s.adv)).rel σ (gS σ) := by
  simp only [relPS_peek, relPS_rest, relPS_adv, relPS_prev]
  split
  · cases s.rest with
    | nil => exact rel_unexpected σ _ _
    | cons a b => simp [mkErr, Res.rel, relErr, relTok]
  · rfl

theorem rel_assignStmt (s : PS) : assignStmt (relPS σ s) = (assignStmt s).rel σ (gS σ) := by
  simp only [assignStmt, rel_metaCur, relPS_adv, relPS_rest]
  rsplit (PS.metaCur _)
  rename_i m
  cases hr : s.adv.rest with
  | nil => simp only [List.map_nil]; exact rel_syntaxErr σ _ s.adv _
  | cons v tl =>
    simp only [List.map_cons, relTok_kind, relPS_peek]
    split
    · exact rel_syntaxErr σ _ s.adv _
    · by_cases hsemi : (s.adv.adv.peek == TK.semi) = true
      · simp only [hsemi, ↓reduceIte]
        exact rel_stmtTail σ (.assign { kind := .first, var := v, indexes := [], init := none } m) s.adv.adv
      · simp only [hsemi, Bool.false_eq_true, ↓reduceIte]
        rw [rel_pExpr]; rsplit (pExpr _)
        rename_i x; obtain ⟨e, s1⟩ := x
        exact rel_stmtTail σ (.assign { kind := .first, var := v, indexes := [], init := some e } m) s1

abbrev gIx : List Expr × PS → List Expr × PS := fun x => (x.1.map (relE σ), relPS σ x.2)

theorem rel_reassignIndexes : ∀ (f : Nat) (s : PS), reassignIndexes f (relPS σ s) = (reassignIndexes f s).rel σ (gIx σ)
  | 0, _ => rfl
  | f+1, s => by
      simp only [reassignIndexes, relPS_peek]
      split
      · rfl
      · rw [rel_pExpr]; rsplit (pExpr _)
        rename_i x; obtain ⟨ix, s1⟩ := x
        cases ix <;> simp only [relE]
        case list es m =>
          rw [rel_reassignIndexes f s1]; rsplit (reassignIndexes _ _)
          rfl
        all_goals exact rel_syntaxErr σ _ s1 _

theorem rel_reassignOrCallStmt (s : PS) : reassignOrCallStmt (relPS σ s) = (reassignOrCallStmt s).rel σ (gS σ) := by
  simp only [reassignOrCallStmt, rel_metaCur, relPS_peek1]
  rsplit (PS.metaCur _)
  rename_i m
  split
  · rw [rel_pExpr]; rsplit (pExpr _)
    rfl
  · split
    · exact rel_exprStmt σ s
    · simp only [relPS_rest]
      cases hr : s.rest with
      | nil => rfl
      | cons v tl =>
        simp only [List.map_cons, List.length_cons, List.length_map, relPS_adv]
        rw [rel_reassignIndexes]; rsplit (reassignIndexes _ _)
        rename_i x; obtain ⟨ixs, s1⟩ := x
        simp only [relPS_adv]
        rw [rel_pExpr]; rsplit (pExpr _)
        rename_i x; obtain ⟨e, s2⟩ := x
        simp [relS, relA, relPS_adv]
end
end Pakhi
