import Pakhi.Lemmas.RelabelP2
import Pakhi.Lemmas.Relayout
namespace Pakhi
section
variable (σ : Meta → Meta) (hσ : ∀ m, σ (σ m) = σ m)
include hσ

theorem relTok_idem (t : Token) : relTok σ (relTok σ t) = relTok σ t := by
  have h := hσ ⟨t.line, t.file⟩
  simp only [relTok]
  rw [show (⟨(σ ⟨t.line, t.file⟩).line, (σ ⟨t.line, t.file⟩).file⟩ : Meta) = σ ⟨t.line, t.file⟩ from rfl, h]

mutual
theorem relE_idem : ∀ (e : Expr), relE σ (relE σ e) = relE σ e
  | .indexing e i m => by simp only [relE, relE_idem e, relE_idem i, hσ]
  | .or l r m => by simp only [relE, relE_idem l, relE_idem r, hσ]
  | .and l r m => by simp only [relE, relE_idem l, relE_idem r, hσ]
  | .equality op l r m => by simp only [relE, relE_idem l, relE_idem r, hσ]
  | .comparison op l r m => by simp only [relE, relE_idem l, relE_idem r, hσ]
  | .addsub op l r m => by simp only [relE, relE_idem l, relE_idem r, hσ]
  | .muldiv op l r m => by simp only [relE, relE_idem l, relE_idem r, hσ]
  | .unary op r m => by simp only [relE, relE_idem r, hσ]
  | .call f args m => by simp only [relE, relE_idem f, relEs_idem args, hσ]
  | .nil m => by simp only [relE, hσ]
  | .bool b m => by simp only [relE, hσ]
  | .num b m => by simp only [relE, hσ]
  | .str s m => by simp only [relE, hσ]
  | .list es m => by simp only [relE, relEs_idem es, hσ]
  | .record ks vs m => by simp only [relE, relEs_idem ks, relEs_idem vs, hσ]
  | .var tok m => by simp only [relE, relTok_idem σ hσ, hσ]
  | .group e m => by simp only [relE, relE_idem e, hσ]
theorem relEs_idem : ∀ (es : Exprs), relEs σ (relEs σ es) = relEs σ es
  | .nil => rfl
  | .cons e es => by simp only [relEs, relE_idem e, relEs_idem es]
end

theorem relA_idem (a : Assignment) : relA σ (relA σ a) = relA σ a := by
  obtain ⟨k, v, ixs, init⟩ := a
  simp only [relA, relTok_idem σ hσ, List.map_map, Option.map_map]
  congr 1
  · apply List.map_congr_left; intro e _; exact relE_idem σ hσ e
  · cases init <;> simp [relE_idem σ hσ]

theorem relS_idem (st : Stmt) : relS σ (relS σ st) = relS σ st := by
  cases st <;> simp only [relS, relE_idem σ hσ, relA_idem σ hσ, hσ]

theorem relL_idem (l : List Stmt) : relL σ (relL σ l) = relL σ l := by
  simp only [List.map_map]; apply List.map_congr_left; intro s _; exact relS_idem σ hσ s

theorem relToks_idem (l : List Token) : (l.map (relTok σ)).map (relTok σ) = l.map (relTok σ) := by
  simp only [List.map_map]; apply List.map_congr_left; intro s _; exact relTok_idem σ hσ s

theorem relPS_idem (s : PS) : relPS σ (relPS σ s) = relPS σ s := by
  simp only [relPS, relToks_idem σ hσ, relTok_idem σ hσ]

theorem relErr_idem (e : PErr) : relErr σ (relErr σ e) = relErr σ e := by
  by_cases h : (e.cls == ErrClass.unexpected) = true
  · have h0 : relErr σ e = e := by simp [relErr, h]
    rw [h0, h0]
  · have h1 : relErr σ e = { e with line := (σ ⟨e.line, e.file⟩).line, file := (σ ⟨e.line, e.file⟩).file } := by simp [relErr, h]
    have h2 : relErr σ { e with line := (σ ⟨e.line, e.file⟩).line, file := (σ ⟨e.line, e.file⟩).file } =
        { e with line := (σ (σ ⟨e.line, e.file⟩)).line, file := (σ (σ ⟨e.line, e.file⟩)).file } := by simp [relErr, h]
    rw [h1, h2, hσ]

theorem Res.rel_rel {α : Type} (g : α → α) (hg : ∀ a, g (g a) = g a) (r : Res α) : (r.rel σ g).rel σ g = r.rel σ g := by
  cases r <;> simp only [Res.rel, hg, relErr_idem σ hσ]

omit hσ in
theorem rel_importPathLoop : ∀ (f : Nat) (toks : List Token) (acc : Str) (i : Nat),
    importPathLoop f (toks.map (relTok σ)) acc i = (importPathLoop f toks acc i).rel σ id
  | 0, _, _, _ => rfl
  | f+1, toks, acc, i => by
      cases toks with
      | nil => simp only [List.map_nil, importPathLoop]; exact rel_unexpected σ _ _
      | cons t r =>
        simp only [List.map_cons, importPathLoop, relTok_kind]
        cases hk : t.kind <;> simp only []
        case semi => rfl
        case str p => exact rel_importPathLoop f r _ _
        case plus => exact rel_importPathLoop f r _ _
        all_goals (simp [mkErr, Res.rel, relErr, relTok])

omit hσ in
theorem rel_importPathTail (toks : List Token) : importPathTail (toks.map (relTok σ)) = (importPathTail toks).rel σ id := by
  cases toks with
  | nil => simp only [List.map_nil, importPathTail]; exact rel_unexpected σ _ _
  | cons t r =>
    simp only [List.map_cons, importPathTail, relTok_kind, List.length_map]
    cases hk : t.kind <;> simp only []
    case str p => exact rel_importPathLoop σ _ r _ _
    all_goals (simp [mkErr, Res.rel, relErr, relTok])

omit hσ in
theorem rel_allImportPaths : ∀ (toks : List Token), allImportPaths (toks.map (relTok σ)) = (allImportPaths toks).rel σ id
  | [] => rfl
  | t :: r => by
      simp only [List.map_cons, allImportPaths, relTok_kind]
      by_cases hi : (t.kind == TK.import) = true
      · simp only [hi, ↓reduceIte]
        rw [← List.map_drop, rel_importPathTail]
        generalize importPathTail _ = x
        cases x <;> simp only [Res.rel_ok, Res.rel_err, Res.rel_panic, Res.rel_fuel]
        rw [rel_allImportPaths r]
        generalize allImportPaths _ = y
        cases y <;> simp only [Res.rel_ok, Res.rel_err, Res.rel_panic, Res.rel_fuel]
        rfl
      · simp only [hi, Bool.false_eq_true, ↓reduceIte]
        exact rel_allImportPaths r

/-- two results agree up to source locations -/
abbrev ResEq {α : Type} (g : α → α) (r' r : Res α) : Prop := r'.rel σ g = r.rel σ g

theorem rel_namedModuleImport (ctx : PCtx) (s : PS) (name : Str) :
    ResEq σ (relPS σ) (namedModuleImport ctx (relPS σ s) name) (namedModuleImport ctx s name) := by
  simp only [ResEq, namedModuleImport, relPS_rest, ← List.map_drop, rel_importPathTail]
  generalize importPathTail _ = x
  cases x with
  | err e => simp only [Res.rel_err, relErr_idem σ hσ]
  | panic p => rfl
  | fuel => rfl
  | ok x =>
    obtain ⟨path, off⟩ := x
    simp only [Res.rel_ok, id]
    have hs1 : (⟨List.map (relTok σ) (List.drop (2 + off) s.rest),
                  (List.take (2 + off) (List.map (relTok σ) s.rest)).getLast?.getD (relPS σ s).prev, (relPS σ s).rel⟩ : PS) =
        relPS σ ⟨s.rest.drop (2 + off), ((s.rest.take (2 + off)).getLast?).getD s.prev, s.rel⟩ := by
      simp only [relPS, ← List.map_take, List.getLast?_map]
      cases (s.rest.take (2 + off)).getLast? <;> rfl
    have hprev : (List.take (2 + off) (List.map (relTok σ) s.rest)).getLast?.getD (relTok σ s.prev) =
        relTok σ ((s.rest.take (2 + off)).getLast?.getD s.prev) := by
      simp only [← List.map_take, List.getLast?_map]
      cases (s.rest.take (2 + off)).getLast? <;> rfl
    by_cases he : (!endsWith path W.extPakhi) = true
    · simp only [he, ↓reduceIte]
      rw [hs1, rel_syntaxErr σ (relPS σ)]; exact Res.rel_rel σ hσ _ (relPS_idem σ hσ) _
    · simp only [he, Bool.false_eq_true, ↓reduceIte]
      generalize moduleTokens ctx path name = mt
      cases mt with
      | err e => rfl
      | panic p => rfl
      | fuel => rfl
      | ok imported =>
        simp only []
        generalize allImportPaths imported = ch
        cases ch with
        | err e => rfl
        | panic p => rfl
        | fuel => rfl
        | ok childs =>
          simp only []
          by_cases hib : importsBack (relSet s.rel path (addNew ((relGet s.rel path).getD []) childs)) path = true
          · have hib' : importsBack (relSet (relPS σ s).rel path (addNew ((relGet (relPS σ s).rel path).getD []) childs)) path = true := hib
            rw [if_pos hib, if_pos hib']
          · have hib' : ¬ importsBack (relSet (relPS σ s).rel path (addNew ((relGet (relPS σ s).rel path).getD []) childs)) path = true := hib
            rw [if_neg hib, if_neg hib']
            simp only [relPS_rel, relPS_prev]
            cases hr : List.drop (2 + off) s.rest with
            | nil => simp [Res.rel, relPS, hprev, relTok_idem σ hσ]
            | cons semi tail =>
              simp [Res.rel, relPS, hprev, relToks_idem σ hσ, relTok_idem σ hσ]

theorem gS_idem (a : Stmt × PS) : gS σ (gS σ a) = gS σ a := by
  simp only [gS, relS_idem σ hσ, relPS_idem σ hσ]

/-- an exact commutation gives the erased equality -/
theorem resEq_of_exact {α : Type} (g : α → α) (hg : ∀ a, g (g a) = g a) (r' r : Res α) (h : r' = r.rel σ g) : ResEq σ g r' r := by
  subst h; exact Res.rel_rel σ hσ g hg r

theorem rel_pStatement (ctx : PCtx) : ∀ (f : Nat) (s : PS), ResEq σ (gS σ) (pStatement ctx f (relPS σ s)) (pStatement ctx f s)
  | 0, _ => rfl
  | f+1, s => by
      have ex : ∀ (r' r : Res (Stmt × PS)), r' = r.rel σ (gS σ) → ResEq σ (gS σ) r' r :=
        resEq_of_exact σ hσ (gS σ) (gS_idem σ hσ)
      simp only [pStatement, relPS_rest]
      cases hr : s.rest with
      | nil => rfl
      | cons t tl =>
        simp only [List.map_cons, relTok_kind]
        cases hk : t.kind <;> simp only []
        case print => exact ex _ _ (rel_printStmt σ false s)
        case printNoEOL => exact ex _ _ (rel_printStmt σ true s)
        case kVar => exact ex _ _ (rel_assignStmt σ s)
        case ident => exact ex _ _ (rel_reassignOrCallStmt σ s)
        case lcurly => exact ex _ _ (rel_oneTokenStmt σ _ (fun _ => rfl) s)
        case rcurly => exact ex _ _ (rel_oneTokenStmt σ _ (fun _ => rfl) s)
        case kIf => exact ex _ _ (rel_ifStmt σ s)
        case kElse => exact ex _ _ (rel_oneTokenStmt σ _ (fun _ => rfl) s)
        case kLoop => exact ex _ _ (rel_oneTokenStmt σ _ (fun _ => rfl) s)
        case kFunc => exact ex _ _ (rel_oneTokenStmt σ _ (fun _ => rfl) s)
        case ret => exact ex _ _ (rel_returnStmt σ s)
        case cont => exact ex _ _ (by simp only [relPS_adv2]; rfl)
        case brk => exact ex _ _ (by simp only [relPS_adv2]; rfl)
        case eot => exact ex _ _ rfl
        case comment => rw [relPS_adv]; exact rel_pStatement ctx f s.adv
        case «import» =>
          simp only [relPS_adv, relPS_rest]
          cases hr2 : s.adv.rest with
          | nil => simp only [List.map_nil]; exact ex _ _ (rel_syntaxErr σ _ s.adv _)
          | cons n tl2 =>
            simp only [List.map_cons, relTok_lexeme]
            by_cases hn : (n.kind == TK.ident) = true
            · have hn' : ((relTok σ n).kind == TK.ident) = true := hn
              rw [if_pos hn, if_pos hn']
              have hm := rel_namedModuleImport σ hσ ctx s.adv n.lexeme
              revert hm
              generalize namedModuleImport ctx (relPS σ s.adv) n.lexeme = r'
              generalize namedModuleImport ctx s.adv n.lexeme = r
              intro hm
              cases r' <;> cases r <;> simp only [ResEq, Res.rel_ok, Res.rel_err, Res.rel_panic, Res.rel_fuel] at hm ⊢ <;>
                first
                  | rfl
                  | (cases hm; done)
                  | (injection hm with hm; subst hm; rfl)
                  | (injection hm with hm; rw [hm]; done)
                  | skip
              rename_i a' a
              injection hm with hm
              have h1 := rel_pStatement ctx f a'.adv
              have h2 := rel_pStatement ctx f a.adv
              simp only [ResEq] at h1 h2 ⊢
              rw [← h1, ← h2, ← relPS_adv, ← relPS_adv, hm]
            · have hn' : ¬ ((relTok σ n).kind == TK.ident) = true := hn
              rw [if_neg hn, if_neg hn']
              exact ex _ _ (rel_syntaxErr σ _ s.adv _)
        all_goals exact ex _ _ (rel_syntaxErr σ _ s _)

omit hσ in
theorem eos_of_rel (st' st : Stmt) (h : relS σ st' = relS σ st) :
    ((∃ m, st' = .eos m) ∧ (∃ m, st = .eos m)) ∨ ((∀ m, st' ≠ .eos m) ∧ (∀ m, st ≠ .eos m)) := by
  cases st' <;> cases st <;> simp [relS] at h ⊢

theorem rel_parseLoop (ctx : PCtx) : ∀ (f : Nat) (s : PS) (acc : List Stmt),
    ResEq σ (relL σ) (parseLoop ctx f (relPS σ s) (relL σ acc)) (parseLoop ctx f s acc)
  | 0, _, _ => rfl
  | f+1, s, acc => by
      have tail : ∀ (s1 : PS) (A : List Stmt),
          ResEq σ (relL σ)
            (match s1.rest with
              | [] => unexpected "expected-semicolon-at-last-line"
              | t :: _ => if t.kind == .semi then parseLoop ctx f s1.adv A else parseLoop ctx f s1 A)
            (match (relPS σ s1).rest with
              | [] => unexpected "expected-semicolon-at-last-line"
              | t :: _ => if t.kind == .semi then parseLoop ctx f (relPS σ s1).adv (relL σ A) else parseLoop ctx f (relPS σ s1) (relL σ A)) := by
        intro s1 A
        simp only [relPS_rest, relPS_adv]
        cases s1.rest with
        | nil => rfl
        | cons t tl =>
          simp only [List.map_cons]
          by_cases ht : (t.kind == TK.semi) = true
          · have ht' : ((relTok σ t).kind == TK.semi) = true := ht
            rw [if_pos ht, if_pos ht']; exact (rel_parseLoop ctx f s1.adv A).symm
          · have ht' : ¬ ((relTok σ t).kind == TK.semi) = true := ht
            rw [if_neg ht, if_neg ht']; exact (rel_parseLoop ctx f s1 A).symm
      simp only [parseLoop]
      have hm := rel_pStatement σ hσ ctx f s
      revert hm
      generalize pStatement ctx f (relPS σ s) = r'
      generalize pStatement ctx f s = r
      intro hm
      cases r' <;> cases r <;> simp only [ResEq, Res.rel_ok, Res.rel_err, Res.rel_panic, Res.rel_fuel] at hm ⊢ <;>
        first
          | rfl
          | (cases hm; done)
          | (injection hm with hm; subst hm; rfl)
          | (injection hm with hm; rw [hm]; done)
          | skip
      rename_i a' a
      obtain ⟨st', s1'⟩ := a'
      obtain ⟨st, s1⟩ := a
      injection hm with hm
      simp only [gS, Prod.mk.injEq] at hm
      obtain ⟨hst, hs1⟩ := hm
      rcases eos_of_rel σ st' st hst with ⟨⟨m', rfl⟩, ⟨m, rfl⟩⟩ | ⟨hne', hne⟩
      · simp only [Res.rel_ok, List.map_reverse, List.map_cons, relL_idem σ hσ, hst]
      · simp only []
        have t1 := tail s1' (st' :: relL σ acc)
        have t2 := tail s1 (st :: acc)
        simp only [ResEq] at t1 t2
        refine Eq.trans t1 (Eq.trans ?_ t2.symm)
        rw [hs1]
        simp only [List.map_cons, relL_idem σ hσ, hst]

omit hσ in
theorem rel_expandDirname (ctx : PCtx) (toks : List Token) (loc : Str) :
    expandDirname ctx (toks.map (relTok σ)) loc = (expandDirname ctx toks loc).rel σ (List.map (relTok σ)) := by
  simp only [expandDirname, List.any_map]
  have hany : (List.any toks ((fun t => t.kind == TK.ident && t.lexeme == dirnameConst) ∘ relTok σ)) =
      List.any toks (fun t => t.kind == TK.ident && t.lexeme == dirnameConst) := rfl
  rw [hany]
  split
  · simp only [dirWithSlash]
    cases pathParent (absPath ctx loc) with
    | none => rfl
    | some d =>
      simp only [Res.rel_ok, List.map_map]
      congr 1
      apply List.map_congr_left
      intro t _
      simp only [Function.comp, relTok_kind, relTok_lexeme]
      by_cases h : (t.kind == TK.ident && t.lexeme == dirnameConst) = true
      · simp only [h, ↓reduceIte]; rfl
      · simp only [h, Bool.false_eq_true, ↓reduceIte]
  · rfl

/-- **the parser treats source locations as labels**: parsing a token list whose line numbers (and file names) were relabelled yields
    the same program up to the labels, and the same error up to its reported location — including module loading -/
theorem parse_relabel (ctx : PCtx) (fuel : Nat) (toks : List Token) :
    ResEq σ (relL σ) (parse ctx fuel (toks.map (relTok σ))) (parse ctx fuel toks) := by
  simp only [ResEq, parse]
  cases pathFileName ctx.mainPath with
  | none => rfl
  | some rootName =>
    simp only [rel_allImportPaths, rel_expandDirname]
    generalize allImportPaths toks = ch
    cases ch with
    | err e => simp only [Res.rel_err, relErr_idem σ hσ]
    | panic p => rfl
    | fuel => rfl
    | ok childs =>
      simp only [Res.rel_ok, id]
      generalize expandDirname ctx toks ctx.mainPath = ex
      cases ex with
      | err e => simp only [Res.rel_err, relErr_idem σ hσ]
      | panic p => rfl
      | fuel => rfl
      | ok toks' =>
        simp only [Res.rel_ok]
        have h1 := rel_parseLoop σ hσ ctx fuel ⟨toks'.map (relTok σ), default, [(rootName, childs)]⟩ []
        have h2 := rel_parseLoop σ hσ ctx fuel ⟨toks', default, [(rootName, childs)]⟩ []
        simp only [ResEq, List.map_nil] at h1 h2
        rw [← h1, ← h2]
        simp only [relPS, relToks_idem σ hσ]
end
end Pakhi

namespace Pakhi
/-- the relabelling that forgets line numbers (file names are kept) -/
def dropLine : Meta → Meta := fun m => ⟨0, m.file⟩

theorem dropLine_idem (m : Meta) : dropLine (dropLine m) = dropLine m := rfl
theorem relTok_dropLine (t : Token) : relTok dropLine t = noLine t := rfl

/-- the outcome of a run with every *reported line number* forgotten: the line of an error, and the line labels inside the statements
    still pending in open loops; the printed text, the variables, the heap, the error class / message / file and the kind of ending
    (normal, error, panic, out of fuel) are all kept -/
def noLineRes : Res St → Res St
  | .ok s => .ok (relSt dropLine s)
  | .err e => .err { e with line := 0 }
  | x => x

theorem relSt_idem (σ : Meta → Meta) (hσ : ∀ m, σ (σ m) = σ m) (s : St) : relSt σ (relSt σ s) = relSt σ s := by
  simp only [relSt, List.map_map]
  congr 1
  apply List.map_congr_left
  intro l _
  simp only [Function.comp, relL_idem σ hσ]

theorem noLineRes_rel (r : Res St) : noLineRes (r.rel dropLine (relSt dropLine)) = noLineRes r := by
  cases r with
  | ok s => simp only [Res.rel, noLineRes, relSt_idem dropLine dropLine_idem]
  | err e => simp only [Res.rel, noLineRes, relErr]; split <;> rfl
  | panic p => rfl
  | fuel => rfl
end Pakhi
