/- C11: locality of the tokenizer — a step depends only on the characters it consumes and on whether the next
   character continues the token; hence the text after a token boundary can be replaced (blank insertion, blank
   runs, change of blank kind) without changing any token.  Helper lemmas; the property theorems are in Props/C11. -/
import Pakhi.Lemmas.Layout

namespace Pakhi

/-- `r'` ends a token exactly where `r` does: it starts with the same character, or with a blank -/
def SameStop (r r' : Str) : Prop := r'.head? = r.head? ∨ ∃ b y, r' = b :: y ∧ isBlank b = true

theorem blank_not_numeric (b : Char) (hb : isBlank b = true) : isNumeric b = false ∧ b ≠ '.' ∧ b ≠ '>' ∧ b ≠ '=' ∧ isIdentChar b = false := by
  simp only [isBlank, Bool.or_eq_true, beq_iff_eq] at hb
  rcases hb with ((rfl | rfl) | rfl) | rfl <;> decide

theorem scanNum_stop (line : Nat) (file : Str) (f : Nat) (r : Str) (inFrac : Bool) (acc : Str) (n : Nat) (txt : Str)
    (h : scanNum line file (f+1) r inFrac acc n = .ok (txt, n)) :
    txt = acc.reverse ∧ (r = [] ∨ ∃ c tl, r = c :: tl ∧ c ≠ '.' ∧ isNumeric c = false) := by
  cases r with
  | nil => simp [scanNum] at h; simp [h]
  | cons c tl =>
    simp only [scanNum] at h
    split at h
    · split at h
      · simp [mkErr] at h
      · have := (scanNum_span line file f tl true _ _ txt n h).1; omega
    · rename_i hdot
      split at h
      · split at h
        · have := (scanNum_span line file f tl inFrac _ _ txt n h).1; omega
        · simp [mkErr] at h
      · rename_i hnum
        simp at h
        refine ⟨h.symm, Or.inr ⟨c, tl, rfl, by simpa using hdot, by simpa using hnum⟩⟩

theorem scanNum_cut (line : Nat) (file : Str) : ∀ (q : Str) (fuel : Nat) (r : Str) (inFrac : Bool) (acc : Str) (n : Nat) (txt : Str) (k : Nat),
    scanNum line file fuel (q ++ r) inFrac acc n = .ok (txt, k) → q.length + n = k → (q ++ r).length < fuel →
    ∀ (r' : Str) (fuel' : Nat), SameStop r r' → (q ++ r').length < fuel' →
    scanNum line file fuel' (q ++ r') inFrac acc n = .ok (txt, k)
  | [], 0, _, _, _, _, _, _, _, _, hf => by omega
  | [], f+1, r, inFrac, acc, n, txt, k, h, hk, hf => by
      intro r' fuel' hs hf'
      simp at hk; subst hk
      simp only [List.nil_append] at h ⊢
      obtain ⟨ht, hr⟩ := scanNum_stop line file f r inFrac acc n txt h
      obtain ⟨g, rfl⟩ : ∃ g, fuel' = g + 1 := ⟨fuel' - 1, by omega⟩
      cases r' with
      | nil => simp [scanNum, ht]
      | cons c' tl' =>
        have hstop : c' ≠ '.' ∧ isNumeric c' = false := by
          rcases hs with hs | ⟨b, y, hb, hbl⟩
          · rcases hr with rfl | ⟨c, tl, rfl, h1, h2⟩
            · simp at hs
            · simp at hs; subst hs; exact ⟨h1, h2⟩
          · simp at hb; obtain ⟨rfl, rfl⟩ := hb
            have := blank_not_numeric c' hbl
            exact ⟨this.2.1, this.1⟩
        simp [scanNum, hstop.1, hstop.2, ht]
  | c :: q, 0, _, _, _, _, _, _, _, _, hf => by omega
  | c :: q, f+1, r, inFrac, acc, n, txt, k, h, hk, hf => by
      intro r' fuel' hs hf'
      obtain ⟨g, rfl⟩ : ∃ g, fuel' = g + 1 := ⟨fuel' - 1, by omega⟩
      simp only [List.cons_append, scanNum] at h ⊢
      simp only [List.length_cons] at hk
      simp only [List.cons_append, List.length_cons] at hf hf'
      split at h
      · rename_i hdot
        split at h
        · simp [mkErr] at h
        · rename_i hfr
          rw [if_pos hdot, if_neg hfr]
          exact scanNum_cut line file q f r true _ _ txt k h (by omega) (by omega) r' g hs (by omega)
      · rename_i hdot
        split at h
        · rename_i hnum
          split at h
          · rename_i d hd
            rw [if_neg hdot, if_pos hnum]
            exact scanNum_cut line file q f r inFrac _ _ txt k h (by omega) (by omega) r' g hs (by omega)
          · simp [mkErr] at h
        · simp at h; omega

theorem skipComment_cut (line : Nat) (file : Str) : ∀ (q : Str) (fuel : Nat) (r : Str) (sk ln n l : Nat),
    skipComment line file fuel (q ++ r) sk ln = .ok (n, l) → q.length + sk = n → (q ++ r).length < fuel →
    ∀ (r' : Str) (fuel' : Nat), (q ++ r').length < fuel' →
    skipComment line file fuel' (q ++ r') sk ln = .ok (n, l)
  | [], fuel, r, sk, ln, n, l, h, hk, _ => by
      have := (skipComment_span line file fuel _ sk ln n l h).1
      simp at hk; omega
  | c :: q, 0, _, _, _, _, _, _, _, hf => by omega
  | c :: q, f+1, r, sk, ln, n, l, h, hk, hf => by
      intro r' fuel' hf'
      obtain ⟨g, rfl⟩ : ∃ g, fuel' = g + 1 := ⟨fuel' - 1, by omega⟩
      simp only [List.cons_append, List.length_cons] at hf hf' hk
      simp only [List.cons_append] at h ⊢
      by_cases h1 : (c == '#') = true
      · simp [skipComment, h1] at h ⊢
        exact h
      · by_cases h2 : (c == '\\') = true
        · cases q with
          | nil =>
            exfalso
            simp only [List.nil_append, List.length_nil] at h hk
            cases r with
            | nil =>
              have := (skipComment_span line file f [] (sk + 1) ln n l (by simpa [skipComment, h1, h2] using h)).1
              omega
            | cons d tl =>
              by_cases h3 : d = '#'
              · subst h3
                have := (skipComment_span line file f tl (sk + 2) ln n l (by simpa [skipComment, h1, h2] using h)).1
                omega
              · have hstep : skipComment line file (f+1) (c :: d :: tl) sk ln = skipComment line file f (d :: tl) (sk + 1) ln := by
                  simp only [skipComment, h1, h2, Bool.false_eq_true, if_false, if_true]
                  split
                  · rename_i heq; simp at heq; exact absurd heq.1 h3
                  · rfl
                rw [hstep] at h
                have := (skipComment_span line file f _ (sk + 1) ln n l h).1
                omega
          | cons d q2 =>
            simp only [List.cons_append, List.length_cons] at hf hf' hk h ⊢
            by_cases h3 : d = '#'
            · subst h3
              have h' : skipComment line file f (q2 ++ r) (sk + 2) ln = .ok (n, l) := by simpa [skipComment, h1, h2] using h
              have := skipComment_cut line file q2 f r (sk + 2) ln n l h' (by omega) (by omega) r' g (by omega)
              simpa [skipComment, h1, h2] using this
            · have hstep : ∀ (ff : Nat) (x : Str), skipComment line file (ff+1) (c :: d :: x) sk ln = skipComment line file ff (d :: x) (sk + 1) ln := by
                intro ff x
                simp only [skipComment, h1, h2, Bool.false_eq_true, if_false, if_true]
                split
                · rename_i heq; simp at heq; exact absurd heq.1 h3
                · rfl
              rw [hstep] at h ⊢
              exact skipComment_cut line file (d :: q2) f r (sk + 1) ln n l h (by simp only [List.length_cons]; omega) (by simp only [List.cons_append, List.length_cons]; omega) r' g (by simp only [List.cons_append, List.length_cons]; omega)
        · by_cases h4 : (c == '\n') = true
          · have h' : skipComment line file f (q ++ r) (sk + 1) (ln + 1) = .ok (n, l) := by simpa [skipComment, h1, h2, h4] using h
            have := skipComment_cut line file q f r (sk + 1) (ln + 1) n l h' (by omega) (by omega) r' g (by omega)
            simpa [skipComment, h1, h2, h4] using this
          · have h' : skipComment line file f (q ++ r) (sk + 1) ln = .ok (n, l) := by simpa [skipComment, h1, h2, h4] using h
            have := skipComment_cut line file q f r (sk + 1) ln n l h' (by omega) (by omega) r' g (by omega)
            simpa [skipComment, h1, h2, h4] using this
termination_by q => q.length

theorem takeWhile_cut {α} (p : α → Bool) : ∀ (q r : List α), ((q ++ r).takeWhile p).length = q.length →
    (q ++ r).takeWhile p = q ∧ (∀ x ∈ q, p x = true) ∧ (r = [] ∨ ∃ c tl, r = c :: tl ∧ p c = false)
  | [], r, h => by
      simp only [List.nil_append, List.length_nil] at h
      cases r with
      | nil => simp
      | cons c tl =>
        by_cases hc : p c = true
        · simp [hc] at h
        · simp [hc]
  | c :: q, r, h => by
      by_cases hc : p c = true
      · simp only [List.cons_append, List.takeWhile_cons, hc, if_true, List.length_cons] at h
        obtain ⟨h1, h2, h3⟩ := takeWhile_cut p q r (by omega)
        simp only [List.cons_append, List.takeWhile_cons, hc, if_true]
        exact ⟨by rw [h1], by intro x hx; simp at hx; rcases hx with rfl | hx; exact hc; exact h2 x hx, h3⟩
      · simp [hc] at h

theorem takeWhile_of_cut {α} (p : α → Bool) (q r : List α) (hq : ∀ x ∈ q, p x = true) (hr : r = [] ∨ ∃ c tl, r = c :: tl ∧ p c = false) :
    (q ++ r).takeWhile p = q := by
  induction q with
  | nil =>
    rcases hr with rfl | ⟨c, tl, rfl, hc⟩
    · rfl
    · simp [hc]
  | cons c q ih =>
    have hc := hq c (by simp)
    simp only [List.cons_append, List.takeWhile_cons, hc, if_true]
    rw [ih (fun x hx => hq x (by simp [hx]))]
end Pakhi

namespace Pakhi

theorem sameStop_head_ne {r r' : Str} (hs : SameStop r r') (x : Char) (hx : ∀ b, isBlank b = true → b ≠ x) :
    (∀ tl, r ≠ x :: tl) → ∀ tl', r' ≠ x :: tl' := by
  intro hr tl' he
  subst he
  rcases hs with hs | ⟨b, y, hb, hbl⟩
  · cases r with
    | nil => simp at hs
    | cons c tl => simp at hs; subst hs; exact hr tl rfl
  · simp at hb; exact hx b hbl hb.1.symm

theorem consumeTwoChar_cut (c : Char) (q r r' : Str) (line : Nat) (file : Str) (k2 k1 : TK) (t? : Option Token) (n l : Nat)
    (h : consumeTwoChar c (q ++ r) line file k2 k1 = .ok (t?, n, l)) (hq : q.length + 1 = n) (hs : SameStop r r') :
    consumeTwoChar c (q ++ r') line file k2 k1 = .ok (t?, n, l) := by
  cases q with
  | nil =>
    simp only [List.nil_append, List.length_nil] at h hq ⊢
    subst hq
    have hr : ∀ tl, r ≠ '=' :: tl := by
      intro tl he; subst he
      simp [consumeTwoChar, mkTok] at h
    have hr' := sameStop_head_ne hs '=' (fun b hb => (blank_not_numeric b hb).2.2.2.1) hr
    have e1 : consumeTwoChar c r line file k2 k1 = mkTok (c :: r) line file k1 1 := by
      unfold consumeTwoChar; split
      · rename_i tl; exact absurd rfl (hr tl)
      · rfl
    have e2 : consumeTwoChar c r' line file k2 k1 = mkTok (c :: r') line file k1 1 := by
      unfold consumeTwoChar; split
      · rename_i tl; exact absurd rfl (hr' tl)
      · rfl
    rw [e1] at h; rw [e2]
    simpa [mkTok] using h
  | cons d q2 =>
    by_cases hd : d = '='
    · subst hd
      simp [consumeTwoChar, mkTok] at h ⊢
      obtain ⟨h1, h2, h3⟩ := h
      subst h2
      simp at hq; subst hq
      exact ⟨by simpa using h1, rfl, h3⟩
    · have e1 : consumeTwoChar c (d :: q2 ++ r) line file k2 k1 = mkTok (c :: d :: q2 ++ r) line file k1 1 := by
        unfold consumeTwoChar; split
        · rename_i tl he; simp at he; exact absurd he.1 hd
        · rfl
      rw [e1] at h
      simp [mkTok] at h
      simp at hq; omega

def numScan (c : Char) (rest : Str) (line : Nat) (file : Str) : Res (Str × Nat) :=
  if c == '-' then scanNum line file (rest.length + 1) rest false ['-'] 1
  else scanNum line file ((c :: rest).length + 1) (c :: rest) false [] 0

theorem consumeNum_eq (c : Char) (rest : Str) (line : Nat) (file : Str) :
    consumeNum (c :: rest) line file =
      match numScan c rest line file with
      | .ok (txt, n) =>
        match Num.parseF64 txt with
        | some b => .ok (b, n)
        | none => mkErr .syntax line file "number-format"
      | .err e => .err e
      | .panic s => .panic s
      | .fuel => .fuel := rfl

theorem numScan_cut (c : Char) (q r r' : Str) (line : Nat) (file : Str) (txt : Str) (k : Nat)
    (h : numScan c (q ++ r) line file = .ok (txt, k)) (hq : q.length + 1 = k) (hs : SameStop r r') :
    numScan c (q ++ r') line file = .ok (txt, k) := by
  unfold numScan at h ⊢
  split at h
  · rename_i hm
    rw [if_pos hm]
    exact scanNum_cut line file q _ r false _ 1 txt k h (by omega) (by omega) r' _ hs (by omega)
  · rename_i hm
    rw [if_neg hm]
    exact scanNum_cut line file (c :: q) _ r false _ 0 txt k h (by simp; omega) (by simp) r' _ hs (by simp)

theorem consumeNumTok_cut (c : Char) (q r r' : Str) (line : Nat) (file : Str) (t? : Option Token) (n l : Nat)
    (h : consumeNumTok (c :: (q ++ r)) line file = .ok (t?, n, l)) (hq : q.length + 1 = n) (hs : SameStop r r') :
    consumeNumTok (c :: (q ++ r')) line file = .ok (t?, n, l) := by
  unfold consumeNumTok at h ⊢
  rw [consumeNum_eq] at h ⊢
  cases hsc : numScan c (q ++ r) line file with
  | ok tk =>
    obtain ⟨txt, k⟩ := tk
    rw [hsc] at h
    simp only at h
    cases hp : Num.parseF64 txt with
    | none => rw [hp] at h; simp [mkErr] at h
    | some b =>
      rw [hp] at h
      simp only [mkTok, Res.ok.injEq, Prod.mk.injEq] at h
      obtain ⟨h1, h2, h3⟩ := h
      subst h2
      rw [numScan_cut c q r r' line file txt k hsc hq hs]
      simp only [hp, mkTok, Res.ok.injEq, Prod.mk.injEq]
      refine ⟨?_, trivial, h3⟩
      rw [← h1]
      have e1 : (c :: (q ++ r)).take k = c :: q := by
        have : (c :: (q ++ r)) = (c :: q) ++ r := rfl
        rw [this]; exact List.take_left' (by simp; omega)
      have e2 : (c :: (q ++ r')).take k = c :: q := by
        have : (c :: (q ++ r')) = (c :: q) ++ r' := rfl
        rw [this]; exact List.take_left' (by simp; omega)
      rw [e1, e2]
  | err e => rw [hsc] at h; simp at h
  | panic p => rw [hsc] at h; simp at h
  | fuel => rw [hsc] at h; simp at h

theorem consumeNumTok_len (c : Char) (rest : Str) (line : Nat) (file : Str) (t? : Option Token) (n l : Nat)
    (h : consumeNumTok (c :: rest) line file = .ok (t?, n, l)) :
    ∃ txt, numScan c rest line file = .ok (txt, n) := by
  unfold consumeNumTok at h
  rw [consumeNum_eq] at h
  cases hsc : numScan c rest line file with
  | ok tk =>
    obtain ⟨txt, k⟩ := tk
    rw [hsc] at h
    simp only at h
    cases hp : Num.parseF64 txt with
    | none => rw [hp] at h; simp [mkErr] at h
    | some b =>
      rw [hp] at h
      simp only [mkTok, Res.ok.injEq, Prod.mk.injEq] at h
      exact ⟨txt, by rw [h.2.1]⟩
  | err e => rw [hsc] at h; simp at h
  | panic p => rw [hsc] at h; simp at h
  | fuel => rw [hsc] at h; simp at h

theorem nextIsNumeric_sameStop {r r' : Str} (hs : SameStop r r') (h : nextIsNumeric r = false) : nextIsNumeric r' = false := by
  rcases hs with hs | ⟨b, y, rfl, hbl⟩
  · cases r with
    | nil => cases r' with
      | nil => rfl
      | cons _ _ => simp at hs
    | cons c tl => cases r' with
      | nil => rfl
      | cons c' tl' => simp at hs; subst hs; exact h
  · exact (blank_not_numeric b hbl).1

def minusArm (c : Char) (rest : Str) (line : Nat) (file : Str) : Consumed :=
  match rest with
  | '>' :: _ => mkTok (c :: rest) line file .map 2
  | _ => mkTok (c :: rest) line file .minus 1

theorem consumeMinusOrDigit_eq (c : Char) (rest : Str) (line : Nat) (file : Str) (ao : Bool) :
    consumeMinusOrDigit c rest line file ao =
      if isNumeric c || (!ao && nextIsNumeric rest) then consumeNumTok (c :: rest) line file else minusArm c rest line file := rfl

theorem minusArm_other (c : Char) (x : Str) (line : Nat) (file : Str) (hx : ∀ tl, x ≠ '>' :: tl) :
    minusArm c x line file = mkTok (c :: x) line file .minus 1 := by
  unfold minusArm; split
  · rename_i tl; exact absurd rfl (hx tl)
  · rfl

theorem consumeMinusOrDigit_cut (c : Char) (q r r' : Str) (line : Nat) (file : Str) (ao : Bool) (t? : Option Token) (n l : Nat)
    (hc : c = '-' ∨ isNumeric c = true)
    (h : consumeMinusOrDigit c (q ++ r) line file ao = .ok (t?, n, l)) (hq : q.length + 1 = n) (hs : SameStop r r') :
    consumeMinusOrDigit c (q ++ r') line file ao = .ok (t?, n, l) := by
  -- the look-ahead decision is the same in both sources
  have hcond : (isNumeric c || (!ao && nextIsNumeric (q ++ r'))) = (isNumeric c || (!ao && nextIsNumeric (q ++ r))) := by
    cases q with
    | cons d q2 => rfl
    | nil =>
      simp only [List.nil_append]
      by_cases hn : isNumeric c = true
      · simp [hn]
      · have hn' : isNumeric c = false := by simpa using hn
        cases ao with
        | true => simp
        | false =>
          cases hnr : nextIsNumeric r with
          | false => rw [nextIsNumeric_sameStop hs hnr]
          | true =>
            exfalso
            have hm : c = '-' := by rcases hc with hc | hc; exact hc; exact absurd hc hn
            subst hm
            simp only [consumeMinusOrDigit_eq, List.nil_append, hnr] at h
            simp at h
            obtain ⟨txt, hsc⟩ := consumeNumTok_len _ _ _ _ _ _ _ h
            simp only [numScan] at hsc
            simp only [List.length_nil] at hq; subst hq
            simp at hsc
            obtain ⟨_, hr⟩ := scanNum_stop line file _ r false _ _ txt hsc
            rcases hr with rfl | ⟨d, tl, rfl, _, hd⟩
            · simp [nextIsNumeric] at hnr
            · simp [nextIsNumeric, hd] at hnr
  rw [consumeMinusOrDigit_eq] at h ⊢
  rw [hcond]
  split at h
  · rename_i hb
    rw [if_pos hb]
    exact consumeNumTok_cut c q r r' line file t? n l h hq hs
  · rename_i hb
    rw [if_neg hb]
    cases q with
    | nil =>
      simp only [List.nil_append, List.length_nil] at h hq ⊢
      subst hq
      have hr : ∀ tl, r ≠ '>' :: tl := by
        intro tl he; subst he
        simp [minusArm, mkTok] at h
      have hr' := sameStop_head_ne hs '>' (fun b hb => (blank_not_numeric b hb).2.2.1) hr
      rw [minusArm_other _ _ _ _ hr] at h; rw [minusArm_other _ _ _ _ hr']
      simpa [mkTok] using h
    | cons d q2 =>
      by_cases hd : d = '>'
      · subst hd
        simp [minusArm, mkTok] at h ⊢
        obtain ⟨h1, h2, h3⟩ := h
        subst h2
        simp at hq; subst hq
        exact ⟨by simpa using h1, rfl, h3⟩
      · simp only [List.cons_append] at h
        rw [minusArm_other _ _ _ _ (by intro tl he; simp at he; exact hd he.1)] at h
        simp [mkTok] at h
        simp at hq; omega

theorem consumeComment_cut (c : Char) (q r r' : Str) (line : Nat) (file : Str) (t? : Option Token) (n l : Nat)
    (h : consumeComment c (q ++ r) line file = .ok (t?, n, l)) (hq : q.length + 1 = n) :
    consumeComment c (q ++ r') line file = .ok (t?, n, l) := by
  unfold consumeComment at h ⊢
  cases hsc : skipComment line file ((q ++ r).length + 1) (q ++ r) 1 0 with
  | ok nl =>
    obtain ⟨m, l'⟩ := nl
    rw [hsc] at h
    simp only [Res.ok.injEq, Prod.mk.injEq] at h
    obtain ⟨h1, h2, h3⟩ := h
    subst h2; subst h3
    rw [skipComment_cut line file q _ r 1 0 m l' hsc hq (by omega) r' _ (by omega)]
    simp only [Res.ok.injEq, Prod.mk.injEq]
    show _ = _ ∧ _
    refine ⟨?_, by simp⟩
    rw [← h1]
    have e1 : (c :: (q ++ r)).take m = c :: q := by
      have : (c :: (q ++ r)) = (c :: q) ++ r := rfl
      rw [this]; exact List.take_left' (by simp; omega)
    have e2 : (c :: (q ++ r')).take m = c :: q := by
      have : (c :: (q ++ r')) = (c :: q) ++ r' := rfl
      rw [this]; exact List.take_left' (by simp; omega)
    rw [e1, e2]
  | err e => rw [hsc] at h; simp at h
  | panic p => rw [hsc] at h; simp at h
  | fuel => rw [hsc] at h; simp at h

theorem takeWhile_inside {α} (p : α → Bool) : ∀ (q r : List α), ((q ++ r).takeWhile p).length < q.length →
    ∀ r', (q ++ r').takeWhile p = (q ++ r).takeWhile p
  | [], r, h => by simp at h
  | c :: q, r, h => by
      intro r'
      by_cases hc : p c = true
      · simp only [List.cons_append, List.takeWhile_cons, hc, if_true, List.length_cons] at h ⊢
        rw [takeWhile_inside p q r (by omega) r']
      · simp [hc]

theorem consumeStringTok_cut (c : Char) (q r r' : Str) (line : Nat) (file : Str) (t? : Option Token) (n l : Nat)
    (h : consumeStringTok (c :: (q ++ r)) line file = .ok (t?, n, l)) (hq : q.length + 1 = n) :
    consumeStringTok (c :: (q ++ r')) line file = .ok (t?, n, l) := by
  simp only [consumeStringTok, consumeString, List.drop_succ_cons, List.drop_zero, Res.ok.injEq, Prod.mk.injEq] at h ⊢
  obtain ⟨h1, h2, h3⟩ := h
  have e := takeWhile_inside (· != '"') q r (by omega) r'
  rw [e]
  exact ⟨h1, h2, h3⟩

theorem consumeWord_cut (c : Char) (q r r' : Str) (line : Nat) (file : Str) (t? : Option Token) (n l : Nat)
    (h : consumeWord c (q ++ r) line file = .ok (t?, n, l)) (hq : q.length + 1 = n) (hs : SameStop r r') :
    consumeWord c (q ++ r') line file = .ok (t?, n, l) := by
  unfold consumeWord at h ⊢
  split at h
  · simp [mkErr] at h
  · rename_i hi
    rw [if_neg hi]
    have hlen : (((c :: q) ++ r).takeWhile isIdentChar).length = (c :: q).length := by
      simp only at h
      split at h <;> (simp only [mkTok, Res.ok.injEq, Prod.mk.injEq] at h; simp only [List.length_cons]; exact h.2.1.trans hq.symm)
    obtain ⟨e1, e2, e3⟩ := takeWhile_cut isIdentChar (c :: q) r hlen
    have e3' : r' = [] ∨ ∃ c' tl', r' = c' :: tl' ∧ isIdentChar c' = false := by
      rcases hs with hs | ⟨b, y, rfl, hbl⟩
      · rcases e3 with rfl | ⟨d, tl, rfl, hd⟩
        · cases r' with
          | nil => exact Or.inl rfl
          | cons _ _ => simp at hs
        · cases r' with
          | nil => exact Or.inl rfl
          | cons c' tl' => simp at hs; subst hs; exact Or.inr ⟨c', tl', rfl, hd⟩
      · exact Or.inr ⟨b, y, rfl, (blank_not_numeric b hbl).2.2.2.2⟩
    have e1' := takeWhile_of_cut isIdentChar (c :: q) r' e2 e3'
    have f1 : (c :: (q ++ r)) = (c :: q) ++ r := rfl
    have f2 : (c :: (q ++ r')) = (c :: q) ++ r' := rfl
    simp only [f1, e1] at h
    simp only [f2, e1']
    split at h <;>
      (simp only [mkTok, Res.ok.injEq, Prod.mk.injEq] at h ⊢
       refine ⟨?_, h.2.1, h.2.2⟩
       rw [← h.1, List.take_left' rfl, List.take_left' rfl])

theorem mkTok_cut (c : Char) (q r r' : Str) (line : Nat) (file : Str) (k : TK) (t? : Option Token) (n l : Nat)
    (h : mkTok (c :: (q ++ r)) line file k 1 = .ok (t?, n, l)) :
    mkTok (c :: (q ++ r')) line file k 1 = .ok (t?, n, l) := by
  simpa [mkTok] using h

/-- **locality of one tokenizer step**: a step that consumes exactly `q` yields the same token, width and
    line count when what follows `q` is replaced by anything that starts with the same character or with a blank -/
theorem consume_cut (q r r' : Str) (line : Nat) (file : Str) (ao : Bool) (t? : Option Token) (n l : Nat)
    (h : consume (q ++ r) line file ao = .ok (t?, n, l)) (hq : q.length = n) (hs : SameStop r r') :
    consume (q ++ r') line file ao = .ok (t?, n, l) := by
  cases q with
  | nil =>
    exfalso
    simp only [List.nil_append, List.length_nil] at h hq
    subst hq
    cases r with
    | nil => simp [consume] at h
    | cons c tl =>
      have := consume_good c tl line file ao
      rw [h] at this
      simp [Consumed.Good] at this
  | cons c q =>
    simp only [List.cons_append, List.length_cons] at h hq ⊢
    unfold consume at h ⊢
    simp only at h ⊢
    split at h
    · rename_i h0
      rw [if_pos h0]
      have hc : c = '-' ∨ isNumeric c = true := by
        rcases (Bool.or_eq_true _ _).mp h0 with h | h
        · exact Or.inl (by simpa using h)
        · right
          unfold bnDigitVal? at h
          split at h <;> first | decide | simp at h
      exact consumeMinusOrDigit_cut c q r r' line file ao t? n l hc h hq hs
    · rename_i h0
      rw [if_neg h0]
      split at h
      · rename_i k hk
        exact mkTok_cut c q r r' line file k t? n l h
      · rename_i hk
        split at h
        · rename_i h1; rw [if_pos h1]; exact consumeTwoChar_cut c q r r' line file _ _ t? n l h hq hs
        · rename_i h1; rw [if_neg h1]
          split at h
          · rename_i h2; rw [if_pos h2]; exact consumeTwoChar_cut c q r r' line file _ _ t? n l h hq hs
          · rename_i h2; rw [if_neg h2]
            split at h
            · rename_i h3; rw [if_pos h3]; exact consumeTwoChar_cut c q r r' line file _ _ t? n l h hq hs
            · rename_i h3; rw [if_neg h3]
              split at h
              · rename_i h4; rw [if_pos h4]; exact consumeTwoChar_cut c q r r' line file _ _ t? n l h hq hs
              · rename_i h4; rw [if_neg h4]
                split at h
                · rename_i h5; rw [if_pos h5]; exact consumeComment_cut c q r r' line file t? n l h hq
                · rename_i h5; rw [if_neg h5]
                  split at h
                  · rename_i h6; rw [if_pos h6]; exact consumeStringTok_cut c q r r' line file t? n l h hq
                  · rename_i h6; rw [if_neg h6]
                    split at h
                    · rename_i h7; rw [if_pos h7]; exact h
                    · rename_i h7; rw [if_neg h7]
                      split at h
                      · rename_i h8; rw [if_pos h8]; exact h
                      · rename_i h8; rw [if_neg h8]
                        exact consumeWord_cut c q r r' line file t? n l h hq hs
end Pakhi

namespace Pakhi

def pushTok (t? : Option Token) (acc : List Token) : List Token :=
  match t? with | some t => t :: acc | none => acc

/-- the operand flag after a step -/
def nextAo (t? : Option Token) (ao : Bool) : Bool :=
  match t? with | some t => endsOperand t.kind | none => ao

theorem lastEndsOperand_push (t? : Option Token) (acc : List Token) : lastEndsOperand (pushTok t? acc) = nextAo t? (lastEndsOperand acc) := by
  cases t? <;> rfl

theorem tokenizeLoop_step (file : Str) (f : Nat) (c : Char) (rest : Str) (line : Nat) (acc : List Token) (t? : Option Token) (n l : Nat)
    (h : consume (c :: rest) line file (lastEndsOperand acc) = .ok (t?, n, l)) :
    tokenizeLoop file (f+1) (c :: rest) line acc = tokenizeLoop file f ((c :: rest).drop n) (line + l) (pushTok t? acc) := by
  simp only [tokenizeLoop, h]
  cases t? <;> rfl

/-- `Cuts file r p line ao`: started on `p ++ r` (line `line`, operand flag `ao`) the tokenizer takes whole
    steps that end exactly at the end of `p` — the end of `p` is a token boundary of `p ++ r` -/
inductive Cuts (file : Str) (r : Str) : Str → Nat → Bool → Prop where
  | done (line : Nat) (ao : Bool) : Cuts file r [] line ao
  | step {p : Str} {line : Nat} {ao : Bool} {t? : Option Token} {n l : Nat} :
      consume (p ++ r) line file ao = .ok (t?, n, l) → n ≤ p.length →
      Cuts file r (p.drop n) (line + l) (nextAo t? ao) →
      Cuts file r p line ao

theorem sameStop_append (p r r' : Str) (hs : SameStop r r') : SameStop (p ++ r) (p ++ r') := by
  cases p with
  | nil => exact hs
  | cons c p => exact Or.inl rfl

theorem tokenizeLoop_fuel (file : Str) : ∀ (fuel fuel' : Nat) (src : Str) (line : Nat) (acc : List Token),
    src.length < fuel → src.length < fuel' → tokenizeLoop file fuel' src line acc = tokenizeLoop file fuel src line acc
  | 0, _, _, _, _, h, _ => by omega
  | _, 0, _, _, _, _, h => by omega
  | f+1, g+1, [], line, acc, _, _ => by simp [tokenizeLoop]
  | f+1, g+1, c :: rest, line, acc, h, h' => by
      simp only [tokenizeLoop]
      have g0 := consume_good c rest line file (lastEndsOperand acc)
      cases hc : consume (c :: rest) line file (lastEndsOperand acc) with
      | ok x =>
        obtain ⟨t?, n, l⟩ := x
        rw [hc] at g0
        have hn : 1 ≤ n := g0
        simp only
        apply tokenizeLoop_fuel file f g
        · simp at h ⊢; omega
        · simp at h' ⊢; omega
      | err e => rfl
      | panic s => rfl
      | fuel => rfl

theorem loop_cut (file : Str) (r r' : Str) (hs : SameStop r r') (T : Res (List Token) → Res (List Token) → Prop)
    (htail : ∀ fuel fuel' line acc, r.length < fuel → r'.length < fuel' →
      T (tokenizeLoop file fuel' r' line acc) (tokenizeLoop file fuel r line acc)) :
    ∀ (p : Str) (line : Nat) (ao : Bool), Cuts file r p line ao →
    ∀ (fuel fuel' : Nat) (acc : List Token), lastEndsOperand acc = ao → (p ++ r).length < fuel → (p ++ r').length < fuel' →
      T (tokenizeLoop file fuel' (p ++ r') line acc) (tokenizeLoop file fuel (p ++ r) line acc) := by
  intro p line ao hc
  induction hc with
  | done line ao => intro fuel fuel' acc _ h1 h2; exact htail fuel fuel' line acc (by simpa using h1) (by simpa using h2)
  | @step p line ao t? n l hcons hn _ ih =>
    intro fuel fuel' acc hao h1 h2
    have hn1 : 1 ≤ n := by
      cases hp : p ++ r with
      | nil => rw [hp] at hcons; simp [consume] at hcons
      | cons c tl =>
        have := consume_good c tl line file ao
        rw [← hp, hcons] at this; exact this
    obtain ⟨c, p', rfl⟩ : ∃ c p', p = c :: p' := by
      cases p with
      | nil => simp at hn; omega
      | cons c p' => exact ⟨c, p', rfl⟩
    obtain ⟨f, rfl⟩ : ∃ f, fuel = f + 1 := ⟨fuel - 1, by omega⟩
    obtain ⟨g, rfl⟩ : ∃ g, fuel' = g + 1 := ⟨fuel' - 1, by omega⟩
    have hsplit : ∀ x : Str, (c :: p') ++ x = (c :: p').take n ++ ((c :: p').drop n ++ x) := by
      intro x; rw [← List.append_assoc, List.take_append_drop]
    have hcons' : consume ((c :: p') ++ r') line file ao = .ok (t?, n, l) := by
      rw [hsplit r'] 
      rw [hsplit r] at hcons
      exact consume_cut _ _ _ line file ao t? n l hcons (List.length_take_of_le hn) (sameStop_append _ _ _ hs)
    have hd : ∀ x : Str, ((c :: p') ++ x).drop n = (c :: p').drop n ++ x := fun x => List.drop_append_of_le_length hn
    subst hao
    have e1 := tokenizeLoop_step file f c (p' ++ r) line acc t? n l hcons
    have e2 := tokenizeLoop_step file g c (p' ++ r') line acc t? n l hcons'
    have hd' : ∀ x : Str, (c :: (p' ++ x)).drop n = (c :: p').drop n ++ x := hd
    rw [hd'] at e1 e2
    show T (tokenizeLoop file (g+1) (c :: (p' ++ r')) line acc) (tokenizeLoop file (f+1) (c :: (p' ++ r)) line acc)
    rw [e1, e2]
    have hlen : ∀ x : Str, ((c :: p').drop n ++ x).length + n = ((c :: p') ++ x).length := by
      intro x; simp only [List.length_append, List.length_drop]; omega
    apply ih
    · exact lastEndsOperand_push t? acc
    · have := hlen r; omega
    · have := hlen r'; omega
end Pakhi

namespace Pakhi

def Res.reline {α : Type} (ln : Nat) : Res α → Res α
  | .err e => .err { e with line := ln }
  | x => x

def relineC (ln : Nat) : Consumed → Consumed
  | .ok (t?, n, l) => .ok (t?.map (fun t => { t with line := ln }), n, l)
  | .err e => .err { e with line := ln }
  | .panic s => .panic s
  | .fuel => .fuel

theorem scanNum_reline (line ln : Nat) (file : Str) : ∀ (fuel : Nat) (src : Str) (inFrac : Bool) (acc : Str) (n : Nat),
    scanNum ln file fuel src inFrac acc n = (scanNum line file fuel src inFrac acc n).reline ln
  | 0, _, _, _, _ => rfl
  | f+1, [], _, _, _ => rfl
  | f+1, c :: rest, inFrac, acc, n => by
      simp only [scanNum]
      split
      · split
        · rfl
        · exact scanNum_reline line ln file f rest true _ _
      · split
        · split
          · exact scanNum_reline line ln file f rest inFrac _ _
          · rfl
        · rfl

theorem skipComment_reline (line ln : Nat) (file : Str) : ∀ (fuel : Nat) (src : Str) (sk l : Nat),
    skipComment ln file fuel src sk l = (skipComment line file fuel src sk l).reline ln
  | 0, _, _, _ => rfl
  | f+1, [], _, _ => rfl
  | f+1, c :: rest, sk, l => by
      simp only [skipComment]
      split
      · rfl
      · split
        · split
          · exact skipComment_reline line ln file f _ _ _
          · exact skipComment_reline line ln file f _ _ _
        · split
          · exact skipComment_reline line ln file f _ _ _
          · exact skipComment_reline line ln file f _ _ _

theorem mkTok_reline (src : Str) (line ln : Nat) (file : Str) (k : TK) (n : Nat) :
    mkTok src ln file k n = relineC ln (mkTok src line file k n) := rfl

theorem consumeNumTok_reline (c : Char) (rest : Str) (line ln : Nat) (file : Str) :
    consumeNumTok (c :: rest) ln file = relineC ln (consumeNumTok (c :: rest) line file) := by
  unfold consumeNumTok
  rw [consumeNum_eq, consumeNum_eq]
  have hs : numScan c rest ln file = (numScan c rest line file).reline ln := by
    unfold numScan; split <;> exact scanNum_reline line ln file _ _ _ _ _
  rw [hs]
  cases numScan c rest line file with
  | ok tk =>
    obtain ⟨txt, k⟩ := tk
    simp only [Res.reline]
    cases Num.parseF64 txt <;> rfl
  | err e => rfl
  | panic s => rfl
  | fuel => rfl

theorem consume_reline (src : Str) (line ln : Nat) (file : Str) (ao : Bool) :
    consume src ln file ao = relineC ln (consume src line file ao) := by
  cases src with
  | nil => rfl
  | cons c rest =>
    unfold consume
    simp only
    split
    · rw [consumeMinusOrDigit_eq, consumeMinusOrDigit_eq]
      split
      · exact consumeNumTok_reline c rest line ln file
      · unfold minusArm; split <;> rfl
    · split
      · rfl
      · have tw : ∀ k2 k1, consumeTwoChar c rest ln file k2 k1 = relineC ln (consumeTwoChar c rest line file k2 k1) := by
          intro k2 k1; unfold consumeTwoChar; split <;> rfl
        split; exact tw _ _
        split; exact tw _ _
        split; exact tw _ _
        split; exact tw _ _
        split
        · unfold consumeComment
          rw [skipComment_reline line ln file]
          cases skipComment line file (rest.length + 1) rest 1 0 with
          | ok nl => obtain ⟨n, l⟩ := nl; rfl
          | err e => rfl
          | panic s => rfl
          | fuel => rfl
        split
        · rfl
        split; rfl
        split; rfl
        unfold consumeWord
        split
        · rfl
        · simp only; split <;> rfl

def noLine (t : Token) : Token := { t with line := 0 }

/-- a tokenizer result with every line number erased (token lines and the line of a lexical error) -/
def stripRes : Res (List Token) → Res (List Token)
  | .ok ts => .ok (ts.map noLine)
  | .err e => .err { e with line := 0 }
  | x => x

theorem lastEndsOperand_noLine : ∀ (acc acc' : List Token), acc.map noLine = acc'.map noLine → lastEndsOperand acc = lastEndsOperand acc'
  | [], [], _ => rfl
  | [], _ :: _, h => by simp at h
  | _ :: _, [], h => by simp at h
  | t :: _, t' :: _, h => by
      simp at h
      have : t.kind = t'.kind := (congrArg Token.kind h.1 : (noLine t).kind = (noLine t').kind)
      simp [lastEndsOperand, this]

/-- the token stream does not depend on the starting line (beyond the line numbers themselves) nor on the fuel -/
theorem tokenizeLoop_reline (file : Str) : ∀ (fuel fuel' : Nat) (src : Str) (line line' : Nat) (acc acc' : List Token),
    src.length < fuel → src.length < fuel' → acc.map noLine = acc'.map noLine →
    stripRes (tokenizeLoop file fuel' src line' acc') = stripRes (tokenizeLoop file fuel src line acc)
  | 0, _, _, _, _, _, _, h, _, _ => by omega
  | _, 0, _, _, _, _, _, _, h, _ => by omega
  | f+1, g+1, [], line, line', acc, acc', _, _, ha => by
      simp [tokenizeLoop, stripRes, ha]
  | f+1, g+1, c :: rest, line, line', acc, acc', h, h', ha => by
      have g0 := consume_good c rest line file (lastEndsOperand acc)
      have hr : consume (c :: rest) line' file (lastEndsOperand acc') = relineC line' (consume (c :: rest) line file (lastEndsOperand acc)) := by
        rw [← lastEndsOperand_noLine acc acc' ha]; exact consume_reline (c :: rest) line line' file _
      cases hc : consume (c :: rest) line file (lastEndsOperand acc) with
      | ok x =>
        obtain ⟨t?, n, l⟩ := x
        rw [hc] at g0 hr
        have hn : 1 ≤ n := g0
        simp only [relineC] at hr
        rw [tokenizeLoop_step file f c rest line acc t? n l hc, tokenizeLoop_step file g c rest line' acc' _ n l hr]
        apply tokenizeLoop_reline file f g
        · simp at h ⊢; omega
        · simp at h' ⊢; omega
        · cases t? with
          | none => exact ha
          | some t => simp [pushTok, ha, noLine]
      | err e =>
        rw [hc] at hr
        simp only [tokenizeLoop, hc, hr, relineC, stripRes]
      | panic s => rw [hc] at g0; exact absurd g0 (by simp [Consumed.Good])
      | fuel => rw [hc] at g0; exact absurd g0 (by simp [Consumed.Good])
end Pakhi

namespace Pakhi

theorem blank_step (file : Str) (f : Nat) (b : Char) (src : Str) (line : Nat) (acc : List Token) (hb : isBlank b = true) :
    tokenizeLoop file (f+1) (b :: src) line acc = tokenizeLoop file f src (line + if b = '\n' then 1 else 0) acc := by
  simp only [isBlank, Bool.or_eq_true, beq_iff_eq] at hb
  rcases hb with ((rfl | rfl) | rfl) | rfl <;> simp [tokenizeLoop, consume, simpleTok?, bnDigitVal?] <;> rfl

theorem blank_run_step (file : Str) : ∀ (bs : Str) (f : Nat) (src : Str) (line : Nat) (acc : List Token),
    (∀ b ∈ bs, isBlank b = true) →
    tokenizeLoop file (f + bs.length) (bs ++ src) line acc = tokenizeLoop file f src (line + countNewlines bs) acc
  | [], f, src, line, acc, _ => by simp [countNewlines]
  | b :: bs, f, src, line, acc, hb => by
      have h1 := blank_step file (f + bs.length) b (bs ++ src) line acc (hb b (by simp))
      have h2 := blank_run_step file bs f src (line + if b = '\n' then 1 else 0) acc (fun x hx => hb x (by simp [hx]))
      have e : f + (b :: bs).length = f + bs.length + 1 := by simp; omega
      rw [e, List.cons_append, h1, h2, countNewlines_cons]
      congr 1; omega

/-- a boundary of `p ++ r` is a boundary of `p ++ r'` when `r'` starts like `r` or with a blank -/
theorem cuts_sameStop (file : Str) (r r' : Str) (hs : SameStop r r') : ∀ (p : Str) (line : Nat) (ao : Bool),
    Cuts file r p line ao → Cuts file r' p line ao := by
  intro p line ao hc
  induction hc with
  | done line ao => exact .done line ao
  | @step p line ao t? n l hcons hn _ ih =>
    have hsplit : ∀ x : Str, p ++ x = p.take n ++ (p.drop n ++ x) := by
      intro x; rw [← List.append_assoc, List.take_append_drop]
    refine .step (t? := t?) (n := n) (l := l) ?_ hn ih
    rw [hsplit r'] 
    rw [hsplit r] at hcons
    exact consume_cut _ _ _ line file ao t? n l hcons (List.length_take_of_le hn) (sameStop_append _ _ _ hs)

/-- the generic relayout step: the text after a token boundary may be replaced by any text that starts with a
    blank (or with the same character) and has, from every state, the same tokens up to line numbers -/
theorem relayout_at_boundary (file : Str) (s1 r r' : Str) (hs : SameStop r r') (hcut : Cuts file r s1 1 false)
    (htail : ∀ fuel fuel' line acc, r.length < fuel → r'.length < fuel' →
      stripRes (tokenizeLoop file fuel' r' line acc) = stripRes (tokenizeLoop file fuel r line acc)) :
    stripRes (tokenize (s1 ++ r') file) = stripRes (tokenize (s1 ++ r) file) :=
  loop_cut file r r' hs (fun a b => stripRes a = stripRes b) htail s1 1 false hcut _ _ [] rfl (by omega) (by omega)

theorem blank_run_tail (file : Str) (bs s2 : Str) (hbs : ∀ b ∈ bs, isBlank b = true) (fuel fuel' line : Nat) (acc : List Token)
    (h1 : s2.length < fuel) (h2 : (bs ++ s2).length < fuel') :
    stripRes (tokenizeLoop file fuel' (bs ++ s2) line acc) = stripRes (tokenizeLoop file fuel s2 line acc) := by
  obtain ⟨g, rfl⟩ : ∃ g, fuel' = g + bs.length := ⟨fuel' - bs.length, by simp at h2; omega⟩
  rw [blank_run_step file bs g s2 line acc hbs]
  exact tokenizeLoop_reline file fuel g s2 line _ acc acc h1 (by simp at h2; omega) rfl

end Pakhi
