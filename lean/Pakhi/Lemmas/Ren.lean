/-
  Renaming of arena indexes: the relation between two runs of a program under different collection schedules
  (helper lemmas for C07 `gc_invisible`).
-/
import Pakhi.Model.Interp
namespace Pakhi

/-- pointwise relation of two lists (core has no `Forall₂`) -/
inductive All2 {α β : Type} (R : α → β → Prop) : List α → List β → Prop where
  | nil : All2 R [] []
  | cons {a b l l'} : R a b → All2 R l l' → All2 R (a :: l) (b :: l')

theorem All2.length {α β} {R : α → β → Prop} {l : List α} {l' : List β} (h : All2 R l l') : l.length = l'.length := by
  induction h <;> simp_all

theorem All2.mono {α β} {R S : α → β → Prop} (hRS : ∀ a b, R a b → S a b) {l : List α} {l' : List β} (h : All2 R l l') : All2 S l l' := by
  induction h with
  | nil => exact .nil
  | cons h1 _ ih => exact .cons (hRS _ _ h1) ih

theorem All2.append {α β} {R : α → β → Prop} {l1 l2 : List α} {l1' l2' : List β} (h1 : All2 R l1 l1') (h2 : All2 R l2 l2') :
    All2 R (l1 ++ l2) (l1' ++ l2') := by
  induction h1 with
  | nil => exact h2
  | cons h _ ih => exact .cons h ih

theorem All2.getElem? {α β} {R : α → β → Prop} {l : List α} {l' : List β} (h : All2 R l l') (i : Nat) :
    (l[i]? = none ∧ l'[i]? = none) ∨ ∃ a b, l[i]? = some a ∧ l'[i]? = some b ∧ R a b := by
  induction h generalizing i with
  | nil => left; simp
  | cons h1 _ ih =>
    cases i with
    | zero => right; exact ⟨_, _, by simp, by simp, h1⟩
    | succ i => simpa using ih i

theorem All2.set {α β} {R : α → β → Prop} {l : List α} {l' : List β} (h : All2 R l l') (i : Nat) {a : α} {b : β} (hab : R a b) :
    All2 R (l.set i a) (l'.set i b) := by
  induction h generalizing i with
  | nil => exact .nil
  | cons h1 h2 ih =>
    cases i with
    | zero => exact .cons hab h2
    | succ i => exact .cons h1 (ih i)

theorem All2.take {α β} {R : α → β → Prop} {l : List α} {l' : List β} (h : All2 R l l') (n : Nat) : All2 R (l.take n) (l'.take n) := by
  induction h generalizing n with
  | nil => simpa using All2.nil
  | cons h1 _ ih => cases n with
    | zero => exact .nil
    | succ n => exact .cons h1 (ih n)

theorem All2.drop {α β} {R : α → β → Prop} {l : List α} {l' : List β} (h : All2 R l l') (n : Nat) : All2 R (l.drop n) (l'.drop n) := by
  induction h generalizing n with
  | nil => simpa using All2.nil
  | cons h1 h2 ih => cases n with
    | zero => exact .cons h1 h2
    | succ n => exact ih n

theorem All2.dropLast {α β} {R : α → β → Prop} {l : List α} {l' : List β} (h : All2 R l l') : All2 R l.dropLast l'.dropLast := by
  induction h with
  | nil => exact .nil
  | cons h1 h2 ih =>
    cases h2 with
    | nil => exact .nil
    | cons h3 h4 => exact .cons h1 ih

/-- a renaming of arena indexes: which list / record slot of the left heap corresponds to which of the right heap -/
structure Ren where
  L : Nat → Nat → Prop
  R : Nat → Nat → Prop

def Ren.le (ρ ρ' : Ren) : Prop := (∀ i j, ρ.L i j → ρ'.L i j) ∧ (∀ i j, ρ.R i j → ρ'.R i j)
theorem Ren.le_refl (ρ : Ren) : ρ.le ρ := ⟨fun _ _ h => h, fun _ _ h => h⟩
theorem Ren.le_trans {a b c : Ren} (h1 : a.le b) (h2 : b.le c) : a.le c :=
  ⟨fun i j h => h2.1 i j (h1.1 i j h), fun i j h => h2.2 i j (h1.2 i j h)⟩

/-- values equal up to the renaming -/
def VRel (ρ : Ren) : Val → Val → Prop
  | .num a, .num b => a = b
  | .bool a, .bool b => a = b
  | .str a, .str b => a = b
  | .list i, .list j => ρ.L i j
  | .record i, .record j => ρ.R i j
  | .func r p, .func r' p' => r = r' ∧ p = p'
  | .nil, .nil => True
  | _, _ => False

def ERel (ρ : Ren) (a b : Str × Val) : Prop := a.1 = b.1 ∧ VRel ρ a.2 b.2

theorem VRel.mono {ρ ρ' : Ren} (h : ρ.le ρ') {v v' : Val} (hv : VRel ρ v v') : VRel ρ' v v' := by
  cases v <;> cases v' <;> simp_all [VRel]
  · exact h.1 _ _ hv
  · exact h.2 _ _ hv
theorem ERel.mono {ρ ρ' : Ren} (h : ρ.le ρ') {a b : Str × Val} (hv : ERel ρ a b) : ERel ρ' a b := ⟨hv.1, VRel.mono h hv.2⟩

/-- the two heaps agree, up to the renaming, on every slot the renaming mentions -/
structure HRel (ρ : Ren) (h h' : Heap) : Prop where
  funL : ∀ i j j', ρ.L i j → ρ.L i j' → j = j'
  injL : ∀ i i' j, ρ.L i j → ρ.L i' j → i = i'
  funR : ∀ i j j', ρ.R i j → ρ.R i j' → j = j'
  injR : ∀ i i' j, ρ.R i j → ρ.R i' j → i = i'
  lists : ∀ i j, ρ.L i j → ∃ l l', h.lists[i]? = some l ∧ h'.lists[j]? = some l' ∧ All2 (VRel ρ) l l'
  records : ∀ i j, ρ.R i j → ∃ r r', h.records[i]? = some r ∧ h'.records[j]? = some r' ∧ All2 (ERel ρ) r r'
  notFreeL : ∀ i j, ρ.L i j → i ∉ h.freeLists ∧ j ∉ h'.freeLists
  notFreeR : ∀ i j, ρ.R i j → i ∉ h.freeRecords ∧ j ∉ h'.freeRecords
  freeBL : (∀ i ∈ h.freeLists, i < h.lists.length) ∧ (∀ j ∈ h'.freeLists, j < h'.lists.length)
  freeBR : (∀ i ∈ h.freeRecords, i < h.records.length) ∧ (∀ j ∈ h'.freeRecords, j < h'.records.length)
  nodupL : h.freeLists.Nodup ∧ h'.freeLists.Nodup
  nodupR : h.freeRecords.Nodup ∧ h'.freeRecords.Nodup

/-- what `allocList` does, slot by slot -/
theorem allocList_spec (g : Heap) (x : List Val) (hfb : ∀ i ∈ g.freeLists, i < g.lists.length) (hnd : g.freeLists.Nodup) :
    ∃ a, (g.allocList x).1 = .list a ∧ (g.allocList x).2.lists[a]? = some x ∧
      (∀ k, k ≠ a → (g.allocList x).2.lists[k]? = g.lists[k]?) ∧
      (a ∈ g.freeLists ∨ a = g.lists.length) ∧
      (∀ k, k ∈ (g.allocList x).2.freeLists → k ∈ g.freeLists ∧ k ≠ a) ∧ (g.allocList x).2.freeLists.Nodup ∧
      g.lists.length ≤ (g.allocList x).2.lists.length ∧
      (g.allocList x).2.records = g.records ∧ (g.allocList x).2.freeRecords = g.freeRecords := by
  simp only [Heap.allocList]
  split
  · rename_i i rest hf
    have hf' : g.freeLists = i :: rest := hf
    have hi : i < g.lists.length := hfb i (by simp [hf'])
    rw [hf'] at hnd
    refine ⟨i, rfl, by simp [hi], ?_, Or.inl (by simp [hf']), ?_, (List.nodup_cons.mp hnd).2, by simp, rfl, rfl⟩
    · intro k hk; simp [List.getElem?_set, Ne.symm hk]
    · intro k hk
      exact ⟨by simp [hf', hk], fun e => (List.nodup_cons.mp hnd).1 (e ▸ hk)⟩
  · rename_i hf
    have hf' : g.freeLists = [] := hf
    refine ⟨g.lists.length, rfl, by simp, ?_, Or.inr rfl, ?_, by simp [hf'], by simp, rfl, rfl⟩
    · intro k hk
      by_cases hlt : k < g.lists.length
      · simp [List.getElem?_append_left hlt]
      · have : g.lists.length < k := by omega
        simp [List.getElem?_eq_none_iff.mpr (by omega : g.lists.length ≤ k)]
        omega
    · intro k hk; simp [hf'] at hk

theorem HRel.domL {ρ : Ren} {h h' : Heap} (hr : HRel ρ h h') {i j : Nat} (hij : ρ.L i j) :
    i < h.lists.length ∧ j < h'.lists.length ∧ i ∉ h.freeLists ∧ j ∉ h'.freeLists := by
  obtain ⟨l, l', h1, h2, _⟩ := hr.lists i j hij
  exact ⟨(List.getElem?_eq_some_iff.mp h1).1, (List.getElem?_eq_some_iff.mp h2).1, (hr.notFreeL i j hij).1, (hr.notFreeL i j hij).2⟩

/-- allocation of related lists gives related references, extending the renaming by the new pair -/
theorem allocList_rel {ρ : Ren} {h h' : Heap} (hr : HRel ρ h h') {l l' : List Val} (hl : All2 (VRel ρ) l l') :
    ∃ ρ', ρ.le ρ' ∧ HRel ρ' (h.allocList l).2 (h'.allocList l').2 ∧ VRel ρ' (h.allocList l).1 (h'.allocList l').1 := by
  obtain ⟨a, a1, a2, a3, a4, a5, a6, a7, a8, a9⟩ := allocList_spec h l hr.freeBL.1 hr.nodupL.1
  obtain ⟨b, b1, b2, b3, b4, b5, b6, b7, b8, b9⟩ := allocList_spec h' l' hr.freeBL.2 hr.nodupL.2
  have fa : ∀ j, ¬ ρ.L a j := by
    intro j hj
    obtain ⟨d1, _, d3, _⟩ := hr.domL hj
    rcases a4 with h4 | h4
    · exact d3 h4
    · omega
  have fb : ∀ i, ¬ ρ.L i b := by
    intro i hi
    obtain ⟨_, d2, _, d4⟩ := hr.domL hi
    rcases b4 with h4 | h4
    · exact d4 h4
    · omega
  let ρ' : Ren := ⟨fun i j => ρ.L i j ∨ (i = a ∧ j = b), ρ.R⟩
  have hle : ρ.le ρ' := ⟨fun i j hij => Or.inl hij, fun _ _ hij => hij⟩
  refine ⟨ρ', hle, ?_, by rw [a1, b1]; exact Or.inr ⟨rfl, rfl⟩⟩
  refine ⟨?_, ?_, hr.funR, hr.injR, ?_, ?_, ?_, ?_, ?_, ?_, ⟨a6, b6⟩, ?_⟩
  · intro i j j' h1 h2
    rcases h1 with h1 | ⟨rfl, rfl⟩ <;> rcases h2 with h2 | ⟨h2a, h2b⟩
    · exact hr.funL i j j' h1 h2
    · subst h2a; exact (fa j h1).elim
    · exact (fa j' h2).elim
    · exact h2b.symm
  · intro i i' j h1 h2
    rcases h1 with h1 | ⟨rfl, rfl⟩ <;> rcases h2 with h2 | ⟨h2a, h2b⟩
    · exact hr.injL i i' j h1 h2
    · subst h2b; exact (fb i h1).elim
    · exact (fb i' h2).elim
    · exact h2a.symm
  · intro i j hij
    rcases hij with hij | ⟨rfl, rfl⟩
    · obtain ⟨x, x', h1, h2, h3⟩ := hr.lists i j hij
      have hia : i ≠ a := fun e => fa j (e ▸ hij)
      have hjb : j ≠ b := fun e => fb i (e ▸ hij)
      exact ⟨x, x', by rw [a3 i hia]; exact h1, by rw [b3 j hjb]; exact h2, h3.mono (fun _ _ => VRel.mono hle)⟩
    · exact ⟨l, l', a2, b2, hl.mono (fun _ _ => VRel.mono hle)⟩
  · intro i j hij
    obtain ⟨x, x', h1, h2, h3⟩ := hr.records i j hij
    exact ⟨x, x', by rw [a8]; exact h1, by rw [b8]; exact h2, h3.mono (fun _ _ => ERel.mono hle)⟩
  · intro i j hij
    rcases hij with hij | ⟨rfl, rfl⟩
    · exact ⟨fun hm => (hr.notFreeL i j hij).1 (a5 i hm).1, fun hm => (hr.notFreeL i j hij).2 (b5 j hm).1⟩
    · exact ⟨fun hm => (a5 _ hm).2 rfl, fun hm => (b5 _ hm).2 rfl⟩
  · intro i j hij
    rw [a9, b9]; exact hr.notFreeR i j hij
  · exact ⟨fun i hi => Nat.lt_of_lt_of_le (hr.freeBL.1 i (a5 i hi).1) a7, fun j hj => Nat.lt_of_lt_of_le (hr.freeBL.2 j (b5 j hj).1) b7⟩
  · rw [a8, a9, b8, b9]; exact hr.freeBR
  · rw [a9, b9]; exact hr.nodupR

theorem allocRecord_spec (g : Heap) (x : RecordObj) (hfb : ∀ i ∈ g.freeRecords, i < g.records.length) (hnd : g.freeRecords.Nodup) :
    ∃ a, (g.allocRecord x).1 = .record a ∧ (g.allocRecord x).2.records[a]? = some x ∧
      (∀ k, k ≠ a → (g.allocRecord x).2.records[k]? = g.records[k]?) ∧
      (a ∈ g.freeRecords ∨ a = g.records.length) ∧
      (∀ k, k ∈ (g.allocRecord x).2.freeRecords → k ∈ g.freeRecords ∧ k ≠ a) ∧ (g.allocRecord x).2.freeRecords.Nodup ∧
      g.records.length ≤ (g.allocRecord x).2.records.length ∧
      (g.allocRecord x).2.lists = g.lists ∧ (g.allocRecord x).2.freeLists = g.freeLists := by
  simp only [Heap.allocRecord]
  split
  · rename_i i rest hf
    have hf' : g.freeRecords = i :: rest := hf
    have hi : i < g.records.length := hfb i (by simp [hf'])
    rw [hf'] at hnd
    refine ⟨i, rfl, by simp [hi], ?_, Or.inl (by simp [hf']), ?_, (List.nodup_cons.mp hnd).2, by simp, rfl, rfl⟩
    · intro k hk; simp [List.getElem?_set, Ne.symm hk]
    · intro k hk
      exact ⟨by simp [hf', hk], fun e => (List.nodup_cons.mp hnd).1 (e ▸ hk)⟩
  · rename_i hf
    have hf' : g.freeRecords = [] := hf
    refine ⟨g.records.length, rfl, by simp, ?_, Or.inr rfl, ?_, by simp [hf'], by simp, rfl, rfl⟩
    · intro k hk
      by_cases hlt : k < g.records.length
      · simp [List.getElem?_append_left hlt]
      · have : g.records.length < k := by omega
        simp [List.getElem?_eq_none_iff.mpr (by omega : g.records.length ≤ k)]
        omega
    · intro k hk; simp [hf'] at hk

theorem HRel.domR {ρ : Ren} {h h' : Heap} (hr : HRel ρ h h') {i j : Nat} (hij : ρ.R i j) :
    i < h.records.length ∧ j < h'.records.length ∧ i ∉ h.freeRecords ∧ j ∉ h'.freeRecords := by
  obtain ⟨l, l', h1, h2, _⟩ := hr.records i j hij
  exact ⟨(List.getElem?_eq_some_iff.mp h1).1, (List.getElem?_eq_some_iff.mp h2).1, (hr.notFreeR i j hij).1, (hr.notFreeR i j hij).2⟩

theorem allocRecord_rel {ρ : Ren} {h h' : Heap} (hr : HRel ρ h h') {l l' : RecordObj} (hl : All2 (ERel ρ) l l') :
    ∃ ρ', ρ.le ρ' ∧ HRel ρ' (h.allocRecord l).2 (h'.allocRecord l').2 ∧ VRel ρ' (h.allocRecord l).1 (h'.allocRecord l').1 := by
  obtain ⟨a, a1, a2, a3, a4, a5, a6, a7, a8, a9⟩ := allocRecord_spec h l hr.freeBR.1 hr.nodupR.1
  obtain ⟨b, b1, b2, b3, b4, b5, b6, b7, b8, b9⟩ := allocRecord_spec h' l' hr.freeBR.2 hr.nodupR.2
  have fa : ∀ j, ¬ ρ.R a j := by
    intro j hj
    obtain ⟨d1, _, d3, _⟩ := hr.domR hj
    rcases a4 with h4 | h4
    · exact d3 h4
    · omega
  have fb : ∀ i, ¬ ρ.R i b := by
    intro i hi
    obtain ⟨_, d2, _, d4⟩ := hr.domR hi
    rcases b4 with h4 | h4
    · exact d4 h4
    · omega
  let ρ' : Ren := ⟨ρ.L, fun i j => ρ.R i j ∨ (i = a ∧ j = b)⟩
  have hle : ρ.le ρ' := ⟨fun _ _ hij => hij, fun i j hij => Or.inl hij⟩
  refine ⟨ρ', hle, ?_, by rw [a1, b1]; exact Or.inr ⟨rfl, rfl⟩⟩
  refine ⟨hr.funL, hr.injL, ?_, ?_, ?_, ?_, ?_, ?_, ?_, ?_, ?_, ⟨a6, b6⟩⟩
  · intro i j j' h1 h2
    rcases h1 with h1 | ⟨rfl, rfl⟩ <;> rcases h2 with h2 | ⟨h2a, h2b⟩
    · exact hr.funR i j j' h1 h2
    · subst h2a; exact (fa j h1).elim
    · exact (fa j' h2).elim
    · exact h2b.symm
  · intro i i' j h1 h2
    rcases h1 with h1 | ⟨rfl, rfl⟩ <;> rcases h2 with h2 | ⟨h2a, h2b⟩
    · exact hr.injR i i' j h1 h2
    · subst h2b; exact (fb i h1).elim
    · exact (fb i' h2).elim
    · exact h2a.symm
  · intro i j hij
    obtain ⟨x, x', h1, h2, h3⟩ := hr.lists i j hij
    exact ⟨x, x', by rw [a8]; exact h1, by rw [b8]; exact h2, h3.mono (fun _ _ => VRel.mono hle)⟩
  · intro i j hij
    rcases hij with hij | ⟨rfl, rfl⟩
    · obtain ⟨x, x', h1, h2, h3⟩ := hr.records i j hij
      have hia : i ≠ a := fun e => fa j (e ▸ hij)
      have hjb : j ≠ b := fun e => fb i (e ▸ hij)
      exact ⟨x, x', by rw [a3 i hia]; exact h1, by rw [b3 j hjb]; exact h2, h3.mono (fun _ _ => ERel.mono hle)⟩
    · exact ⟨l, l', a2, b2, hl.mono (fun _ _ => ERel.mono hle)⟩
  · intro i j hij
    rw [a9, b9]; exact hr.notFreeL i j hij
  · intro i j hij
    rcases hij with hij | ⟨rfl, rfl⟩
    · exact ⟨fun hm => (hr.notFreeR i j hij).1 (a5 i hm).1, fun hm => (hr.notFreeR i j hij).2 (b5 j hm).1⟩
    · exact ⟨fun hm => (a5 _ hm).2 rfl, fun hm => (b5 _ hm).2 rfl⟩
  · rw [a8, a9, b8, b9]; exact hr.freeBL
  · exact ⟨fun i hi => Nat.lt_of_lt_of_le (hr.freeBR.1 i (a5 i hi).1) a7, fun j hj => Nat.lt_of_lt_of_le (hr.freeBR.2 j (b5 j hj).1) b7⟩
  · rw [a9, b9]; exact hr.nodupL

/-! ### association lists under the relation -/

theorem assocGet_rel {ρ : Ren} : ∀ {r r' : List (Str × Val)} (k : Str), All2 (ERel ρ) r r' →
    (assocGet r k = none ∧ assocGet r' k = none) ∨ ∃ v v', assocGet r k = some v ∧ assocGet r' k = some v' ∧ VRel ρ v v'
  | _, _, k, .nil => Or.inl ⟨rfl, rfl⟩
  | (k1, v1) :: _, (k2, v2) :: _, k, .cons h1 h2 => by
      obtain ⟨e, hv⟩ := h1
      simp only at e hv
      subst e
      simp only [assocGet]
      by_cases hk : (k1 == k) = true
      · simp only [hk, if_true]; exact Or.inr ⟨v1, v2, rfl, rfl, hv⟩
      · simp only [hk]; exact assocGet_rel k h2

theorem assocSet_rel {ρ : Ren} : ∀ {r r' : List (Str × Val)} (k : Str) {v v' : Val}, All2 (ERel ρ) r r' → VRel ρ v v' →
    All2 (ERel ρ) (assocSet r k v) (assocSet r' k v')
  | _, _, k, v, v', .nil, hv => .cons ⟨rfl, hv⟩ .nil
  | (k1, v1) :: _, (k2, v2) :: _, k, v, v', .cons h1 h2, hv => by
      obtain ⟨e, hv1⟩ := h1
      simp only at e hv1
      subst e
      simp only [assocSet]
      by_cases hk : (k1 == k) = true
      · simp only [hk, if_true]; exact .cons ⟨rfl, hv⟩ h2
      · simp only [hk]; exact .cons ⟨rfl, hv1⟩ (assocSet_rel k h2 hv)

/-- scope stacks related scope by scope, entry by entry -/
def ScRel (ρ : Ren) (a b : List Scope) : Prop := All2 (All2 (ERel ρ)) a b

theorem ScRel.mono {ρ ρ' : Ren} (h : ρ.le ρ') {a b : List Scope} (hs : ScRel ρ a b) : ScRel ρ' a b :=
  All2.mono (fun _ _ hx => All2.mono (fun _ _ => ERel.mono h) hx) hs

theorem lookupVar_rel {ρ : Ren} : ∀ {a b : List Scope} (n : Str), ScRel ρ a b →
    (lookupVar a n = none ∧ lookupVar b n = none) ∨ ∃ v v', lookupVar a n = some v ∧ lookupVar b n = some v' ∧ VRel ρ v v'
  | _, _, n, .nil => Or.inl ⟨rfl, rfl⟩
  | sc :: _, sc' :: _, n, .cons h1 h2 => by
      simp only [lookupVar]
      rcases assocGet_rel n h1 with ⟨e1, e2⟩ | ⟨v, v', e1, e2, hv⟩
      · simp only [e1, e2]; exact lookupVar_rel n h2
      · simp only [e1, e2]; exact Or.inr ⟨v, v', rfl, rfl, hv⟩

theorem assignVar_rel {ρ : Ren} {v v' : Val} (hv : VRel ρ v v') : ∀ {a b : List Scope} (n : Str), ScRel ρ a b →
    (assignVar a n v = none ∧ assignVar b n v' = none) ∨ ∃ a' b', assignVar a n v = some a' ∧ assignVar b n v' = some b' ∧ ScRel ρ a' b'
  | _, _, n, .nil => Or.inl ⟨rfl, rfl⟩
  | sc :: ra, sc' :: rb, n, .cons h1 h2 => by
      simp only [assignVar]
      rcases assocGet_rel n h1 with ⟨e1, e2⟩ | ⟨x, x', e1, e2, _⟩
      · simp only [e1, e2, Option.isSome_none, Bool.false_eq_true, if_false]
        rcases assignVar_rel hv n h2 with ⟨f1, f2⟩ | ⟨a', b', f1, f2, hr⟩
        · simp [f1, f2]
        · exact Or.inr ⟨sc :: a', sc' :: b', by simp [f1], by simp [f2], .cons h1 hr⟩
      · simp only [e1, e2, Option.isSome_some, if_true]
        exact Or.inr ⟨_, _, rfl, rfl, .cons (assocSet_rel n h1 hv) h2⟩

theorem declareVar_rel {ρ : Ren} {v v' : Val} (hv : VRel ρ v v') {a b : List Scope} (n : Str) (hs : ScRel ρ a b) :
    (∃ p, declareVar a n v = .panic p ∧ declareVar b n v' = .panic p) ∨
    ∃ a' b', declareVar a n v = .ok a' ∧ declareVar b n v' = .ok b' ∧ ScRel ρ a' b' := by
  cases hs with
  | nil => exact Or.inl ⟨_, rfl, rfl⟩
  | cons h1 h2 => exact Or.inr ⟨_, _, rfl, rfl, .cons (assocSet_rel n h1 hv) h2⟩

/-! ### heap updates at related slots -/

theorem HRel.setList {ρ : Ren} {h h' : Heap} (hr : HRel ρ h h') {i j : Nat} (hij : ρ.L i j) {l l' : List Val} (hl : All2 (VRel ρ) l l') :
    HRel ρ { h with lists := h.lists.set i l } { h' with lists := h'.lists.set j l' } := by
  obtain ⟨di, dj, _, _⟩ := hr.domL hij
  refine ⟨hr.funL, hr.injL, hr.funR, hr.injR, ?_, hr.records, hr.notFreeL, hr.notFreeR, ?_, hr.freeBR, hr.nodupL, hr.nodupR⟩
  · intro i2 j2 h2
    by_cases hi : i2 = i
    · subst hi
      have : j2 = j := hr.funL _ _ _ h2 hij
      subst this
      exact ⟨l, l', by simp [di], by simp [dj], hl⟩
    · have hj : j2 ≠ j := fun e => hi (hr.injL _ _ _ h2 (e ▸ hij))
      obtain ⟨x, x', e1, e2, e3⟩ := hr.lists i2 j2 h2
      exact ⟨x, x', by simp [List.getElem?_set, Ne.symm hi, e1], by simp [List.getElem?_set, Ne.symm hj, e2], e3⟩
  · exact ⟨fun k hk => by simpa using hr.freeBL.1 k hk, fun k hk => by simpa using hr.freeBL.2 k hk⟩

theorem HRel.setRecord {ρ : Ren} {h h' : Heap} (hr : HRel ρ h h') {i j : Nat} (hij : ρ.R i j) {l l' : RecordObj} (hl : All2 (ERel ρ) l l') :
    HRel ρ { h with records := h.records.set i l } { h' with records := h'.records.set j l' } := by
  obtain ⟨di, dj, _, _⟩ := hr.domR hij
  refine ⟨hr.funL, hr.injL, hr.funR, hr.injR, hr.lists, ?_, hr.notFreeL, hr.notFreeR, hr.freeBL, ?_, hr.nodupL, hr.nodupR⟩
  · intro i2 j2 h2
    by_cases hi : i2 = i
    · subst hi
      have : j2 = j := hr.funR _ _ _ h2 hij
      subst this
      exact ⟨l, l', by simp [di], by simp [dj], hl⟩
    · have hj : j2 ≠ j := fun e => hi (hr.injR _ _ _ h2 (e ▸ hij))
      obtain ⟨x, x', e1, e2, e3⟩ := hr.records i2 j2 h2
      exact ⟨x, x', by simp [List.getElem?_set, Ne.symm hi, e1], by simp [List.getElem?_set, Ne.symm hj, e2], e3⟩
  · exact ⟨fun k hk => by simpa using hr.freeBR.1 k hk, fun k hk => by simpa using hr.freeBR.2 k hk⟩

/-- outcomes related: same kind; values related under an extension of the renaming; errors identical -/
def RelRes {α β : Type} (ρ : Ren) (Q : Ren → α → β → Prop) (r : Res α) (r' : Res β) : Prop :=
  match r, r' with
  | .ok a, .ok b => ∃ ρ', ρ.le ρ' ∧ Q ρ' a b
  | .err e, .err e' => e = e'
  | .panic p, .panic p' => p = p'
  | .fuel, .fuel => True
  | _, _ => False

theorem RelRes.bind {α β α' β' : Type} {ρ : Ren} {Q : Ren → α → β → Prop} {Q2 : Ren → α' → β' → Prop} {r : Res α} {r' : Res β}
    {f : α → Res α'} {f' : β → Res β'} (h : RelRes ρ Q r r')
    (hf : ∀ ρ' a b, ρ.le ρ' → Q ρ' a b → RelRes ρ' Q2 (f a) (f' b)) : RelRes ρ Q2 (r.bind f) (r'.bind f') := by
  cases r <;> cases r' <;> simp_all [RelRes, Res.bind]
  obtain ⟨ρ', h1, h2⟩ := h
  have := hf ρ' _ _ h1 h2
  rename_i a b
  cases hfa : f a <;> cases hfb : f' b <;> simp_all [RelRes]
  obtain ⟨ρ'', h3, h4⟩ := this
  exact ⟨ρ'', Ren.le_trans h1 h3, h4⟩

theorem RelRes.ok {α β : Type} {ρ : Ren} {Q : Ren → α → β → Prop} {a : α} {b : β} (h : Q ρ a b) : RelRes ρ Q (.ok a) (.ok b) :=
  ⟨ρ, Ren.le_refl ρ, h⟩

theorem RelRes.tagOut {α β : Type} {ρ : Ren} {Q : Ren → α → β → Prop} {r : Res α} {r' : Res β} {o : List Out}
    (h : RelRes ρ Q r r') : RelRes ρ Q (r.tagOut o) (r'.tagOut o) := by
  cases r <;> cases r' <;> simp_all [RelRes, Res.tagOut]

theorem RelRes.mono {α β : Type} {ρ : Ren} {Q Q' : Ren → α → β → Prop} {r : Res α} {r' : Res β}
    (h : RelRes ρ Q r r') (hq : ∀ ρ' a b, ρ.le ρ' → Q ρ' a b → Q' ρ' a b) : RelRes ρ Q' r r' := by
  cases r <;> cases r' <;> simp_all [RelRes]
  obtain ⟨ρ', h1, h2⟩ := h
  exact ⟨ρ', h1, hq ρ' _ _ h1 h2⟩

theorem RelRes.weaken {α β : Type} {ρ0 ρ : Ren} {Q : Ren → α → β → Prop} {r : Res α} {r' : Res β}
    (hle : ρ0.le ρ) (h : RelRes ρ Q r r') : RelRes ρ0 Q r r' := by
  cases r <;> cases r' <;> simp_all [RelRes]
  obtain ⟨ρ', h1, h2⟩ := h
  exact ⟨ρ', Ren.le_trans hle h1, h2⟩

/-- equal pure errors / results that do not depend on the heap -/
theorem relRes_of_eq {α : Type} {ρ : Ren} {Q : Ren → α → α → Prop} (r : Res α) (hq : ∀ a, r = .ok a → Q ρ a a) : RelRes ρ Q r r := by
  cases r with
  | ok a => exact ⟨ρ, Ren.le_refl ρ, hq a rfl⟩
  | _ => simp [RelRes]

theorem relRes_stmtErr {α β : Type} {ρ : Ren} {Q : Ren → α → β → Prop} (cur : List Stmt) (c : ErrClass) (t : String) :
    RelRes ρ Q (stmtErr cur c t : Res α) (stmtErr cur c t : Res β) := by
  cases cur <;> simp [stmtErr, mkErr, unexpected, RelRes]
theorem relRes_metaErr {α β : Type} {ρ : Ren} {Q : Ren → α → β → Prop} (m : Meta) (c : ErrClass) (t : String) :
    RelRes ρ Q (metaErr m c t : Res α) (metaErr m c t : Res β) := by simp [metaErr, mkErr, RelRes]
theorem relRes_unexpected {α β : Type} {ρ : Ren} {Q : Ren → α → β → Prop} (t : String) :
    RelRes ρ Q (unexpected t : Res α) (unexpected t : Res β) := by simp [unexpected, RelRes]

/-! ### the pure operators -/

theorem VRel.kind {ρ : Ren} {v v' : Val} (h : VRel ρ v v') : v.kind = v'.kind := by
  cases v <;> cases v' <;> simp_all [VRel, Val.kind]

theorem mulDiv_rel {ρ : Ren} (op : TK) (m : Meta) {a a' b b' : Val} (ha : VRel ρ a a') (hb : VRel ρ b b') :
    mulDiv op m a b = mulDiv op m a' b' := by
  cases a <;> cases a' <;> simp_all [VRel] <;> cases b <;> cases b' <;> simp_all [VRel, mulDiv]

theorem compare_rel {ρ : Ren} (op : TK) (m : Meta) {a a' b b' : Val} (ha : VRel ρ a a') (hb : VRel ρ b b') :
    compare op m a b = compare op m a' b' := by
  cases a <;> cases a' <;> simp_all [VRel] <;> cases b <;> cases b' <;> simp_all [VRel, compare]

theorem andOr_rel {ρ : Ren} (isAnd : Bool) (m : Meta) {a a' b b' : Val} (ha : VRel ρ a a') (hb : VRel ρ b b') :
    andOr isAnd m a b = andOr isAnd m a' b' := by
  cases a <;> cases a' <;> simp_all [VRel] <;> cases b <;> cases b' <;> simp_all [VRel, andOr]

theorem unaryOp_rel {ρ : Ren} (op : TK) (m : Meta) {a a' : Val} (ha : VRel ρ a a') : unaryOp op m a = unaryOp op m a' := by
  cases a <;> cases a' <;> simp_all [VRel, unaryOp]

theorem valEq_rel {ρ : Ren} {h h' : Heap} (hr : HRel ρ h h') {a a' b b' : Val} (ha : VRel ρ a a') (hb : VRel ρ b b') :
    valEq a b = valEq a' b' := by
  cases a <;> cases a' <;> simp_all [VRel] <;> cases b <;> cases b' <;> simp_all [VRel, valEq]
  · rename_i i j i2 j2
    by_cases e : i = i2
    · subst e; have := hr.funL _ _ _ ha hb; subst this; rw [beq_self_eq_true, beq_self_eq_true]
    · have : j ≠ j2 := fun e2 => e (hr.injL _ _ _ ha (e2 ▸ hb)); rw [beq_eq_false_iff_ne.mpr e, beq_eq_false_iff_ne.mpr this]
  · rename_i i j i2 j2
    by_cases e : i = i2
    · subst e; have := hr.funR _ _ _ ha hb; subst this; rw [beq_self_eq_true, beq_self_eq_true]
    · have : j ≠ j2 := fun e2 => e (hr.injR _ _ _ ha (e2 ▸ hb)); rw [beq_eq_false_iff_ne.mpr e, beq_eq_false_iff_ne.mpr this]

theorem equality_rel {ρ : Ren} {h h' : Heap} (hr : HRel ρ h h') (op : TK) (m : Meta) {a a' b b' : Val} (ha : VRel ρ a a') (hb : VRel ρ b b') :
    equality op m a b = equality op m a' b' := by
  simp only [equality, valEq_rel hr ha hb]

/-- results of the scalar operators are scalars: related to themselves -/
theorem scalar_res_rel {ρ : Ren} (r : Res Val) (hs : ∀ v, r = .ok v → (∃ n, v = .num n) ∨ (∃ b, v = .bool b)) :
    RelRes ρ (fun ρ' v v' => VRel ρ' v v') r r := by
  refine relRes_of_eq r ?_
  intro v hv
  rcases hs v hv with ⟨n, rfl⟩ | ⟨b, rfl⟩ <;> simp [VRel]

def VHRel (ρ : Ren) (x y : Val × Heap) : Prop := VRel ρ x.1 y.1 ∧ HRel ρ x.2 y.2

theorem addSub_rel {ρ : Ren} {h h' : Heap} (hr : HRel ρ h h') (op : TK) (m : Meta) {a a' b b' : Val} (ha : VRel ρ a a') (hb : VRel ρ b b') :
    RelRes ρ VHRel (addSub op m a b h) (addSub op m a' b' h') := by
  have err : ∀ t, RelRes ρ VHRel (metaErr m .type t : Res (Val × Heap)) (metaErr m .type t) := fun t => relRes_metaErr m _ t
  cases a <;> cases a' <;> simp only [VRel] at ha <;> (try exact ha.elim) <;>
    cases b <;> cases b' <;> simp only [VRel] at hb <;> (try exact hb.elim) <;> simp only [addSub] <;> (try exact err _)
  · subst ha; subst hb
    split
    · exact RelRes.ok ⟨rfl, hr⟩
    · exact RelRes.ok ⟨rfl, hr⟩
    · exact err _
  · subst ha; subst hb
    split
    · exact RelRes.ok ⟨rfl, hr⟩
    · exact err _
  · obtain ⟨x, x', e1, e2, e3⟩ := hr.lists _ _ ha
    obtain ⟨y, y', f1, f2, f3⟩ := hr.lists _ _ hb
    simp only [e1, e2, f1, f2]
    split
    · obtain ⟨ρ', h1, h2, h3⟩ := allocList_rel hr (e3.append f3)
      exact ⟨ρ', h1, h3, h2⟩
    · exact err _

def VRelQ (ρ : Ren) (v v' : Val) : Prop := VRel ρ v v'

/-- outcome relation without growth of the renaming (for operations that allocate nothing) -/
def Rel0 {α β : Type} (Q : α → β → Prop) (r : Res α) (r' : Res β) : Prop :=
  match r, r' with
  | .ok a, .ok b => Q a b
  | .err e, .err e' => e = e'
  | .panic p, .panic p' => p = p'
  | .fuel, .fuel => True
  | _, _ => False

theorem Rel0.tagOut {α β : Type} {Q : α → β → Prop} {r : Res α} {r' : Res β} {o : List Out} (h : Rel0 Q r r') :
    Rel0 Q (r.tagOut o) (r'.tagOut o) := by
  cases r <;> cases r' <;> simp_all [Rel0, Res.tagOut]

theorem RelRes.bind0 {α β α' β' : Type} {ρ : Ren} {Q : α → β → Prop} {Q2 : Ren → α' → β' → Prop} {r : Res α} {r' : Res β}
    {f : α → Res α'} {f' : β → Res β'} (h : Rel0 Q r r') (hf : ∀ a b, Q a b → RelRes ρ Q2 (f a) (f' b)) :
    RelRes ρ Q2 (r.bind f) (r'.bind f') := by
  cases r <;> cases r' <;> simp_all [Rel0, RelRes, Res.bind]

theorem rel0_of_eq {α : Type} {Q : α → α → Prop} (r : Res α) (hq : ∀ a, r = .ok a → Q a a) : Rel0 Q r r := by
  cases r with
  | ok a => exact hq a rfl
  | _ => simp [Rel0]

theorem indexVal_rel {ρ : Ren} {h h' : Heap} (hr : HRel ρ h h') (m : Meta) {c c' i i' : Val} (hc : VRel ρ c c') (hi : VRel ρ i i') :
    Rel0 (VRel ρ) (indexVal m c i h) (indexVal m c' i' h') := by
  have err : ∀ cl t, Rel0 (VRel ρ) (metaErr m cl t : Res Val) (metaErr m cl t) := fun cl t => by simp [Rel0, metaErr, mkErr]
  cases c <;> cases c' <;> simp only [VRel] at hc <;> (try exact hc.elim) <;>
    cases i <;> cases i' <;> simp only [VRel] at hi <;> (try exact hi.elim) <;> simp only [indexVal] <;> (try exact err _ _)
  · -- list, num
    subst hi
    obtain ⟨l, l', e1, e2, e3⟩ := hr.lists _ _ hc
    simp only [e1, e2, e3.length]
    split
    · rename_i p hp
      rcases e3.getElem? p with ⟨g1, g2⟩ | ⟨x, y, g1, g2, g3⟩
      · simp [g1, g2, Rel0]
      · simp only [g1, g2]; exact g3
    · exact err _ _
  · -- record, str
    subst hi
    obtain ⟨r, r', e1, e2, e3⟩ := hr.records _ _ hc
    simp only [e1, e2]
    rename_i k
    rcases assocGet_rel k e3 with ⟨g1, g2⟩ | ⟨x, y, g1, g2, g3⟩
    · simp only [g1, g2]; exact err _ _
    · simp only [g1, g2]; exact g3

def HRelQ (ρ : Ren) (h h' : Heap) : Prop := HRel ρ h h'

theorem All2.set_list {ρ : Ren} {l l' : List Val} (h : All2 (VRel ρ) l l') (p : Nat) {v v' : Val} (hv : VRel ρ v v') :
    All2 (VRel ρ) (l.set p v) (l'.set p v') := All2.set h p hv

theorem assignPath_rel {ρ : Ren} (cur : List Stmt) {v v' : Val} (hv : VRel ρ v v') : ∀ (ixs : List Index) {c c' : Val} {h h' : Heap},
    HRel ρ h h' → VRel ρ c c' → RelRes ρ HRelQ (assignPath cur c ixs v h) (assignPath cur c' ixs v' h')
  | [], c, c', h, h', hr, hc => by simp only [assignPath]; exact RelRes.ok hr
  | ix :: rest, c, c', h, h', hr, hc => by
      have err : ∀ cl t, RelRes ρ HRelQ (stmtErr cur cl t : Res Heap) (stmtErr cur cl t) := fun cl t => relRes_stmtErr cur cl t
      cases c <;> cases c' <;> simp only [VRel] at hc <;> (try exact hc.elim) <;>
        cases ix <;> simp only [assignPath] <;> (try exact err _ _)
      · -- list, pos
        obtain ⟨l, l', e1, e2, e3⟩ := hr.lists _ _ hc
        simp only [e1, e2, e3.length]
        split
        · exact err _ _
        · rename_i p hp
          split
          · exact RelRes.ok (hr.setList hc (e3.set p hv))
          · rcases e3.getElem? p with ⟨g1, g2⟩ | ⟨x, y, g1, g2, g3⟩
            · simp [g1, g2, RelRes]
            · simp only [g1, g2]; exact assignPath_rel cur hv rest hr g3
      · -- record, key
        obtain ⟨r, r', e1, e2, e3⟩ := hr.records _ _ hc
        simp only [e1, e2]
        rename_i k
        split
        · exact RelRes.ok (hr.setRecord hc (assocSet_rel k e3 hv))
        · rcases assocGet_rel k e3 with ⟨g1, g2⟩ | ⟨x, y, g1, g2, g3⟩
          · simp only [g1, g2]; exact err _ _
          · simp only [g1, g2]; exact assignPath_rel cur hv rest hr g3

/-- the two machine states agree up to the renaming -/
structure SRel (ρ : Ren) (s s' : St) : Prop where
  scopes : ScRel ρ s.scopes s'.scopes
  heap : HRel ρ s.heap s'.heap
  out : s.out = s'.out
  loops : s.loops = s'.loops
  flags : s.flags = s'.flags
  world : s.world = s'.world

theorem SRel.mono_scopes {ρ ρ' : Ren} {s s' : St} (hle : ρ.le ρ') (h : SRel ρ s s') {hp hp' : Heap} (hh : HRel ρ' hp hp') :
    SRel ρ' { s with heap := hp } { s' with heap := hp' } :=
  ⟨h.scopes.mono hle, hh, h.out, h.loops, h.flags, h.world⟩

def CallRel (ρ : Ren) (x y : (Val × St) ⊕ Str) : Prop :=
  match x, y with
  | .inl a, .inl b => ∃ ρ', ρ.le ρ' ∧ VRel ρ' a.1 b.1 ∧ SRel ρ' a.2 b.2
  | .inr t, .inr t' => t = t'
  | _, _ => False

theorem callRel_same {ρ : Ren} {s s' : St} (hs : SRel ρ s s') {v v' : Val} (hv : VRel ρ v v') : CallRel ρ (.inl (v, s)) (.inl (v', s')) :=
  ⟨ρ, Ren.le_refl ρ, hv, hs⟩
theorem callRel_err {ρ : Ren} (t : Str) : CallRel ρ (.inr t) (.inr t) := rfl
theorem callRel_world {ρ : Ren} {s s' : St} (hs : SRel ρ s s') {v v' : Val} (hv : VRel ρ v v') (w : World) :
    CallRel ρ (.inl (v, { s with world := w })) (.inl (v', { s' with world := w })) :=
  ⟨ρ, Ren.le_refl ρ, hv, ⟨hs.scopes, hs.heap, hs.out, hs.loops, hs.flags, rfl⟩⟩
theorem callRel_setList {ρ : Ren} {s s' : St} (hs : SRel ρ s s') {i j : Nat} (hij : ρ.L i j) {l l' : List Val} (hl : All2 (VRel ρ) l l') :
    CallRel ρ (.inl (.nil, { s with heap := { s.heap with lists := s.heap.lists.set i l } }))
      (.inl (.nil, { s' with heap := { s'.heap with lists := s'.heap.lists.set j l' } })) :=
  ⟨ρ, Ren.le_refl ρ, trivial, ⟨hs.scopes, hs.heap.setList hij hl, hs.out, hs.loops, hs.flags, hs.world⟩⟩
theorem callRel_alloc {ρ : Ren} {s s' : St} (hs : SRel ρ s s') {l l' : List Val} (hl : All2 (VRel ρ) l l') :
    CallRel ρ (.inl ((s.heap.allocList l).1, { s with heap := (s.heap.allocList l).2 }))
      (.inl ((s'.heap.allocList l').1, { s' with heap := (s'.heap.allocList l').2 })) := by
  obtain ⟨ρ', h1, h2, h3⟩ := allocList_rel hs.heap hl
  exact ⟨ρ', h1, h3, hs.mono_scopes h1 h2⟩

theorem all2_strs {ρ : Ren} (xs : List Str) : All2 (VRel ρ) (xs.map Val.str) (xs.map Val.str) := by
  induction xs with
  | nil => exact .nil
  | cons x xs ih => exact .cons rfl ih

theorem mapM_str_rel {ρ : Ren} {l l' : List Val} (h : All2 (VRel ρ) l l') : l.mapM Val.str? = l'.mapM Val.str? := by
  induction h with
  | nil => rfl
  | @cons a b l1 l2 h1 _ ih =>
    have : a.str? = b.str? := by cases a <;> cases b <;> simp_all [VRel, Val.str?]
    simp [List.mapM_cons, this, ih]

theorem typeName_rel {ρ : Ren} {v v' : Val} (h : VRel ρ v v') : typeName v = typeName v' := by
  cases v <;> cases v' <;> simp_all [VRel, typeName]

theorem insertAt_rel {ρ : Ren} {l l' : List Val} (h : All2 (VRel ρ) l l') (p : Nat) {v v' : Val} (hv : VRel ρ v v') :
    All2 (VRel ρ) (insertAt l p v) (insertAt l' p v') := (h.take p).append (.cons hv (h.drop p))
theorem removeAt_rel {ρ : Ren} {l l' : List Val} (h : All2 (VRel ρ) l l') (p : Nat) :
    All2 (VRel ρ) (removeAt l p) (removeAt l' p) := (h.take p).append (h.drop (p+1))

set_option hygiene false in
macro "cfin" : tactic => `(tactic| first
  | exact callRel_err _
  | (subst_vars; exact callRel_same hs (by simp [VRel]))
  | (subst_vars; exact callRel_world hs (by simp [VRel]) _)
  | (obtain ⟨ρ', h1, h2, h3⟩ := allocList_rel hs.heap (all2_strs _); exact ⟨ρ', h1, h3, ⟨hs.scopes.mono h1, h2, hs.out, hs.loops, hs.flags, rfl⟩⟩))

set_option hygiene false in
macro "cbody" : tactic => `(tactic| ((try subst_vars); simp only [callB, hs.world]; (repeat' split) <;> (try cfin)))

set_option hygiene false in
macro "one_arg" : tactic => `(tactic| (
  cases ha with
  | nil => cbody
  | cons h1 t1 =>
    cases t1 with
    | nil =>
      rename_i a a'
      cases a <;> cases a' <;> simp only [VRel] at h1 <;> (try exact h1.elim) <;> cbody
    | cons h2 t2 => cbody))

set_option hygiene false in
macro "two_arg" : tactic => `(tactic| (
  cases ha with
  | nil => cbody
  | cons h1 t1 =>
    cases t1 with
    | nil => cbody
    | cons h2 t2 =>
      cases t2 with
      | nil =>
        rename_i a a' b b'
        cases a <;> cases a' <;> simp only [VRel] at h1 <;> (try exact h1.elim) <;>
          cases b <;> cases b' <;> simp only [VRel] at h2 <;> (try exact h2.elim) <;> cbody
      | cons h3 t3 => cbody))

theorem callB_rel {ρ : Ren} (k : Builtin) {args args' : List Val} {s s' : St} (ha : All2 (VRel ρ) args args') (hs : SRel ρ s s') :
    CallRel ρ (callB k args s) (callB k args' s') := by
  cases k
  case toString => one_arg
  case toNum => one_arg
  case type =>
    cases ha with
    | nil => cbody
    | cons h1 t1 =>
      cases t1 with
      | nil => simp only [callB, typeName_rel h1]; exact callRel_same hs rfl
      | cons h2 t2 => cbody
  case error => exact callRel_err _
  case readLine =>
    cases ha with
    | nil => cbody
    | cons h1 t1 => cbody
  case readFile => one_arg
  case fileOrDir => one_arg
  case deleteFile => one_arg
  case createDir => one_arg
  case deleteDir => one_arg
  case readDir => one_arg
  case writeFile => two_arg
  case stringSplit => two_arg
  case listLen =>
    cases ha with
    | nil => cbody
    | cons h1 t1 =>
      cases t1 with
      | nil =>
        rename_i a a'
        cases a <;> cases a' <;> simp only [VRel] at h1 <;> (try exact h1.elim)
        case list.list =>
          obtain ⟨l, l', e1, e2, e3⟩ := hs.heap.lists _ _ h1
          simp only [callB, e1, e2, e3.length]
          exact callRel_same hs rfl
        all_goals cbody
      | cons h2 t2 => cbody
  case stringJoin =>
    cases ha with
    | nil => cbody
    | cons h1 t1 =>
      cases t1 with
      | nil => cbody
      | cons h2 t2 =>
        cases t2 with
        | nil =>
          rename_i a a' b b'
          cases a <;> cases a' <;> simp only [VRel] at h1 <;> (try exact h1.elim) <;>
            cases b <;> cases b' <;> simp only [VRel] at h2 <;> (try exact h2.elim)
          case list.list.str.str =>
            subst h2
            obtain ⟨l, l', e1, e2, e3⟩ := hs.heap.lists _ _ h1
            simp only [callB, e1, e2, mapM_str_rel e3]
            split
            · exact callRel_same hs rfl
            · exact callRel_err _
          all_goals cbody
        | cons h3 t3 => cbody
  case listPop =>
    cases ha with
    | nil => cbody
    | cons h1 t1 =>
      cases t1 with
      | nil =>
        rename_i a a'
        cases a <;> cases a' <;> simp only [VRel] at h1 <;> (try exact h1.elim)
        case list.list =>
          obtain ⟨l, l', e1, e2, e3⟩ := hs.heap.lists _ _ h1
          simp only [callB, e1, e2]
          exact callRel_setList hs h1 e3.dropLast
        all_goals cbody
      | cons h2 t2 =>
        cases t2 with
        | nil =>
          rename_i a a' b b'
          cases a <;> cases a' <;> simp only [VRel] at h1 <;> (try exact h1.elim)
          case list.list =>
            obtain ⟨l, l', e1, e2, e3⟩ := hs.heap.lists _ _ h1
            cases b <;> cases b' <;> simp only [VRel] at h2 <;> (try exact h2.elim) <;> (try subst h2) <;> simp only [callB, e1, e2, e3.length]
            all_goals first
              | exact callRel_err _
              | (split
                 · exact callRel_setList hs h1 (removeAt_rel e3 _)
                 · exact callRel_err _)
          all_goals cbody
        | cons h3 t3 => cbody
  case listPush =>
    cases ha with
    | nil => cbody
    | cons h1 t1 =>
      cases t1 with
      | nil => cbody
      | cons h2 t2 =>
        cases t2 with
        | nil =>
          rename_i a a' b b'
          cases a <;> cases a' <;> simp only [VRel] at h1 <;> (try exact h1.elim)
          case list.list =>
            obtain ⟨l, l', e1, e2, e3⟩ := hs.heap.lists _ _ h1
            simp only [callB, e1, e2]
            exact callRel_setList hs h1 (e3.append (.cons h2 .nil))
          all_goals cbody
        | cons h3 t3 =>
          cases t3 with
          | nil =>
            rename_i a a' b b' c c'
            cases a <;> cases a' <;> simp only [VRel] at h1 <;> (try exact h1.elim)
            case list.list =>
              obtain ⟨l, l', e1, e2, e3⟩ := hs.heap.lists _ _ h1
              cases b <;> cases b' <;> simp only [VRel] at h2 <;> (try exact h2.elim) <;> (try subst h2) <;> simp only [callB, e1, e2, e3.length]
              all_goals first
                | exact callRel_err _
                | (split
                   · exact callRel_setList hs h1 (insertAt_rel e3 _ h3)
                   · exact callRel_err _)
            all_goals cbody
          | cons h4 t4 => cbody

def SRelQ (ρ : Ren) (s s' : St) : Prop := SRel ρ s s'

theorem SRel.emit {ρ : Ren} {s s' : St} (h : SRel ρ s s') (t : Str) : SRel ρ (s.emit t) (s'.emit t) :=
  ⟨h.scopes, h.heap, by simp [St.emit, h.out], h.loops, h.flags, h.world⟩
theorem SRel.mark {ρ : Ren} {s s' : St} (h : SRel ρ s s') (m : Out) : SRel ρ (s.mark m) (s'.mark m) :=
  ⟨h.scopes, h.heap, by simp [St.mark, h.out], h.loops, h.flags, h.world⟩

/-- outcome relation for the printers: they allocate nothing, so the renaming stays -/
def PRel (ρ : Ren) (r r' : Res St) : Prop :=
  match r, r' with
  | .ok a, .ok b => SRel ρ a b
  | .err e, .err e' => e = e'
  | .panic p, .panic p' => p = p'
  | .fuel, .fuel => True
  | _, _ => False

theorem PRel.toRel {ρ : Ren} {r r' : Res St} (h : PRel ρ r r') : RelRes ρ SRelQ r r' := by
  cases r <;> cases r' <;> simp_all [PRel, RelRes]
  exact ⟨ρ, Ren.le_refl ρ, h⟩

theorem pRel_stmtErr {ρ : Ren} (cur : List Stmt) (c : ErrClass) (t : String) {s s' : St} (hs : SRel ρ s s') :
    PRel ρ ((stmtErr cur c t).tagOut s.out) ((stmtErr cur c t).tagOut s'.out) := by
  rw [hs.out]; cases cur <;> simp [stmtErr, mkErr, unexpected, Res.tagOut, PRel]

theorem print_rel {ρ : Ren} (cur : List Stmt) : ∀ (f : Nat),
    (∀ v v' s s', VRel ρ v v' → SRel ρ s s' → PRel ρ (printVal cur f v s) (printVal cur f v' s')) ∧
    (∀ xs xs' first s s', All2 (VRel ρ) xs xs' → SRel ρ s s' → PRel ρ (printElems cur f xs first s) (printElems cur f xs' first s')) ∧
    (∀ xs xs' s s', All2 (ERel ρ) xs xs' → SRel ρ s s' → PRel ρ (printEntries cur f xs s) (printEntries cur f xs' s'))
  | 0 => by simp [printVal, printElems, printEntries, PRel]
  | f+1 => by
      obtain ⟨i1, i2, i3⟩ := print_rel (ρ := ρ) cur f
      refine ⟨?_, ?_, ?_⟩
      · intro v v' s s' hv hs
        cases v <;> cases v' <;> simp only [VRel] at hv <;> (try exact hv.elim)
        case num.num =>
          subst hv; simp only [printVal]; split
          · exact hs.emit _
          · exact pRel_stmtErr cur _ _ hs
        case bool.bool => subst hv; simp only [printVal]; exact hs.emit _
        case str.str => subst hv; simp only [printVal]; exact hs.emit _
        case list.list =>
          obtain ⟨l, l', e1, e2, e3⟩ := hs.heap.lists _ _ hv
          simp only [printVal, e1, e2]
          have h := i2 l l' true _ _ e3 (hs.emit ['['])
          cases hp : printElems cur f l true (s.emit ['[']) <;> cases hp' : printElems cur f l' true (s'.emit ['[']) <;>
            rw [hp, hp'] at h <;> simp only [PRel] at h ⊢ <;> (try exact h)
          exact SRel.emit h _
        case record.record =>
          obtain ⟨r, r', e1, e2, e3⟩ := hs.heap.records _ _ hv
          simp only [printVal, e1, e2]
          have h := i3 r r' _ _ e3 ((hs.emit ['@', '{']).mark .recStart)
          cases hp : printEntries cur f r ((s.emit ['@', '{']).mark .recStart) <;>
            cases hp' : printEntries cur f r' ((s'.emit ['@', '{']).mark .recStart) <;>
            rw [hp, hp'] at h <;> simp only [PRel] at h ⊢ <;> (try exact h)
          exact (SRel.mark h _).emit _
        case func.func => simp only [printVal]; exact pRel_stmtErr cur _ _ hs
        case nil.nil => simp only [printVal]; exact pRel_stmtErr cur _ _ hs
      · intro xs xs' first s s' hx hs
        cases hx with
        | nil => simp only [printElems]; exact hs
        | cons h1 h2 =>
          rename_i x x' xs xs'
          simp only [printElems]
          have hs0 : SRel ρ (if first then s else s.emit W.sepCommaSpace) (if first then s' else s'.emit W.sepCommaSpace) := by
            cases first
            · exact hs.emit _
            · exact hs
          have h := i1 x x' _ _ h1 hs0
          cases hp : printVal cur f x (if first then s else s.emit W.sepCommaSpace) <;>
            cases hp' : printVal cur f x' (if first then s' else s'.emit W.sepCommaSpace) <;>
            rw [hp, hp'] at h <;> simp only [PRel] at h ⊢ <;> (try exact h)
          exact i2 xs xs' false _ _ h2 h
      · intro xs xs' s s' hx hs
        cases hx with
        | nil => simp only [printEntries]; exact hs
        | cons h1 h2 =>
          rename_i kx kx' xs xs'
          obtain ⟨k, x⟩ := kx
          obtain ⟨k', x'⟩ := kx'
          obtain ⟨hk, hv⟩ := h1
          simp only at hk hv
          subst hk
          simp only [printEntries]
          have h := i1 x x' _ _ hv ((hs.mark .entStart).emit ('"' :: k ++ ['"', ':']))
          cases hp : printVal cur f x ((s.mark .entStart).emit ('"' :: k ++ ['"', ':'])) <;>
            cases hp' : printVal cur f x' ((s'.mark .entStart).emit ('"' :: k ++ ['"', ':'])) <;>
            rw [hp, hp'] at h <;> simp only [PRel] at h ⊢ <;> (try exact h)
          exact i3 xs xs' _ _ h2 ((SRel.emit h _).mark _)

def wrapEol (eol : Bool) (r : Res St) : Res St :=
  match r with
  | .ok s => .ok (if eol then s.emit ['\n'] else s)
  | .err e => .err e
  | .panic p => .panic p
  | .fuel => .fuel

theorem pRel_wrap {ρ : Ren} {r r' : Res St} (eol : Bool) (h : PRel ρ r r') : PRel ρ (wrapEol eol r) (wrapEol eol r') := by
  cases r <;> cases r' <;> simp only [PRel, wrapEol] at h ⊢ <;> (try exact h)
  cases eol
  · exact h
  · exact SRel.emit h _

theorem printTop_rel {ρ : Ren} (cur : List Stmt) (f : Nat) (eol : Bool) {v v' : Val} {s s' : St} (hv : VRel ρ v v') (hs : SRel ρ s s') :
    PRel ρ (printTop cur f eol v s) (printTop cur f eol v' s') := by
  have h := pRel_wrap eol ((print_rel (ρ := ρ) cur f).1 v v' s s' hv hs)
  cases v <;> cases v' <;> (try (simp only [VRel] at hv; done)) <;> simp only [printTop] <;>
    first | exact pRel_stmtErr cur _ _ hs | exact h
end Pakhi
