/-
  The evaluator commutes with renamings of arena indexes: two related states give related outcomes (helper lemmas for C07 `gc_invisible`).
-/
import Pakhi.Lemmas.Ren
namespace Pakhi

def VSRel (ρ : Ren) (x y : Val × St) : Prop := VRel ρ x.1 y.1 ∧ SRel ρ x.2 y.2
def LSRel (ρ : Ren) (x y : List Val × St) : Prop := All2 (VRel ρ) x.1 y.1 ∧ SRel ρ x.2 y.2
def RSRel (ρ : Ren) (x y : RecordObj × St) : Prop := All2 (ERel ρ) x.1 y.1 ∧ SRel ρ x.2 y.2
def CSRel (ρ : Ren) (x y : List Stmt × St) : Prop := x.1 = y.1 ∧ SRel ρ x.2 y.2
def ISRel (ρ : Ren) (x y : List Index × St) : Prop := x.1 = y.1 ∧ SRel ρ x.2 y.2

/-- binary operations on evaluated operands that commute with the renaming and return scalars -/
def OpOK (op : Val → Val → Res Val) : Prop :=
  ∀ (ρ : Ren) (h h' : Heap) (a a' b b' : Val), HRel ρ h h' → VRel ρ a a' → VRel ρ b b' →
    op a b = op a' b' ∧ ∀ v, op a b = .ok v → VRel ρ v v


theorem scalar_self {ρ : Ren} {v : Val} (h : (∃ n, v = .num n) ∨ (∃ b, v = .bool b)) : VRel ρ v v := by
  rcases h with ⟨n, rfl⟩ | ⟨b, rfl⟩ <;> simp [VRel]

theorem mulDiv_scalar {op : TK} {m : Meta} {a b v : Val} (h : mulDiv op m a b = .ok v) : (∃ n, v = .num n) ∨ (∃ b, v = .bool b) := by
  simp only [mulDiv] at h
  repeat' split at h
  all_goals (first | (simp [metaErr, mkErr] at h; done) | (simp at h; exact Or.inl ⟨_, h.symm⟩))
theorem compare_scalar {op : TK} {m : Meta} {a b v : Val} (h : compare op m a b = .ok v) : (∃ n, v = .num n) ∨ (∃ b, v = .bool b) := by
  simp only [compare] at h
  repeat' split at h
  all_goals (first | (simp [metaErr, mkErr] at h; done) | (simp at h; exact Or.inr ⟨_, h.symm⟩))
theorem equality_scalar {op : TK} {m : Meta} {a b v : Val} (h : equality op m a b = .ok v) : (∃ n, v = .num n) ∨ (∃ b, v = .bool b) := by
  simp only [equality] at h
  repeat' split at h
  all_goals (first | (simp [metaErr, mkErr] at h; done) | (simp at h; exact Or.inr ⟨_, h.symm⟩))
theorem andOr_scalar {isAnd : Bool} {m : Meta} {a b v : Val} (h : andOr isAnd m a b = .ok v) : (∃ n, v = .num n) ∨ (∃ b, v = .bool b) := by
  simp only [andOr] at h
  repeat' split at h
  all_goals (first | (simp [metaErr, mkErr] at h; done) | (simp at h; exact Or.inr ⟨_, h.symm⟩))
theorem unaryOp_scalar {op : TK} {m : Meta} {a v : Val} (h : unaryOp op m a = .ok v) : (∃ n, v = .num n) ∨ (∃ b, v = .bool b) := by
  simp only [unaryOp] at h
  repeat' split at h
  all_goals (first | (simp [metaErr, mkErr] at h; done) | (simp at h; exact Or.inl ⟨_, h.symm⟩) | (simp at h; exact Or.inr ⟨_, h.symm⟩))

theorem opOK_andOr (isAnd : Bool) (m : Meta) : OpOK (fun a b => andOr isAnd m a b) :=
  fun _ _ _ _ _ _ _ _ ha hb => ⟨andOr_rel isAnd m ha hb, fun _ hv => scalar_self (andOr_scalar hv)⟩
theorem opOK_equality (op : TK) (m : Meta) : OpOK (fun a b => equality op m a b) :=
  fun _ _ _ _ _ _ _ hr ha hb => ⟨equality_rel hr op m ha hb, fun _ hv => scalar_self (equality_scalar hv)⟩
theorem opOK_compare (op : TK) (m : Meta) : OpOK (fun a b => compare op m a b) :=
  fun _ _ _ _ _ _ _ _ ha hb => ⟨compare_rel op m ha hb, fun _ hv => scalar_self (compare_scalar hv)⟩
theorem opOK_mulDiv (op : TK) (m : Meta) : OpOK (fun a b => mulDiv op m a b) :=
  fun _ _ _ _ _ _ _ _ ha hb => ⟨mulDiv_rel op m ha hb, fun _ hv => scalar_self (mulDiv_scalar hv)⟩

theorem RelRes.tagOut2 {α β : Type} {ρ : Ren} {Q : Ren → α → β → Prop} {r : Res α} {r' : Res β} {o o' : List Out} (ho : o = o')
    (h : RelRes ρ Q r r') : RelRes ρ Q (r.tagOut o) (r'.tagOut o') := by subst ho; exact h.tagOut
theorem Rel0.tagOut2 {α β : Type} {Q : α → β → Prop} {r : Res α} {r' : Res β} {o o' : List Out} (ho : o = o')
    (h : Rel0 Q r r') : Rel0 Q (r.tagOut o) (r'.tagOut o') := by subst ho; exact h.tagOut

/-- a scalar result, tagged with the current output, then returned with the state -/
theorem rel_tag_scalar {ρ : Ren} {s s' : St} (hs : SRel ρ s s') (x : Res Val) (hx : ∀ v, x = .ok v → VRel ρ v v) :
    RelRes ρ VSRel ((x.tagOut s.out).bind fun v => .ok (v, s)) ((x.tagOut s'.out).bind fun v => .ok (v, s')) := by
  rw [hs.out]
  cases x with
  | ok v => exact RelRes.ok ⟨hx v rfl, hs⟩
  | _ => simp [Res.tagOut, Res.bind, RelRes]

section
variable (prog : List Stmt)

structure EvalRen (f : Nat) : Prop where
  eval : ∀ cur e s s' ρ, SRel ρ s s' → RelRes ρ VSRel (eval prog f cur e s) (eval prog f cur e s')
  evalBin : ∀ cur lf op l r s s' ρ, OpOK op → SRel ρ s s' → RelRes ρ VSRel (evalBin prog f cur lf op l r s) (evalBin prog f cur lf op l r s')
  evalList : ∀ cur es s s' ρ, SRel ρ s s' → RelRes ρ LSRel (evalList prog f cur es s) (evalList prog f cur es s')
  evalRecord : ∀ cur ks vs acc acc' s s' ρ, All2 (ERel ρ) acc acc' → SRel ρ s s' →
    RelRes ρ RSRel (evalRecord prog f cur ks vs acc s) (evalRecord prog f cur ks vs acc' s')
  evalCall : ∀ cur callee args s s' ρ, SRel ρ s s' → RelRes ρ VSRel (evalCall prog f cur callee args s) (evalCall prog f cur callee args s')
  bindParams : ∀ cur params args env env' s s' ρ, All2 (ERel ρ) env env' → SRel ρ s s' →
    RelRes ρ RSRel (bindParams prog f cur params args env s) (bindParams prog f cur params args env' s')
  callLoop : ∀ cur s s' ρ, SRel ρ s s' → RelRes ρ VSRel (callLoop prog f cur s) (callLoop prog f cur s')
  exec : ∀ cur s s' ρ, SRel ρ s s' → RelRes ρ CSRel (exec prog f cur s) (exec prog f cur s')
  execAssign : ∀ cur a s s' ρ, SRel ρ s s' → RelRes ρ SRelQ (execAssign prog f cur a s) (execAssign prog f cur a s')
  evalIndexes : ∀ cur ixs s s' ρ, SRel ρ s s' → RelRes ρ ISRel (evalIndexes prog f cur ixs s) (evalIndexes prog f cur ixs s')

theorem evalRen_zero : EvalRen prog 0 := by
  constructor <;> intros <;> simp only [eval, evalBin, evalList, evalRecord, evalCall, bindParams, callLoop, exec, execAssign, evalIndexes, RelRes]

theorem SRel.withHeap {ρ ρ' : Ren} {s s' : St} (hs : SRel ρ s s') (hle : ρ.le ρ') {h h' : Heap} (hh : HRel ρ' h h') :
    SRel ρ' { s with heap := h } { s' with heap := h' } := hs.mono_scopes hle hh

theorem ren_eval (f : Nat) (ih : EvalRen prog f) (cur : List Stmt) (e : Expr) (s s' : St) (ρ : Ren) (hs : SRel ρ s s') :
    RelRes ρ VSRel (eval prog (f+1) cur e s) (eval prog (f+1) cur e s') := by
  cases e with
  | nil m => simp only [eval]; exact RelRes.ok ⟨trivial, hs⟩
  | str t m => simp only [eval]; exact RelRes.ok ⟨rfl, hs⟩
  | num n m => simp only [eval]; exact RelRes.ok ⟨rfl, hs⟩
  | bool b m => simp only [eval]; exact RelRes.ok ⟨rfl, hs⟩
  | var tok m =>
    simp only [eval]
    rcases lookupVar_rel tok.lexeme hs.scopes with ⟨e1, e2⟩ | ⟨v, v', e1, e2, hv⟩
    · simp only [e1, e2, hs.out]; exact RelRes.tagOut (relRes_stmtErr cur _ _)
    · simp only [e1, e2]; exact RelRes.ok ⟨hv, hs⟩
  | list es m =>
    simp only [eval]
    refine RelRes.bind (ih.evalList cur es s s' ρ hs) ?_
    rintro ρ1 ⟨vs, s1⟩ ⟨vs', s1'⟩ _ ⟨hvs, hs1⟩
    obtain ⟨ρ2, h1, h2, h3⟩ := allocList_rel hs1.heap hvs
    exact ⟨ρ2, h1, h3, hs1.withHeap h1 h2⟩
  | group e m => simp only [eval]; exact ih.eval cur e s s' ρ hs
  | record ks vs m =>
    simp only [eval]
    refine RelRes.bind (ih.evalRecord cur ks vs [] [] s s' ρ .nil hs) ?_
    rintro ρ1 ⟨r, s1⟩ ⟨r', s1'⟩ _ ⟨hr, hs1⟩
    obtain ⟨ρ2, h1, h2, h3⟩ := allocRecord_rel hs1.heap hr
    exact ⟨ρ2, h1, h3, hs1.withHeap h1 h2⟩
  | unary op r m =>
    simp only [eval]
    refine RelRes.bind (ih.eval cur r s s' ρ hs) ?_
    rintro ρ1 ⟨v, s1⟩ ⟨v', s1'⟩ _ ⟨hv, hs1⟩
    have hv : VRel ρ1 v v' := hv
    have hs1 : SRel ρ1 s1 s1' := hs1
    simp only [unaryOp_rel op r.meta hv]
    exact rel_tag_scalar hs1 _ (fun x hx => scalar_self (unaryOp_scalar hx))
  | and l r m => simp only [eval]; exact ih.evalBin cur _ _ l r s s' ρ (opOK_andOr _ _) hs
  | or l r m => simp only [eval]; exact ih.evalBin cur _ _ l r s s' ρ (opOK_andOr _ _) hs
  | equality op l r m => simp only [eval]; exact ih.evalBin cur _ _ l r s s' ρ (opOK_equality _ _) hs
  | comparison op l r m => simp only [eval]; exact ih.evalBin cur _ _ l r s s' ρ (opOK_compare _ _) hs
  | muldiv op l r m => simp only [eval]; exact ih.evalBin cur _ _ l r s s' ρ (opOK_mulDiv _ _) hs
  | addsub op l r m =>
    simp only [eval]
    refine RelRes.bind (ih.eval cur l s s' ρ hs) ?_
    rintro ρ1 ⟨a, s1⟩ ⟨a', s1'⟩ _ ⟨ha, hs1⟩
    have ha : VRel ρ1 a a' := ha
    have hs1 : SRel ρ1 s1 s1' := hs1
    refine RelRes.bind (ih.eval cur r s1 s1' ρ1 hs1) ?_
    rintro ρ2 ⟨b, s2⟩ ⟨b', s2'⟩ h12 ⟨hb, hs2⟩
    have hb : VRel ρ2 b b' := hb
    have hs2 : SRel ρ2 s2 s2' := hs2
    refine RelRes.bind (RelRes.tagOut2 hs2.out (addSub_rel hs2.heap op l.meta (VRel.mono h12 ha) hb)) ?_
    rintro ρ3 ⟨v, h⟩ ⟨v', h'⟩ h23 ⟨hv, hh⟩
    exact RelRes.ok ⟨hv, hs2.withHeap h23 hh⟩
  | indexing c i m =>
    simp only [eval]
    refine RelRes.bind (ih.eval cur c s s' ρ hs) ?_
    rintro ρ1 ⟨cv, s1⟩ ⟨cv', s1'⟩ _ ⟨hc, hs1⟩
    have hc : VRel ρ1 cv cv' := hc
    have hs1 : SRel ρ1 s1 s1' := hs1
    refine RelRes.bind (ih.eval cur i s1 s1' ρ1 hs1) ?_
    rintro ρ2 ⟨iv, s2⟩ ⟨iv', s2'⟩ h12 ⟨hi, hs2⟩
    have hi : VRel ρ2 iv iv' := hi
    have hs2 : SRel ρ2 s2 s2' := hs2
    refine RelRes.bind0 (Rel0.tagOut2 hs2.out (indexVal_rel hs2.heap i.meta (VRel.mono h12 hc) hi)) ?_
    intro v v' hv
    exact RelRes.ok ⟨hv, hs2⟩
  | call callee args m => simp only [eval]; exact ih.evalCall cur callee args s s' ρ hs

theorem ren_evalBin (f : Nat) (ih : EvalRen prog f) (cur : List Stmt) (lf : Bool) (op : Val → Val → Res Val) (l r : Expr) (s s' : St) (ρ : Ren)
    (hop : OpOK op) (hs : SRel ρ s s') : RelRes ρ VSRel (evalBin prog (f+1) cur lf op l r s) (evalBin prog (f+1) cur lf op l r s') := by
  simp only [evalBin]
  split
  · refine RelRes.bind (ih.eval cur l s s' ρ hs) ?_
    rintro ρ1 ⟨a, s1⟩ ⟨a', s1'⟩ _ ⟨ha, hs1⟩
    have ha : VRel ρ1 a a' := ha
    have hs1 : SRel ρ1 s1 s1' := hs1
    refine RelRes.bind (ih.eval cur r s1 s1' ρ1 hs1) ?_
    rintro ρ2 ⟨b, s2⟩ ⟨b', s2'⟩ h12 ⟨hb, hs2⟩
    have hb : VRel ρ2 b b' := hb
    have hs2 : SRel ρ2 s2 s2' := hs2
    obtain ⟨e1, e2⟩ := hop ρ2 s2.heap s2'.heap a a' b b' hs2.heap (VRel.mono h12 ha) hb
    show RelRes ρ2 VSRel (((op a b).tagOut s2.out).bind _) (((op a' b').tagOut s2'.out).bind _)
    rw [← e1]
    exact rel_tag_scalar hs2 _ e2
  · refine RelRes.bind (ih.eval cur r s s' ρ hs) ?_
    rintro ρ1 ⟨b, s1⟩ ⟨b', s1'⟩ _ ⟨hb, hs1⟩
    have hb : VRel ρ1 b b' := hb
    have hs1 : SRel ρ1 s1 s1' := hs1
    refine RelRes.bind (ih.eval cur l s1 s1' ρ1 hs1) ?_
    rintro ρ2 ⟨a, s2⟩ ⟨a', s2'⟩ h12 ⟨ha, hs2⟩
    have ha : VRel ρ2 a a' := ha
    have hs2 : SRel ρ2 s2 s2' := hs2
    obtain ⟨e1, e2⟩ := hop ρ2 s2.heap s2'.heap a a' b b' hs2.heap ha (VRel.mono h12 hb)
    show RelRes ρ2 VSRel (((op a b).tagOut s2.out).bind _) (((op a' b').tagOut s2'.out).bind _)
    rw [← e1]
    exact rel_tag_scalar hs2 _ e2

theorem ren_evalList (f : Nat) (ih : EvalRen prog f) (cur : List Stmt) (es : Exprs) (s s' : St) (ρ : Ren) (hs : SRel ρ s s') :
    RelRes ρ LSRel (evalList prog (f+1) cur es s) (evalList prog (f+1) cur es s') := by
  cases es with
  | nil => simp only [evalList]; exact RelRes.ok ⟨.nil, hs⟩
  | cons e rest =>
    simp only [evalList]
    refine RelRes.bind (ih.eval cur e s s' ρ hs) ?_
    rintro ρ1 ⟨v, s1⟩ ⟨v', s1'⟩ _ ⟨hv, hs1⟩
    have hv : VRel ρ1 v v' := hv
    have hs1 : SRel ρ1 s1 s1' := hs1
    refine RelRes.bind (ih.evalList cur rest s1 s1' ρ1 hs1) ?_
    rintro ρ2 ⟨vs, s2⟩ ⟨vs', s2'⟩ h12 ⟨hvs, hs2⟩
    exact RelRes.ok ⟨.cons (VRel.mono h12 hv) hvs, hs2⟩

theorem ren_evalRecord (f : Nat) (ih : EvalRen prog f) (cur : List Stmt) (ks vs : Exprs) (acc acc' : RecordObj) (s s' : St) (ρ : Ren)
    (hacc : All2 (ERel ρ) acc acc') (hs : SRel ρ s s') :
    RelRes ρ RSRel (evalRecord prog (f+1) cur ks vs acc s) (evalRecord prog (f+1) cur ks vs acc' s') := by
  cases ks with
  | nil => cases vs <;> simp only [evalRecord] <;> exact RelRes.ok ⟨hacc, hs⟩
  | cons k ks' =>
    cases vs with
    | nil => simp [evalRecord, RelRes]
    | cons v vs' =>
      simp only [evalRecord]
      refine RelRes.bind (ih.eval cur k s s' ρ hs) ?_
      rintro ρ1 ⟨kv, s1⟩ ⟨kv', s1'⟩ h01 ⟨hk, hs1⟩
      have hk : VRel ρ1 kv kv' := hk
      have hs1 : SRel ρ1 s1 s1' := hs1
      have hacc1 : All2 (ERel ρ1) acc acc' := hacc.mono (fun _ _ => ERel.mono h01)
      cases kv <;> cases kv' <;> simp only [VRel] at hk <;> (try exact hk.elim)
      case str.str =>
        subst hk
        simp only
        refine RelRes.bind (ih.eval cur v s1 s1' ρ1 hs1) ?_
        rintro ρ2 ⟨vv, s2⟩ ⟨vv', s2'⟩ h12 ⟨hvv, hs2⟩
        exact ih.evalRecord cur ks' vs' _ _ s2 s2' ρ2 (assocSet_rel _ (hacc1.mono (fun _ _ => ERel.mono h12)) hvv) hs2
      all_goals exact ih.evalRecord cur ks' vs' acc acc' s1 s1' ρ1 hacc1 hs1

theorem ren_bindParams (f : Nat) (ih : EvalRen prog f) (cur : List Stmt) (params : List Str) (args : Exprs) (env env' : Scope) (s s' : St) (ρ : Ren)
    (henv : All2 (ERel ρ) env env') (hs : SRel ρ s s') :
    RelRes ρ RSRel (bindParams prog (f+1) cur params args env s) (bindParams prog (f+1) cur params args env' s') := by
  cases params with
  | nil => simp only [bindParams]; exact RelRes.ok ⟨henv, hs⟩
  | cons p ps =>
    cases args with
    | nil =>
      simp only [bindParams]
      exact ih.bindParams cur ps .nil _ _ s s' ρ (assocSet_rel p henv trivial) hs
    | cons a rest =>
      simp only [bindParams]
      refine RelRes.bind (ih.eval cur a s s' ρ hs) ?_
      rintro ρ1 ⟨v, s1⟩ ⟨v', s1'⟩ h01 ⟨hv, hs1⟩
      exact ih.bindParams cur ps rest _ _ s1 s1' ρ1 (assocSet_rel p (henv.mono (fun _ _ => ERel.mono h01)) hv) hs1

theorem ren_callLoop (f : Nat) (ih : EvalRen prog f) (cur : List Stmt) (s s' : St) (ρ : Ren) (hs : SRel ρ s s') :
    RelRes ρ VSRel (callLoop prog (f+1) cur s) (callLoop prog (f+1) cur s') := by
  simp only [callLoop]
  split
  · exact ih.eval _ _ s s' ρ hs
  · refine RelRes.bind (ih.exec cur s s' ρ hs) ?_
    rintro ρ1 ⟨c, s1⟩ ⟨c', s1'⟩ _ ⟨hc, hs1⟩
    have hc : c = c' := hc
    subst hc
    exact ih.callLoop c s1 s1' ρ1 hs1

theorem ren_evalIndexes (f : Nat) (ih : EvalRen prog f) (cur : List Stmt) (ixs : List Expr) (s s' : St) (ρ : Ren) (hs : SRel ρ s s') :
    RelRes ρ ISRel (evalIndexes prog (f+1) cur ixs s) (evalIndexes prog (f+1) cur ixs s') := by
  cases ixs with
  | nil => simp only [evalIndexes]; exact RelRes.ok ⟨rfl, hs⟩
  | cons ix rest =>
    simp only [evalIndexes]
    refine RelRes.bind (ih.eval cur ix s s' ρ hs) ?_
    rintro ρ1 ⟨v, s1⟩ ⟨v', s1'⟩ _ ⟨hv, hs1⟩
    have hv : VRel ρ1 v v' := hv
    have hs1 : SRel ρ1 s1 s1' := hs1
    cases v <;> cases v' <;> simp only [VRel] at hv <;> (try exact hv.elim)
    case list.list =>
      obtain ⟨l, l', e1, e2, e3⟩ := hs1.heap.lists _ _ hv
      simp only [e1, e2]
      have herr : RelRes ρ1 ISRel
          (((metaErr ix.meta .runtime "index-must-be-number-or-string" : Res Index).tagOut s1.out).bind fun i1 =>
            (evalIndexes prog f cur rest s1).bind fun x => .ok (i1 :: x.1, x.2))
          (((metaErr ix.meta .runtime "index-must-be-number-or-string" : Res Index).tagOut s1'.out).bind fun i1 =>
            (evalIndexes prog f cur rest s1').bind fun x => .ok (i1 :: x.1, x.2)) := by
        have ho : s1.out = s1'.out := hs1.out
        rw [ho]; simp [metaErr, mkErr, Res.tagOut, Res.bind, RelRes]
      have hok : ∀ (i1 : Index), RelRes ρ1 ISRel
          ((Res.ok i1).bind fun i1 => (evalIndexes prog f cur rest s1).bind fun x => .ok (i1 :: x.1, x.2))
          ((Res.ok i1).bind fun i1 => (evalIndexes prog f cur rest s1').bind fun x => .ok (i1 :: x.1, x.2)) := by
        intro i1
        simp only [Res.bind_ok']
        refine RelRes.bind (ih.evalIndexes cur rest s1 s1' ρ1 hs1) ?_
        rintro ρ2 ⟨is, s2⟩ ⟨is', s2'⟩ _ ⟨hi, hs2⟩
        have hi : is = is' := hi
        subst hi
        exact RelRes.ok ⟨rfl, hs2⟩
      cases e3 with
      | nil => exact herr
      | @cons x x' _ _ h1 _ =>
        cases x <;> cases x' <;> simp only [VRel] at h1 <;> (try exact h1.elim) <;> (try subst h1)
        case num.num => exact hok _
        case str.str => exact hok _
        all_goals exact herr
    all_goals exact RelRes.tagOut2 hs1.out (relRes_metaErr _ _ _)

theorem ren_execAssign (f : Nat) (ih : EvalRen prog f) (cur : List Stmt) (a : Assignment) (s s' : St) (ρ : Ren) (hs : SRel ρ s s') :
    RelRes ρ SRelQ (execAssign prog (f+1) cur a s) (execAssign prog (f+1) cur a s') := by
  simp only [execAssign]
  split
  · split
    · rename_i e he
      refine RelRes.bind (ih.eval cur e s s' ρ hs) ?_
      rintro ρ1 ⟨v, s1⟩ ⟨v', s1'⟩ _ ⟨hv, hs1⟩
      have hv : VRel ρ1 v v' := hv
      have hs1 : SRel ρ1 s1 s1' := hs1
      rcases declareVar_rel hv a.var.lexeme hs1.scopes with ⟨p, e1, e2⟩ | ⟨sc, sc', e1, e2, hsc⟩
      · simp [e1, e2, Res.bind, RelRes]
      · simp only [e1, e2, Res.bind]
        exact RelRes.ok ⟨hsc, hs1.heap, hs1.out, hs1.loops, hs1.flags, hs1.world⟩
    · rcases declareVar_rel (ρ := ρ) (v := .nil) (v' := .nil) trivial a.var.lexeme hs.scopes with ⟨p, e1, e2⟩ | ⟨sc, sc', e1, e2, hsc⟩
      · simp [e1, e2, Res.bind, RelRes]
      · simp only [e1, e2, Res.bind]
        exact RelRes.ok ⟨hsc, hs.heap, hs.out, hs.loops, hs.flags, hs.world⟩
  · split
    · simp [RelRes]
    · rename_i e he
      refine RelRes.bind (ih.eval cur e s s' ρ hs) ?_
      rintro ρ1 ⟨v, s1⟩ ⟨v', s1'⟩ _ ⟨hv, hs1⟩
      have hv : VRel ρ1 v v' := hv
      have hs1 : SRel ρ1 s1 s1' := hs1
      simp only
      rcases lookupVar_rel a.var.lexeme hs1.scopes with ⟨e1, e2⟩ | ⟨x, x', e1, e2, hx⟩
      · simp only [e1, e2]; exact RelRes.tagOut2 hs1.out (relRes_stmtErr cur _ _)
      · simp only [e1, e2]
        split
        · rcases assignVar_rel hv a.var.lexeme hs1.scopes with ⟨g1, g2⟩ | ⟨sc, sc', g1, g2, hsc⟩
          · simp [g1, g2, RelRes]
          · simp only [g1, g2]
            exact RelRes.ok ⟨hsc, hs1.heap, hs1.out, hs1.loops, hs1.flags, hs1.world⟩
        · refine RelRes.bind (ih.evalIndexes cur a.indexes s1 s1' ρ1 hs1) ?_
          rintro ρ2 ⟨ixs, s2⟩ ⟨ixs', s2'⟩ h12 ⟨hi, hs2⟩
          have hi : ixs = ixs' := hi
          have hs2 : SRel ρ2 s2 s2' := hs2
          subst hi
          simp only
          cases cur with
          | nil => simp only; exact RelRes.tagOut2 hs2.out (relRes_unexpected _)
          | cons st rest =>
            simp only
            rcases lookupVar_rel a.var.lexeme hs2.scopes with ⟨k1, k2⟩ | ⟨c, c', k1, k2, hc⟩
            · simp only [k1, k2]; exact RelRes.tagOut2 hs2.out (relRes_stmtErr _ _ _)
            · simp only [k1, k2]
              refine RelRes.bind (RelRes.tagOut2 hs2.out (assignPath_rel (st :: rest) (VRel.mono h12 hv) ixs hs2.heap hc)) ?_
              intro ρ3 h h' h23 hh
              exact RelRes.ok (hs2.withHeap h23 hh)

theorem callBuiltin_rel {ρ : Ren} (n : Str) {args args' : List Val} {s s' : St} (ha : All2 (VRel ρ) args args') (hs : SRel ρ s s') :
    CallRel ρ (callBuiltin n args s) (callBuiltin n args' s') := by
  simp only [callBuiltin]
  split
  · exact callB_rel _ ha hs
  · exact callRel_err _

theorem relRes_curErr {α β : Type} {ρ : Ren} {Q : Ren → α → β → Prop} (cur : List Stmt) {s s' : St} (ho : s.out = s'.out) (msg : Str) :
    RelRes ρ Q (curErr cur s msg : Res α) (curErr cur s' msg : Res β) := by
  cases cur <;> simp [curErr, unexpected, Res.tagOut, RelRes, ho]

theorem ren_evalCall (f : Nat) (ih : EvalRen prog f) (cur : List Stmt) (callee : Expr) (args : Exprs) (s s' : St) (ρ : Ren) (hs : SRel ρ s s') :
    RelRes ρ VSRel (evalCall prog (f+1) cur callee args s) (evalCall prog (f+1) cur callee args s') := by
  simp only [evalCall]
  split
  · rename_i tok vm hcallee
    split
    · refine RelRes.bind (ih.evalList cur args s s' ρ hs) ?_
      rintro ρ1 ⟨vs, s1⟩ ⟨vs', s1'⟩ _ ⟨hvs, hs1⟩
      have hvs : All2 (VRel ρ1) vs vs' := hvs
      have hs1 : SRel ρ1 s1 s1' := hs1
      simp only
      split
      · -- `_এরর`
        cases hvs with
        | nil => simp only; exact RelRes.tagOut2 hs1.out (relRes_stmtErr _ _ _)
        | @cons x x' _ _ h1 t1 =>
          cases t1 with
          | nil =>
            cases x <;> cases x' <;> simp only [VRel] at h1 <;> (try exact h1.elim) <;> (try subst h1) <;> simp only
            case str.str => exact relRes_curErr cur hs1.out _
            all_goals exact RelRes.tagOut2 hs1.out (relRes_stmtErr _ _ _)
          | cons h2 t2 => simp only; exact RelRes.tagOut2 hs1.out (relRes_stmtErr _ _ _)
      · have hc := callBuiltin_rel tok.lexeme hvs hs1
        cases h1 : callBuiltin tok.lexeme vs s1 <;> cases h2 : callBuiltin tok.lexeme vs' s1' <;> rw [h1, h2] at hc <;>
          simp only [CallRel] at hc <;> (try exact hc.elim)
        · obtain ⟨ρ2, a1, a2, a3⟩ := hc
          exact ⟨ρ2, a1, a2, a3⟩
        · subst hc
          simp only
          split
          · simp [RelRes]
          · exact relRes_curErr cur hs1.out _
    · rcases lookupVar_rel tok.lexeme hs.scopes with ⟨e1, e2⟩ | ⟨x, x', e1, e2, hx⟩
      · simp only [e1, e2]; exact RelRes.tagOut2 hs.out (relRes_stmtErr _ _ _)
      · simp only [e1, e2]
        cases x <;> cases x' <;> simp only [VRel] at hx <;> (try exact hx.elim) <;> simp only
        case func.func =>
          obtain ⟨rfl, rfl⟩ := hx
          refine RelRes.bind (ih.bindParams cur _ args [] [] s s' ρ .nil hs) ?_
          rintro ρ1 ⟨env, s1⟩ ⟨env', s1'⟩ _ ⟨henv, hs1⟩
          have henv : All2 (ERel ρ1) env env' := henv
          have hs1 : SRel ρ1 s1 s1' := hs1
          simp only
          split
          · rename_i bm body hb
            have hs1c : SRel ρ1 { s1 with scopes := env :: s1.scopes } { s1' with scopes := env' :: s1'.scopes } :=
              ⟨.cons henv hs1.scopes, hs1.heap, hs1.out, hs1.loops, hs1.flags, hs1.world⟩
            refine RelRes.bind (ih.callLoop _ _ _ ρ1 hs1c) ?_
            rintro ρ2 ⟨v, s2⟩ ⟨v', s2'⟩ _ ⟨hv, hs2⟩
            have hv : VRel ρ2 v v' := hv
            have hs2 : SRel ρ2 s2 s2' := hs2
            refine RelRes.ok ⟨hv, ?_, hs2.heap, hs2.out, ?_, ?_, hs2.world⟩
            · show ScRel ρ2 (s2.scopes.drop (s2.scopes.length - s1.scopes.length)) (s2'.scopes.drop (s2'.scopes.length - s1'.scopes.length))
              rw [← All2.length hs2.scopes, ← All2.length hs1.scopes]
              exact All2.drop hs2.scopes _
            · show s2.loops.drop (s2.loops.length - s1.loops.length) = s2'.loops.drop (s2'.loops.length - s1'.loops.length)
              rw [hs2.loops, hs1.loops]
            · show s2.flags.drop (s2.flags.length - s1.flags.length) = s2'.flags.drop (s2'.flags.length - s1'.flags.length)
              rw [hs2.flags, hs1.flags]
          · exact RelRes.tagOut2 hs1.out (relRes_unexpected _)
        all_goals exact RelRes.tagOut2 hs.out (relRes_metaErr _ _ _)
  · exact RelRes.tagOut2 hs.out (relRes_stmtErr _ _ _)

theorem rel_pure_bind {α : Type} {ρ : Ren} (x : Res α) (c : α → List Stmt) (g g' : α → St) (hg : ∀ a, SRel ρ (g a) (g' a)) :
    RelRes ρ CSRel (x.bind fun a => .ok (c a, g a)) (x.bind fun a => .ok (c a, g' a)) := by
  cases x with
  | ok a => exact RelRes.ok ⟨rfl, hg a⟩
  | _ => simp [Res.bind, RelRes]

theorem execFuncDef_rel {ρ : Ren} (rest : List Stmt) {s s' : St} (hs : SRel ρ s s') :
    RelRes ρ CSRel (execFuncDef prog rest s) (execFuncDef prog rest s') := by
  simp only [execFuncDef]
  split
  · split
    · split
      · exact relRes_metaErr _ _ _
      · rename_i body _ ftok vm _ params hpar
        rcases declareVar_rel (ρ := ρ) (v := .func body.length params) (v' := .func body.length params) ⟨rfl, rfl⟩ ftok.lexeme hs.scopes
          with ⟨p, e1, e2⟩ | ⟨sc, sc', e1, e2, hsc⟩
        · simp only [e1, e2]; simp [RelRes]
        · simp only [e1, e2]
          split
          · split
            · exact relRes_unexpected _
            · exact RelRes.ok ⟨rfl, hsc, hs.heap, hs.out, hs.loops, hs.flags, hs.world⟩
            · split
              · exact relRes_metaErr _ _ _
              · exact relRes_unexpected _
          · simp [RelRes]
          · simp [RelRes]
          · simp [RelRes]
    · exact relRes_metaErr _ _ _
  · exact relRes_stmtErr _ _ _

theorem ren_exec (f : Nat) (ih : EvalRen prog f) (cur : List Stmt) (s s' : St) (ρ : Ren) (hs : SRel ρ s s') :
    RelRes ρ CSRel (exec prog (f+1) cur s) (exec prog (f+1) cur s') := by
  have hlen : s.scopes.length = s'.scopes.length := All2.length hs.scopes
  cases cur with
  | nil => simp only [exec]; exact RelRes.tagOut2 hs.out (relRes_unexpected _)
  | cons st rest =>
    cases st with
    | print e m =>
      simp only [exec]
      refine RelRes.bind (ih.eval _ e s s' ρ hs) ?_
      rintro ρ1 ⟨v, s1⟩ ⟨v', s1'⟩ _ ⟨hv, hs1⟩
      refine RelRes.bind (printTop_rel _ f true hv hs1).toRel ?_
      intro ρ2 a b _ hab
      exact RelRes.ok ⟨rfl, hab⟩
    | printNoEOL e m =>
      simp only [exec]
      refine RelRes.bind (ih.eval _ e s s' ρ hs) ?_
      rintro ρ1 ⟨v, s1⟩ ⟨v', s1'⟩ _ ⟨hv, hs1⟩
      refine RelRes.bind (printTop_rel _ f false hv hs1).toRel ?_
      intro ρ2 a b _ hab
      exact RelRes.ok ⟨rfl, hab⟩
    | expr e m =>
      simp only [exec]
      refine RelRes.bind (ih.eval _ e s s' ρ hs) ?_
      rintro ρ1 ⟨v, s1⟩ ⟨v', s1'⟩ _ ⟨hv, hs1⟩
      exact RelRes.ok ⟨rfl, hs1⟩
    | assign a m =>
      simp only [exec]
      refine RelRes.bind (ih.execAssign _ a s s' ρ hs) ?_
      intro ρ1 a b _ hab
      exact RelRes.ok ⟨rfl, hab⟩
    | «if» c m =>
      simp only [exec]
      refine RelRes.bind (ih.eval rest c s s' ρ hs) ?_
      rintro ρ1 ⟨v, s1⟩ ⟨v', s1'⟩ _ ⟨hv, hs1⟩
      have hv : VRel ρ1 v v' := hv
      have hs1 : SRel ρ1 s1 s1' := hs1
      cases v <;> cases v' <;> simp only [VRel] at hv <;> (try exact hv.elim) <;> (try subst hv) <;> simp only
      case bool.bool =>
        rename_i b
        cases b
        · simp only
          have hx : (skipBlockInIf rest (false :: s1'.flags)).tagOut s1'.out = (skipBlockInIf rest (false :: s1.flags)).tagOut s1.out := by
            rw [show s1'.flags = s1.flags from hs1.flags.symm, show s1'.out = s1.out from hs1.out.symm]
          rw [hx]
          exact rel_pure_bind _ (fun (x : List Stmt × List Bool) => x.1) (fun x => { s1 with flags := x.2 }) (fun x => { s1' with flags := x.2 })
            (fun x => ⟨hs1.scopes, hs1.heap, hs1.out, hs1.loops, rfl, hs1.world⟩)
        · simp only
          exact RelRes.ok ⟨rfl, hs1.scopes, hs1.heap, hs1.out, hs1.loops, by show true :: s1.flags = true :: s1'.flags; rw [hs1.flags], hs1.world⟩
      all_goals exact RelRes.tagOut2 hs1.out (relRes_metaErr _ _ _)
    | «else» m =>
      simp only [exec]
      cases hf : s.flags with
      | nil =>
        have hf' : s'.flags = [] := by rw [← hs.flags]; exact hf
        simp only [hf']; exact RelRes.tagOut2 hs.out (relRes_stmtErr _ _ _)
      | cons b fl =>
        have hf' : s'.flags = b :: fl := by rw [← hs.flags]; exact hf
        simp only [hf']
        cases b
        · simp only
          exact RelRes.ok ⟨rfl, hs.scopes, hs.heap, hs.out, hs.loops, rfl, hs.world⟩
        · simp only
          have hx : (skipBlockInIf rest (true :: fl)).tagOut s'.out = (skipBlockInIf rest (true :: fl)).tagOut s.out := by rw [hs.out]
          rw [hx]
          exact rel_pure_bind _ (fun (x : List Stmt × List Bool) => x.1) (fun x => { s with flags := x.2 }) (fun x => { s' with flags := x.2 })
            (fun x => ⟨hs.scopes, hs.heap, hs.out, hs.loops, rfl, hs.world⟩)
    | funcDef m =>
      simp only [exec]
      exact RelRes.tagOut2 hs.out (execFuncDef_rel prog rest hs)
    | loop m =>
      simp only [exec]
      exact RelRes.ok ⟨rfl, hs.scopes, hs.heap, hs.out, by show _ :: s.loops = _ :: s'.loops; rw [hs.loops, hlen], hs.flags, hs.world⟩
    | cont m =>
      simp only [exec]
      cases hl : s.loops with
      | nil =>
        have hl' : s'.loops = [] := by rw [← hs.loops]; exact hl
        simp only [hl']; exact RelRes.tagOut2 hs.out (relRes_stmtErr _ _ _)
      | cons l ls =>
        have hl' : s'.loops = l :: ls := by rw [← hs.loops]; exact hl
        simp only [hl']
        refine RelRes.ok ⟨rfl, ?_, hs.heap, hs.out, rfl, hs.flags, hs.world⟩
        show ScRel ρ (s.scopes.drop (s.scopes.length - l.envs)) (s'.scopes.drop (s'.scopes.length - l.envs))
        rw [hlen]; exact All2.drop hs.scopes _
    | brk m =>
      simp only [exec]
      cases hl : s.loops with
      | nil =>
        have hl' : s'.loops = [] := by rw [← hs.loops]; exact hl
        simp only [hl']
        have hx : (breakScan m rest 0).tagOut s'.out = (breakScan m rest 0).tagOut s.out := by rw [hs.out]
        rw [hx]
        exact rel_pure_bind _ (fun (x : List Stmt) => x) (fun _ => s) (fun _ => s') (fun _ => hs)
      | cons l ls =>
        have hl' : s'.loops = l :: ls := by rw [← hs.loops]; exact hl
        simp only [hl']
        have hx : (breakScan m rest (s'.scopes.length - l.envs)).tagOut s'.out = (breakScan m rest (s.scopes.length - l.envs)).tagOut s.out := by
          rw [hlen, hs.out]
        rw [hx]
        refine rel_pure_bind _ (fun (x : List Stmt) => x) (fun _ => { s with scopes := s.scopes.drop (s.scopes.length - l.envs), loops := ls })
          (fun _ => { s' with scopes := s'.scopes.drop (s'.scopes.length - l.envs), loops := ls }) (fun _ => ?_)
        refine ⟨?_, hs.heap, hs.out, rfl, hs.flags, hs.world⟩
        show ScRel ρ (s.scopes.drop (s.scopes.length - l.envs)) (s'.scopes.drop (s'.scopes.length - l.envs))
        rw [hlen]; exact All2.drop hs.scopes _
    | blockStart m =>
      simp only [exec]
      exact RelRes.ok ⟨rfl, .cons .nil hs.scopes, hs.heap, hs.out, hs.loops, hs.flags, hs.world⟩
    | blockEnd m =>
      simp only [exec]
      rw [hlen]
      split
      · exact RelRes.tagOut2 hs.out (relRes_stmtErr _ _ _)
      · exact RelRes.ok ⟨rfl, All2.drop hs.scopes 1, hs.heap, hs.out, hs.loops, hs.flags, hs.world⟩
    | ret e m => simp only [exec]; exact RelRes.tagOut2 hs.out (relRes_stmtErr _ _ _)
    | eos m => simp only [exec]; exact RelRes.tagOut2 hs.out (relRes_stmtErr _ _ _)
end
end Pakhi
