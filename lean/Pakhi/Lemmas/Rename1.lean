import Pakhi.Model.Interp
/-! Renaming user identifiers: the transformers and the lemmas on scopes, values and the pure operators -/
namespace Pakhi
section
variable (ρ : Str → Str)

def rnTok (t : Token) : Token := { t with lexeme := ρ t.lexeme }

mutual
def rnE : Expr → Expr
  | .indexing e i m => .indexing (rnE e) (rnE i) m
  | .or l r m => .or (rnE l) (rnE r) m
  | .and l r m => .and (rnE l) (rnE r) m
  | .equality op l r m => .equality op (rnE l) (rnE r) m
  | .comparison op l r m => .comparison op (rnE l) (rnE r) m
  | .addsub op l r m => .addsub op (rnE l) (rnE r) m
  | .muldiv op l r m => .muldiv op (rnE l) (rnE r) m
  | .unary op r m => .unary op (rnE r) m
  | .call f args m => .call (rnE f) (rnEs args) m
  | .nil m => .nil m
  | .bool b m => .bool b m
  | .num b m => .num b m
  | .str s m => .str s m
  | .list es m => .list (rnEs es) m
  | .record ks vs m => .record (rnEs ks) (rnEs vs) m
  | .var tok m => .var (rnTok ρ tok) m
  | .group e m => .group (rnE e) m
def rnEs : Exprs → Exprs
  | .nil => .nil
  | .cons e es => .cons (rnE e) (rnEs es)
end

def rnA (a : Assignment) : Assignment :=
  { kind := a.kind, var := rnTok ρ a.var, indexes := a.indexes.map (rnE ρ), init := a.init.map (rnE ρ) }

def rnS : Stmt → Stmt
  | .print e m => .print (rnE ρ e) m
  | .printNoEOL e m => .printNoEOL (rnE ρ e) m
  | .assign a m => .assign (rnA ρ a) m
  | .expr e m => .expr (rnE ρ e) m
  | .blockStart m => .blockStart m
  | .blockEnd m => .blockEnd m
  | .funcDef m => .funcDef m
  | .ret e m => .ret (rnE ρ e) m
  | .if c m => .if (rnE ρ c) m
  | .loop m => .loop m
  | .cont m => .cont m
  | .brk m => .brk m
  | .else m => .else m
  | .eos m => .eos m

abbrev rnL (l : List Stmt) : List Stmt := l.map (rnS ρ)

/-- values: only the parameter names inside function values are names -/
def rnV : Val → Val
  | .func rem ps => .func rem (ps.map ρ)
  | v => v

def rnScope (sc : Scope) : Scope := sc.map (fun kv => (ρ kv.1, rnV ρ kv.2))
def rnRec (r : RecordObj) : RecordObj := r.map (fun kv => (kv.1, rnV ρ kv.2))
def rnHeap (h : Heap) : Heap := { h with lists := h.lists.map (List.map (rnV ρ)), records := h.records.map (rnRec ρ) }
def rnSt (s : St) : St :=
  { s with scopes := s.scopes.map (rnScope ρ), heap := rnHeap ρ s.heap,
           loops := s.loops.map (fun l => { l with start := rnL ρ l.start }) }

/-- results: the value part is renamed, errors are untouched -/
def Res.rn {α : Type} (g : α → α) : Res α → Res α
  | .ok a => .ok (g a)
  | x => x

@[simp] theorem Res.rn_ok {α : Type} (g : α → α) (a : α) : (Res.ok a).rn g = .ok (g a) := rfl
@[simp] theorem Res.rn_err {α : Type} (g : α → α) (e : PErr) : (Res.err e : Res α).rn g = .err e := rfl
@[simp] theorem Res.rn_panic {α : Type} (g : α → α) (p : String) : (Res.panic p : Res α).rn g = .panic p := rfl
@[simp] theorem Res.rn_fuel {α : Type} (g : α → α) : (Res.fuel : Res α).rn g = .fuel := rfl

theorem Res.rn_bind {α β : Type} (g : α → α) (g' : β → β) (r : Res α) (k k' : α → Res β)
    (hk : ∀ a, k' (g a) = (k a).rn g') : (r.rn g).bind k' = (r.bind k).rn g' := by
  cases r <;> simp [Res.rn, Res.bind, hk]

theorem rn_tagOut {α : Type} (g : α → α) (o : List Out) (x x' : Res α) (hx : x' = x.rn g) :
    x'.tagOut o = (x.tagOut o).rn g := by
  subst hx; cases x <;> rfl

theorem rn_tag_bind {α β : Type} (g : α → α) (g' : β → β) (o : List Out) (x x' : Res α) (k k' : α → Res β)
    (hx : x' = x.rn g) (hk : ∀ a, k' (g a) = (k a).rn g') : (x'.tagOut o).bind k' = ((x.tagOut o).bind k).rn g' := by
  subst hx
  cases x <;> simp [Res.tagOut, Res.bind, Res.rn, hk]

@[simp] theorem rnE_meta (e : Expr) : (rnE ρ e).meta = e.meta := by cases e <;> rfl
@[simp] theorem rnS_meta (s : Stmt) : (rnS ρ s).meta = s.meta := by cases s <;> rfl
@[simp] theorem rnTok_lexeme (t : Token) : (rnTok ρ t).lexeme = ρ t.lexeme := rfl
@[simp] theorem rnTok_line (t : Token) : (rnTok ρ t).line = t.line := rfl
@[simp] theorem rnTok_file (t : Token) : (rnTok ρ t).file = t.file := rfl

theorem rn_stmtErr {α : Type} (g : α → α) (cur : List Stmt) (c : ErrClass) (t : String) :
    (stmtErr (rnL ρ cur) c t : Res α) = (stmtErr cur c t : Res α).rn g := by
  cases cur with
  | nil => rfl
  | cons st rest => simp [stmtErr, mkErr, Res.rn]

theorem rn_metaErr {α : Type} (g : α → α) (m : Meta) (c : ErrClass) (t : String) :
    (metaErr m c t : Res α) = (metaErr m c t : Res α).rn g := rfl
theorem rn_unexpected {α : Type} (g : α → α) (t : String) : (unexpected t : Res α) = (unexpected t : Res α).rn g := rfl

/-! ### scopes under an injective renaming -/
variable (hinj : ∀ a b, ρ a = ρ b → a = b)
include hinj

theorem rho_beq (a b : Str) : (ρ a == ρ b) = (a == b) := by
  by_cases h : a = b
  · subst h; simp
  · have h' : ρ a ≠ ρ b := fun e => h (hinj a b e)
    rw [beq_eq_false_iff_ne.mpr h, beq_eq_false_iff_ne.mpr h']

theorem rn_assocGet : ∀ (sc : Scope) (n : Str), assocGet (rnScope ρ sc) (ρ n) = (assocGet sc n).map (rnV ρ)
  | [], _ => rfl
  | (k, v) :: r, n => by
      simp only [rnScope, List.map_cons, assocGet, rho_beq ρ hinj]
      split
      · rfl
      · exact rn_assocGet r n

theorem rn_assocSet : ∀ (sc : Scope) (n : Str) (v : Val), assocSet (rnScope ρ sc) (ρ n) (rnV ρ v) = rnScope ρ (assocSet sc n v)
  | [], _, _ => rfl
  | (k, w) :: r, n, v => by
      simp only [rnScope, List.map_cons, assocSet, rho_beq ρ hinj]
      split
      · rfl
      · simp only [List.map_cons]; congr 1; exact rn_assocSet r n v

theorem rn_lookupVar : ∀ (scs : List Scope) (n : Str),
    lookupVar (scs.map (rnScope ρ)) (ρ n) = (lookupVar scs n).map (rnV ρ)
  | [], _ => rfl
  | sc :: r, n => by
      simp only [List.map_cons, lookupVar, rn_assocGet ρ hinj]
      cases assocGet sc n with
      | some v => rfl
      | none => simp only [Option.map]; exact rn_lookupVar r n

theorem rn_assignVar : ∀ (scs : List Scope) (n : Str) (v : Val),
    assignVar (scs.map (rnScope ρ)) (ρ n) (rnV ρ v) = (assignVar scs n v).map (List.map (rnScope ρ))
  | [], _, _ => rfl
  | sc :: r, n, v => by
      simp only [List.map_cons, assignVar, rn_assocGet ρ hinj]
      cases assocGet sc n with
      | some w => simp [rn_assocSet ρ hinj]
      | none =>
        simp only [Option.map, Option.isSome]
        rw [rn_assignVar r n v]
        cases assignVar r n v <;> simp

theorem rn_declareVar (scs : List Scope) (n : Str) (v : Val) :
    declareVar (scs.map (rnScope ρ)) (ρ n) (rnV ρ v) = (declareVar scs n v).rn (List.map (rnScope ρ)) := by
  cases scs with
  | nil => rfl
  | cons sc r => simp only [List.map_cons, declareVar, rn_assocSet ρ hinj]; rfl
end
end Pakhi
