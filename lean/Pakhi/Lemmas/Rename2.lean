import Pakhi.Lemmas.Rename1
namespace Pakhi
section
variable (ρ : Str → Str)

@[simp] theorem rnV_num (b : Num.Bits) : rnV ρ (.num b) = .num b := rfl
@[simp] theorem rnV_bool (b : Bool) : rnV ρ (.bool b) = .bool b := rfl
@[simp] theorem rnV_str (t : Str) : rnV ρ (.str t) = .str t := rfl
@[simp] theorem rnV_list (i : Nat) : rnV ρ (.list i) = .list i := rfl
@[simp] theorem rnV_record (i : Nat) : rnV ρ (.record i) = .record i := rfl
@[simp] theorem rnV_nil : rnV ρ .nil = .nil := rfl
@[simp] theorem rnV_func (r : Nat) (ps : List Str) : rnV ρ (.func r ps) = .func r (ps.map ρ) := rfl

theorem typeName_rn (v : Val) : typeName (rnV ρ v) = typeName v := by cases v <;> rfl
theorem str?_rn (v : Val) : Val.str? (rnV ρ v) = Val.str? v := by cases v <;> rfl
theorem mapM_str?_rn : ∀ (l : List Val), (l.map (rnV ρ)).mapM Val.str? = l.mapM Val.str?
  | [] => rfl
  | v :: r => by
      simp only [List.map_cons, List.mapM_cons, str?_rn, mapM_str?_rn r]

macro "rnop" : tactic => `(tactic| (first | rfl | (repeat' split) <;> first | rfl | simp_all))

theorem rn_unaryOp (op : TK) (m : Meta) (v : Val) : unaryOp op m (rnV ρ v) = (unaryOp op m v).rn (rnV ρ) := by
  cases v <;> simp only [rnV_num, rnV_bool, rnV_str, rnV_list, rnV_record, rnV_nil, rnV_func, unaryOp] <;> rnop
theorem rn_andOr (isAnd : Bool) (m : Meta) (l r : Val) : andOr isAnd m (rnV ρ l) (rnV ρ r) = (andOr isAnd m l r).rn (rnV ρ) := by
  cases l <;> cases r <;> simp only [rnV_num, rnV_bool, rnV_str, rnV_list, rnV_record, rnV_nil, rnV_func, andOr] <;> rnop
theorem rn_compare (op : TK) (m : Meta) (l r : Val) : compare op m (rnV ρ l) (rnV ρ r) = (compare op m l r).rn (rnV ρ) := by
  cases l <;> cases r <;> simp only [rnV_num, rnV_bool, rnV_str, rnV_list, rnV_record, rnV_nil, rnV_func, compare] <;> rnop
theorem rn_mulDiv (op : TK) (m : Meta) (l r : Val) : mulDiv op m (rnV ρ l) (rnV ρ r) = (mulDiv op m l r).rn (rnV ρ) := by
  cases l <;> cases r <;> simp only [rnV_num, rnV_bool, rnV_str, rnV_list, rnV_record, rnV_nil, rnV_func, mulDiv] <;> rnop

@[simp] theorem rnHeap_lists (h : Heap) : (rnHeap ρ h).lists = h.lists.map (List.map (rnV ρ)) := rfl
@[simp] theorem rnHeap_records (h : Heap) : (rnHeap ρ h).records = h.records.map (rnRec ρ) := rfl
@[simp] theorem rnHeap_freeLists (h : Heap) : (rnHeap ρ h).freeLists = h.freeLists := rfl
@[simp] theorem rnHeap_freeRecords (h : Heap) : (rnHeap ρ h).freeRecords = h.freeRecords := rfl
@[simp] theorem rnHeap_allocCount (h : Heap) : (rnHeap ρ h).allocCount = h.allocCount := rfl

theorem rn_allocList (h : Heap) (l : List Val) :
    (rnHeap ρ h).allocList (l.map (rnV ρ)) = ((h.allocList l).1, rnHeap ρ (h.allocList l).2) := by
  simp only [Heap.allocList, rnHeap_freeLists, rnHeap_lists, rnHeap_allocCount, List.length_map]
  cases h.freeLists with
  | nil => simp [rnHeap]
  | cons i rest => simp [rnHeap, List.map_set]

theorem rn_allocRecord (h : Heap) (r : RecordObj) :
    (rnHeap ρ h).allocRecord (rnRec ρ r) = ((h.allocRecord r).1, rnHeap ρ (h.allocRecord r).2) := by
  simp only [Heap.allocRecord, rnHeap_freeRecords, rnHeap_records, rnHeap_allocCount, rnRec, List.length_map]
  cases h.freeRecords with
  | nil => simp [rnHeap, rnRec]
  | cons i rest => simp [rnHeap, rnRec, List.map_set]

theorem rnHeap_getList (h : Heap) (i : Nat) : (rnHeap ρ h).lists[i]? = (h.lists[i]?).map (List.map (rnV ρ)) := by
  simp [rnHeap]
theorem rnHeap_getRecord (h : Heap) (i : Nat) : (rnHeap ρ h).records[i]? = (h.records[i]?).map (rnRec ρ) := by
  simp [rnHeap]

theorem rnRec_assocGet : ∀ (r : RecordObj) (k : Str), assocGet (rnRec ρ r) k = (assocGet r k).map (rnV ρ)
  | [], _ => rfl
  | (k', v) :: r, k => by
      simp only [rnRec, List.map_cons, assocGet]
      split
      · rfl
      · exact rnRec_assocGet r k
theorem rnRec_assocSet : ∀ (r : RecordObj) (k : Str) (v : Val), assocSet (rnRec ρ r) k (rnV ρ v) = rnRec ρ (assocSet r k v)
  | [], _, _ => rfl
  | (k', w) :: r, k, v => by
      simp only [rnRec, List.map_cons, assocSet]
      split
      · rfl
      · simp only [List.map_cons]; congr 1; exact rnRec_assocSet r k v

theorem rnV_allocList_fst (h : Heap) (l : List Val) : rnV ρ (h.allocList l).1 = (h.allocList l).1 := by
  simp only [Heap.allocList]; split <;> rfl
theorem rnV_allocRecord_fst (h : Heap) (r : RecordObj) : rnV ρ (h.allocRecord r).1 = (h.allocRecord r).1 := by
  simp only [Heap.allocRecord]; split <;> rfl

abbrev gVH : Val × Heap → Val × Heap := fun x => (rnV ρ x.1, rnHeap ρ x.2)

theorem rn_addSub (op : TK) (m : Meta) (l r : Val) (h : Heap) :
    addSub op m (rnV ρ l) (rnV ρ r) (rnHeap ρ h) = (addSub op m l r h).rn (gVH ρ) := by
  cases l <;> cases r
  case list.list i j =>
    simp only [rnV_num, rnV_bool, rnV_str, rnV_list, rnV_record, rnV_nil, rnV_func, addSub, rnHeap_getList]
    cases h.lists[i]? <;> cases h.lists[j]? <;> simp only [Option.map] <;> try rfl
    rename_i a b
    split
    · rw [← List.map_append, rn_allocList]; simp only [Res.rn_ok, gVH, rnV_allocList_fst]
    · rfl
  all_goals (simp only [rnV_num, rnV_bool, rnV_str, rnV_list, rnV_record, rnV_nil, rnV_func, addSub]; rnop)

theorem rn_indexVal (m : Meta) (c i : Val) (h : Heap) :
    indexVal m (rnV ρ c) (rnV ρ i) (rnHeap ρ h) = (indexVal m c i h).rn (rnV ρ) := by
  cases c <;> cases i <;> simp only [rnV_num, rnV_bool, rnV_str, rnV_list, rnV_record, rnV_nil, rnV_func, indexVal] <;> try rfl
  case list.num a n =>
    simp only [rnHeap_getList]
    cases h.lists[a]? with
    | none => rfl
    | some l =>
      simp only [Option.map, List.length_map]
      cases listPosition n l.length with
      | none => rfl
      | some p =>
        simp only [List.getElem?_map]
        cases l[p]? <;> rfl
  case record.str a k =>
    simp only [rnHeap_getRecord]
    cases h.records[a]? with
    | none => rfl
    | some r =>
      simp only [Option.map, rnRec_assocGet]
      cases assocGet r k <;> rfl

theorem rn_assignPath (cur : List Stmt) (v : Val) : ∀ (ixs : List Index) (c : Val) (h : Heap),
    assignPath (rnL ρ cur) (rnV ρ c) ixs (rnV ρ v) (rnHeap ρ h) = (assignPath cur c ixs v h).rn (rnHeap ρ)
  | [], c, h => rfl
  | ix :: rest, c, h => by
      cases c <;> cases ix <;> simp only [rnV_num, rnV_bool, rnV_str, rnV_list, rnV_record, rnV_nil, rnV_func, assignPath] <;> try exact rn_stmtErr ρ _ cur _ _
      case list.pos a n =>
        simp only [rnHeap_getList]
        cases h.lists[a]? with
        | none => rfl
        | some l =>
          simp only [Option.map, List.length_map]
          cases listPosition n l.length with
          | none => exact rn_stmtErr ρ _ cur _ _
          | some p =>
            simp only []
            split
            · simp [rnHeap, Res.rn, List.map_set]
            · simp only [List.getElem?_map]
              cases l[p]? with
              | none => rfl
              | some c' => exact rn_assignPath cur v rest c' h
      case record.key a k =>
        simp only [rnHeap_getRecord]
        cases h.records[a]? with
        | none => rfl
        | some r =>
          simp only [Option.map]
          split
          · simp [rnHeap, Res.rn, List.map_set, ← rnRec_assocSet]
          · simp only [rnRec_assocGet]
            cases assocGet r k with
            | none => exact rn_stmtErr ρ _ cur _ _
            | some c' => exact rn_assignPath cur v rest c' h

variable (hinj : ∀ a b, ρ a = ρ b → a = b)
include hinj

theorem map_rho_inj : ∀ (p q : List Str), p.map ρ = q.map ρ → p = q
  | [], [], _ => rfl
  | [], _ :: _, h => by simp at h
  | _ :: _, [], h => by simp at h
  | a :: p, b :: q, h => by
      simp only [List.map_cons, List.cons.injEq] at h
      rw [hinj a b h.1, map_rho_inj p q h.2]

theorem map_rho_beq (p q : List Str) : (p.map ρ == q.map ρ) = (p == q) := by
  by_cases h : p = q
  · subst h; simp
  · have h' : p.map ρ ≠ q.map ρ := fun e => h (map_rho_inj ρ hinj p q e)
    rw [beq_eq_false_iff_ne.mpr h, beq_eq_false_iff_ne.mpr h']

theorem valEq_rn (a b : Val) : valEq (rnV ρ a) (rnV ρ b) = valEq a b := by
  cases a <;> cases b <;> simp only [rnV_num, rnV_bool, rnV_str, rnV_list, rnV_record, rnV_nil, rnV_func, valEq, map_rho_beq ρ hinj]

theorem rn_equality (op : TK) (m : Meta) (l r : Val) : equality op m (rnV ρ l) (rnV ρ r) = (equality op m l r).rn (rnV ρ) := by
  simp only [equality, valEq_rn ρ hinj]
  split <;> rfl
end
end Pakhi
