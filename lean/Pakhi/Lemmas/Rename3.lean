import Pakhi.Lemmas.Rename2
namespace Pakhi
section
variable (ρ : Str → Str)

@[simp] theorem rnSt_scopes (s : St) : (rnSt ρ s).scopes = s.scopes.map (rnScope ρ) := rfl
@[simp] theorem rnSt_heap (s : St) : (rnSt ρ s).heap = rnHeap ρ s.heap := rfl
@[simp] theorem rnSt_out (s : St) : (rnSt ρ s).out = s.out := rfl
@[simp] theorem rnSt_flags (s : St) : (rnSt ρ s).flags = s.flags := rfl
@[simp] theorem rnSt_world (s : St) : (rnSt ρ s).world = s.world := rfl
@[simp] theorem rnSt_gcCount (s : St) : (rnSt ρ s).gcCount = s.gcCount := rfl
@[simp] theorem rnSt_loops (s : St) : (rnSt ρ s).loops = s.loops.map (fun l => { l with start := rnL ρ l.start }) := rfl

theorem insertAt_map (l : List Val) (p : Nat) (v : Val) : insertAt (l.map (rnV ρ)) p (rnV ρ v) = (insertAt l p v).map (rnV ρ) := by
  simp [insertAt, List.map_take, List.map_drop]
theorem removeAt_map (l : List Val) (p : Nat) : removeAt (l.map (rnV ρ)) p = (removeAt l p).map (rnV ρ) := by
  simp [removeAt, List.map_take, List.map_drop]
theorem map_str_rn (xs : List Str) : (xs.map Val.str).map (rnV ρ) = xs.map Val.str := by
  simp [List.map_map, Function.comp]
theorem rn_allocList_strs (h : Heap) (xs : List Str) :
    (rnHeap ρ h).allocList (xs.map Val.str) = ((h.allocList (xs.map Val.str)).1, rnHeap ρ (h.allocList (xs.map Val.str)).2) := by
  have := rn_allocList ρ h (xs.map Val.str)
  rwa [map_str_rn] at this

theorem str?_comp_rn : Val.str? ∘ rnV ρ = Val.str? := by funext v; exact str?_rn ρ v

theorem rn_callB_inl (k : Builtin) (args : List Val) (s : St) (v : Val) (s' : St)
    (h : callB k args s = .inl (v, s')) : callB k (args.map (rnV ρ)) (rnSt ρ s) = .inl (rnV ρ v, rnSt ρ s') := by
  cases k <;> simp only [callB] at h <;> (repeat' split at h) <;> (try (simp at h; done))
  all_goals (simp at h; obtain ⟨rfl, rfl⟩ := h)
  all_goals (simp only [List.map_cons, List.map_nil, rnV_num, rnV_bool, rnV_str, rnV_list, rnV_record, rnV_nil, callB, rnSt_heap, rnSt_world, rnHeap_getList, typeName_rn])
  all_goals (first | rfl | (simp_all [rnSt, rnHeap, List.map_set, List.map_dropLast]; done) | skip)
  all_goals (first | (simp_all [rn_allocList_strs, rnV_allocList_fst, rnSt]; done) | (simp_all [insertAt_map, removeAt_map, mapM_str?_rn, str?_comp_rn, rnSt, rnHeap, List.map_set]; done) | skip)

set_option maxHeartbeats 1600000 in
theorem rn_callB_inr (k : Builtin) (args : List Val) (s : St) (t : Str)
    (h : callB k args s = .inr t) : callB k (args.map (rnV ρ)) (rnSt ρ s) = .inr t := by
  rcases args with _ | ⟨a, _ | ⟨b, _ | ⟨c, _ | ⟨d, r⟩⟩⟩⟩
  · cases k <;> simp only [callB] at h <;> (try (simp at h; done)) <;> (simp at h; subst h; rfl)
  · cases a <;> cases k <;> simp only [callB] at h <;> (repeat' split at h) <;> (try (simp at h; done)) <;> (simp at h; subst h) <;>
      simp only [List.map_cons, List.map_nil, rnV_num, rnV_bool, rnV_str, rnV_list, rnV_record, rnV_nil, rnV_func, callB, rnSt_heap, rnSt_world, rnHeap_getList, typeName_rn] <;>
      first | rfl | (simp_all [mapM_str?_rn, str?_comp_rn]; done)
  · cases a <;> cases b <;> cases k <;> simp only [callB] at h <;> (repeat' split at h) <;> (try (simp at h; done)) <;> (simp at h; subst h) <;>
      simp only [List.map_cons, List.map_nil, rnV_num, rnV_bool, rnV_str, rnV_list, rnV_record, rnV_nil, rnV_func, callB, rnSt_heap, rnSt_world, rnHeap_getList, typeName_rn] <;>
      first | rfl | (simp_all [mapM_str?_rn, str?_comp_rn]; done)
  · cases a <;> cases b <;> cases k <;> simp only [callB] at h <;> (repeat' split at h) <;> (try (simp at h; done)) <;> (simp at h; subst h) <;>
      simp only [List.map_cons, List.map_nil, rnV_num, rnV_bool, rnV_str, rnV_list, rnV_record, rnV_nil, rnV_func, callB, rnSt_heap, rnSt_world, rnHeap_getList, typeName_rn] <;>
      first | rfl | (simp_all [mapM_str?_rn, str?_comp_rn]; done)
  · cases k <;> simp only [callB] at h <;> (try (simp at h; done)) <;> (simp at h; subst h; simp [callB])
end
end Pakhi
