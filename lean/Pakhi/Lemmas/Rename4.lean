import Pakhi.Lemmas.Rename3
namespace Pakhi
section
variable (ρ : Str → Str)

theorem rnSt_emit (s : St) (t : Str) : (rnSt ρ s).emit t = rnSt ρ (s.emit t) := rfl
theorem rnSt_mark (s : St) (m : Out) : (rnSt ρ s).mark m = rnSt ρ (s.mark m) := rfl

theorem rn_stmtErr_tag {α : Type} (g : α → α) (cur : List Stmt) (c : ErrClass) (t : String) (o : List Out) :
    (stmtErr (rnL ρ cur) c t : Res α).tagOut o = ((stmtErr cur c t : Res α).tagOut o).rn g :=
  rn_tagOut g o _ _ (rn_stmtErr ρ g cur c t)
theorem rn_metaErr_tag {α : Type} (g : α → α) (m : Meta) (c : ErrClass) (t : String) (o : List Out) :
    (metaErr m c t : Res α).tagOut o = ((metaErr m c t : Res α).tagOut o).rn g :=
  rn_tagOut g o _ _ (rn_metaErr g m c t)
theorem rn_unexpected_tag {α : Type} (g : α → α) (t : String) (o : List Out) :
    (unexpected t : Res α).tagOut o = ((unexpected t : Res α).tagOut o).rn g :=
  rn_tagOut g o _ _ (rn_unexpected g t)

theorem rn_curErr {α : Type} (g : α → α) (cur : List Stmt) (s : St) (msg : Str) :
    (curErr (rnL ρ cur) (rnSt ρ s) msg : Res α) = (curErr cur s msg : Res α).rn g := by
  cases cur with
  | nil => rfl
  | cons st rest => simp [curErr, Res.rn]

theorem rn_print (cur : List Stmt) : ∀ (f : Nat),
    (∀ v s, printVal (rnL ρ cur) f (rnV ρ v) (rnSt ρ s) = (printVal cur f v s).rn (rnSt ρ)) ∧
    (∀ xs first s, printElems (rnL ρ cur) f (xs.map (rnV ρ)) first (rnSt ρ s) = (printElems cur f xs first s).rn (rnSt ρ)) ∧
    (∀ xs s, printEntries (rnL ρ cur) f (rnRec ρ xs) (rnSt ρ s) = (printEntries cur f xs s).rn (rnSt ρ))
  | 0 => by simp [printVal, printElems, printEntries, Res.rn]
  | f+1 => by
      obtain ⟨i1, i2, i3⟩ := rn_print cur f
      refine ⟨?_, ?_, ?_⟩
      · intro v s
        cases v with
        | num n =>
          simp only [rnV_num, printVal, rnSt_out]; split
          · rfl
          · exact rn_stmtErr_tag ρ _ cur _ _ _
        | bool x => rfl
        | str t => rfl
        | list i =>
          simp only [rnV_list, printVal, rnSt_heap, rnHeap_getList]
          cases hl : s.heap.lists[i]? with
          | none => rfl
          | some l =>
            simp only [Option.map, rnSt_emit]
            rw [i2]
            cases printElems cur f l true (s.emit ['[']) <;> rfl
        | record i =>
          simp only [rnV_record, printVal, rnSt_heap, rnHeap_getRecord]
          cases hr : s.heap.records[i]? with
          | none => rfl
          | some r =>
            simp only [Option.map, rnSt_emit, rnSt_mark]
            rw [i3]
            cases printEntries cur f r ((s.emit ['@', '{']).mark .recStart) <;> rfl
        | func _ _ => simp only [rnV_func, printVal, rnSt_out]; exact rn_stmtErr_tag ρ _ cur _ _ _
        | nil => simp only [rnV_nil, printVal, rnSt_out]; exact rn_stmtErr_tag ρ _ cur _ _ _
      · intro xs first s
        cases xs with
        | nil => rfl
        | cons x xs =>
          simp only [List.map_cons, printElems]
          have e : (if first = true then rnSt ρ s else (rnSt ρ s).emit W.sepCommaSpace) = rnSt ρ (if first = true then s else s.emit W.sepCommaSpace) := by
            cases first <;> rfl
          rw [e, i1]
          cases printVal cur f x (if first = true then s else s.emit W.sepCommaSpace) with
          | ok s1 => exact i2 xs false s1
          | err e => rfl
          | panic p => rfl
          | fuel => rfl
      · intro xs s
        cases xs with
        | nil => rfl
        | cons kx xs =>
          obtain ⟨k, x⟩ := kx
          simp only [rnRec, List.map_cons, printEntries]
          have e : ((rnSt ρ s).mark .entStart).emit ('"' :: k ++ ['"', ':']) = rnSt ρ ((s.mark .entStart).emit ('"' :: k ++ ['"', ':'])) := rfl
          rw [e, i1]
          cases printVal cur f x ((s.mark .entStart).emit ('"' :: k ++ ['"', ':'])) with
          | ok s1 => exact i3 xs ((s1.emit [',']).mark .entEnd)
          | err e => rfl
          | panic p => rfl
          | fuel => rfl

theorem rn_printTop (cur : List Stmt) (f : Nat) (eol : Bool) (v : Val) (s : St) :
    printTop (rnL ρ cur) f eol (rnV ρ v) (rnSt ρ s) = (printTop cur f eol v s).rn (rnSt ρ) := by
  cases v <;> simp only [rnV_num, rnV_bool, rnV_str, rnV_list, rnV_record, rnV_nil, rnV_func, printTop, rnSt_out]
  case nil => exact rn_stmtErr_tag ρ _ cur _ _ _
  case func => exact rn_stmtErr_tag ρ _ cur _ _ _
  all_goals
    rename_i x
    first
      | (have h := (rn_print ρ cur f).1 (.num x) s; simp only [rnV_num] at h; rw [h]; cases printVal cur f (.num x) s with
          | ok s1 => cases eol <;> rfl
          | err e => rfl
          | panic p => rfl
          | fuel => rfl)
      | (have h := (rn_print ρ cur f).1 (.bool x) s; simp only [rnV_bool] at h; rw [h]; cases printVal cur f (.bool x) s with
          | ok s1 => cases eol <;> rfl
          | err e => rfl
          | panic p => rfl
          | fuel => rfl)
      | (have h := (rn_print ρ cur f).1 (.str x) s; simp only [rnV_str] at h; rw [h]; cases printVal cur f (.str x) s with
          | ok s1 => cases eol <;> rfl
          | err e => rfl
          | panic p => rfl
          | fuel => rfl)
      | (have h := (rn_print ρ cur f).1 (.list x) s; simp only [rnV_list] at h; rw [h]; cases printVal cur f (.list x) s with
          | ok s1 => cases eol <;> rfl
          | err e => rfl
          | panic p => rfl
          | fuel => rfl)
      | (have h := (rn_print ρ cur f).1 (.record x) s; simp only [rnV_record] at h; rw [h]; cases printVal cur f (.record x) s with
          | ok s1 => cases eol <;> rfl
          | err e => rfl
          | panic p => rfl
          | fuel => rfl)
end
end Pakhi
