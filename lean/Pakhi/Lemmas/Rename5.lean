import Pakhi.Lemmas.Rename4
namespace Pakhi
section
variable (ρ : Str → Str)

theorem rn_skipBlock : ∀ (cur : List Stmt) (d : Nat), skipBlock (rnL ρ cur) d = (skipBlock cur d).rn (rnL ρ)
  | [], d => rfl
  | st :: r, d => by
      cases st <;> simp only [List.map_cons, rnS, skipBlock] <;> first
        | exact rn_skipBlock r _
        | (split
           · rfl
           · split
             · rfl
             · exact rn_skipBlock r _)

theorem rn_skipBlockInIf (cur : List Stmt) (fl : List Bool) :
    skipBlockInIf (rnL ρ cur) fl = (skipBlockInIf cur fl).rn (fun x => (rnL ρ x.1, x.2)) := by
  simp only [skipBlockInIf, rn_skipBlock]
  cases skipBlock cur 0 with
  | ok c =>
    simp only [Res.rn]
    cases c with
    | nil => rfl
    | cons st r => cases st <;> rfl
  | err e => rfl
  | panic p => rfl
  | fuel => rfl

theorem rn_breakScan (brk : Meta) : ∀ (cur : List Stmt) (d : Nat), breakScan brk (rnL ρ cur) d = (breakScan brk cur d).rn (rnL ρ)
  | [], d => rfl
  | st :: r, d => by
      cases st <;> simp only [List.map_cons, rnS, breakScan] <;> first
        | exact rn_breakScan brk r _
        | rfl
        | (split
           · rfl
           · exact rn_breakScan brk r _)

theorem rn_stripGroups : ∀ (e : Expr), stripGroups (rnE ρ e) = rnE ρ (stripGroups e)
  | .group e m => by simp only [rnE, stripGroups]; exact rn_stripGroups e
  | .indexing .. | .or .. | .and .. | .equality .. | .comparison .. | .addsub .. | .muldiv .. | .unary .. | .call ..
  | .nil _ | .bool .. | .num .. | .str .. | .list .. | .record .. | .var .. => by simp [rnE, stripGroups]

theorem rn_paramNames : ∀ (args : Exprs), paramNames (rnEs ρ args) = (paramNames args).map (List.map ρ)
  | .nil => rfl
  | .cons e r => by
      cases e <;> simp only [rnEs, rnE, paramNames] <;> first
        | rfl
        | (rw [rn_paramNames r]; cases paramNames r <;> rfl)

theorem rn_bodyOf (prog : List Stmt) (rem : Nat) : bodyOf (rnL ρ prog) rem = rnL ρ (bodyOf prog rem) := by
  simp [bodyOf, List.map_drop]

theorem rn_getLast (prog : List Stmt) : (rnL ρ prog).getLast? = prog.getLast?.map (rnS ρ) := by
  simp [List.getLast?_map]

variable (hinj : ∀ a b, ρ a = ρ b → a = b)
include hinj

theorem rn_execFuncDef (prog rest : List Stmt) (s : St) :
    execFuncDef (rnL ρ prog) (rnL ρ rest) (rnSt ρ s) = (execFuncDef prog rest s).rn (fun x => (rnL ρ x.1, rnSt ρ x.2)) := by
  cases rest with
  | nil => rfl
  | cons st body =>
    cases st
    case expr e m =>
      cases e
      case call callee args cm =>
        cases callee
        case var ftok vm =>
          simp only [List.map_cons, rnS, rnE, execFuncDef, rn_paramNames, rnSt_scopes, rnTok_lexeme, List.length_map]
          cases hp : paramNames args with
          | none => rfl
          | some params =>
            simp only [Option.map]
            have hd := rn_declareVar ρ hinj s.scopes ftok.lexeme (.func body.length params)
            simp only [rnV_func] at hd
            rw [hd]
            cases declareVar s.scopes ftok.lexeme (Val.func body.length params) with
            | ok sc =>
              simp only [Res.rn_ok, rn_skipBlock ρ body 0]
              cases hs : skipBlock body 0 with
              | ok after =>
                simp only [Res.rn_ok]
                cases after with
                | nil => rfl
                | cons a after' =>
                  cases a <;> simp only [List.map_cons, rnS] <;> first
                    | rfl
                    | (rw [rn_getLast]; cases prog.getLast? with
                       | none => rfl
                       | some l => simp only [Option.map, rnS_meta]; rfl)
              | err e => rfl
              | panic p => rfl
              | fuel => rfl
            | err e => rfl
            | panic p => rfl
            | fuel => rfl
        all_goals (simp only [List.map_cons, rnS, rnE, execFuncDef]; rfl)
      all_goals (simp only [List.map_cons, rnS, rnE, execFuncDef, stmtErr, Stmt.meta]; rfl)
    all_goals (simp only [List.map_cons, rnS, execFuncDef, stmtErr, Stmt.meta]; rfl)
end
end Pakhi
