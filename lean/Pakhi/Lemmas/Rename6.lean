import Pakhi.Lemmas.Rename5
namespace Pakhi
section
variable (ρ : Str → Str) (prog : List Stmt)

abbrev hV : Val × St → Val × St := fun x => (rnV ρ x.1, rnSt ρ x.2)
abbrev hVs : List Val × St → List Val × St := fun x => (x.1.map (rnV ρ), rnSt ρ x.2)
abbrev hR : RecordObj × St → RecordObj × St := fun x => (rnRec ρ x.1, rnSt ρ x.2)
abbrev hSc : Scope × St → Scope × St := fun x => (rnScope ρ x.1, rnSt ρ x.2)
abbrev hC : List Stmt × St → List Stmt × St := fun x => (rnL ρ x.1, rnSt ρ x.2)
abbrev hI : List Index × St → List Index × St := fun x => (x.1, rnSt ρ x.2)

/-- **user identifiers are labels**: running the consistently renamed program is the renamed run -/
structure RNInv (f : Nat) : Prop where
  eval : ∀ cur e s, eval (rnL ρ prog) f (rnL ρ cur) (rnE ρ e) (rnSt ρ s) = (eval prog f cur e s).rn (hV ρ)
  evalBin : ∀ cur lf op op' l r s, (∀ a b, op' (rnV ρ a) (rnV ρ b) = (op a b).rn (rnV ρ)) →
    evalBin (rnL ρ prog) f (rnL ρ cur) lf op' (rnE ρ l) (rnE ρ r) (rnSt ρ s) = (evalBin prog f cur lf op l r s).rn (hV ρ)
  evalList : ∀ cur es s, evalList (rnL ρ prog) f (rnL ρ cur) (rnEs ρ es) (rnSt ρ s) = (evalList prog f cur es s).rn (hVs ρ)
  evalRecord : ∀ cur ks vs acc s, evalRecord (rnL ρ prog) f (rnL ρ cur) (rnEs ρ ks) (rnEs ρ vs) (rnRec ρ acc) (rnSt ρ s) = (evalRecord prog f cur ks vs acc s).rn (hR ρ)
  evalCall : ∀ cur callee args s, evalCall (rnL ρ prog) f (rnL ρ cur) (rnE ρ callee) (rnEs ρ args) (rnSt ρ s) = (evalCall prog f cur callee args s).rn (hV ρ)
  bindParams : ∀ cur params args env s, bindParams (rnL ρ prog) f (rnL ρ cur) (params.map ρ) (rnEs ρ args) (rnScope ρ env) (rnSt ρ s) = (bindParams prog f cur params args env s).rn (hSc ρ)
  callLoop : ∀ cur s, callLoop (rnL ρ prog) f (rnL ρ cur) (rnSt ρ s) = (callLoop prog f cur s).rn (hV ρ)
  exec : ∀ cur s, exec (rnL ρ prog) f (rnL ρ cur) (rnSt ρ s) = (exec prog f cur s).rn (hC ρ)
  execAssign : ∀ cur a s, execAssign (rnL ρ prog) f (rnL ρ cur) (rnA ρ a) (rnSt ρ s) = (execAssign prog f cur a s).rn (rnSt ρ)
  evalIndexes : ∀ cur ixs s, evalIndexes (rnL ρ prog) f (rnL ρ cur) (ixs.map (rnE ρ)) (rnSt ρ s) = (evalIndexes prog f cur ixs s).rn (hI ρ)

theorem rnInv_zero : RNInv ρ prog 0 := by
  constructor <;> intros <;> simp only [eval, evalBin, evalList, evalRecord, evalCall, bindParams, callLoop, exec, execAssign, evalIndexes] <;> rfl

set_option hygiene false in
macro "rnm" : tactic => `(tactic| repeat' (first
  | rfl
  | exact ih.eval _ _ _
  | exact ih.evalList _ _ _
  | exact ih.evalRecord _ _ _ _ _
  | exact ih.evalCall _ _ _ _
  | exact ih.bindParams _ _ _ _ _
  | exact ih.callLoop _ _
  | exact ih.exec _ _
  | exact ih.execAssign _ _ _
  | exact ih.evalIndexes _ _ _
  | exact rn_stmtErr_tag _ _ _ _ _ _
  | exact rn_metaErr_tag _ _ _ _ _
  | exact rn_unexpected_tag _ _ _
  | exact rn_curErr _ _ _ _ _
  | exact rn_unaryOp _ _ _ _
  | exact rn_andOr _ _ _ _ _
  | exact rn_compare _ _ _ _ _
  | exact rn_mulDiv _ _ _ _ _
  | exact rn_addSub _ _ _ _ _ _
  | exact rn_indexVal _ _ _ _ _
  | exact rn_assignPath _ _ _ _ _ _
  | (rw [ih.eval]; refine Res.rn_bind _ _ _ _ _ ?_)
  | (rw [ih.evalList]; refine Res.rn_bind _ _ _ _ _ ?_)
  | (rw [ih.evalRecord]; refine Res.rn_bind _ _ _ _ _ ?_)
  | (rw [ih.bindParams]; refine Res.rn_bind _ _ _ _ _ ?_)
  | (rw [ih.callLoop]; refine Res.rn_bind _ _ _ _ _ ?_)
  | (rw [ih.exec]; refine Res.rn_bind _ _ _ _ _ ?_)
  | (rw [ih.execAssign]; refine Res.rn_bind _ _ _ _ _ ?_)
  | (rw [ih.evalIndexes]; refine Res.rn_bind _ _ _ _ _ ?_)
  | (rw [rn_printTop]; refine Res.rn_bind _ _ _ _ _ ?_)
  | (refine rn_tag_bind (rnV ρ) _ _ _ _ _ _ ?_ ?_)
  | (refine rn_tag_bind (gVH ρ) _ _ _ _ _ _ ?_ ?_)
  | (refine rn_tag_bind (rnHeap ρ) _ _ _ _ _ _ ?_ ?_)
  | (intro a; obtain ⟨_, _⟩ := a; simp only [rnSt_scopes, rnSt_heap, rnSt_flags, rnSt_world, rnSt_out, rnSt_gcCount, rnE_meta])
  | (intro a; simp only [rnSt_scopes, rnSt_heap, rnSt_flags, rnSt_world, rnSt_out, rnSt_gcCount, rnE_meta])
  | intro a
  | split))

omit prog in
theorem rn_callBuiltin_inl (n : Str) (args : List Val) (s : St) (v : Val) (s' : St)
    (h : callBuiltin n args s = .inl (v, s')) : callBuiltin n (args.map (rnV ρ)) (rnSt ρ s) = .inl (rnV ρ v, rnSt ρ s') := by
  simp only [callBuiltin] at h ⊢
  split at h
  · rename_i k hk; exact rn_callB_inl ρ k args s v s' h
  · simp at h
omit prog in
theorem rn_callBuiltin_inr (n : Str) (args : List Val) (s : St) (t : Str)
    (h : callBuiltin n args s = .inr t) : callBuiltin n (args.map (rnV ρ)) (rnSt ρ s) = .inr t := by
  simp only [callBuiltin] at h ⊢
  split at h
  · rename_i k hk; exact rn_callB_inr ρ k args s t h
  · exact h

variable (hinj : ∀ a b, ρ a = ρ b → a = b) (hbi : ∀ n, isBuiltin n = true → ρ n = n) (hnb : ∀ n, isBuiltin (ρ n) = isBuiltin n)
include hinj hbi hnb

theorem rnInv_succ (f : Nat) (ih : RNInv ρ prog f) : RNInv ρ prog (f+1) := by
  constructor
  · intro cur e s
    cases e <;> simp only [rnE, eval, rnSt_scopes, rnSt_heap, rnSt_flags, rnSt_world, rnSt_out, rnE_meta, rnTok_lexeme]
    case var tok m =>
      rw [rn_lookupVar ρ hinj]
      cases lookupVar s.scopes tok.lexeme with
      | none => exact rn_stmtErr_tag _ _ _ _ _ _
      | some v => rfl
    case list es m =>
      rw [ih.evalList]; refine Res.rn_bind _ _ _ _ _ ?_
      rintro ⟨vs, s1⟩
      simp only [rnSt_heap, rn_allocList]
      simp [Res.rn, rnSt, rnV_allocList_fst]
    case record ks vs m =>
      have h0 := ih.evalRecord cur ks vs [] s
      simp only [rnRec, List.map_nil] at h0
      rw [h0]; refine Res.rn_bind _ _ _ _ _ ?_
      rintro ⟨r, s1⟩
      simp only [rnSt_heap, rn_allocRecord]
      simp [Res.rn, rnSt, rnV_allocRecord_fst]
    all_goals first
      | (refine ih.evalBin _ _ _ _ _ _ _ ?_; intro a b; first | exact rn_andOr _ _ _ _ _ | exact rn_equality ρ hinj _ _ _ _ | exact rn_compare _ _ _ _ _ | exact rn_mulDiv _ _ _ _ _)
      | rnm
  · intro cur lf op op' l r s hop
    simp only [evalBin, rnSt_out]
    split
    · rw [ih.eval]; refine Res.rn_bind _ _ _ _ _ ?_
      rintro ⟨a, s1⟩
      simp only []
      rw [ih.eval]; refine Res.rn_bind _ _ _ _ _ ?_
      rintro ⟨b, s2⟩
      simp only [rnSt_out]
      refine rn_tag_bind (rnV ρ) _ _ _ _ _ _ (hop a b) ?_
      intro v; rfl
    · rw [ih.eval]; refine Res.rn_bind _ _ _ _ _ ?_
      rintro ⟨b, s1⟩
      simp only []
      rw [ih.eval]; refine Res.rn_bind _ _ _ _ _ ?_
      rintro ⟨a, s2⟩
      simp only [rnSt_out]
      refine rn_tag_bind (rnV ρ) _ _ _ _ _ _ (hop a b) ?_
      intro v; rfl
  · intro cur es s
    cases es <;> simp only [rnEs, evalList] <;> rnm
  · intro cur ks vs acc s
    cases ks <;> cases vs <;> simp only [rnEs, evalRecord] <;> try rfl
    rename_i k ks v vs
    rw [ih.eval]; refine Res.rn_bind _ _ _ _ _ ?_
    rintro ⟨kv, s1⟩
    cases kv <;> simp only [rnV_num, rnV_bool, rnV_str, rnV_list, rnV_record, rnV_nil, rnV_func] <;> try exact ih.evalRecord _ _ _ _ _
    rename_i key
    rw [ih.eval]; refine Res.rn_bind _ _ _ _ _ ?_
    rintro ⟨vv, s2⟩
    simp only [rnRec_assocSet]
    exact ih.evalRecord _ _ _ _ _
  · intro cur callee args s
    simp only [evalCall, rn_stripGroups, rnSt_scopes]
    cases hcallee : stripGroups callee
    case var tok vm =>
      simp only [rnE, rnTok_line, rnTok_file]
      by_cases hb : isBuiltin tok.lexeme = true
      · have hb' : isBuiltin (rnTok ρ tok).lexeme = true := by show isBuiltin (ρ tok.lexeme) = true; rw [hnb]; exact hb
        have hfix : (rnTok ρ tok).lexeme = tok.lexeme := hbi _ hb
        rw [if_pos hb, if_pos hb']
        rw [ih.evalList]; refine Res.rn_bind _ _ _ _ _ ?_
        rintro ⟨vs, s1⟩
        simp only [rnSt_out]
        by_cases he : (tok.lexeme == W.fnError) = true
        · have he' : ((rnTok ρ tok).lexeme == W.fnError) = true := by rw [hfix]; exact he
          rw [if_pos he, if_pos he']
          rcases vs with _ | ⟨v, _ | ⟨w, r⟩⟩
          · exact rn_stmtErr_tag _ _ _ .runtime _ _
          · cases v <;> simp only [List.map_cons, List.map_nil, rnV_num, rnV_bool, rnV_str, rnV_list, rnV_record, rnV_nil, rnV_func] <;>
              first | exact rn_curErr _ _ _ _ _ | exact rn_stmtErr_tag _ _ _ .runtime _ _
          · cases v <;> simp only [List.map_cons, rnV_num, rnV_bool, rnV_str, rnV_list, rnV_record, rnV_nil, rnV_func] <;>
              exact rn_stmtErr_tag _ _ _ .runtime _ _
        · have he' : ¬ ((rnTok ρ tok).lexeme == W.fnError) = true := by rw [hfix]; exact he
          rw [if_neg he, if_neg he', hfix]
          cases hcb : callBuiltin tok.lexeme vs s1 with
          | inl r =>
            obtain ⟨v, s'⟩ := r
            rw [rn_callBuiltin_inl ρ _ _ _ _ _ hcb]; rfl
          | inr t =>
            rw [rn_callBuiltin_inr ρ _ _ _ _ hcb]
            simp only
            split
            · rfl
            · exact rn_curErr _ _ _ _ _
      · have hb' : ¬ isBuiltin (rnTok ρ tok).lexeme = true := by show ¬ isBuiltin (ρ tok.lexeme) = true; rw [hnb]; exact hb
        rw [if_neg hb, if_neg hb', rnTok_lexeme, rn_lookupVar ρ hinj]
        cases hl : lookupVar s.scopes tok.lexeme with
        | none => exact rn_stmtErr_tag _ _ _ .runtime _ _
        | some fv =>
          cases fv <;> simp only [Option.map, rnV_num, rnV_bool, rnV_str, rnV_list, rnV_record, rnV_nil, rnV_func, rnSt_out] <;>
            try exact rn_metaErr_tag _ ⟨tok.line, tok.file⟩ .runtime _ _
          rename_i rem params
          have hbp := ih.bindParams cur params args [] s
          simp only [rnScope, List.map_nil] at hbp
          rw [hbp]; refine Res.rn_bind _ _ _ _ _ ?_
          rintro ⟨env, s1⟩
          simp only [rnSt_scopes, rnSt_out, rn_bodyOf]
          cases hbo : bodyOf prog rem with
          | nil => exact rn_unexpected_tag _ _ _
          | cons st body =>
            cases st
            case blockStart bm =>
              simp only [List.map_cons, rnS]
              show (callLoop (rnL ρ prog) f (rnL ρ (Stmt.blockStart bm :: body)) (rnSt ρ { s1 with scopes := env :: s1.scopes })).bind _ = _
              rw [ih.callLoop]; refine Res.rn_bind _ _ _ _ _ ?_
              rintro ⟨v, s2⟩
              simp [rnSt, Res.rn, List.map_drop]
            all_goals (simp only [List.map_cons, rnS]; exact rn_unexpected_tag _ _ _)
    all_goals (simp only [rnE]; exact rn_stmtErr_tag _ _ _ .runtime _ _)
  · intro cur params args env s
    cases params <;> cases args <;> simp only [List.map_nil, List.map_cons, rnEs, bindParams] <;> try rfl
    · rename_i p ps
      have h := ih.bindParams cur ps .nil (assocSet env p .nil) s
      rw [← rn_assocSet ρ hinj, rnV_nil] at h
      exact h
    · rename_i p ps a rest
      rw [ih.eval]; refine Res.rn_bind _ _ _ _ _ ?_
      rintro ⟨v, s1⟩
      simp only []
      rw [rn_assocSet ρ hinj]
      exact ih.bindParams _ _ _ _ _
  · intro cur s
    cases cur with
    | nil =>
      simp only [List.map_nil, callLoop]
      have h0 := ih.exec [] s
      simp only [List.map_nil] at h0
      rw [h0]; refine Res.rn_bind _ _ _ _ _ ?_
      rintro ⟨c, s1⟩; exact ih.callLoop _ _
    | cons st rest =>
      have hex := ih.exec (st :: rest) s
      have hev : ∀ e, eval (rnL ρ prog) f (rnL ρ (st :: rest)) (rnE ρ e) (rnSt ρ s) = (eval prog f (st :: rest) e s).rn (hV ρ) := fun e => ih.eval _ e s
      cases st <;> simp only [List.map_cons, rnS, callLoop] at hex hev ⊢
      all_goals first
        | exact hev _
        | (rw [hex]; refine Res.rn_bind _ _ _ _ _ ?_; rintro ⟨c, s1⟩; exact ih.callLoop _ _)
  · intro cur s
    cases cur with
    | nil => simp only [List.map_nil, exec, rnSt_out]; exact rn_unexpected_tag _ _ _
    | cons st rest =>
      cases st
      case print e m =>
        simp only [List.map_cons, rnS, exec]
        rw [show (Stmt.print (rnE ρ e) m :: List.map (rnS ρ) rest) = rnL ρ (Stmt.print e m :: rest) from rfl]
        rnm
      case printNoEOL e m =>
        simp only [List.map_cons, rnS, exec]
        rw [show (Stmt.printNoEOL (rnE ρ e) m :: List.map (rnS ρ) rest) = rnL ρ (Stmt.printNoEOL e m :: rest) from rfl]
        rnm
      case expr e m =>
        simp only [List.map_cons, rnS, exec]
        rw [show (Stmt.expr (rnE ρ e) m :: List.map (rnS ρ) rest) = rnL ρ (Stmt.expr e m :: rest) from rfl]
        rnm
      case assign a m =>
        simp only [List.map_cons, rnS, exec]
        rw [show (Stmt.assign (rnA ρ a) m :: List.map (rnS ρ) rest) = rnL ρ (Stmt.assign a m :: rest) from rfl]
        rnm
      case «if» c m =>
        simp only [List.map_cons, rnS, exec]
        rw [ih.eval]; refine Res.rn_bind _ _ _ _ _ ?_
        rintro ⟨v, s1⟩
        cases v <;> simp only [rnV_num, rnV_bool, rnV_str, rnV_list, rnV_record, rnV_nil, rnV_func, rnSt_flags, rnSt_out, rnE_meta] <;>
          try exact rn_metaErr_tag _ _ _ _ _
        rename_i b
        cases b
        · simp only []
          refine rn_tag_bind (fun x => (rnL ρ x.1, x.2)) _ _ _ _ _ _ (rn_skipBlockInIf ρ rest _) ?_
          rintro ⟨c', fl⟩; rfl
        · rfl
      case «else» m =>
        simp only [List.map_cons, rnS, exec, rnSt_flags, rnSt_out]
        split
        · exact rn_stmtErr_tag ρ _ (Stmt.else m :: rest) .runtime _ _
        · refine rn_tag_bind (fun x => (rnL ρ x.1, x.2)) _ _ _ _ _ _ (rn_skipBlockInIf ρ rest _) ?_
          rintro ⟨c', fl⟩; rfl
        · rfl
      case funcDef m =>
        simp only [List.map_cons, rnS, exec, rnSt_out]
        exact rn_tagOut _ _ _ _ (rn_execFuncDef ρ hinj prog rest s)
      case loop m =>
        simp only [List.map_cons, rnS, exec, rnSt_scopes, List.length_map]; rfl
      case cont m =>
        simp only [List.map_cons, rnS, exec, rnSt_scopes, rnSt_out, rnSt_loops, List.length_map]
        cases hl : s.loops with
        | nil => exact rn_stmtErr_tag ρ _ (Stmt.cont m :: rest) .runtime _ _
        | cons l ls => simp [rnSt, Res.rn, hl, List.map_drop]
      case brk m =>
        simp only [List.map_cons, rnS, exec, rnSt_scopes, rnSt_out, rnSt_loops, List.length_map]
        cases hl : s.loops with
        | nil =>
          simp only [List.map_nil]
          refine rn_tag_bind (rnL ρ) _ _ _ _ _ _ (rn_breakScan ρ m rest _) ?_
          intro c'; simp [rnSt, Res.rn, hl]
        | cons l ls =>
          simp only [List.map_cons]
          refine rn_tag_bind (rnL ρ) _ _ _ _ _ _ (rn_breakScan ρ m rest _) ?_
          intro c'; simp [rnSt, Res.rn, hl, List.map_drop]
      case blockStart m => simp only [List.map_cons, rnS, exec, rnSt_scopes]; rfl
      case blockEnd m =>
        simp only [List.map_cons, rnS, exec, rnSt_scopes, rnSt_out, List.length_map]
        split
        · exact rn_stmtErr_tag ρ _ (Stmt.blockEnd m :: rest) .runtime _ _
        · simp [rnSt, Res.rn, List.map_drop]
      case ret e m =>
        simp only [List.map_cons, rnS, exec, rnSt_out]
        exact rn_stmtErr_tag ρ _ (Stmt.ret e m :: rest) .runtime _ _
      case eos m =>
        simp only [List.map_cons, rnS, exec, rnSt_out]
        exact rn_stmtErr_tag ρ _ (Stmt.eos m :: rest) .runtime _ _
  · intro cur a s
    obtain ⟨kind, var, indexes, init⟩ := a
    simp only [execAssign, rnA, rnTok_lexeme, rnSt_scopes, rnSt_out, rnSt_heap]
    cases kind
    · cases init with
      | none =>
        simp only [Option.map]
        have hd := rn_declareVar ρ hinj s.scopes var.lexeme .nil
        rw [rnV_nil] at hd; rw [hd]
        cases declareVar s.scopes var.lexeme Val.nil <;> rfl
      | some e =>
        simp only [Option.map]
        rw [ih.eval]; refine Res.rn_bind _ _ _ _ _ ?_
        rintro ⟨v, s1⟩
        simp only [rnSt_scopes]
        rw [rn_declareVar ρ hinj]
        cases declareVar s1.scopes var.lexeme v <;> rfl
    · cases init with
      | none => rfl
      | some e =>
        simp only [Option.map, List.isEmpty_map]
        rw [ih.eval]; refine Res.rn_bind _ _ _ _ _ ?_
        rintro ⟨v, s1⟩
        simp only [rnSt_scopes, rnSt_out]
        rw [rn_lookupVar ρ hinj]
        cases hl : lookupVar s1.scopes var.lexeme with
        | none => exact rn_stmtErr_tag _ _ _ .runtime _ _
        | some c0 =>
          simp only [Option.map]
          by_cases hie : indexes.isEmpty = true
          · simp only [hie, ↓reduceIte]
            rw [rn_assignVar ρ hinj]
            cases assignVar s1.scopes var.lexeme v <;> rfl
          · simp only [hie, Bool.false_eq_true, ↓reduceIte]
            rw [ih.evalIndexes]; refine Res.rn_bind _ _ _ _ _ ?_
            rintro ⟨ixs, s2⟩
            simp only [rnSt_scopes, rnSt_out, rnSt_heap]
            cases cur with
            | nil => exact rn_unexpected_tag _ _ _
            | cons st rest =>
              simp only [List.map_cons]
              rw [rn_lookupVar ρ hinj]
              cases hl2 : lookupVar s2.scopes var.lexeme with
              | none => exact rn_stmtErr_tag ρ _ (st :: rest) .runtime _ _
              | some c1 =>
                simp only [Option.map]
                refine rn_tag_bind (rnHeap ρ) _ _ _ _ _ _ (rn_assignPath ρ (st :: rest) v ixs c1 s2.heap) ?_
                intro h; rfl
  · intro cur ixs s
    cases ixs <;> simp only [List.map_nil, List.map_cons, evalIndexes] <;> try rfl
    rename_i ix rest
    rw [ih.eval]; refine Res.rn_bind _ _ _ _ _ ?_
    rintro ⟨v, s1⟩
    cases v <;> simp only [rnV_num, rnV_bool, rnV_str, rnV_list, rnV_record, rnV_nil, rnV_func, rnSt_heap, rnSt_out, rnE_meta, rnHeap_getList] <;>
      try exact rn_metaErr_tag _ _ _ _ _
    rename_i i
    cases s1.heap.lists[i]? with
    | none => rfl
    | some l =>
      simp only [Option.map, List.head?_map]
      have tl : ∀ (one : Res Index),
          (one.bind fun i1 => (evalIndexes (rnL ρ prog) f (rnL ρ cur) (List.map (rnE ρ) rest) (rnSt ρ s1)).bind fun x => Res.ok (i1 :: x.fst, x.snd)) =
          Res.rn (hI ρ) (one.bind fun i1 => (evalIndexes prog f cur rest s1).bind fun x => Res.ok (i1 :: x.fst, x.snd)) := by
        intro one
        cases one with
        | ok i1 =>
          simp only [Res.bind]
          rw [ih.evalIndexes]
          cases evalIndexes prog f cur rest s1 <;> rfl
        | err e => rfl
        | panic p => rfl
        | fuel => rfl
      cases l.head? with
      | none => exact tl _
      | some w => cases w <;> exact tl _
end
end Pakhi
