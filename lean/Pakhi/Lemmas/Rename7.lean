import Pakhi.Lemmas.Rename6
namespace Pakhi
section
variable (ρ : Str → Str)

theorem rnV_of_ref (v : Val) (h : (match v with | .list _ => true | _ => false) = true ∨ (match v with | .record _ => true | _ => false) = true) :
    rnV ρ v = v := by
  cases v <;> simp_all

theorem rootVals_rn (scopes : List Scope) : rootVals (scopes.map (rnScope ρ)) = rootVals scopes := by
  simp only [rootVals]
  have hv : (scopes.map (rnScope ρ)).flatMap (fun s => s.map (·.2)) = (scopes.flatMap (fun s => s.map (·.2))).map (rnV ρ) := by
    induction scopes with
    | nil => rfl
    | cons sc r ih => simp only [List.map_cons, List.flatMap_cons, List.map_append, ih, rnScope, List.map_map]; rfl
  rw [hv]
  generalize scopes.flatMap (fun s => s.map (·.2)) = vals
  have h1 : ∀ (p : Val → Bool), (∀ v, p (rnV ρ v) = p v) → (∀ v, p v = true → rnV ρ v = v) → (vals.map (rnV ρ)).filter p = vals.filter p := by
    intro p hp hfix
    induction vals with
    | nil => rfl
    | cons v r ih =>
      simp only [List.map_cons, List.filter_cons, hp]
      split
      · rename_i hpv; rw [hfix v hpv, ih]
      · exact ih
  rw [h1 _ (fun v => by cases v <;> rfl) (fun v hv => by cases v <;> simp_all),
      h1 _ (fun v => by cases v <;> rfl) (fun v hv => by cases v <;> simp_all)]

theorem mark_rn (h : Heap) : ∀ (f : Nat),
    (∀ vs m, markVals (rnHeap ρ h) f (vs.map (rnV ρ)) m = markVals h f vs m) ∧
    (∀ v m, markVal (rnHeap ρ h) f (rnV ρ v) m = markVal h f v m)
  | 0 => ⟨fun _ _ => rfl, fun _ _ => rfl⟩
  | f+1 => by
      obtain ⟨i1, i2⟩ := mark_rn h f
      refine ⟨?_, ?_⟩
      · intro vs m
        cases vs with
        | nil => rfl
        | cons v r =>
          simp only [List.map_cons, markVals, i2]
          cases markVal h f v m <;> first | rfl | exact i1 r _
      · intro v m
        cases v <;> simp only [rnV_num, rnV_bool, rnV_str, rnV_list, rnV_record, rnV_nil, rnV_func, markVal, rnHeap_getList, rnHeap_getRecord]
        case list i =>
          cases m.lists[i]? with
          | none => rfl
          | some b =>
            cases b
            · cases h.lists[i]? with
              | none => rfl
              | some l => exact i1 l _
            · rfl
        case record i =>
          cases m.records[i]? with
          | none => rfl
          | some b =>
            cases b
            · cases h.records[i]? with
              | none => rfl
              | some r =>
                simp only [Option.map]
                have e : (rnRec ρ r).map (·.2) = (r.map (·.2)).map (rnV ρ) := by simp [rnRec, List.map_map, Function.comp]
                rw [e]; exact i1 _ _
            · rfl

theorem markRoots_rn (h : Heap) : ∀ (f : Nat) (vs : List Val) (m : Marks), markRoots (rnHeap ρ h) f vs m = markRoots h f vs m
  | 0, _, _ => rfl
  | f+1, [], m => rfl
  | f+1, v :: vs, m => by
      cases v <;> simp only [markRoots, rnHeap_getList, rnHeap_getRecord] <;> try exact markRoots_rn h f vs m
      case list i =>
        cases m.lists[i]? <;> cases h.lists[i]? <;> simp only [Option.map] <;> try rfl
        rename_i b l
        rw [(mark_rn ρ h f).1]
        cases markVals h f l { m with lists := m.lists.set i true } <;> first | rfl | exact markRoots_rn h f vs _
      case record i =>
        cases m.records[i]? <;> cases h.records[i]? <;> simp only [Option.map] <;> try rfl
        rename_i b r
        have e : (rnRec ρ r).map (·.2) = (r.map (·.2)).map (rnV ρ) := by simp [rnRec, List.map_map, Function.comp]
        rw [e, (mark_rn ρ h f).1]
        cases markVals h f (r.map (·.2)) { m with records := m.records.set i true } <;> first | rfl | exact markRoots_rn h f vs _

theorem heapSize_rn (h : Heap) : (rnHeap ρ h).size = h.size := by
  have h1 : ∀ (ls : List (List Val)) (n : Nat), (ls.map (List.map (rnV ρ))).foldl (fun n l => n + l.length + 1) n = ls.foldl (fun n l => n + l.length + 1) n := by
    intro ls; induction ls with
    | nil => intro n; rfl
    | cons l r ih => intro n; simp only [List.map_cons, List.foldl_cons, List.length_map]; exact ih _
  have h2 : ∀ (rs : List RecordObj) (n : Nat), (rs.map (rnRec ρ)).foldl (fun n r => n + r.length + 1) n = rs.foldl (fun n r => n + r.length + 1) n := by
    intro rs; induction rs with
    | nil => intro n; rfl
    | cons l r ih => intro n; simp only [List.map_cons, List.foldl_cons, rnRec, List.length_map]; exact ih _
  simp only [Heap.size, rnHeap_lists, rnHeap_records, h1, h2]

theorem sweepArena_map {α : Type} (g : α → α) (empty : α) (hg : g empty = empty) : ∀ (ms : List Bool) (i : Nat) (arena : List α) (free : List Nat),
    sweepArena empty i ms (arena.map g) free = ((sweepArena empty i ms arena free).1.map g, (sweepArena empty i ms arena free).2)
  | [], _, _, _ => rfl
  | alive :: ms, i, arena, free => by
      simp only [sweepArena]
      split
      · exact sweepArena_map g empty hg ms _ _ _
      · have := sweepArena_map g empty hg ms (i+1) (arena.set i empty) (if free.contains i then free else i :: free)
        rw [List.map_set, hg] at this
        exact this

theorem sweep_rn (h : Heap) (m : Marks) : sweep (rnHeap ρ h) m = rnHeap ρ (sweep h m) := by
  simp only [sweep, rnHeap_lists, rnHeap_records, rnHeap_freeLists, rnHeap_freeRecords]
  rw [sweepArena_map (List.map (rnV ρ)) [] rfl, sweepArena_map (rnRec ρ) [] rfl]
  rfl

theorem collect_rn (scopes : List Scope) (h : Heap) :
    collect (scopes.map (rnScope ρ)) (rnHeap ρ h) =
      match collect scopes h with
      | .ok h' => .ok (rnHeap ρ h')
      | .panic p => .panic p
      | .fuel => .fuel := by
  simp only [collect, rootVals_rn, markRoots_rn]
  have hf : markFuel (rnHeap ρ h) (rootVals scopes) = markFuel h (rootVals scopes) := by simp only [markFuel, heapSize_rn]
  have hi : Marks.init (rnHeap ρ h) = Marks.init h := by simp [Marks.init]
  rw [hf, hi]
  cases markRoots h (markFuel h (rootVals scopes)) (rootVals scopes) (Marks.init h) with
  | ok m => simp only [sweep_rn]; rfl
  | panic p => rfl
  | fuel => rfl
end
end Pakhi

namespace Pakhi
theorem rnInv (ρ : Str → Str) (prog : List Stmt) (hinj : ∀ a b, ρ a = ρ b → a = b) (hbi : ∀ n, isBuiltin n = true → ρ n = n)
    (hnb : ∀ n, isBuiltin (ρ n) = isBuiltin n) : ∀ f, RNInv ρ prog f
  | 0 => rnInv_zero ρ prog
  | f+1 => rnInv_succ ρ prog hinj hbi hnb f (rnInv ρ prog hinj hbi hnb f)

/-- **user identifiers are labels, whole runs**: rename the identifiers of a program consistently (injectively, leaving the built-in names
    alone and never producing one) and the run is the renamed run — same statements executed, same values (a function value carries its
    renamed parameter names), same heap, output, world, collections, fuel, and the very same error -/
theorem runLoop_rename (ρ : Str → Str) (prog : List Stmt) (hinj : ∀ a b, ρ a = ρ b → a = b) (hbi : ∀ n, isBuiltin n = true → ρ n = n)
    (hnb : ∀ n, isBuiltin (ρ n) = isBuiltin n) (g : GcMode) : ∀ (f k : Nat) (cur : List Stmt) (s : St),
    runLoop (rnL ρ prog) g f k (rnL ρ cur) (rnSt ρ s) = (runLoop prog g f k cur s).rn (rnSt ρ)
  | 0, _, _, _ => rfl
  | f+1, k, cur, s => by
      have step : ∀ (r : Res (List Stmt × St)),
          (match r.rn (hC ρ) with
            | .ok (cur', s) =>
              if g.fires k s.heap then
                match collect s.scopes s.heap with
                | .ok h => runLoop (rnL ρ prog) g f (k+1) cur' { s with heap := h, gcCount := s.gcCount + 1 }
                | .panic p => .panic p
                | .fuel => .fuel
              else runLoop (rnL ρ prog) g f (k+1) cur' s
            | .err e => .err e | .panic p => .panic p | .fuel => .fuel) =
          (match r with
            | .ok (cur', s) =>
              if g.fires k s.heap then
                match collect s.scopes s.heap with
                | .ok h => runLoop prog g f (k+1) cur' { s with heap := h, gcCount := s.gcCount + 1 }
                | .panic p => .panic p
                | .fuel => .fuel
              else runLoop prog g f (k+1) cur' s
            | .err e => .err e | .panic p => .panic p | .fuel => .fuel).rn (rnSt ρ) := by
        intro r
        cases r with
        | ok x =>
          obtain ⟨cur', s1⟩ := x
          have hfires : g.fires k (rnSt ρ s1).heap = g.fires k s1.heap := by cases g <;> rfl
          simp only [Res.rn_ok]
          by_cases hf : g.fires k s1.heap = true
          · have hf' : g.fires k (rnSt ρ s1).heap = true := by rw [hfires]; exact hf
            rw [if_pos hf, if_pos hf']
            simp only [rnSt_heap, rnSt_scopes, rnSt_gcCount, collect_rn]
            cases collect s1.scopes s1.heap with
            | ok h' => exact runLoop_rename ρ prog hinj hbi hnb g f (k+1) cur' { s1 with heap := h', gcCount := s1.gcCount + 1 }
            | panic p => rfl
            | fuel => rfl
          · have hf' : ¬ g.fires k (rnSt ρ s1).heap = true := by rw [hfires]; exact hf
            rw [if_neg hf, if_neg hf']
            exact runLoop_rename ρ prog hinj hbi hnb g f (k+1) cur' s1
        | err e => rfl
        | panic p => rfl
        | fuel => rfl
      cases cur with
      | nil => rfl
      | cons st rest =>
        have hex := (rnInv ρ prog hinj hbi hnb f).exec (st :: rest) s
        cases st <;> first
          | rfl
          | (simp only [List.map_cons, rnS, runLoop] at hex ⊢
             rw [hex]
             exact step _)
#print axioms runLoop_rename
end Pakhi
