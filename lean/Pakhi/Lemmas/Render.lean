/- The value renderer as a pure specification and its agreement with the three print routines (helper lemmas for C18). -/
import Pakhi.Model.Interp
namespace Pakhi

/-- `Spec.Render`: the one recursive value renderer (numbers as C09, booleans as সত্য / মিথ্যা, strings
    verbatim, `[e1, e2]`, `@{"k":v,}`), as a pure function of the heap -/
def render (h : Heap) : Nat → Val → Option Str
  | 0, _ => none
  | f+1, v =>
    match v with
    | .num n => toBnNum? n
    | .bool b => some (if b then W.wTrue else W.wFalse)
    | .str t => some t
    | .list i =>
      match h.lists[i]? with
      | none => none
      | some l => (renderElems h f l true).map (fun t => '[' :: t ++ [']'])
    | .record i =>
      match h.records[i]? with
      | none => none
      | some r => (renderEntries h f r).map (fun t => '@' :: '{' :: t ++ ['}'])
    | _ => none
where
  renderElems (h : Heap) : Nat → List Val → Bool → Option Str
    | 0, _, _ => none
    | _+1, [], _ => some []
    | f+1, x :: xs, first =>
      match render h f x, renderElems h f xs false with
      | some a, some b => some ((if first then [] else W.sepCommaSpace) ++ a ++ b)
      | _, _ => none
  renderEntries (h : Heap) : Nat → RecordObj → Option Str
    | 0, _ => none
    | _+1, [] => some []
    | f+1, (k, x) :: xs =>
      match render h f x, renderEntries h f xs with
      | some a, some b => some ('"' :: k ++ ['"', ':'] ++ a ++ [','] ++ b)
      | _, _ => none

theorem outText_cons_text (o : List Out) (t : Str) : outText (.text t :: o) = outText o ++ t := by
  simp [outText, List.flatten_append]

theorem outText_cons_mark (o : List Out) (m : Out) (hm : ∀ t, m ≠ .text t) : outText (m :: o) = outText o := by
  cases m <;> simp_all [outText, List.flatten_append]

theorem emit_out (s : St) (t : Str) : outText (s.emit t).out = outText s.out ++ t := outText_cons_text s.out t
theorem mark_out (s : St) (m : Out) (hm : ∀ t, m ≠ .text t) : outText (s.mark m).out = outText s.out := outText_cons_mark s.out m hm

/-- what a print helper may do to the state: append text to the output, nothing else -/
def OnlyAppends (s s' : St) (t : Str) : Prop :=
  outText s'.out = outText s.out ++ t ∧ s'.heap = s.heap ∧ s'.scopes = s.scopes ∧ s'.loops = s.loops ∧
  s'.flags = s.flags ∧ s'.world = s.world ∧ s'.gcCount = s.gcCount

theorem onlyAppends_emit (s : St) (t : Str) : OnlyAppends s (s.emit t) t :=
  ⟨emit_out s t, rfl, rfl, rfl, rfl, rfl, rfl⟩

theorem onlyAppends_mark (s : St) (m : Out) (hm : ∀ t, m ≠ .text t) : OnlyAppends s (s.mark m) [] :=
  ⟨by simp [mark_out s m hm], rfl, rfl, rfl, rfl, rfl, rfl⟩

theorem onlyAppends_trans {s1 s2 s3 : St} {a b : Str} (h1 : OnlyAppends s1 s2 a) (h2 : OnlyAppends s2 s3 b) :
    OnlyAppends s1 s3 (a ++ b) := by
  obtain ⟨a1, a2, a3, a4, a5, a6, a7⟩ := h1
  obtain ⟨b1, b2, b3, b4, b5, b6, b7⟩ := h2
  exact ⟨by rw [b1, a1, List.append_assoc], b2.trans a2, b3.trans a3, b4.trans a4, b5.trans a5, b6.trans a6, b7.trans a7⟩

theorem print_spec (cur : List Stmt) : ∀ (f : Nat),
    (∀ v s s', printVal cur f v s = .ok s' → ∃ t, render s.heap f v = some t ∧ OnlyAppends s s' t) ∧
    (∀ xs first s s', printElems cur f xs first s = .ok s' → ∃ t, render.renderElems s.heap f xs first = some t ∧ OnlyAppends s s' t) ∧
    (∀ xs s s', printEntries cur f xs s = .ok s' → ∃ t, render.renderEntries s.heap f xs = some t ∧ OnlyAppends s s' t)
  | 0 => by simp [printVal, printElems, printEntries]
  | f+1 => by
      obtain ⟨ih1, ih2, ih3⟩ := print_spec cur f
      refine ⟨?_, ?_, ?_⟩
      · intro v s s' h
        cases v with
        | num n =>
          simp only [printVal] at h
          split at h
          · rename_i t ht; simp at h; subst h
            exact ⟨t, by simp [render, ht], onlyAppends_emit s t⟩
          · cases cur <;> simp [stmtErr, mkErr, unexpected, Res.tagOut] at h
        | bool b =>
          simp [printVal] at h; subst h
          exact ⟨_, by simp [render], onlyAppends_emit s _⟩
        | str t =>
          simp [printVal] at h; subst h
          exact ⟨t, by simp [render], onlyAppends_emit s t⟩
        | list i =>
          simp only [printVal] at h
          cases hl : s.heap.lists[i]? with
          | none => simp [hl] at h
          | some l =>
            simp only [hl] at h
            cases hp : printElems cur f l true (s.emit ['[']) with
            | ok s1 =>
              simp [hp] at h; subst h
              obtain ⟨t, ht, ha⟩ := ih2 l true _ s1 hp
              have hh : (s.emit ['[']).heap = s.heap := rfl
              rw [hh] at ht
              refine ⟨'[' :: t ++ [']'], by simp [render, hl, ht], ?_⟩
              have := onlyAppends_trans (onlyAppends_trans (onlyAppends_emit s ['[']) ha) (onlyAppends_emit s1 [']'])
              simpa using this
            | err e => simp [hp] at h
            | panic p => simp [hp] at h
            | fuel => simp [hp] at h
        | record i =>
          simp only [printVal] at h
          cases hl : s.heap.records[i]? with
          | none => simp [hl] at h
          | some r =>
            simp only [hl] at h
            cases hp : printEntries cur f r ((s.emit ['@', '{']).mark .recStart) with
            | ok s1 =>
              simp [hp] at h; subst h
              obtain ⟨t, ht, ha⟩ := ih3 r _ s1 hp
              have hh : ((s.emit ['@', '{']).mark .recStart).heap = s.heap := rfl
              rw [hh] at ht
              refine ⟨'@' :: '{' :: t ++ ['}'], by simp [render, hl, ht], ?_⟩
              have := onlyAppends_trans (onlyAppends_trans (onlyAppends_trans (onlyAppends_trans (onlyAppends_emit s ['@', '{'])
                (onlyAppends_mark _ .recStart (by simp))) ha) (onlyAppends_mark s1 .recEnd (by simp))) (onlyAppends_emit _ ['}'])
              simpa using this
            | err e => simp [hp] at h
            | panic p => simp [hp] at h
            | fuel => simp [hp] at h
        | func _ _ => simp only [printVal] at h; cases cur <;> simp [stmtErr, mkErr, unexpected, Res.tagOut] at h
        | nil => simp only [printVal] at h; cases cur <;> simp [stmtErr, mkErr, unexpected, Res.tagOut] at h
      · intro xs first s s' h
        cases xs with
        | nil => simp [printElems] at h; subst h; exact ⟨[], by simp [render.renderElems], by simp [OnlyAppends]⟩
        | cons x xs =>
          simp only [printElems] at h
          cases hp : printVal cur f x (if first then s else s.emit W.sepCommaSpace) with
          | ok s1 =>
            simp only [hp] at h
            obtain ⟨a, ha, ha2⟩ := ih1 x _ s1 hp
            obtain ⟨b, hb, hb2⟩ := ih2 xs false s1 s' h
            have hh : (if first then s else s.emit W.sepCommaSpace).heap = s.heap := by cases first <;> rfl
            rw [hh] at ha
            rw [ha2.2.1, hh] at hb
            refine ⟨(if first then [] else W.sepCommaSpace) ++ a ++ b, by simp [render.renderElems, ha, hb], ?_⟩
            have h0 : OnlyAppends s (if first then s else s.emit W.sepCommaSpace) (if first then [] else W.sepCommaSpace) := by
              cases first
              · exact onlyAppends_emit s _
              · simp [OnlyAppends]
            have := onlyAppends_trans (onlyAppends_trans h0 ha2) hb2
            simpa using this
          | err e => simp [hp] at h
          | panic p => simp [hp] at h
          | fuel => simp [hp] at h
      · intro xs s s' h
        cases xs with
        | nil => simp [printEntries] at h; subst h; exact ⟨[], by simp [render.renderEntries], by simp [OnlyAppends]⟩
        | cons kx xs =>
          obtain ⟨k, x⟩ := kx
          simp only [printEntries] at h
          split at h
          · rename_i s1 hp
            obtain ⟨a, ha, ha2⟩ := ih1 x _ s1 hp
            obtain ⟨b, hb, hb2⟩ := ih3 xs _ s' h
            have hh : ∀ t, ((s.mark .entStart).emit t).heap = s.heap := fun _ => rfl
            rw [hh] at ha
            have hh2 : ((s1.emit [',']).mark .entEnd).heap = s.heap := by
              show s1.heap = s.heap; rw [ha2.2.1]; rfl
            rw [hh2] at hb
            refine ⟨'"' :: k ++ ['"', ':'] ++ a ++ [','] ++ b, by simp [render.renderEntries, ha, hb], ?_⟩
            have := onlyAppends_trans (onlyAppends_trans (onlyAppends_trans (onlyAppends_trans (onlyAppends_trans
              (onlyAppends_mark s .entStart (by simp)) (onlyAppends_emit _ _)) ha2)
              (onlyAppends_emit s1 [','])) (onlyAppends_mark _ .entEnd (by simp))) hb2
            simpa using this
          · simp at h
          · simp at h
          · simp at h
end Pakhi
