/- Sequence lemmas behind the list built-ins (helper lemmas for C16, C06). -/
import Pakhi.Model.Interp
namespace Pakhi

theorem insertAt_cons_succ (a : Val) (l : List Val) (i : Nat) (x : Val) :
    insertAt (a :: l) (i+1) x = a :: insertAt l i x := by simp [insertAt]
theorem insertAt_zero (l : List Val) (x : Val) : insertAt l 0 x = x :: l := by simp [insertAt]
theorem removeAt_cons_succ (a : Val) (l : List Val) (i : Nat) :
    removeAt (a :: l) (i+1) = a :: removeAt l i := by simp [removeAt]
theorem removeAt_zero (a : Val) (l : List Val) : removeAt (a :: l) 0 = l := by simp [removeAt]

theorem insertAt_length : ∀ (l : List Val) (i : Nat) (x : Val), i ≤ l.length → (insertAt l i x).length = l.length + 1
  | l, 0, x, _ => by simp [insertAt_zero]
  | [], i+1, x, h => by simp at h
  | a :: l, i+1, x, h => by
      simp [insertAt_cons_succ, insertAt_length l i x (by simpa using h)]

theorem insertAt_get_lt : ∀ (l : List Val) (i j : Nat) (x : Val), i ≤ l.length → j < i → (insertAt l i x)[j]? = l[j]?
  | _, 0, _, _, _, hj => by omega
  | [], _+1, _, _, hi, _ => by simp at hi
  | a :: l, i+1, 0, x, _, _ => by simp [insertAt_cons_succ]
  | a :: l, i+1, j+1, x, hi, hj => by
      simpa [insertAt_cons_succ] using insertAt_get_lt l i j x (by simpa using hi) (by omega)

theorem insertAt_get_eq : ∀ (l : List Val) (i : Nat) (x : Val), i ≤ l.length → (insertAt l i x)[i]? = some x
  | l, 0, x, _ => by simp [insertAt_zero]
  | [], _+1, _, hi => by simp at hi
  | a :: l, i+1, x, hi => by
      simpa [insertAt_cons_succ] using insertAt_get_eq l i x (by simpa using hi)

theorem insertAt_get_gt : ∀ (l : List Val) (i j : Nat) (x : Val), i ≤ l.length → i < j → (insertAt l i x)[j]? = l[j - 1]?
  | l, 0, j+1, x, _, _ => by simp [insertAt_zero]
  | [], _+1, _, _, hi, _ => by simp at hi
  | a :: l, i+1, 0, x, _, hj => by omega
  | a :: l, i+1, j+1, x, hi, hj => by
      have h := insertAt_get_gt l i j x (by simpa using hi) (by omega)
      obtain ⟨k, rfl⟩ : ∃ k, j = k + 1 := ⟨j - 1, by omega⟩
      simpa [insertAt_cons_succ] using h

theorem removeAt_length : ∀ (l : List Val) (i : Nat), i < l.length → (removeAt l i).length = l.length - 1
  | [], _, h => by simp at h
  | a :: l, 0, _ => by simp [removeAt_zero]
  | a :: l, i+1, h => by
      have := removeAt_length l i (by simpa using h)
      simp [removeAt_cons_succ, this]
      have : i < l.length := by simpa using h
      omega

theorem removeAt_get_lt : ∀ (l : List Val) (i j : Nat), i < l.length → j < i → (removeAt l i)[j]? = l[j]?
  | [], _, _, h, _ => by simp at h
  | a :: l, 0, _, _, hj => by omega
  | a :: l, i+1, 0, _, _ => by simp [removeAt_cons_succ]
  | a :: l, i+1, j+1, hi, hj => by
      simpa [removeAt_cons_succ] using removeAt_get_lt l i j (by simpa using hi) (by omega)

theorem removeAt_get_ge : ∀ (l : List Val) (i j : Nat), i < l.length → i ≤ j → (removeAt l i)[j]? = l[j + 1]?
  | [], _, _, h, _ => by simp at h
  | a :: l, 0, j, _, _ => by simp [removeAt_zero]
  | a :: l, i+1, 0, _, hj => by omega
  | a :: l, i+1, j+1, hi, hj => by
      simpa [removeAt_cons_succ] using removeAt_get_ge l i j (by simpa using hi) (by omega)
end Pakhi
