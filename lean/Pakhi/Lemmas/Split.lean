/- String split / join lemmas (helper lemmas for C17). -/
import Pakhi.Model.Interp
namespace Pakhi

theorem stripPrefix?_some : ∀ (p s rest : Str), stripPrefix? p s = some rest → s = p ++ rest
  | [], s, rest, h => by simp [stripPrefix?] at h; simp [h]
  | _ :: _, [], rest, h => by simp [stripPrefix?] at h
  | p :: ps, c :: cs, rest, h => by
      simp only [stripPrefix?] at h
      split at h
      · rename_i hpc
        have := stripPrefix?_some ps cs rest h
        simp at hpc; simp [hpc, this]
      · cases h

theorem stripPrefix?_append : ∀ (p rest : Str), stripPrefix? p (p ++ rest) = some rest
  | [], rest => by simp [stripPrefix?]
  | p :: ps, rest => by simp [stripPrefix?, stripPrefix?_append ps rest]

theorem splitGo_ne_nil (sep : Str) : ∀ (f : Nat) (s cur : Str), splitGo sep f s cur ≠ []
  | 0, _, _ => by simp [splitGo]
  | _+1, [], _ => by simp [splitGo]
  | f+1, c :: cs, cur => by
      simp only [splitGo]
      split
      · simp
      · exact splitGo_ne_nil sep f cs (c :: cur)

theorem joinStr_cons (sep a : Str) : ∀ (l : List Str), l ≠ [] → joinStr sep (a :: l) = a ++ sep ++ joinStr sep l
  | [], h => absurd rfl h
  | b :: r, _ => by simp [joinStr]

theorem join_splitGo (sep : Str) (hsep : sep ≠ []) :
    ∀ (f : Nat) (s cur : Str), s.length < f → joinStr sep (splitGo sep f s cur) = cur.reverse ++ s
  | 0, _, _, h => by omega
  | _+1, [], cur, _ => by simp [splitGo, joinStr]
  | f+1, c :: cs, cur, h => by
      simp only [splitGo]
      split
      · rename_i rest hr
        have hs := stripPrefix?_some sep (c :: cs) rest hr
        have hlen : rest.length < f := by
          have h1 : cs.length + 1 = sep.length + rest.length := by
            have := congrArg List.length hs; simpa using this
          have h2 : 0 < sep.length := List.length_pos_iff.mpr hsep
          simp at h; omega
        rw [joinStr_cons _ _ _ (splitGo_ne_nil sep f rest []), join_splitGo sep hsep f rest [] hlen, hs]
        simp
      · have : cs.length < f := by simp at h; omega
        rw [join_splitGo sep hsep f cs (c :: cur) this]; simp

theorem join_split (s sep : Str) (hsep : sep ≠ []) : joinStr sep (splitStr s sep) = s := by
  unfold splitStr
  have : sep.isEmpty = false := by cases sep <;> simp_all
  simp [this, join_splitGo sep hsep (s.length + 1) s [] (by omega)]

theorem split_empty_sep (s : Str) : splitStr s [] = s.map (fun c => [c]) := by simp [splitStr]

/-- scanning a field that does not contain the single separator character -/
theorem splitGo_field (c : Char) : ∀ (a : Str) (f : Nat) (rest cur : Str), c ∉ a → a.length + rest.length < f →
    splitGo [c] f (a ++ rest) cur = splitGo [c] (f - a.length) rest (a.reverse ++ cur)
  | [], f, rest, cur, _, _ => by simp
  | x :: a, 0, rest, cur, _, h => by omega
  | x :: a, f+1, rest, cur, hc, h => by
      have hx : c ≠ x := by intro e; apply hc; simp [e]
      have hca : c ∉ a := by intro e; apply hc; simp [e]
      have : stripPrefix? [c] (x :: (a ++ rest)) = none := by simp [stripPrefix?, hx]
      simp only [List.cons_append, splitGo, this]
      rw [splitGo_field c a f rest (x :: cur) hca (by simp at h; omega)]
      simp

theorem split_join_go (c : Char) : ∀ (l : List Str) (a : Str) (f : Nat) (cur : Str),
    (∀ x ∈ a :: l, c ∉ x) → (joinStr [c] (a :: l)).length < f →
    splitGo [c] f (joinStr [c] (a :: l)) cur = (cur.reverse ++ a) :: l
  | [], a, f, cur, hno, hf => by
      have ha : c ∉ a := hno a (by simp)
      have := splitGo_field c a f [] cur ha (by simpa [joinStr] using hf)
      simp [joinStr] at this ⊢
      rw [this]
      cases hfa : f - a.length with
      | zero => simp [joinStr] at hf; omega
      | succ k => simp [splitGo]
  | b :: l, a, f, cur, hno, hf => by
      have ha : c ∉ a := hno a (by simp)
      have hj : joinStr [c] (a :: b :: l) = a ++ (c :: joinStr [c] (b :: l)) := by simp [joinStr]
      rw [hj] at hf ⊢
      rw [splitGo_field c a f _ cur ha (by simpa using hf)]
      have hlen : (joinStr [c] (b :: l)).length + 1 < f - a.length + 0 := by simp at hf; omega
      cases hfa : f - a.length with
      | zero => omega
      | succ k =>
        have hs : stripPrefix? [c] (c :: joinStr [c] (b :: l)) = some (joinStr [c] (b :: l)) := by simp [stripPrefix?]
        simp only [splitGo, hs]
        rw [split_join_go c l b k [] (fun x hx => hno x (by simp at hx ⊢; exact Or.inr hx)) (by omega)]
        simp

theorem split_join_singleChar (c : Char) (l : List Str) (hl : l ≠ []) (hno : ∀ x ∈ l, c ∉ x) :
    splitStr (joinStr [c] l) [c] = l := by
  cases l with
  | nil => exact absurd rfl hl
  | cons a l =>
    simp only [splitStr, List.isEmpty_cons]
    simpa using split_join_go c l a _ [] hno (Nat.lt_succ_self _)

theorem split_join_multiChar_false :
    splitStr (joinStr ['a','a'] [['a'], ['x']]) ['a','a'] ≠ [['a'], ['x']] := by decide
end Pakhi
