/- Statement parsers never panic (helper lemmas for C12). -/
import Pakhi.Lemmas.ParserNP

namespace Pakhi

theorem pExpr_np (s : PS) (p : String) : pExpr s ≠ .panic p := (expr_no_panic _).1 0 s p

theorem metaCur_ok_rest (s : PS) (m : Meta) (h : s.metaCur = .ok m) : ∃ t r, s.rest = t :: r := by
  unfold PS.metaCur at h; split at h
  · exact ⟨_, _, by assumption⟩
  · simp [unexpected] at h

theorem syntaxErr_np' {α} (s : PS) (tag : String) (p : String) : (s.syntaxErr tag : Res α) ≠ .panic p := syntaxErr_np s tag p

theorem assignStmt_np (s : PS) (p : String) : assignStmt s ≠ .panic p := by
  have e := pExpr_np; have m1 := metaCur_np; have sy : ∀ (s : PS) (tag : String) (p : String), (s.syntaxErr tag : Res (Stmt × PS)) ≠ .panic p := fun s t p => syntaxErr_np s t p
  simp only [assignStmt]
  repeat' split
  all_goals (try (simp_all [unexpected, mkErr]; done))
  all_goals (exfalso; rename_i hq; split at hq
             · simp at hq
             · split at hq <;> simp_all)

theorem reassignIndexes_np : ∀ (f : Nat) (s : PS) (p : String), reassignIndexes f s ≠ .panic p
  | 0, s, p => by simp [reassignIndexes]
  | f+1, s, p => by
      have e := pExpr_np; have ih := reassignIndexes_np f
      have sy : ∀ (s : PS) (tag : String) (p : String), (s.syntaxErr tag : Res (List Expr × PS)) ≠ .panic p := fun s t p => syntaxErr_np s t p
      simp only [reassignIndexes]
      repeat' split
      all_goals (try simp_all)

theorem exprStmt_np (s : PS) (p : String) : exprStmt s ≠ .panic p := by
  have e := pExpr_np; have m1 := metaCur_np
  simp only [exprStmt]; repeat' split
  all_goals (try simp_all)

theorem reassignOrCallStmt_np (s : PS) (p : String) : reassignOrCallStmt s ≠ .panic p := by
  have e := pExpr_np; have m1 := metaCur_np; have r := reassignIndexes_np; have x := exprStmt_np
  cases hm : s.metaCur with
  | ok m =>
    obtain ⟨t, rs, hr⟩ := metaCur_ok_rest s m hm
    simp only [reassignOrCallStmt, hm, hr]
    repeat' split
    all_goals (try simp_all)
  | err e' => simp [reassignOrCallStmt, hm]
  | panic q => exact absurd hm (m1 s q)
  | fuel => simp [reassignOrCallStmt, hm]

theorem printStmt_np (b : Bool) (s : PS) (p : String) : printStmt b s ≠ .panic p := by
  have e := pExpr_np; have m1 := metaCur_np
  simp only [printStmt]; repeat' split
  all_goals (try simp_all)

theorem oneTokenStmt_np (mk : Meta → Stmt) (s : PS) (p : String) : oneTokenStmt mk s ≠ .panic p := by
  have m3 := metaPrev_np
  simp only [oneTokenStmt]; split <;> simp_all

theorem returnStmt_np (s : PS) (p : String) : returnStmt s ≠ .panic p := by
  have e := pExpr_np; have m1 := metaCur_np
  simp only [returnStmt]; repeat' split
  all_goals (try simp_all)

theorem ifStmt_np (s : PS) (p : String) : ifStmt s ≠ .panic p := by
  have e := pExpr_np; have m3 := metaPrev_np
  simp only [ifStmt]; repeat' split
  all_goals (try simp_all)
end Pakhi
