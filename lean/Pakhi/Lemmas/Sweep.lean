/-
  Roots, exact marking, the sweep and `collect` (helper lemmas for C07 / C08).
-/
import Pakhi.Lemmas.Mark

namespace Pakhi

theorem isMarked_init (h : Heap) (v : Val) : isMarked (Marks.init h) v = false := by
  cases v <;> simp [isMarked, Marks.init, List.getElem?_replicate]
  all_goals (split <;> simp)

/-- `gc_mark`'s root loop satisfies the same specification as the walkers -/
theorem markRoots_spec (h : Heap) : ∀ (f : Nat) (vs : List Val) (m m' : Marks),
    markRoots h f vs m = .ok m' → MarkSpec h vs m m'
  | 0, vs, m, m', hx => by simp [markRoots] at hx
  | f+1, [], m, m', hx => by simp [markRoots] at hx; subst hx; exact spec_nil h m
  | f+1, v :: vs, m, m', hx => by
      cases v with
      | list i =>
        simp only [markRoots] at hx
        cases hm : m.lists[i]? with
        | none => simp [hm] at hx
        | some b =>
          cases hl : h.lists[i]? with
          | none => simp [hm, hl] at hx
          | some l =>
            simp only [hm, hl] at hx
            cases h1 : markVals h f l { m with lists := m.lists.set i true } with
            | ok m1 =>
              simp only [h1] at hx
              have s1 := (mark_spec h f).1 l _ m1 h1
              have s2 := markRoots_spec h f vs m1 m' hx
              have hch : children h (.list i) = l := by simp [children, hl]
              exact spec_descend (v := .list i) rfl (isMarked_setMark_self m (.list i) ⟨b, hm⟩)
                (by rw [hch]; exact s1) s2
            | panic p => simp [h1] at hx
            | fuel => simp [h1] at hx
      | record i =>
        simp only [markRoots] at hx
        cases hm : m.records[i]? with
        | none => simp [hm] at hx
        | some b =>
          cases hl : h.records[i]? with
          | none => simp [hm, hl] at hx
          | some r =>
            simp only [hm, hl] at hx
            cases h1 : markVals h f (r.map (·.2)) { m with records := m.records.set i true } with
            | ok m1 =>
              simp only [h1] at hx
              have s1 := (mark_spec h f).1 _ _ m1 h1
              have s2 := markRoots_spec h f vs m1 m' hx
              have hch : children h (.record i) = r.map (·.2) := by simp [children, hl]
              exact spec_descend (v := .record i) rfl (isMarked_setMark_self m (.record i) ⟨b, hm⟩)
                (by rw [hch]; exact s1) s2
            | panic p => simp [h1] at hx
            | fuel => simp [h1] at hx
      | num _ => simp only [markRoots] at hx; exact spec_skip (markRoots_spec h f vs m m' hx) (by simp [isRef])
      | bool _ => simp only [markRoots] at hx; exact spec_skip (markRoots_spec h f vs m m' hx) (by simp [isRef])
      | str _ => simp only [markRoots] at hx; exact spec_skip (markRoots_spec h f vs m m' hx) (by simp [isRef])
      | func _ _ => simp only [markRoots] at hx; exact spec_skip (markRoots_spec h f vs m m' hx) (by simp [isRef])
      | nil => simp only [markRoots] at hx; exact spec_skip (markRoots_spec h f vs m m' hx) (by simp [isRef])

/-- starting from no marks, exactly the containers reachable from the roots get marked -/
theorem mark_exact (h : Heap) (f : Nat) (roots : List Val) (m' : Marks)
    (hx : markRoots h f roots (Marks.init h) = .ok m') (v : Val) :
    isMarked m' v = true ↔ Reach h roots v := by
  have s := markRoots_spec h f roots _ m' hx
  constructor
  · intro hv
    rcases s.sound v hv with h1 | h1
    · rw [isMarked_init] at h1; cases h1
    · exact h1
  · intro r
    induction r with
    | root hm hr => exact s.roots _ hm hr
    | step _ hj hr ih => exact s.closed _ ih (isMarked_init h _) _ hj hr

/-! ### the sweep of one arena -/

structure SweepSpec {α : Type} (empty : α) (i : Nat) (ms : List Bool) (arena arena' : List α) (free free' : List Nat) : Prop where
  len : arena'.length = arena.length
  outside : ∀ j, (j < i ∨ i + ms.length ≤ j) → arena'[j]? = arena[j]?
  kept : ∀ k, ms[k]? = some true → arena'[i + k]? = arena[i + k]?
  emptied : ∀ k, ms[k]? = some false → i + k < arena.length → arena'[i + k]? = some empty
  freed : ∀ k, ms[k]? = some false → i + k ∈ free'
  sup : ∀ j, j ∈ free → j ∈ free'
  sub : ∀ j, j ∈ free' → j ∈ free ∨ ∃ k, ms[k]? = some false ∧ j = i + k
  nodup : free.Nodup → free'.Nodup

theorem sweepArena_spec {α : Type} (empty : α) : ∀ (ms : List Bool) (i : Nat) (arena : List α) (free : List Nat),
    SweepSpec empty i ms arena (sweepArena empty i ms arena free).1 free (sweepArena empty i ms arena free).2
  | [], i, arena, free => by
      simp only [sweepArena]
      exact ⟨rfl, fun _ _ => rfl, fun k hk => by simp at hk, fun k hk => by simp at hk, fun k hk => by simp at hk,
        fun _ h => h, fun _ h => Or.inl h, fun h => h⟩
  | true :: ms, i, arena, free => by
      simp only [sweepArena, if_true]
      have s := sweepArena_spec empty ms (i+1) arena free
      refine ⟨s.len, ?_, ?_, ?_, ?_, s.sup, ?_, s.nodup⟩
      · intro j hj
        rcases hj with hj | hj
        · exact s.outside j (Or.inl (by omega))
        · exact s.outside j (Or.inr (by simp at hj; omega))
      · intro k hk
        cases k with
        | zero => exact s.outside i (Or.inl (by omega))
        | succ k =>
          have := s.kept k (by simpa using hk)
          rw [show i + (k + 1) = i + 1 + k by omega]; exact this
      · intro k hk hlt
        cases k with
        | zero => simp at hk
        | succ k =>
          have := s.emptied k (by simpa using hk) (by omega)
          rw [show i + (k + 1) = i + 1 + k by omega]; exact this
      · intro k hk
        cases k with
        | zero => simp at hk
        | succ k =>
          have := s.freed k (by simpa using hk)
          rw [show i + (k + 1) = i + 1 + k by omega]; exact this
      · intro j hj
        rcases s.sub j hj with h1 | ⟨k, hk, rfl⟩
        · exact Or.inl h1
        · exact Or.inr ⟨k + 1, by simpa using hk, by omega⟩
  | false :: ms, i, arena, free => by
      simp only [sweepArena, Bool.false_eq_true, if_false]
      have s := sweepArena_spec empty ms (i+1) (arena.set i empty) (if free.contains i then free else i :: free)
      have hcm : free.contains i = true ↔ i ∈ free := by simp
      have hin : i ∈ (if free.contains i then free else i :: free) := by
        by_cases hc : free.contains i = true
        · rw [if_pos hc]; exact hcm.mp hc
        · rw [if_neg hc]; exact List.mem_cons_self
      have hsup : ∀ j, j ∈ free → j ∈ (if free.contains i then free else i :: free) := by
        intro j hj
        by_cases hc : free.contains i = true
        · rw [if_pos hc]; exact hj
        · rw [if_neg hc]; exact List.mem_cons_of_mem _ hj
      refine ⟨by rw [s.len]; simp, ?_, ?_, ?_, ?_, ?_, ?_, ?_⟩
      · intro j hj
        have hlen : (false :: ms).length = ms.length + 1 := rfl
        have hne : i ≠ j := by rcases hj with hj | hj <;> omega
        rw [s.outside j (by rcases hj with hj | hj; exact Or.inl (by omega); exact Or.inr (by omega))]
        rw [List.getElem?_set_ne hne]
      · intro k hk
        cases k with
        | zero => simp at hk
        | succ k =>
          have := s.kept k (by simpa using hk)
          rw [show i + (k + 1) = i + 1 + k by omega, this]
          have hne : i ≠ i + 1 + k := by omega
          rw [List.getElem?_set_ne hne]
      · intro k hk hlt
        cases k with
        | zero =>
          have hlt' : i < arena.length := by simpa using hlt
          show _[i + 0]? = some empty
          rw [show i + 0 = i from rfl, s.outside i (Or.inl (by omega))]
          simp [hlt']
        | succ k =>
          have := s.emptied k (by simpa using hk) (by simp; omega)
          rw [show i + (k + 1) = i + 1 + k by omega]; exact this
      · intro k hk
        cases k with
        | zero => rw [Nat.add_zero]; exact s.sup i hin
        | succ k =>
          have := s.freed k (by simpa using hk)
          rw [show i + (k + 1) = i + 1 + k by omega]; exact this
      · intro j hj
        exact s.sup j (hsup j hj)
      · intro j hj
        rcases s.sub j hj with h1 | ⟨k, hk, rfl⟩
        · by_cases hc : free.contains i = true
          · rw [if_pos hc] at h1; exact Or.inl h1
          · rw [if_neg hc] at h1
            rcases List.mem_cons.mp h1 with rfl | h1
            · exact Or.inr ⟨0, by simp, by omega⟩
            · exact Or.inl h1
        · exact Or.inr ⟨k + 1, by simpa using hk, by omega⟩
      · intro hnd
        apply s.nodup
        by_cases hc : free.contains i = true
        · rw [if_pos hc]; exact hnd
        · rw [if_neg hc]; exact List.nodup_cons.mpr ⟨fun hmem => hc (hcm.mpr hmem), hnd⟩

end Pakhi
