/- Soundness of `unflatten` and the refinement restated for recognised programs (helper lemmas for C02–C05, C19). -/
import Pakhi.Spec.Unflatten
import Pakhi.Lemmas.FrameInv
namespace Pakhi

theorem unflatten_aux : ∀ (f : Nat),
    (∀ l ss rest, uList f l = some (ss, rest) → l = ss.flatten ++ rest ∧ ss.WF) ∧
    (∀ l t rest, uStmt f l = some (t, rest) → l = t.flatten ++ rest ∧ t.WF) ∧
    (∀ l b rest, uBlock f l = some (b, rest) → l = b.flatten ++ rest ∧ b.WF) ∧
    (∀ l t rest, uTail f l = some (t, rest) → l = t.flatten ++ rest ∧ t.WF)
  | 0 => by simp [uList, uStmt, uBlock, uTail]
  | f+1 => by
      obtain ⟨i1, i2, i3, i4⟩ := unflatten_aux f
      refine ⟨?_, ?_, ?_, ?_⟩
      · intro l ss rest h
        simp only [uList] at h
        split at h
        · rename_i t r1 ht
          split at h
          · rename_i ts r2 hts
            simp at h; obtain ⟨rfl, rfl⟩ := h
            obtain ⟨a1, a2⟩ := i2 _ _ _ ht
            obtain ⟨b1, b2⟩ := i1 _ _ _ hts
            exact ⟨by rw [a1, b1]; simp [SList.flatten], a2, b2⟩
          · simp at h
        · simp at h; obtain ⟨rfl, rfl⟩ := h; simp [SList.flatten, SList.WF]
      · intro l t rest h
        simp only [uStmt] at h
        split at h
        · simp at h
        · rename_i st r0
          split at h
          all_goals first
            | (simp at h; obtain ⟨rfl, rfl⟩ := h; simp [SStmt.flatten, SStmt.WF, Stmt.isSimple]; done)
            | skip
          · -- blockStart
            split at h
            · rename_i b r1 hb
              simp at h; obtain ⟨rfl, rfl⟩ := h
              obtain ⟨a1, a2⟩ := i3 _ _ _ hb
              exact ⟨by rw [a1]; simp [SStmt.flatten], a2⟩
            · simp at h
          · -- if
            split at h
            · rename_i body r1 hb
              split at h
              · rename_i tail r2 ht
                simp at h; obtain ⟨rfl, rfl⟩ := h
                obtain ⟨a1, a2⟩ := i3 _ _ _ hb
                obtain ⟨b1, b2⟩ := i4 _ _ _ ht
                exact ⟨by rw [a1, b1]; simp [SStmt.flatten], a2, b2⟩
              · simp at h
            · simp at h
          · -- loop
            split at h
            · rename_i body cm r1 hb
              simp at h; obtain ⟨rfl, rfl⟩ := h
              obtain ⟨a1, a2⟩ := i3 _ _ _ hb
              exact ⟨by rw [a1]; simp [SStmt.flatten], a2⟩
            · simp at h
          · -- funcDef
            split at h
            · rename_i hdr hm r1
              split at h
              · rename_i body re rm r2 hb
                simp at h; obtain ⟨rfl, rfl⟩ := h
                obtain ⟨a1, a2⟩ := i3 _ _ _ hb
                exact ⟨by rw [a1]; simp [SStmt.flatten], a2⟩
              · simp at h
            · simp at h
          · simp at h
      · intro l b rest h
        simp only [uBlock] at h
        split at h
        · rename_i bs r0
          split at h
          · rename_i ss be r1 hs
            simp at h; obtain ⟨rfl, rfl⟩ := h
            obtain ⟨a1, a2⟩ := i1 _ _ _ hs
            exact ⟨by rw [a1]; simp [SBlock.flatten], a2⟩
          · simp at h
        · simp at h
      · intro l t rest h
        simp only [uTail] at h
        split at h
        · rename_i em c m r0
          split at h
          · rename_i body r1 hb
            split at h
            · rename_i tail r2 ht
              simp at h; obtain ⟨rfl, rfl⟩ := h
              obtain ⟨a1, a2⟩ := i3 _ _ _ hb
              obtain ⟨b1, b2⟩ := i4 _ _ _ ht
              exact ⟨by rw [a1, b1]; simp [STail.flatten], a2, b2⟩
            · simp at h
          · simp at h
        · rename_i em r0 _
          split at h
          · rename_i body r1 hb
            simp at h; obtain ⟨rfl, rfl⟩ := h
            obtain ⟨a1, a2⟩ := i3 _ _ _ hb
            exact ⟨by rw [a1]; simp [STail.flatten], a2⟩
          · simp at h
        · simp at h; obtain ⟨rfl, rfl⟩ := h; simp [STail.flatten, STail.WF]
end Pakhi

namespace Pakhi
mutual
theorem closedB_stmt : ∀ (il : Bool) (t : SStmt), t.closedB il = true → t.Closed il
  | _, .simple _, _ => trivial
  | il, .block b, h => closedB_block il b (by simpa [SStmt.closedB] using h)
  | il, .ifChain _ _ body tail, h => by
      simp only [SStmt.closedB, Bool.and_eq_true] at h
      exact ⟨closedB_block il body h.1, closedB_tail il tail h.2⟩
  | _, .loop _ body _, h => closedB_block true body (by simpa [SStmt.closedB] using h)
  | il, .brk _, h => by simpa [SStmt.closedB, SStmt.Closed] using h
  | il, .cont _, h => by simpa [SStmt.closedB, SStmt.Closed] using h
  | _, .funcDef _ _ _ body _ _, h => closedB_block false body (by simpa [SStmt.closedB] using h)
theorem closedB_block : ∀ (il : Bool) (b : SBlock), b.closedB il = true → b.Closed il
  | il, .mk _ ss _, h => closedB_list il ss (by simpa [SBlock.closedB] using h)
theorem closedB_list : ∀ (il : Bool) (l : SList), l.closedB il = true → l.Closed il
  | _, .nil, _ => trivial
  | il, .cons s ss, h => by
      simp only [SList.closedB, Bool.and_eq_true] at h
      exact ⟨closedB_stmt il s h.1, closedB_list il ss h.2⟩
theorem closedB_tail : ∀ (il : Bool) (t : STail), t.closedB il = true → t.Closed il
  | _, .none, _ => trivial
  | il, .elseIf _ _ _ body tail, h => by
      simp only [STail.closedB, Bool.and_eq_true] at h
      exact ⟨closedB_block il body h.1, closedB_tail il tail h.2⟩
  | il, .else _ body, h => closedB_block il body (by simpa [STail.closedB] using h)
end

/-- **soundness of `unflatten`**: a recognised program is the flattening of a well-formed closed tree -/
theorem unflatten_sound (prog : List Stmt) (tree : SList) (em : Meta) (h : unflatten prog = some (tree, em)) :
    prog = tree.flatten ++ [Stmt.eos em] ∧ tree.WF ∧ tree.Closed false := by
  simp only [unflatten] at h
  split at h
  · rename_i t em' hu
    split at h
    · rename_i hc
      simp at h; obtain ⟨rfl, rfl⟩ := h
      obtain ⟨a1, a2⟩ := (unflatten_aux _).1 _ _ _ hu
      exact ⟨a1, a2, closedB_list false _ hc⟩
    · simp at h
  · simp at h

/-- the refinement for every recognised program, in one statement: if `unflatten` succeeds, a collection-free run
    that ends is the structured meaning of the recovered tree -/
theorem recognised_program_refines (prog : List Stmt) (tree : SList) (em : Meta) (h : unflatten prog = some (tree, em))
    (hp : progWF prog = true) (w : World) (F : Nat) (r : Res St)
    (hrun : runLoop prog .never F 0 prog (St.init w) = r) (hr : r ≠ .fuel) : sTop prog F tree em (St.init w) = r := by
  obtain ⟨rfl, hw, hc⟩ := unflatten_sound prog tree em h
  exact run_refines tree em hw hc hp (St.init w) (stOK_init _ _ w) F r hrun hr
end Pakhi
