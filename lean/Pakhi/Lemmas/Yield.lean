/- C01: the tree the expression parser returns is a parse *of the tokens it consumed*: its leaves, operators and brackets, read in order,
   are exactly those tokens (`Yields`), for every token list.  Together with `Ladder.lean` (the shape of the tree) this fixes the parse. -/
import Pakhi.Lemmas.Ladder
import Pakhi.Lemmas.ParseFuel
namespace Pakhi

mutual
/-- `Yields e ts`: the tokens `ts`, read left to right, are exactly the leaves, operators and brackets of the tree `e`
    in order — the tree is a parse *of these tokens*.  (The token that closes a group or an argument list is consumed
    without inspection by the parser, hence unconstrained here; commas between list and record elements are optional.) -/
inductive Yields : Expr → List Token → Prop where
  | bool {t b m} : t.kind = .bool b → Yields (.bool b m) [t]
  | num {t n m} : t.kind = .num n → Yields (.num n m) [t]
  | str {t v m} : t.kind = .str v → Yields (.str v m) [t]
  | var {t m} : t.kind = .ident → Yields (.var t m) [t]
  | group {e ts lp cl m} : lp.kind = .lparen → Yields e ts → Yields (.group e m) (lp :: ts ++ [cl])
  | list {es ts lb rb m} : lb.kind = .lsq → rb.kind = .rsq → YieldsL es ts → Yields (.list es m) (lb :: ts ++ [rb])
  | record {ks vs ts a lc rc m} : a.kind = .at → lc.kind = .lcurly → rc.kind = .rcurly → YieldsR ks vs ts →
      Yields (.record ks vs m) (a :: lc :: ts ++ [rc])
  | indexing {e i a b lb rb m} : lb.kind = .lsq → rb.kind = .rsq → Yields e a → Yields i b →
      Yields (.indexing e i m) (a ++ lb :: b ++ [rb])
  | call {f args a b lp cl m} : lp.kind = .lparen → cl.length ≤ 1 → Yields f a → YieldsA args b →
      Yields (.call f args m) (a ++ lp :: b ++ cl)
  | unary {op r a t m} : t.kind = op → Yields r a → Yields (.unary op r m) (t :: a)
  | or {l r a b t m} : t.kind = .or → Yields l a → Yields r b → Yields (.or l r m) (a ++ t :: b)
  | and {l r a b t m} : t.kind = .and → Yields l a → Yields r b → Yields (.and l r m) (a ++ t :: b)
  | equality {op l r a b t m} : t.kind = op → Yields l a → Yields r b → Yields (.equality op l r m) (a ++ t :: b)
  | comparison {op l r a b t m} : t.kind = op → Yields l a → Yields r b → Yields (.comparison op l r m) (a ++ t :: b)
  | addsub {op l r a b t m} : t.kind = op → Yields l a → Yields r b → Yields (.addsub op l r m) (a ++ t :: b)
  | muldiv {op l r a b t m} : t.kind = op → Yields l a → Yields r b → Yields (.muldiv op l r m) (a ++ t :: b)
/-- list elements: juxtaposed, each optionally followed by a comma -/
inductive YieldsL : Exprs → List Token → Prop where
  | nil : YieldsL .nil []
  | cons {e es a b} : Yields e a → YieldsL es b → YieldsL (.cons e es) (a ++ b)
  | consComma {e es a b c} : c.kind = .comma → Yields e a → YieldsL es b → YieldsL (.cons e es) (a ++ c :: b)
/-- call arguments: separated by commas; an empty argument list yields nothing -/
inductive YieldsA : Exprs → List Token → Prop where
  | nil : YieldsA .nil []
  | one {e a} : Yields e a → YieldsA (.cons e .nil) a
  | more {e es a b c} : c.kind = .comma → Yields e a → YieldsA es b → YieldsA (.cons e es) (a ++ c :: b)
/-- record entries `key -> value`, each optionally followed by a comma -/
inductive YieldsR : Exprs → Exprs → List Token → Prop where
  | nil : YieldsR .nil .nil []
  | cons {k v ks vs a b r ar} : ar.kind = .map → Yields k a → Yields v b → YieldsR ks vs r →
      YieldsR (.cons k ks) (.cons v vs) (a ++ ar :: b ++ r)
  | consComma {k v ks vs a b r ar c} : ar.kind = .map → c.kind = .comma → Yields k a → Yields v b → YieldsR ks vs r →
      YieldsR (.cons k ks) (.cons v vs) (a ++ ar :: b ++ c :: r)
end

theorem PS.peek_cons {s : PS} {k : TK} (h : s.peek = k) (hk : k ≠ .eot) :
    ∃ t tl, s.rest = t :: tl ∧ t.kind = k ∧ s.adv.rest = tl := by
  cases hr : s.rest with
  | nil => simp [PS.peek, hr] at h; exact absurd h.symm hk
  | cons t tl => exact ⟨t, tl, rfl, by simpa [PS.peek, hr] using h, by simp [PS.adv, hr]⟩

theorem Yields_mkBin (k : Nat) (hk : k < numLevels) (t : Token) (hop : (levelOps k).contains t.kind = true) (l r : Expr) (m : Meta)
    (a b : List Token) (hl : Yields l a) (hr : Yields r b) : Yields (mkBin k t.kind l r m) (a ++ t :: b) := by
  simp only [numLevels] at hk
  have : k = 0 ∨ k = 1 ∨ k = 2 ∨ k = 3 ∨ k = 4 ∨ k = 5 := by omega
  rcases this with rfl | rfl | rfl | rfl | rfl | rfl
  · exact .or (by simpa [levelOps] using hop) hl hr
  · exact .and (by simpa [levelOps] using hop) hl hr
  · exact .equality rfl hl hr
  · exact .comparison rfl hl hr
  · exact .addsub rfl hl hr
  · exact .muldiv rfl hl hr
end Pakhi
namespace Pakhi

theorem metaOf_ok_rest {s : PS} {t : Token} {m : Meta} (h : s.metaOf t = .ok m) : ∃ x xs, s.rest = x :: xs := by
  unfold PS.metaOf at h
  split at h
  · rename_i x xs hx; exact ⟨x, xs, hx⟩
  · simp [unexpected] at h

/-- if after `adv` there is still a token, `adv` consumed exactly one -/
theorem adv_consumed {s : PS} {x : Token} {xs : List Token} (h : s.adv.rest = x :: xs) : ∃ c, s.rest = c :: x :: xs := by
  cases hr : s.rest with
  | nil => simp [PS.adv, hr] at h
  | cons c tl => simp [PS.adv, hr] at h; exact ⟨c, by rw [h]⟩

theorem adv_rest_le (s : PS) : ∃ cl, cl.length ≤ 1 ∧ s.rest = cl ++ s.adv.rest := by
  cases hr : s.rest with
  | nil => exact ⟨[], by simp, by simp [PS.adv, hr]⟩
  | cons c tl => exact ⟨[c], by simp, by simp [PS.adv, hr]⟩

set_option maxHeartbeats 4000000 in
theorem expr_yields : ∀ (f : Nat),
    (∀ k s e s', pLevel f k s = .ok (e, s') → ∃ ts, s.rest = ts ++ s'.rest ∧ Yields e ts) ∧
    (∀ k e0 s e s', k < numLevels → pLevelLoop f k e0 s = .ok (e, s') → ∀ ts0, Yields e0 ts0 → ∃ ts, s.rest = ts ++ s'.rest ∧ Yields e (ts0 ++ ts)) ∧
    (∀ s e s', pUnary f s = .ok (e, s') → ∃ ts, s.rest = ts ++ s'.rest ∧ Yields e ts) ∧
    (∀ s e s', pCall f s = .ok (e, s') → ∃ ts, s.rest = ts ++ s'.rest ∧ Yields e ts) ∧
    (∀ e0 s e s', pCallLoop f e0 s = .ok (e, s') → ∀ ts0, Yields e0 ts0 → ∃ ts, s.rest = ts ++ s'.rest ∧ Yields e (ts0 ++ ts)) ∧
    (∀ e0 s e s', pFinishCall f e0 s = .ok (e, s') → ∀ ts0 lp, Yields e0 ts0 → lp.kind = .lparen → ∃ ts, s.rest = ts ++ s'.rest ∧ Yields e (ts0 ++ lp :: ts)) ∧
    (∀ s es s', pArgs f s = .ok (es, s') → ∃ ts, s.rest = ts ++ s'.rest ∧ YieldsA es ts) ∧
    (∀ s e s', pPrimary f s = .ok (e, s') → ∃ ts, s.rest = ts ++ s'.rest ∧ Yields e ts) ∧
    (∀ e0 s e s', pIndexLoop f e0 s = .ok (e, s') → ∀ ts0, Yields e0 ts0 → ∃ ts, s.rest = ts ++ s'.rest ∧ Yields e (ts0 ++ ts)) ∧
    (∀ s es s', pListElems f s = .ok (es, s') → ∃ ts, s.rest = ts ++ s'.rest ∧ YieldsL es ts ∧ s'.peek = .rsq) ∧
    (∀ s ks vs s', pRecordElems f s = .ok (ks, vs, s') → ∃ ts, s.rest = ts ++ s'.rest ∧ YieldsR ks vs ts ∧ s'.peek = .rcurly)
  | 0 => by simp [pLevel, pLevelLoop, pUnary, pCall, pCallLoop, pFinishCall, pArgs, pPrimary, pIndexLoop, pListElems, pRecordElems]
  | f+1 => by
      obtain ⟨i1, i2, i3, i4, i5, i6, i7, i8, i9, i10, i11⟩ := expr_yields f
      refine ⟨?_, ?_, ?_, ?_, ?_, ?_, ?_, ?_, ?_, ?_, ?_⟩
      · intro k s e s' h; simp only [pLevel] at h
        split at h
        · exact i3 _ _ _ h
        · rename_i hk
          split at h <;> try (simp at h)
          rename_i e1 s1 h1
          obtain ⟨ts1, hs1, y1⟩ := i1 _ _ _ _ h1
          obtain ⟨ts2, hs2, y2⟩ := i2 _ _ _ _ _ (by omega) h ts1 y1
          exact ⟨ts1 ++ ts2, by rw [hs1, hs2, List.append_assoc], y2⟩
      · intro k e0 s e s' hk h ts0 y0; simp only [pLevelLoop] at h
        split at h
        · rename_i hop
          split at h <;> try (simp at h)
          rename_i r s1 h1
          split at h <;> try (simp at h)
          rename_i m hm
          have hne : s.peek ≠ .eot := by
            intro he; rw [he, levelOps_no_eot] at hop; simp at hop
          obtain ⟨t, tl, hst, htk, hadv⟩ := PS.peek_cons (s := s) rfl hne
          obtain ⟨ts1, hs1, y1⟩ := i1 _ _ _ _ h1
          rw [hadv] at hs1
          have yb : Yields (mkBin k s.peek e0 r m) (ts0 ++ t :: ts1) := by
            rw [← htk]; exact Yields_mkBin k hk t (by rw [htk]; exact hop) e0 r m ts0 ts1 y0 y1
          obtain ⟨ts2, hs2, y2⟩ := i2 _ _ _ _ _ hk h _ yb
          refine ⟨t :: ts1 ++ ts2, ?_, ?_⟩
          · rw [hst, hs1, hs2]; simp
          · simpa [List.append_assoc] using y2
        · simp at h; obtain ⟨rfl, rfl⟩ := h; exact ⟨[], by simp, by simpa using y0⟩
      · -- pUnary
        intro s e s' h; simp only [pUnary] at h
        split at h
        · rename_i hop
          split at h <;> try (simp at h)
          split at h <;> try (simp at h)
          rename_i m hm r s1 h1
          obtain ⟨rfl, rfl⟩ := h
          have hne : s.peek ≠ .eot := by
            intro he; rw [he] at hop; simp at hop
          obtain ⟨t, tl, hst, htk, hadv⟩ := PS.peek_cons (s := s) rfl hne
          obtain ⟨ts1, hs1, y1⟩ := i3 _ _ _ h1
          rw [hadv] at hs1
          exact ⟨t :: ts1, by rw [hst, hs1]; rfl, .unary htk y1⟩
        · exact i4 _ _ _ h
      · -- pCall
        intro s e s' h; simp only [pCall] at h
        split at h <;> try (simp at h)
        rename_i e1 s1 h1
        obtain ⟨ts1, hs1, y1⟩ := i8 _ _ _ h1
        obtain ⟨ts2, hs2, y2⟩ := i5 _ _ _ _ h ts1 y1
        exact ⟨ts1 ++ ts2, by rw [hs1, hs2, List.append_assoc], y2⟩
      · -- pCallLoop
        intro e0 s e s' h ts0 y0; simp only [pCallLoop] at h
        split at h
        · rename_i hp
          split at h <;> try (simp at h)
          rename_i e1 s1 h1
          obtain ⟨t, tl, hst, htk, hadv⟩ := PS.peek_cons (s := s) (k := .lparen) (by simpa using hp) (by simp)
          obtain ⟨ts1, hs1, y1⟩ := i6 _ _ _ _ h1 ts0 t y0 htk
          rw [hadv] at hs1
          obtain ⟨ts2, hs2, y2⟩ := i5 _ _ _ _ h _ y1
          refine ⟨t :: ts1 ++ ts2, ?_, ?_⟩
          · rw [hst, hs1, hs2]; simp
          · simpa [List.append_assoc] using y2
        · simp at h; obtain ⟨rfl, rfl⟩ := h; exact ⟨[], by simp, by simpa using y0⟩
      · -- pFinishCall
        intro e0 s e s' h ts0 lp y0 hlp; simp only [pFinishCall] at h
        split at h <;> try (simp at h)
        rename_i m hm
        split at h
        · simp at h; obtain ⟨rfl, rfl⟩ := h
          obtain ⟨cl, hcl, hs1⟩ := adv_rest_le s
          exact ⟨cl, hs1, by simpa using Yields.call (m := m) hlp hcl y0 YieldsA.nil⟩
        · split at h <;> try (simp at h)
          rename_i args s1 h1
          obtain ⟨rfl, rfl⟩ := h
          obtain ⟨tsA, hsA, yA⟩ := i7 _ _ _ h1
          obtain ⟨cl, hcl, hs1⟩ := adv_rest_le s1
          exact ⟨tsA ++ cl, by rw [hsA, hs1, List.append_assoc], by simpa [List.append_assoc] using Yields.call (m := m) hlp hcl y0 yA⟩
      · -- pArgs
        intro s es s' h; simp only [pArgs] at h
        split at h <;> try (simp at h)
        rename_i e1 s1 h1
        obtain ⟨ts1, hs1, y1⟩ := i1 _ _ _ _ h1
        split at h
        · rename_i hc
          split at h <;> try (simp at h)
          rename_i es1 s2 h2
          obtain ⟨rfl, rfl⟩ := h
          obtain ⟨c, tl, hst, hck, hadv⟩ := PS.peek_cons (s := s1) (k := .comma) (by simpa using hc) (by simp)
          obtain ⟨ts2, hs2, y2⟩ := i7 _ _ _ h2
          rw [hadv] at hs2
          exact ⟨ts1 ++ c :: ts2, by rw [hs1, hst, hs2]; simp, .more hck y1 y2⟩
        · simp at h; obtain ⟨rfl, rfl⟩ := h
          exact ⟨ts1, hs1, .one y1⟩
      · -- pPrimary
        intro s e s' h; simp only [pPrimary] at h
        split at h
        · exact absurd h (syntaxErr_ne_ok _ _ _)
        · rename_i t tl hst
          have hadv : s.adv.rest = tl := by simp [PS.adv, hst]
          split at h
          · -- bool
            rename_i b hk
            split at h <;> try (simp at h)
            obtain ⟨rfl, rfl⟩ := h
            exact ⟨[t], by rw [hst, hadv]; rfl, .bool hk⟩
          · rename_i n hk
            split at h <;> try (simp at h)
            obtain ⟨rfl, rfl⟩ := h
            exact ⟨[t], by rw [hst, hadv]; rfl, .num hk⟩
          · rename_i v hk
            split at h <;> try (simp at h)
            obtain ⟨rfl, rfl⟩ := h
            exact ⟨[t], by rw [hst, hadv]; rfl, .str hk⟩
          · rename_i hk
            obtain ⟨ts1, hs1, y1⟩ := i9 _ _ _ _ h [t] (.var hk)
            rw [hadv] at hs1
            exact ⟨[t] ++ ts1, by rw [hst, hs1]; rfl, y1⟩
          · -- group
            rename_i hk
            split at h <;> try (simp at h)
            rename_i e1 s1 h1
            split at h <;> try (simp at h)
            rename_i m hm
            obtain ⟨rfl, rfl⟩ := h
            obtain ⟨ts1, hs1, y1⟩ := i1 _ _ _ _ h1
            rw [hadv] at hs1
            obtain ⟨x, xs, hx⟩ := metaOf_ok_rest hm
            obtain ⟨c, hc⟩ := adv_consumed hx
            refine ⟨t :: ts1 ++ [c], ?_, .group hk y1⟩
            rw [hst, hs1, hc, hx]; simp
          · -- list
            rename_i hk
            split at h <;> try (simp at h)
            rename_i es s1 h1
            split at h <;> try (simp at h)
            rename_i m hm
            obtain ⟨rfl, rfl⟩ := h
            obtain ⟨ts1, hs1, y1, hp⟩ := i10 _ _ _ h1
            rw [hadv] at hs1
            obtain ⟨c, tl2, hc, hck, hcadv⟩ := PS.peek_cons hp (by simp)
            refine ⟨t :: ts1 ++ [c], ?_, .list hk hck y1⟩
            rw [hst, hs1, hc, hcadv]; simp
          · -- record
            rename_i hk
            split at h
            · exact absurd h (syntaxErr_ne_ok _ _ _)
            · rename_i hlc
              split at h <;> try (simp at h)
              rename_i ks vs s2 h2
              split at h <;> try (simp at h)
              rename_i m hm
              obtain ⟨rfl, rfl⟩ := h
              obtain ⟨lc, tl1, hlc1, hlck, hlcadv⟩ := PS.peek_cons (s := s.adv) (k := .lcurly) (by simpa using hlc) (by simp)
              obtain ⟨ts1, hs1, y1, hp⟩ := i11 _ _ _ _ h2
              rw [hlcadv] at hs1
              obtain ⟨c, tl2, hc, hck, hcadv⟩ := PS.peek_cons hp (by simp)
              refine ⟨t :: lc :: ts1 ++ [c], ?_, .record hk hlck hck y1⟩
              rw [hst, ← hadv, hlc1, hs1, hc, hcadv]; simp
          · exact absurd h (syntaxErr_ne_ok _ _ _)
      · -- pIndexLoop
        intro e0 s e s' h ts0 y0; simp only [pIndexLoop] at h
        split at h
        · simp at h; obtain ⟨rfl, rfl⟩ := h; exact ⟨[], by simp, by simpa using y0⟩
        · rename_i t tl hst
          have hadv : s.adv.rest = tl := by simp [PS.adv, hst]
          split at h
          · rename_i hk
            split at h <;> try (simp at h)
            rename_i i s1 h1
            split at h
            all_goals first
              | exact absurd h (syntaxErr_ne_ok _ _ _)
              | (rename_i hrs
                 split at h <;> try (simp at h)
                 rename_i m hm
                 obtain ⟨ts1, hs1, y1⟩ := i1 _ _ _ _ h1
                 rw [hadv] at hs1
                 obtain ⟨c, tl2, hc, hck, hcadv⟩ := PS.peek_cons (s := s1) (k := .rsq) (by simpa using hrs) (by simp)
                 have yi : Yields (.indexing e0 i m) (ts0 ++ t :: ts1 ++ [c]) := .indexing (by simpa using hk) hck y0 y1
                 obtain ⟨ts2, hs2, y2⟩ := i9 _ _ _ _ h _ yi
                 rw [hcadv] at hs2
                 refine ⟨t :: ts1 ++ [c] ++ ts2, ?_, ?_⟩
                 · rw [hst, hs1, hc, hs2]; simp
                 · simpa [List.append_assoc] using y2)
          · simp at h; obtain ⟨rfl, rfl⟩ := h; exact ⟨[], by simp, by simpa using y0⟩
      · -- pListElems
        intro s es s' h; simp only [pListElems] at h
        split at h
        · rename_i hp
          simp at h; obtain ⟨rfl, rfl⟩ := h
          exact ⟨[], by simp, .nil, by simpa using hp⟩
        · split at h <;> try (simp at h)
          rename_i e1 s1 h1
          split at h <;> try (simp at h)
          rename_i es1 s3 h3
          obtain ⟨rfl, rfl⟩ := h
          obtain ⟨ts1, hs1, y1⟩ := i1 _ _ _ _ h1
          obtain ⟨ts3, hs3, y3, hp3⟩ := i10 _ _ _ h3
          by_cases hc : s1.peek = .comma
          · rw [if_pos hc] at hs3
            obtain ⟨c, tl, hst, hck, hadv⟩ := PS.peek_cons (s := s1) (k := .comma) (by simpa using hc) (by simp)
            rw [hadv] at hs3
            exact ⟨ts1 ++ c :: ts3, by rw [hs1, hst, hs3]; simp, .consComma hck y1 y3, hp3⟩
          · rw [if_neg hc] at hs3
            exact ⟨ts1 ++ ts3, by rw [hs1, hs3]; simp, .cons y1 y3, hp3⟩
      · -- pRecordElems
        intro s ks vs s' h; simp only [pRecordElems] at h
        split at h
        · rename_i hp
          simp at h; obtain ⟨rfl, rfl, rfl⟩ := h
          exact ⟨[], by simp, .nil, by simpa using hp⟩
        · split at h <;> try (simp at h)
          rename_i k1 s1 h1
          split at h
          all_goals first
            | exact absurd h (syntaxErr_ne_ok _ _ _)
            | (rename_i hmap
               split at h <;> try (simp at h)
               rename_i v1 s2 h2
               split at h <;> try (simp at h)
               rename_i ks1 vs1 s4 h4
               obtain ⟨rfl, rfl, rfl⟩ := h
               obtain ⟨ts1, hs1, y1⟩ := i1 _ _ _ _ h1
               obtain ⟨ar, tl, hst, hak, hadv⟩ := PS.peek_cons (s := s1) (k := .map) (by simpa using hmap) (by simp)
               obtain ⟨ts2, hs2, y2⟩ := i1 _ _ _ _ h2
               rw [hadv] at hs2
               obtain ⟨ts4, hs4, y4, hp4⟩ := i11 _ _ _ _ h4
               by_cases hc : s2.peek = .comma
               · rw [if_pos hc] at hs4
                 obtain ⟨c, tl2, hst2, hck, hadv2⟩ := PS.peek_cons (s := s2) (k := .comma) (by simpa using hc) (by simp)
                 rw [hadv2] at hs4
                 exact ⟨ts1 ++ ar :: ts2 ++ c :: ts4, by rw [hs1, hst, hs2, hst2, hs4]; simp, .consComma hak hck y1 y2 y4, hp4⟩
               · rw [if_neg hc] at hs4
                 exact ⟨ts1 ++ ar :: ts2 ++ ts4, by rw [hs1, hst, hs2, hs4]; simp, .cons hak y1 y2 y4, hp4⟩)
end Pakhi

namespace Pakhi
theorem pExpr_yields {s : PS} {e : Expr} {s' : PS} (h : pExpr s = .ok (e, s')) : ∃ ts, s.rest = ts ++ s'.rest ∧ Yields e ts :=
  (expr_yields _).1 0 s e s' h
end Pakhi
