/-
  Pakhi model — AST (`parser::Expr`, `parser::Stmt`).  Argument lists are a mutual inductive
  (`Exprs`) rather than `List Expr` so that functions and proofs over the syntax are structural.
-/
import Pakhi.Model.Lexer

namespace Pakhi

open Num (Bits)

mutual
inductive Expr where
  | indexing (e i : Expr) (m : Meta)
  | or (l r : Expr) (m : Meta)
  | and (l r : Expr) (m : Meta)
  | equality (op : TK) (l r : Expr) (m : Meta)
  | comparison (op : TK) (l r : Expr) (m : Meta)
  | addsub (op : TK) (l r : Expr) (m : Meta)
  | muldiv (op : TK) (l r : Expr) (m : Meta)
  | unary (op : TK) (r : Expr) (m : Meta)
  | call (f : Expr) (args : Exprs) (m : Meta)
  -- `Expr::Primary(..)`
  | nil (m : Meta)
  | bool (b : Bool) (m : Meta)
  | num (b : Bits) (m : Meta)
  | str (s : Str) (m : Meta)
  | list (es : Exprs) (m : Meta)
  | record (ks vs : Exprs) (m : Meta)
  | var (tok : Token) (m : Meta)
  | group (e : Expr) (m : Meta)
inductive Exprs where
  | nil
  | cons (e : Expr) (es : Exprs)
end

instance : Inhabited Expr := ⟨.nil default⟩
instance : Inhabited Exprs := ⟨.nil⟩

def Exprs.toList : Exprs → List Expr
  | .nil => []
  | .cons e es => e :: es.toList

def Exprs.ofList : List Expr → Exprs
  | [] => .nil
  | e :: es => .cons e (Exprs.ofList es)

def Exprs.length : Exprs → Nat
  | .nil => 0
  | .cons _ es => es.length + 1

/-- `extract_expr_err_meta` -/
def Expr.meta : Expr → Meta
  | .indexing _ _ m | .or _ _ m | .and _ _ m | .equality _ _ _ m | .comparison _ _ _ m
  | .addsub _ _ _ m | .muldiv _ _ _ m | .unary _ _ m | .call _ _ m
  | .nil m | .bool _ m | .num _ m | .str _ m | .list _ m | .record _ _ m | .var _ m | .group _ m => m

inductive AssignKind | first | re
deriving DecidableEq, Repr, Inhabited

/-- `parser::Assignment`.  `init` is `none` only for `নাম x;`. -/
structure Assignment where
  kind : AssignKind
  var : Token
  indexes : List Expr
  init : Option Expr

inductive Stmt where
  | print (e : Expr) (m : Meta)
  | printNoEOL (e : Expr) (m : Meta)
  | assign (a : Assignment) (m : Meta)
  | expr (e : Expr) (m : Meta)
  | blockStart (m : Meta)
  | blockEnd (m : Meta)
  | funcDef (m : Meta)
  | ret (e : Expr) (m : Meta)
  | «if» (c : Expr) (m : Meta)
  | loop (m : Meta)
  | cont (m : Meta)
  | brk (m : Meta)
  | «else» (m : Meta)
  | eos (m : Meta)

instance : Inhabited Stmt := ⟨.eos default⟩

/-- `extract_err_meta_stmt` (the line/file stored in the statement) -/
def Stmt.meta : Stmt → Meta
  | .print _ m | .printNoEOL _ m | .assign _ m | .expr _ m | .blockStart m | .blockEnd m
  | .funcDef m | .ret _ m | .if _ m | .loop m | .cont m | .brk m | .else m | .eos m => m

end Pakhi
