/-
  Pakhi model — basic types shared by every layer.
  Import-free (core Lean only) so that the driver links as a `lean_exe`.

  Conventions (DESIGN.md §2.2):
  * text is `List Char` everywhere (the Rust code indexes `Vec<char>`);
  * numbers are IEEE binary64 *bit patterns* (`UInt64`); arithmetic goes through `Float.ofBits`,
    so every model type has decidable equality and the float operations stay opaque to proofs;
  * `Res` has an explicit `panic` outcome: every Rust panic site that exists in the code is a
    `.panic` branch of the model, never a totalised default.
-/
namespace Pakhi

abbrev Str := List Char

inductive ErrClass
  | syntax | type | runtime | unexpected
deriving DecidableEq, Repr, Inhabited

/-- output events, newest first in the interpreter state; the record markers let a comparator
    match record entries up to permutation (`HashMap` order is unspecified) and are invisible in
    the rendered text -/
inductive Out where
  | text (s : Str)
  | recStart | entStart | entEnd | recEnd
deriving DecidableEq, Repr

/-- `PakhiErr`.  `msg` is carried only where a property speaks about it (`_এরর(m)`), otherwise it
    is a short model-side tag that is never compared with the implementation. -/
structure PErr where
  cls  : ErrClass
  line : Nat
  file : Str
  msg  : Str
  /-- everything the program had printed when the error arose (filled in by the interpreter) -/
  out  : List Out := []
deriving DecidableEq, Repr, Inhabited

inductive Res (α : Type) where
  | ok (a : α)
  | err (e : PErr)
  | panic (site : String)
  | fuel
deriving Repr

namespace Res

@[inline] def bind {α β : Type} (r : Res α) (f : α → Res β) : Res β :=
  match r with
  | .ok a => f a
  | .err e => .err e
  | .panic s => .panic s
  | .fuel => .fuel

instance : Monad Res where
  pure := .ok
  bind := Res.bind

@[simp] theorem bind_ok {α β} (a : α) (f : α → Res β) : (Res.ok a >>= f) = f a := rfl
@[simp] theorem bind_err {α β} (e : PErr) (f : α → Res β) : ((Res.err e : Res α) >>= f) = .err e := rfl
@[simp] theorem bind_panic {α β} (s : String) (f : α → Res β) : ((Res.panic s : Res α) >>= f) = .panic s := rfl
@[simp] theorem bind_fuel {α β} (f : α → Res β) : ((Res.fuel : Res α) >>= f) = .fuel := rfl
@[simp] theorem pure_eq {α} (a : α) : (pure a : Res α) = .ok a := rfl
@[simp] theorem bind_ok' {α β} (a : α) (f : α → Res β) : (Res.ok a).bind f = f a := rfl
@[simp] theorem bind_err' {α β} (e : PErr) (f : α → Res β) : (Res.err e : Res α).bind f = .err e := rfl
@[simp] theorem bind_panic' {α β} (s : String) (f : α → Res β) : (Res.panic s : Res α).bind f = .panic s := rfl
@[simp] theorem bind_fuel' {α β} (f : α → Res β) : (Res.fuel : Res α).bind f = .fuel := rfl

/-- attach the output printed so far to an error -/
def tagOut {α} (r : Res α) (o : List Out) : Res α :=
  match r with
  | .err e => .err { e with out := o }
  | r => r

theorem bind_eq_ok {α β} {r : Res α} {f : α → Res β} {b : β} (h : r.bind f = .ok b) : ∃ a, r = .ok a ∧ f a = .ok b := by
  cases r <;> simp_all [Res.bind]

theorem tagOut_eq_ok {α} {r : Res α} {o : List Out} {a : α} (h : r.tagOut o = .ok a) : r = .ok a := by
  cases r <;> simp_all [Res.tagOut]

@[simp] theorem tagOut_ok {α} (a : α) (o : List Out) : (Res.ok a).tagOut o = .ok a := rfl
@[simp] theorem tagOut_panic {α} (p : String) (o : List Out) : (Res.panic p : Res α).tagOut o = .panic p := rfl
@[simp] theorem tagOut_fuel {α} (o : List Out) : (Res.fuel : Res α).tagOut o = .fuel := rfl
@[simp] theorem tagOut_err {α} (e : PErr) (o : List Out) : (Res.err e : Res α).tagOut o = .err { e with out := o } := rfl

def isPanic {α} : Res α → Bool
  | .panic _ => true
  | _ => false

def isFuel {α} : Res α → Bool
  | .fuel => true
  | _ => false

end Res

def mkErr {α : Type} (cls : ErrClass) (line : Nat) (file : Str) (tag : String) : Res α :=
  .err { cls := cls, line := line, file := file, msg := tag.toList }

/-- `UnexpectedError` carries neither line nor file. -/
def unexpected {α : Type} (tag : String) : Res α :=
  .err { cls := .unexpected, line := 0, file := [], msg := tag.toList }

/-- `(line, file)` pairs that the parser attaches to statements and expressions. -/
structure Meta where
  line : Nat
  file : Str
deriving DecidableEq, Repr, Inhabited

/-! ### Digit tables (three copies in the Rust source: lexer, built-ins ×2, interpreter) -/

def bnDigits : List Char := ['০', '১', '২', '৩', '৪', '৫', '৬', '৭', '৮', '৯']
def enDigits : List Char := ['0', '1', '2', '3', '4', '5', '6', '7', '8', '9']

/-- `lexer::bn_digit_to_en_digit` as a digit value. -/
def bnDigitVal? (c : Char) : Option Nat :=
  match c with
  | '০' => some 0 | '১' => some 1 | '২' => some 2 | '৩' => some 3 | '৪' => some 4
  | '৫' => some 5 | '৬' => some 6 | '৭' => some 7 | '৮' => some 8 | '৯' => some 9
  | _ => none

/-- `built_ins::bn_digit_to_en_digit` (identity on every other character). -/
def bnToEn (c : Char) : Char :=
  match c with
  | '০' => '0' | '১' => '1' | '২' => '2' | '৩' => '3' | '৪' => '4'
  | '৫' => '5' | '৬' => '6' | '৭' => '7' | '৮' => '8' | '৯' => '9'
  | c => c

/-- `built_ins::en_digit_to_bn_digit` (identity on every other character). -/
def enToBn (c : Char) : Char :=
  match c with
  | '0' => '০' | '1' => '১' | '2' => '২' | '3' => '৩' | '4' => '৪'
  | '5' => '৫' | '6' => '৬' | '7' => '৭' | '8' => '৮' | '9' => '৯'
  | c => c

/-- `Interpreter::to_bn_num` character map: digits, `-` and `.` pass, anything else is an error. -/
def toBnNumChar? (c : Char) : Option Char :=
  match c with
  | '-' => some '-' | '.' => some '.'
  | '0' => some '০' | '1' => some '১' | '2' => some '২' | '3' => some '৩' | '4' => some '৪'
  | '5' => some '৫' | '6' => some '৬' | '7' => some '৭' | '8' => some '৮' | '9' => some '৯'
  | _ => none

/-! ### Character classes used by the tokenizer

  The model covers the alphabet `Alpha` = ASCII ∪ U+0980–U+09FF ∪ {U+200C, U+200D}; on it these
  predicates are validated exhaustively against Rust's `char` methods by the C10 check. -/

def isAsciiWhitespace (c : Char) : Bool :=
  c == ' ' || c == '\t' || c == '\n' || c == '\x0c' || c == '\r'

def isAsciiPunct (c : Char) : Bool :=
  let n := c.toNat
  (33 ≤ n && n ≤ 47) || (58 ≤ n && n ≤ 64) || (91 ≤ n && n ≤ 96) || (123 ≤ n && n ≤ 126)

def isAsciiControl (c : Char) : Bool :=
  let n := c.toNat
  n ≤ 31 || n == 127

/-- `char::is_numeric` (general categories Nd, Nl, No) restricted to `Alpha`:
    ASCII digits, Bangla digits U+09E6–U+09EF and the Bangla numerator signs U+09F4–U+09F9. -/
def isNumeric (c : Char) : Bool :=
  let n := c.toNat
  (48 ≤ n && n ≤ 57) || (0x9E6 ≤ n && n ≤ 0x9EF) || (0x9F4 ≤ n && n ≤ 0x9F9)

/-- `lexer::is_valid_identifier_char`. -/
def isIdentChar (c : Char) : Bool :=
  if c == '-' || c == '_' || c == '/' then true
  else !isAsciiWhitespace c && !isAsciiPunct c && !isAsciiControl c

def inAlpha (c : Char) : Bool :=
  let n := c.toNat
  n ≤ 127 || (0x980 ≤ n && n ≤ 0x9FF) || n == 0x200C || n == 0x200D

/-! ### Paths (clean paths only: no `.`/`..` components, no doubled or trailing `/`) -/

def pathJoin (a b : Str) : Str :=
  match b with
  | '/' :: _ => b
  | _ =>
    if a.isEmpty then b
    else if a.getLast? == some '/' then a ++ b
    else a ++ ('/' :: b)

/-- text before the last `/` and text after it; `none` when there is no `/` -/
def splitLastSlash (p : Str) : Option (Str × Str) :=
  let r := p.reverse
  let last := (r.takeWhile (· != '/')).reverse
  match r.dropWhile (· != '/') with
  | [] => none
  | _ :: pre => some (pre.reverse, last)

/-- `Path::parent` -/
def pathParent (p : Str) : Option Str :=
  if p.isEmpty || p == ['/'] then none
  else match splitLastSlash p with
    | none => some []
    | some (pre, _) => if pre.isEmpty then some ['/'] else some pre

/-- `Path::file_name` -/
def pathFileName (p : Str) : Option Str :=
  let last := match splitLastSlash p with
    | none => p
    | some (_, l) => l
  if last.isEmpty || last == ['.', '.'] || last == ['.'] then none else some last

def endsWith (s suffix : Str) : Bool := suffix.isSuffixOf s

end Pakhi
