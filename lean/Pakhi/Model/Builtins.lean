/-
  Pakhi model — the pure cores of the built-in functions (`src/backend/built_ins.rs`) and the
  abstract world (file tree, stdin) they act on.
-/
import Pakhi.Model.Heap

namespace Pakhi

open Num (Bits)

/-! ### `list_position` (fixes F14/F16) -/

/-- `list_position(index, len)`: valid iff `index >= 0.0 && (index as usize) < len` -/
def listPosition (n : Bits) (len : Nat) : Option Nat :=
  if Num.geZero n && Num.toUsize n < len then some (Num.toUsize n) else none

/-! ### Sequence operations behind `_লিস্ট-পুশ` / `_লিস্ট-পপ` -/

/-- `Vec::insert(i, x)` for `i ≤ len` -/
def insertAt (l : List Val) (i : Nat) (x : Val) : List Val := l.take i ++ x :: l.drop i

/-- `Vec::remove(i)` for `i < len` -/
def removeAt (l : List Val) (i : Nat) : List Val := l.take i ++ l.drop (i + 1)

/-! ### Strings -/

/-- does `pat` start `s`?  returns the rest -/
def stripPrefix? : Str → Str → Option Str
  | [], s => some s
  | _ :: _, [] => none
  | p :: ps, c :: cs => if p == c then stripPrefix? ps cs else none

/-- `str::split(pat)` for a non-empty pattern: left-most, non-overlapping matches.
    `cur` is the current field, reversed. -/
def splitGo (sep : Str) : Nat → Str → Str → List Str
  | 0, _, cur => [cur.reverse]
  | _+1, [], cur => [cur.reverse]
  | f+1, c :: cs, cur =>
    match stripPrefix? sep (c :: cs) with
    | some rest => cur.reverse :: splitGo sep f rest []
    | none => splitGo sep f cs (c :: cur)

/-- `_স্ট্রিং-স্প্লিট` on two strings (after fix F17): the empty separator yields the characters -/
def splitStr (s sep : Str) : List Str :=
  if sep.isEmpty then s.map (fun c => [c])
  else splitGo sep (s.length + 1) s []

/-- `[String]::join(sep)` -/
def joinStr (sep : Str) : List Str → Str
  | [] => []
  | [a] => a
  | a :: b :: r => a ++ sep ++ joinStr sep (b :: r)

def typeName (v : Val) : Str :=
  match v with
  | .num _ => W.tyNum
  | .bool _ => W.tyBool
  | .str _ => W.tyString
  | .list _ => W.tyList
  | .record _ => W.tyRecord
  | .func _ _ => W.tyFunc
  | .nil => W.tyNil

/-- `_স্ট্রিং(n)` text: `n.to_string()` with ASCII digits replaced -/
def numToBnString (n : Bits) : Str := (Num.display n).map enToBn

/-- `_সংখ্যা(s)` (after fix F21) -/
def bnStringToNum? (s : Str) : Option Bits :=
  match Num.parseF64 (s.map bnToEn) with
  | some b => if Num.isFinite b then some b else none
  | none => none

/-- `to_bn_num`: `none` when the printed form contains a character that is no digit, `-` or `.` -/
def toBnNum? (n : Bits) : Option Str := (Num.display n).mapM toBnNumChar?

/-! ### The world: an abstract file tree and stdin -/

structure FsEntry where
  path : Str
  isDir : Bool
  /-- `none`: the bytes are not valid UTF-8 -/
  content : Option Str
  /-- `false`: the entry's own name is not valid UTF-8 -/
  nameOk : Bool
deriving DecidableEq, Repr, Inhabited

structure World where
  fs : List FsEntry
  stdin : Str
  platform : Str
deriving Repr, Inhabited

namespace World

def find? (w : World) (p : Str) : Option FsEntry := w.fs.find? (·.path == p)

def isDir (w : World) (p : Str) : Bool := p == ['/'] || (match w.find? p with | some e => e.isDir | none => false)

def parentOf (p : Str) : Str :=
  match splitLastSlash p with
  | some (pre, _) => if pre.isEmpty then ['/'] else pre
  | none => []

/-- entries directly inside directory `p` -/
def children (w : World) (p : Str) : List FsEntry :=
  w.fs.filter (fun e => parentOf e.path == p && e.path != p)

def isUnder (p q : Str) : Bool := (p ++ ['/']).isPrefixOf q

/-- `std::fs::read_to_string` -/
def readFile (w : World) (p : Str) : Option Str :=
  match w.find? p with
  | some e => if e.isDir then none else e.content
  | none => none

/-- `std::fs::write`: the parent must be a directory, the path must not be one -/
def writeFile (w : World) (p : Str) (s : Str) : Option World :=
  if !w.isDir (parentOf p) || w.isDir p then none
  else
    let e : FsEntry := { path := p, isDir := false, content := some s, nameOk := true }
    if w.fs.any (·.path == p) then some { w with fs := w.fs.map (fun x => if x.path == p then e else x) }
    else some { w with fs := w.fs ++ [e] }

/-- `std::fs::remove_file` -/
def deleteFile (w : World) (p : Str) : Option World :=
  match w.find? p with
  | some e => if e.isDir then none else some { w with fs := w.fs.filter (·.path != p) }
  | none => none

/-- every proper prefix directory of an absolute clean path, shortest first, then the path -/
def prefixes (p : Str) : List Str :=
  let comps := (p.splitOn '/').filter (!·.isEmpty)
  (List.range comps.length).map (fun i => '/' :: joinStr ['/'] (comps.take (i + 1)))

/-- `std::fs::create_dir_all` -/
def createDirAll (w : World) (p : Str) : Option World :=
  (prefixes p).foldl (fun acc q =>
    match acc with
    | none => none
    | some w =>
      match w.find? q with
      | some e => if e.isDir then some w else none
      | none => some { w with fs := w.fs ++ [{ path := q, isDir := true, content := none, nameOk := true }] })
    (some w)

/-- `std::fs::read_dir` + the name conversion of `_read_dir` (after fix F20) -/
def readDir (w : World) (p : Str) : Option (List Str) :=
  if !w.isDir p then none
  else
    let cs := w.children p
    if cs.all (·.nameOk) then some (cs.map (fun e => (splitLastSlash e.path).map (·.2) |>.getD e.path)) else none

/-- `std::fs::remove_dir_all` -/
def deleteDirAll (w : World) (p : Str) : Option World :=
  match w.find? p with
  | some e => if e.isDir then some { w with fs := w.fs.filter (fun x => x.path != p && !isUnder p x.path) } else none
  | none => none

/-- `std::fs::metadata(p).is_file()` -/
def fileOrDir (w : World) (p : Str) : Option Bool :=
  if p == ['/'] then some false else (w.find? p).map (fun e => !e.isDir)

/-! #### Path resolution (what the kernel does with the text of a path before any of the operations above)

  The operations above take *clean* absolute paths.  A path as written in a program may contain `.`, `..`, doubled
  and trailing slashes; the kernel walks it component by component: every component that is walked *through* must be
  an existing directory (so `missing/../f` and `file.txt/../f` fail although `f` exists), `..` goes to the parent (the
  root is its own parent), `.` and empty components stay, and a trailing slash (or final `.`) demands a directory. -/

def pathOfComps (cs : List Str) : Str := if cs.isEmpty then ['/'] else '/' :: joinStr ['/'] cs

/-- walk the components `cs` from the directory `cur` (a stack of names, innermost last) -/
def resolveComps (w : World) : List Str → List Str → Option (List Str)
  | [], cur => some cur
  | c :: rest, cur =>
    if c == ['.', '.'] then resolveComps w rest cur.dropLast
    else if rest.isEmpty then some (cur ++ [c])
    else if w.isDir (pathOfComps (cur ++ [c])) then resolveComps w rest (cur ++ [c])
    else none

/-- the clean absolute path an absolute path text denotes, `none` when the walk fails; other texts are left alone -/
def resolve (w : World) (p : Str) : Option Str :=
  match p with
  | '/' :: _ =>
    let raw := p.splitOn '/'
    let comps := raw.filter (fun c => !c.isEmpty && c != ['.'])
    let wantsDir := match raw.getLast? with | some c => c.isEmpty || c == ['.'] | none => false
    match resolveComps w comps [] with
    | some cur =>
      let q := pathOfComps cur
      if wantsDir && !w.isDir q then none else some q
    | none => none
  | _ => some p

def readFileP (w : World) (p : Str) : Option Str := (w.resolve p).bind w.readFile
def writeFileP (w : World) (p : Str) (s : Str) : Option World := (w.resolve p).bind (w.writeFile · s)
def deleteFileP (w : World) (p : Str) : Option World := (w.resolve p).bind w.deleteFile
def readDirP (w : World) (p : Str) : Option (List Str) := (w.resolve p).bind w.readDir
def deleteDirAllP (w : World) (p : Str) : Option World := (w.resolve p).bind w.deleteDirAll
def fileOrDirP (w : World) (p : Str) : Option Bool := (w.resolve p).bind w.fileOrDir
/-- `create_dir_all` creates what is missing, so its path cannot be resolved first: `.` and empty components are
    dropped lexically; a path containing `..` is resolved (modelled only for walks through existing directories —
    the correspondence check generates no other `..` for this call) -/
def createDirAllP (w : World) (p : Str) : Option World :=
  match p with
  | '/' :: _ =>
    let comps := (p.splitOn '/').filter (fun c => !c.isEmpty && c != ['.'])
    if comps.contains ['.', '.'] then (w.resolve p).bind w.createDirAll
    else w.createDirAll (pathOfComps comps)
  | _ => w.createDirAll p

def isTrimChar (c : Char) : Bool :=
  c == ' ' || c == '\t' || c == '\n' || c == '\x0b' || c == '\x0c' || c == '\r'

def trimEnd (s : Str) : Str := (s.reverse.dropWhile isTrimChar).reverse

/-- `stdin().read_line` followed by `trim_end` -/
def readLine (w : World) : Str × World :=
  let line := w.stdin.takeWhile (· != '\n')
  let rest := (w.stdin.dropWhile (· != '\n')).drop 1
  (trimEnd line, { w with stdin := rest })

end World

end Pakhi
