/-
  Pakhi model — runtime values, scopes, the two arenas, allocation and the mark–sweep collector
  (`DataType`, `Interpreter::create_new_*_datatype`, `src/backend/mark_sweep.rs`).

  `HashMap`s are association lists with replace-on-insert; nothing depends on their order.
  `free_lists`/`free_nameless_records` are `Vec`s used as stacks: the model keeps the *top first*.
-/
import Pakhi.Model.Ast

namespace Pakhi

open Num (Bits)

/-- `DataType`.  A function value is identified by the number of statements that remain at its
    body (`starting_statement = len - rem`), which determines the body suffix uniquely. -/
inductive Val where
  | num (b : Bits)
  | bool (b : Bool)
  | str (s : Str)
  | list (i : Nat)
  | record (i : Nat)
  | func (rem : Nat) (params : List Str)
  | nil
deriving DecidableEq, Repr, Inhabited

def Val.isNum : Val → Bool | .num _ => true | _ => false
def Val.isStr : Val → Bool | .str _ => true | _ => false
def Val.isList : Val → Bool | .list _ => true | _ => false
def Val.isBool : Val → Bool | .bool _ => true | _ => false
/-- index of the constructor (the seven runtime types) -/
def Val.kind : Val → Nat
  | .num _ => 0 | .bool _ => 1 | .str _ => 2 | .list _ => 3 | .record _ => 4 | .func _ _ => 5 | .nil => 6

abbrev Scope := List (Str × Val)
abbrev RecordObj := List (Str × Val)

def assocGet {β : Type} (l : List (Str × β)) (k : Str) : Option β :=
  match l with
  | [] => none
  | (k', v) :: r => if k' == k then some v else assocGet r k

/-- `HashMap::insert` -/
def assocSet {β : Type} (l : List (Str × β)) (k : Str) (v : β) : List (Str × β) :=
  match l with
  | [] => [(k, v)]
  | (k', v') :: r => if k' == k then (k, v) :: r else (k', v') :: assocSet r k v

structure Heap where
  lists : List (List Val)
  freeLists : List Nat
  records : List RecordObj
  freeRecords : List Nat
  /-- `total_allocated_object_count` -/
  allocCount : Nat
deriving Repr, Inhabited, DecidableEq

def Heap.empty : Heap := { lists := [], freeLists := [], records := [], freeRecords := [], allocCount := 0 }

/-- `create_new_list_datatype` (after fix F19) -/
def Heap.allocList (h : Heap) (l : List Val) : Val × Heap :=
  let h := { h with allocCount := h.allocCount + l.length + 1 }
  match h.freeLists with
  | i :: rest => (.list i, { h with lists := h.lists.set i l, freeLists := rest })
  | [] => (.list h.lists.length, { h with lists := h.lists ++ [l] })

/-- `create_new_nameless_record_datatype` (after fix F19) -/
def Heap.allocRecord (h : Heap) (r : RecordObj) : Val × Heap :=
  let h := { h with allocCount := h.allocCount + r.length + 1 }
  match h.freeRecords with
  | i :: rest => (.record i, { h with records := h.records.set i r, freeRecords := rest })
  | [] => (.record h.records.length, { h with records := h.records ++ [r] })

/-! ### Mark -/

structure Marks where
  lists : List Bool
  records : List Bool
deriving Repr, DecidableEq

def Marks.init (h : Heap) : Marks :=
  { lists := List.replicate h.lists.length false, records := List.replicate h.records.length false }

inductive MarkRes where
  | ok (m : Marks)
  | panic (site : String)
  | fuel

mutual
/-- `mark_all_reachable_from_list` / `_from_record`: walk the values of one container -/
def markVals (h : Heap) : Nat → List Val → Marks → MarkRes
  | 0, _, _ => .fuel
  | _+1, [], m => .ok m
  | f+1, v :: vs, m =>
    match markVal h f v m with
    | .ok m => markVals h f vs m
    | r => r

def markVal (h : Heap) : Nat → Val → Marks → MarkRes
  | 0, _, _ => .fuel
  | f+1, v, m =>
    match v with
    | .list i =>
      match m.lists[i]? with
      | none => .panic "mark_sweep.rs:marked_lists[index]"
      | some true => .ok m
      | some false =>
        match h.lists[i]? with
        | none => .panic "mark_sweep.rs:lists.get(index).unwrap()"
        | some l => markVals h f l { m with lists := m.lists.set i true }
    | .record i =>
      match m.records[i]? with
      | none => .panic "mark_sweep.rs:marked_records[index]"
      | some true => .ok m
      | some false =>
        match h.records[i]? with
        | none => .panic "mark_sweep.rs:nameless_records.get(index).unwrap()"
        | some r => markVals h f (r.map (·.2)) { m with records := m.records.set i true }
    | _ => .ok m
end

/-- `find_root_objects`: lists first, then records, as `gc_mark` processes them -/
def rootVals (scopes : List Scope) : List Val :=
  let vals := scopes.flatMap (fun s => s.map (·.2))
  vals.filter (fun v => match v with | .list _ => true | _ => false) ++
  vals.filter (fun v => match v with | .record _ => true | _ => false)

/-- `gc_mark`: a root is marked and its content walked even when it is already marked -/
def markRoots (h : Heap) : Nat → List Val → Marks → MarkRes
  | 0, _, _ => .fuel
  | _+1, [], m => .ok m
  | f+1, v :: vs, m =>
    match v with
    | .list i =>
      match m.lists[i]?, h.lists[i]? with
      | some _, some l =>
        match markVals h f l { m with lists := m.lists.set i true } with
        | .ok m => markRoots h f vs m
        | r => r
      | _, _ => .panic "mark_sweep.rs:gc_mark root list"
    | .record i =>
      match m.records[i]?, h.records[i]? with
      | some _, some r =>
        match markVals h f (r.map (·.2)) { m with records := m.records.set i true } with
        | .ok m => markRoots h f vs m
        | r => r
      | _, _ => .panic "mark_sweep.rs:gc_mark root record"
    | _ => markRoots h f vs m

/-- number of values stored in the heap plus number of containers: bounds the marker's work -/
def Heap.size (h : Heap) : Nat :=
  h.lists.foldl (fun n l => n + l.length + 1) 0 + h.records.foldl (fun n r => n + r.length + 1) 0

def markFuel (h : Heap) (roots : List Val) : Nat :=
  2 * (h.size + roots.length + 2) * (roots.length + 2) + 8

/-! ### Sweep -/

/-- `gc_sweep` for one arena: unmarked slots are emptied and appended to the free `Vec`
    (kept top-first here, so a newly freed index goes in front) unless already present -/
def sweepArena {α : Type} (empty : α) : Nat → List Bool → List α → List Nat → List α × List Nat
  | _, [], arena, free => (arena, free)
  | i, alive :: ms, arena, free =>
    if alive then sweepArena empty (i+1) ms arena free
    else
      let free' := if free.contains i then free else i :: free
      sweepArena empty (i+1) ms (arena.set i empty) free'

def sweep (h : Heap) (m : Marks) : Heap :=
  let (ls, fl) := sweepArena ([] : List Val) 0 m.lists h.lists h.freeLists
  let (rs, fr) := sweepArena ([] : RecordObj) 0 m.records h.records h.freeRecords
  { h with lists := ls, freeLists := fl, records := rs, freeRecords := fr }

inductive GcRes where
  | ok (h : Heap)
  | panic (site : String)
  | fuel

/-- `GC::collect_garbage` followed by the counter reset of `Interpreter::run` -/
def collect (scopes : List Scope) (h : Heap) : GcRes :=
  let roots := rootVals scopes
  match markRoots h (markFuel h roots) roots (Marks.init h) with
  | .ok m => .ok { (sweep h m) with allocCount := 0 }
  | .panic s => .panic s
  | .fuel => .fuel

end Pakhi
