/-
  Pakhi model — the flat-statement interpreter (`src/backend/interpreter.rs`).

  `Interpreter.statements` + `Interpreter.current` is the remaining suffix `cur : List Stmt`
  (its head is the statement being executed; `[]` stands for every position past the end, which
  after the `stmt_at` fix all read as the end marker).  A loop's `start` is the suffix at that
  index; a function value stores the length of the suffix at its body (`Val.func rem _`), from which
  the body is recovered with `bodyOf prog rem`.

  `return_addrs` is not modelled: every call frame pushes exactly one address and pops exactly one
  before it returns, nested frames are balanced and an error aborts the whole run, so the popped
  address is always the one the frame saved — here simply the caller's `cur`.
-/
import Pakhi.Model.Builtins

namespace Pakhi

open Num (Bits)

structure LoopEnv where
  start : List Stmt
  /-- `total_envs_at_loop_creation` -/
  envs : Nat

structure St where
  /-- innermost scope first; the last one is the root scope -/
  scopes : List Scope
  heap : Heap
  out : List Out
  loops : List LoopEnv
  /-- `previous_if_was_executed`, top first -/
  flags : List Bool
  world : World
  /-- ghost: number of collections run so far (the `native_collections` + `forced_collections`
      counters of the verification hooks) -/
  gcCount : Nat := 0

def outText (o : List Out) : Str :=
  (o.reverse.map (fun x => match x with | .text s => s | _ => [])).flatten

def St.emit (s : St) (t : Str) : St := { s with out := .text t :: s.out }
def St.mark (s : St) (m : Out) : St := { s with out := m :: s.out }

def St.init (w : World) : St :=
  { scopes := [[(platformConst, .str w.platform)]], heap := Heap.empty, out := [], loops := [],
    flags := [], world := w }

/-- the body suffix of a function value -/
def bodyOf (prog : List Stmt) (rem : Nat) : List Stmt := prog.drop (prog.length - rem)

/-- `extract_err_meta_stmt(self.current)` turned into an error of class `cls` -/
def stmtErr {α : Type} (cur : List Stmt) (cls : ErrClass) (tag : String) : Res α :=
  match cur with
  | s :: _ => mkErr cls s.meta.line s.meta.file tag
  | [] => unexpected "missing-semicolon"

def metaErr {α : Type} (m : Meta) (cls : ErrClass) (tag : String) : Res α := mkErr cls m.line m.file tag

/-- `interpret_var` -/
def lookupVar (scopes : List Scope) (name : Str) : Option Val :=
  match scopes with
  | [] => none
  | sc :: rest => match assocGet sc name with | some v => some v | none => lookupVar rest name

/-- assignment to the innermost scope that binds `name` (`find_var_env_index` + insert) -/
def assignVar (scopes : List Scope) (name : Str) (v : Val) : Option (List Scope) :=
  match scopes with
  | [] => none
  | sc :: rest =>
    if (assocGet sc name).isSome then some (assocSet sc name v :: rest)
    else (assignVar rest name v).map (sc :: ·)

/-- insert into the current (innermost) scope -/
def declareVar (scopes : List Scope) (name : Str) (v : Val) : Res (List Scope) :=
  match scopes with
  | sc :: rest => .ok (assocSet sc name v :: rest)
  | [] => .panic "interpreter.rs:scopes.len() - 1"

/-- `skip_block`: `depth` is the size of the Rust `stack` -/
def skipBlock : List Stmt → Nat → Res (List Stmt)
  | [], _ => .ok []
  | s :: r, depth =>
    match s with
    | .blockStart _ => skipBlock r (depth + 1)
    | .blockEnd m =>
      if depth == 0 then metaErr m .runtime "skip-block-unbalanced"
      else if depth == 1 then .ok r
      else skipBlock r (depth - 1)
    | _ => skipBlock r depth

/-- `skip_block_in_if` -/
def skipBlockInIf (cur : List Stmt) (flags : List Bool) : Res (List Stmt × List Bool) :=
  match skipBlock cur 0 with
  | .ok cur' =>
    match cur' with
    | .else _ :: _ => .ok (cur', flags)
    | _ => .ok (cur', flags.drop 1)
  | .err e => .err e | .panic p => .panic p | .fuel => .fuel

/-- the forward scan of `Stmt::Break` (after fix F12) -/
def breakScan (brk : Meta) : List Stmt → Nat → Res (List Stmt)
  | [], _ => metaErr brk .runtime "break-outside-loop"
  | s :: r, open_ =>
    match s with
    | .blockStart _ => breakScan brk r (open_ + 1)
    | .blockEnd _ => breakScan brk r (open_ - 1)
    | .cont _ => if open_ == 0 then .ok r else breakScan brk r open_
    | .eos _ => metaErr brk .runtime "break-outside-loop"
    | _ => breakScan brk r open_

/-- `DataType == DataType` (derived `PartialEq`) -/
def valEq (a b : Val) : Bool :=
  match a, b with
  | .num x, .num y => Num.feq x y
  | .bool x, .bool y => x == y
  | .str x, .str y => x == y
  | .list x, .list y => x == y
  | .record x, .record y => x == y
  | .func r p, .func r' p' => r == r' && p == p'
  | .nil, .nil => true
  | _, _ => false

/-- `interpret_addsub_expr` on evaluated operands; errors carry the left operand's line -/
def addSub (op : TK) (m : Meta) (l r : Val) (h : Heap) : Res (Val × Heap) :=
  match l, r with
  | .num a, .num b =>
    match op with
    | .plus => .ok (.num (Num.fadd a b), h)
    | .minus => .ok (.num (Num.fsub a b), h)
    | _ => metaErr m .type "invalid-op-number"
  | .str a, .str b =>
    if op == .plus then .ok (.str (a ++ b), h) else metaErr m .type "invalid-op-string"
  | .list i, .list j =>
    match h.lists[i]?, h.lists[j]? with
    | some a, some b =>
      if op == .plus then .ok (h.allocList (a ++ b)) else metaErr m .type "invalid-op-list"
    | _, _ => .panic "interpreter.rs:lists.get(arr_i).unwrap()"
  | _, _ => metaErr m .type "invalid-operands"

def mulDiv (op : TK) (m : Meta) (l r : Val) : Res Val :=
  match r, l with
  | .num b, .num a =>
    match op with
    | .mul => .ok (.num (Num.fmul a b))
    | .div => .ok (.num (Num.fdiv a b))
    | .rem => .ok (.num (Num.fmod a b))
    | _ => metaErr m .type "unsupported-op"
  | _, _ => metaErr m .type "unsupported-op"

def compare (op : TK) (m : Meta) (l r : Val) : Res Val :=
  match l, r with
  | .num a, .num b =>
    match op with
    | .gt => .ok (.bool (Num.flt b a))
    | .ge => .ok (.bool (Num.fle b a))
    | .lt => .ok (.bool (Num.flt a b))
    | .le => .ok (.bool (Num.fle a b))
    | _ => metaErr m .type "unsupported-op"
  | _, _ => metaErr m .type "unsupported-op"

def equality (op : TK) (m : Meta) (l r : Val) : Res Val :=
  match op with
  | .eqeq => .ok (.bool (valEq l r))
  | .ne => .ok (.bool (!valEq l r))
  | _ => metaErr m .type "unsupported-op"

def andOr (isAnd : Bool) (m : Meta) (l r : Val) : Res Val :=
  match r, l with
  | .bool b, .bool a => .ok (.bool (if isAnd then b && a else b || a))
  | _, _ => metaErr m .type "unsupported-op"

def unaryOp (op : TK) (m : Meta) (v : Val) : Res Val :=
  match v with
  | .num n => if op == .minus then .ok (.num (Num.fnegMul n)) else metaErr m .type "unsupported-unary"
  | .bool b => if op == .not then .ok (.bool !b) else metaErr m .type "unsupported-unary"
  | _ => metaErr m .type "unsupported-unary"

/-- `interpret_indexing` on evaluated operands; `m` is the index expression's line -/
def indexVal (m : Meta) (c i : Val) (h : Heap) : Res Val :=
  match c, i with
  | .list a, .num n =>
    match h.lists[a]? with
    | none => .panic "interpreter.rs:self.lists[arr_i]"
    | some l =>
      match listPosition n l.length with
      | some p => match l[p]? with | some v => .ok v | none => .panic "unreachable"
      | none => metaErr m .runtime "list-index-out-of-range"
  | .record a, .str k =>
    match h.records[a]? with
    | none => .panic "interpreter.rs:self.nameless_records[record_i]"
    | some r =>
      match assocGet r k with
      | some v => .ok v
      | none => metaErr m .runtime "record-missing-key"
  | _, .num _ => metaErr m .runtime "only-list-number-index"
  | .list _, _ => metaErr m .type "list-index-must-be-number"
  | _, .str _ => metaErr m .runtime "only-record-string-index"
  | .record _, _ => metaErr m .type "record-index-must-be-string"
  | _, _ => metaErr m .runtime "invalid-indexing"

inductive Index where
  | pos (n : Bits)
  | key (k : Str)

/-- the walker of `reassign_to_list_or_record` (after fix F15); errors carry the statement's line -/
def assignPath (cur : List Stmt) : Val → List Index → Val → Heap → Res Heap
  | _, [], _, h => .ok h
  | c, ix :: rest, v, h =>
    match c, ix with
    | .list a, .pos n =>
      match h.lists[a]? with
      | none => .panic "interpreter.rs:self.lists[list_ref]"
      | some l =>
        match listPosition n l.length with
        | none => stmtErr cur .runtime "list-index-out-of-range"
        | some p =>
          if rest.isEmpty then .ok { h with lists := h.lists.set a (l.set p v) }
          else match l[p]? with
            | some c' => assignPath cur c' rest v h
            | none => .panic "unreachable"
    | .record a, .key k =>
      match h.records[a]? with
      | none => .panic "interpreter.rs:self.nameless_records[record_ref]"
      | some r =>
        if rest.isEmpty then .ok { h with records := h.records.set a (assocSet r k v) }
        else match assocGet r k with
          | some c' => assignPath cur c' rest v h
          | none => stmtErr cur .runtime "record-missing-key"
    | .list _, _ => stmtErr cur .runtime "list-must-be-indexed-with-number"
    | .record _, _ => stmtErr cur .runtime "record-must-be-indexed-with-string"
    | _, _ => stmtErr cur .type "not-indexable"

/-! ### Built-in functions on evaluated arguments -/

/-- marks the `unwrap()` of a dangling list reference inside a built-in (a Rust panic site) -/
def panicTag : Str := ['P', 'A', 'N', 'I', 'C']

/-- the text of a string value -/
def Val.str? : Val → Option Str
  | .str t => some t
  | _ => none

/-- the 17 built-in functions (`_এরর` is handled by the caller, it never returns) -/
inductive Builtin where
  | toString | toNum | listPush | listPop | listLen | readLine | error | stringSplit | stringJoin | type
  | readFile | writeFile | deleteFile | createDir | readDir | deleteDir | fileOrDir
deriving DecidableEq, Repr

def builtinTable : List (Str × Builtin) :=
  [ (W.fnToString, .toString), (W.fnToNum, .toNum), (W.fnListPush, .listPush), (W.fnListPop, .listPop),
    (W.fnListLen, .listLen), (W.fnReadLine, .readLine), (W.fnError, .error), (W.fnStringSplit, .stringSplit),
    (W.fnStringJoin, .stringJoin), (W.fnType, .type), (W.fnReadFile, .readFile), (W.fnWriteFile, .writeFile),
    (W.fnDeleteFile, .deleteFile), (W.fnCreateDir, .createDir), (W.fnReadDir, .readDir),
    (W.fnDeleteDir, .deleteDir), (W.fnFileOrDir, .fileOrDir) ]

/-- `BuiltInFunctionList::get_name` followed by the `match` on the name -/
def builtinOf? (name : Str) : Option Builtin := (builtinTable.find? (·.1 == name)).map (·.2)

/-- result of `call_built_in_function`'s dispatch: `.inr tag` is the `Err(String)` of the
    built-in, turned into a `RuntimeError` at the current statement by the caller -/
def callB (k : Builtin) (args : List Val) (s : St) : (Val × St) ⊕ Str :=
  let err (t : String) : (Val × St) ⊕ Str := .inr t.toList
  let withHeap (h : Heap) (v : Val) : (Val × St) ⊕ Str := .inl (v, { s with heap := h })
  let withWorld (w : Option World) (v : Val) : (Val × St) ⊕ Str :=
    match w with | some w => .inl (v, { s with world := w }) | none => err "fs-error"
  match k with
  | .toString =>
    match args with
    | [.num n] => .inl (.str (numToBnString n), s)
    | [_] => err "must-be-number"
    | _ => err "arity"
  | .toNum =>
    match args with
    | [.str t] => match bnStringToNum? t with | some b => .inl (.num b, s) | none => err "not-a-number"
    | [_] => err "must-be-string"
    | _ => err "arity"
  | .listPush =>
    match args with
    | [.list i, v] =>
      match s.heap.lists[i]? with
      | some l => withHeap { s.heap with lists := s.heap.lists.set i (l ++ [v]) } .nil
      | none => .inr panicTag
    | [_, _] => err "must-be-list"
    | [.list i, at_, v] =>
      match s.heap.lists[i]? with
      | some l =>
        match at_ with
        | .num n =>
          match listPosition n (l.length + 1) with
          | some p => withHeap { s.heap with lists := s.heap.lists.set i (insertAt l p v) } .nil
          | none => err "index-out-of-range"
        | _ => err "index-must-be-number"
      | none => .inr panicTag
    | [_, _, _] => err "must-be-list"
    | _ => err "arity"
  | .listPop =>
    match args with
    | [.list i] =>
      match s.heap.lists[i]? with
      | some l => withHeap { s.heap with lists := s.heap.lists.set i l.dropLast } .nil
      | none => .inr panicTag
    | [_] => err "must-be-list"
    | [.list i, at_] =>
      match s.heap.lists[i]? with
      | some l =>
        match at_ with
        | .num n =>
          match listPosition n l.length with
          | some p => withHeap { s.heap with lists := s.heap.lists.set i (removeAt l p) } .nil
          | none => err "index-out-of-range"
        | _ => err "index-must-be-number"
      | none => .inr panicTag
    | [_, _] => err "must-be-list"
    | _ => err "arity"
  | .listLen =>
    match args with
    | [.list i] =>
      match s.heap.lists[i]? with
      | some l => .inl (.num (Num.ofNat l.length), s)
      | none => .inr panicTag
    | [_] => err "must-be-list"
    | _ => err "arity"
  | .readLine =>
    match args with
    | [] => let (line, w) := s.world.readLine; .inl (.str line, { s with world := w })
    | _ => err "arity"
  | .stringSplit =>
    match args with
    | [.str t, .str sep] =>
      let (v, h) := s.heap.allocList ((splitStr t sep).map .str)
      withHeap h v
    | [_, _] => err "must-be-strings"
    | _ => err "arity"
  | .stringJoin =>
    match args with
    | [.list i, .str sep] =>
      match s.heap.lists[i]? with
      | some l =>
        match l.mapM Val.str? with
        | some strs => .inl (.str (joinStr sep strs), s)
        | none => err "list-of-strings-only"
      | none => .inr panicTag
    | [_, _] => err "must-be-list-and-string"
    | _ => err "arity"
  | .type =>
    match args with
    | [v] => .inl (.str (typeName v), s)
    | _ => err "arity"
  | .readFile =>
    match args with
    | [.str p] => match s.world.readFileP p with | some c => .inl (.str c, s) | none => err "fs-error"
    | [_] => err "must-be-string"
    | _ => err "arity"
  | .writeFile =>
    match args with
    | [.str p, .str c] => withWorld (s.world.writeFileP p c) (.bool true)
    | [_, _] => err "must-be-strings"
    | _ => err "arity"
  | .deleteFile =>
    match args with
    | [.str p] => withWorld (s.world.deleteFileP p) (.bool true)
    | [_] => err "must-be-string"
    | _ => err "arity"
  | .createDir =>
    match args with
    | [.str p] => withWorld (s.world.createDirAllP p) (.bool true)
    | [_] => err "must-be-string"
    | _ => err "arity"
  | .readDir =>
    match args with
    | [.str p] =>
      match s.world.readDirP p with
      | some names => let (v, h) := s.heap.allocList (names.map .str); withHeap h v
      | none => err "fs-error"
    | [_] => err "must-be-string"
    | _ => err "arity"
  | .deleteDir =>
    match args with
    | [.str p] => withWorld (s.world.deleteDirAllP p) (.bool true)
    | [_] => err "must-be-string"
    | _ => err "arity"
  | .fileOrDir =>
    match args with
    | [.str p] =>
      match s.world.fileOrDirP p with
      | some true => .inl (.str W.wFile, s)
      | some false => .inl (.str W.wDir, s)
      | none => err "fs-error"
    | [_] => err "must-be-string"
    | _ => err "arity"
  | .error => err "not-defined"


def callBuiltin (name : Str) (args : List Val) (s : St) : (Val × St) ⊕ Str :=
  match builtinOf? name with
  | some k => callB k args s
  | none => .inr "not-defined".toList

/-! ### Rendering (`print_datatype` and the two print statements) -/

mutual
/-- `print_datatype`; fuel bounds the nesting depth (a cyclic container never finishes).
    Errors carry the output produced so far. -/
def printVal (cur : List Stmt) : Nat → Val → St → Res St
  | 0, _, _ => .fuel
  | f+1, v, s =>
    match v with
    | .num n =>
      match toBnNum? n with
      | some t => .ok (s.emit t)
      | none => (stmtErr cur .runtime "cannot-convert-to-number").tagOut s.out
    | .bool b => .ok (s.emit (if b then W.wTrue else W.wFalse))
    | .str t => .ok (s.emit t)
    | .list i =>
      match s.heap.lists[i]? with
      | none => .panic "interpreter.rs:self.lists[arr_i]"
      | some l =>
        match printElems cur f l true (s.emit ['[']) with
        | .ok s => .ok (s.emit [']'])
        | .err e => .err e | .panic p => .panic p | .fuel => .fuel
    | .record i =>
      match s.heap.records[i]? with
      | none => .panic "interpreter.rs:nameless_records.get(record_i).unwrap()"
      | some r =>
        match printEntries cur f r ((s.emit ['@', '{']).mark .recStart) with
        | .ok s => .ok ((s.mark .recEnd).emit ['}'])
        | .err e => .err e | .panic p => .panic p | .fuel => .fuel
    | _ => (stmtErr cur .runtime "print-unsupported-datatype").tagOut s.out

def printElems (cur : List Stmt) : Nat → List Val → Bool → St → Res St
  | 0, _, _, _ => .fuel
  | f+1, xs, first, s =>
    match xs with
    | [] => .ok s
    | x :: xs =>
      let s := if first then s else s.emit W.sepCommaSpace
      match printVal cur f x s with
      | .ok s => printElems cur f xs false s
      | .err e => .err e | .panic p => .panic p | .fuel => .fuel

def printEntries (cur : List Stmt) : Nat → RecordObj → St → Res St
  | 0, _, _ => .fuel
  | f+1, xs, s =>
    match xs with
    | [] => .ok s
    | (k, x) :: xs =>
      let s := (s.mark .entStart).emit ('"' :: k ++ ['"', ':'])
      match printVal cur f x s with
      | .ok s => printEntries cur f xs ((s.emit [',']).mark .entEnd)
      | .err e => .err e | .panic p => .panic p | .fuel => .fuel
end

/-- `interpret_print_stmt` / `interpret_print_no_eol` on the evaluated operand -/
def printTop (cur : List Stmt) (fuel : Nat) (eol : Bool) (v : Val) (s : St) : Res St :=
  match v with
  | .nil | .func _ _ => (stmtErr cur .type "print-unsupported-datatype").tagOut s.out
  | _ =>
    match printVal cur fuel v s with
    | .ok s => .ok (if eol then s.emit ['\n'] else s)
    | .err e => .err e | .panic p => .panic p | .fuel => .fuel

/-- parameter names of a definition's header `f(a, b)`; `none` if some argument is no identifier -/
def paramNames : Exprs → Option (List Str)
  | .nil => some []
  | .cons (.var t _) r => (paramNames r).map (t.lexeme :: ·)
  | .cons _ _ => none

/-- `interpret_funcdef`: `rest` is the suffix after the `FuncDef` statement -/
def execFuncDef (prog : List Stmt) (rest : List Stmt) (s : St) : Res (List Stmt × St) :=
  match rest with
  | .expr (.call callee args _) m :: body =>
    match callee with
    | .var ftok vm =>
      match paramNames args with
      | none => metaErr vm .runtime "error-during-function-definition"
      | some params =>
        match declareVar s.scopes ftok.lexeme (.func body.length params) with
        | .ok sc =>
          match skipBlock body 0 with
          | .ok after =>
            match after with
            | [] => unexpected "missing-semicolon"
            | .ret _ _ :: after' => .ok (after', { s with scopes := sc })
            | _ :: _ =>
              match prog.getLast? with
              | some l => metaErr l.meta .runtime "expected-return-statement"
              | none => unexpected "missing-semicolon"
          | .err e => .err e | .panic p => .panic p | .fuel => .fuel
        | .err e => .err e | .panic p => .panic p | .fuel => .fuel
    | _ => metaErr m .runtime "cannot-interpret-function-definition"
  | _ => stmtErr rest .runtime "expected-function-definition"

/-- redundant parentheses around a callee are unwrapped (`(f)(x)` calls `f`) -/
def stripGroups : Expr → Expr
  | .group e _ => stripGroups e
  | e => e

/-! ### Evaluator and statement execution -/

/-- a current-statement runtime error carrying the output so far -/
def curErr {α : Type} (cur : List Stmt) (s : St) (msg : Str) : Res α :=
  match cur with
  | st :: _ => .err { cls := .runtime, line := st.meta.line, file := st.meta.file, msg := msg, out := s.out }
  | [] => (unexpected "missing-semicolon").tagOut s.out

mutual

/-- `interpret_expr`.  `cur` is the suffix at `self.current` (only used to locate errors).
    Sequencing is `Res.bind`: the first error / panic / out-of-fuel ends the evaluation. -/
def eval (prog : List Stmt) : Nat → List Stmt → Expr → St → Res (Val × St)
  | 0, _, _, _ => .fuel
  | f+1, cur, e, s =>
    match e with
    | .nil _ => .ok (.nil, s)
    | .str t _ => .ok (.str t, s)
    | .num n _ => .ok (.num n, s)
    | .bool b _ => .ok (.bool b, s)
    | .var tok _ =>
      match lookupVar s.scopes tok.lexeme with
      | some v => .ok (v, s)
      | none => (stmtErr cur .runtime "variable-not-initialized").tagOut s.out
    | .list es _ =>
      (evalList prog f cur es s).bind fun (vs, s) =>
        let (v, h) := s.heap.allocList vs
        .ok (v, { s with heap := h })
    | .group e _ => eval prog f cur e s
    | .record ks vs _ =>
      (evalRecord prog f cur ks vs [] s).bind fun (r, s) =>
        let (v, h) := s.heap.allocRecord r
        .ok (v, { s with heap := h })
    | .unary op r _ =>
      (eval prog f cur r s).bind fun (v, s) =>
        ((unaryOp op r.meta v).tagOut s.out).bind fun v => .ok (v, s)
    | .and l r _ => evalBin prog f cur false (fun a b => andOr true l.meta a b) l r s
    | .or l r _ => evalBin prog f cur false (fun a b => andOr false l.meta a b) l r s
    | .equality op l r _ => evalBin prog f cur true (fun a b => equality op l.meta a b) l r s
    | .comparison op l r _ => evalBin prog f cur true (fun a b => compare op l.meta a b) l r s
    | .muldiv op l r _ => evalBin prog f cur false (fun a b => mulDiv op l.meta a b) l r s
    | .addsub op l r _ =>
      (eval prog f cur l s).bind fun (a, s) =>
        (eval prog f cur r s).bind fun (b, s) =>
          ((addSub op l.meta a b s.heap).tagOut s.out).bind fun (v, h) => .ok (v, { s with heap := h })
    | .indexing c i _ =>
      (eval prog f cur c s).bind fun (cv, s) =>
        (eval prog f cur i s).bind fun (iv, s) =>
          ((indexVal i.meta cv iv s.heap).tagOut s.out).bind fun v => .ok (v, s)
    | .call callee args _ => evalCall prog f cur callee args s

/-- two operands, left first (`leftFirst`) or right first, then a pure operation `(left, right)` -/
def evalBin (prog : List Stmt) : Nat → List Stmt → Bool → (Val → Val → Res Val) → Expr → Expr → St → Res (Val × St)
  | 0, _, _, _, _, _, _ => .fuel
  | f+1, cur, leftFirst, op, l, r, s =>
    if leftFirst then
      (eval prog f cur l s).bind fun (a, s) =>
        (eval prog f cur r s).bind fun (b, s) =>
          ((op a b).tagOut s.out).bind fun v => .ok (v, s)
    else
      (eval prog f cur r s).bind fun (b, s) =>
        (eval prog f cur l s).bind fun (a, s) =>
          ((op a b).tagOut s.out).bind fun v => .ok (v, s)

def evalList (prog : List Stmt) : Nat → List Stmt → Exprs → St → Res (List Val × St)
  | 0, _, _, _ => .fuel
  | f+1, cur, es, s =>
    match es with
    | .nil => .ok ([], s)
    | .cons e rest =>
      (eval prog f cur e s).bind fun (v, s) =>
        (evalList prog f cur rest s).bind fun (vs, s) => .ok (v :: vs, s)

/-- record literal: a value is evaluated (and stored) only when its key evaluates to a string -/
def evalRecord (prog : List Stmt) : Nat → List Stmt → Exprs → Exprs → RecordObj → St → Res (RecordObj × St)
  | 0, _, _, _, _, _ => .fuel
  | f+1, cur, ks, vs, acc, s =>
    match ks, vs with
    | .cons k ks', .cons v vs' =>
      (eval prog f cur k s).bind fun (kv, s) =>
        match kv with
        | .str key =>
          (eval prog f cur v s).bind fun (vv, s) => evalRecord prog f cur ks' vs' (assocSet acc key vv) s
        | _ => evalRecord prog f cur ks' vs' acc s
    | .nil, _ => .ok (acc, s)
    | .cons _ _, .nil => .panic "interpreter.rs:key_values.1[i]"

/-- `interpret_func_call_expr` -/
def evalCall (prog : List Stmt) : Nat → List Stmt → Expr → Exprs → St → Res (Val × St)
  | 0, _, _, _, _ => .fuel
  | f+1, cur, callee, args, s =>
    match stripGroups callee with
    | .var tok _ =>
      if isBuiltin tok.lexeme then
        (evalList prog f cur args s).bind fun (vs, s) =>
          if tok.lexeme == W.fnError then
            match vs with
            | [.str m] => curErr cur s m
            | _ => (stmtErr cur .runtime "error-builtin-bad-arguments").tagOut s.out
          else
            match callBuiltin tok.lexeme vs s with
            | .inl r => .ok r
            | .inr tag =>
              if tag == panicTag then .panic "built_ins.rs:lists.get_mut(index).unwrap()"
              else curErr cur s tag
      else
        match lookupVar s.scopes tok.lexeme with
        | none => (stmtErr cur .runtime "variable-not-initialized").tagOut s.out
        | some (.func rem params) =>
          (bindParams prog f cur params args [] s).bind fun (env, s) =>
            match bodyOf prog rem with
            | .blockStart bm :: body =>
              (callLoop prog f (.blockStart bm :: body) { s with scopes := env :: s.scopes }).bind fun (v, s2) =>
                .ok (v, { s2 with
                  scopes := s2.scopes.drop (s2.scopes.length - s.scopes.length)
                  loops := s2.loops.drop (s2.loops.length - s.loops.length)
                  flags := s2.flags.drop (s2.flags.length - s.flags.length) })
            | _ => (unexpected "expected-block-start").tagOut s.out
        | some _ => (metaErr ⟨tok.line, tok.file⟩ .runtime "function-not-declared").tagOut s.out
    | _ => (stmtErr cur .runtime "calling-undefined-function").tagOut s.out

/-- parameters are bound by position; missing arguments are nil, surplus ones are not evaluated -/
def bindParams (prog : List Stmt) : Nat → List Stmt → List Str → Exprs → Scope → St → Res (Scope × St)
  | 0, _, _, _, _, _ => .fuel
  | f+1, cur, params, args, env, s =>
    match params with
    | [] => .ok (env, s)
    | p :: ps =>
      match args with
      | .cons a rest =>
        (eval prog f cur a s).bind fun (v, s) => bindParams prog f cur ps rest (assocSet env p v) s
      | .nil => bindParams prog f cur ps .nil (assocSet env p .nil) s

/-- the loop of `interpret_func_call_expr`: run statements until a `Return` is current, then
    evaluate its operand -/
def callLoop (prog : List Stmt) : Nat → List Stmt → St → Res (Val × St)
  | 0, _, _ => .fuel
  | f+1, cur, s =>
    match cur with
    | .ret e _ :: _ => eval prog f cur e s
    | _ => (exec prog f cur s).bind fun (cur', s) => callLoop prog f cur' s

/-- `interpret`: execute the statement at the head of `cur` -/
def exec (prog : List Stmt) : Nat → List Stmt → St → Res (List Stmt × St)
  | 0, _, _ => .fuel
  | f+1, cur, s =>
    match cur with
    | [] => (unexpected "missing-semicolon").tagOut s.out
    | st :: rest =>
      match st with
      | .print e _ =>
        (eval prog f cur e s).bind fun (v, s) => (printTop cur f true v s).bind fun s => .ok (rest, s)
      | .printNoEOL e _ =>
        (eval prog f cur e s).bind fun (v, s) => (printTop cur f false v s).bind fun s => .ok (rest, s)
      | .expr e _ => (eval prog f cur e s).bind fun (_, s) => .ok (rest, s)
      | .assign a _ => (execAssign prog f cur a s).bind fun s => .ok (rest, s)
      | .if c _ =>
        -- `self.current += 1` precedes the evaluation of the condition
        (eval prog f rest c s).bind fun (v, s) =>
          match v with
          | .bool true => .ok (rest, { s with flags := true :: s.flags })
          | .bool false =>
            ((skipBlockInIf rest (false :: s.flags)).tagOut s.out).bind fun (cur', flags) => .ok (cur', { s with flags := flags })
          | _ => (metaErr c.meta .runtime "if-condition-not-boolean").tagOut s.out
      | .else _ =>
        match s.flags with
        | [] => (stmtErr cur .runtime "else-without-if").tagOut s.out
        | true :: _ =>
          ((skipBlockInIf rest s.flags).tagOut s.out).bind fun (cur', flags) => .ok (cur', { s with flags := flags })
        | false :: fl => .ok (rest, { s with flags := fl })
      | .funcDef _ => (execFuncDef prog rest s).tagOut s.out
      | .loop _ => .ok (rest, { s with loops := { start := rest, envs := s.scopes.length } :: s.loops })
      | .cont _ =>
        match s.loops with
        | [] => (stmtErr cur .runtime "continue-outside-loop").tagOut s.out
        | l :: _ => .ok (l.start, { s with scopes := s.scopes.drop (s.scopes.length - l.envs) })
      | .brk m =>
        match s.loops with
        | l :: ls =>
          ((breakScan m rest (s.scopes.length - l.envs)).tagOut s.out).bind fun cur' =>
            .ok (cur', { s with scopes := s.scopes.drop (s.scopes.length - l.envs), loops := ls })
        | [] => ((breakScan m rest 0).tagOut s.out).bind fun cur' => .ok (cur', s)
      | .blockStart _ => .ok (rest, { s with scopes := [] :: s.scopes })
      | .blockEnd _ =>
        if s.scopes.length ≤ 1 then (stmtErr cur .runtime "unexpected-block-end").tagOut s.out
        else .ok (rest, { s with scopes := s.scopes.drop 1 })
      | .ret _ _ | .eos _ => (stmtErr cur .runtime "debug-statement").tagOut s.out

/-- `interpret_assign_stmt` -/
def execAssign (prog : List Stmt) : Nat → List Stmt → Assignment → St → Res St
  | 0, _, _, _ => .fuel
  | f+1, cur, a, s =>
    match a.kind with
    | .first =>
      match a.init with
      | some e =>
        (eval prog f cur e s).bind fun (v, s) =>
          (declareVar s.scopes a.var.lexeme v).bind fun sc => .ok { s with scopes := sc }
      | none => (declareVar s.scopes a.var.lexeme .nil).bind fun sc => .ok { s with scopes := sc }
    | .re =>
      match a.init with
      | none => .panic "interpreter.rs:init_value.clone().unwrap()"
      | some e =>
        (eval prog f cur e s).bind fun (v, s) =>
          match lookupVar s.scopes a.var.lexeme with
          | none => (stmtErr cur .runtime "variable-not-declared").tagOut s.out
          | some _ =>
            if a.indexes.isEmpty then
              match assignVar s.scopes a.var.lexeme v with
              | some sc => .ok { s with scopes := sc }
              | none => .panic "unreachable"
            else
              (evalIndexes prog f cur a.indexes s).bind fun (ixs, s) =>
                match cur with
                | [] => (unexpected "missing-semicolon").tagOut s.out
                | _ :: _ =>
                  -- the container is fetched after the indexes have been evaluated
                  match lookupVar s.scopes a.var.lexeme with
                  | none => (stmtErr cur .runtime "variable-not-declared").tagOut s.out
                  | some container =>
                    ((assignPath cur container ixs v s.heap).tagOut s.out).bind fun h => .ok { s with heap := h }

/-- `evaluate_all_indexes` -/
def evalIndexes (prog : List Stmt) : Nat → List Stmt → List Expr → St → Res (List Index × St)
  | 0, _, _, _ => .fuel
  | f+1, cur, ixs, s =>
    match ixs with
    | [] => .ok ([], s)
    | ix :: rest =>
      (eval prog f cur ix s).bind fun (v, s) =>
        match v with
        | .list i =>
          match s.heap.lists[i]? with
          | none => .panic "interpreter.rs:self.lists[arr_i]"
          | some l =>
            let one : Res Index := match l.head? with
              | some (.num n) => .ok (.pos n)
              | some (.str k) => .ok (.key k)
              | _ => (metaErr ix.meta .runtime "index-must-be-number-or-string").tagOut s.out
            one.bind fun i1 => (evalIndexes prog f cur rest s).bind fun (is, s) => .ok (i1 :: is, s)
        | _ => (metaErr ix.meta .runtime "expected-bracket-for-indexing").tagOut s.out

end

/-! ### The top-level run loop -/

/-- the allocation count at which `Interpreter::run` collects -/
def gcThreshold : Nat := 1000

inductive GcMode where
  | native | never | always
  | mask (m : List Bool)

/-- does a collection run after the `k`-th executed top-level statement? -/
def GcMode.fires (g : GcMode) (k : Nat) (h : Heap) : Bool :=
  match g with
  | .native => h.allocCount ≥ gcThreshold
  | .never => false
  | .always => true
  | .mask m => m.getD k false

/-- `Interpreter::run` -/
def runLoop (prog : List Stmt) (g : GcMode) : Nat → Nat → List Stmt → St → Res St
  | 0, _, _, _ => .fuel
  | f+1, k, cur, s =>
    match cur with
    | [] => .ok s
    | .eos _ :: _ => .ok s
    | _ =>
      match exec prog f cur s with
      | .ok (cur', s) =>
        if g.fires k s.heap then
          match collect s.scopes s.heap with
          | .ok h => runLoop prog g f (k+1) cur' { s with heap := h, gcCount := s.gcCount + 1 }
          | .panic p => .panic p
          | .fuel => .fuel
        else runLoop prog g f (k+1) cur' s
      | .err e => .err e | .panic p => .panic p | .fuel => .fuel

end Pakhi
