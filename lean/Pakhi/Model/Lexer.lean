/-
  Pakhi model — tokenizer (`src/frontend/lexer.rs`), one Lean function per Rust function.
  The `Vec<char>` + cursor of the Rust code is the remaining suffix `List Char` here.
-/
import Pakhi.Model.Num
import Pakhi.Model.Words

namespace Pakhi

open Num (Bits)

inductive TK where
  | num (b : Bits) | str (s : Str) | ident
  | kIf | kElse | kLoop | kVar | kFunc
  | plus | minus | mul | div | rem | at | semi | map | comment | comma
  | lparen | rparen | lcurly | rcurly | lsq | rsq
  | eq | lt | gt | eqeq | ne | le | ge | and | or | not
  | bool (b : Bool) | brk | cont | ret | print | import | printNoEOL | eot
deriving DecidableEq, Repr, Inhabited

structure Token where
  kind : TK
  lexeme : Str
  line : Nat
  file : Str
deriving DecidableEq, Repr, Inhabited

/-- the 13-entry keyword table of `lexer::keyword` -/
def keywordTable : List (Str × TK) :=
  [ (W.kwVar, .kVar), (W.kwIf, .kIf), (W.kwElse, .kElse), (W.kwLoop, .kLoop),
    (W.kwFunc, .kFunc), (W.kwReturn, .ret), (W.kwBreak, .brk), (W.kwContinue, .cont),
    (W.kwPrint, .print), (W.kwPrintNoEOL, .printNoEOL), (W.kwTrue, .bool true),
    (W.kwFalse, .bool false), (W.kwImport, .import) ]

def keyword? (w : Str) : Option TK :=
  (keywordTable.find? (fun p => p.1 == w)).map (·.2)

/-- single-character tokens of `consume` that need no look-ahead -/
def simpleTok? (c : Char) : Option TK :=
  match c with
  | '+' => some .plus | '*' => some .mul | '/' => some .div | '%' => some .rem
  | '&' => some .and | '|' => some .or | '@' => some .at | ';' => some .semi | ',' => some .comma
  | '(' => some .lparen | ')' => some .rparen | '{' => some .lcurly | '}' => some .rcurly
  | '[' => some .lsq | ']' => some .rsq
  | _ => none

/-- tokens after which a `-` is the binary operator even when a digit follows (fix F6) -/
def endsOperand (k : TK) : Bool :=
  match k with
  | .num _ | .str _ | .ident | .bool _ | .rparen | .rsq => true
  | _ => false

/-- `consume_num`: returns ASCII text of the literal and the number of characters consumed.
    `fuel` bounds the scan (|src| suffices). -/
def scanNum (line : Nat) (file : Str) : Nat → List Char → Bool → Str → Nat → Res (Str × Nat)
  | 0, _, _, acc, n => .ok (acc.reverse, n)
  | fuel+1, src, inFrac, acc, n =>
    match src with
    | [] => .ok (acc.reverse, n)
    | c :: rest =>
      if c == '.' then
        if inFrac then mkErr .syntax line file "number-format"
        else scanNum line file fuel rest true ('.' :: acc) (n + 1)
      else if isNumeric c then
        match bnDigitVal? c with
        | some d => scanNum line file fuel rest inFrac (Num.digitChar d :: acc) (n + 1)
        | none => mkErr .syntax line file "not-bangla-digit"
      else .ok (acc.reverse, n)

def consumeNum (src : List Char) (line : Nat) (file : Str) : Res (Bits × Nat) :=
  match src with
  | [] => .panic "lexer.rs:consume_num"
  | c :: rest =>
    let r := if c == '-' then scanNum line file (rest.length + 1) rest false ['-'] 1
             else scanNum line file (src.length + 1) src false [] 0
    match r with
    | .ok (txt, n) =>
      match Num.parseF64 txt with
      | some b => .ok (b, n)
      | none => mkErr .syntax line file "number-format"
    | .err e => .err e
    | .panic s => .panic s
    | .fuel => .fuel

/-- `consume_string`: `src` starts with the opening quote.  Returns content and consumed count
    (content length + 2, also when the closing quote is missing). -/
def consumeString (src : List Char) : Str × Nat :=
  let val := (src.drop 1).takeWhile (· != '"')
  (val, val.length + 2)

/-- `skip_comment_block` (after fix F2): `src` starts with `#`; returns (chars, newlines). -/
def skipComment (line : Nat) (file : Str) : Nat → List Char → Nat → Nat → Res (Nat × Nat)
  | 0, _, _, _ => .fuel
  | fuel+1, src, skipped, lines =>
    match src with
    | [] => mkErr .syntax line file "comment-not-closed"
    | c :: rest =>
      if c == '#' then .ok (skipped + 1, lines)
      else if c == '\\' then
        match rest with
        | '#' :: rest' => skipComment line file fuel rest' (skipped + 2) lines
        | _ => skipComment line file fuel rest (skipped + 1) lines
      else if c == '\n' then skipComment line file fuel rest (skipped + 1) (lines + 1)
      else skipComment line file fuel rest (skipped + 1) lines

def countNewlines (s : Str) : Nat := (s.filter (· == '\n')).length

abbrev Consumed := Res (Option Token × Nat × Nat)

/-- a token made of the first `n` characters of `src` -/
def mkTok (src : List Char) (line : Nat) (file : Str) (k : TK) (n : Nat) : Consumed :=
  .ok (some { kind := k, lexeme := src.take n, line := line, file := file }, n, 0)

def nextIsNumeric (rest : List Char) : Bool :=
  match rest with | d :: _ => isNumeric d | [] => false

/-- a number token from `consume_num` -/
def consumeNumTok (src : List Char) (line : Nat) (file : Str) : Consumed :=
  match consumeNum src line file with
  | .ok (b, n) => mkTok src line file (.num b) n
  | .err e => .err e
  | .panic s => .panic s
  | .fuel => .fuel

/-- the arm `'-' | '০' … '৯'` of `consume` (after fix F6) -/
def consumeMinusOrDigit (c : Char) (rest : List Char) (line : Nat) (file : Str) (afterOperand : Bool) : Consumed :=
  if isNumeric c || (!afterOperand && nextIsNumeric rest) then consumeNumTok (c :: rest) line file
  else
    match rest with
    | '>' :: _ => mkTok (c :: rest) line file .map 2
    | _ => mkTok (c :: rest) line file .minus 1

/-- the arms `! = < >`: one look-ahead character -/
def consumeTwoChar (c : Char) (rest : List Char) (line : Nat) (file : Str) (k2 k1 : TK) : Consumed :=
  match rest with
  | '=' :: _ => mkTok (c :: rest) line file k2 2
  | _ => mkTok (c :: rest) line file k1 1

def consumeComment (c : Char) (rest : List Char) (line : Nat) (file : Str) : Consumed :=
  match skipComment line file (rest.length + 1) rest 1 0 with
  | .ok (n, l) => .ok (some { kind := .comment, lexeme := (c :: rest).take n, line := line, file := file }, n, l)
  | .err e => .err e
  | .panic s => .panic s
  | .fuel => .fuel

def consumeStringTok (src : List Char) (line : Nat) (file : Str) : Consumed :=
  let (val, n) := consumeString src
  .ok (some { kind := .str val, lexeme := val, line := line, file := file }, n, countNewlines val)

/-- the default arm: identifier or keyword (after fix F3: a character that starts no token is a syntax error) -/
def consumeWord (c : Char) (rest : List Char) (line : Nat) (file : Str) : Consumed :=
  if !isIdentChar c then mkErr .syntax line file "unexpected-character"
  else
    let word := (c :: rest).takeWhile isIdentChar
    match keyword? word with
    | some k => mkTok (c :: rest) line file k word.length
    | none => mkTok (c :: rest) line file .ident word.length

/-- `consume`: `src` is the non-empty remaining input.
    Result: optional token, characters consumed, lines consumed. -/
def consume (src : List Char) (line : Nat) (file : Str) (afterOperand : Bool) : Consumed :=
  match src with
  | [] => .panic "lexer.rs:consume"
  | c :: rest =>
    if c == '-' || (bnDigitVal? c).isSome then consumeMinusOrDigit c rest line file afterOperand
    else match simpleTok? c with
    | some k => mkTok src line file k 1
    | none =>
      if c == '!' then consumeTwoChar c rest line file .ne .not
      else if c == '=' then consumeTwoChar c rest line file .eqeq .eq
      else if c == '<' then consumeTwoChar c rest line file .le .lt
      else if c == '>' then consumeTwoChar c rest line file .ge .gt
      else if c == '#' then consumeComment c rest line file
      else if c == '"' then consumeStringTok src line file
      else if c == ' ' || c == '\r' || c == '\t' then .ok (none, 1, 0)
      else if c == '\n' then .ok (none, 1, 1)
      else consumeWord c rest line file

def eotToken (file : Str) : Token := { kind := .eot, lexeme := [], line := 0, file := file }

/-- does the most recent token end an operand?  (`acc` is the reversed token list) -/
def lastEndsOperand (acc : List Token) : Bool :=
  match acc with | t :: _ => endsOperand t.kind | [] => false

/-- the `while` loop of `tokenize`; `acc` is the reversed token list. -/
def tokenizeLoop (file : Str) : Nat → List Char → Nat → List Token → Res (List Token)
  | 0, _, _, _ => .fuel
  | fuel+1, src, line, acc =>
    match src with
    | [] => .ok (acc.reverse ++ [eotToken file])
    | _ :: _ =>
      match consume src line file (lastEndsOperand acc) with
      | .ok (t?, n, l) =>
        let acc' := match t? with | some t => t :: acc | none => acc
        tokenizeLoop file fuel (src.drop n) (line + l) acc'
      | .err e => .err e
      | .panic s => .panic s
      | .fuel => .fuel

def tokenize (src : List Char) (file : Str) : Res (List Token) :=
  tokenizeLoop file (src.length + 1) src 1 []

end Pakhi
