/-
  Pakhi model — numbers.

  Runtime numbers are binary64 bit patterns.  `+ - * /` and the comparisons are the hardware
  operations reached through `Float.ofBits` (opaque to the kernel: theorems speak about *which*
  operation is applied to *which* operands, never about result bits).

  Three operations have no counterpart in Lean's `Float` and are implemented here exactly, in `Nat`
  arithmetic (DESIGN.md §2.2 `Ext`):
    * `fmod`      — Rust `f64 % f64` (C `fmod`, truncated remainder, exact);
    * `display`   — Rust `format!("{}", f64)`: shortest round-tripping digits, plain decimal;
    * `parseF64`  — Rust `str::parse::<f64>()`: correctly rounded (half-even) decimal → binary64.
  They are validated against the Rust standard library on every run of the C09 check.
-/
import Pakhi.Model.Basic

namespace Pakhi
namespace Num

abbrev Bits := UInt64

def posInf : Bits := 0x7FF0000000000000
def canonNaN : Bits := 0x7FF8000000000000
def signBit : Nat := 2 ^ 63

def isNeg (b : Bits) : Bool := b.toNat ≥ signBit
def magnitude (b : Bits) : Bits := UInt64.ofNat (b.toNat % signBit)
def expField (b : Bits) : Nat := (b.toNat / 2 ^ 52) % 2048
def fracField (b : Bits) : Nat := b.toNat % 2 ^ 52
def isFinite (b : Bits) : Bool := expField b != 2047
def isNaN (b : Bits) : Bool := expField b == 2047 && fracField b != 0
def isZero (b : Bits) : Bool := magnitude b == 0
def withSign (neg : Bool) (mag : Bits) : Bits :=
  if neg then UInt64.ofNat (mag.toNat % signBit + signBit) else UInt64.ofNat (mag.toNat % signBit)

/-! ### Hardware operations (opaque) -/

def fadd (a b : Bits) : Bits := (Float.ofBits a + Float.ofBits b).toBits
def fsub (a b : Bits) : Bits := (Float.ofBits a - Float.ofBits b).toBits
def fmul (a b : Bits) : Bits := (Float.ofBits a * Float.ofBits b).toBits
def fdiv (a b : Bits) : Bits := (Float.ofBits a / Float.ofBits b).toBits
/-- `n * -1.0`, the interpreter's unary minus. -/
def fnegMul (a : Bits) : Bits := (Float.ofBits a * Float.ofBits 0xBFF0000000000000).toBits
def flt (a b : Bits) : Bool := Float.ofBits a < Float.ofBits b
def fle (a b : Bits) : Bool := Float.ofBits a ≤ Float.ofBits b
/-- IEEE equality (`NaN ≠ NaN`, `-0 = 0`), what `#[derive(PartialEq)]` gives `DataType::Num`. -/
def feq (a b : Bits) : Bool := Float.ofBits a == Float.ofBits b
def ofNat (n : Nat) : Bits := (Float.ofNat n).toBits
/-- Rust `f as usize` (saturating; NaN ↦ 0) on a 64-bit target. -/
def toUsize (a : Bits) : Nat := (Float.ofBits a).toUInt64.toNat
/-- `0.0 <= f` as used by `list_position`. -/
def geZero (a : Bits) : Bool := Float.ofBits a ≥ Float.ofBits 0

/-! ### Exact decoding / encoding -/

/-- finite `b` ↦ `(m, e)` with `|b| = m · 2^e`. -/
def decodeME (b : Bits) : Nat × Int :=
  let ex := expField b
  let fr := fracField b
  if ex == 0 then (fr, -1074) else (fr + 2 ^ 52, (ex : Int) - 1075)

/-- `m · 2^e` rounded to nearest-even binary64 magnitude (exact when representable). -/
def ofMantExp (m : Nat) (e : Int) : Bits :=
  if m == 0 then 0 else
  let len : Int := (m.log2 : Int) + 1
  let shift0 : Int := len - 53
  let e0 : Int := e + shift0
  let shift : Int := if e0 < -1074 then shift0 + (-1074 - e0) else shift0
  let ee : Int := if e0 < -1074 then -1074 else e0
  let mant0 : Nat :=
    if shift ≤ 0 then m * 2 ^ (-shift).toNat
    else
      let d := 2 ^ shift.toNat
      let q := m / d
      let r := m % d
      if r * 2 > d || (r * 2 == d && q % 2 == 1) then q + 1 else q
  let (mant, ee) := if mant0 == 2 ^ 53 then (2 ^ 52, ee + 1) else (mant0, ee)
  if mant < 2 ^ 52 then UInt64.ofNat mant
  else
    let biased := ee + 1075
    if biased ≥ 2047 then posInf
    else UInt64.ofNat (biased.toNat * 2 ^ 52 + (mant - 2 ^ 52))

/-- Rust `a % b` on `f64` (C `fmod`). -/
def fmod (a b : Bits) : Bits :=
  if isNaN a || isNaN b || !isFinite a || isZero b then canonNaN
  else if !isFinite b then a
  else if isZero a then a
  else
    let (ma, ea) := decodeME a
    let (mb, eb) := decodeME b
    let e := if ea ≤ eb then ea else eb
    let x := ma * 2 ^ (ea - e).toNat
    let y := mb * 2 ^ (eb - e).toNat
    let r := x % y
    withSign (isNeg a) (ofMantExp r e)

/-! ### Shortest round-trip printing (Burger–Dybvig, Rust's tie rule) -/

def shortest (f : Nat) (e : Int) (closer : Bool) : List Nat × Int := Id.run do
  let even := f % 2 == 0
  let mut r := 0; let mut s := 0; let mut mp := 0; let mut mm := 0
  if e ≥ 0 then
    let be := 2 ^ e.toNat
    if !closer then r := f * be * 2; s := 2; mp := be; mm := be
    else r := f * be * 4; s := 4; mp := be * 2; mm := be
  else
    let bne := 2 ^ (-e).toNat
    if !closer then r := f * 2; s := bne * 2; mp := 1; mm := 1
    else r := f * 4; s := bne * 4; mp := 2; mm := 1
  let tooSmall := fun (r s mp : Nat) => if even then r + mp ≥ s else r + mp > s
  let mut k : Int := 0
  let mut fuel := 400
  while fuel > 0 && tooSmall r s mp do
    s := s * 10; k := k + 1; fuel := fuel - 1
  fuel := 400
  while fuel > 0 && !(tooSmall (r*10) s (mp*10)) do
    r := r * 10; mp := mp * 10; mm := mm * 10; k := k - 1; fuel := fuel - 1
  let mut ds : Array Nat := #[]
  fuel := 800
  while fuel > 0 do
    fuel := fuel - 1
    let d := (r * 10) / s
    r := (r * 10) % s
    mp := mp * 10; mm := mm * 10
    let down := if even then r ≤ mm else r < mm
    let up := if even then r + mp ≥ s else r + mp > s
    if !down && !up then
      ds := ds.push d
    else
      let roundUp := up && (!down || r * 2 ≥ s)
      ds := ds.push (if roundUp then d + 1 else d)
      fuel := 0
  let out := ds.toList.reverse
  let mut carry := false
  let mut res : List Nat := []
  for d in out do
    let d' := if carry then d + 1 else d
    if d' ≥ 10 then res := (d' - 10) :: res; carry := true
    else res := d' :: res; carry := false
  if carry then res := 1 :: res; k := k + 1
  let stripped := (res.reverse.dropWhile (· == 0)).reverse
  return (if stripped.isEmpty then [0] else stripped, k)

def digitChar (d : Nat) : Char := Char.ofNat (48 + d)

/-- Rust `format!("{}", x)`. -/
def display (bits : Bits) : Str :=
  if isNaN bits then "NaN".toList
  else
    let neg := isNeg bits
    let mag := magnitude bits
    let body : Str :=
      if !isFinite bits then "inf".toList
      else if mag == 0 then ['0']
      else
        let ex := expField mag
        let fr := fracField mag
        let (f, e) := decodeME mag
        let closer := fr == 0 && ex > 1
        let (ds, k) := shortest f e closer
        let n := ds.length
        let dcs := ds.map digitChar
        if k ≤ 0 then '0' :: '.' :: (List.replicate (-k).toNat '0' ++ dcs)
        else if k.toNat < n then (dcs.take k.toNat) ++ ('.' :: dcs.drop k.toNat)
        else dcs ++ List.replicate (k.toNat - n) '0'
    if neg then '-' :: body else body

/-! ### Correctly rounded decimal → binary64 -/

/-- nearest-even binary64 magnitude of `N / 10^scale`. -/
def nearest (N scale : Nat) : Bits := Id.run do
  if N == 0 then return 0
  let D := 10 ^ scale
  let lb := (N.log2 : Int) - (D.log2 : Int) - 52
  let mut e : Int := lb - 2
  let q := fun (e : Int) => if e ≥ 0 then N / (D * 2 ^ e.toNat) else (N * 2 ^ (-e).toNat) / D
  let mut fuel := 8
  while fuel > 0 && q (e + 1) ≥ 2^52 do
    e := e + 1; fuel := fuel - 1
  if e < -1074 then e := -1074
  let (num, den) := if e ≥ 0 then (N, D * 2 ^ e.toNat) else (N * 2 ^ (-e).toNat, D)
  let mut m := num / den
  let rem := num % den
  if rem * 2 > den || (rem * 2 == den && m % 2 == 1) then m := m + 1
  if m == 2^53 then m := 2^52; e := e + 1
  if m < 2^52 then return UInt64.ofNat m
  let ex := e + 1075
  if ex ≥ 2047 then return posInf
  return UInt64.ofNat (ex.toNat * 2^52 + (m - 2^52))

def isAsciiDigit (c : Char) : Bool := '0' ≤ c && c ≤ '9'
def digitsVal (cs : List Char) : Nat := cs.foldl (fun a c => a * 10 + (c.toNat - 48)) 0
def lower (c : Char) : Char := if 'A' ≤ c && c ≤ 'Z' then Char.ofNat (c.toNat + 32) else c

/-- Rust `s.parse::<f64>()`: `[+-]? (inf|infinity|nan | digits [. digits] | . digits) ([eE][+-]?digits)?`. -/
def parseF64 (s : Str) : Option Bits :=
  let (neg, s) := match s with
    | '-' :: r => (true, r)
    | '+' :: r => (false, r)
    | r => (false, r)
  let low := s.map lower
  if low == "inf".toList || low == "infinity".toList then some (withSign neg posInf)
  else if low == "nan".toList then some canonNaN
  else
    let ip := s.takeWhile isAsciiDigit
    let r1 := s.dropWhile isAsciiDigit
    let (fp, r2) := match r1 with
      | '.' :: t => (t.takeWhile isAsciiDigit, t.dropWhile isAsciiDigit)
      | t => ([], t)
    if ip.isEmpty && fp.isEmpty then none
    else
      let expo : Option Int := match r2 with
        | [] => some 0
        | c :: t =>
          if c == 'e' || c == 'E' then
            let (eneg, t) := match t with
              | '-' :: u => (true, u)
              | '+' :: u => (false, u)
              | u => (false, u)
            if t.isEmpty || !t.all isAsciiDigit then none
            else
              let v : Int := (digitsVal (t.take 6) : Int)
              let v : Int := if t.length > 6 then 999999 else v
              some (if eneg then -v else v)
          else none
      match expo with
      | none => none
      | some ex =>
        let N := digitsVal (ip ++ fp)
        let sc : Int := (fp.length : Int) - ex
        let mag : Bits :=
          if N == 0 then 0
          else if sc ≤ 0 then
            if (-sc).toNat > 400 then posInf else nearest (N * 10 ^ (-sc).toNat) 0
          else if sc.toNat > (ip ++ fp).length + 400 then 0
          else nearest N sc.toNat
        some (withSign neg mag)

end Num
end Pakhi
