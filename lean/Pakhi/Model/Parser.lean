/-
  Pakhi model — parser and module loader (`src/frontend/parser.rs`).

  `Parser.tokens` + `Parser.current` is the remaining suffix `rest` plus the last consumed token
  `prev` (the only backward look the parser makes is `tokens[current - 1]`).  All positions at or
  past the end of the token vector are represented by `rest = []`: after fix F7 every read there
  sees the end marker and every `current >= len` test is true, so they are indistinguishable.
-/
import Pakhi.Model.Ast

namespace Pakhi

/-! ### Parser state -/

structure PCtx where
  mainPath : Str
  cwd : Str
  /-- the file system as seen by `read_src_code_from_file` -/
  readFile : Str → Option Str

structure PS where
  rest : List Token
  prev : Token
  /-- `parent_child_relationship` as an association list -/
  rel : List (Str × List Str)

namespace PS

def peek (s : PS) : TK := match s.rest with | t :: _ => t.kind | [] => .eot
def peek1 (s : PS) : TK := match s.rest with | _ :: t :: _ => t.kind | _ => .eot
def adv (s : PS) : PS := match s.rest with | t :: r => { s with rest := r, prev := t } | [] => s
def adv2 (s : PS) : PS := s.adv.adv

/-- `get_token_line_file_name(current)` / `extract_err_meta` -/
def metaCur (s : PS) : Res Meta :=
  match s.rest with
  | t :: _ => .ok ⟨t.line, t.file⟩
  | [] => unexpected "missing-semicolon"

/-- `get_token_line_file_name(i)` for an already consumed token -/
def metaOf (s : PS) (t : Token) : Res Meta :=
  match s.rest with
  | _ :: _ => .ok ⟨t.line, t.file⟩
  | [] => unexpected "missing-semicolon"

def metaPrev (s : PS) : Res Meta := s.metaOf s.prev

def syntaxErr {α : Type} (s : PS) (tag : String) : Res α :=
  match s.metaCur with
  | .ok m => mkErr .syntax m.line m.file tag
  | .err e => .err e
  | .panic p => .panic p
  | .fuel => .fuel

end PS

/-! ### Expressions: the precedence ladder

  Levels 0–5 are the binary levels `or, and, equality, comparison, addition, multiplication`;
  they share one loop (`pLevel`/`pLevelLoop`), exactly as the six Rust functions share one shape. -/

def levelOps : Nat → List TK
  | 0 => [.or]
  | 1 => [.and]
  | 2 => [.ne, .eqeq]
  | 3 => [.gt, .ge, .lt, .le]
  | 4 => [.plus, .minus]
  | _ => [.mul, .div, .rem]

def mkBin (k : Nat) (op : TK) (l r : Expr) (m : Meta) : Expr :=
  match k with
  | 0 => .or l r m
  | 1 => .and l r m
  | 2 => .equality op l r m
  | 3 => .comparison op l r m
  | 4 => .addsub op l r m
  | _ => .muldiv op l r m

def numLevels : Nat := 6

mutual
/-- `or()` … `multiplication()` for `k < 6`, `unary()` for `k ≥ 6` -/
def pLevel : Nat → Nat → PS → Res (Expr × PS)
  | 0, _, _ => .fuel
  | f+1, k, s =>
    if k ≥ numLevels then pUnary f s
    else
      match pLevel f (k+1) s with
      | .ok (e, s) => pLevelLoop f k e s
      | .err e => .err e
      | .panic p => .panic p
      | .fuel => .fuel

def pLevelLoop : Nat → Nat → Expr → PS → Res (Expr × PS)
  | 0, _, _, _ => .fuel
  | f+1, k, e, s =>
    if (levelOps k).contains s.peek then
      let op := s.peek
      match pLevel f (k+1) s.adv with
      | .ok (r, s) =>
        match s.metaPrev with
        | .ok m => pLevelLoop f k (mkBin k op e r m) s
        | .err e => .err e
        | .panic p => .panic p
        | .fuel => .fuel
      | .err e => .err e
      | .panic p => .panic p
      | .fuel => .fuel
    else .ok (e, s)

def pUnary : Nat → PS → Res (Expr × PS)
  | 0, _ => .fuel
  | f+1, s =>
    if s.peek == .not || s.peek == .minus then
      let op := s.peek
      match s.metaCur with
      | .ok m =>
        match pUnary f s.adv with
        | .ok (r, s) => .ok (.unary op r m, s)
        | .err e => .err e
        | .panic p => .panic p
        | .fuel => .fuel
      | .err e => .err e
      | .panic p => .panic p
      | .fuel => .fuel
    else pCall f s

def pCall : Nat → PS → Res (Expr × PS)
  | 0, _ => .fuel
  | f+1, s =>
    match pPrimary f s with
    | .ok (e, s) => pCallLoop f e s
    | .err e => .err e
    | .panic p => .panic p
    | .fuel => .fuel

def pCallLoop : Nat → Expr → PS → Res (Expr × PS)
  | 0, _, _ => .fuel
  | f+1, e, s =>
    if s.peek == .lparen then
      match pFinishCall f e s.adv with
      | .ok (e, s) => pCallLoop f e s
      | .err e => .err e
      | .panic p => .panic p
      | .fuel => .fuel
    else .ok (e, s)

/-- `finish_call`: `s` is positioned after the `(` -/
def pFinishCall : Nat → Expr → PS → Res (Expr × PS)
  | 0, _, _ => .fuel
  | f+1, callee, s =>
    match s.metaPrev with
    | .ok m =>
      if s.peek != .rparen then
        match pArgs f s with
        | .ok (args, s) => .ok (.call callee args m, s.adv)
        | .err e => .err e
        | .panic p => .panic p
        | .fuel => .fuel
      else .ok (.call callee .nil m, s.adv)
    | .err e => .err e
    | .panic p => .panic p
    | .fuel => .fuel

/-- the argument loop of `finish_call` -/
def pArgs : Nat → PS → Res (Exprs × PS)
  | 0, _ => .fuel
  | f+1, s =>
    match pLevel f 0 s with
    | .ok (e, s) =>
      if s.peek == .comma then
        match pArgs f s.adv with
        | .ok (es, s) => .ok (.cons e es, s)
        | .err e => .err e
        | .panic p => .panic p
        | .fuel => .fuel
      else .ok (.cons e .nil, s)
    | .err e => .err e
    | .panic p => .panic p
    | .fuel => .fuel

def pPrimary : Nat → PS → Res (Expr × PS)
  | 0, _ => .fuel
  | f+1, s =>
    match s.rest with
    | [] => s.syntaxErr "unexpected-token"
    | t :: _ =>
      match t.kind with
      | .bool b =>
        let s := s.adv
        match s.metaPrev with
        | .ok m => .ok (.bool b m, s)
        | .err e => .err e | .panic p => .panic p | .fuel => .fuel
      | .num n =>
        let s := s.adv
        match s.metaPrev with
        | .ok m => .ok (.num n m, s)
        | .err e => .err e | .panic p => .panic p | .fuel => .fuel
      | .str v =>
        let s := s.adv
        match s.metaPrev with
        | .ok m => .ok (.str v m, s)
        | .err e => .err e | .panic p => .panic p | .fuel => .fuel
      | .ident =>
        pIndexLoop f (.var t ⟨t.line, t.file⟩) s.adv
      | .lparen =>
        match pLevel f 0 s.adv with
        | .ok (e, s) =>
          let s := s.adv
          match s.metaOf t with
          | .ok m => .ok (.group e m, s)
          | .err e => .err e | .panic p => .panic p | .fuel => .fuel
        | .err e => .err e | .panic p => .panic p | .fuel => .fuel
      | .lsq =>
        match pListElems f s.adv with
        | .ok (es, s) =>
          -- the loop only ends at `]`
          let s := s.adv
          match s.metaOf t with
          | .ok m => .ok (.list es m, s)
          | .err e => .err e | .panic p => .panic p | .fuel => .fuel
        | .err e => .err e | .panic p => .panic p | .fuel => .fuel
      | .at =>
        let s := s.adv
        if s.peek != .lcurly then s.syntaxErr "expected-curly-after-at"
        else
          match pRecordElems f s.adv with
          | .ok (ks, vs, s) =>
            let s := s.adv
            match s.metaOf t with
            | .ok m => .ok (.record ks vs m, s)
            | .err e => .err e | .panic p => .panic p | .fuel => .fuel
          | .err e => .err e | .panic p => .panic p | .fuel => .fuel
      | _ => s.syntaxErr "unexpected-token"

/-- `arr[1][2]…` after an identifier -/
def pIndexLoop : Nat → Expr → PS → Res (Expr × PS)
  | 0, _, _ => .fuel
  | f+1, e, s =>
    match s.rest with
    | [] => .ok (e, s)
    | t :: _ =>
      if t.kind == .lsq then
        match pLevel f 0 s.adv with
        | .ok (i, s) =>
          if s.peek != .rsq then s.syntaxErr "expected-rsq"
          else
            let s := s.adv
            match s.metaOf t with
            | .ok m => pIndexLoop f (.indexing e i m) s
            | .err e => .err e | .panic p => .panic p | .fuel => .fuel
        | .err e => .err e | .panic p => .panic p | .fuel => .fuel
      else .ok (e, s)

/-- `while kind != ']' { expression; optional ',' }` -/
def pListElems : Nat → PS → Res (Exprs × PS)
  | 0, _ => .fuel
  | f+1, s =>
    if s.peek == .rsq then .ok (.nil, s)
    else
      match pLevel f 0 s with
      | .ok (e, s) =>
        let s := if s.peek == .comma then s.adv else s
        match pListElems f s with
        | .ok (es, s) => .ok (.cons e es, s)
        | .err e => .err e | .panic p => .panic p | .fuel => .fuel
      | .err e => .err e | .panic p => .panic p | .fuel => .fuel

/-- `while kind != '}' { key -> value; optional ',' }` -/
def pRecordElems : Nat → PS → Res (Exprs × Exprs × PS)
  | 0, _ => .fuel
  | f+1, s =>
    if s.peek == .rcurly then .ok (.nil, .nil, s)
    else
      match pLevel f 0 s with
      | .ok (k, s) =>
        if s.peek != .map then s.syntaxErr "expected-map"
        else
          match pLevel f 0 s.adv with
          | .ok (v, s) =>
            let s := if s.peek == .comma then s.adv else s
            match pRecordElems f s with
            | .ok (ks, vs, s) => .ok (.cons k ks, .cons v vs, s)
            | .err e => .err e | .panic p => .panic p | .fuel => .fuel
          | .err e => .err e | .panic p => .panic p | .fuel => .fuel
      | .err e => .err e | .panic p => .panic p | .fuel => .fuel
end

/-- fuel that always suffices for one expression over `n` remaining tokens -/
def exprFuel (n : Nat) : Nat := 16 * n + 32

/-- `expression()` -/
def pExpr (s : PS) : Res (Expr × PS) := pLevel (exprFuel s.rest.length) 0 s

/-! ### Module loader -/

/-- tokens from offset 3 of an import statement (`মডিউল name = ⟨here⟩ …`): the joined path and
    the offset (within this list) of the terminating `;` -/
def importPathLoop : Nat → List Token → Str → Nat → Res (Str × Nat)
  | 0, _, _, _ => .fuel
  | f+1, toks, acc, i =>
    match toks with
    | [] => unexpected "missing-semicolon"
    | t :: r =>
      match t.kind with
      | .semi => .ok (acc, i)
      | .str p => importPathLoop f r (pathJoin acc p) (i + 1)
      | .plus => importPathLoop f r acc (i + 1)
      | _ => mkErr .syntax t.line t.file "module-path-not-literal"

def importPathTail (toks : List Token) : Res (Str × Nat) :=
  match toks with
  | [] => unexpected "missing-semicolon"
  | t :: r =>
    match t.kind with
    | .str p => importPathLoop (r.length + 1) r p 1
    | _ => mkErr .syntax t.line t.file "module-path-not-literal"

/-- `extract_all_import_paths` -/
def allImportPaths : List Token → Res (List Str)
  | [] => .ok []
  | t :: r =>
    if t.kind == .import then
      match importPathTail (r.drop 2) with
      | .ok (p, _) =>
        match allImportPaths r with
        | .ok ps => .ok (p :: ps)
        | .err e => .err e | .panic q => .panic q | .fuel => .fuel
      | .err e => .err e | .panic q => .panic q | .fuel => .fuel
    else allImportPaths r

def relGet (rel : List (Str × List Str)) (k : Str) : Option (List Str) :=
  (rel.find? (·.1 == k)).map (·.2)

def relSet (rel : List (Str × List Str)) (k : Str) (v : List Str) : List (Str × List Str) :=
  if rel.any (·.1 == k) then rel.map (fun p => if p.1 == k then (k, v) else p) else rel ++ [(k, v)]

def addNew (old new : List Str) : List Str :=
  new.foldl (fun acc c => if acc.contains c then acc else acc ++ [c]) old

/-- depth-first search of `child_that_imports_back` -/
def reachLoop (rel : List (Str × List Str)) (target : Str) : Nat → List Str → List Str → Bool
  | 0, _, _ => false
  | _+1, [], _ => false
  | f+1, m :: stack, visited =>
    if m == target then true
    else if visited.contains m then reachLoop rel target f stack visited
    else reachLoop rel target f ((relGet rel m).getD [] ++ stack) (m :: visited)

def relSize (rel : List (Str × List Str)) : Nat :=
  rel.foldl (fun n p => n + p.2.length + 1) 1

def importsBack (rel : List (Str × List Str)) (m : Str) : Bool :=
  let fuel := (relSize rel + 1) * (relSize rel + 1)
  ((relGet rel m).getD []).any (fun c => reachLoop rel m fuel [c] [])

/-- a relative location is taken relative to the current directory -/
def absPath (ctx : PCtx) (fileLoc : Str) : Str :=
  match fileLoc with
  | '/' :: _ => fileLoc
  | _ => pathJoin ctx.cwd fileLoc

def dirWithSlash (ctx : PCtx) (fileLoc : Str) : Res Str :=
  match pathParent (absPath ctx fileLoc) with
  | none => .panic "parser.rs:expand_dirname_constant parent().unwrap()"
  | some d => .ok (if endsWith d ['/'] then d else d ++ ['/'])

/-- `expand_dirname_constant` -/
def expandDirname (ctx : PCtx) (toks : List Token) (fileLoc : Str) : Res (List Token) :=
  if toks.any (fun t => t.kind == .ident && t.lexeme == dirnameConst) then
    match dirWithSlash ctx fileLoc with
    | .ok d => .ok (toks.map (fun t =>
        if t.kind == .ident && t.lexeme == dirnameConst then { t with kind := .str d, lexeme := d } else t))
    | .err e => .err e | .panic p => .panic p | .fuel => .fuel
  else .ok toks

/-- `prepend_with_import_name` (after fix F9) -/
def prependName (toks : List Token) (name : Str) : List Token :=
  toks.map (fun t =>
    if t.kind == .ident && !isBuiltin t.lexeme && t.lexeme != platformConst
    then { t with lexeme := name ++ ('/' :: t.lexeme) } else t)

/-- `get_tokens_from_module` -/
def moduleTokens (ctx : PCtx) (path : Str) (name : Str) : Res (List Token) :=
  match pathParent ctx.mainPath with
  | none => .panic "parser.rs:get_tokens_from_module parent().unwrap()"
  | some root =>
    let final := pathJoin root path
    match ctx.readFile final with
    | none => mkErr .runtime 0 [] "error-opening-file"
    | some src =>
      match tokenize src final with
      | .ok toks =>
        match expandDirname ctx toks final with
        | .ok toks => .ok (prependName toks name)
        | .err e => .err e | .panic p => .panic p | .fuel => .fuel
      | .err e => .err e | .panic p => .panic p | .fuel => .fuel

/-- `named_module_import`: `s.rest` starts at the module-name identifier -/
def namedModuleImport (ctx : PCtx) (s : PS) (name : Str) : Res PS :=
  match importPathTail (s.rest.drop 2) with
  | .err e => .err e | .panic p => .panic p | .fuel => .fuel
  | .ok (path, off) =>
    -- `self.current = semicolon_index`
    let k := 2 + off
    let before := s.rest.take k
    let s1 : PS := { s with rest := s.rest.drop k, prev := (before.getLast?).getD s.prev }
    if !endsWith path W.extPakhi then s1.syntaxErr "not-a-module-file-name"
    else
      match moduleTokens ctx path name with
      | .err e => .err e | .panic p => .panic p | .fuel => .fuel
      | .ok imported =>
        match allImportPaths imported with
        | .err e => .err e | .panic p => .panic p | .fuel => .fuel
        | .ok childs =>
          let rel := relSet s1.rel path (addNew ((relGet s1.rel path).getD []) childs)
          if importsBack rel path then mkErr .runtime 0 [] "cyclic-module-dependency"
          else
            match s1.rest with
            | semi :: tail =>
              .ok { s1 with rest := semi :: (imported.filter (·.kind != .eot) ++ tail), rel := rel }
            | [] => .ok { s1 with rel := rel }

/-! ### Statements -/

def assignStmt (s : PS) : Res (Stmt × PS) :=
  match s.metaCur with
  | .err e => .err e | .panic p => .panic p | .fuel => .fuel
  | .ok m =>
    let s := s.adv
    match s.rest with
    | [] => s.syntaxErr "expected-identifier"
    | v :: _ =>
      if v.kind != .ident then s.syntaxErr "expected-identifier"
      else
        let s := s.adv
        let r : Res (Stmt × PS) :=
          if s.peek == .semi then
            .ok (.assign { kind := .first, var := v, indexes := [], init := none } m, s)
          else
            match pExpr s.adv with
            | .ok (e, s) => .ok (.assign { kind := .first, var := v, indexes := [], init := some e } m, s)
            | .err e => .err e | .panic p => .panic p | .fuel => .fuel
        match r with
        | .ok (st, s) =>
          if s.peek != .semi then
            match s.rest with
            | [] => unexpected "unexpected-error"
            | _ :: _ => mkErr .syntax s.prev.line s.prev.file "expected-semicolon"
          else .ok (st, s.adv)
        | .err e => .err e | .panic p => .panic p | .fuel => .fuel

/-- the index loop of `re_assignment_stmt` -/
def reassignIndexes : Nat → PS → Res (List Expr × PS)
  | 0, _ => .fuel
  | f+1, s =>
    if s.peek == .eq then .ok ([], s)
    else
      match pExpr s with
      | .ok (ix, s) =>
        match ix with
        | .list _ _ =>
          match reassignIndexes f s with
          | .ok (ixs, s) => .ok (ix :: ixs, s)
          | .err e => .err e | .panic p => .panic p | .fuel => .fuel
        | _ => s.syntaxErr "array-index-expected"
      | .err e => .err e | .panic p => .panic p | .fuel => .fuel

def exprStmt (s : PS) : Res (Stmt × PS) :=
  match s.metaCur with
  | .ok m =>
    match pExpr s with
    | .ok (e, s) => .ok (.expr e m, s)
    | .err e => .err e | .panic p => .panic p | .fuel => .fuel
  | .err e => .err e | .panic p => .panic p | .fuel => .fuel

def reassignOrCallStmt (s : PS) : Res (Stmt × PS) :=
  match s.metaCur with
  | .err e => .err e | .panic p => .panic p | .fuel => .fuel
  | .ok m =>
    if s.peek1 == .lparen then
      match pExpr s with
      | .ok (e, s) => .ok (.expr e m, s)
      | .err e => .err e | .panic p => .panic p | .fuel => .fuel
    else if s.peek1 != .eq && s.peek1 != .lsq then exprStmt s
    else
      match s.rest with
      | [] => .panic "parser.rs:re_assignment_stmt"
      | v :: _ =>
        match reassignIndexes (s.rest.length + 1) s.adv with
        | .err e => .err e | .panic p => .panic p | .fuel => .fuel
        | .ok (ixs, s) =>
          -- the loop only ends at `=`
          match pExpr s.adv with
          | .ok (e, s) => .ok (.assign { kind := .re, var := v, indexes := ixs, init := some e } m, s.adv)
          | .err e => .err e | .panic p => .panic p | .fuel => .fuel

def printStmt (noEol : Bool) (s : PS) : Res (Stmt × PS) :=
  match s.metaCur with
  | .ok m =>
    match pExpr s.adv with
    | .ok (e, s) => .ok (if noEol then .printNoEOL e m else .print e m, s.adv)
    | .err e => .err e | .panic p => .panic p | .fuel => .fuel
  | .err e => .err e | .panic p => .panic p | .fuel => .fuel

/-- `func_def_stmt`, `block_start`, `block_end`, `loop_stmt`, `else_statement`:
    consume one token, then read its line -/
def oneTokenStmt (mk : Meta → Stmt) (s : PS) : Res (Stmt × PS) :=
  let s := s.adv
  match s.metaPrev with
  | .ok m => .ok (mk m, s)
  | .err e => .err e | .panic p => .panic p | .fuel => .fuel

def returnStmt (s : PS) : Res (Stmt × PS) :=
  match s.metaCur with
  | .ok m =>
    let s := s.adv
    if s.peek != .semi then
      match pExpr s with
      | .ok (e, s) => .ok (.ret e m, s.adv)
      | .err e => .err e | .panic p => .panic p | .fuel => .fuel
    else .ok (.ret (.nil m) m, s.adv)
  | .err e => .err e | .panic p => .panic p | .fuel => .fuel

def ifStmt (s : PS) : Res (Stmt × PS) :=
  match pExpr s.adv with
  | .ok (c, s) =>
    match s.metaPrev with
    | .ok m => .ok (.if c m, s)
    | .err e => .err e | .panic p => .panic p | .fuel => .fuel
  | .err e => .err e | .panic p => .panic p | .fuel => .fuel

/-- `statements()`; recursion only through comments and module imports -/
def pStatement (ctx : PCtx) : Nat → PS → Res (Stmt × PS)
  | 0, _ => .fuel
  | f+1, s =>
    match s.rest with
    | [] => unexpected "missing-semicolon"
    | t :: _ =>
      match t.kind with
      | .print => printStmt false s
      | .printNoEOL => printStmt true s
      | .kVar => assignStmt s
      | .ident => reassignOrCallStmt s
      | .lcurly => oneTokenStmt .blockStart s
      | .rcurly => oneTokenStmt .blockEnd s
      | .kIf => ifStmt s
      | .kElse => oneTokenStmt .else s
      | .kLoop => oneTokenStmt .loop s
      | .cont => .ok (.cont ⟨t.line, t.file⟩, s.adv2)
      | .brk => .ok (.brk ⟨t.line, t.file⟩, s.adv2)
      | .kFunc => oneTokenStmt .funcDef s
      | .ret => returnStmt s
      | .comment => pStatement ctx f s.adv
      | .import =>
        let s := s.adv
        match s.rest with
        | n :: _ =>
          if n.kind == .ident then
            match namedModuleImport ctx s n.lexeme with
            | .ok s => pStatement ctx f s.adv
            | .err e => .err e | .panic p => .panic p | .fuel => .fuel
          else s.syntaxErr "expected-module-name"
        | [] => s.syntaxErr "expected-module-name"
      | .eot => .ok (.eos ⟨t.line, t.file⟩, s)
      | _ => s.syntaxErr "unexpected-token"

/-- the loop of `Parser::parse`; `acc` is reversed -/
def parseLoop (ctx : PCtx) : Nat → PS → List Stmt → Res (List Stmt)
  | 0, _, _ => .fuel
  | f+1, s, acc =>
    match pStatement ctx f s with
    | .err e => .err e | .panic p => .panic p | .fuel => .fuel
    | .ok (st, s) =>
      match st with
      | .eos _ => .ok (st :: acc).reverse
      | _ =>
        match s.rest with
        | [] => unexpected "expected-semicolon-at-last-line"
        | t :: _ =>
          if t.kind == .semi then parseLoop ctx f s.adv (st :: acc)
          else parseLoop ctx f s (st :: acc)

/-- `parser::parse(main_module_path, tokens)` -/
def parse (ctx : PCtx) (fuel : Nat) (toks : List Token) : Res (List Stmt) :=
  match pathFileName ctx.mainPath with
  | none => .panic "parser.rs:extract_filename file_name().unwrap()"
  | some rootName =>
    match allImportPaths toks with
    | .err e => .err e | .panic p => .panic p | .fuel => .fuel
    | .ok childs =>
      match expandDirname ctx toks ctx.mainPath with
      | .err e => .err e | .panic p => .panic p | .fuel => .fuel
      | .ok toks =>
        parseLoop ctx fuel { rest := toks, prev := default, rel := [(rootName, childs)] } []

end Pakhi
