import Pakhi.Model.Interp
import Pakhi.Model.Parser
