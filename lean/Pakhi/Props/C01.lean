/-
  C01 — expressions evaluate to the value their operator tree denotes.

  (b) the complete operator/type table: for every operator family and *every* pair of runtime
      types (payloads symbolic, so this is the whole table and not a sample): numbers use the IEEE
      operation (`%` is the truncated remainder `Num.fmod`), `+` concatenates two strings and
      allocates a fresh list for two lists, `== !=` are by value on scalars, by arena index on
      containers and false across types, every other combination is a type error located at the
      left operand;
  (c) a group evaluates to what its content evaluates to; the operator sets of the precedence
      levels are pairwise disjoint.
  (a) the parser half, shape: `parsed_expressions_are_ladders` — every expression of every program the parser returns
      sits on the precedence ladder `| < & < == != < < > <= >= < + - < * / % < unary ! - < call/index < primary`: under a
      binary node of level k the left operand has level ≥ k (left associativity), the right operand level > k, the
      operator belongs to level k; unary operators apply to operands tighter than every binary level; anything looser
      occurs only inside parentheses, brackets, braces or argument lists.  The other half — the tree is a parse *of the tokens in source order* — is
      `expression_yields_its_tokens`: the tokens the expression parser consumes, read left to right, are exactly the
      leaves, operators and brackets of the tree it returns in order (`Yields`, a relation rather than a function because
      commas between list and record elements are optional and the token closing a group or an argument list is consumed
      without inspection).  Shape (ladder) and yield together fix the parse.
-/
import Pakhi.Model.Interp
import Pakhi.Model.Parser
import Pakhi.Lemmas.Ladder
import Pakhi.Lemmas.Yield
namespace Pakhi
namespace C01


def isTypeErr {α} (r : Res α) (m : Meta) : Prop := ∃ e, r = .err e ∧ e.cls = .type ∧ e.line = m.line ∧ e.file = m.file

/-- `+ -` : numbers add/subtract (IEEE), `+` concatenates two strings -/
theorem addSub_num (m : Meta) (a b : Num.Bits) (h : Heap) :
    addSub .plus m (.num a) (.num b) h = .ok (.num (Num.fadd a b), h) ∧
    addSub .minus m (.num a) (.num b) h = .ok (.num (Num.fsub a b), h) := by simp [addSub]

theorem addSub_str (m : Meta) (a b : Str) (h : Heap) :
    addSub .plus m (.str a) (.str b) h = .ok (.str (a ++ b), h) ∧ isTypeErr (addSub .minus m (.str a) (.str b) h) m := by
  simp [addSub, isTypeErr, metaErr, mkErr]

/-- `+` on two lists allocates a new list holding the concatenation -/
theorem addSub_list (m : Meta) (i j : Nat) (a b : List Val) (h : Heap) (hi : h.lists[i]? = some a) (hj : h.lists[j]? = some b) :
    addSub .plus m (.list i) (.list j) h = .ok (h.allocList (a ++ b)) ∧ isTypeErr (addSub .minus m (.list i) (.list j) h) m := by
  simp [addSub, hi, hj, isTypeErr, metaErr, mkErr]

/-- every other operand combination of `+ -` is a type error at the left operand's line -/
theorem addSub_type_error (op : TK) (m : Meta) (l r : Val) (h : Heap)
    (hmix : ¬ (l.isNum ∧ r.isNum) ∧ ¬ (l.isStr ∧ r.isStr) ∧ ¬ (l.isList ∧ r.isList)) :
    isTypeErr (addSub op m l r h) m := by
  cases l <;> cases r <;> simp_all [addSub, isTypeErr, metaErr, mkErr, Val.isNum, Val.isStr, Val.isList]

/-- `* / %` : IEEE product, quotient and truncated remainder on numbers, type error otherwise -/
theorem mulDiv_table (op : TK) (m : Meta) (l r : Val) :
    (∀ a b, l = .num a → r = .num b →
        mulDiv .mul m l r = .ok (.num (Num.fmul a b)) ∧ mulDiv .div m l r = .ok (.num (Num.fdiv a b)) ∧
        mulDiv .rem m l r = .ok (.num (Num.fmod a b))) ∧
    (¬ (l.isNum ∧ r.isNum) → isTypeErr (mulDiv op m l r) m) := by
  constructor
  · intro a b hl hr; subst hl hr; simp [mulDiv]
  · intro h; cases l <;> cases r <;> simp_all [mulDiv, isTypeErr, metaErr, mkErr, Val.isNum]

/-- `< <= > >=` compare numbers (IEEE), type error otherwise -/
theorem compare_table (op : TK) (m : Meta) (l r : Val) :
    (∀ a b, l = .num a → r = .num b →
        compare .lt m l r = .ok (.bool (Num.flt a b)) ∧ compare .le m l r = .ok (.bool (Num.fle a b)) ∧
        compare .gt m l r = .ok (.bool (Num.flt b a)) ∧ compare .ge m l r = .ok (.bool (Num.fle b a))) ∧
    (¬ (l.isNum ∧ r.isNum) → isTypeErr (compare op m l r) m) := by
  constructor
  · intro a b hl hr; subst hl hr; simp [compare]
  · intro h; cases l <;> cases r <;> simp_all [compare, isTypeErr, metaErr, mkErr, Val.isNum]

/-- `& |` on booleans, type error otherwise -/
theorem andOr_table (isAnd : Bool) (m : Meta) (l r : Val) :
    (∀ a b, l = .bool a → r = .bool b → andOr true m l r = .ok (.bool (b && a)) ∧ andOr false m l r = .ok (.bool (b || a))) ∧
    (¬ (l.isBool ∧ r.isBool) → isTypeErr (andOr isAnd m l r) m) := by
  constructor
  · intro a b hl hr; subst hl hr; simp [andOr]
  · intro h; cases l <;> cases r <;> simp_all [andOr, isTypeErr, metaErr, mkErr, Val.isBool]

/-- `== !=` never fail; across types the answer is false / true -/
theorem equality_total (m : Meta) (l r : Val) :
    equality .eqeq m l r = .ok (.bool (valEq l r)) ∧ equality .ne m l r = .ok (.bool (!valEq l r)) := by
  simp [equality]


theorem valEq_cross_type (l r : Val) (h : l.kind ≠ r.kind) : valEq l r = false := by
  cases l <;> cases r <;> simp_all [valEq, Val.kind]

/-- scalars compare by value, containers by identity (arena index) -/
theorem valEq_same_type :
    (∀ a b, valEq (.num a) (.num b) = Num.feq a b) ∧ (∀ a b : Bool, valEq (.bool a) (.bool b) = (a == b)) ∧
    (∀ a b : Str, valEq (.str a) (.str b) = (a == b)) ∧ (∀ i j : Nat, valEq (.list i) (.list j) = (i == j)) ∧
    (∀ i j : Nat, valEq (.record i) (.record j) = (i == j)) ∧ valEq .nil .nil = true := by
  simp [valEq]

/-- unary `-` on numbers, `!` on booleans, type error otherwise -/
theorem unary_table (op : TK) (m : Meta) (v : Val) :
    (∀ n, unaryOp .minus m (.num n) = .ok (.num (Num.fnegMul n))) ∧ (∀ b, unaryOp .not m (.bool b) = .ok (.bool !b)) ∧
    (¬ (op = .minus ∧ v.isNum) ∧ ¬ (op = .not ∧ v.isBool) → isTypeErr (unaryOp op m v) m) := by
  refine ⟨by simp [unaryOp], by simp [unaryOp], ?_⟩
  intro h
  cases v <;> simp_all [unaryOp, isTypeErr, metaErr, mkErr, Val.isNum, Val.isBool]
  all_goals (split <;> simp_all)

/-- the operator sets of the six binary levels are pairwise disjoint: the ladder is well defined -/
theorem levelOps_disjoint : ∀ i, i < 6 → ∀ j, j < 6 → i ≠ j → ∀ op ∈ levelOps i, op ∉ levelOps j := by
  have key : ∀ i ∈ List.range 6, ∀ j ∈ List.range 6, i ≠ j → ∀ op ∈ levelOps i, op ∉ levelOps j := by decide
  intro i hi j hj hne
  exact key i (by simpa using hi) j (by simpa using hj) hne

/-- parentheses do not change the value: a group evaluates to what its content evaluates to -/
theorem eval_group (prog : List Stmt) (f : Nat) (cur : List Stmt) (e : Expr) (m : Meta) (s : St) :
    eval prog (f+1) cur (.group e m) s = eval prog f cur e s := by
  simp [eval]
/-- **the parser respects precedence and associativity** (see the header, item (a)) -/
theorem parsed_expressions_are_ladders (ctx : PCtx) (fuel : Nat) (toks : List Token) (prog : List Stmt)
    (h : parse ctx fuel toks = .ok prog) : progLadder prog = true := parse_ladder ctx fuel toks prog h

/-- what the ladder says at a `+`/`-` node: the left operand is `+ - * / %`-or-tighter, the right one `* / %`-or-tighter -/
theorem ladder_addsub (op : TK) (l r : Expr) (m : Meta) (h : (Expr.addsub op l r m).ladder = true) :
    4 ≤ l.level ∧ 5 ≤ r.level ∧ (op = .plus ∨ op = .minus) ∧ l.ladder = true ∧ r.ladder = true := by
  simp only [Expr.ladder, Bool.and_eq_true, decide_eq_true_eq] at h
  obtain ⟨⟨⟨⟨h1, h2⟩, h3⟩, h4⟩, h5⟩ := h
  refine ⟨h3, h4, ?_, h1, h2⟩
  simp [levelOps] at h5
  rcases h5 with h5 | h5 <;> simp [h5]

/-- **the tree is a parse of the consumed tokens, in order**: whatever `expression()` returns from a parser state yields
    exactly the tokens between that state and the state it stops in -/
theorem expression_yields_its_tokens (s : PS) (e : Expr) (s' : PS) (h : pExpr s = .ok (e, s')) :
    ∃ ts, s.rest = ts ++ s'.rest ∧ Yields e ts := pExpr_yields h

/-- what the yield says at a `+`/`-` node: left operand's tokens, then the operator token, then the right operand's -/
theorem yields_addsub (op : TK) (l r : Expr) (m : Meta) (ts : List Token) (h : Yields (.addsub op l r m) ts) :
    ∃ a t b, ts = a ++ t :: b ∧ t.kind = op ∧ Yields l a ∧ Yields r b := by
  cases h with
  | addsub hk hl hr => exact ⟨_, _, _, rfl, hk, hl, hr⟩

/-- non-vacuity: the tokens `৫ + ২` (kinds only) are yielded by the tree `addsub + 5 2` -/
example (n5 n2 : Num.Bits) :
    Yields (.addsub .plus (.num n5 default) (.num n2 default) default)
      [⟨.num n5, [], 1, []⟩, ⟨.plus, [], 1, []⟩, ⟨.num n2, [], 1, []⟩] :=
  Yields.addsub (a := [_]) (b := [_]) rfl (.num rfl) (.num rfl)

/-- non-vacuity: `1 + 2 * 3` as the parser builds it is a ladder, `(1 + 2) * 3` without its group node is not -/
example : (Expr.addsub .plus (.num 0 default) (.muldiv .mul (.num 0 default) (.num 0 default) default) default).ladder = true := by decide
example : (Expr.muldiv .mul (.addsub .plus (.num 0 default) (.num 0 default) default) (.num 0 default) default).ladder = false := by decide

end C01
end Pakhi
