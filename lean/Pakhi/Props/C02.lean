/-
  C02 — an if / else-if / else chain runs exactly one branch, in any context.

  Theorems about the flat machine on `flatten` of ARBITRARY structured code, with the rest of the
  machine state (scopes, heap, enclosing loops, the flags below the top — i.e. every execution
  history) universally quantified:
  * a `যদি` with a true condition pushes `true` and enters its block, with a false condition it
    skips exactly its block — whatever is nested inside — and leaves `false` on top only when an
    `অথবা` follows, a non-boolean condition is a runtime error at the condition's line;
  * an `অথবা` whose chain has not run yet (top flag `false`) pops the flag and enters the branch;
  * `rest_of_chain_skipped`: once a branch has run, ALL remaining branches are skipped without
    evaluating any condition, execution resumes after the whole chain and the flag is popped exactly
    once — this is the statement the fix F11 made true (the pinned code popped twice).
  The composition over the *execution of the taken block* (which may leak `true` flags, contain
  loops, calls, returns …) is closed by the refinement of `Lemmas/Refine.lean` + `Lemmas/FrameInv.lean`:
  `chain_anywhere` — for a structured program, any driver (top level / inside a call), any
  continuation, any enclosing loop and ANY flag stack, the flat run in front of a chain decomposes
  exactly along the structured meaning of the chain, which is (`chain_true`, `chain_false`,
  `chain_nonbool`, `tail_*`): conditions in order, the block of the first true one, else the final
  `অথবা` block, else nothing — and `whole_program` says a collection-free run IS that meaning;
  `whole_program_any_gc` extends this to runs under any collection schedule (through `C07.gc_invisible`).
  Hypothesis of these theorems: the program is the flattening of a tree (`Structured`), which the
  check establishes per generated program by `unflatten` (see `Spec/Unflatten.lean`).
-/
import Pakhi.Lemmas.Control
import Pakhi.Lemmas.FrameInv
import Pakhi.Lemmas.Unflatten
import Pakhi.Lemmas.ParseWF
import Pakhi.Lemmas.GcInvisible

namespace Pakhi
namespace C02

/-- a true condition: `true` is pushed and the block is entered -/
theorem if_true (prog : List Stmt) (f : Nat) (c : Expr) (m : Meta) (rest : List Stmt) (s s1 : St)
    (hc : eval prog f rest c s = .ok (.bool true, s1)) :
    exec prog (f+1) (.if c m :: rest) s = .ok (rest, { s1 with flags := true :: s1.flags }) := by
  simp [exec, hc]

/-- a false condition: exactly the block is skipped; `false` stays on top only if an `অথবা` follows -/
theorem if_false (prog : List Stmt) (f : Nat) (c : Expr) (m : Meta) (body : SBlock) (r : List Stmt) (s s1 : St)
    (hb : body.WF) (hc : eval prog f (body.flatten ++ r) c s = .ok (.bool false, s1)) :
    exec prog (f+1) (.if c m :: (body.flatten ++ r)) s =
      (match r with
       | .else _ :: _ => .ok (r, { s1 with flags := false :: s1.flags })
       | _ => .ok (r, s1)) := by
  have hs : skipBlock (body.flatten ++ r) 0 = .ok r := skipBlock_whole_block body r hb
  simp only [exec, hc, skipBlockInIf, hs]
  cases r with
  | nil => simp [Res.tagOut]
  | cons st t => cases st <;> simp [Res.tagOut]

/-- a non-boolean condition is a runtime error located at the condition -/
theorem if_non_boolean (prog : List Stmt) (f : Nat) (c : Expr) (m : Meta) (rest : List Stmt) (s s1 : St) (v : Val)
    (hc : eval prog f rest c s = .ok (v, s1)) (hv : ∀ b, v ≠ .bool b) :
    ∃ e, exec prog (f+1) (.if c m :: rest) s = .err e ∧ e.cls = .runtime ∧ e.line = c.meta.line ∧ e.file = c.meta.file := by
  cases v <;> first | exact absurd rfl (hv _) | simp [exec, hc, metaErr, mkErr, Res.tagOut]

/-- no branch has run yet (top flag `false`): the `অথবা` pops the flag and enters its branch, which is
    a block for a final else and a `যদি` for an else-if (whose condition is then evaluated: in order) -/
theorem else_enters (prog : List Stmt) (f : Nat) (em : Meta) (rest : List Stmt) (s : St) (fl : List Bool)
    (hf : s.flags = false :: fl) :
    exec prog (f+1) (.else em :: rest) s = .ok (rest, { s with flags := fl }) := by
  simp [exec, hf]

/-- a branch has run (top flag `true`): the branch is skipped, conditions are not evaluated -/
theorem else_skips (prog : List Stmt) (f : Nat) (em : Meta) (body : SBlock) (r : List Stmt) (s : St) (fl : List Bool)
    (hb : body.WF) (hf : s.flags = true :: fl) :
    (∀ c m, exec prog (f+1) (.else em :: .if c m :: (body.flatten ++ r)) s =
      (match r with | .else _ :: _ => .ok (r, s) | _ => .ok (r, { s with flags := fl }))) ∧
    exec prog (f+1) (.else em :: (body.flatten ++ r)) s =
      (match r with | .else _ :: _ => .ok (r, s) | _ => .ok (r, { s with flags := fl })) :=
  ⟨fun c m => else_skips_elseIf prog f em m c body r s fl hb hf, else_skips_else prog f em body r s fl hb hf⟩

/-- after a taken branch the rest of the chain is skipped as a whole, for every chain length and every
    content of the branches, in any state -/
theorem rest_of_chain_skipped (prog : List Stmt) (f : Nat) (tail : STail) (r : List Stmt) (s : St) (fl : List Bool)
    (hw : tail.WF) (hr : notElse r) (hf : s.flags = true :: fl) :
    ∃ n, execN prog (f+1) n (tail.flatten ++ r) s = .ok (r, afterTail tail s fl) :=
  Pakhi.rest_of_chain_skipped prog f tail r s fl hw hr hf

/-- a skipped block is skipped whole, whatever chains, loops, blocks and function definitions it contains -/
theorem skipped_block_is_skipped_whole (b : SBlock) (r : List Stmt) (h : b.WF) : skipBlock (b.flatten ++ r) 0 = .ok r :=
  skipBlock_whole_block b r h

/-- an `অথবা` with no pending conditional is a located runtime error (it used to be an assertion failure) -/
theorem stray_else (prog : List Stmt) (f : Nat) (em : Meta) (rest : List Stmt) (s : St) (hf : s.flags = []) :
    ∃ e, exec prog (f+1) (.else em :: rest) s = .err e ∧ e.cls = .runtime ∧ e.line = em.line := by
  simp [exec, hf, stmtErr, mkErr, Res.tagOut, Stmt.meta]

/-- non-vacuity: the nested chain on which the pinned code panicked is an instance
    (`যদি সত্য { যদি সত্য {A} অথবা {C} } অথবা {D}`: after the inner chain the outer tail is skipped) -/
example : (STail.else ⟨1, []⟩ (.mk ⟨1, []⟩ (.cons (.simple (.print (.str ['D'] ⟨1, []⟩) ⟨1, []⟩)) .nil) ⟨1, []⟩)).WF ∧ notElse [] := by
  simp [STail.WF, SBlock.WF, SList.WF, SStmt.WF, Stmt.isSimple, notElse]


/-! ### the chain as a whole (refinement) -/

/-- meaning of a chain whose first condition is true: that block, nothing of the tail -/
theorem chain_true (prog : List Stmt) (G : Nat) (c : Expr) (m : Meta) (body : SBlock) (tail : STail) (k : List Stmt) (s s1 : St)
    (h : eval prog G (body.flatten ++ (tail.flatten ++ k)) c s = .ok (.bool true, s1)) :
    sStmt prog G (.ifChain c m body tail) k s =
      (sBlock prog G body (tail.flatten ++ k) { s1 with flags := true :: s1.flags }).bind fun y =>
        match y.1 with
        | .normal => .ok (.normal, popFlagIf tail y.2)
        | sig => .ok (sig, y.2) := by
  simp only [sStmt, h]; rfl

/-- … false: the meaning of the rest of the chain (its block is not run) -/
theorem chain_false (prog : List Stmt) (G : Nat) (c : Expr) (m : Meta) (body : SBlock) (tail : STail) (k : List Stmt) (s s1 : St)
    (h : eval prog G (body.flatten ++ (tail.flatten ++ k)) c s = .ok (.bool false, s1)) :
    sStmt prog G (.ifChain c m body tail) k s = sTail prog G tail k s1 := by
  simp only [sStmt, h]; rfl

/-- … neither: a runtime error at the condition, nothing runs -/
theorem chain_nonbool (prog : List Stmt) (G : Nat) (c : Expr) (m : Meta) (body : SBlock) (tail : STail) (k : List Stmt) (s s1 : St) (v : Val)
    (h : eval prog G (body.flatten ++ (tail.flatten ++ k)) c s = .ok (v, s1)) (hv : ∀ b, v ≠ .bool b) :
    sStmt prog G (.ifChain c m body tail) k s = (metaErr c.meta .runtime "if-condition-not-boolean").tagOut s1.out := by
  simp only [sStmt, h, Res.bind]
  cases v <;> simp_all

/-- the rest of a chain: nothing / the final else block / the next condition -/
theorem tail_none (prog : List Stmt) (G : Nat) (k : List Stmt) (s : St) : sTail prog G .none k s = .ok (.normal, s) := by simp [sTail]
theorem tail_else (prog : List Stmt) (G : Nat) (em : Meta) (b : SBlock) (k : List Stmt) (s : St) :
    sTail prog G (.else em b) k s = sBlock prog G b k s := by simp [sTail]
theorem tail_elseIf (prog : List Stmt) (G : Nat) (em : Meta) (c : Expr) (m : Meta) (b : SBlock) (t : STail) (k : List Stmt) (s : St) :
    sTail prog G (.elseIf em c m b t) k s = sStmt prog G (.ifChain c m b t) k s := by simp [sTail, sStmt]

/-- **C02 in any context**: wherever the chain stands (`k`, `ctx`, driver `D`) and whatever ran before (`s`, in
    particular `s.flags`), the flat run from the chain's `যদি` decomposes along the chain's structured meaning:
    on normal completion the run continues with the statement after the whole chain (`k`) in exactly the state the
    meaning gives, with loop stack and scope depth as before -/
theorem chain_anywhere {prog : List Stmt} {α : Type} (h : Structured prog) (D : Driver prog α) (c : Expr) (m : Meta) (body : SBlock)
    (tail : STail) (F : Nat) (k : List Stmt) (s : St) (ctx : Option LC) (il : Bool) (r : Res α)
    (hw : (SStmt.ifChain c m body tail).WF) (hc : (SStmt.ifChain c m body tail).Closed il) (hk : notElse k)
    (hctx : CtxOK ctx il true k s) (hsuf : IsSuffixOf ((SStmt.ifChain c m body tail).flatten ++ k) prog)
    (hs : StOK (GoodFn prog) prog s) (hrun : D.run F ((SStmt.ifChain c m body tail).flatten ++ k) s = r) (hr : r ≠ .fuel) :
    Post D ctx k s F r (sStmt prog F (.ifChain c m body tail) k s) :=
  stmt_refines h D _ F k s ctx il r hw hc hk hctx hsuf hs hrun hr

/-- **whole programs**: a collection-free run that ends (value or error) is the structured meaning of the tree -/
theorem whole_program (tree : SList) (em : Meta) (hw : tree.WF) (hc : tree.Closed false)
    (hp : progWF (tree.flatten ++ [Stmt.eos em]) = true) (w : World) (F : Nat) (r : Res St)
    (hrun : runLoop (tree.flatten ++ [Stmt.eos em]) .never F 0 (tree.flatten ++ [Stmt.eos em]) (St.init w) = r) (hr : r ≠ .fuel) :
    sTop (tree.flatten ++ [Stmt.eos em]) F tree em (St.init w) = r :=
  run_refines tree em hw hc hp (St.init w) (stOK_init _ _ w) F r hrun hr

/-- **from tokens to meaning**: whatever the parser returns, if `unflatten` recognises it (which the check computes for
    every program it runs), a collection-free run that ends is the structured meaning of the recovered tree -/
theorem parsed_program_is_its_tree (ctx : PCtx) (pf : Nat) (toks : List Token) (prog : List Stmt) (hparse : parse ctx pf toks = .ok prog)
    (tree : SList) (em : Meta) (hu : unflatten prog = some (tree, em)) (w : World) (F : Nat) (r : Res St)
    (hrun : runLoop prog .never F 0 prog (St.init w) = r) (hr : r ≠ .fuel) : sTop prog F tree em (St.init w) = r :=
  recognised_program_refines prog tree em hu (parse_wf ctx pf toks prog hparse) w F r hrun hr


/-- **the structured meaning under any collection schedule**: a terminated run of a recognised program under ANY
    collection schedule `g` ends like the structured meaning of its tree — same output and world, or the same error -/
theorem whole_program_any_gc (ctx : PCtx) (pf : Nat) (toks : List Token) (prog : List Stmt) (hparse : parse ctx pf toks = .ok prog)
    (tree : SList) (em : Meta) (hu : unflatten prog = some (tree, em)) (g : GcMode) (w : World) (F : Nat) (r : Res St)
    (hrun : runLoop prog g F 0 prog (St.init w) = r) (hr : r ≠ .fuel) :
    (∃ s s0, r = .ok s ∧ sTop prog F tree em (St.init w) = .ok s0 ∧ s0.out = s.out ∧ s0.world = s.world) ∨
    (∃ e, r = .err e ∧ sTop prog F tree em (St.init w) = .err e) := by
  have hwf := parse_wf ctx pf toks prog hparse
  have hnp : ∀ p, r ≠ .panic p := fun p e => Pakhi.run_never_panics prog hwf g F 0 w p (hrun.trans e)
  have o := runLoop_rel prog g F 0 0 prog _ _ _ (sRel_init w)
  rw [hrun] at o
  cases hr0 : runLoop prog .never F 0 prog (St.init w) with
  | ok s0 =>
    have hs := recognised_program_refines prog tree em hu hwf w F _ hr0 (by simp)
    rw [hr0] at o
    cases r with
    | ok s => obtain ⟨ρ, hrel⟩ := o; exact Or.inl ⟨s, s0, rfl, hs, hrel.out, hrel.world⟩
    | err e => simp [ObsRel] at o
    | panic p => exact (hnp p rfl).elim
    | fuel => exact (hr rfl).elim
  | err e0 =>
    have hs := recognised_program_refines prog tree em hu hwf w F _ hr0 (by simp)
    rw [hr0] at o
    cases r with
    | ok s => simp [ObsRel] at o
    | err e => simp only [ObsRel] at o; subst o; exact Or.inr ⟨e0, rfl, hs⟩
    | panic p => exact (hnp p rfl).elim
    | fuel => exact (hr rfl).elim
  | panic p0 =>
    exact (Pakhi.run_never_panics prog hwf .never F 0 w p0 hr0).elim
  | fuel =>
    rw [hr0] at o
    cases r with
    | ok s => simp [ObsRel] at o
    | err e => simp [ObsRel] at o
    | panic p => exact (hnp p rfl).elim
    | fuel => exact (hr rfl).elim

/-- non-vacuity: `যদি সত্য { দেখাও ১; } অথবা { দেখাও ২; }  লুপ { থামাও; } আবার;` is recognised by `unflatten`, so the hypotheses of
    `whole_program` / `parsed_program_is_its_tree` are satisfiable by a program with a chain and a loop -/
def exampleTree : SList :=
  .cons (.ifChain (.bool true default) default (.mk default (.cons (.simple (.print (.num 0 default) default)) .nil) default)
          (.else default (.mk default (.cons (.simple (.print (.num 0 default) default)) .nil) default)))
    (.cons (.loop default (.mk default (.cons (.brk default) .nil) default) default) .nil)

example : unflatten (exampleTree.flatten ++ [Stmt.eos default]) = some (exampleTree, default) := by rfl
example : progWF (exampleTree.flatten ++ [Stmt.eos default]) = true := by decide
end C02
end Pakhi
