/-
  C02 — an if / else-if / else chain runs exactly one branch, in any context.

  Theorems about the flat machine on `flatten` of ARBITRARY structured code, with the rest of the
  machine state (scopes, heap, enclosing loops, the flags below the top — i.e. every execution
  history) universally quantified:
  * a `যদি` with a true condition pushes `true` and enters its block, with a false condition it
    skips exactly its block — whatever is nested inside — and leaves `false` on top only when an
    `অথবা` follows, a non-boolean condition is a runtime error at the condition's line;
  * an `অথবা` whose chain has not run yet (top flag `false`) pops the flag and enters the branch;
  * `rest_of_chain_skipped`: once a branch has run, ALL remaining branches are skipped without
    evaluating any condition, execution resumes after the whole chain and the flag is popped exactly
    once — this is the statement the fix F11 made true (the pinned code popped twice).
  What is not closed yet is the composition over the *execution of the taken block* (it may leak
  `true` flags, which the theorems above tolerate because they only inspect the top flag after the
  block's own pushes are gone): that is the refinement `flat_refines_struct` (DESIGN.md §4 C02),
  decided meanwhile by the exhaustive chain enumeration of the C02 check against the structured semantics.
-/
import Pakhi.Lemmas.Control

namespace Pakhi
namespace C02

/-- a true condition: `true` is pushed and the block is entered -/
theorem if_true (prog : List Stmt) (f : Nat) (c : Expr) (m : Meta) (rest : List Stmt) (s s1 : St)
    (hc : eval prog f rest c s = .ok (.bool true, s1)) :
    exec prog (f+1) (.if c m :: rest) s = .ok (rest, { s1 with flags := true :: s1.flags }) := by
  simp [exec, hc]

/-- a false condition: exactly the block is skipped; `false` stays on top only if an `অথবা` follows -/
theorem if_false (prog : List Stmt) (f : Nat) (c : Expr) (m : Meta) (body : SBlock) (r : List Stmt) (s s1 : St)
    (hb : body.WF) (hc : eval prog f (body.flatten ++ r) c s = .ok (.bool false, s1)) :
    exec prog (f+1) (.if c m :: (body.flatten ++ r)) s =
      (match r with
       | .else _ :: _ => .ok (r, { s1 with flags := false :: s1.flags })
       | _ => .ok (r, s1)) := by
  have hs : skipBlock (body.flatten ++ r) 0 = .ok r := skipBlock_whole_block body r hb
  simp only [exec, hc, skipBlockInIf, hs]
  cases r with
  | nil => simp [Res.tagOut]
  | cons st t => cases st <;> simp [Res.tagOut]

/-- a non-boolean condition is a runtime error located at the condition -/
theorem if_non_boolean (prog : List Stmt) (f : Nat) (c : Expr) (m : Meta) (rest : List Stmt) (s s1 : St) (v : Val)
    (hc : eval prog f rest c s = .ok (v, s1)) (hv : ∀ b, v ≠ .bool b) :
    ∃ e, exec prog (f+1) (.if c m :: rest) s = .err e ∧ e.cls = .runtime ∧ e.line = c.meta.line ∧ e.file = c.meta.file := by
  cases v <;> first | exact absurd rfl (hv _) | simp [exec, hc, metaErr, mkErr, Res.tagOut]

/-- no branch has run yet (top flag `false`): the `অথবা` pops the flag and enters its branch, which is
    a block for a final else and a `যদি` for an else-if (whose condition is then evaluated: in order) -/
theorem else_enters (prog : List Stmt) (f : Nat) (em : Meta) (rest : List Stmt) (s : St) (fl : List Bool)
    (hf : s.flags = false :: fl) :
    exec prog (f+1) (.else em :: rest) s = .ok (rest, { s with flags := fl }) := by
  simp [exec, hf]

/-- a branch has run (top flag `true`): the branch is skipped, conditions are not evaluated -/
theorem else_skips (prog : List Stmt) (f : Nat) (em : Meta) (body : SBlock) (r : List Stmt) (s : St) (fl : List Bool)
    (hb : body.WF) (hf : s.flags = true :: fl) :
    (∀ c m, exec prog (f+1) (.else em :: .if c m :: (body.flatten ++ r)) s =
      (match r with | .else _ :: _ => .ok (r, s) | _ => .ok (r, { s with flags := fl }))) ∧
    exec prog (f+1) (.else em :: (body.flatten ++ r)) s =
      (match r with | .else _ :: _ => .ok (r, s) | _ => .ok (r, { s with flags := fl })) :=
  ⟨fun c m => else_skips_elseIf prog f em m c body r s fl hb hf, else_skips_else prog f em body r s fl hb hf⟩

/-- after a taken branch the rest of the chain is skipped as a whole, for every chain length and every
    content of the branches, in any state -/
theorem rest_of_chain_skipped (prog : List Stmt) (f : Nat) (tail : STail) (r : List Stmt) (s : St) (fl : List Bool)
    (hw : tail.WF) (hr : notElse r) (hf : s.flags = true :: fl) :
    ∃ n, execN prog (f+1) n (tail.flatten ++ r) s = .ok (r, afterTail tail s fl) :=
  Pakhi.rest_of_chain_skipped prog f tail r s fl hw hr hf

/-- a skipped block is skipped whole, whatever chains, loops, blocks and function definitions it contains -/
theorem skipped_block_is_skipped_whole (b : SBlock) (r : List Stmt) (h : b.WF) : skipBlock (b.flatten ++ r) 0 = .ok r :=
  skipBlock_whole_block b r h

/-- an `অথবা` with no pending conditional is a located runtime error (it used to be an assertion failure) -/
theorem stray_else (prog : List Stmt) (f : Nat) (em : Meta) (rest : List Stmt) (s : St) (hf : s.flags = []) :
    ∃ e, exec prog (f+1) (.else em :: rest) s = .err e ∧ e.cls = .runtime ∧ e.line = em.line := by
  simp [exec, hf, stmtErr, mkErr, Res.tagOut, Stmt.meta]

/-- non-vacuity: the nested chain on which the pinned code panicked is an instance
    (`যদি সত্য { যদি সত্য {A} অথবা {C} } অথবা {D}`: after the inner chain the outer tail is skipped) -/
example : (STail.else ⟨1, []⟩ (.mk ⟨1, []⟩ (.cons (.simple (.print (.str ['D'] ⟨1, []⟩) ⟨1, []⟩)) .nil) ⟨1, []⟩)).WF ∧ notElse [] := by
  simp [STail.WF, SBlock.WF, SList.WF, SStmt.WF, Stmt.isSimple, notElse]

end C02
end Pakhi
