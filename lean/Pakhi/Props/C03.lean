/-
  C03 — break and continue act on exactly the innermost loop and restore scopes.

  Theorems about the flat machine, for every state (every enclosing loop stack, every scope stack):
  * `লুপ` records the statement after it and the current number of scopes;
  * an `আবার;` — the loop's closing one or a continue statement anywhere in the body — jumps to the
    innermost loop's start and discards exactly the scopes opened since that loop was entered;
  * `break_exits_own_loop`: a `থামাও` nested in `k` open blocks of the body of the innermost loop, followed
    textually by ANY well-formed code in those blocks (nested loops with their own `আবার;`, conditional
    continue statements, chains with else-tails, blocks, function definitions), resumes exactly behind
    that loop's own closing `আবার;`, pops exactly that loop and discards exactly the `k` scopes — the
    statement fix F12 made true; no scope outside the loop is touched.
  The interplay with calls (a `ফেরত` from inside a loop of the callee, fix F13) is C05.
-/
import Pakhi.Lemmas.Control

namespace Pakhi
namespace C03

/-- entering a loop -/
theorem loop_enters (prog : List Stmt) (f : Nat) (lm : Meta) (rest : List Stmt) (s : St) :
    exec prog (f+1) (.loop lm :: rest) s =
      .ok (rest, { s with loops := { start := rest, envs := s.scopes.length } :: s.loops }) := by
  simp [exec]

/-- `আবার;` restarts the innermost loop's body and discards the scopes opened inside it; the loop stack
    and every scope that existed when the loop was entered are untouched -/
theorem continue_restarts_innermost (prog : List Stmt) (f : Nat) (cm : Meta) (rest : List Stmt) (s : St) (l : LoopEnv) (ls : List LoopEnv)
    (hl : s.loops = l :: ls) :
    exec prog (f+1) (.cont cm :: rest) s = .ok (l.start, { s with scopes := s.scopes.drop (s.scopes.length - l.envs) }) ∧
    (l.envs ≤ s.scopes.length → (s.scopes.drop (s.scopes.length - l.envs)).length = l.envs) := by
  constructor
  · simp [exec, hl]
  · intro h; simp; omega

/-- the scan behind a `থামাও` ignores everything well-formed that follows in the still-open blocks -/
theorem break_scan_skips_following_code (bm : Meta) (ss : SList) (r : List Stmt) (d : Nat) (h : ss.WF) (hd : 1 ≤ d) :
    breakScan bm (ss.flatten ++ r) d = breakScan bm r d := breakScan_list bm ss r d h hd

/-- … and stops exactly behind the loop's own closing `আবার;` -/
theorem break_scan_finds_own_loop (bm cm : Meta) (c : Closing) (after : List Stmt) (h : c.WF) :
    breakScan bm (c.flatten ++ (.cont cm :: after)) c.depth = .ok after := breakScan_closing bm cm c after h

/-- `থামাও` inside `c.depth` open blocks of the innermost loop's body: execution resumes after that loop,
    exactly that loop is popped and exactly the scopes opened inside it are discarded -/
theorem break_exits_own_loop (prog : List Stmt) (f : Nat) (bm cm : Meta) (c : Closing) (after : List Stmt) (s : St)
    (l : LoopEnv) (ls : List LoopEnv) (hc : c.WF) (hl : s.loops = l :: ls) (hs : s.scopes.length = l.envs + c.depth) :
    exec prog (f+1) (.brk bm :: (c.flatten ++ (.cont cm :: after))) s =
      .ok (after, { s with scopes := s.scopes.drop c.depth, loops := ls }) ∧
    (s.scopes.drop c.depth).length = l.envs := by
  have hd : s.scopes.length - l.envs = c.depth := by omega
  constructor
  · simp only [exec, hl, hd, breakScan_closing bm cm c after hc]
    simp [Res.tagOut]
  · simp; omega

/-- a `থামাও` after which no loop end follows is a located runtime error, not a panic or a hang -/
theorem break_without_loop_end (prog : List Stmt) (f : Nat) (bm em : Meta) (s : St) :
    (∃ e, exec prog (f+1) [.brk bm, .eos em] s = .err e ∧ e.cls = .runtime ∧ e.line = bm.line) ∧
    (∃ e, exec prog (f+1) [.brk bm] s = .err e ∧ e.cls = .runtime ∧ e.line = bm.line) := by
  constructor <;> (cases hl : s.loops <;> simp [exec, hl, breakScan, metaErr, mkErr, Res.tagOut])

/-- an `আবার;` with no enclosing loop is a located runtime error -/
theorem continue_outside_loop (prog : List Stmt) (f : Nat) (cm : Meta) (rest : List Stmt) (s : St) (hl : s.loops = []) :
    ∃ e, exec prog (f+1) (.cont cm :: rest) s = .err e ∧ e.cls = .runtime ∧ e.line = cm.line := by
  simp [exec, hl, stmtErr, mkErr, Res.tagOut, Stmt.meta]

/-- non-vacuity: the shape the pinned code got wrong — after the break a nested loop and a conditional continue -/
example : (Closing.cons (.cons (.loop ⟨2, []⟩ (.mk ⟨2, []⟩ .nil ⟨2, []⟩) ⟨2, []⟩)
      (.cons (.ifChain (.bool true ⟨3, []⟩) ⟨3, []⟩ (.mk ⟨3, []⟩ (.cons (.cont ⟨3, []⟩) .nil) ⟨3, []⟩) .none) .nil))
    ⟨4, []⟩ .none .nil).WF := by
  simp [Closing.WF, SList.WF, SStmt.WF, SBlock.WF, STail.WF, Closing.depth]

end C03
end Pakhi
