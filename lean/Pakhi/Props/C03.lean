/-
  C03 — break and continue act on exactly the innermost loop and restore scopes.

  Theorems about the flat machine, for every state (every enclosing loop stack, every scope stack):
  * `লুপ` records the statement after it and the current number of scopes;
  * an `আবার;` — the loop's closing one or a continue statement anywhere in the body — jumps to the
    innermost loop's start and discards exactly the scopes opened since that loop was entered;
  * `break_exits_own_loop`: a `থামাও` nested in `k` open blocks of the body of the innermost loop, followed
    textually by ANY well-formed code in those blocks (nested loops with their own `আবার;`, conditional
    continue statements, chains with else-tails, blocks, function definitions), resumes exactly behind
    that loop's own closing `আবার;`, pops exactly that loop and discards exactly the `k` scopes — the
    statement fix F12 made true; no scope outside the loop is touched.
  The interplay with calls (a `ফেরত` from inside a loop of the callee, fix F13) is C05.
  Whole loops (refinement, `Lemmas/Refine.lean`): `loop_anywhere` — the flat run in front of a `লুপ`, in any
  structured program / context / state, decomposes along the loop's structured meaning `sIter`: the body
  block is run again after a normal end or an `আবার`, a `থামাও` ends this loop only (`loop_absorbs`: the
  meaning of a loop statement is never a break / continue signal, so an enclosing loop goes on), the run
  resumes at the statement after the loop's closing `আবার;` with the loop stack and the scope depth it had
  before the `লুপ` (`Post`'s `FrameN`), and every block opened in the body is dropped on the way
  (`block_drops_scope`).
-/
import Pakhi.Lemmas.Control
import Pakhi.Lemmas.FrameInv
import Pakhi.Lemmas.Names

namespace Pakhi
namespace C03

/-- entering a loop -/
theorem loop_enters (prog : List Stmt) (f : Nat) (lm : Meta) (rest : List Stmt) (s : St) :
    exec prog (f+1) (.loop lm :: rest) s =
      .ok (rest, { s with loops := { start := rest, envs := s.scopes.length } :: s.loops }) := by
  simp [exec]

/-- `আবার;` restarts the innermost loop's body and discards the scopes opened inside it; the loop stack
    and every scope that existed when the loop was entered are untouched -/
theorem continue_restarts_innermost (prog : List Stmt) (f : Nat) (cm : Meta) (rest : List Stmt) (s : St) (l : LoopEnv) (ls : List LoopEnv)
    (hl : s.loops = l :: ls) :
    exec prog (f+1) (.cont cm :: rest) s = .ok (l.start, { s with scopes := s.scopes.drop (s.scopes.length - l.envs) }) ∧
    (l.envs ≤ s.scopes.length → (s.scopes.drop (s.scopes.length - l.envs)).length = l.envs) := by
  constructor
  · simp [exec, hl]
  · intro h; simp; omega

/-- the scan behind a `থামাও` ignores everything well-formed that follows in the still-open blocks -/
theorem break_scan_skips_following_code (bm : Meta) (ss : SList) (r : List Stmt) (d : Nat) (h : ss.WF) (hd : 1 ≤ d) :
    breakScan bm (ss.flatten ++ r) d = breakScan bm r d := breakScan_list bm ss r d h hd

/-- … and stops exactly behind the loop's own closing `আবার;` -/
theorem break_scan_finds_own_loop (bm cm : Meta) (c : Closing) (after : List Stmt) (h : c.WF) :
    breakScan bm (c.flatten ++ (.cont cm :: after)) c.depth = .ok after := breakScan_closing bm cm c after h

/-- `থামাও` inside `c.depth` open blocks of the innermost loop's body: execution resumes after that loop,
    exactly that loop is popped and exactly the scopes opened inside it are discarded -/
theorem break_exits_own_loop (prog : List Stmt) (f : Nat) (bm cm : Meta) (c : Closing) (after : List Stmt) (s : St)
    (l : LoopEnv) (ls : List LoopEnv) (hc : c.WF) (hl : s.loops = l :: ls) (hs : s.scopes.length = l.envs + c.depth) :
    exec prog (f+1) (.brk bm :: (c.flatten ++ (.cont cm :: after))) s =
      .ok (after, { s with scopes := s.scopes.drop c.depth, loops := ls }) ∧
    (s.scopes.drop c.depth).length = l.envs := by
  have hd : s.scopes.length - l.envs = c.depth := by omega
  constructor
  · simp only [exec, hl, hd, breakScan_closing bm cm c after hc]
    simp [Res.tagOut]
  · simp; omega

/-- a `থামাও` after which no loop end follows is a located runtime error, not a panic or a hang -/
theorem break_without_loop_end (prog : List Stmt) (f : Nat) (bm em : Meta) (s : St) :
    (∃ e, exec prog (f+1) [.brk bm, .eos em] s = .err e ∧ e.cls = .runtime ∧ e.line = bm.line) ∧
    (∃ e, exec prog (f+1) [.brk bm] s = .err e ∧ e.cls = .runtime ∧ e.line = bm.line) := by
  constructor <;> (cases hl : s.loops <;> simp [exec, hl, breakScan, metaErr, mkErr, Res.tagOut])

/-- an `আবার;` with no enclosing loop is a located runtime error -/
theorem continue_outside_loop (prog : List Stmt) (f : Nat) (cm : Meta) (rest : List Stmt) (s : St) (hl : s.loops = []) :
    ∃ e, exec prog (f+1) (.cont cm :: rest) s = .err e ∧ e.cls = .runtime ∧ e.line = cm.line := by
  simp [exec, hl, stmtErr, mkErr, Res.tagOut, Stmt.meta]

/-- non-vacuity: the shape the pinned code got wrong — after the break a nested loop and a conditional continue -/
example : (Closing.cons (.cons (.loop ⟨2, []⟩ (.mk ⟨2, []⟩ .nil ⟨2, []⟩) ⟨2, []⟩)
      (.cons (.ifChain (.bool true ⟨3, []⟩) ⟨3, []⟩ (.mk ⟨3, []⟩ (.cons (.cont ⟨3, []⟩) .nil) ⟨3, []⟩) .none) .nil))
    ⟨4, []⟩ .none .nil).WF := by
  simp [Closing.WF, SList.WF, SStmt.WF, SBlock.WF, STail.WF, Closing.depth]


/-! ### whole loops (refinement) -/

/-- the meaning of a loop statement is never `থামাও` / `আবার`: those act on the innermost loop only -/
theorem loop_absorbs (prog : List Stmt) (G : Nat) (lm : Meta) (body : SBlock) (cm : Meta) (k : List Stmt) (s : St) (sig : Sig) (s' : St)
    (h : sStmt prog G (.loop lm body cm) k s = .ok (sig, s')) : sig = .normal ∨ ∃ c, sig = .ret c := by
  simp only [sStmt] at h
  exact sIter_signal _ G _ sig s' h

/-- one pass: after the body ends normally or with `আবার` the next pass starts; `থামাও` ends the loop and pops
    its record; a `ফেরত` leaves everything -/
theorem loop_pass (body : St → Res (Sig × St)) (n : Nat) (s : St) :
    sIter body (n+1) s = (body s).bind fun x =>
      match x.1 with
      | .normal | .cont => sIter body n x.2
      | .brk => .ok (.normal, { x.2 with loops := x.2.loops.drop 1 })
      | .ret c => .ok (.ret c, x.2) := by
  simp only [sIter]; congr 1

/-- a block means: its statements in a fresh scope, which is dropped however the block ends short of a `ফেরত`
    (normally, by `থামাও`, by `আবার`) -/
theorem block_drops_scope (prog : List Stmt) (G : Nat) (bs be : Meta) (ss : SList) (k : List Stmt) (s : St) :
    sBlock prog G (.mk bs ss be) k s =
      (sList prog G ss (.blockEnd be :: k) { s with scopes := [] :: s.scopes }).bind fun x =>
        match x.1 with
        | .ret c => .ok (.ret c, x.2)
        | sig => .ok (sig, { x.2 with scopes := x.2.scopes.drop 1 }) := by
  simp only [sBlock]; congr 1

/-- **C03 for whole loops, anywhere**: the flat run from a `লুপ` decomposes along the structured meaning; on
    normal completion (a `থামাও` of this loop) it continues at `k`, the statement after the closing `আবার;`,
    with `FrameN`: the loop stack and scope depth from before the loop -/
theorem loop_anywhere {prog : List Stmt} {α : Type} (h : Structured prog) (D : Driver prog α) (lm : Meta) (body : SBlock) (cm : Meta)
    (F : Nat) (k : List Stmt) (s : St) (ctx : Option LC) (il : Bool) (r : Res α)
    (hw : (SStmt.loop lm body cm).WF) (hc : (SStmt.loop lm body cm).Closed il) (hk : notElse k)
    (hctx : CtxOK ctx il true k s) (hsuf : IsSuffixOf ((SStmt.loop lm body cm).flatten ++ k) prog)
    (hs : StOK (GoodFn prog) prog s) (hrun : D.run F ((SStmt.loop lm body cm).flatten ++ k) s = r) (hr : r ≠ .fuel) :
    Post D ctx k s F r (sStmt prog F (.loop lm body cm) k s) :=
  stmt_refines h D _ F k s ctx il r hw hc hk hctx hsuf hs hrun hr

/-! ### Names (whole-body statements, `Lemmas/Names.lean`) -/

/-- **a loop leaves no names behind**: when `লুপ { … } আবার;` is over (its `থামাও` was reached), every scope binds exactly
    the names it bound before the loop — whatever was declared in the body, in blocks inside it, in any iteration -/
theorem loop_restores_names {prog : List Stmt} (h : Structured prog) (G : Nat) (lm : Meta) (body : SBlock) (cm : Meta) (k : List Stmt)
    (s s' : St) (sig : Sig) (hw : body.WF) (hsuf : IsSuffixOf ((SStmt.loop lm body cm).flatten ++ k) prog)
    (hs : StOK (GoodFn prog) prog s) (hrun : sStmt prog G (.loop lm body cm) k s = .ok (sig, s')) (hsig : ∀ c, sig ≠ .ret c) :
    K s' = K s := by
  have hn : ∀ g, g ≤ G → NamesInv prog g := fun g _ => namesInv_all h g g (Nat.le_refl _)
  simp only [SStmt.flatten, List.cons_append, List.append_assoc, List.nil_append] at hsuf
  simp only [sStmt] at hrun
  have hs0 : StOK (GoodFn prog) prog { s with loops := { start := body.flatten ++ (.cont cm :: k), envs := s.scopes.length } :: s.loops } :=
    ⟨hs.heap, hs.scopes, fun l hl => by
      rcases List.mem_cons.mp hl with rfl | h1
      · exact ⟨hsuf.tail, hs.scopes.length_pos⟩
      · exact hs.loops l h1⟩
  have := (n_iter h G hn body cm k (nBlock h G hn body) hw hsuf.tail G _ hs0 sig s' hrun).2.2.2 hsig
  have h2 : NE ({ s with loops := { start := body.flatten ++ (.cont cm :: k), envs := s.scopes.length } :: s.loops } : St) s' := by simpa using this
  exact h2
end C03
end Pakhi
