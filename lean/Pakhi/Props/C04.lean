/-
  C04 — variables are block scoped: declare, shadow, assign, expire.

  Theorems on the scope stack shared by every statement: a declaration binds in the innermost
  scope and is what a read sees; an assignment updates exactly the innermost scope that binds the
  name (every other name, and every scope before the binder, is unchanged) and is rejected when no
  scope binds it; `{` opens an empty scope, `}` discards it, after which every name reads as
  before the block; an undeclared read is a located runtime error; `নাম x;` holds nil.
  The lifting of these facts along whole program runs is the control refinement
  (`Lemmas/Refine.lean`): `block_anywhere` — the flat run of a block anywhere in a structured program
  is the block's structured meaning (statements in a fresh scope that is dropped at the end, however the
  block ends; each loop pass runs the body block anew, so each iteration starts with a fresh scope), and
  after normal completion the scope depth is what it was (`Post`'s `FrameN.depth`).
-/
import Pakhi.Lemmas.Assoc
import Pakhi.Lemmas.FrameInv
import Pakhi.Lemmas.Names
import Pakhi.Lemmas.FrameX5
namespace Pakhi
namespace C04

/-- a declaration binds the name in the innermost scope: it is what a read now sees -/
theorem declare_then_lookup (scopes sc' : List Scope) (n : Str) (v : Val) (h : declareVar scopes n v = .ok sc') :
    lookupVar sc' n = some v ∧ (∀ n2, n2 ≠ n → lookupVar sc' n2 = lookupVar scopes n2) ∧
    sc'.length = scopes.length ∧ sc'.drop 1 = scopes.drop 1 := by
  cases scopes with
  | nil => simp [declareVar] at h
  | cons s rest =>
    simp [declareVar] at h; subst h
    refine ⟨by simp [lookupVar, assocGet_set_same], ?_, by simp, by simp⟩
    intro n2 hne
    simp [lookupVar, assocGet_set_other s n n2 v (Ne.symm hne)]

/-- an assignment updates the innermost visible declaration of the name and nothing else -/
theorem assign_innermost : ∀ (scopes : List Scope) (n : Str) (v old : Val), lookupVar scopes n = some old →
    ∃ sc', assignVar scopes n v = some sc' ∧ lookupVar sc' n = some v ∧
      (∀ n2, n2 ≠ n → lookupVar sc' n2 = lookupVar scopes n2) ∧ sc'.length = scopes.length ∧
      (∀ k : Nat, (∀ j : Nat, j ≤ k → ∀ s, scopes[j]? = some s → assocGet s n = none) → sc'[k]? = scopes[k]?)
  | [], n, v, old, h => by simp [lookupVar] at h
  | s :: rest, n, v, old, h => by
      cases hs : assocGet s n with
      | some x =>
        refine ⟨assocSet s n v :: rest, by simp [assignVar, hs], by simp [lookupVar, assocGet_set_same], ?_, by simp, ?_⟩
        · intro n2 hne; simp [lookupVar, assocGet_set_other s n n2 v (Ne.symm hne)]
        · intro k hk
          have := hk 0 (Nat.zero_le _) s (by simp)
          simp [hs] at this
      | none =>
        have h' : lookupVar rest n = some old := by simpa [lookupVar, hs] using h
        obtain ⟨sc', h1, h2, h3, h4, h5⟩ := assign_innermost rest n v old h'
        refine ⟨s :: sc', by simp [assignVar, hs, h1], by simp [lookupVar, hs, h2], ?_, by simp [h4], ?_⟩
        · intro n2 hne; simp [lookupVar, h3 n2 hne]
        · intro k hk
          cases k with
          | zero => simp
          | succ k =>
            simp
            apply h5 k
            intro j hj s' hs'
            exact hk (j+1) (by omega) s' (by simpa using hs')

/-- assigning a name with no visible declaration is rejected -/
theorem assign_undeclared : ∀ (scopes : List Scope) (n : Str) (v : Val), lookupVar scopes n = none → assignVar scopes n v = none
  | [], _, _, _ => by simp [assignVar]
  | s :: rest, n, v, h => by
      cases hs : assocGet s n with
      | some x => simp [lookupVar, hs] at h
      | none =>
        have : lookupVar rest n = none := by simpa [lookupVar, hs] using h
        simp [assignVar, hs, assign_undeclared rest n v this]

/-- a block's declarations shadow for exactly the extent of the block: after the block's scope is
    popped every name reads as before the block -/
theorem block_scope_expires (scopes : List Scope) (inner : Scope) (n : Str) :
    lookupVar ((inner :: scopes).drop 1) n = lookupVar scopes n := by simp

/-- inside the block the innermost declaration wins -/
theorem shadow_innermost (scopes : List Scope) (inner : Scope) (n : Str) (v : Val) (h : assocGet inner n = some v) :
    lookupVar (inner :: scopes) n = some v := by simp [lookupVar, h]

/-- `{` opens an empty scope and `}` discards the innermost one -/
theorem exec_block_delimiters (prog : List Stmt) (f : Nat) (rest : List Stmt) (s : St) (m : Meta) :
    exec prog (f+1) (.blockStart m :: rest) s = .ok (rest, { s with scopes := [] :: s.scopes }) ∧
    (2 ≤ s.scopes.length → exec prog (f+1) (.blockEnd m :: rest) s = .ok (rest, { s with scopes := s.scopes.drop 1 })) := by
  constructor
  · simp [exec]
  · intro h
    have : ¬ s.scopes.length ≤ 1 := by omega
    simp [exec, this]

/-- reading a name with no visible declaration is a runtime error located at the current statement -/
theorem read_undeclared (prog : List Stmt) (f : Nat) (st : Stmt) (rest : List Stmt) (tok : Token) (m : Meta) (s : St)
    (h : lookupVar s.scopes tok.lexeme = none) :
    ∃ e, eval prog (f+1) (st :: rest) (.var tok m) s = .err e ∧ e.cls = .runtime ∧ e.line = st.meta.line ∧ e.file = st.meta.file := by
  simp [eval, h, stmtErr, mkErr, Res.tagOut]

/-- `নাম x;` declares `x` in the innermost scope, holding nil -/
theorem decl_without_init (prog : List Stmt) (f : Nat) (cur : List Stmt) (v : Token) (s : St) (sc : Scope) (r : List Scope)
    (h : s.scopes = sc :: r) :
    execAssign prog (f+1) cur { kind := .first, var := v, indexes := [], init := none } s =
      .ok { s with scopes := assocSet sc v.lexeme .nil :: r } := by
  simp [execAssign, h, declareVar]

/-- **blocks anywhere**: the flat run of `{ … }` at any place of a structured program decomposes along the
    block's structured meaning (`C03.block_drops_scope`); on normal completion the scope depth is restored -/
theorem block_anywhere {prog : List Stmt} {α : Type} (h : Structured prog) (D : Driver prog α) (b : SBlock) (F : Nat) (k : List Stmt) (s : St)
    (ctx : Option LC) (il : Bool) (r : Res α) (hw : b.WF) (hc : b.Closed il) (hctx : CtxOK ctx il false k s)
    (hsuf : IsSuffixOf (b.flatten ++ k) prog) (hs : StOK (GoodFn prog) prog s) (hrun : D.run F (b.flatten ++ k) s = r) (hr : r ≠ .fuel) :
    Post D ctx k s F r (sBlock prog F b k s) :=
  block_refines h D b F k s ctx il r hw hc hctx hsuf hs hrun hr

/-! ### Names (whole-body statements, `Lemmas/Names.lean`) -/


/-- **names declared in a block are gone after it, and no other scope gained or lost a name**: however a block is left —
    by running off its end, by `থামাও` or by `আবার` — every scope binds exactly the names it bound before the block
    (`K s` lists, per scope, the names bound); this is the whole-body statement over arbitrary nested bodies, calls included -/
theorem block_restores_names {prog : List Stmt} (h : Structured prog) (G : Nat) (b : SBlock) (k : List Stmt) (s s' : St) (sig : Sig)
    (hw : b.WF) (hsuf : IsSuffixOf (b.flatten ++ k) prog) (hs : StOK (GoodFn prog) prog s)
    (hrun : sBlock prog G b k s = .ok (sig, s')) (hsig : ∀ c, sig ≠ .ret c) : K s' = K s := by
  have := (nBlock h G (fun g _ => namesInv_all h g g (Nat.le_refl _)) b k s hw hsuf hs sig s' hrun).2.2.2 hsig
  have h2 : NE s s' := by simpa using this
  exact h2

/-- a statement that completes can only add names to the innermost scope: every other scope binds exactly the names it bound -/
theorem statement_declares_only_in_innermost_scope {prog : List Stmt} (h : Structured prog) (G : Nat) (t : SStmt) (k : List Stmt)
    (s s' : St) (sig : Sig) (hw : t.WF) (hsuf : IsSuffixOf (t.flatten ++ k) prog) (hs : StOK (GoodFn prog) prog s)
    (hrun : sStmt prog G t k s = .ok (sig, s')) (hsig : ∀ c, sig ≠ .ret c) :
    ∃ ext, K s' = grow ext (K s) := by
  have := (nStmt h G (fun g _ => namesInv_all h g g (Nat.le_refl _)) t k s hw hsuf hs sig s' hrun).2.2.2 hsig
  have h2 : NT s s' := by simpa using this
  exact h2

/-- non-vacuity of `grow`: only the head (innermost scope) changes -/
example : grow ["x".toList] [["a".toList], ["g".toList]] = [["a".toList, "x".toList], ["g".toList]] := by decide

/-- **… and nothing else**: outer-scope bindings whose names a program never mentions (scalars, functions) are never read and
    never changed by it — whatever it declares, assigns, calls, loops over or collects: the run with them is the run without them,
    and they are still there, unchanged, at the end -/
theorem unmentioned_bindings_untouched (X : Scope) (hX : NoRefs X) (prog : List Stmt) (hprog : avL (keysOf X) prog) (g : GcMode)
    (f k : Nat) (cur : List Stmt) (s : St) (hd : Dom (keysOf X) s) (hcur : avL (keysOf X) cur) :
    runLoop prog g f k cur (TX X s) = (runLoop prog g f k cur s).rn (TX X) :=
  runLoop_frameX X hX prog hprog g f k cur s hd hcur

/-- one statement: executing it with the extra bindings present gives the same continuation and the same state plus the bindings -/
theorem statement_ignores_unmentioned_bindings (X : Scope) (prog : List Stmt) (hprog : avL (keysOf X) prog)
    (f : Nat) (cur : List Stmt) (s : St) (hd : Dom (keysOf X) s) (hcur : avL (keysOf X) cur) :
    exec prog f cur (TX X s) = (exec prog f cur s).rn (fun x => (x.1, TX X x.2)) :=
  (fxInv X prog hprog f).exec cur s hd hcur

end C04
end Pakhi
